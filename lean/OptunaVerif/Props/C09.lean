import OptunaVerif.Lemmas.Repro
import OptunaVerif.Lemmas.ReproCopy
import OptunaVerif.Model.GACache
import OptunaVerif.Generated.TrialIdSites
/-!
# C09 — optimisation is reproducible from the seed and independent of the storage

*Partial by nature* (DESIGN.md §3 C09, §4): what is proved here, for all objective programs, all
histories, all id offsets and all splits of a run, is that the **loop** (`Study.optimize` →
ask / suggest / report / should_prune / tell) never lets a storage id reach the sampler or pruner,
so that the id-erased history is a function of the id-erased history before — for *any* sampler and
pruner that are functions of (their in-process state, the id-erased history).  That every concrete
numpy-based sampler is such a function is NOT a theorem: it is established by the `_trial_id`
site inventory (`sites_allowed`, regenerated from the source on every run) and by the differential
matrix of `verif/props/c09.py`.  The one sampler that is not — the GA parent cache, F7 — is
modelled separately (`GACache`) and its failure is proved.
-/
namespace OptunaVerif.C09
open OptunaVerif OptunaVerif.Storage OptunaVerif.Repro

/-! ## the loop is independent of the storage -/

/-- **loop_storage_independent.**  Two storages related by an id-renaming simulation (same
id-erased study, whatever the ids) stay related through any run — any objective program, any
sampler/pruner pair, any number of `optimize` calls of any lengths — and leave the sampler/pruner
objects in the same state.  In particular the id-erased histories are equal after every call. -/
theorem loop_storage_independent {ρ : Type} {S₁ S₂ : Store} (sim : Sim S₁ S₂) (A : Algo ρ)
    (obj : Nat → Prog) (reseed : Bool) (calls : List Nat) (s₁ : S₁.σ) (s₂ : S₂.σ) (r : ρ)
    (h : sim.R s₁ s₂) :
    S₁.view (runCalls S₁ A obj reseed calls s₁ r).1 = S₂.view (runCalls S₂ A obj reseed calls s₂ r).1 ∧
    (runCalls S₁ A obj reseed calls s₁ r).2 = (runCalls S₂ A obj reseed calls s₂ r).2 := by
  obtain ⟨h1, h2⟩ := runCalls_sim sim A obj reseed calls s₁ s₂ r h
  exact ⟨sim.view_eq h1, h2⟩

/-- ... and after every single trial (every prefix of the run). -/
theorem loop_storage_independent_every_step {ρ : Type} {S₁ S₂ : Store} (sim : Sim S₁ S₂)
    (A : Algo ρ) (obj : Nat → Prog) (k : Nat) (s₁ : S₁.σ) (s₂ : S₂.σ) (r : ρ) (h : sim.R s₁ s₂) :
    S₁.view (runTrials S₁ A obj k s₁ r).1 = S₂.view (runTrials S₂ A obj k s₂ r).1 ∧
    (runTrials S₁ A obj k s₁ r).2 = (runTrials S₂ A obj k s₂ r).2 := by
  obtain ⟨h1, h2⟩ := runTrials_sim sim A obj k s₁ s₂ r h
  exact ⟨sim.view_eq h1, h2⟩

/-- **loop_refines_erased.**  The storage contract model, in *any* state (any other studies and
trials before, between and around the study's own: any id offsets, contiguous or not) and at any
study id, shows after a run exactly what the canonical id-free storage shows after the same run
started from the id-erased study. -/
theorem loop_refines_erased {ρ : Type} (A : Algo ρ) (obj : Nat → Prog) (reseed ir : Bool)
    (calls : List Nat) (s : Spec) (sid : Nat) (v : View) (r : ρ) (h : specView sid s = some v) :
    specView sid (runCalls (specStore sid ir) A obj reseed calls s r).1 =
      some (runCalls (viewStore ir) A obj reseed calls v r).1 ∧
    (runCalls (specStore sid ir) A obj reseed calls s r).2 =
      (runCalls (viewStore ir) A obj reseed calls v r).2 :=
  loop_storage_independent (specSim sid ir) A obj reseed calls s v r h

/-- **Storage independence for the contract model**: two storages holding the same id-erased
study under different study ids and arbitrary trial-id offsets produce equal id-erased histories
(every field of every trial, and the study's attributes) and equal sampler states. -/
theorem loop_storage_independent_spec {ρ : Type} (A : Algo ρ) (obj : Nat → Prog) (reseed ir : Bool)
    (calls : List Nat) (s₁ s₂ : Spec) (sid₁ sid₂ : Nat) (v : View) (r : ρ)
    (h₁ : specView sid₁ s₁ = some v) (h₂ : specView sid₂ s₂ = some v) :
    specView sid₁ (runCalls (specStore sid₁ ir) A obj reseed calls s₁ r).1 =
      specView sid₂ (runCalls (specStore sid₂ ir) A obj reseed calls s₂ r).1 ∧
    (runCalls (specStore sid₁ ir) A obj reseed calls s₁ r).2 =
      (runCalls (specStore sid₂ ir) A obj reseed calls s₂ r).2 := by
  obtain ⟨a1, a2⟩ := loop_refines_erased A obj reseed ir calls s₁ sid₁ v r h₁
  obtain ⟨b1, b2⟩ := loop_refines_erased A obj reseed ir calls s₂ sid₂ v r h₂
  exact ⟨a1.trans b1.symm, a2.trans b2.symm⟩

/-! ## splitting a run into several optimize calls -/

theorem optimizeSeq_false {ρ : Type} (S : Store) (A : Algo ρ) (obj : Nat → Prog) (n : Nat)
    (s : S.σ) (r : ρ) : optimizeSeq S A obj false n s r = runTrials S A obj n s r := by
  induction n with
  | zero => rfl
  | succ n ih => simp only [optimizeSeq, runTrials, ih]

theorem runTrials_add {ρ : Type} (S : Store) (A : Algo ρ) (obj : Nat → Prog) (a b : Nat)
    (s : S.σ) (r : ρ) :
    runTrials S A obj (a + b) s r =
      runTrials S A obj b (runTrials S A obj a s r).1 (runTrials S A obj a s r).2 := by
  induction b with
  | zero => rfl
  | succ b ih =>
    show runTrials S A obj ((a + b) + 1) s r = _
    simp only [runTrials, ih]

/-- **split_irrelevant.**  With `reseed_sampler_rng = False` (what `_optimize` passes on the
`n_jobs == 1` path — tied to the source by `reseed_flag_tied`), a run split into several
`optimize` calls is the same run: same storage state, same sampler state. -/
theorem split_irrelevant {ρ : Type} (S : Store) (A : Algo ρ) (obj : Nat → Prog) (calls : List Nat)
    (s : S.σ) (r : ρ) :
    runCalls S A obj false calls s r = runTrials S A obj calls.sum s r := by
  induction calls generalizing s r with
  | nil => rfl
  | cons n rest ih =>
    simp only [runCalls, List.sum_cons, optimizeSeq_false, ih, runTrials_add]

/-- The flag that `_optimize` passes to `_optimize_sequential` on the sequential path, as read from
optuna/study/_optimize.py by the translator on this run, is `False`. -/
theorem reseed_flag_tied : Generated.TrialIdSites.reseedSequential = false := by decide

/-- Consequence for the real flag: any two splits with the same total are the same run. -/
theorem split_irrelevant_tied {ρ : Type} (S : Store) (A : Algo ρ) (obj : Nat → Prog)
    (c₁ c₂ : List Nat) (hsum : c₁.sum = c₂.sum) (s : S.σ) (r : ρ) :
    runCalls S A obj Generated.TrialIdSites.reseedSequential c₁ s r =
      runCalls S A obj Generated.TrialIdSites.reseedSequential c₂ s r := by
  rw [reseed_flag_tied, split_irrelevant, split_irrelevant, hsum]

/-- **optimisation_storage_and_split_independent_partial** — the property itself, as far as it can
be a theorem.  Full-strength statement (NOT provable here, kept for the record):

    for every built-in sampler `s` constructed with a seed, every built-in pruner `p`, every
    deterministic objective and any two storages `b₁ b₂` (any backend or proxy, any pre-existing
    studies/trials, any split of the run into optimize calls):
      history (run s p objective b₁ calls₁) = history (run s p objective b₂ calls₂)

What is proved: the same statement for every sampler/pruner pair that is an `Algo`, i.e. a function
of its own in-process state and of the id-erased history, on every storage that refines the
contract model, with the sequential path's real reseed flag.  What is missing: that each concrete
numpy/scipy/torch sampler and pruner body *is* such a function (supported by `sites_allowed` and the
differential matrix only), and it is false for NSGA-II today (`ga_cache_ids_wrong`, F7). -/
theorem optimisation_storage_and_split_independent_partial {ρ : Type} (A : Algo ρ)
    (obj : Nat → Prog) (ir : Bool) (c₁ c₂ : List Nat) (hsum : c₁.sum = c₂.sum) (s₁ s₂ : Spec)
    (sid₁ sid₂ : Nat) (v : View) (r : ρ)
    (h₁ : specView sid₁ s₁ = some v) (h₂ : specView sid₂ s₂ = some v) :
    specView sid₁ (runCalls (specStore sid₁ ir) A obj Generated.TrialIdSites.reseedSequential c₁ s₁ r).1 =
      specView sid₂ (runCalls (specStore sid₂ ir) A obj Generated.TrialIdSites.reseedSequential c₂ s₂ r).1 ∧
    (runCalls (specStore sid₁ ir) A obj Generated.TrialIdSites.reseedSequential c₁ s₁ r).2 =
      (runCalls (specStore sid₂ ir) A obj Generated.TrialIdSites.reseedSequential c₂ s₂ r).2 := by
  rw [split_irrelevant_tied (specStore sid₁ ir) A obj c₁ c₂ hsum s₁ r]
  exact loop_storage_independent_spec A obj _ ir c₂ s₁ s₂ sid₁ sid₂ v r h₁ h₂

/-! ## the GA parent cache -/

open GACache in
/-- `study._get_trials()` is ordered by number and numbers are 0,1,2,… (C01 `numbers_dense`). -/
def NumberDense (trials : List GACache.T) : Prop :=
  ∀ (i : Nat) (t : GACache.T), trials[i]? = some t → t.number = i

open GACache in
theorem read_of_dense (trials : List T) (hd : NumberDense trials) (f : T → Nat)
    (parents : List T) (hp : ∀ p ∈ parents, p ∈ trials) (hf : ∀ p ∈ parents, f p = p.number) :
    read trials (parents.map f) = some parents := by
  induction parents with
  | nil => rfl
  | cons p rest ih =>
    have hmem := hp p (List.mem_cons_self ..)
    obtain ⟨i, hi⟩ := List.getElem?_of_mem hmem
    have hnum := hd i p hi
    have hidx : trials[f p]? = some p := by rw [hf p (List.mem_cons_self ..), hnum]; exact hi
    have hrest := ih (fun q hq => hp q (List.mem_cons_of_mem _ hq))
      (fun q hq => hf q (List.mem_cons_of_mem _ hq))
    simp only [List.map_cons, GACache.read, hidx, hrest]

open GACache in
/-- **ga_cache_roundtrip.**  A cache of trial *numbers* (what NSGA-III stores) read back from a
number-dense trial list returns exactly the selected parents — on every storage, whatever the ids. -/
theorem ga_cache_roundtrip (trials parents : List T) (hd : NumberDense trials)
    (hp : ∀ p ∈ parents, p ∈ trials) : roundTrip writeNumbers trials parents = some parents :=
  read_of_dense trials hd _ parents hp (fun _ _ => rfl)

open GACache in
/-- The cache of `_trial_id`s (what `BaseGASampler` stores) is read back correctly when ids happen
to equal numbers — a fresh in-memory or journal storage holding one study, which is all the test
suite exercises. -/
theorem ga_cache_ids_ok_when_ids_are_numbers (trials parents : List T) (hd : NumberDense trials)
    (hp : ∀ p ∈ parents, p ∈ trials) (hid : ∀ t ∈ trials, t.id = t.number) :
    roundTrip writeIds trials parents = some parents :=
  read_of_dense trials hd _ parents hp (fun p hpm => hid p (hp p hpm))

open GACache in
theorem contiguous_get (off n i : Nat) :
    (contiguous off n)[i]? = if i < n then some ⟨off + i, i⟩ else none := by
  induction n with
  | zero => simp [contiguous]
  | succ n ih =>
    have hlen : ∀ m, (contiguous off m).length = m := by
      intro m; induction m with
      | zero => rfl
      | succ m ihm => simp [contiguous, ihm]
    simp only [contiguous]
    by_cases h1 : i < n
    · rw [List.getElem?_append_left (by rw [hlen]; exact h1), ih]
      simp [h1, Nat.lt_succ_of_lt h1]
    · rw [List.getElem?_append_right (by rw [hlen]; omega), hlen]
      by_cases h2 : i = n
      · subst h2; simp
      · have : i - n ≠ 0 := by omega
        have h3 : ¬ i < n + 1 := by omega
        simp only [h3, if_false]
        cases hk : i - n with
        | zero => exact absurd hk this
        | succ k => simp

open GACache in
/-- **ga_cache_ids_wrong** (F7, for every offset).  On a storage where the study's trial ids are
its numbers shifted by any `off ≥ 1` (SQLite: 1; any storage that already holds `off` trials of
other studies), reading back the cache that `get_parent_population` wrote NEVER returns the
selected parents, whatever non-empty selection it was: the read falls off the list
(`IndexError`) or returns other trials. -/
theorem ga_cache_ids_wrong (off n : Nat) (hoff : 1 ≤ off) (parents : List T)
    (hne : parents ≠ []) (hp : ∀ p ∈ parents, p ∈ contiguous off n) :
    roundTrip writeIds (contiguous off n) parents ≠ some parents := by
  cases parents with
  | nil => exact absurd rfl hne
  | cons p rest =>
    intro hcontra
    have hmem := hp p (List.mem_cons_self ..)
    obtain ⟨i, hi⟩ := List.getElem?_of_mem hmem
    rw [contiguous_get] at hi
    split at hi
    · simp only [Option.some.injEq] at hi
      subst hi
      simp only [roundTrip, writeIds, List.map_cons, GACache.read] at hcontra
      rw [contiguous_get] at hcontra
      split at hcontra
      · rename_i t r ht hr
        split at ht
        · simp only [Option.some.injEq, List.cons.injEq] at hcontra ht
          obtain ⟨h1, _⟩ := hcontra
          rw [← ht] at h1
          simp only [T.mk.injEq] at h1
          omega
        · simp at ht
      · simp at hcontra
    · simp at hi

open GACache in
/-- **ga_cache_ids_wrong_witness** (the replayed F7 witnesses).  SQLite-like ids 1..4 for trials
0..3, selected parents = trials 0 and 2: the second call returns trials 1 and 3.  A storage that
already holds 5 trials of another study: the second call raises `IndexError`. -/
theorem ga_cache_ids_wrong_witness :
    roundTrip writeIds (contiguous 1 4) [⟨1, 0⟩, ⟨3, 2⟩] = some [⟨2, 1⟩, ⟨4, 3⟩] ∧
    roundTrip writeIds (contiguous 5 4) [⟨5, 0⟩, ⟨7, 2⟩] = none ∧
    roundTrip writeNumbers (contiguous 5 4) [⟨5, 0⟩, ⟨7, 2⟩] = some [⟨5, 0⟩, ⟨7, 2⟩] := by
  decide

/-! ## copy_study -/

/-- **copy_preserves_fields.**  `copy_study` (create the study, copy the study attributes, then a
fold of `create_new_trial(template)` over the source's trials) into ANY state of ANY backend that
implements the storage contract reproduces the id-erased study: every trial with every field
(number, state, values, parameters with distributions, user and system attributes, intermediate
values incl. NaN/±∞, start/complete timestamps), the directions and both attribute dictionaries.
Hypotheses: the name is free; no trial of the destination refers to the id the new study gets
(true in every reachable state); the source's numbers are dense (C01 `numbers_dense`); attribute
dictionaries have distinct keys (they are Python dicts); and — only for backends that check
templates against the study (`ir`, looseness U1) — the source's distributions are pairwise
compatible. -/
theorem copy_preserves_fields (src dst : Spec) (sidFrom : Nat) (name : String) (ir : Bool)
    (st : StudyS) (hsrc : src.study? sidFrom = some st) (hfree : dst.nameTaken name = false)
    (hwf : ∀ t ∈ dst.trials, t.study ≠ dst.studies.length)
    (hnum : ∀ (n : Nat) (p : Nat × TrialS), (src.trialsOf sidFrom)[n]? = some p → p.2.number = n)
    (hsys : (st.systemAttrs.map Prod.fst).Nodup) (husr : (st.userAttrs.map Prod.fst).Nodup)
    (hacc : Accepts ir ((src.trialsOf sidFrom).map Prod.snd)) :
    ∃ sidTo v, (copyStudy src sidFrom dst name ir).2 = some sidTo ∧
      specView sidTo (copyStudy src sidFrom dst name ir).1 = some v ∧
      v.trials = (src.trialsOf sidFrom).map (fun p => eraseT p.2) ∧
      v.study = { name := name, directions := st.directions, userAttrs := st.userAttrs,
                  systemAttrs := st.systemAttrs, paramDist := [] } := by
  have hcreate : step dst (.createStudy name st.directions) =
      ({ dst with studies := dst.studies ++ [some ⟨name, st.directions, [], [], []⟩] },
        .newId dst.studies.length) := by
    simp only [step, hfree, Bool.false_eq_true, if_false]
  let d1 : Spec := { dst with studies := dst.studies ++ [some ⟨name, st.directions, [], [], []⟩] }
  have hst1 : d1.study? dst.studies.length = some ⟨name, st.directions, [], [], []⟩ := by
    simp [d1, Spec.study?]
  obtain ⟨hst2, htr2⟩ := setStudySys_spec st.systemAttrs d1 dst.studies.length _ hst1
  obtain ⟨hst3, htr3⟩ := setStudyUser_spec st.userAttrs _ dst.studies.length _ hst2
  simp only at hst3
  rw [foldl_set_nodup st.systemAttrs [] (by simpa using hsys)] at hst3
  rw [foldl_set_nodup st.userAttrs [] (by simpa using husr)] at hst3
  simp only [List.nil_append] at hst3
  let d3 := setStudyUser (setStudySys d1 dst.studies.length st.systemAttrs) dst.studies.length st.userAttrs
  have htr : d3.trials = dst.trials := by
    show (setStudyUser _ _ _).trials = _
    rw [htr3, htr2]
  have hempty : d3.trialsOf dst.studies.length = [] := by
    show trialsFrom _ d3.trials 0 = []
    rw [htr]
    exact trialsFrom_nil_of_ne _ _ _ hwf
  obtain ⟨hst4, htr4⟩ := addTrials_spec ir ((src.trialsOf sidFrom).map Prod.snd) hacc
    ((src.trialsOf sidFrom).map Prod.snd) (fun _ h => h) d3 dst.studies.length _ hst3 rfl
    (by rw [hempty]; intro p hp; simp at hp)
  rw [hempty] at htr4
  simp only [List.map_nil, List.nil_append, List.length_nil] at htr4
  have htrials : (List.map (fun p : Nat × TrialS => eraseT p.2)
      ((addTrials d3 dst.studies.length ir ((src.trialsOf sidFrom).map Prod.snd)).trialsOf dst.studies.length)) =
      (src.trialsOf sidFrom).map (fun p => eraseT p.2) := by
    have : (List.map (fun p : Nat × TrialS => eraseT p.2)
        ((addTrials d3 dst.studies.length ir ((src.trialsOf sidFrom).map Prod.snd)).trialsOf dst.studies.length)) =
        (((addTrials d3 dst.studies.length ir ((src.trialsOf sidFrom).map Prod.snd)).trialsOf
          dst.studies.length).map Prod.snd).map eraseT := by
      rw [List.map_map]; rfl
    rw [this, htr4, copied_eq _ 0 _ (by
      intro n t h
      rw [List.getElem?_map] at h
      cases hp : (src.trialsOf sidFrom)[n]? with
      | none => simp [hp] at h
      | some p =>
        simp only [hp, Option.map_some, Option.some.injEq] at h
        subst h
        simpa using hnum n p hp)]
    rw [List.map_map]; rfl
  refine ⟨dst.studies.length,
    ⟨{ name := name, directions := st.directions, userAttrs := st.userAttrs,
       systemAttrs := st.systemAttrs, paramDist := [] },
     (src.trialsOf sidFrom).map (fun p => eraseT p.2)⟩, ?_, ?_, rfl, rfl⟩
  · simp only [copyStudy, hsrc, hcreate]
  · simp only [copyStudy, hsrc, hcreate]
    unfold specView
    rw [hst4]
    simp only [Option.map_some, Option.some.injEq, View.mk.injEq, true_and]
    exact htrials

/-! ## every use of a storage trial id in sampler / pruner code is of a modelled kind -/

open Generated.TrialIdSites in
/-- The two sites of the F7 defect: the parent cache stores `_trial_id`s in a study attribute and
uses the cached values as list indices. -/
def f7Site (s : Generated.TrialIdSites.Site) : Bool :=
  s.file == "optuna/samplers/_ga/_base.py" && s.func == "BaseGASampler.get_parent_population" &&
    (s.kind == .storedInStudyAttr || s.kind == .usedAsIndex)

open Generated.TrialIdSites in
/-- What the loop model allows: the id is handed back to the storage as the trial-id argument of a
call on the current trial (`Write`s of `Algo`), nothing else. -/
def allowedSite (s : Generated.TrialIdSites.Site) : Bool := s.kind == .storageArg || f7Site s

open Generated.TrialIdSites in
/-- **sites_allowed.**  In the tree under test (inventory regenerated on this run), every read of
`._trial_id` and every use of a local `trial_id` under optuna/samplers and optuna/pruners is the
trial-id argument of a storage call — except the two F7 sites.  A sampler or pruner that starts to
key memory by, compare, format or index with a storage id breaks this obligation. -/
theorem sites_allowed : sites.all allowedSite = true := by decide

open Generated.TrialIdSites in
/-- The F7 sites are there (the exception is not vacuous). -/
theorem f7_sites_present : (sites.filter f7Site).length = 2 := by decide

/-! ## non-vacuity: concrete storages, sampler, objective -/

namespace Demo

def dist : Dist := { kind := 2, log := false, body := "[\"a\",\"b\"]" }

/-- A toy seeded sampler/pruner: the "RNG" is a counter; it remembers something in a trial system
attr and in a study system attr; it prunes every other trial. -/
def algo : Algo Nat where
  beforeTrial := fun r _ _ => (r + 1, [.trialSys "seen" "1"])
  sample := fun r vw _ _ _ => (r + 3, [.studySys "last" (if vw.trials.length % 2 == 0 then "e" else "o")],
    if vw.trials.length == 3 then "b" else "a")
  prune := fun r vw _ => (r, [], vw.trials.length % 2 == 0)
  afterTrial := fun r _ _ _ _ => (r + 5, [])
  reseed := fun r => r + 100

def obj : Nat → Prog := fun number =>
  .suggest "x" dist (fun v =>
    if v == "a" then
      .report 0 (.fin 1) (.report 0 (.fin 2) (.shouldPrune (fun b => if b then .prune else .ret [.fin 3])))
    else if number == 1 then .fail
    else .setUserAttr "u" v (.ret [.nan]))

/-- storage A: the study is alone (ids = numbers). -/
def sA : Spec := (step Storage.init (.createStudy "s" [1])).1

/-- storage B: two other studies and three foreign trials first (one of them in a deleted study),
so the study has id 2 and its trials get ids 3, 4, … -/
def sB : Spec :=
  [Op.createStudy "other" [2], .createStudy "gone" [1], .createTrial 0 none false,
   .createTrial 1 none false, .createTrial 0 none false, .deleteStudy 1, .createStudy "s" [1]].foldl
    (fun s op => (step s op).1) Storage.init

example : specView 0 sA = specView 2 sB := by decide
example : specView 0 sA = some ⟨⟨"s", [1], [], [], []⟩, []⟩ := by decide

/-- different ids ... -/
example : ((runCalls (specStore 0 false) algo obj false [2, 1] sA 0).1.trialsOf 0).map Prod.fst = [0, 1, 2] ∧
    ((runCalls (specStore 2 true) algo obj false [3] sB 0).1.trialsOf 2).map Prod.fst = [3, 4, 5] := by
  decide

/-- ... and a history that exercises pruning (with the last intermediate value as value), a
failure, a NaN return (→ FAIL), a duplicate report, sampler writes. -/
example : ((runCalls (viewStore false) algo obj false [3] ⟨⟨"s", [1], [], [], []⟩, []⟩ 0).1.trials.map
    (fun t => (t.state, t.values, t.inter))) =
    [(.complete, some [.fin 3], [(0, .fin 1)]), (.pruned, some [.fin 1], [(0, .fin 1)]), (.fail, none, [])] := by
  decide

/-- reseeding on every call (what `n_jobs > 1` does) makes a split run differ: the hypothesis
`reseed = false` of `split_irrelevant` is needed. -/
example : (runCalls (viewStore false) algo obj true [1, 1] ⟨⟨"s", [1], [], [], []⟩, []⟩ 0).2 ≠
    (runCalls (viewStore false) algo obj true [2] ⟨⟨"s", [1], [], [], []⟩, []⟩ 0).2 := by
  decide

/-- copy_study of the finished demo study into storage B's state. -/
example : (copyStudy (runCalls (specStore 0 false) algo obj false [3] sA 0).1 0 sB "copy" true).2 = some 3 := by
  decide

end Demo

end OptunaVerif.C09
