import OptunaVerif.Generated.GaMethods
/-!
# C09 (translator tie) — the generation / parent-cache methods of the GA samplers *as written in the source today*

`Generated/GaMethods.lean` is regenerated on every run by `verif/translators/tga.py` from `optuna/samplers/_ga/_base.py`
(`BaseGASampler.get_trial_generation`, `get_population`, `get_parent_population`), `optuna/samplers/nsgaii/_sampler.py`
(`select_parent`, `sample_relative`) and `optuna/samplers/_nsgaiii/_sampler.py` (the cache sites).  Proved here for ALL
inputs: `<method>_shape` (the generated body is literally the expected term), `interp_<method>` (the interpreter of
`Model/GaIR.lean` on it equals the hand model of `Model/GACache.lean`), and the cache theorems of `Props/C09.lean` restated
for the interpreter: the round trip of the cache succeeds IFF the written ids are list indices (F7), generation numbers do
not depend on `_trial_id`, populations are functions of the id-erased history.

This file deliberately does not import `Props/C09.lean` (whose site inventory `sites_allowed` changes with every edit of a
`_trial_id` use): an edit of the GA methods must show up HERE by name.
-/
set_option linter.unusedSimpArgs false
set_option linter.unusedVariables false
namespace OptunaVerif.C09Gen
open OptunaVerif OptunaVerif.GACache OptunaVerif.GaIR
open OptunaVerif.Generated

instance {α : Type} [DecidableEq α] : DecidableEq (Except Err α) := fun a b =>
  match a, b with
  | .ok x, .ok y => if h : x = y then isTrue (by rw [h]) else isFalse (by intro e; cases e; exact h rfl)
  | .error x, .error y => if h : x = y then isTrue (by rw [h]) else isFalse (by intro e; cases e; exact h rfl)
  | .ok _, .error _ => isFalse (by intro e; cases e)
  | .error _, .ok _ => isFalse (by intro e; cases e)

@[simp] theorem gaSem_cond (c) : (gaSem c).cond = evalGCond := rfl
@[simp] theorem gaSem_act (c) : (gaSem c).act = doGAct c := rfl
@[simp] theorem gaSem_iter (c) : (gaSem c).iter = iterG := rfl
@[simp] theorem gaSem_retv (c) : (gaSem c).retv = retG := rfl

theorem loopAux_cons_next {E V : Type} (f : E → E × Flow V) (b : E → E) (rest : List (E → E)) (env env' : E)
    (h : f (b env) = (env', .next)) : loopAux f (b :: rest) env = loopAux f rest env' := by
  simp [loopAux, h]
theorem loopAux_cons_cont {E V : Type} (f : E → E × Flow V) (b : E → E) (rest : List (E → E)) (env env' : E)
    (h : f (b env) = (env', .cont)) : loopAux f (b :: rest) env = loopAux f rest env' := by
  simp [loopAux, h]

/-! ## `get_trial_generation` -/

/-- the body of the scan loop, as generated -/
def scanBody : GStmt :=
  block [
    (.act (.genFromLoopAttr (-1))),
    (.ite (.cmp .lt .generation .maxGen) .cont (.ite (.cmp .gt .generation .maxGen)
      (block [(.act (.setMaxGen .generation)), (.act (.setMaxCount (.lit 1)))])
      (.act (.setMaxCount (.add .maxCount (.lit 1))))))]

/-- **getTrialGeneration_shape**: attr lookup with early return; COMPLETE trials; `(0, 0)`; the reversed scan; the assert;
`count < population_size ? max : max + 1`; the attr write to `trial._trial_id`; return -/
theorem getTrialGeneration_shape : GaMethods.getTrialGeneration = block [
    (.act .genFromTrialAttr),
    (.ite (.not .genIsNone) (.ret .generation) .skip),
    (.act (.getTrials (.some [.complete]))),
    (.act (.initMax 0 0)),
    (.loop .trialsReversed scanBody),
    (.assert (.not .popSizeIsNone)),
    (.ite (.cmp .lt .maxCount .popSize) (.act (.setGen .maxGen)) (.act (.setGen (.add .maxGen (.lit 1))))),
    (.act (.writeTrialAttr .trialId)),
    (.ret .generation)] := rfl

theorem scan_loop (l : List GT) :
    ∀ (env : GEnv) (mx : Int) (cnt : Nat), env.maxGen = some mx → env.maxCount = some (cnt : Int) →
      ∃ env', loopAux (fun e => exec (gaSem noCalls) scanBody e)
          (l.map (fun t => fun (e : GEnv) => { e with t := some t })) env = (env', .next) ∧
        env'.maxGen = some (scanGen l (mx, cnt)).1 ∧ env'.maxCount = some ((scanGen l (mx, cnt)).2 : Int) ∧
        env'.inp = env.inp ∧ env'.writes = env.writes := by
  induction l with
  | nil => intro env mx cnt h1 h2; exact ⟨env, by simp [loopAux], by simp [scanGen, h1], by simp [scanGen, h2], rfl, rfl⟩
  | cons t rest ih =>
    intro env mx cnt h1 h2
    have hg : genOrD (-1) t = t.genOr := by
      unfold GT.genOr genOrD; cases t.gen <;> rfl
    by_cases hlt : t.genOr < mx
    · have hstep : exec (gaSem noCalls) scanBody { env with t := some t } =
          ({ env with t := some t, gen := some (some t.genOr) }, .cont) := by
        simp [scanBody, block, exec, andThen, doGAct, evalGCond, evalIExp, Cmp.eval, h1, hg, hlt]
      obtain ⟨env', e1, e2, e3, e4, e5⟩ := ih { env with t := some t, gen := some (some t.genOr) } mx cnt h1 h2
      refine ⟨env', ?_, by simpa [scanGen, hlt] using e2, by simpa [scanGen, hlt] using e3, e4, e5⟩
      simp only [List.map_cons]
      rw [loopAux_cons_cont _ _ _ _ _ hstep]; exact e1
    · by_cases hgt : t.genOr > mx
      · have hstep : exec (gaSem noCalls) scanBody { env with t := some t } =
            ({ env with t := some t, gen := some (some t.genOr), maxGen := some t.genOr, maxCount := some 1 }, .next) := by
          simp [scanBody, block, exec, andThen, doGAct, evalGCond, evalIExp, Cmp.eval, h1, hg, hlt, hgt]
        obtain ⟨env', e1, e2, e3, e4, e5⟩ := ih
          { env with t := some t, gen := some (some t.genOr), maxGen := some t.genOr, maxCount := some 1 } t.genOr 1 rfl rfl
        refine ⟨env', ?_, by simpa [scanGen, hlt, hgt] using e2, by simpa [scanGen, hlt, hgt] using e3, e4, e5⟩
        simp only [List.map_cons]
        rw [loopAux_cons_next _ _ _ _ _ hstep]; exact e1
      · have hstep : exec (gaSem noCalls) scanBody { env with t := some t } =
            ({ env with t := some t, gen := some (some t.genOr), maxCount := some ((cnt : Int) + 1) }, .next) := by
          simp [scanBody, block, exec, andThen, doGAct, evalGCond, evalIExp, Cmp.eval, h1, h2, hg, hlt, hgt]
        obtain ⟨env', e1, e2, e3, e4, e5⟩ := ih
          { env with t := some t, gen := some (some t.genOr), maxCount := some ((cnt : Int) + 1) } mx (cnt + 1) h1 (by simp)
        refine ⟨env', ?_, by simpa [scanGen, hlt, hgt] using e2, by simpa [scanGen, hlt, hgt] using e3, e4, e5⟩
        simp only [List.map_cons]
        rw [loopAux_cons_next _ _ _ _ _ hstep]; exact e1

theorem filterStates_complete (trials : List GT) : filterStates (some [.complete]) trials = completeOf trials := by
  simp only [filterStates, completeOf]
  apply List.filter_congr
  intro t _
  cases t.state <;> rfl

/-- **interp_getTrialGeneration**: `get_trial_generation` as generated is `trialGeneration`: the attribute if set (no
write); else the scan over the COMPLETE trials (newest first) and ONE write `(trial._trial_id, generation)` — for every
trial list, every trial, every population size -/
theorem interp_getTrialGeneration (n : Nat) (trials : List GT) (cur : GT) :
    interpTrialGeneration GaMethods.getTrialGeneration (some n) trials cur =
      .ok ((trialGeneration n trials cur).1, (trialGeneration n trials cur).2.toList) := by
  rw [interpTrialGeneration, getTrialGeneration_shape]
  cases hg : cur.gen with
  | some g =>
    simp [block, exec, andThen, doGAct, evalGCond, retG, GEnv.ofIn, genAttr, hg, finishGen, trialGeneration]
  | none =>
    obtain ⟨env', e1, e2, e3, e4, e5⟩ := scan_loop (completeOf trials).reverse
      { GEnv.ofIn ⟨trials, cur, 0, some n⟩ [] with
        gen := some none, trialsL := some (completeOf trials), maxGen := some 0, maxCount := some 0 } 0 0 rfl rfl
    simp only [block, exec, andThen, gaSem_cond, gaSem_act, gaSem_iter, gaSem_retv, doGAct, evalGCond, iterG, GEnv.ofIn, genAttr, hg,
      Option.map_none, Option.isNone, Bool.not_true, filterStates_complete] at e1 ⊢
    rw [e1]
    simp only [GEnv.ofIn] at e4 e5
    have hp : env'.inp.popSize = some n := by rw [e4]
    have hid : env'.inp.cur.id = cur.id := by rw [e4]
    by_cases hlt : (scanGen (completeOf trials).reverse (0, 0)).2 < n
    · have hlt' : ((scanGen (completeOf trials).reverse (0, 0)).2 : Int) < (n : Int) := by exact_mod_cast hlt
      simp [evalIExp, evalGCond, Cmp.eval, doGAct, retG, e2, e3, e5, hp, hid, hlt, hlt', finishGen, trialGeneration, hg]
    · have hlt' : ¬ ((scanGen (completeOf trials).reverse (0, 0)).2 : Int) < (n : Int) := by
        intro h; exact hlt (by exact_mod_cast h)
      simp [evalIExp, evalGCond, Cmp.eval, doGAct, retG, e2, e3, e5, hp, hid, hlt, hlt', finishGen, trialGeneration, hg]

/-- without a population size the generated method asserts (only when the attribute is not set yet) -/
theorem interp_getTrialGeneration_noPopSize (trials : List GT) (cur : GT) (h : cur.gen = none) :
    interpTrialGeneration GaMethods.getTrialGeneration none trials cur = .error .assertion := by
  rw [interpTrialGeneration, getTrialGeneration_shape]
  obtain ⟨env', e1, e2, e3, e4, e5⟩ := scan_loop (completeOf trials).reverse
    { GEnv.ofIn ⟨trials, cur, 0, none⟩ [] with
      gen := some none, trialsL := some (completeOf trials), maxGen := some 0, maxCount := some 0 } 0 0 rfl rfl
  simp only [block, exec, andThen, gaSem_cond, gaSem_act, gaSem_iter, gaSem_retv, doGAct, evalGCond, iterG, GEnv.ofIn, genAttr, h,
    Option.map_none, Option.isNone, Bool.not_true, filterStates_complete] at e1 ⊢
  rw [e1]
  simp only [GEnv.ofIn] at e4
  have hp : env'.inp.popSize = none := by rw [e4]
  simp [hp, finishGen]

/-! ## `get_population` -/

/-- **getPopulation_shape**: COMPLETE trials whose generation attribute equals the argument -/
theorem getPopulation_shape : GaMethods.getPopulation = .ret (.populationOf (.some [.complete])) := rfl

theorem interp_getPopulation (trials : List GT) (g : Nat) :
    interpPopulation GaMethods.getPopulation trials g = .ok (population trials g) := by
  simp only [interpPopulation, getPopulation_shape, exec, gaSem_retv, retG, GEnv.ofIn, finishTrials, filterStates_complete,
    completeOf, population, List.filter_filter]
  congr 1
  apply List.filter_congr
  intro t _
  simp [Bool.and_comm]

/-! ## `get_parent_population` -/

/-- **getParentPopulation_shape**: `[]` for generation 0; key `prefix + str(generation)`; hit: READ the cached values as
INDICES into `study._get_trials(deepcopy=False)`; miss: `select_parent`, WRITE the `_trial_id`s, return the selection -/
theorem getParentPopulation_shape : GaMethods.getParentPopulation = block [
    (.ite (.cmp .eq .genArg (.lit 0)) (.ret .emptyList) .skip),
    (.act .loadStudyAttrs),
    (.act (.lookupCache .prefixPlusGen)),
    (.ite (.not .cachedIsNone)
      (block [(.act (.getTrials .none)), (.ret (.readCache .byIndex))])
      (block [(.act .callSelectParent), (.act (.writeCache .prefixPlusGen .ids)), (.ret .parentPopulation)]))] := rfl

/-- the hand model's answer as an `Except` (`none` = `IndexError`) -/
def liftPP : Option (List GT) × Store → Except Err (List GT × Store)
  | (some l, st) => .ok (l, st)
  | (none, _) => .error .indexError

/-- `get_parent_population` with a `select_parent` that may itself raise -/
theorem interp_getParentPopulation_partial (select : Nat → Store → Except Err (List GT × Store)) (trials : List GT)
    (st : Store) (g : Nat) :
    interpParentPopulation GaMethods.getParentPopulation select trials st g =
      if g = 0 then .ok ([], st)
      else match st.get? g with
        | some ids => liftPP (readG trials ids, st)
        | none => match select g st with
          | .ok (ps, st1) => .ok (ps, st1.set g (ps.map (·.id)))
          | .error e => .error e := by
  rw [interpParentPopulation, getParentPopulation_shape]
  by_cases h0 : g = 0
  · subst h0
    simp [block, exec, andThen, evalGCond, evalIExp, Cmp.eval, retG, GEnv.ofIn, finishTrials]
  · have h0' : ¬ ((g : Int) = 0) := by exact_mod_cast h0
    simp only [block, exec, andThen, gaSem_cond, gaSem_act, gaSem_retv, evalGCond, evalIExp, Cmp.eval, doGAct, GEnv.ofIn, h0, h0',
      decide_false, if_false, keyOf]
    cases hc : st.get? g with
    | some ids =>
      simp only [Option.isNone, Bool.not_false, retG, filterStates]
      cases hr : readG trials ids <;> simp [finishTrials, liftPP]
    | none =>
      simp only [Option.isNone, Bool.not_true]
      cases hs : select g st with
      | error e => simp [finishTrials]
      | ok r => obtain ⟨ps, st1⟩ := r; simp [retG, finishTrials]

/-- **interp_getParentPopulation**: `get_parent_population` as generated is `parentPopulation` (for every selection
function, trial list, attribute store and generation) -/
theorem interp_getParentPopulation (select : Nat → Store → List GT × Store) (trials : List GT) (st : Store) (g : Nat) :
    interpParentPopulation GaMethods.getParentPopulation (fun g s => .ok (select g s)) trials st g =
      liftPP (parentPopulation select trials st g) := by
  rw [interp_getParentPopulation_partial]
  unfold parentPopulation
  by_cases h0 : g = 0
  · simp [h0, liftPP]
  · simp only [h0, if_false]
    cases st.get? g <;> simp [liftPP]

/-! ## NSGA-II: `select_parent`, `sample_relative` -/

/-- **selectParent_shape**: `elite(study, get_population(study, generation - 1) + get_parent_population(study, generation - 1))` -/
theorem selectParent_shape : GaMethods.selectParent = ⟨.sub .genArg (.lit 1), .sub .genArg (.lit 1), true⟩ := rfl

/-- **interp_nsga2Parents**: NSGA-II's parent population, the generated `get_parent_population` calling the generated
`select_parent` recursively down to generation 0, is the hand model's recursion — every elite strategy, trial list, store,
generation -/
theorem interp_nsga2Parents (elite : List GT → List GT) (trials : List GT) (g : Nat) :
    ∀ (st : Store), interpNsga2Parents GaMethods.gaProg elite trials g st = liftPP (nsga2Parents elite trials g st) := by
  have hP : GaMethods.gaProg.getParentPopulation = GaMethods.getParentPopulation := rfl
  have hQ : GaMethods.gaProg.getPopulation = GaMethods.getPopulation := rfl
  induction g with
  | zero =>
    intro st
    simp [interpNsga2Parents, hP, interp_getParentPopulation_partial, nsga2Parents, liftPP]
  | succ g ih =>
    intro st
    have hexp : evalGenExp (g + 1) (.sub .genArg (.lit 1)) = .ok (g : Int) := by
      simp [evalGenExp, evalIExp, GEnv.ofIn]
    simp only [interpNsga2Parents, hP, hQ, interp_getParentPopulation_partial, nsga2Parents, Nat.succ_ne_zero, if_false]
    cases hc : st.get? (g + 1) with
    | some ids => rfl
    | none =>
      simp only [GaMethods.gaProg, selectParent_shape, hexp, and_self, if_true, interp_getPopulation]
      have ih' := ih st
      simp only [GaMethods.gaProg, selectParent_shape] at ih'
      rw [ih']
      cases hr : nsga2Parents elite trials g st with
      | mk o st' =>
        cases o with
        | none => simp [liftPP]
        | some pp => simp [liftPP]

/-- **sampleRelative_shape**: the generation of the trial, its parent population, `{}` when that is empty, else the
child-generation strategy on it -/
theorem sampleRelative_shape : GaMethods.sampleRelative = block [
    (.act .callTrialGeneration), (.act .callParentPopulation),
    (.ite .parentsEmpty (.ret .emptyDict) .skip), (.ret .childGeneration)] := rfl

theorem interp_sampleRelative (elite : List GT → List GT) (n : Nat) (trials : List GT) (st : Store) (cur : GT) :
    interpSampleRelative GaMethods.gaProg elite (some n) trials st cur =
      match nsga2Parents elite trials (trialGeneration n trials cur).1.toNat st with
      | (some ps, st') => .ok ((trialGeneration n trials cur).2.toList, some ps, st')
      | (none, _) => .error .indexError := by
  have hP : GaMethods.gaProg.sampleRelative = GaMethods.sampleRelative := rfl
  have hT : GaMethods.gaProg.getTrialGeneration = GaMethods.getTrialGeneration := rfl
  simp only [interpSampleRelative, hP, hT, sampleRelative_shape, block, exec, andThen, gaSem_cond, gaSem_act, gaSem_retv, doGAct,
    interp_getTrialGeneration, interp_nsga2Parents, GEnv.ofIn, List.nil_append]
  cases hr : nsga2Parents elite trials (trialGeneration n trials cur).1.toNat st with
  | mk o st' =>
    cases o with
    | none => simp [liftPP, finishSample]
    | some ps =>
      cases ps with
      | nil => simp [liftPP, evalGCond, retG, finishSample]
      | cons p rest => simp [liftPP, evalGCond, retG, finishSample]

/-! ## NSGA-III -/

/-- **nsga3_cache_discipline**: NSGA-III's population cache stores trial NUMBERS (`[t.number for t in population]`), reads
them back as indices into `study.get_trials(deepcopy=False)`, looks the key up with the default `(-1, [])`, writes only when
no trial of the generation is RUNNING; `sample_relative` writes `parent_generation + 1` to `trial._trial_id` -/
theorem nsga3_cache_discipline : GaMethods.nsga3 = ⟨true, .byIndex, .numbers, true, true, true⟩ := rfl

/-! ## the cache theorems of C09, for the interpreter of the generated methods -/

theorem store_get_set (st : Store) (g : Nat) (v : List Nat) : (st.set g v).get? g = some v := by
  induction st with
  | nil => simp [Store.set, Store.get?]
  | cons kv rest ih =>
    obtain ⟨k, w⟩ := kv
    by_cases hk : k = g
    · simp [Store.set, Store.get?, hk]
    · simp [Store.set, Store.get?, hk, ih]

/-- READ by index returns the written list iff every written id is the index of its trial -/
theorem readG_ids_iff (trials ps : List GT) :
    readG trials (ps.map (·.id)) = some ps ↔ ∀ p ∈ ps, trials[p.id]? = some p := by
  induction ps with
  | nil => simp [readG]
  | cons p rest ih =>
    simp only [List.map_cons, readG, List.mem_cons, forall_eq_or_imp]
    cases h1 : trials[p.id]? with
    | none => simp
    | some t =>
      cases h2 : readG trials (rest.map (·.id)) with
      | none =>
        simp only [reduceCtorEq, false_iff, not_and]
        intro _ hall
        rw [← ih] at hall
        rw [h2] at hall
        cases hall
      | some r =>
        simp only [Option.some.injEq, List.cons.injEq]
        constructor
        · rintro ⟨e1, e2⟩
          exact ⟨by rw [e1], ih.mp (by rw [h2, e2])⟩
        · rintro ⟨e1, e2⟩
          have := ih.mpr e2
          rw [h2] at this
          exact ⟨by simpa using e1, by simpa using this⟩

/-- **gen_cache_roundtrip_iff_ids_are_indices** (F7, exact).  `get_parent_population` as generated, for a generation
`g ≥ 1` whose cache entry is missing: the first call returns the selection `ps` and stores `[p._trial_id for p in ps]`;
a second call (cache hit, whatever `select_parent` would now do) returns exactly `ps` **iff** every written id is the
index of its trial in the number-ordered trial list (`trials[p._trial_id] is p`).  So the cache is right on storages
whose trial ids are 0-based and dense per study, and wrong on every other (`gen_cache_wrong_on_shifted_ids`). -/
theorem gen_cache_roundtrip_iff_ids_are_indices (select : Nat → Store → List GT × Store)
    (select' : Nat → Store → Except Err (List GT × Store)) (trials : List GT) (st : Store) (g : Nat)
    (hg : g ≠ 0) (hmiss : st.get? g = none) :
    let ps := (select g st).1
    let st1 := (select g st).2.set g (ps.map (·.id))
    interpParentPopulation GaMethods.getParentPopulation (fun g s => .ok (select g s)) trials st g = .ok (ps, st1) ∧
    (interpParentPopulation GaMethods.getParentPopulation select' trials st1 g = .ok (ps, st1) ↔
      ∀ p ∈ ps, trials[p.id]? = some p) := by
  intro ps st1
  constructor
  · rw [interp_getParentPopulation_partial]
    simp [hg, hmiss, ps, st1]
  · rw [interp_getParentPopulation_partial]
    simp only [hg, if_false, st1, store_get_set]
    rw [← readG_ids_iff]
    cases hr : readG trials (ps.map (·.id)) with
    | none => simp [liftPP]
    | some l => simp [liftPP]

/-- the ids of a study's trials when they are 0-based and dense: `trials[i]` has id `i` -/
def IdsAreIndices (trials : List GT) : Prop := ∀ (i : Nat) (t : GT), trials[i]? = some t → t.id = i

/-- … so on a storage that numbers the trials of each study from 0 (a fresh in-memory / journal storage holding one study)
the cache hit returns the parents that were selected -/
theorem gen_cache_right_on_index_ids (trials ps : List GT) (hd : IdsAreIndices trials) (hp : ∀ p ∈ ps, p ∈ trials) :
    ∀ p ∈ ps, trials[p.id]? = some p := by
  intro p hpm
  obtain ⟨i, hi⟩ := List.getElem?_of_mem (hp p hpm)
  rw [hd i p hi]; exact hi

/-- **gen_cache_wrong_on_shifted_ids** (F7 for every offset): when the study's ids are its numbers shifted by any
`off ≥ 1` (SQLite: 1; a storage that already holds `off` trials), the hit NEVER returns a non-empty selection `ps` -/
theorem gen_cache_wrong_on_shifted_ids (select' : Nat → Store → Except Err (List GT × Store)) (trials ps : List GT)
    (off : Nat) (hoff : 1 ≤ off) (hshift : ∀ (i : Nat) (t : GT), trials[i]? = some t → t.id = i + off ∧ t.number = i)
    (hne : ps ≠ []) (hp : ∀ p ∈ ps, p ∈ trials) (st : Store) (g : Nat) (hg : g ≠ 0) :
    interpParentPopulation GaMethods.getParentPopulation select' trials (st.set g (ps.map (·.id))) g ≠
      .ok (ps, st.set g (ps.map (·.id))) := by
  intro hcontra
  rw [interp_getParentPopulation_partial] at hcontra
  simp only [hg, if_false, store_get_set] at hcontra
  have hread : readG trials (ps.map (·.id)) = some ps := by
    cases hr : readG trials (ps.map (·.id)) with
    | none => rw [hr] at hcontra; simp [liftPP] at hcontra
    | some l => rw [hr] at hcontra; simp only [liftPP, Except.ok.injEq, Prod.mk.injEq] at hcontra; rw [hcontra.1]
  have hall := (readG_ids_iff trials ps).mp hread
  cases ps with
  | nil => exact hne rfl
  | cons p rest =>
    have h1 := hall p (List.mem_cons_self ..)
    obtain ⟨i, hi⟩ := List.getElem?_of_mem (hp p (List.mem_cons_self ..))
    have a := hshift i p hi
    have b := hshift p.id p h1
    omega

/-- the replayed F7 witnesses through the interpreter: SQLite-like ids 1..4 for trials 0..3, selected parents = trials 0
and 2 — the second call returns trials 1 and 3; a storage that already holds 5 trials — the second call raises `IndexError` -/
def w1 : List GT := [⟨1, 0, some 0, .complete⟩, ⟨2, 1, some 0, .complete⟩, ⟨3, 2, some 0, .complete⟩, ⟨4, 3, some 0, .complete⟩]
def w5 : List GT := [⟨5, 0, some 0, .complete⟩, ⟨6, 1, some 0, .complete⟩, ⟨7, 2, some 0, .complete⟩, ⟨8, 3, some 0, .complete⟩]
def pick02 (l : List GT) : Nat → Store → Except Err (List GT × Store) := fun _ s => .ok ([l.getD 0 default, l.getD 2 default], s)

/-- **gen_f7_witness** (the negation, on today's code) -/
theorem gen_f7_witness :
    (match interpParentPopulation GaMethods.getParentPopulation (pick02 w1) w1 [] 1 with
      | .ok (_, st1) => (match interpParentPopulation GaMethods.getParentPopulation (pick02 w1) w1 st1 1 with
        | .ok (l, _) => l.map (·.number)
        | .error _ => [])
      | .error _ => []) = [1, 3] ∧
    (match interpParentPopulation GaMethods.getParentPopulation (pick02 w5) w5 [] 1 with
      | .ok (_, st1) => (match interpParentPopulation GaMethods.getParentPopulation (pick02 w5) w5 st1 1 with
        | .ok _ => false
        | .error e => e == .indexError)
      | .error _ => false) = true := by decide

/-- NSGA-III's discipline (numbers written, read as indices — `nsga3_cache_discipline`) round-trips on every number-dense
trial list, whatever the ids -/
theorem gen_nsga3_roundtrip (trials ps : List GT) (hd : ∀ (i : Nat) (t : GT), trials[i]? = some t → t.number = i)
    (hp : ∀ p ∈ ps, p ∈ trials) : roundTripBy GaMethods.nsga3.write GaMethods.nsga3.read trials ps = .ok ps := by
  have hrd : readG trials (ps.map (·.number)) = some ps := by
    induction ps with
    | nil => rfl
    | cons p rest ih =>
      obtain ⟨i, hi⟩ := List.getElem?_of_mem (hp p (List.mem_cons_self ..))
      have hn := hd i p hi
      have := ih (fun q hq => hp q (List.mem_cons_of_mem _ hq))
      simp only [List.map_cons, readG, hn, hi, this]
  simp [roundTripBy, nsga3_cache_discipline, hrd]
example : roundTripBy GaMethods.nsga3.write GaMethods.nsga3.read w5 [w5.getD 0 default, w5.getD 2 default] =
    .ok [w5.getD 0 default, w5.getD 2 default] := by decide

/-- what a REPAIR of F7 looks like in the IR: READ by looking the cached `_trial_id` up (`ReadKind.byIdLookup`) instead of
indexing.  With that read the round trip holds on every storage (ids only have to be distinct) — this is the positive
statement that becomes provable, while `gen_f7_witness` / `getParentPopulation_shape` stop holding for such a source -/
theorem lookupBy_id_self (trials : List GT) (hnd : (trials.map (·.id)).Nodup) :
    ∀ (ps : List GT), (∀ p ∈ ps, p ∈ trials) → lookupBy (·.id) trials (ps.map (·.id)) = .ok ps := by
  have hfind : ∀ p ∈ trials, trials.find? (fun t => t.id == p.id) = some p := by
    intro p hp
    induction trials with
    | nil => cases hp
    | cons a rest ih =>
      simp only [List.map_cons, List.nodup_cons] at hnd
      by_cases ha : a = p
      · subst ha; simp [List.find?]
      · have hpr : p ∈ rest := by
          cases hp with
          | head => exact absurd rfl ha
          | tail _ h => exact h
        have hne : (a.id == p.id) = false := by
          apply beq_false_of_ne
          intro e
          exact hnd.1 (e ▸ List.mem_map.mpr ⟨p, hpr, rfl⟩)
        simp only [List.find?, hne]
        exact ih hnd.2 hpr
  intro ps
  induction ps with
  | nil => intro _; rfl
  | cons p rest ih =>
    intro hp
    simp only [List.map_cons, lookupBy, hfind p (hp p (List.mem_cons_self ..)),
      ih (fun q hq => hp q (List.mem_cons_of_mem _ hq))]

theorem repaired_read_roundtrip (trials ps : List GT) (hnd : (trials.map (·.id)).Nodup) (hp : ∀ p ∈ ps, p ∈ trials) :
    roundTripBy .ids .byIdLookup trials ps = .ok ps := by
  simp [roundTripBy, lookupBy_id_self trials hnd ps hp]
example : roundTripBy .ids .byIdLookup w5 [w5.getD 0 default, w5.getD 2 default] = .ok [w5.getD 0 default, w5.getD 2 default] ∧
    roundTripBy .ids .byIndex w5 [w5.getD 0 default, w5.getD 2 default] = .error .indexError := by decide

/-! ### generation numbers and populations do not depend on `_trial_id` -/

theorem genOr_erase (t : GT) : ({ t with id := 0 } : GT).genOr = t.genOr := rfl

theorem scanGen_erase (l : List GT) : ∀ acc, scanGen (eraseIds l) acc = scanGen l acc := by
  induction l with
  | nil => intro acc; rfl
  | cons t rest ih =>
    intro acc
    obtain ⟨mx, cnt⟩ := acc
    simp only [eraseIds, List.map_cons, scanGen, genOr_erase]
    have := ih
    simp only [eraseIds] at this
    by_cases h1 : t.genOr < mx <;> by_cases h2 : t.genOr > mx <;> simp [h1, h2, this]

theorem completeOf_erase (l : List GT) : completeOf (eraseIds l) = eraseIds (completeOf l) := by
  simp only [completeOf, eraseIds, List.filter_map]
  rfl

/-- **gen_generation_independent_of_ids**: the generation the generated `get_trial_generation` answers is a function of the
id-erased history and of the trial's own attribute — `_trial_id` appears only as the TARGET of the attribute write -/
theorem gen_generation_independent_of_ids (n : Nat) (trials : List GT) (cur : GT) :
    (∃ g, interpTrialGeneration GaMethods.getTrialGeneration (some n) trials cur =
        .ok (g, if cur.gen.isSome then [] else [(cur.id, g)]) ∧
      ∃ ws, interpTrialGeneration GaMethods.getTrialGeneration (some n) (eraseIds trials) { cur with id := 0 } = .ok (g, ws)) := by
  refine ⟨(trialGeneration n trials cur).1, ?_, ?_⟩
  · rw [interp_getTrialGeneration]
    cases hg : cur.gen <;> simp [trialGeneration, hg]
  · refine ⟨(trialGeneration n (eraseIds trials) { cur with id := 0 }).2.toList, ?_⟩
    rw [interp_getTrialGeneration]
    congr 2
    cases hg : cur.gen with
    | some g => simp [trialGeneration, hg]
    | none =>
      simp only [trialGeneration, hg, completeOf_erase]
      have : (eraseIds (completeOf trials)).reverse = eraseIds (completeOf trials).reverse := by
        simp [eraseIds, List.map_reverse]
      rw [this, scanGen_erase]

/-- **gen_population_id_erased**: `get_population(study, g)` as generated commutes with erasing the ids: it is a function
of the id-erased history -/
theorem gen_population_id_erased (trials : List GT) (g : Nat) :
    interpPopulation GaMethods.getPopulation (eraseIds trials) g = .ok (eraseIds (population trials g)) := by
  rw [interp_getPopulation]
  simp only [population, eraseIds, List.filter_map]
  rfl

/-! ### non-vacuity: the interpreter on a concrete study (ids shifted by 5) -/

def demoTrials : List GT :=
  [⟨5, 0, some 0, .complete⟩, ⟨6, 1, some 0, .complete⟩, ⟨7, 2, some 0, .fail⟩, ⟨8, 3, some 0, .complete⟩,
   ⟨9, 4, some 1, .complete⟩, ⟨10, 5, none, .running⟩]

/-- population size 3: generation 0 is full (three COMPLETE trials), generation 1 has one member → a new trial joins
generation 1 and the attribute is written to ITS id; with population size 1 it opens generation 2; a trial that already
carries the attribute is answered without a write -/
example : interpTrialGeneration GaMethods.getTrialGeneration (some 3) demoTrials ⟨10, 5, none, .running⟩ = .ok (1, [(10, 1)]) ∧
    interpTrialGeneration GaMethods.getTrialGeneration (some 1) demoTrials ⟨10, 5, none, .running⟩ = .ok (2, [(10, 2)]) ∧
    interpTrialGeneration GaMethods.getTrialGeneration (some 3) demoTrials ⟨9, 4, some 1, .complete⟩ = .ok (1, []) ∧
    interpTrialGeneration GaMethods.getTrialGeneration none demoTrials ⟨10, 5, none, .running⟩ = .error .assertion := by decide
example : (match interpPopulation GaMethods.getPopulation demoTrials 0 with | .ok l => l.map (·.number) | .error _ => []) = [0, 1, 3] := by
  decide
/-- NSGA-II on the shifted study, elite = first two: generation 1 selects trials 0, 1 and stores their ids `[5, 6]`; the next
call reads index 5 and 6 of a six-trial list: `IndexError` (F7 inside `sample_relative`) -/
example : (match interpNsga2Parents GaMethods.gaProg (fun l => l.take 2) demoTrials 1 [] with
      | .ok (l, st) => (l.map (·.number), st)
      | .error _ => ([], [])) = ([0, 1], [(1, [5, 6])]) ∧
    (match interpSampleRelative GaMethods.gaProg (fun l => l.take 2) (some 3) demoTrials [(1, [5, 6])] ⟨10, 5, none, .running⟩ with
      | .ok _ => false
      | .error e => e == .indexError) = true := by decide

end OptunaVerif.C09Gen
