import OptunaVerif.Model.Suggest
import OptunaVerif.Lemmas.Dist
import OptunaVerif.Props.C11
/-!
# C10 — suggested values lie in the declared domain, are stable and are what gets stored

Two halves.  (1) The decision logic of `Trial._suggest` (`Model/Suggest.lean`): for ALL trial states,
contexts (fixed params, relative search space / params) and sampler answers — the sampler is an arbitrary
parameter.  (2) The projection at the end of every sampler path: for EVERY raw number the projection
returns a member of the declared domain (membership = `to_internal_repr` accepts and `_contains` holds,
the test the code itself applies), whenever the range is a whole number of steps — which the
constructors guarantee (C11 `adjust_*_spec`, here through `WF`).
-/
namespace OptunaVerif.C10
open OptunaVerif OptunaVerif.Dist OptunaVerif.Suggest

/-! ## 1. `_suggest` -/

/-- unfolding of `suggest` for a name that has not been suggested in this trial -/
theorem suggest_new (cx : Ctx) (st : St) (name : String) (d : Dist) (indep v : Tok) (br : Branch) (q : Rat)
    (hnew : st.dists.get? name = none) (hp : pick cx name d indep = .ok (v, br)) (hq : d.toInternal v = .ok q) :
    suggest cx st name d indep =
      .ok ({ params := st.params.set name v, dists := st.dists.set name d, stored := st.stored.set name (q, d) }, v, br) := by
  simp [suggest, suggestS, pick] at *
  simp [hnew, hp, hq]

/-- every successful `suggest` for a new name went through `pick` and `to_internal_repr` -/
theorem suggest_new_inv (cx : Ctx) (st st1 : St) (name : String) (d : Dist) (indep v : Tok) (br : Branch)
    (hnew : st.dists.get? name = none) (h : suggest cx st name d indep = .ok (st1, v, br)) :
    pick cx name d indep = .ok (v, br) ∧ ∃ q, d.toInternal v = .ok q ∧
      st1 = { params := st.params.set name v, dists := st.dists.set name d, stored := st.stored.set name (q, d) } := by
  simp only [suggest, suggestS, hnew] at h
  split at h
  · simp at h
  · rename_i v' br' hp
    split at h
    · simp at h
    · rename_i q hq
      simp only [Except.ok.injEq, Prod.mk.injEq] at h
      obtain ⟨h1, h2, h3⟩ := h
      subst h2; subst h3
      exact ⟨hp, q, hq, h1.symm⟩

/-- a successful `suggest` never disturbs what is recorded for names that are already there -/
theorem suggest_frame (cx : Ctx) (st st1 : St) (n : String) (d : Dist) (i v : Tok) (br : Branch)
    (h : suggest cx st n d i = .ok (st1, v, br)) (name : String) (d0 : Dist) (hd : st.dists.get? name = some d0) :
    st1.params.get? name = st.params.get? name ∧ st1.dists.get? name = some d0 ∧
      st1.stored.get? name = st.stored.get? name := by
  cases hn : st.dists.get? n with
  | some dOld =>
    simp only [suggest, suggestS, hn] at h
    split at h
    · simp at h
    · split at h
      · simp only [Except.ok.injEq, Prod.mk.injEq] at h
        obtain ⟨h1, _, _⟩ := h
        subst h1
        exact ⟨rfl, hd, rfl⟩
      · simp at h
  | none =>
    obtain ⟨_, q, _, hst⟩ := suggest_new_inv cx st st1 n d i v br hn h
    have hne : name ≠ n := by
      intro he; subst he; rw [hn] at hd; simp at hd
    subst hst
    exact ⟨AList.get?_set_other _ _ _ _ hne, by simp [AList.get?_set_other _ _ _ _ hne, hd],
      AList.get?_set_other _ _ _ _ hne⟩

theorem run_frame (cx : Ctx) (st : St) (calls : List (String × Dist × Tok)) (name : String) (d0 : Dist)
    (hd : st.dists.get? name = some d0) :
    (run cx st calls).params.get? name = st.params.get? name ∧ (run cx st calls).dists.get? name = some d0 ∧
      (run cx st calls).stored.get? name = st.stored.get? name := by
  induction calls generalizing st with
  | nil => exact ⟨rfl, hd, rfl⟩
  | cons c t ih =>
    obtain ⟨n, d, i⟩ := c
    simp only [run]
    split
    · rename_i st' v' br' hs
      obtain ⟨h1, h2, h3⟩ := suggest_frame cx st st' n d i v' br' hs name d0 hd
      obtain ⟨g1, g2, g3⟩ := ih st' h2
      exact ⟨g1.trans h1, g2, g3.trans h3⟩
    · exact ih st hd

/-- after a successful suggest the name is recorded with its value (and with the FIRST distribution) -/
theorem suggest_records (cx : Ctx) (st st1 : St) (name : String) (d : Dist) (i v : Tok) (br : Branch)
    (h : suggest cx st name d i = .ok (st1, v, br)) :
    st1.params.get? name = some v ∧ ∃ d0, st1.dists.get? name = some d0 ∧ (st.dists.get? name = none → d0 = d) := by
  cases hn : st.dists.get? name with
  | some dOld =>
    simp only [suggest, suggestS, hn] at h
    split at h
    · simp at h
    · split at h
      · rename_i v' hv
        simp only [Except.ok.injEq, Prod.mk.injEq] at h
        obtain ⟨h1, h2, _⟩ := h
        subst h1; subst h2
        exact ⟨hv, dOld, hn, by simp⟩
      · simp at h
  | none =>
    obtain ⟨_, q, _, hst⟩ := suggest_new_inv cx st st1 name d i v br hn h
    subst hst
    exact ⟨AList.get?_set_same _ _ _, d, AList.get?_set_same _ _ _, fun _ => rfl⟩

/-- **suggest_same_name_same_value** — once `suggest(name, ·)` has returned `v`, then after ANY further
sequence of suggest calls in the trial (any names, any distributions, any sampler answers, failed calls
included) asking for `name` again with a compatible distribution returns the same `v`, takes nothing
from the sampler and changes nothing; with an incompatible distribution it raises `ValueError`. -/
theorem suggest_same_name_same_value (cx : Ctx) (st st1 : St) (name : String) (d : Dist) (i v : Tok) (br : Branch)
    (h : suggest cx st name d i = .ok (st1, v, br)) (calls : List (String × Dist × Tok)) (d' : Dist) (i' : Tok) :
    ∃ d0, (run cx st1 calls).dists.get? name = some d0 ∧ (st.dists.get? name = none → d0 = d) ∧
      (compat d0 d' = true → suggest cx (run cx st1 calls) name d' i' = .ok (run cx st1 calls, v, .reused)) ∧
      (compat d0 d' = false → suggest cx (run cx st1 calls) name d' i' = .error .valueError) := by
  obtain ⟨hv, d0, hd0, hfirst⟩ := suggest_records cx st st1 name d i v br h
  obtain ⟨g1, g2, _⟩ := run_frame cx st1 calls name d0 hd0
  refine ⟨d0, g2, hfirst, ?_, ?_⟩
  · intro hc
    simp [suggest, suggestS, g2, hc, g1, hv]
  · intro hc
    simp [suggest, suggestS, g2, hc]

/-- **suggest_fixed_wins** — an enqueued / fixed value that `to_internal_repr` accepts is returned for a
not-yet-suggested name whatever the relative sampler proposed, whatever the independent sampler would
answer and even when the domain is a single point; its internal form is what is written to the storage. -/
theorem suggest_fixed_wins (cx : Ctx) (st : St) (name : String) (d : Dist) (fv indep : Tok) (q : Rat)
    (hnew : st.dists.get? name = none) (hf : cx.fixed.get? name = some fv) (hq : d.toInternal fv = .ok q) :
    suggest cx st name d indep =
      .ok ({ params := st.params.set name fv, dists := st.dists.set name d, stored := st.stored.set name (q, d) }, fv, .fixed) := by
  apply suggest_new cx st name d indep fv .fixed q hnew _ hq
  simp [pick, pickS, hf, hq]

/-- **relative_outside_falls_back** — a relative-sampler value that is NOT contained in the distribution asked
for (e.g. the range changed since the history was recorded) is discarded and the independent sampler's
value is used. -/
theorem relative_outside_falls_back (cx : Ctx) (st : St) (name : String) (d rd : Dist) (rv indep : Tok) (q qi : Rat)
    (hnew : st.dists.get? name = none) (hf : cx.fixed.get? name = none) (hs : d.single = false)
    (hr : cx.relParams.get? name = some rv) (hsp : cx.relSpace.get? name = some rd) (hc : compat rd d = true)
    (hq : d.toInternal rv = .ok q) (hout : d.contains q = false) (hqi : d.toInternal indep = .ok qi) :
    suggest cx st name d indep =
      .ok ({ params := st.params.set name indep, dists := st.dists.set name d, stored := st.stored.set name (qi, d) },
           indep, .independent) := by
  apply suggest_new cx st name d indep indep .independent qi hnew _ hqi
  simp [pick, pickS, hf, hs, hr, hsp, hc, hq, hout]

/-- … and a contained one is used (the containment test is what separates the two). -/
theorem relative_inside_used (cx : Ctx) (st : St) (name : String) (d rd : Dist) (rv indep : Tok) (q : Rat)
    (hnew : st.dists.get? name = none) (hf : cx.fixed.get? name = none) (hs : d.single = false)
    (hr : cx.relParams.get? name = some rv) (hsp : cx.relSpace.get? name = some rd) (hc : compat rd d = true)
    (hq : d.toInternal rv = .ok q) (hin : d.contains q = true) :
    suggest cx st name d indep =
      .ok ({ params := st.params.set name rv, dists := st.dists.set name d, stored := st.stored.set name (q, d) },
           rv, .relative) := by
  apply suggest_new cx st name d indep rv .relative q hnew _ hq
  simp [pick, pickS, hf, hs, hr, hsp, hc, hq, hin]

/-- **suggest_stored_eq_returned** — for a newly suggested name: `trial.params[name]` (the cache) is the
returned value, the storage holds exactly its internal form with the distribution asked for, and when that
internal value is contained, what any reader gets back from the storage (`to_external_repr`) is equal
(`==`, or both NaN) to what the objective received — and stays so after any further suggest calls. -/
theorem suggest_stored_eq_returned (cx : Ctx) (st st1 : St) (name : String) (d : Dist) (i v : Tok) (br : Branch)
    (hnew : st.dists.get? name = none) (h : suggest cx st name d i = .ok (st1, v, br))
    (calls : List (String × Dist × Tok)) :
    (run cx st1 calls).params.get? name = some v ∧
    ∃ q, d.toInternal v = .ok q ∧ (run cx st1 calls).stored.get? name = some (q, d) ∧
      (WF d → d.contains q = true → ∃ t, readBack (run cx st1 calls) name = some t ∧ v.catEq t = true) := by
  obtain ⟨_, q, hq, hst⟩ := suggest_new_inv cx st st1 name d i v br hnew h
  have hd1 : st1.dists.get? name = some d := by subst hst; exact AList.get?_set_same _ _ _
  have hp1 : st1.params.get? name = some v := by subst hst; exact AList.get?_set_same _ _ _
  have hs1 : st1.stored.get? name = some (q, d) := by subst hst; exact AList.get?_set_same _ _ _
  obtain ⟨g1, _, g3⟩ := run_frame cx st1 calls name d hd1
  refine ⟨g1.trans hp1, q, hq, g3.trans hs1, ?_⟩
  intro hwf hc
  obtain ⟨t, ht, heq⟩ := C11.external_internal_roundtrip d v q hwf hq hc
  exact ⟨t, by simp [readBack, g3.trans hs1, ht], heq⟩

theorem single_member (d : Dist) (h : WF d) : Member d (singleValue d) := by
  cases d with
  | flt c low high log step =>
    obtain ⟨hl, hlog, hstep, _⟩ := h
    cases step with
    | none => exact flt_member c low high log low (fun hh => (hlog hh).1) (le_refl _) hl
    | some s =>
      obtain ⟨hs, K, hK0, hK⟩ := hstep s rfl
      have := stepped_contains c low high s log K 0 hs hK (le_refl _) hK0
      simp only [Int.cast_zero, zero_mul, zero_add] at this
      refine ⟨low, ?_, this⟩
      cases log with
      | false => simp [singleValue, Dist.toInternal, Tok.num?]
      | true => have := (hlog rfl).2; simp at this
  | int c low high log step =>
    obtain ⟨hl, hlog, hs, _, _⟩ := h
    exact int_member c low high log step low hs (fun hh => (hlog hh).1) (le_refl _) hl (by simp)
  | cat cs =>
    cases cs with
    | nil => exact absurd rfl h
    | cons a t => exact cat_member (a :: t) 0 a (by simp)

/-- **suggest_in_domain** — the returned value of a fresh `suggest` is a member of the declared domain as soon
as the two external sources are: the fixed value (if any; optuna only *warns* about an out-of-range enqueued
value) and the independent sampler's answer.  The single-point and the relative branch need no
assumption: the point is in the domain, and the relative value is checked by the code. -/
theorem suggest_in_domain (cx : Ctx) (st st1 : St) (name : String) (d : Dist) (indep v : Tok) (br : Branch)
    (hnew : st.dists.get? name = none) (h : suggest cx st name d indep = .ok (st1, v, br)) (hwf : WF d)
    (hfixed : ∀ fv, cx.fixed.get? name = some fv → Member d fv) (hindep : Member d indep) :
    Member d v := by
  obtain ⟨hp, _⟩ := suggest_new_inv cx st st1 name d indep v br hnew h
  unfold pick pickS at hp
  split at hp
  · rename_i fv hf
    split at hp
    · simp at hp
    · simp only [Except.ok.injEq, Prod.mk.injEq] at hp
      rw [← hp.1]; exact hfixed fv hf
  · split at hp
    · simp only [Except.ok.injEq, Prod.mk.injEq] at hp
      rw [← hp.1]; exact single_member d hwf
    · split at hp
      · simp only [Except.ok.injEq, Prod.mk.injEq] at hp
        rw [← hp.1]; exact hindep
      · rename_i rv _
        split at hp
        · simp at hp
        · split at hp
          · simp at hp
          · split at hp
            · simp at hp
            · rename_i q hq
              split at hp
              · rename_i hc
                simp only [Except.ok.injEq, Prod.mk.injEq] at hp
                rw [← hp.1]; exact ⟨q, hq, hc⟩
              · simp only [Except.ok.injEq, Prod.mk.injEq] at hp
                rw [← hp.1]; exact hindep

-- non-vacuity: the precedence on one concrete context (fixed beats relative beats independent)
example :
    let cx : Ctx := ⟨[("x", .flt 2)], [("x", .flt .float 0 4 false none), ("y", .flt .float 0 4 false none)],
                     [("x", .flt 1), ("y", .flt 3)]⟩
    (suggest cx St.empty "x" (.flt .float 0 4 false none) (.flt 1)).toOption.map (fun r => (r.2.1, r.2.2)) =
        some (.flt 2, .fixed) ∧
    (suggest cx St.empty "y" (.flt .float 0 4 false none) (.flt 1)).toOption.map (fun r => (r.2.1, r.2.2)) =
        some (.flt 3, .relative) ∧
    (suggest cx St.empty "y" (.flt .float 0 2 false none) (.flt 1)).toOption.map (fun r => (r.2.1, r.2.2)) =
        some (.flt 1, .independent) := by
  decide

/-! ## 2. projections: every raw number lands in the domain -/

theorem tpeDisc_eq (low high step s : Rat) :
    tpeDisc low high step s = clip ((roundHE ((s - low) / step) : Rat) * step + low) low high := by
  unfold tpeDisc; rw [add_comm]

/-- TPE's discretisation of a stepped float: for EVERY raw sample `s` the result is a grid point of the domain. -/
theorem tpe_disc_in_domain (c : FCls) (low high step : Rat) (h : WF (.flt c low high false (some step))) (s : Rat) :
    Member (.flt c low high false (some step)) (.flt (tpeDisc low high step s)) := by
  obtain ⟨_, _, hstep, _⟩ := h
  obtain ⟨hs, K, hK0, hK⟩ := hstep step rfl
  obtain ⟨k, hk0, hk1, hk⟩ := grid_clip low high step K hs hK0 hK s
  rw [tpeDisc_eq, hk]
  exact ⟨_, by simp [Dist.toInternal, Tok.num?], stepped_contains c low high step false K k hs hK hk0 hk1⟩

/-- TPE's continuous path (float without step, linear scale; `np.clip(_truncnorm.rvs(..), low, high)`): for EVERY
raw sample `s` — in particular one that the rescaling `ppf(q) * sigma + mu` has pushed an ulp outside — the result
is a member of the domain. (Before the repair of F33 the raw sample was returned as is.) -/
theorem tpe_cont_in_domain (c : FCls) (low high : Rat) (h : WF (.flt c low high false none)) (s : Rat) :
    Member (.flt c low high false none) (.flt (tpeCont low high s)) := by
  obtain ⟨hl, _, _, _⟩ := h
  have hm := clip_mem (x := s) hl
  refine ⟨tpeCont low high s, by simp [Dist.toInternal, Tok.num?], ?_⟩
  unfold tpeCont
  simp [Dist.contains, hm.1, hm.2]

-- non-vacuity: a raw sample just below `low` is pulled back onto `low`; the unclipped sample is not a member
example : tpeCont (123456/1000) (1123456/1000) (123455/1000) = 123456/1000 := by
  norm_num [tpeCont, clip]
example : (Dist.flt .float (123456/1000) (1123456/1000) false none).contains (123455/1000) = false := by
  norm_num [Dist.contains]
example : WF (.flt .float (123456/1000) (1123456/1000) false none) := by
  refine ⟨by norm_num, by simp, by simp, ?_⟩
  simp [FClsOK]

/-- TPE's int rounding (`_untransform` + `to_external_repr`): for EVERY raw number (after `exp` for log ints) the
result is an int of the domain, on the step grid. -/
theorem tpe_int_in_domain (c : ICls) (low high : Int) (log : Bool) (step : Int) (h : WF (.int c low high log step))
    (res : Rat) : Member (.int c low high log step) (.int (tpeInt low high step res)) := by
  obtain ⟨hl, hlog, hs, hg, _⟩ := h
  obtain ⟨i, h1, h2, h3, hi⟩ := int_grid_clip low high step hs hl hg res
  unfold tpeInt
  rw [tpeDisc_eq, hi, truncI_intCast]
  exact int_member c low high log step i hs (fun hh => (hlog hh).1) h1 h2 h3

/-- the transform's projection (`_untransform_numerical_param`, used by Random / QMC / NSGA-II / NSGA-III) for the
clip-and-round paths — stepped floats, ints, log ints with `transform_log` — for EVERY raw column value, inside or
outside the bounds. -/
theorem untransform_projection_in_domain (E : Env) (c : TCfg) (d : Dist) (x : Rat) (h : WF d)
    (hkind : match d with
      | .flt _ _ _ _ (some _) => True
      | .int _ _ _ log _ => log = false ∨ c.tlog = true
      | _ => False) :
    ∃ v, decode E c d [x] = some v ∧ Member d v := by
  cases d with
  | cat cs => exact absurd hkind (by simp)
  | flt cl low high log step =>
    cases step with
    | none => exact absurd hkind (by simp)
    | some s =>
      obtain ⟨_, hlog, hstep, _⟩ := h
      obtain ⟨hs, K, hK0, hK⟩ := hstep s rfl
      have hlogf : log = false := by
        cases log with
        | false => rfl
        | true => have := (hlog rfl).2; simp at this
      subst hlogf
      obtain ⟨k, hk0, hk1, hk⟩ := grid_clip low high s K hs hK0 hK x
      exact ⟨.flt ((k : Rat) * s + low), by simp [decode, hk], _, by simp [Dist.toInternal, Tok.num?],
        stepped_contains cl low high s false K k hs hK hk0 hk1⟩
  | int cl low high log step =>
    obtain ⟨hl, hlog, hs, hg, _⟩ := h
    cases log with
    | false =>
      obtain ⟨i, h1, h2, h3, hi⟩ := int_grid_clip low high step hs hl hg x
      exact ⟨.int i, by simp [decode, hi, truncI_intCast], int_member cl low high false step i hs (by simp) h1 h2 h3⟩
    | true =>
      obtain ⟨hl1, hst⟩ := hlog rfl
      have htl : c.tlog = true := by
        rcases hkind with h' | h'
        · simp at h'
        · exact h'
      have hlq : (low : Rat) ≤ (high : Rat) := by exact_mod_cast hl
      have : ∃ i : Int, low ≤ i ∧ i ≤ high ∧ clip ((roundHE (E.ex x) : Int) : Rat) (low : Rat) (high : Rat) = (i : Rat) := by
        rcases clip_cases ((roundHE (E.ex x) : Int) : Rat) (low : Rat) (high : Rat) hlq with ⟨he, h1, h2⟩ | ⟨he, _⟩ | ⟨he, _⟩
        · exact ⟨roundHE (E.ex x), by exact_mod_cast h1, by exact_mod_cast h2, he⟩
        · exact ⟨low, le_refl _, hl, he⟩
        · exact ⟨high, hl, le_refl _, he⟩
      obtain ⟨i, h1, h2, hi⟩ := this
      subst hst
      exact ⟨.int i, by simp [decode, htl, hi, truncI_intCast],
        int_member cl low high true 1 i hs (fun _ => hl1) h1 h2 (by omega)⟩

/-- GP's `get_unnormalized_param`: clip (then `round` for ints).  For EVERY raw number the result is inside
`[low, high]` and an integer for int distributions (hence a member when `step = 1`); it does not by itself
round to a coarser grid — a grid point that is fed in comes back unchanged, which is what the GP sampler
relies on (its candidates are rounded to the grid in normalised space beforehand). -/
theorem gp_in_domain (low high : Int) (hl : low ≤ high) (x : Rat) :
    low ≤ gpInt low high x ∧ gpInt low high x ≤ high ∧
    (∀ c log, WF (.int c low high log 1) → Member (.int c low high log 1) (.int (gpInt low high x))) := by
  have hlq : (low : Rat) ≤ (high : Rat) := by exact_mod_cast hl
  obtain ⟨h1, h2⟩ := clip_mem (x := x) hlq
  have g1 : low ≤ gpInt low high x := roundHE_mono_ge h1
  have g2 : gpInt low high x ≤ high := roundHE_mono_le h2
  refine ⟨g1, g2, ?_⟩
  intro c log hwf
  obtain ⟨_, hlog, hs, _, _⟩ := hwf
  exact int_member c low high log 1 _ hs (fun hh => (hlog hh).1) g1 g2 (by omega)

theorem gp_num_in_range (low high : Rat) (hl : low ≤ high) (x : Rat) :
    low ≤ gpNum low high x ∧ gpNum low high x ≤ high := clip_mem hl

/-- a grid point fed to GP's projection comes back unchanged (floats and ints) -/
theorem gp_keeps_grid_points (low high step : Int) (k : Int) (h1 : low ≤ k * step + low) (h2 : k * step + low ≤ high) :
    gpInt low high (((k * step + low : Int) : Rat)) = k * step + low ∧
    gpNum (low : Rat) (high : Rat) (((k * step + low : Int) : Rat)) = ((k * step + low : Int) : Rat) := by
  have a : (low : Rat) ≤ ((k * step + low : Int) : Rat) := by exact_mod_cast h1
  have b : ((k * step + low : Int) : Rat) ≤ (high : Rat) := by exact_mod_cast h2
  constructor
  · unfold gpInt; rw [clip_id a b, roundHE_intCast]
  · unfold gpNum; rw [clip_id a b]

theorem filter_length_lt_of_last {l : List Rat} (q : Rat) (hne : l ≠ []) (hlast : ¬ (l.getLast hne < q)) :
    (l.filter (fun c => decide (c < q))).length < l.length := by
  induction l with
  | nil => exact absurd rfl hne
  | cons a t ih =>
    cases t with
    | nil =>
      simp only [List.getLast_singleton] at hlast
      simp [List.filter, hlast]
    | cons b u =>
      have hne' : (b :: u) ≠ [] := by simp
      have hl : (a :: b :: u).getLast hne = (b :: u).getLast hne' := by simp [List.getLast_cons]
      rw [hl] at hlast
      have := ih hne' hlast
      have hle : ((a :: b :: u).filter (fun c => decide (c < q))).length ≤
          ((b :: u).filter (fun c => decide (c < q))).length + 1 := by
        rw [List.filter_cons]; split <;> simp
      simp only [List.length_cons] at this ⊢
      omega

/-- TPE's categorical index `np.sum(cum_probs < q)` with the last cumulative weight forced to 1 is a valid index
for EVERY quantile `q ≤ 1`; GP's `floor(q · n)` is a valid index for every `0 ≤ q < 1`; the transform's
`argmax` is a valid index for every non-empty column block. -/
theorem categorical_index_in_domain :
    (∀ (cum : List Rat) (q : Rat) (hne : cum ≠ []), cum.getLast hne = 1 → q ≤ 1 → catCum cum q < cum.length) ∧
    (∀ (n : Nat) (q : Rat), 0 ≤ q → q < 1 → 0 ≤ catFloor n q ∧ (n = 0 ∨ catFloor n q < (n : Int))) ∧
    (∀ cols : List Rat, cols ≠ [] → argmax cols < cols.length) := by
  refine ⟨?_, ?_, argmax_lt⟩
  · intro cum q hne hlast hq
    unfold catCum
    apply filter_length_lt_of_last q hne
    rw [hlast]; exact not_lt.mpr hq
  · intro n q h0 h1
    unfold catFloor
    have hn : (0 : Rat) ≤ (n : Rat) := by exact_mod_cast Nat.zero_le n
    constructor
    · exact Rat.le_floor_iff.mpr (by simpa using mul_nonneg h0 hn)
    · rcases Nat.eq_zero_or_pos n with h | h
      · left; exact h
      · right
        have hnq : (0 : Rat) < (n : Rat) := by exact_mod_cast h
        have : q * (n : Rat) < ((n : Int) : Rat) := by
          have := mul_lt_mul_of_pos_right h1 hnq
          simpa using this
        exact Rat.floor_lt_iff.mpr this

/-- **projection_in_domain** — the summary: whatever raw number a sampler's internals produce, each projection
used on a sampler path returns a member of the declared domain (stepped floats and ints: in range AND on the
grid AND, for ints, an integer), provided the distribution is well-formed (range = whole number of steps). -/
theorem projection_in_domain (E : Env) (c : TCfg) (htl : c.tlog = true) :
    (∀ cl low high step (_ : WF (.flt cl low high false (some step))) (s : Rat),
        Member (.flt cl low high false (some step)) (.flt (tpeDisc low high step s)) ∧
        ∃ v, decode E c (.flt cl low high false (some step)) [s] = some v ∧ Member (.flt cl low high false (some step)) v) ∧
    (∀ cl low high log step (_ : WF (.int cl low high log step)) (s : Rat),
        Member (.int cl low high log step) (.int (tpeInt low high step s)) ∧
        ∃ v, decode E c (.int cl low high log step) [s] = some v ∧ Member (.int cl low high log step) v) ∧
    (∀ cl low high log (_ : WF (.int cl low high log 1)) (s : Rat),
        Member (.int cl low high log 1) (.int (gpInt low high s))) := by
  refine ⟨?_, ?_, ?_⟩
  · intro cl low high step h s
    exact ⟨tpe_disc_in_domain cl low high step h s, untransform_projection_in_domain E c _ s h trivial⟩
  · intro cl low high log step h s
    exact ⟨tpe_int_in_domain cl low high log step h s, untransform_projection_in_domain E c _ s h (Or.inr htl)⟩
  · intro cl low high log h s
    exact (gp_in_domain low high h.1 s).2.2 cl log h

-- non-vacuity: a raw sample far outside the range is pulled onto the last grid point; without the clip it is not
example : tpeDisc 0 1 (1/4) 7 = 1 := by
  norm_num [tpeDisc, clip, roundHE, floor_eq]
example : (0 : Rat) + (roundHE ((7 - 0) / (1/4)) : Rat) * (1/4) = 7 := by
  norm_num [roundHE, floor_eq]
example : WF (.flt .float 0 1 false (some (1/4))) :=
  ⟨by norm_num, by simp, fun s hs => by simp at hs; subst hs; exact ⟨by norm_num, 4, by norm_num, by norm_num⟩, trivial⟩

end OptunaVerif.C10
