import OptunaVerif.Props.C10Gen
import OptunaVerif.Props.C10ProjGen
import OptunaVerif.Props.C10SuggestGen
import OptunaVerif.Props.C10Nsga
/-!
# C10 (composition) — sampler path × distribution shape → projection → `Trial._suggest` → a member of the domain

`Props/C10.lean::suggest_in_domain` (and its restatements for the generated `_suggest`, the `suggest_*` wrappers and
NSGA-II) ASSUME `Member d indep` for the independent sampler's answer: on the independent branch that hypothesis is the
conclusion.  The projection theorems (`projection_in_domain`, `gen_projection_in_domain`, …) are about single projection
functions and single shapes and were never plugged into that hypothesis.  This file closes the gap:

* `proj E path d raw` — ONE function: the value a sampler path hands to `_suggest` for distribution `d`, computed from
  the raw numbers `raw` that the sampler's internals produce, by composing the existing hand models
  (`Dist.decode` / `boundsOf` / `unscale01`, `tpeCont` / `tpeDisc` / `tpeInt` / `catCum`, `gpUnnorm` / `gpNum` / `gpInt`);
  `none` = the real code raises (wrong vector length, index out of range);
* `Pre E path d raw` — what the code that PRODUCES `raw` guarantees, stated per path and shape, each clause justified
  by a theorem about the model of the producing code (`transform_raw_in_bounds`, `gp_sobol_round_pre_flt`,
  `gp_sobol_round_pre_int`, `gp_choices_pre`, `gp_sobol_cat_pre`) or by the documented range of the random source;
* `proj_member : WF d → Pre E path d raw → ∃ v, proj E path d raw = some v ∧ Member d v` for EVERY path × shape
  (float / stepped float / log float / int / stepped int / log int / categorical / single-valued);
* every clause of `Pre` is necessary: `transform_pre_needed`, `transform_hc_needed`, `tpe_cat_pre_needed`,
  `gp_box_alone_not_enough` are concrete raws violating exactly one clause whose projection is NOT a member;
* `suggest_value_in_domain` — `Suggest.suggest` with `indep := proj …` returns a member under `WF`, `Pre` and the
  fixed-value hypothesis only (no `hindep`); `relative_proj_is_used` — a relative value `proj …` is taken, never
  discarded; `gen_*` — the same for the interpreter of the generated `_suggest` fed with the evaluators of the
  generated projections (`projGen`, proved equal to `proj` by `gen_proj_eq`).

ℚ versus IEEE.  All numbers are exact rationals; `E.lg / E.ex` is any pair with `EnvOK` (monotone, `ex ∘ lg = id` on the
positives), `E.below high` stands for `nextafter(high, high - 1)`.  Where the statement relies on exactness this is said
at the clause: TPE log floats (`exp(clip(s, log low, log high))` is in `[low, high]` only if `exp(log high) = high`; in
doubles it can be one ulp outside — the harness' oracle allows 4 + 2|ln v| ulp), the GP grid round trip
(`unnormalize(normalize(g)) = g`; in doubles off by ulps, absorbed by `round` for ints and by the 1e-8·step tolerance of
`_contains` for stepped floats), `HC` (the clamp `nextafter(high, high-1)` stays in `[low, high]`: true of `nextafter` in
doubles whenever `low < high`, false of a `high - eps` clamp on narrow ranges — `transform_hc_needed`).
-/
set_option linter.unusedSimpArgs false
set_option linter.unusedVariables false
namespace OptunaVerif.C10Compose
open OptunaVerif OptunaVerif.Dist OptunaVerif.Suggest OptunaVerif.ProjIR

/-! ## 1. paths, raw numbers, the projection -/

/-- the three families of sampler paths that end in a projection:
* `transform` — `RandomSampler.sample_independent` (and with it the independent fallback / start-up phase of TPE, GP,
  QMC, NSGA-II/III, CMA-ES, PartialFixed, …) and `QMCSampler.sample_relative`: a point of the transformed box
  `lo + u·(hi − lo)` handed to `_SearchSpaceTransform(search_space).untransform`;
* `tpe` — `TPESampler._sample` (independent and relative): `_MixtureOfProductDistribution.sample` →
  `_ParzenEstimator._untransform` → `dist.to_external_repr`;
* `gp` — `GPSampler.sample_relative`: `optim_mixed.optimize_acqf_mixed` → `search_space.get_unnormalized_param`.
(The NSGA-II/III child is not a projection path: `perform_crossover` loops until `_is_contained` — see `nsga_*` below.) -/
inductive Path where
  | transform | tpe | gp
deriving DecidableEq, Repr, Inhabited

/-- the raw numbers of one parameter.
* transform: `cols` = the unit-interval numbers `u` (one per encoded column: `rng.uniform` resp. the Sobol / Halton
  point), `x` unused;
* tpe numerical: `x` = the draw of `_truncnorm.rvs`; tpe categorical: `x` = the quantile `rng.rand()`, `cols` = the
  cumulative weights `np.cumsum(active_weights)` of the active kernel;
* gp: `x` = `normalized_param[i]`, the coordinate of the acquisition optimum in the normalised space. -/
structure Raw where
  x : Rat := 0
  cols : List Rat := []
deriving Repr, Inhabited

/-- `_SearchSpaceTransform(search_space)` as the samplers construct it: `transform_log = transform_step = True`,
`transform_0_1 = False` -/
def c0 : TCfg := ⟨true, true, false⟩

/-- transform path: `trans.bounds[:, 0] + u * (trans.bounds[:, 1] - trans.bounds[:, 0])` (QMC; `rng.uniform(lo, hi)` of
Random is the same formula inside NumPy), then `trans.untransform(·)[name]` -/
def projTransform (E : Env) (d : Dist) (us : List Rat) : Option Tok :=
  if us.length = d.width then decode E c0 d (List.zipWith unscale01 (boundsOf E c0 d) us) else none

/-- TPE: the number in `ret[param_name]` before `to_external_repr`.  `_calculate_distributions` chooses the batched
distribution (continuous for step-less and for log parameters — bounds `log(low − step/2)`, `log(high + step/2)` for a
log parameter with a step —, discrete otherwise), `_MixtureOfProductDistribution.sample` clips (fix 56cb744) resp.
discretises and clips, `_untransform` applies `exp` to log parameters and rounds int parameters to the grid once more;
categorical: the number of cumulative weights (last one forced to 1) strictly below the quantile. -/
def tpeVal (E : Env) (d : Dist) (raw : Raw) : Rat :=
  match d with
  | .flt _ low high false none => tpeCont low high raw.x
  | .flt _ low high false (some s) => tpeDisc low high s raw.x
  | .flt _ low high true none => E.ex (tpeCont (E.lg low) (E.lg high) raw.x)
  | .flt _ low high true (some s) => E.ex (tpeCont (E.lg (low - s / 2)) (E.lg (high + s / 2)) raw.x)
  | .int _ low high false step => tpeDisc (low : Rat) (high : Rat) (step : Rat) (tpeDisc (low : Rat) (high : Rat) (step : Rat) raw.x)
  | .int _ low high true step =>
    tpeDisc (low : Rat) (high : Rat) (step : Rat)
      (E.ex (tpeCont (E.lg ((low : Rat) - (step : Rat) / 2)) (E.lg ((high : Rat) + (step : Rat) / 2)) raw.x))
  | .cat _ => ((catCum (setLast raw.cols 1) raw.x : Nat) : Rat)

/-- TPE: `ret[param_name] = dist.to_external_repr(ret[param_name])` -/
def projTpe (E : Env) (d : Dist) (raw : Raw) : Option Tok := d.toExternal (tpeVal E d raw)

/-- GP, `get_unnormalized_param`: `float(np.clip(unnormalize_one_param(x, scale, (low, high), step), low, high))`, `round`
for an int parameter; a categorical coordinate is the internal index itself -/
def gpVal (E : Env) (d : Dist) (x : Rat) : Rat :=
  match d with
  | .flt _ low high _ step => gpNum low high (gpUnnorm E (stOf d) low high (step.getD 0) x)
  | .int _ low high _ step => (gpInt low high (gpUnnorm E (stOf d) (low : Rat) (high : Rat) (step : Rat) x) : Rat)
  | .cat _ => x

def projGp (E : Env) (d : Dist) (raw : Raw) : Option Tok := d.toExternal (gpVal E d raw.x)

/-- **the projection**: what the sampler path hands to `Trial._suggest` for `d`, from the raw numbers -/
def proj (E : Env) : Path → Dist → Raw → Option Tok
  | .transform, d, raw => projTransform E d raw.cols
  | .tpe, d, raw => projTpe E d raw
  | .gp, d, raw => projGp E d raw

/-- the same as a `Tok` (`None` when the real code raises; never the case under `Pre`) -/
def projT (E : Env) (path : Path) (d : Dist) (raw : Raw) : Tok := (proj E path d raw).getD .none

/-! ## 2. what the code guarantees of the raw numbers -/

/-- GP, a coordinate with a step: the normalisation of a grid point inside the bounds.  The optimiser of the acquisition
function writes a discrete coordinate only from (a) `sample_normalized_params`, which rounds with
`round_one_normalized_param` (`gp_sobol_round_pre_flt/_int`, from T-proj's `gen_gp_round_on_grid`), (b) `choices_of_discrete_params
= normalize_one_param(np.arange(low, high + 0.5 step, step), …)` in `_exhaustive_search` / `_discrete_line_search`
(`gp_choices_pre`), (c) the warm-start rows = `normalize_one_param` of the parameters of earlier trials (grid points when
those were members); `_gradient_ascent` moves only the coordinates with `steps == 0`. -/
def OnGrid (E : Env) (d : Dist) (x : Rat) : Prop :=
  match d with
  | .flt _ low high _ (some s) =>
    ∃ k : Int, 0 ≤ k ∧ (k : Rat) * s + low ≤ high ∧ x = gpNorm E (stOf d) low high s ((k : Rat) * s + low)
  | .int _ low high _ step =>
    ∃ k : Int, 0 ≤ k ∧ k * step + low ≤ high ∧
      x = gpNorm E (stOf d) (low : Rat) (high : Rat) (step : Rat) (((k * step + low : Int)) : Rat)
  | _ => True

/-- **the precondition on the raw numbers, per path and shape** — each clause is what the producing code guarantees:

* transform: every `u ∈ [0, 1]` (`rng.uniform` / `rng.rand` / Sobol / Halton points are in `[0, 1)`) and one `u` per
  encoded column; for log parameters `EnvOK E` (log / exp monotone and inverse on the positives); `HC E d` (the half-open
  clamp stays inside the domain; `True` by definition except for step-less floats, and only read for non-single ones).  NOT: "the raw column is
  inside the transformed bounds" — that is derived (`transform_raw_in_bounds`).
* tpe, numerical: NOTHING about the draw `x` (any rational: the truncated-normal sampler is irrelevant since the clip of
  fix 56cb744); log floats need `EnvOK E` (exactness of `exp(log(·))`, see the header);
* tpe, categorical: one cumulative weight per choice and `q ≤ 1` (`rng.rand()` is in `[0, 1)`);
* gp, step-less float (linear or log): NOTHING (the clip comes after `exp`);
* gp, stepped float / int with `step ≠ 1`: `OnGrid` (see there); int with `step = 1`: nothing;
* gp, categorical: an index `0 ≤ i < len(choices)` (`np.floor(q · n)` of a Sobol coordinate `q ∈ [0, 1)` —
  `gp_sobol_cat_pre` — or an element of `np.arange(n)`). -/
def Pre (E : Env) : Path → Dist → Raw → Prop
  | .transform, d, raw => (d.isLog = true → EnvOK E) ∧ HC E d ∧ raw.cols.length = d.width ∧ ∀ u ∈ raw.cols, 0 ≤ u ∧ u ≤ 1
  | .tpe, .flt _ _ _ true _, _ => EnvOK E
  | .tpe, .flt _ _ _ false _, _ => True
  | .tpe, .int _ _ _ _ _, _ => True
  | .tpe, .cat cs, raw => raw.cols.length = cs.length ∧ raw.x ≤ 1
  | .gp, .flt _ _ _ _ none, _ => True
  | .gp, .flt c low high lg (some s), raw => OnGrid E (.flt c low high lg (some s)) raw.x
  | .gp, .int c low high lg step, raw => step = 1 ∨ OnGrid E (.int c low high lg step) raw.x
  | .gp, .cat cs, raw => ∃ i : Nat, i < cs.length ∧ raw.x = (i : Rat)

/-! ### the producers establish `Pre` -/

/-- transform path: the point `lo + u·(hi − lo)` with `u ∈ [0, 1]` lies inside the transformed bounds of `d` (this is
the hypothesis `hb` of `C10Gen.gen_untransform_clamp_in_domain` / `decode_in_domain`, derived here from the hand-off). -/
theorem transform_raw_in_bounds (E : Env) (d : Dist) (us : List Rat) (hE : EnvOK E) (hwf : WF d)
    (hl : us.length = d.width) (hx : ∀ u ∈ us, 0 ≤ u ∧ u ≤ 1) :
    List.Forall₂ InB (boundsOf E c0 d) (List.zipWith unscale01 (boundsOf E c0 d) us) :=
  zip_unscale_inB _ _ (by rw [boundsOf_length, hl]) (boundsOf_le E c0 d hE hwf) hx

/-- GP (a): whatever Sobol coordinate goes into `round_one_normalized_param` (the GENERATED function, evaluated), what
comes out is `OnGrid` — stepped float -/
theorem gp_sobol_round_pre_flt (E : Env) (c : FCls) (low high s : Rat) (hwf : WF (.flt c low high false (some s))) (u : Rat) :
    OnGrid E (.flt c low high false (some s))
      (Generated.ProjGen.gpRound.eval E (Generated.ProjGen.gp.callf E) (ctxG .linear low high s u)) := by
  obtain ⟨_, _, hstep, _⟩ := hwf
  obtain ⟨hs, K, hK0, hK⟩ := hstep s rfl
  obtain ⟨k, hk0, hk1, hk⟩ := C10ProjGen.gen_gp_round_on_grid E .linear low high s K hs hK0 hK u
  refine ⟨k, hk0, ?_, ?_⟩
  · have : (k : Rat) ≤ (K : Rat) := by exact_mod_cast hk1
    nlinarith
  · simpa [stOf, Dist.isLog] using hk

/-- GP (a), int parameter with any step (linear scale; a log int has step 1 and needs no `OnGrid`) -/
theorem gp_sobol_round_pre_int (E : Env) (c : ICls) (low high step : Int) (hwf : WF (.int c low high false step)) (u : Rat) :
    OnGrid E (.int c low high false step)
      (Generated.ProjGen.gpRound.eval E (Generated.ProjGen.gp.callf E) (ctxG .linear (low : Rat) (high : Rat) (step : Rat) u)) := by
  obtain ⟨hl, _, hs, hg, _⟩ := hwf
  obtain ⟨K, hK⟩ := Int.dvd_of_emod_eq_zero hg
  have hsq : (0 : Rat) < (step : Rat) := by exact_mod_cast hs
  have hK0 : 0 ≤ K := by
    by_contra hc
    have : step * K < 0 := Int.mul_neg_of_pos_of_neg hs (by omega)
    omega
  have hKq : (high : Rat) - (low : Rat) = (K : Rat) * (step : Rat) := by
    have : ((high - low : Int) : Rat) = ((step * K : Int) : Rat) := by rw [hK]
    push_cast at this; linarith [mul_comm (step : Rat) (K : Rat)]
  obtain ⟨k, hk0, hk1, hk⟩ := C10ProjGen.gen_gp_round_on_grid E .linear (low : Rat) (high : Rat) (step : Rat) K hsq hK0 hKq u
  refine ⟨k, hk0, ?_, ?_⟩
  · have : k * step ≤ K * step := Int.mul_le_mul_of_nonneg_right hk1 (le_of_lt hs)
    have h2 : step * K = K * step := Int.mul_comm _ _
    omega
  · simp only [stOf, Dist.isLog, Bool.false_eq_true, if_false]
    rw [hk]; push_cast; rfl

/-- GP (b): `normalize_one_param` of the `k`-th element `low + k·step` of `np.arange(low, high + 0.5 step, step)` is `OnGrid`
(by definition) -/
theorem gp_choices_pre (E : Env) (c : ICls) (low high step : Int) (lg : Bool) (k : Int) (hk0 : 0 ≤ k) (hk : k * step + low ≤ high) :
    OnGrid E (.int c low high lg step)
      (gpNorm E (stOf (.int c low high lg step)) (low : Rat) (high : Rat) (step : Rat) (((k * step + low : Int)) : Rat)) :=
  ⟨k, hk0, hk, rfl⟩

theorem gp_choices_pre_flt (E : Env) (c : FCls) (low high s : Rat) (lg : Bool) (k : Int) (hk0 : 0 ≤ k) (hk : (k : Rat) * s + low ≤ high) :
    OnGrid E (.flt c low high lg (some s)) (gpNorm E (stOf (.flt c low high lg (some s))) low high s ((k : Rat) * s + low)) :=
  ⟨k, hk0, hk, rfl⟩

/-- GP categorical (a): `np.floor(q · n)` of a Sobol coordinate `q ∈ [0, 1)` (the GENERATED expression) is an index -/
theorem gp_sobol_cat_pre (E : Env) (cs : List Tok) (hne : cs ≠ []) (q : Rat) (h0 : 0 ≤ q) (h1 : q < 1) :
    Pre E .gp (.cat cs) { x := Generated.ProjGen.gpSampleCat.eval E noCall (ctxG .cat 0 (cs.length : Rat) 1 q) } := by
  obtain ⟨i, hi, hi0, hin⟩ := C10ProjGen.gen_categorical_index_in_domain.2 E cs.length q h0 h1
  have hn : cs.length ≠ 0 := by
    intro h; exact hne (List.length_eq_zero_iff.mp h)
  have hlt : i < (cs.length : Int) := by
    rcases hin with h | h
    · exact absurd h hn
    · exact h
  refine ⟨i.toNat, by omega, ?_⟩
  show Generated.ProjGen.gpSampleCat.eval E noCall (ctxG .cat 0 (cs.length : Rat) 1 q) = _
  rw [hi]
  have : ((i.toNat : Nat) : Int) = i := Int.toNat_of_nonneg hi0
  exact_mod_cast this.symm

/-! ## 3. `proj_member`: every path × shape -/

/-- a distribution that is not log-scaled never reads `E.lg` / `E.ex` -/
theorem nolog_env_irrelevant (E : Env) (d : Dist) (hd : d.isLog = false) (cols : List Rat) :
    boundsOf E c0 d = boundsOf ⟨id, id, E.below⟩ c0 d ∧ decode E c0 d cols = decode ⟨id, id, E.below⟩ c0 d cols ∧
    (HC E d → HC ⟨id, id, E.below⟩ d) := by
  cases d with
  | cat cs => exact ⟨rfl, rfl, fun h => h⟩
  | flt c low high lg st =>
    have : lg = false := hd
    subst this
    cases st with
    | none => exact ⟨by simp [boundsOf, tnum, Dist.isLog], by
        match cols with
        | [] => rfl
        | [x] => rfl
        | _ :: _ :: _ => rfl, fun h => h⟩
    | some s => exact ⟨by simp [boundsOf, tnum, Dist.isLog], by
        match cols with
        | [] => rfl
        | [x] => rfl
        | _ :: _ :: _ => rfl, fun h => h⟩
  | int c low high lg st =>
    have : lg = false := hd
    subst this
    exact ⟨by simp [boundsOf, tnum, Dist.isLog], by
        match cols with
        | [] => rfl
        | [x] => rfl
        | _ :: _ :: _ => rfl, fun h => h⟩

/-- transform path (Random / QMC), EVERY shape: float (clamp), log float, stepped float, int, stepped int, log int,
categorical (first maximal column), single-valued.  (ii) of the audit: the raw column is inside the transformed bounds
BECAUSE it is `lo + u·(hi − lo)` with `u ∈ [0, 1]` (`transform_raw_in_bounds`). -/
theorem transform_member (E : Env) (d : Dist) (us : List Rat) (hwf : WF d) (hE : d.isLog = true → EnvOK E) (hc : HC E d)
    (hl : us.length = d.width) (hx : ∀ u ∈ us, 0 ≤ u ∧ u ≤ 1) :
    ∃ v, projTransform E d us = some v ∧ Member d v := by
  cases hlog : d.isLog with
  | true =>
    have hE' := hE hlog
    obtain ⟨v, hv, hm⟩ := decode_in_domain E c0 d _ hE' hwf hc (Or.inl rfl) (transform_raw_in_bounds E d us hE' hwf hl hx)
    exact ⟨v, by simp [projTransform, hl, hv], hm⟩
  | false =>
    have hE' : EnvOK ⟨id, id, E.below⟩ := ⟨fun _ _ h => h, fun _ _ => rfl, fun _ _ _ h => h⟩
    obtain ⟨hb, hdec, hhc⟩ := nolog_env_irrelevant E d hlog (List.zipWith unscale01 (boundsOf E c0 d) us)
    obtain ⟨v, hv, hm⟩ := decode_in_domain ⟨id, id, E.below⟩ c0 d _ hE' hwf (hhc hc) (Or.inl rfl)
      (transform_raw_in_bounds ⟨id, id, E.below⟩ d us hE' hwf hl hx)
    rw [← hb, ← hdec] at hv
    exact ⟨v, by simp [projTransform, hl, hv], hm⟩

theorem catCum_setLast_lt (cum : List Rat) (q : Rat) (hne : cum ≠ []) (hq : q ≤ 1) :
    catCum (setLast cum 1) q < cum.length := by
  obtain ⟨hne', hlast, hlen⟩ := C10ProjGen.setLast_spec cum hne 1
  rw [← hlen]
  exact C10.categorical_index_in_domain.1 _ q hne' hlast hq

theorem cat_toExternal_nat (cs : List Tok) (i : Nat) : (Dist.cat cs).toExternal ((i : Nat) : Rat) = cs[i]? := by
  simp [Dist.toExternal, truncI_natCast]

/-- TPE path, EVERY shape.  (i) of the audit: log floats — `exp(clip(s, log low, log high)) ∈ [low, high]` by monotony
and `exp(log x) = x` (exact arithmetic; see the header for doubles). -/
theorem tpe_member (E : Env) (d : Dist) (raw : Raw) (hwf : WF d) (hpre : Pre E .tpe d raw) :
    ∃ v, projTpe E d raw = some v ∧ Member d v := by
  cases d with
  | flt c low high lg st =>
    cases lg with
    | false =>
      cases st with
      | none => exact ⟨_, rfl, C10.tpe_cont_in_domain c low high hwf raw.x⟩
      | some s => exact ⟨_, rfl, C10.tpe_disc_in_domain c low high s hwf raw.x⟩
    | true =>
      obtain ⟨hl, hlog, _, _⟩ := hwf
      obtain ⟨hpos, hst⟩ := hlog rfl
      subst hst
      have hE : EnvOK E := hpre
      have hlg : E.lg low ≤ E.lg high := hE.lg_mono _ _ hpos hl
      obtain ⟨h1, h2⟩ := clip_mem (x := raw.x) hlg
      have g1 : low ≤ E.ex (tpeCont (E.lg low) (E.lg high) raw.x) := by
        have := hE.ex_mono _ _ h1; rwa [hE.ex_lg _ hpos] at this
      have g2 : E.ex (tpeCont (E.lg low) (E.lg high) raw.x) ≤ high := by
        have := hE.ex_mono _ _ h2; rwa [hE.ex_lg _ (lt_of_lt_of_le hpos hl)] at this
      exact ⟨_, rfl, flt_member c low high true _ (fun _ => hpos) g1 g2⟩
  | int c low high lg step =>
    cases lg with
    | false => exact ⟨_, rfl, C10.tpe_int_in_domain c low high false step hwf _⟩
    | true => exact ⟨_, rfl, C10.tpe_int_in_domain c low high true step hwf _⟩
  | cat cs =>
    obtain ⟨hlen, hq⟩ := hpre
    have hne : cs ≠ [] := hwf
    have hcne : raw.cols ≠ [] := by
      intro h; rw [h] at hlen; exact hne (List.length_eq_zero_iff.mp hlen.symm)
    have hlt : catCum (setLast raw.cols 1) raw.x < cs.length := hlen ▸ catCum_setLast_lt raw.cols raw.x hcne hq
    refine ⟨cs[catCum (setLast raw.cols 1) raw.x], ?_, cat_member cs _ _ (List.getElem?_eq_getElem hlt)⟩
    simp only [projTpe, tpeVal, cat_toExternal_nat]
    exact List.getElem?_eq_getElem hlt

/-- exact arithmetic: `unnormalize_one_param(normalize_one_param(g))` is `g` on the linear scale -/
theorem gp_unnorm_norm_linear (E : Env) (b0 b1 step g : Rat) (h : b1 - b0 + step ≠ 0) :
    gpUnnorm E .linear b0 b1 step (gpNorm E .linear b0 b1 step g) = g := by
  have hne : b1 + 1 / 2 * step - (b0 - 1 / 2 * step) ≠ 0 := by
    intro h'; apply h; linarith
  have hne' : ¬ (b1 + 1 / 2 * step = b0 - 1 / 2 * step) := by
    intro h'; apply hne; linarith
  simp only [gpUnnorm, gpNorm, gpHi, gpLo, hne', if_false, reduceCtorEq]
  rw [div_mul_cancel₀ _ hne]; ring

/-- GP path, EVERY shape.  (iii) of the audit: stepped floats and ints with `step ≠ 1` — a coordinate that is `OnGrid`
comes back as that grid point. -/
theorem gp_member (E : Env) (d : Dist) (raw : Raw) (hwf : WF d) (hpre : Pre E .gp d raw) :
    ∃ v, projGp E d raw = some v ∧ Member d v := by
  cases d with
  | flt c low high lg st =>
    cases st with
    | none =>
      obtain ⟨hl, hlog, _, _⟩ := hwf
      obtain ⟨h1, h2⟩ := C10.gp_num_in_range low high hl (gpUnnorm E (stOf (.flt c low high lg none)) low high 0 raw.x)
      exact ⟨_, rfl, flt_member c low high lg _ (fun hh => (hlog hh).1) h1 h2⟩
    | some s =>
      obtain ⟨hl, hlog, hstep, _⟩ := hwf
      obtain ⟨hs, K, hK0, hK⟩ := hstep s rfl
      have hlgf : lg = false := by
        cases lg with
        | false => rfl
        | true => have := (hlog rfl).2; simp at this
      subst hlgf
      obtain ⟨k, hk0, hk1, hx⟩ := hpre
      have hst : stOf (.flt c low high false (some s)) = .linear := by simp [stOf, Dist.isLog]
      rw [hst] at hx
      have hkq : (0 : Rat) ≤ (k : Rat) := by exact_mod_cast hk0
      have hlo : low ≤ (k : Rat) * s + low := by nlinarith
      have hkK : k ≤ K := by
        have : (k : Rat) * s ≤ (K : Rat) * s := by linarith
        have := le_of_mul_le_mul_right this hs
        exact_mod_cast this
      have hval : gpVal E (.flt c low high false (some s)) raw.x = (k : Rat) * s + low := by
        simp only [gpVal, hst, Option.getD_some, hx]
        rw [gp_unnorm_norm_linear E low high s _ (by linarith)]
        exact clip_id hlo hk1
      refine ⟨.flt ((k : Rat) * s + low), by simp [projGp, hval, Dist.toExternal], _, by simp [Dist.toInternal, Tok.num?],
        stepped_contains c low high s false K k hs hK hk0 hkK⟩
  | int c low high lg step =>
    by_cases hs1 : step = 1
    · subst hs1
      obtain ⟨_, _, h3⟩ := C10.gp_in_domain low high hwf.1 (gpUnnorm E (stOf (.int c low high lg 1)) (low : Rat) (high : Rat) ((1 : Int) : Rat) raw.x)
      exact ⟨_, by simp [projGp, gpVal, Dist.toExternal, truncI_intCast], h3 c lg hwf⟩
    · obtain ⟨hl, hlog, hs, hg, _⟩ := hwf
      have hlgf : lg = false := by
        cases lg with
        | false => rfl
        | true => exact absurd (hlog rfl).2 hs1
      subst hlgf
      have hgrid : OnGrid E (.int c low high false step) raw.x := by
        rcases hpre with h | h
        · exact absurd h hs1
        · exact h
      obtain ⟨k, hk0, hk1, hx⟩ := hgrid
      have hst : stOf (.int c low high false step) = .linear := by simp [stOf, Dist.isLog]
      rw [hst] at hx
      have hsq : (0 : Rat) < (step : Rat) := by exact_mod_cast hs
      have hlq : (low : Rat) ≤ (high : Rat) := by exact_mod_cast hl
      have hlo : low ≤ k * step + low := by
        have := Int.mul_nonneg hk0 (le_of_lt hs); omega
      have hval : gpInt low high (gpUnnorm E .linear (low : Rat) (high : Rat) (step : Rat) raw.x) = k * step + low := by
        rw [hx, gp_unnorm_norm_linear E _ _ _ _ (by linarith)]
        exact (C10.gp_keeps_grid_points low high step k hlo hk1).1
      refine ⟨.int (k * step + low), by simp only [projGp, gpVal, hst, hval, Dist.toExternal, truncI_intCast], ?_⟩
      exact int_member c low high false step _ hs (by simp) hlo hk1 (by
        have : k * step + low - low = k * step := by omega
        rw [this]; exact Int.mul_emod_left _ _)
  | cat cs =>
    obtain ⟨i, hi, hx⟩ := hpre
    refine ⟨cs[i], ?_, cat_member cs i _ (List.getElem?_eq_getElem hi)⟩
    simp only [projGp, gpVal, hx, cat_toExternal_nat]
    exact List.getElem?_eq_getElem hi

/-- **proj_member** — for EVERY sampler path and EVERY distribution shape: under the class invariant of the
distribution and the path's precondition on the raw numbers, the projection returns a value, and it is a member of the
declared domain (`to_internal_repr` accepts it and `_contains` holds: in `[low, high]`, on the step grid, an `int` for int
distributions, one of the choices). -/
theorem proj_member (E : Env) (path : Path) (d : Dist) (raw : Raw) (hwf : WF d) (hpre : Pre E path d raw) :
    ∃ v, proj E path d raw = some v ∧ Member d v := by
  cases path with
  | transform =>
    obtain ⟨hE, hc, hl, hx⟩ := hpre
    exact transform_member E d raw.cols hwf hE hc hl hx
  | tpe => exact tpe_member E d raw hwf hpre
  | gp => exact gp_member E d raw hwf hpre

theorem projT_member (E : Env) (path : Path) (d : Dist) (raw : Raw) (hwf : WF d) (hpre : Pre E path d raw) :
    Member d (projT E path d raw) := by
  obtain ⟨v, hv, hm⟩ := proj_member E path d raw hwf hpre
  simpa [projT, hv] using hm

/-! ### non-vacuity: boundary raws on every path × shape -/

/-- `lg = ex = id`, clamp one below (as in `C11Gen.E0`, `C10ProjGen.E0`) -/
def E0 : Env := ⟨id, id, fun h => h - 1⟩
/-- a pair that is not the identity: `lg q = q - 1`, `ex q = q + 1`; clamp `1/1000` below -/
def E1 : Env := ⟨fun q => q - 1, fun q => q + 1, fun h => h - 1 / 1000⟩

theorem envOK_E0 : EnvOK E0 := ⟨fun _ _ h => h, fun _ _ => rfl, fun _ _ _ h => h⟩
theorem envOK_E1 : EnvOK E1 :=
  ⟨fun a b h => by show a + 1 ≤ b + 1; linarith, fun q _ => by show q - 1 + 1 = q; ring,
   fun a b _ h => by show a - 1 ≤ b - 1; linarith⟩

theorem wf_flt_plain (c : FCls) (low high : Rat) (h : low ≤ high) (hc : FClsOK c false none) : WF (.flt c low high false none) :=
  ⟨h, by simp, by simp, hc⟩
theorem wf_flt_log (low high : Rat) (h0 : 0 < low) (h : low ≤ high) : WF (.flt .float low high true none) :=
  ⟨h, fun _ => ⟨h0, rfl⟩, by simp, trivial⟩
theorem wf_flt_step (low high s : Rat) (K : Int) (hs : 0 < s) (hK0 : 0 ≤ K) (hK : high - low = (K : Rat) * s) :
    WF (.flt .float low high false (some s)) := by
  have hKq : (0 : Rat) ≤ (K : Rat) := by exact_mod_cast hK0
  exact ⟨by nlinarith, by simp, fun s' hs' => by simp at hs'; subst hs'; exact ⟨hs, K, hK0, hK⟩, trivial⟩

theorem pre_transform (E : Env) (d : Dist) (us : List Rat) (hE : EnvOK E) (hc : HC E d) (hl : us.length = d.width)
    (hx : ∀ u ∈ us, 0 ≤ u ∧ u ≤ 1) : Pre E .transform d ⟨0, us⟩ := ⟨fun _ => hE, hc, hl, hx⟩

-- transform × float: exactly on `high` (u = 1) the clamp applies; exactly on `low` (u = 0)
example : WF (.flt .float 0 3 false none) ∧ Pre E0 .transform (.flt .float 0 3 false none) ⟨0, [1]⟩ ∧
    proj E0 .transform (.flt .float 0 3 false none) ⟨0, [1]⟩ = some (.flt 2) ∧
    proj E0 .transform (.flt .float 0 3 false none) ⟨0, [0]⟩ = some (.flt 0) :=
  ⟨wf_flt_plain _ _ _ (by norm_num) trivial,
   pre_transform _ _ _ envOK_E0 (fun _ => by simp [E0]) rfl (by simp), by decide +kernel, by decide +kernel⟩
-- transform × log float with low near 0 (E1): u = 0 ↦ low, u = 1 ↦ the clamp below high
example : WF (.flt .float (1/1000) 10 true none) ∧ Pre E1 .transform (.flt .float (1/1000) 10 true none) ⟨0, [1]⟩ ∧
    proj E1 .transform (.flt .float (1/1000) 10 true none) ⟨0, [0]⟩ = some (.flt (1/1000)) ∧
    proj E1 .transform (.flt .float (1/1000) 10 true none) ⟨0, [1]⟩ = some (.flt (9999/1000)) :=
  ⟨wf_flt_log _ _ (by norm_num) (by norm_num),
   pre_transform _ _ _ envOK_E1 (fun _ => by (simp [E1]; norm_num)) rfl (by simp), by decide +kernel, by decide +kernel⟩
-- transform × stepped float: the corners of the widened box (ties 4.5 and -0.5 round to even) land on the end points
example : WF (.flt .float 0 1 false (some (1/4))) ∧ Pre E0 .transform (.flt .float 0 1 false (some (1/4))) ⟨0, [1]⟩ ∧
    proj E0 .transform (.flt .float 0 1 false (some (1/4))) ⟨0, [1]⟩ = some (.flt 1) ∧
    proj E0 .transform (.flt .float 0 1 false (some (1/4))) ⟨0, [0]⟩ = some (.flt 0) ∧
    proj E0 .transform (.flt .float 0 1 false (some (1/4))) ⟨0, [2/5]⟩ = some (.flt (1/2)) :=
  ⟨wf_flt_step 0 1 (1/4) 4 (by norm_num) (by norm_num) (by norm_num),
   pre_transform _ _ _ envOK_E0 trivial rfl (by simp), by decide +kernel, by decide +kernel, by decide +kernel⟩
-- a step that does not divide the range: the constructor lowers `high` to 9/10, and that is the distribution `proj` sees
example : mkFlt .float 0 1 false (some (3/10)) = .ok (.flt .float 0 (9/10) false (some (3/10))) ∧
    proj E0 .transform (.flt .float 0 (9/10) false (some (3/10))) ⟨0, [1]⟩ = some (.flt (9/10)) ∧
    proj E0 .tpe (.flt .float 0 (9/10) false (some (3/10))) ⟨1, []⟩ = some (.flt (9/10)) := by decide +kernel
-- transform × int / stepped int / log int (E1: the bounds are log(low - 1/2), log(high + 1/2))
example : WF (.int .int 1 9 false 4) ∧ Pre E0 .transform (.int .int 1 9 false 4) ⟨0, [1]⟩ ∧
    proj E0 .transform (.int .int 1 9 false 4) ⟨0, [1]⟩ = some (.int 9) ∧
    proj E0 .transform (.int .int 1 9 false 4) ⟨0, [0]⟩ = some (.int 1) ∧
    proj E0 .transform (.int .int 0 10 false 1) ⟨0, [1/2]⟩ = some (.int 5) ∧
    proj E1 .transform (.int .int 1 8 true 1) ⟨0, [1]⟩ = some (.int 8) ∧
    proj E1 .transform (.int .int 1 8 true 1) ⟨0, [0]⟩ = some (.int 1) :=
  ⟨by simp [WF, IClsOK], pre_transform _ _ _ envOK_E0 trivial rfl (by simp),
   by decide +kernel, by decide +kernel, by decide +kernel, by decide +kernel, by decide +kernel⟩
-- transform × categorical (first maximal column) and single-valued float (no clamp)
example : Pre E0 .transform (.cat [.none, .nan, .int 3]) ⟨0, [1/2, 1, 1]⟩ ∧
    proj E0 .transform (.cat [.none, .nan, .int 3]) ⟨0, [1/2, 1, 1]⟩ = some .nan ∧
    proj E0 .transform (.flt .float 2 2 false none) ⟨0, [7/10]⟩ = some (.flt 2) :=
  ⟨pre_transform _ _ _ envOK_E0 trivial rfl (by simp; norm_num), by decide +kernel, by decide +kernel⟩

-- tpe × float: a draw just below `low` / far above `high`; log float with `low` near 0 (E1); stepped float; ints
example : proj E0 .tpe (.flt .float (123456/1000) (1123456/1000) false none) ⟨123455/1000, []⟩ = some (.flt (123456/1000)) ∧
    proj E1 .tpe (.flt .float (1/1000) 10 true none) ⟨-5, []⟩ = some (.flt (1/1000)) ∧
    proj E1 .tpe (.flt .float (1/1000) 10 true none) ⟨100, []⟩ = some (.flt 10) ∧
    proj E1 .tpe (.flt .float (1/1000) 10 true none) ⟨0, []⟩ = some (.flt 1) ∧
    proj E0 .tpe (.flt .float 0 1 false (some (1/4))) ⟨7, []⟩ = some (.flt 1) ∧
    proj E0 .tpe (.int .int (-1220944962) (-1220944887) false 5) ⟨-1220944959, []⟩ = some (.int (-1220944957)) ∧
    proj E0 .tpe (.int .int 1 9 false 4) ⟨1000, []⟩ = some (.int 9) ∧
    proj E1 .tpe (.int .int 1 8 true 1) ⟨100, []⟩ = some (.int 8) ∧
    proj E1 .tpe (.int .int 1 8 true 1) ⟨-100, []⟩ = some (.int 1) := by decide +kernel
example : Pre E1 .tpe (.flt .float (1/1000) 10 true none) ⟨-5, []⟩ := envOK_E1
-- tpe × categorical: rounding noise in the cumulative weights and q → 1: the last index, not one past it
example : Pre E0 .tpe (.cat [.str "a", .str "b", .none]) ⟨99999/100000, [1/4, 1/2, 9999/10000]⟩ ∧
    proj E0 .tpe (.cat [.str "a", .str "b", .none]) ⟨99999/100000, [1/4, 1/2, 9999/10000]⟩ = some .none ∧
    proj E0 .tpe (.cat [.str "a", .str "b", .none]) ⟨1/4, [1/4, 1/2, 1]⟩ = some (.str "a") :=
  ⟨⟨rfl, by norm_num⟩, by decide +kernel, by decide +kernel⟩

-- gp × float (any coordinate, also outside the box), log float (E1), stepped float / stepped int ON the grid, step 1, categorical
example : proj E0 .gp (.flt .float 0 1 false none) ⟨-3, []⟩ = some (.flt 0) ∧
    proj E0 .gp (.flt .float 0 1 false none) ⟨2, []⟩ = some (.flt 1) ∧
    proj E1 .gp (.flt .float (1/1000) 10 true none) ⟨1, []⟩ = some (.flt 10) ∧
    proj E1 .gp (.flt .float (1/1000) 10 true none) ⟨0, []⟩ = some (.flt (1/1000)) ∧
    proj E1 .gp (.flt .float (1/1000) 10 true none) ⟨2, []⟩ = some (.flt 10) ∧
    proj E0 .gp (.flt .float 0 1 false (some (1/4))) ⟨7/10, []⟩ = some (.flt (3/4)) ∧
    proj E0 .gp (.int .int 0 10 false 5) ⟨1/2, []⟩ = some (.int 5) ∧
    proj E0 .gp (.int .int 0 10 false 5) ⟨5/6, []⟩ = some (.int 10) ∧
    proj E0 .gp (.int .int 0 10 false 1) ⟨2, []⟩ = some (.int 10) ∧
    proj E0 .gp (.cat [.str "a", .str "b", .none]) ⟨2, []⟩ = some .none := by decide +kernel
example : Pre E0 .gp (.flt .float 0 1 false (some (1/4))) ⟨7/10, []⟩ :=
  ⟨3, by norm_num, by norm_num, by
    show (7/10 : Rat) = gpNorm E0 (stOf (.flt .float 0 1 false (some (1/4)))) 0 1 (1/4) (((3 : Int) : Rat) * (1/4) + 0)
    decide +kernel⟩
example : Pre E0 .gp (.int .int 0 10 false 5) ⟨5/6, []⟩ :=
  Or.inr ⟨2, by norm_num, by norm_num, by
    show (5/6 : Rat) = gpNorm E0 (stOf (.int .int 0 10 false 5)) ((0 : Int) : Rat) ((10 : Int) : Rat) ((5 : Int) : Rat) (((2 * 5 + 0 : Int)) : Rat)
    decide +kernel⟩
example : Pre E0 .gp (.cat [.str "a", .str "b", .none]) ⟨2, []⟩ := ⟨2, by simp, by norm_num⟩

/-! ## 4. every clause of `Pre` is needed (concrete raws; replayed on the real code by the harness / the report) -/

theorem not_member_flt (c : FCls) (low high p : Rat) (lg : Bool) (h : p < low ∨ high < p) :
    ¬ Member (.flt c low high lg none) (.flt p) := by
  rintro ⟨q, hq, hc⟩
  have hqp : q = p := by
    simp only [Dist.toInternal, Tok.num?] at hq
    split at hq
    · simp at hq
    · simp at hq; exact hq.symm
  subst hqp
  simp only [Dist.contains, Bool.and_eq_true, decide_eq_true_eq] at hc
  rcases h with h | h
  · exact absurd hc.1 (not_le.mpr h)
  · exact absurd hc.2 (not_le.mpr h)

/-- **transform_pre_needed** — the transform path has NO lower clip for step-less floats: a column below the box
(`u < 0`, which `rng.uniform` / a QMC point never is, but an NSGA crossover operator may produce — there `_is_contained`
is the guard) comes out unchanged and is not a member. -/
theorem transform_pre_needed :
    WF (.flt .float 0 1 false none) ∧ EnvOK E1 ∧ HC E1 (.flt .float 0 1 false none) ∧
    proj E1 .transform (.flt .float 0 1 false none) ⟨0, [-1/10]⟩ = some (.flt (-1/10)) ∧
    ¬ Member (.flt .float 0 1 false none) (.flt (-1/10)) :=
  ⟨wf_flt_plain _ _ _ (by norm_num) trivial, envOK_E1, fun _ => by (simp [E1]; norm_num), by decide +kernel,
   not_member_flt _ _ _ _ _ (Or.inl (by norm_num))⟩

/-- **transform_hc_needed** — `HC` is genuinely needed: with a clamp that falls below `low` (what a fixed `high - eps`
does on a range narrower than `eps`; here `high - 1` on `[0, 1/2]`) the corner `u = 1` of the box is projected out of the
domain.  `np.nextafter(high, high - 1)` satisfies `HC` in doubles whenever `low < high`. -/
theorem transform_hc_needed :
    WF (.flt .float 0 (1/2) false none) ∧ EnvOK E0 ∧ ¬ HC E0 (.flt .float 0 (1/2) false none) ∧
    proj E0 .transform (.flt .float 0 (1/2) false none) ⟨0, [1]⟩ = some (.flt (-1/2)) ∧
    ¬ Member (.flt .float 0 (1/2) false none) (.flt (-1/2)) := by
  refine ⟨wf_flt_plain _ _ _ (by norm_num) trivial, envOK_E0, ?_, by decide +kernel,
    not_member_flt _ _ _ _ _ (Or.inl (by norm_num))⟩
  intro h
  have := (h (by norm_num)).1
  simp [E0] at this
  norm_num at this

/-- **tpe_cat_pre_needed** — a quantile above 1 counts every cumulative weight: the index is `len(choices)` and
`to_external_repr` raises `IndexError` (`none`).  `rng.rand()` is in `[0, 1)`. -/
theorem tpe_cat_pre_needed :
    proj E0 .tpe (.cat [.str "a", .str "b"]) ⟨2, [1/2, 1]⟩ = none ∧
    proj E0 .tpe (.cat [.str "a", .str "b"]) ⟨1, [1/2, 1]⟩ = some (.str "b") := by decide +kernel

/-- **gp_box_alone_not_enough** — for GP coordinates with a step, "inside the normalised box `[0, 1]`" is NOT enough:
`get_unnormalized_param` clips (and rounds ints to the nearest integer) but does not snap to the step grid.
`IntDistribution(0, 10, step=5)` at `x = 2/5` gives `4`; `FloatDistribution(0, 1, step=0.25)` at `x = 2/5` gives `0.375`.
What keeps such values out is the optimiser's discipline `OnGrid` (and, behind it, the containment test of `_suggest` on
relative values: `relative_outside_falls_back`). -/
theorem gp_box_alone_not_enough :
    WF (.int .int 0 10 false 5) ∧ (0 : Rat) ≤ 2/5 ∧ (2/5 : Rat) ≤ 1 ∧
    proj E0 .gp (.int .int 0 10 false 5) ⟨2/5, []⟩ = some (.int 4) ∧ ¬ Member (.int .int 0 10 false 5) (.int 4) ∧
    proj E0 .gp (.flt .float 0 1 false (some (1/4))) ⟨2/5, []⟩ = some (.flt (3/8)) ∧
    ¬ Member (.flt .float 0 1 false (some (1/4))) (.flt (3/8)) := by
  refine ⟨by simp [WF, IClsOK], by norm_num, by norm_num, by decide +kernel, ?_, by decide +kernel, ?_⟩
  · rintro ⟨q, hq, hc⟩
    have : q = 4 := by simp [Dist.toInternal, Tok.num?] at hq; exact hq.symm
    subst this
    revert hc; decide +kernel
  · rintro ⟨q, hq, hc⟩
    have : q = 3/8 := by simp [Dist.toInternal, Tok.num?] at hq; exact hq.symm
    subst this
    revert hc; decide +kernel

/-! ## 5. the composition with `Trial._suggest` -/

/-- **suggest_value_in_domain** — for EVERY sampler path: when the independent sampler's answer is the projection of
raw numbers meeting the path's precondition, the value `Trial._suggest` returns for a new name is a member of the declared
domain — whichever branch produced it (fixed / single / relative / independent), for every trial state, context and
relative sampler.  Hypotheses: the class invariant `WF d`, `Pre`, and — because optuna only WARNS about an enqueued value
outside the range — that the fixed value, if there is one, is a member.  No hypothesis on the sampler's answer. -/
theorem suggest_value_in_domain (E : Env) (path : Path) (cx : Suggest.Ctx) (st st1 : St) (name : String) (d : Dist) (raw : Raw)
    (v : Tok) (br : Branch) (hnew : st.dists.get? name = none)
    (h : suggest cx st name d (projT E path d raw) = .ok (st1, v, br)) (hwf : WF d) (hpre : Pre E path d raw)
    (hfixed : ∀ fv, cx.fixed.get? name = some fv → Member d fv) : Member d v :=
  C10.suggest_in_domain cx st st1 name d _ v br hnew h hwf hfixed (projT_member E path d raw hwf hpre)

/-- … and without a fixed value for the name: `WF` and `Pre` only. -/
theorem suggest_value_in_domain_unfixed (E : Env) (path : Path) (cx : Suggest.Ctx) (st st1 : St) (name : String) (d : Dist) (raw : Raw)
    (v : Tok) (br : Branch) (hnew : st.dists.get? name = none) (hnf : cx.fixed.get? name = none)
    (h : suggest cx st name d (projT E path d raw) = .ok (st1, v, br)) (hwf : WF d) (hpre : Pre E path d raw) : Member d v :=
  suggest_value_in_domain E path cx st st1 name d raw v br hnew h hwf hpre (fun fv hf => by rw [hnf] at hf; simp at hf)

/-- the call does return (no exception) when nothing is fixed for the name -/
theorem suggest_proj_succeeds (E : Env) (path : Path) (cx : Suggest.Ctx) (st : St) (name : String) (d : Dist) (raw : Raw)
    (hnew : st.dists.get? name = none) (hnf : cx.fixed.get? name = none) (hnr : cx.relParams.get? name = none)
    (hwf : WF d) (hpre : Pre E path d raw) :
    ∃ st1 v br, suggest cx st name d (projT E path d raw) = .ok (st1, v, br) ∧ Member d v := by
  by_cases hs : d.single = true
  · obtain ⟨q, hq, hc⟩ := C10.single_member d hwf
    refine ⟨_, _, _, C10.suggest_new cx st name d _ (singleValue d) .single q hnew ?_ hq, q, hq, hc⟩
    simp [pick, pickS, hnf, hs]
  · obtain ⟨q, hq, hc⟩ := projT_member E path d raw hwf hpre
    refine ⟨_, _, _, C10.suggest_new cx st name d _ (projT E path d raw) .independent q hnew ?_ hq, q, hq, hc⟩
    simp [pick, pickS, hnf, hs, hnr]

/-- **relative_proj_is_used** — the relative half: when `sample_relative` answers `proj path d raw` (TPE multivariate /
group, GP, QMC) for a name of its search space with a compatible distribution, `_suggest` TAKES that value (the containment
test passes — the independent sampler is not consulted), and it is a member. -/
theorem relative_proj_is_used (E : Env) (path : Path) (cx : Suggest.Ctx) (st : St) (name : String) (d rd : Dist) (raw : Raw) (indep : Tok)
    (hnew : st.dists.get? name = none) (hf : cx.fixed.get? name = none) (hs : d.single = false)
    (hr : cx.relParams.get? name = some (projT E path d raw)) (hsp : cx.relSpace.get? name = some rd)
    (hc : compat rd d = true) (hwf : WF d) (hpre : Pre E path d raw) :
    ∃ q, Member d (projT E path d raw) ∧ suggest cx st name d indep =
      .ok ({ params := st.params.set name (projT E path d raw), dists := st.dists.set name d,
             stored := st.stored.set name (q, d) }, projT E path d raw, .relative) := by
  obtain ⟨q, hq, hin⟩ := projT_member E path d raw hwf hpre
  exact ⟨q, ⟨q, hq, hin⟩, C10.relative_inside_used cx st name d rd _ indep q hnew hf hs hr hsp hc hq hin⟩

-- non-vacuity: the three branches with projections as sources.  `x`: relative GP coordinate ON the grid is taken;
-- `y`: relative value for another range is discarded, Random's projection (u = 1, the clamp) is used
example :
    let dx : Dist := .int .int 0 10 false 5
    let dy : Dist := .flt .float 0 3 false none
    let cx : Suggest.Ctx := ⟨[], [("x", dx), ("y", .flt .float 0 30 false none)], [("x", projT E0 .gp dx ⟨5/6, []⟩), ("y", .flt 7)]⟩
    (suggest cx St.empty "x" dx (projT E0 .transform dx ⟨0, [0]⟩)).toOption.map (fun r => (r.2.1, r.2.2)) = some (.int 10, .relative) ∧
    (suggest cx St.empty "y" dy (projT E0 .transform dy ⟨0, [1]⟩)).toOption.map (fun r => (r.2.1, r.2.2)) = some (.flt 2, .independent) := by
  decide +kernel

/-- **nsga_suggest_value_in_domain** — NSGA-II end to end: the relative parameters are whatever the child generation
strategy returned (members, by `C10Nsga.child_params_in_domain`: the retry loop leaves only through `_is_contained`; and
again tested by `_suggest`), a parameter dropped by the mutation comes from `RandomSampler` = the transform path.  The
value the objective receives is a member; the hypothesis `hindep` of `C10Nsga.nsga2_suggested_value_in_domain` is gone. -/
theorem nsga_suggest_value_in_domain (E EN : Env) (cfg : Nsga2.Cfg) (space : Nsga2.Space) (pop : List (Nsga2.Ind XVal))
    (s : List Nsga2.Draw) (out : Nsga2.ChildOut) (_h : Nsga2.childGen EN cfg space pop s = .ok out)
    (cx : Suggest.Ctx) (_hrel : cx.relParams = out.params) (st st1 : St) (name : String) (d : Dist) (raw : Raw) (v : Tok) (br : Branch)
    (hnew : st.dists.get? name = none)
    (h : suggest cx st name d (projT E .transform d raw) = .ok (st1, v, br)) (hwf : WF d) (hpre : Pre E .transform d raw)
    (hfixed : ∀ fv, cx.fixed.get? name = some fv → Member d fv) : Member d v :=
  suggest_value_in_domain E .transform cx st st1 name d raw v br hnew h hwf hpre hfixed

/-! ## 6. generated code on both sides: the evaluators of the generated projections feed the interpreter of the generated `_suggest` -/

section Gen
open OptunaVerif.Generated.ProjGen
open OptunaVerif.Generated.TransformGen (prog)
open OptunaVerif.TransformIR (boundsGen untransformGen)

/-- transform path on the GENERATED `_transform.py`: the `bounds` property and `untransform` of
`_SearchSpaceTransform({name: d})` as translated today (`C11Gen`), with the hand-off `lo + u·(hi − lo)` between them (pinned
as text by T-proj: `qmc_handoff`, `random_handoff`; NumPy refuses vectors of different lengths). -/
def projGenTransform (E : Env) (d : Dist) (us : List Rat) : Option Tok :=
  match boundsGen prog E c0 [d] with
  | some bs =>
    if us.length = bs.length then
      match untransformGen prog E c0 [d] (List.zipWith unscale01 bs us) with
      | some [v] => some v
      | _ => none
    else none
  | none => none

/-- TPE on the GENERATED formulas: `_calculate_distributions` (`calcLow`, `calcHigh`, `calcStepNone`) chooses the batched
distribution, `_calculate_numerical_distributions` the arm (`numContG`), `_MixtureOfProductDistribution.sample` the clip /
discretisation (`mixCont`, `mixDisc`, `mixCat`), `_ParzenEstimator._untransform` the rest (`tpeUntransform`). -/
def tpeGenVal (E : Env) (d : Dist) (raw : Raw) : Rat :=
  match d with
  | .cat _ => ((mixCat.eval raw.cols raw.x : Nat) : Rat)
  | _ =>
    let ρ := ctxD d raw.x
    let ρm : ProjIR.Ctx :=
      { ctxM (calcLow.eval E noCall ρ) (calcHigh.eval E noCall ρ) ρ.step 0 1 raw.x with stepNone := calcStepNone.eval E noCall ρ }
    tpeUntransform.eval E noCall
      (ctxD d (if numContG.eval E noCall ρm then mixCont.eval E noCall ρm else mixDisc.eval E noCall ρm))

/-- GP on the GENERATED `get_unnormalized_param` (numerical arm `gpGet`; the categorical arm is the pinned text
`ret[param] = distribution.to_external_repr(normalized_param[i])`) -/
def gpGenVal (E : Env) (d : Dist) (x : Rat) : Rat :=
  match d with
  | .cat _ => x
  | _ => gpGet.eval E (gp.callf E) (ctxD d x)

/-- **the projection, evaluated on the generated code** -/
def projGen (E : Env) : Path → Dist → Raw → Option Tok
  | .transform, d, raw => projGenTransform E d raw.cols
  | .tpe, d, raw => d.toExternal (tpeGenVal E d raw)
  | .gp, d, raw => d.toExternal (gpGenVal E d raw.x)

def projGenT (E : Env) (path : Path) (d : Dist) (raw : Raw) : Tok := (projGen E path d raw).getD .none

theorem gen_proj_transform_eq (E : Env) (d : Dist) (us : List Rat) : projGenTransform E d us = projTransform E d us := by
  have hb : bounds E c0 [d] = boundsOf E c0 d := by simp [bounds, c0]
  unfold projGenTransform projTransform
  rw [C11Gen.gen_bounds_eq, hb]
  simp only [boundsOf_length, C11Gen.gen_untransform_eq]
  by_cases hl : us.length = d.width
  · have hz : (List.zipWith unscale01 (boundsOf E c0 d) us).length = d.width := by
      simp [List.length_zipWith, boundsOf_length, hl]
    rw [if_pos hl, if_pos hl, untransform_cons, if_neg (by rw [hz]; exact lt_irrefl _)]
    have ht : (List.zipWith unscale01 (boundsOf E c0 d) us).take d.width = List.zipWith unscale01 (boundsOf E c0 d) us := by
      rw [← hz]; exact List.take_length
    have hd : (List.zipWith unscale01 (boundsOf E c0 d) us).drop d.width = [] := by
      rw [← hz]; exact List.drop_length
    rw [ht, hd]
    have hu : ucols E c0 d (List.zipWith unscale01 (boundsOf E c0 d) us) = decode E c0 d (List.zipWith unscale01 (boundsOf E c0 d) us) := by
      simp [ucols, c0]
    rw [hu]
    cases decode E c0 d (List.zipWith unscale01 (boundsOf E c0 d) us) <;> simp [untransform]
  · rw [if_neg hl, if_neg hl]

theorem gen_tpe_val_eq (E : Env) (d : Dist) (raw : Raw) : tpeGenVal E d raw = tpeVal E d raw := by
  cases d with
  | flt c l h lg st =>
    cases lg <;> cases st <;>
      simp [tpeGenVal, tpeVal, calcLow, calcHigh, calcStepNone, numContG, mixCont, mixDisc, tpeUntransform, X.eval, G.eval,
        ctxD, ctxM, Ctx.get, tpeCont, tpeDisc]
  | int c l h lg st =>
    cases lg <;>
      simp [tpeGenVal, tpeVal, calcLow, calcHigh, calcStepNone, numContG, mixCont, mixDisc, tpeUntransform, X.eval, G.eval,
        ctxD, ctxM, Ctx.get, tpeCont, tpeDisc]
  | cat cs => simp [tpeGenVal, tpeVal, C10ProjGen.gen_mix_cat_eq]

theorem gen_gp_val_eq (E : Env) (d : Dist) (x : Rat) : gpGenVal E d x = gpVal E d x := by
  cases d with
  | flt c l h lg st => simp only [gpGenVal, gpVal, C10ProjGen.gen_gp_get_eq]
  | int c l h lg st => simp only [gpGenVal, gpVal, C10ProjGen.gen_gp_get_eq]
  | cat cs => rfl

/-- **gen_proj_eq** — the projections *as written in the source today* (T-proj: `Generated/ProjGen.lean`; T-transform:
`Generated/TransformGen.lean`), composed along each sampler path, ARE `proj`. -/
theorem gen_proj_eq (E : Env) (path : Path) (d : Dist) (raw : Raw) : projGen E path d raw = proj E path d raw := by
  cases path with
  | transform => exact gen_proj_transform_eq E d raw.cols
  | tpe => simp only [projGen, proj, projTpe, gen_tpe_val_eq]
  | gp => simp only [projGen, proj, projGp, gen_gp_val_eq]

theorem gen_projT_eq (E : Env) (path : Path) (d : Dist) (raw : Raw) : projGenT E path d raw = projT E path d raw := by
  simp only [projGenT, projT, gen_proj_eq]

/-- **gen_proj_member** — `proj_member` for the code as written today -/
theorem gen_proj_member (E : Env) (path : Path) (d : Dist) (raw : Raw) (hwf : WF d) (hpre : Pre E path d raw) :
    ∃ v, projGen E path d raw = some v ∧ Member d v := by
  rw [gen_proj_eq]; exact proj_member E path d raw hwf hpre

-- non-vacuity: the evaluators on boundary raws (same values as the hand model above)
example : projGen E0 .transform (.flt .float 0 3 false none) ⟨0, [1]⟩ = some (.flt 2) ∧
    projGen E0 .transform (.int .int 1 9 false 4) ⟨0, [1]⟩ = some (.int 9) ∧
    projGen E0 .transform (.cat [.none, .nan, .int 3]) ⟨0, [1/2, 1, 1]⟩ = some .nan ∧
    projGen E0 .transform (.int .int 1 9 false 4) ⟨0, [1, 1]⟩ = none ∧
    projGen E1 .tpe (.flt .float (1/1000) 10 true none) ⟨100, []⟩ = some (.flt 10) ∧
    projGen E1 .tpe (.int .int 1 8 true 1) ⟨100, []⟩ = some (.int 8) ∧
    projGen E0 .tpe (.cat [.str "a", .str "b", .none]) ⟨99999/100000, [1/4, 1/2, 9999/10000]⟩ = some .none ∧
    projGen E0 .gp (.int .int 0 10 false 5) ⟨5/6, []⟩ = some (.int 10) ∧
    projGen E0 .gp (.int .int 0 10 false 5) ⟨2/5, []⟩ = some (.int 4) ∧
    projGen E0 .gp (.cat [.str "a", .str "b", .none]) ⟨2, []⟩ = some .none := by decide +kernel

open OptunaVerif.C10SuggestGen (genSuggest gen_suggest_eq envOf)
open OptunaVerif.Generated.SuggestMethods (program)
open OptunaVerif.SuggestIR OptunaVerif.SuggestApi

/-- **gen_suggest_value_in_domain** — generated code on both sides: the interpreter of `Trial._suggest` as written today,
with the independent sampler answering the evaluator of the generated projection of its path, returns a member of the
declared domain for a new name — under `WF d`, the path's `Pre` and the fixed-value hypothesis only. -/
theorem gen_suggest_value_in_domain (E : Env) (path : Path) (cx : Suggest.Ctx) (st st1 : St) (name : String) (d : Dist) (raw : Raw)
    (v : Tok) (br : Branch) (hnew : st.dists.get? name = none)
    (h : genSuggest cx st name d (projGenT E path d raw) = some (.ok (st1, v, br))) (hwf : WF d) (hpre : Pre E path d raw)
    (hfixed : ∀ fv, cx.fixed.get? name = some fv → Member d fv) : Member d v := by
  rw [gen_suggest_eq, gen_projT_eq] at h
  exact suggest_value_in_domain E path cx st st1 name d raw v br hnew (Option.some.inj h) hwf hpre hfixed

/-- **gen_relative_proj_is_used** — … and a relative value that is the evaluated projection is taken -/
theorem gen_relative_proj_is_used (E : Env) (path : Path) (cx : Suggest.Ctx) (st : St) (name : String) (d rd : Dist) (raw : Raw) (indep : Tok)
    (hnew : st.dists.get? name = none) (hf : cx.fixed.get? name = none) (hs : d.single = false)
    (hr : cx.relParams.get? name = some (projGenT E path d raw)) (hsp : cx.relSpace.get? name = some rd)
    (hc : compat rd d = true) (hwf : WF d) (hpre : Pre E path d raw) :
    ∃ q, Member d (projGenT E path d raw) ∧ genSuggest cx st name d indep =
      some (.ok ({ params := st.params.set name (projGenT E path d raw), dists := st.dists.set name d, stored := st.stored.set name (q, d) },
        projGenT E path d raw, .relative)) := by
  rw [gen_projT_eq] at hr ⊢
  obtain ⟨q, hm, hsg⟩ := relative_proj_is_used E path cx st name d rd raw indep hnew hf hs hr hsp hc hwf hpre
  exact ⟨q, hm, by rw [gen_suggest_eq, hsg]⟩

example : genSuggest ⟨[], [], []⟩ St.empty "x" (.int .int 1 9 false 4) (projGenT E0 .transform (.int .int 1 9 false 4) ⟨0, [1]⟩) =
    some (.ok (⟨[("x", .int 9)], [("x", .int .int 1 9 false 4)], [("x", (9, .int .int 1 9 false 4))]⟩, .int 9, .independent)) := by
  decide +kernel

/-- **gen_suggest_float_value_in_domain** — the public wrapper `suggest_float(name, low, high, step=…, log=…)` as written
today, sampler = evaluated projection on the distribution the wrapper builds: the returned value is a member of that
`FloatDistribution`. -/
theorem gen_suggest_float_value_in_domain (E : Env) (path : Path) (cx : Suggest.Ctx) (st : St) (name : String) (low high : Rat)
    (step : Option Rat) (log : Bool) (d : Dist) (raw : Raw) (v : Tok) (o : AOut) (hnew : st.dists.get? name = none)
    (hd : mkFlt .float low high log step = .ok d) (hpre : Pre E path d raw)
    (h : interpSuggestFloat program (envOf cx (projGenT E path d raw)) st name low high step log = some o) (hok : o.res = .ok v)
    (hfixed : ∀ fv, cx.fixed.get? name = some fv → Member d fv) : Member d v := by
  have hwf : WF d := mkFlt_wf .float _ _ _ _ _ (by simp [FClsOK]) hd
  obtain ⟨d', hd', hm⟩ := C10SuggestGen.gen_suggest_float_in_domain cx st name low high step log _ v o hnew h hok
    (fun d1 fv h1 hf => by rw [hd] at h1; cases h1; exact hfixed fv hf)
    (fun d1 h1 => by rw [hd] at h1; cases h1; rw [gen_projT_eq]; exact projT_member E path d raw hwf hpre)
  rw [hd] at hd'; cases hd'; exact hm

/-- **gen_suggest_int_value_in_domain** — `suggest_int`: an `int`, member of the `IntDistribution` the wrapper builds -/
theorem gen_suggest_int_value_in_domain (E : Env) (path : Path) (cx : Suggest.Ctx) (st : St) (name : String) (low high step : Int)
    (log : Bool) (d : Dist) (raw : Raw) (v : Tok) (o : AOut) (hnew : st.dists.get? name = none)
    (hd : mkInt .int low high log step = .ok d) (hpre : Pre E path d raw)
    (h : interpSuggestInt program (envOf cx (projGenT E path d raw)) st name low high step log = some o) (hok : o.res = .ok v)
    (hfixed : ∀ fv, cx.fixed.get? name = some fv → Member d fv) : ∃ i : Int, v = .int i ∧ Member d (.int i) := by
  have hwf : WF d := mkInt_wf .int _ _ _ _ _ (by simp [IClsOK]) hd
  obtain ⟨d', i, hd', hv, hm⟩ := C10SuggestGen.gen_suggest_int_in_domain cx st name low high step log _ v o hnew h hok
    (fun d1 fv h1 hf => by rw [hd] at h1; cases h1; exact hfixed fv hf)
    (fun d1 h1 => by rw [hd] at h1; cases h1; rw [gen_projT_eq]; exact projT_member E path d raw hwf hpre)
  rw [hd] at hd'; cases hd'; exact ⟨i, hv, hm⟩

/-- **gen_suggest_categorical_value_in_choices** — `suggest_categorical`: one of the choices -/
theorem gen_suggest_categorical_value_in_choices (E : Env) (path : Path) (cx : Suggest.Ctx) (st : St) (name : String)
    (choices : List Tok) (raw : Raw) (v : Tok) (o : AOut) (hnew : st.dists.get? name = none) (hne : choices ≠ [])
    (hpre : Pre E path (.cat choices) raw)
    (h : interpSuggestCategorical program (envOf cx (projGenT E path (.cat choices) raw)) st name choices = some o) (hok : o.res = .ok v)
    (hfixed : ∀ fv, cx.fixed.get? name = some fv → Member (.cat choices) fv) : Member (.cat choices) v :=
  C10SuggestGen.gen_suggest_categorical_in_choices cx st name choices _ v o hnew h hok hfixed
    (by rw [gen_projT_eq]; exact projT_member E path (.cat choices) raw hne hpre)

-- non-vacuity: `suggest_float("x", 0, 1, step=0.3)`: high becomes 0.9; TPE's discretisation of a draw far above lands on it
example : (interpSuggestFloat program (envOf ⟨[], [], []⟩ (projGenT E0 .tpe (.flt .float 0 (9/10) false (some (3/10))) ⟨7, []⟩))
    St.empty "x" 0 1 (some (3/10)) false).map (fun o => (o.res, o.st.dists)) =
    some (.ok (.flt (9/10)), [("x", .flt .float 0 (9/10) false (some (3/10)))]) := by decide +kernel
example : (interpSuggestInt program (envOf ⟨[], [], []⟩ (projGenT E0 .gp (.int .int 0 10 false 5) ⟨5/6, []⟩))
    St.empty "n" 0 12 5 false).map (fun o => o.res) = some (.ok (.int 10)) := by decide +kernel
example : (interpSuggestCategorical program (envOf ⟨[], [], []⟩ (projGenT E0 .tpe (.cat [.str "a", .none]) ⟨999/1000, [1/2, 999/1000]⟩))
    St.empty "c" [.str "a", .none]).map (fun o => o.res) = some (.ok .none) := by decide +kernel

end Gen

end OptunaVerif.C10Compose
