import OptunaVerif.Props.C11Gen
import OptunaVerif.Props.C10
/-!
# C10 (translator tie) — the projection at the end of the transform-based sampler paths, as written today

`_untransform_numerical_param` is what Random / QMC / NSGA-II / NSGA-III (and the start-up phase or independent
fallback of most other samplers) apply to whatever raw number their internals produce.  `Props/C11Gen.lean` proves
that the formula REGENERATED from `optuna/_transform.py` on every run evaluates to the hand model's `decode`
(`gen_unum_eq`); here `C10.untransform_projection_in_domain` is restated for the evaluator of the generated formula,
and the float paths (which have no clip, only the half-open clamp) get their own statement.
-/
namespace OptunaVerif.C10Gen
open OptunaVerif OptunaVerif.Dist OptunaVerif.TransformIR OptunaVerif.C11Gen
open OptunaVerif.Generated.TransformGen (prog)

/-- **gen_untransform_projection_in_domain** — for the code as written today: on the clip-and-round paths (stepped
floats, ints, log ints with `transform_log`) EVERY raw column value, inside or outside the bounds, is projected to a
member of the declared domain (in range, on the grid, an `int` for int distributions). -/
theorem gen_untransform_projection_in_domain (E : Env) (c : TCfg) (d : Dist) (x : Rat) (h : WF d)
    (hkind : match d with
      | .flt _ _ _ _ (some _) => True
      | .int _ _ _ log _ => log = false ∨ c.tlog = true
      | _ => False) :
    ∃ v, unumEval prog E c d x = some v ∧ Member d v := by
  have hd : ∀ cs, d ≠ .cat cs := by
    intro cs hcs; subst hcs; exact hkind
  rw [gen_unum_eq E c d x hd]
  exact C10.untransform_projection_in_domain E c d x h hkind

-- non-vacuity: a raw value far outside the range is pulled onto the last grid point / into the range, as an `int`
example : unumEval prog E0 ⟨true, true, false⟩ (.int .int 1 9 false 4) 1000 = some (.int 9) ∧
    unumEval prog E0 ⟨true, true, false⟩ (.int .int 1 9 false 4) (-1000) = some (.int 1) ∧
    unumEval prog E0 ⟨true, true, false⟩ (.flt .float 0 1 false (some (1/4))) 7 = some (.flt 1) := by decide +kernel
example : WF (.int .int 1 9 false 4) := by simp [WF, IClsOK]

/-- **gen_untransform_clamp_in_domain** — the float paths without step (plain and log floats): a raw value inside the
transformed bounds is projected into `[low, high]`, provided the half-open clamp stays in the domain (`HC`: this is
the hypothesis that `high - eps` violates on narrow ranges, and that `nextafter(high, high - 1)` meets in floats). -/
theorem gen_untransform_clamp_in_domain (E : Env) (c : TCfg) (hE : EnvOK E) (d : Dist) (x : Rat) (h : WF d) (hc : HC E d)
    (hkind : match d with
      | .flt _ _ _ _ Option.none => True
      | _ => False)
    (hcfg : c.tlog = true ∨ c.tstep = false)
    (hb : List.Forall₂ InB (boundsOf E c d) [x]) :
    ∃ v, unumEval prog E c d x = some v ∧ Member d v := by
  have hd : ∀ cs, d ≠ .cat cs := by
    intro cs hcs; subst hcs; exact hkind
  rw [gen_unum_eq E c d x hd]
  exact decode_in_domain E c d [x] hE h hc hcfg hb

example : unumEval prog E0 ⟨true, true, false⟩ (.flt .float 0 3 false none) 3 = some (.flt 2) ∧
    HC E0 (.flt .float 0 3 false none) := by
  refine ⟨by decide +kernel, ?_⟩
  intro _; simp [E0]

end OptunaVerif.C10Gen
