import OptunaVerif.Generated.Nsga2Src
import OptunaVerif.Model.Nsga2
import OptunaVerif.Props.C10
/-!
# C10 (NSGA-II part) — values produced by crossover and mutation lie in the declared domain

`Model/Nsga2.lean` mirrors `perform_crossover` / `_try_crossover` / `_is_contained` and
`NSGAIIChildGenerationStrategy.__call__`; the numeric crossover operator (uniform, BLX-alpha, SBX, SPX, UNDX, vSBX)
and the random generator are abstract: whatever they return is read from a script, and every theorem quantifies
over ALL scripts.  What the code guarantees, exactly:

* `crossover_result_in_domain`        if `perform_crossover` returns, every value of the child is a member of its
                                      declared domain (`to_internal_repr` accepts it and `_contains` holds) — because the
                                      `while True` loop only leaves through `_is_contained`.  There is NO fallback and no
                                      retry cap: the alternatives are another round, or a `ValueError` that escapes.
* `clip_path_always_contained`        for stepped floats and ints the projection inside `untransform` alone already yields
                                      a member for EVERY finite raw number (C10 `untransform_projection_in_domain`), so
                                      these parameters never cause a retry
* `continuous_below_low_rejected`     for a continuous float nothing clips from below: a raw value under `low` comes out
                                      of `untransform` unchanged and it is `_is_contained` that rejects it (retry)
* `nan_raises_witness`, `bad_operator_never_returns_witness`  NaN from an operator → `ValueError`; an operator that keeps
                                      answering below the range → the loop never ends (script exhausted, whatever its length)
* `child_params_in_domain`            the dict returned by the child generation strategy: members (crossover branch), or
                                      the parent's own values (copy branch)
* `mutation_resamples_independently`  a parameter dropped by the mutation loop is absent from the relative parameters, so
                                      `Trial._suggest` takes the independent sampler's value for it; a kept one is used only
                                      if contained — either way C10 `suggest_in_domain` covers the value the objective sees
-/
namespace OptunaVerif.C10Nsga
open OptunaVerif OptunaVerif.Dist OptunaVerif.Nsga2 OptunaVerif.Suggest List

/-! ## 1. `_is_contained` is the only exit of the loop -/

theorem containedTok_true {d : Dist} {t : Tok} (h : containedTok d t = .ok true) : Member d t := by
  unfold containedTok at h
  split at h
  · simp at h
  · split at h
    · split at h <;> simp at h
    · split at h
      · rename_i q hq
        simp only [Except.ok.injEq] at h
        exact ⟨q, hq, h⟩
      · simp at h

theorem member_containedTok {d : Dist} {t : Tok} (h : Member d t) : containedTok d t = .ok true := by
  obtain ⟨q, hq, hc⟩ := h
  unfold containedTok
  have h1 : (isNumerical d && t == .pinf) = false := by
    cases d <;> cases t <;> simp_all [isNumerical, Dist.toInternal, Tok.num?]
  have h2 : (isNumerical d && t == .ninf) = false := by
    cases d <;> cases t <;> simp_all [isNumerical, Dist.toInternal, Tok.num?]
  simp [h1, h2, hq, hc]

theorem isContained_true (space : Space) (child : List (String × Tok)) (h : isContained space child = .ok true) :
    ∀ p ∈ child, ∃ d, AList.get? space p.1 = some d ∧ Member d p.2 := by
  induction child with
  | nil => simp
  | cons p rest ih =>
    obtain ⟨n, t⟩ := p
    simp only [isContained] at h
    cases hg : AList.get? space n with
    | none => simp [hg, liftOpt, bind, Except.bind] at h
    | some d =>
      simp only [hg, liftOpt, bind, Except.bind] at h
      cases hc : containedTok d t with
      | error e => simp [hc] at h
      | ok c =>
        simp only [hc] at h
        cases c with
        | false => simp [pure, Except.pure] at h
        | true =>
          simp only [if_true] at h
          intro p hp
          rcases mem_cons.1 hp with rfl | hp
          · exact ⟨d, hg, containedTok_true hc⟩
          · exact ih h p hp

theorem performLoop_in_domain (E : Env) (cfg : Cfg) (space cat num : Space) (pop : List (Ind XVal)) (fuel : Nat)
    (tr : List Attempt) (s : List Draw) (child : List (String × Tok)) (tr' : List Attempt) (rest : List Draw)
    (h : performLoop E cfg space cat num pop fuel tr s = .ok (child, tr', rest)) :
    ∀ p ∈ child, ∃ d, AList.get? space p.1 = some d ∧ Member d p.2 := by
  induction fuel generalizing tr s with
  | zero => simp [performLoop] at h
  | succ fuel ih =>
    simp only [performLoop, bind, Except.bind] at h
    split at h
    · simp at h
    · rename_i r1 _
      obtain ⟨parents, s1⟩ := r1
      simp only at h
      split at h
      · simp at h
      · rename_i r2 _
        obtain ⟨child2, rows, s2⟩ := r2
        simp only at h
        split at h
        · simp at h
        · rename_i c hc
          cases c with
          | true =>
            simp only [if_true, pure, Except.pure, Except.ok.injEq, Prod.mk.injEq] at h
            rw [← h.1]
            exact isContained_true space child2 hc
          | false =>
            simp only [Bool.false_eq_true, if_false] at h
            exact ih _ _ h

/-- **crossover_result_in_domain.**  For EVERY script — every sequence of random draws and every sequence of raw
vectors the crossover operator may return, inside or far outside the bounds, ±inf, NaN — if `perform_crossover`
returns a child, then every parameter of the child belongs to the search space and its value is a member of the
declared domain. -/
theorem crossover_result_in_domain (E : Env) (cfg : Cfg) (space : Space) (pop : List (Ind XVal)) (s : List Draw)
    (child : List (String × Tok)) (tr : List Attempt) (rest : List Draw)
    (h : performCrossover E cfg space pop s = .ok (child, tr, rest)) :
    ∀ p ∈ child, ∃ d, AList.get? space p.1 = some d ∧ Member d p.2 :=
  performLoop_in_domain E cfg space _ _ pop _ [] s child tr rest h

/-! ## 2. which parameters can cause a retry -/

/-- **clip_path_always_contained.**  Stepped floats, ints, and log ints: for EVERY finite raw number the value
`untransform` produces passes `_is_contained` (the projection clips and rounds — C10
`untransform_projection_in_domain`); such a parameter never sends the loop into another round. -/
theorem clip_path_always_contained (E : Env) (d : Dist) (x : Rat) (hwf : WF d)
    (hkind : match d with
      | .flt _ _ _ _ (some _) => True
      | .int _ _ _ _ _ => True
      | _ => False) :
    ∃ v, decodeX E d (.fin x) = .ok v ∧ containedTok d v = .ok true := by
  cases d with
  | cat cs => simp at hkind
  | flt c l h lg st =>
    cases st with
    | none => simp at hkind
    | some st =>
      obtain ⟨v, hv, hm⟩ := C10.untransform_projection_in_domain E tcfg (.flt c l h lg (some st)) x hwf trivial
      exact ⟨v, by simp [decodeX, hv, liftOpt], member_containedTok hm⟩
  | int c l h lg st =>
    obtain ⟨v, hv, hm⟩ := C10.untransform_projection_in_domain E tcfg (.int c l h lg st) x hwf (Or.inr rfl)
    exact ⟨v, by simp [decodeX, hv, liftOpt], member_containedTok hm⟩

-- non-vacuity: a raw value far outside an int range is pulled onto the bound
example : decodeX ⟨id, id, id⟩ (.int .int 0 10 false 1) (.fin 1000) = .ok (.int 10) := by decide +kernel

/-- **continuous_below_low_rejected.**  A continuous (no step, linear) float: `untransform` only applies
`min(·, nextafter(high))`; a raw value below `low` stays below `low` and `_is_contained` answers `False` — the retry
loop, not the projection, is what keeps such values out. -/
theorem continuous_below_low_rejected (E : Env) (c : FCls) (low high x : Rat) (hlh : low < high) (hx : x < low) :
    ∃ v, decodeX E (.flt c low high false none) (.fin x) = .ok v ∧
      containedTok (.flt c low high false none) v = .ok false := by
  have hs : (Dist.flt c low high false none).single = false := by
    simp [Dist.single]; exact ne_of_lt hlh
  refine ⟨.flt (min x (E.below high)), by simp [decodeX, decode, hs, liftOpt], ?_⟩
  have : ¬ low ≤ min x (E.below high) := by
    intro h
    exact absurd (lt_of_le_of_lt (le_trans h (min_le_left _ _)) hx) (lt_irrefl _)
  simp [containedTok, Dist.toInternal, Tok.num?, Dist.contains, this]

/-- a population of two trials with one continuous parameter `x ∈ [0, 1]` -/
def demoPop : List (Ind XVal) :=
  [⟨0, [.fin 0], none, true, [("x", .flt (1/4))]⟩, ⟨1, [.fin 1], none, true, [("x", .flt (3/4))]⟩]

def demoCfg : Cfg := ⟨1, 1/2, none, 2, false, [false]⟩
def demoSpace : Space := [("x", .flt .float 0 1 false none)]
def demoEnv : Env := ⟨id, id, fun h => h - 1/1000⟩

/-- the exception / stop reason of a call, if any -/
def stopOf {β : Type} : M β → Option Stop
  | .error e => some e
  | .ok _ => none

/-- **nan_raises_witness.**  A NaN in the operator's answer: `to_internal_repr` raises `ValueError` inside
`_is_contained` (float parameter) — resp. `int(nan)` inside `untransform` (int parameter); the exception escapes
`perform_crossover`. -/
theorem nan_raises_witness :
    stopOf (performCrossover demoEnv demoCfg demoSpace demoPop
      [.choice 0, .choice 1, .choice 0, .choice 0, .op [.nan]]) = some .valueError ∧
    stopOf (performCrossover demoEnv demoCfg [("x", .int .int 0 5 false 1)]
      [⟨0, [.fin 0], none, true, [("x", .int 1)]⟩, ⟨1, [.fin 1], none, true, [("x", .int 2)]⟩]
      [.choice 0, .choice 1, .choice 0, .choice 0, .op [.nan]]) = some .valueError := by
  constructor <;> decide +kernel

/-- **bad_operator_never_returns_witness.**  There is no retry cap and no fallback: against an operator that answers
`-1` (below the range) every time, three rounds are played and the script is exhausted — the loop would go on;
as soon as the operator answers inside the range the child is returned (with the high end pulled to
`nextafter(high)`). -/
theorem bad_operator_never_returns_witness :
    stopOf (performCrossover demoEnv demoCfg demoSpace demoPop
      [.choice 0, .choice 1, .choice 0, .choice 0, .op [.fin (-1)],
       .choice 1, .choice 1, .choice 0, .choice 0, .op [.fin (-1)],
       .choice 0, .choice 0, .choice 0, .choice 0, .op [.fin (-1)]]) = some .exhausted ∧
    (performCrossover demoEnv demoCfg demoSpace demoPop
      [.choice 0, .choice 1, .choice 0, .choice 0, .op [.fin (-1)],
       .choice 1, .choice 1, .choice 0, .choice 0, .op [.fin 7]]).toOption.map (·.1) = some [("x", .flt (999/1000))] := by
  constructor <;> decide +kernel

/-! ## 3. the child generation strategy and the mutation -/

theorem mutate_sublist (mp : Rat) (child : List (String × Tok)) (s : List Draw) (kept : List (String × Tok))
    (rest : List Draw) (h : mutate mp child s = .ok (kept, rest)) : kept.Sublist child := by
  induction child generalizing s kept rest with
  | nil =>
    simp only [mutate, Except.ok.injEq, Prod.mk.injEq] at h
    rw [← h.1]
  | cons p t ih =>
    simp only [mutate, bind, Except.bind] at h
    split at h
    · simp at h
    · rename_i r1 _
      obtain ⟨r, s1⟩ := r1
      simp only at h
      split at h
      · simp at h
      · rename_i r2 hm
        obtain ⟨kept2, s2⟩ := r2
        simp only [pure, Except.pure, Except.ok.injEq, Prod.mk.injEq] at h
        have := ih s1 kept2 s2 hm
        rw [← h.1]
        split
        · exact this.cons_cons p
        · exact this.cons p

theorem copyParams_spec (par : Ind XVal) (sp : Space) (ch : List (String × Tok)) (h : copyParams par sp = .ok ch) :
    ∀ p ∈ ch, ∃ q ∈ sp, p.1 = q.1 ∧ AList.get? par.params q.1 = some p.2 := by
  induction sp generalizing ch with
  | nil =>
    simp only [copyParams, Except.ok.injEq] at h
    subst h; simp
  | cons q sp ih =>
    simp only [copyParams, bind, Except.bind] at h
    split at h
    · simp at h
    · rename_i v hv
      split at h
      · simp at h
      · rename_i chr hchr
        simp only [pure, Except.pure, Except.ok.injEq] at h
        subst h
        intro p hp
        rcases mem_cons.1 hp with rfl | hp
        · refine ⟨q, by simp, rfl, ?_⟩
          unfold getParam liftOpt at hv
          split at hv
          · rename_i b hb
            simp only [Except.ok.injEq] at hv
            subst hv; exact hb
          · simp at hv
        · obtain ⟨q', hq', h1, h2⟩ := ih chr hchr p hp
          exact ⟨q', by simp [hq'], h1, h2⟩

/-- **child_params_in_domain.**  Every entry of the dict returned by `NSGAIIChildGenerationStrategy.__call__` is
one of the child's parameters (mutation only drops), and: in the crossover branch it is a member of its declared
domain; in the copy branch (`rng.rand() >= crossover_prob`) it is the corresponding parameter of one parent — a member
as soon as the parents' parameters are (they were suggested from the same distributions: the relative search space is
the intersection search space). -/
theorem child_params_in_domain (E : Env) (cfg : Cfg) (space : Space) (pop : List (Ind XVal)) (s : List Draw)
    (out : ChildOut) (h : childGen E cfg space pop s = .ok out)
    (hpar : ∀ x ∈ pop, ∀ p ∈ space, ∀ v, AList.get? x.params p.1 = some v → Member p.2 v)
    (hkeys : ∀ p ∈ space, AList.get? space p.1 = some p.2) :
    out.params.Sublist out.child ∧
    ∀ p ∈ out.params, ∃ d, AList.get? space p.1 = some d ∧ Member d p.2 := by
  simp only [childGen, bind, Except.bind] at h
  split at h
  · simp at h
  · rename_i r1 _
    obtain ⟨r, s1⟩ := r1
    simp only at h
    split at h
    · simp at h
    · rename_i r2 hbranch
      obtain ⟨child, tr, s2⟩ := r2
      simp only at h
      split at h
      · simp at h
      · rename_i r3 hm
        obtain ⟨params, s3⟩ := r3
        simp only [pure, Except.pure, Except.ok.injEq] at h
        subst h
        have hsub := mutate_sublist _ _ _ _ _ hm
        refine ⟨hsub, ?_⟩
        have hchild : ∀ p ∈ child, ∃ d, AList.get? space p.1 = some d ∧ Member d p.2 := by
          split at hbranch
          · exact crossover_result_in_domain E cfg space pop s1 child tr s2 hbranch
          · split at hbranch
            · simp at hbranch
            · rename_i r4 _
              obtain ⟨i, s4⟩ := r4
              split at hbranch
              · simp at hbranch
              · rename_i par hpar'
                split at hbranch
                · simp at hbranch
                · rename_i child' hmap
                  simp only [pure, Except.pure, Except.ok.injEq, Prod.mk.injEq] at hbranch
                  obtain ⟨rfl, _, _⟩ := hbranch
                  have hpmem : par ∈ pop := by
                    unfold liftOpt at hpar'
                    split at hpar'
                    · rename_i b hb
                      simp only [Except.ok.injEq] at hpar'
                      subst hpar'
                      exact mem_of_getElem? hb
                    · simp at hpar'
                  intro p hp
                  obtain ⟨q, hq, h1, h2⟩ := copyParams_spec par space child' hmap p hp
                  exact ⟨q.2, by rw [h1]; exact hkeys q hq, hpar par hpmem q hq p.2 h2⟩
        intro p hp
        exact hchild p (hsub.subset hp)

/-- **mutation_resamples_independently.**  `out.params` is what `sample_relative` hands to the trial.  For a parameter
the mutation loop dropped (or that the child never had) — `name` is not a key of `out.params` — `Trial._suggest`
finds no relative value and, for a fresh name that is neither fixed nor single-valued, returns exactly what
`sample_independent` (the `RandomSampler` inside `NSGAIISampler`) answers, and stores its internal form. -/
theorem mutation_resamples_independently (E : Env) (cfg : Cfg) (space : Space) (pop : List (Ind XVal)) (s : List Draw)
    (out : ChildOut) (_h : childGen E cfg space pop s = .ok out) (name : String)
    (hdrop : AList.get? out.params name = none)
    (cx : Ctx) (hrel : cx.relParams = out.params) (hfix : cx.fixed.get? name = none)
    (st : St) (hnew : st.dists.get? name = none) (d : Dist) (hs : d.single = false) (indep : Tok) (q : Rat)
    (hq : d.toInternal indep = .ok q) :
    suggest cx st name d indep =
      .ok ({ params := st.params.set name indep, dists := st.dists.set name d, stored := st.stored.set name (q, d) },
           indep, .independent) := by
  apply C10.suggest_new cx st name d indep indep .independent q hnew _ hq
  simp [pick, pickS, hfix, hs, hrel, hdrop]

/-- … and whatever `sample_relative` returned for the other names: the value the objective receives is a member of
the declared domain as soon as the independent sampler's answer is (kept values are used only if contained; C10
`suggest_in_domain`). -/
theorem nsga2_suggested_value_in_domain (cx : Ctx) (st st1 : St) (name : String) (d : Dist) (indep v : Tok) (br : Branch)
    (hnew : st.dists.get? name = none) (h : suggest cx st name d indep = .ok (st1, v, br)) (hwf : WF d)
    (hfixed : ∀ fv, cx.fixed.get? name = some fv → Member d fv) (hindep : Member d indep) : Member d v :=
  C10.suggest_in_domain cx st st1 name d indep v br hnew h hwf hfixed hindep

-- non-vacuity: copy branch (first draw 0.95 >= crossover_prob 0.9), parent #1, two parameters, mutation_prob 1/2:
-- draw 0.25 < 0.5 drops `x`, draw 0.75 keeps `k`; `x` then comes from the independent sampler
example :
    let pop : List (Ind XVal) :=
      [⟨0, [.fin 0], none, true, [("x", .flt (1/4)), ("k", .int 2)]⟩, ⟨1, [.fin 1], none, true, [("x", .flt (3/4)), ("k", .int 3)]⟩]
    let space : Space := [("x", .flt .float 0 1 false none), ("k", .int .int 0 5 false 1)]
    (childGen demoEnv ⟨9/10, 1/2, none, 2, false, [false]⟩ space pop
        [.rand (19/20), .choice 1, .rand (1/4), .rand (3/4)]).toOption.map (fun o => (o.child, o.params)) =
      some ([("x", .flt (3/4)), ("k", .int 3)], [("k", .int 3)]) := by decide +kernel

example :
    (suggest ⟨[], [("x", .flt .float 0 1 false none), ("k", .int .int 0 5 false 1)], [("k", .int 3)]⟩ St.empty "x"
        (.flt .float 0 1 false none) (.flt (1/8))).toOption.map (fun r => (r.2.1, r.2.2)) = some (.flt (1/8), .independent) := by
  decide +kernel

/-! ## T-nsga2: the functions mirrored here are the ones the model was written against -/

/-- content keys (docstring-free, position-free AST; `verif/translators/nsga2_src.py`) of the functions of the tree
under test that the theorems of this file speak about, as they were when `Model/Nsga2.lean` was written -/
def modelledKeys : List (String × Nat) := [
  ("optuna/samplers/nsgaii/_crossover.py :: perform_crossover", 792937849163762486),
  ("optuna/samplers/nsgaii/_crossover.py :: _try_crossover", 603584729586965770),
  ("optuna/samplers/nsgaii/_crossover.py :: _select_parents", 252677893570798265),
  ("optuna/samplers/nsgaii/_crossover.py :: _select_parent", 1061091213711927139),
  ("optuna/samplers/nsgaii/_crossover.py :: _is_contained", 365391628909564172),
  ("optuna/samplers/nsgaii/_crossover.py :: _inlined_categorical_uniform_crossover", 994804976467868965),
  ("optuna/samplers/nsgaii/_child_generation_strategy.py :: NSGAIIChildGenerationStrategy.__call__", 620157118343850873)
]

/-- **modelled_source_unchanged.**  The crossover wrapper and the child generation strategy are the functions mirrored by `performCrossover` / `childGen`. -/
theorem modelled_source_unchanged :
    modelledKeys.all (fun p => Generated.Nsga2Src.keyOf p.1 == p.2) = true := by decide

end OptunaVerif.C10Nsga
