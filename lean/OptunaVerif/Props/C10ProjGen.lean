import OptunaVerif.Generated.ProjGen
import OptunaVerif.Props.C10
/-!
# C10 (translator tie T-proj) — the sampler projections *as written in the source today* are the hand models

`Generated/ProjGen.lean` is regenerated on every run by `verif/translators/tproj.py` from
`optuna/samplers/_tpe/parzen_estimator.py`, `probability_distributions.py`, `sampler.py`, `optuna/_gp/search_space.py`,
`optuna/samplers/_qmc.py`, `_random.py`, as DATA of the IR of `Model/ProjIR.lean`.  Proved here for ALL inputs (every
distribution, every raw number, every kernel, every monotone pair `lg/ex`):

* one equality per generated formula: `gen_tpe_transform_eq`, `gen_tpe_untransform_eq`, `gen_tpe_int_eq`,
  `gen_mix_cont_eq` (the clip of fix 56cb744 / F33), `gen_mix_disc_eq`, `gen_mix_bounds_eq`, `gen_mix_cat_eq`,
  `gen_calc_eq`, `gen_num_eq`, `gen_gp_unnormalize_eq`, `gen_gp_normalize_eq`, `gen_gp_round_eq`, `gen_gp_get_eq`,
  `gen_gp_sample_cat_eq`, `gen_gp_sample_round_guard`, `gen_shapes` (hand-off call shapes of TPE `_sample`, GP, QMC, Random);
* the projection theorems of `Props/C10.lean` restated for the evaluator of the generated formulas:
  `gen_tpe_disc_in_domain`, `gen_tpe_cont_in_domain`, `gen_tpe_int_in_domain`, `gen_gp_in_domain`, `gen_gp_num_in_range`,
  `gen_gp_keeps_grid_points`, `gen_categorical_index_in_domain`, `gen_projection_in_domain`, and new
  `gen_gp_snap_on_grid` / `gen_gp_round_on_grid` for `round_one_normalized_param`.

A source change that drops the clip, rounds `x / step` instead of `(x - low) / step`, rounds half away from zero, clips
before rounding, compares the cumulative weights with `<=`, drops the half-step widening … changes the generated data and
the named equality no longer type-checks (or, outside the whitelist, the translator stops).
-/
set_option linter.unusedSimpArgs false
namespace OptunaVerif.C10ProjGen
open OptunaVerif OptunaVerif.Dist OptunaVerif.Suggest OptunaVerif.ProjIR
open OptunaVerif.Generated.ProjGen

def E0 : Env := ⟨id, id, fun h => h - 1⟩

/-- the value `res[param]` of `_ParzenEstimator._untransform`: `np.exp` of a log parameter -/
def tpeRes (E : Env) (d : Dist) (x : Rat) : Rat := if d.isLog then E.ex x else x

theorem gen_tpe_transform_eq (E : Env) (d : Dist) (x : Rat) :
    tpeTransform.eval E noCall (ctxD d x) = Dist.tnum E ⟨true, true, false⟩ d x := by
  cases d with
  | flt c l h lg st => cases lg <;> simp [tpeTransform, X.eval, G.eval, ctxD, Ctx.get, Dist.tnum, Dist.isLog]
  | int c l h lg st => cases lg <;> simp [tpeTransform, X.eval, G.eval, ctxD, Ctx.get, Dist.tnum, Dist.isLog]
  | cat cs => simp [tpeTransform, X.eval, G.eval, ctxD, Ctx.get, Dist.tnum, Dist.isLog]

theorem gen_tpe_untransform_eq (E : Env) (d : Dist) (x : Rat) :
    tpeUntransform.eval E noCall (ctxD d x) =
      match d with
      | .int _ low high _ step => tpeDisc (low : Rat) (high : Rat) (step : Rat) (tpeRes E d x)
      | _ => tpeRes E d x := by
  cases d with
  | flt c l h lg st => cases lg <;> simp [tpeUntransform, X.eval, G.eval, ctxD, Ctx.get, tpeRes, Dist.isLog]
  | int c l h lg st => cases lg <;> simp [tpeUntransform, X.eval, G.eval, ctxD, Ctx.get, tpeRes, Dist.isLog, tpeDisc]
  | cat cs => simp [tpeUntransform, X.eval, G.eval, ctxD, Ctx.get, tpeRes, Dist.isLog]

/-- `to_external_repr` of an int parameter applied to what `_untransform` returns is the hand model `tpeInt` -/
theorem gen_tpe_int_eq (E : Env) (c : ICls) (low high : Int) (log : Bool) (step : Int) (x : Rat) :
    truncI (tpeUntransform.eval E noCall (ctxD (.int c low high log step) x)) =
      tpeInt low high step (tpeRes E (.int c low high log step) x) := by
  rw [gen_tpe_untransform_eq]; rfl

/-- the continuous arm of `_MixtureOfProductDistribution.sample`: `np.clip(samples, d.low, d.high)` (fix 56cb744, F33) -/
theorem gen_mix_cont_eq (E : Env) (low high step mu sigma x : Rat) :
    mixCont.eval E noCall (ctxM low high step mu sigma x) = tpeCont low high x := by
  simp [mixCont, X.eval, ctxM, Ctx.get, tpeCont]

/-- the discrete arm: `np.clip(d.low + np.round((samples - d.low) / d.step) * d.step, d.low, d.high)` -/
theorem gen_mix_disc_eq (E : Env) (low high step mu sigma x : Rat) :
    mixDisc.eval E noCall (ctxM low high step mu sigma x) = tpeDisc low high step x := by
  simp [mixDisc, X.eval, ctxM, Ctx.get, tpeDisc]

/-- the truncation bounds handed to `_truncnorm.rvs`: `[low, high]` resp. `[low - step/2, high + step/2]`, standardised -/
theorem gen_mix_bounds_eq (E : Env) (low high step mu sigma x : Rat) :
    mixContA.eval E noCall (ctxM low high step mu sigma x) = (low - mu) / sigma ∧
    mixContB.eval E noCall (ctxM low high step mu sigma x) = (high - mu) / sigma ∧
    mixDiscA.eval E noCall (ctxM low high step mu sigma x) = (low - step / 2 - mu) / sigma ∧
    mixDiscB.eval E noCall (ctxM low high step mu sigma x) = (high + step / 2 - mu) / sigma := by
  simp [mixContA, mixContB, mixDiscA, mixDiscB, X.eval, ctxM, Ctx.get]

/-- the categorical arm: the last cumulative weight is forced to 1, the index is the number of cumulative weights
strictly below the quantile -/
theorem gen_mix_cat_eq (cum : List Rat) (q : Rat) : mixCat.eval cum q = catCum (setLast cum 1) q := by
  simp [mixCat, CatIR.eval, catCum]

/-- `_calculate_distributions` (numerical arm): `np.log` of the bounds of a log parameter, widened by half a step first
for a log int; `step = None` afterwards exactly for log parameters and step-less floats -/
theorem gen_calc_eq (E : Env) (d : Dist) (x : Rat) :
    calcLow.eval E noCall (ctxD d x) =
      (match d with
       | .int _ low _ true step => E.lg ((low : Rat) - (step : Rat) / 2)
       | .flt _ low _ true _ => E.lg (low - (match d with | .flt _ _ _ _ (some s) => s / 2 | _ => 0))
       | .int _ low _ false _ => (low : Rat)
       | .flt _ low _ false _ => low
       | .cat _ => 0) ∧
    calcHigh.eval E noCall (ctxD d x) =
      (match d with
       | .int _ _ high true step => E.lg ((high : Rat) + (step : Rat) / 2)
       | .flt _ _ high true _ => E.lg (high + (match d with | .flt _ _ _ _ (some s) => s / 2 | _ => 0))
       | .int _ _ high false _ => (high : Rat)
       | .flt _ _ high false _ => high
       | .cat _ => 0) ∧
    calcStepNone.eval E noCall (ctxD d x) =
      (match d with
       | .int _ _ _ log _ => log
       | .flt _ _ _ log st => log || st.isNone
       | .cat _ => true) := by
  cases d with
  | flt c l h lg st =>
    cases lg <;> cases st <;> simp [calcLow, calcHigh, calcStepNone, X.eval, G.eval, ctxD, Ctx.get]
  | int c l h lg st => cases lg <;> simp [calcLow, calcHigh, calcStepNone, X.eval, G.eval, ctxD, Ctx.get]
  | cat cs => simp [calcLow, calcHigh, calcStepNone, X.eval, G.eval, ctxD, Ctx.get]

/-- `_calculate_numerical_distributions`: the outermost kernel endpoints are `low - step_or_0/2`, `high + step_or_0/2`
and the discrete distribution is built exactly when a step is left -/
theorem gen_num_eq (E : Env) (low high step mu sigma x : Rat) (sn : Bool) :
    numEndLo.eval E noCall { ctxM low high step mu sigma x with stepNone := sn } = low - (if sn then 0 else step) / 2 ∧
    numEndHi.eval E noCall { ctxM low high step mu sigma x with stepNone := sn } = high + (if sn then 0 else step) / 2 ∧
    numContG = G.stepNone := by
  cases sn <;> simp [numEndLo, numEndHi, numContG, X.eval, G.eval, ctxM, Ctx.get]

/-! ## GP -/

theorem gen_gp_unnormalize_eq (E : Env) (st : ST) (b0 b1 step x : Rat) :
    gpUnnormalize.eval E noCall (ctxG st b0 b1 step x) = gpUnnorm E st b0 b1 step x := by
  cases st <;> simp [gpUnnormalize, X.eval, G.eval, ctxG, Ctx.get, gpUnnorm, gpLo, gpHi]

theorem gen_gp_normalize_eq (E : Env) (st : ST) (b0 b1 step v : Rat) :
    gpNormalize.eval E noCall (ctxG st b0 b1 step v) = gpNorm E st b0 b1 step v := by
  cases st <;> simp [gpNormalize, X.eval, G.eval, ctxG, Ctx.get, gpNorm, gpLo, gpHi]

theorem callf_un (E : Env) (ρ : ProjIR.Ctx) : gp.callf E .un ρ = gpUnnorm E ρ.st ρ.b0 ρ.b1 ρ.step ρ.x := by
  show gpUnnormalize.eval E noCall ρ = _
  cases hst : ρ.st <;> simp [gpUnnormalize, X.eval, G.eval, Ctx.get, gpUnnorm, gpLo, gpHi, hst]

theorem callf_no (E : Env) (ρ : ProjIR.Ctx) : gp.callf E .no ρ = gpNorm E ρ.st ρ.b0 ρ.b1 ρ.step ρ.x := by
  show gpNormalize.eval E noCall ρ = _
  cases hst : ρ.st <;> simp [gpNormalize, X.eval, G.eval, Ctx.get, gpNorm, gpLo, gpHi, hst]

/-- `round_one_normalized_param` as written today: identity for `step == 0`, else unnormalise, snap to the grid
`(u - b0 + step/2) // step * step + b0`, CLIP to the bounds, normalise again -/
theorem gen_gp_round_eq (E : Env) (st : ST) (b0 b1 step x : Rat) :
    gpRound.eval E (gp.callf E) (ctxG st b0 b1 step x) = gpRoundNorm E st b0 b1 step x := by
  by_cases hs : step = 0
  · simp [gpRound, X.eval, G.eval, ctxG, Ctx.get, gpRoundNorm, hs]
  · simp [gpRound, X.eval, G.eval, STX.eval, ctxG, Ctx.get, gpRoundNorm, hs, callf_un, callf_no, gpSnap]

/-- `get_unnormalized_param`, numerical arm: `float(np.clip(unnormalize_one_param(x, LOG if d.log else LINEAR,
(d.low, d.high), 0.0 if d.step is None else d.step), d.low, d.high))`, then `round(·)` for an int parameter -/
theorem gen_gp_get_eq (E : Env) (d : Dist) (x : Rat) :
    gpGet.eval E (gp.callf E) (ctxD d x) =
      match d with
      | .int _ low high _ step => (gpInt low high (gpUnnorm E (stOf d) (low : Rat) (high : Rat) (step : Rat) x) : Rat)
      | .flt _ low high _ step => gpNum low high (gpUnnorm E (stOf d) low high (step.getD 0) x)
      | .cat _ => gpNum 0 0 (gpUnnorm E .linear 0 0 0 x) := by
  cases d with
  | flt c l h lg st =>
    cases lg <;> cases st <;>
      simp [gpGet, X.eval, G.eval, STX.eval, ctxD, Ctx.get, callf_un, gpNum, stOf, Dist.isLog]
  | int c l h lg st =>
    cases lg <;> simp [gpGet, X.eval, G.eval, STX.eval, ctxD, Ctx.get, callf_un, gpInt, stOf, Dist.isLog]
  | cat cs => simp [gpGet, X.eval, G.eval, STX.eval, ctxD, Ctx.get, callf_un, gpNum]

/-- `sample_normalized_params`, categorical arm: `np.floor(x * bounds[i, 1])` with `bounds[i, 1] = len(choices)` -/
theorem gen_gp_sample_cat_eq (E : Env) (n : Nat) (q : Rat) :
    gpSampleCat.eval E noCall (ctxG .cat 0 (n : Rat) 1 q) = (catFloor n q : Rat) := by
  simp [gpSampleCat, X.eval, ctxG, Ctx.get, catFloor]

theorem gen_gp_sample_round_guard : gpSampleRoundG = G.not (G.eq (.var .step) (.num 0)) := rfl

/-- the call shapes of the hand-offs that are pinned as text -/
theorem gen_shapes :
    shapes = [
      ("gp_get_cat_arm", "ret[param] = distribution.to_external_repr(normalized_param[i])"),
      ("gp_sample_round_call", "param_values[:, i] = round_one_normalized_param(param_values[:, i], scale_types[i], (bounds[i, 0], bounds[i, 1]), steps[i])"),
      ("qmc_handoff", "trans = _SearchSpaceTransform(search_space) ; sample = trans.bounds[:, 0] + sample * (trans.bounds[:, 1] - trans.bounds[:, 0]) ; return trans.untransform(sample[0, :])"),
      ("random_handoff", "trans = _SearchSpaceTransform(search_space) ; trans_params = self._rng.rng.uniform(trans.bounds[:, 0], trans.bounds[:, 1]) ; return trans.untransform(trans_params)[param_name]"),
      ("tpe_sample_handoff", "for param_name, dist in search_space.items(): ;     ret[param_name] = dist.to_external_repr(ret[param_name])"),
      ("tpe_sample_source", "samples_below = mpe_below.sample(self._rng.rng, self._n_ei_candidates)")] := by
  rfl

/-! ## the C10 projection theorems, restated for the evaluator of the generated formulas -/

/-- **gen_tpe_disc_in_domain** — TPE, stepped float: whatever `_truncnorm.rvs` returns (any `s`, any kernel), the
discretisation as written today yields a grid point of the domain. -/
theorem gen_tpe_disc_in_domain (E : Env) (c : FCls) (low high step : Rat) (h : WF (.flt c low high false (some step)))
    (mu sigma s : Rat) :
    Member (.flt c low high false (some step)) (.flt (mixDisc.eval E noCall (ctxM low high step mu sigma s))) := by
  rw [gen_mix_disc_eq]; exact C10.tpe_disc_in_domain c low high step h s

-- non-vacuity: a raw draw far above `high` is pulled onto the last grid point
example : mixDisc.eval E0 noCall (ctxM 0 1 (1/4) 0 1 7) = 1 ∧ mixDisc.eval E0 noCall (ctxM 0 1 (1/4) 0 1 (3/8)) = 1/2 := by
  decide +kernel

/-- **gen_tpe_cont_in_domain** — TPE, continuous float (the clip added by fix 56cb744 / finding F33): EVERY raw draw,
also one that the rescaling pushed above `high` or below `low`, comes out inside `[low, high]`. -/
theorem gen_tpe_cont_in_domain (E : Env) (c : FCls) (low high : Rat) (h : WF (.flt c low high false none))
    (step mu sigma s : Rat) :
    Member (.flt c low high false none) (.flt (mixCont.eval E noCall (ctxM low high step mu sigma s))) := by
  rw [gen_mix_cont_eq]; exact C10.tpe_cont_in_domain c low high h s

-- non-vacuity (the F33 boundary): a draw one ulp-like step below `low` / above `high` is clipped
example : mixCont.eval E0 noCall (ctxM (123456/1000) (1123456/1000) 0 0 1 (123455/1000)) = 123456/1000 ∧
    mixCont.eval E0 noCall (ctxM (-1) 999 0 0 1 (-10000000000002274/10000000000000000)) = -1 ∧
    mixCont.eval E0 noCall (ctxM (-1) 999 0 0 1 1000) = 999 := by decide +kernel

/-- **gen_tpe_int_in_domain** — TPE, int parameter (log or not, any step): `_untransform` followed by
`to_external_repr` maps EVERY raw number to an `int` of the domain, on the step grid counted from `low`. -/
theorem gen_tpe_int_in_domain (E : Env) (c : ICls) (low high : Int) (log : Bool) (step : Int)
    (h : WF (.int c low high log step)) (x : Rat) :
    Member (.int c low high log step)
      (.int (truncI (tpeUntransform.eval E noCall (ctxD (.int c low high log step) x)))) := by
  rw [gen_tpe_int_eq]; exact C10.tpe_int_in_domain c low high log step h _

-- non-vacuity (seeded change C10-4): step 5, `low = -1220944962` is not a multiple of the step; the grid is counted from `low`
example : truncI (tpeUntransform.eval E0 noCall (ctxD (.int .int (-1220944962) (-1220944887) false 5) (-1220944962))) = -1220944962 ∧
    truncI (tpeUntransform.eval E0 noCall (ctxD (.int .int (-1220944962) (-1220944887) false 5) (-1220944959))) = -1220944957 ∧
    truncI (tpeUntransform.eval E0 noCall (ctxD (.int .int 1 9 false 4) 1000)) = 9 := by decide +kernel
example : WF (.int .int (-1220944962) (-1220944887) false 5) := by simp [WF, IClsOK]

/-- **gen_gp_in_domain / gen_gp_num_in_range** — GP, `get_unnormalized_param`: for EVERY normalised number the value is
inside `[low, high]`; for an int parameter it is an integer in `[low, high]`, hence a member when `step = 1`. -/
theorem gen_gp_in_domain (E : Env) (c : ICls) (low high : Int) (log : Bool) (step : Int) (hl : low ≤ high) (x : Rat) :
    ∃ i : Int, gpGet.eval E (gp.callf E) (ctxD (.int c low high log step) x) = (i : Rat) ∧ low ≤ i ∧ i ≤ high ∧
      (WF (.int c low high log 1) → step = 1 → Member (.int c low high log 1) (.int i)) := by
  rw [gen_gp_get_eq]
  obtain ⟨h1, h2, h3⟩ := C10.gp_in_domain low high hl (gpUnnorm E (stOf (.int c low high log step)) low high step x)
  exact ⟨_, rfl, h1, h2, fun hwf _ => h3 c log hwf⟩

theorem gen_gp_num_in_range (E : Env) (c : FCls) (low high : Rat) (log : Bool) (step : Option Rat) (hl : low ≤ high) (x : Rat) :
    low ≤ gpGet.eval E (gp.callf E) (ctxD (.flt c low high log step) x) ∧
      gpGet.eval E (gp.callf E) (ctxD (.flt c low high log step) x) ≤ high := by
  rw [gen_gp_get_eq]; exact C10.gp_num_in_range low high hl _

example : gpGet.eval E0 (gp.callf E0) (ctxD (.int .int 0 10 false 1) 2) = 10 ∧
    gpGet.eval E0 (gp.callf E0) (ctxD (.int .int 0 10 false 1) (1/2)) = 5 ∧
    gpGet.eval E0 (gp.callf E0) (ctxD (.flt .float 0 1 false none) (-3)) = 0 := by decide +kernel

/-- **gen_gp_keeps_grid_points** — a normalised number that unnormalises to a grid point comes back as that grid point. -/
theorem gen_gp_keeps_grid_points (E : Env) (c : ICls) (low high step k : Int) (log : Bool) (x : Rat)
    (h1 : low ≤ k * step + low) (h2 : k * step + low ≤ high)
    (hx : gpUnnorm E (stOf (.int c low high log step)) low high step x = ((k * step + low : Int) : Rat)) :
    gpGet.eval E (gp.callf E) (ctxD (.int c low high log step) x) = ((k * step + low : Int) : Rat) := by
  rw [gen_gp_get_eq]
  simp only [hx]
  exact_mod_cast (C10.gp_keeps_grid_points low high step k h1 h2).1

theorem setLast_spec (cum : List Rat) (hne : cum ≠ []) (v : Rat) :
    ∃ hne' : setLast cum v ≠ [], (setLast cum v).getLast hne' = v ∧ (setLast cum v).length = cum.length := by
  cases cum with
  | nil => exact absurd rfl hne
  | cons a t =>
    refine ⟨by simp [setLast], by simp [setLast], ?_⟩
    simp [setLast]

/-- **gen_categorical_index_in_domain** — TPE: because the last cumulative weight is forced to 1, the index is valid for
EVERY weight matrix row and every quantile `q ≤ 1`; GP: `floor(q · n)` is valid for every `0 ≤ q < 1`. -/
theorem gen_categorical_index_in_domain :
    (∀ (cum : List Rat) (q : Rat), cum ≠ [] → q ≤ 1 → mixCat.eval cum q < cum.length) ∧
    (∀ (E : Env) (n : Nat) (q : Rat), 0 ≤ q → q < 1 →
      ∃ i : Int, gpSampleCat.eval E noCall (ctxG .cat 0 (n : Rat) 1 q) = (i : Rat) ∧ 0 ≤ i ∧ (n = 0 ∨ i < (n : Int))) := by
  constructor
  · intro cum q hne hq
    rw [gen_mix_cat_eq]
    obtain ⟨hne', hlast, hlen⟩ := setLast_spec cum hne 1
    rw [← hlen]
    exact C10.categorical_index_in_domain.1 _ q hne' hlast hq
  · intro E n q h0 h1
    rw [gen_gp_sample_cat_eq]
    obtain ⟨h2, h3⟩ := C10.categorical_index_in_domain.2.1 n q h0 h1
    exact ⟨_, rfl, h2, h3⟩

-- non-vacuity: rounding noise in the cumulative weights (last one 0.99…) and q = 1 - ε: the last index, not one past it
example : mixCat.eval [1/4, 1/2, 9999/10000] (99999/100000) = 2 ∧ mixCat.eval [1/4, 1/2, 1] (1/4) = 0 := by decide +kernel

/-- the grid point `round_one_normalized_param` snaps to lies inside the bounds, on the grid counted from `bounds[0]` -/
theorem gen_gp_snap_on_grid (b0 b1 step : Rat) (K : Int) (hs : 0 < step) (hK0 : 0 ≤ K) (hK : b1 - b0 = (K : Rat) * step) (u : Rat) :
    ∃ k : Int, 0 ≤ k ∧ k ≤ K ∧ gpSnap b0 b1 step u = (k : Rat) * step + b0 := by
  have hKq : (0 : Rat) ≤ (K : Rat) := by exact_mod_cast hK0
  have hlh : b0 ≤ b1 := by nlinarith
  unfold gpSnap
  set m : Int := ((u - b0 + 1 / 2 * step) / step).floor with hm
  rcases clip_cases ((m : Rat) * step + b0) b0 b1 hlh with ⟨he, h1, h2⟩ | ⟨he, _⟩ | ⟨he, _⟩
  · refine ⟨m, ?_, ?_, he⟩
    · have : (0 : Rat) ≤ (m : Rat) := by
        by_contra hc
        have := mul_neg_of_neg_of_pos (not_le.mp hc) hs
        linarith
      exact_mod_cast this
    · have : (m : Rat) ≤ (K : Rat) := by
        by_contra hc
        have := mul_lt_mul_of_pos_right (not_le.mp hc) hs
        linarith
      exact_mod_cast this
  · exact ⟨0, le_refl _, hK0, by rw [he]; simp⟩
  · exact ⟨K, hK0, le_refl _, by rw [he]; linarith⟩

/-- **gen_gp_round_on_grid** — `round_one_normalized_param` as written today returns the normalisation of a grid point
inside the bounds (for EVERY normalised input) -/
theorem gen_gp_round_on_grid (E : Env) (st : ST) (b0 b1 step : Rat) (K : Int) (hs : 0 < step) (hK0 : 0 ≤ K)
    (hK : b1 - b0 = (K : Rat) * step) (x : Rat) :
    ∃ k : Int, 0 ≤ k ∧ k ≤ K ∧
      gpRound.eval E (gp.callf E) (ctxG st b0 b1 step x) = gpNorm E st b0 b1 step ((k : Rat) * step + b0) := by
  rw [gen_gp_round_eq]
  obtain ⟨k, h0, h1, hk⟩ := gen_gp_snap_on_grid b0 b1 step K hs hK0 hK (gpUnnorm E st b0 b1 step x)
  exact ⟨k, h0, h1, by simp [gpRoundNorm, ne_of_gt hs, hk]⟩

example : gpRound.eval E0 (gp.callf E0) (ctxG .linear 0 10 2 (9/10)) = gpNorm E0 .linear 0 10 2 10 ∧
    gpRound.eval E0 (gp.callf E0) (ctxG .linear 0 10 2 2) = gpNorm E0 .linear 0 10 2 10 := by decide +kernel

/-- **gen_projection_in_domain** — the summary for the code as written today. -/
theorem gen_projection_in_domain (E : Env) :
    (∀ cl low high step (_ : WF (.flt cl low high false (some step))) (mu sigma s : Rat),
        Member (.flt cl low high false (some step)) (.flt (mixDisc.eval E noCall (ctxM low high step mu sigma s)))) ∧
    (∀ cl low high (_ : WF (.flt cl low high false none)) (step mu sigma s : Rat),
        Member (.flt cl low high false none) (.flt (mixCont.eval E noCall (ctxM low high step mu sigma s)))) ∧
    (∀ cl low high log step (_ : WF (.int cl low high log step)) (x : Rat),
        Member (.int cl low high log step) (.int (truncI (tpeUntransform.eval E noCall (ctxD (.int cl low high log step) x))))) ∧
    (∀ cl low high log (_ : WF (.int cl low high log 1)) (x : Rat),
        ∃ i : Int, gpGet.eval E (gp.callf E) (ctxD (.int cl low high log 1) x) = (i : Rat) ∧ Member (.int cl low high log 1) (.int i)) := by
  refine ⟨fun cl low high step h mu sigma s => gen_tpe_disc_in_domain E cl low high step h mu sigma s,
    fun cl low high h step mu sigma s => gen_tpe_cont_in_domain E cl low high h step mu sigma s,
    fun cl low high log step h x => gen_tpe_int_in_domain E cl low high log step h x, ?_⟩
  intro cl low high log h x
  obtain ⟨i, hi, _, _, hm⟩ := gen_gp_in_domain E cl low high log 1 h.1 x
  exact ⟨i, hi, hm h rfl⟩

end OptunaVerif.C10ProjGen
