import OptunaVerif.Generated.SuggestMethods
import OptunaVerif.Lemmas.SuggestIR
import OptunaVerif.Props.C10
/-!
# C10 (translator tie) — the suggest path of a trial *as written in the source today* is the hand model

`Generated/SuggestMethods.lean` is regenerated on every run by `verif/translators/tsuggest.py` from
`optuna/trial/_trial.py` (`Trial._suggest`, `_is_fixed_param`, `_is_relative_param`, `_check_distribution`,
`suggest_float / suggest_int / suggest_categorical`, the three deprecated forwards), `optuna/trial/_fixed.py` and
`_frozen.py` (`_suggest`) and `optuna/distributions.py` (`_get_single_value`, `check_distribution_compatibility`), as
data of the statement language of `Model/SuggestIR.lean`.

Proved here, for **all** inputs (no bound, no sampling):
* per function, the interpreter of the generated body equals the hand model (`call_*`, `interp_*`): `Suggest.singleValue`,
  `Dist.compat`, the fixed / relative tests, `SuggestApi.suggestFull` (= `Suggest.suggestS` plus warnings, sampler calls
  and a storage that may refuse the write: `suggestFull_toR`), the public wrappers `SuggestApi.suggest*H`, and
  `givenSuggestH` for `FixedTrial / FrozenTrial`; every callee's denotation is the interpreter of its own generated body;
* hence `genSuggest` / `genRun` — the interpreter as a function of the arguments of `Suggest.suggest` / `run` — ARE
  `suggest` / `run` (`gen_suggest_eq`, `gen_run_eq`);
* therefore the theorems of `Props/C10.lean` about `suggest` hold of the interpreter of the generated code (`gen_*`),
  together with what only the interpreter can say: a second call for a name writes nothing and asks no sampler, a
  failed call (a storage refusing the write included) changes nothing, an uncontained fixed value is handed over with
  the warning, `suggest_int` returns an `int`.

A source change that alters a guard, the order of two tests, which dictionary is read or written, an argument of a call …
changes the generated data, and one of the named equalities below no longer type-checks.
-/
set_option linter.unusedSimpArgs false
set_option linter.unusedVariables false
namespace OptunaVerif.C10SuggestGen
open OptunaVerif OptunaVerif.Dist OptunaVerif.Suggest OptunaVerif.SuggestIR OptunaVerif.SuggestApi
open OptunaVerif.Generated
open OptunaVerif.Generated.SuggestMethods (program)

macro "ir_simp" "[" ts:Lean.Parser.Tactic.simpLemma,* "]" : tactic =>
  `(tactic| simp [runFn, block, exec, evalCond, eval, bind1, getLocal, setLocal,
     AList.get?, AList.set, truthy, Tok.truthy, boolV, tagOf, keyOf, memV, indexV, getDV, neV, cmpV, toInternalV, containsV, intOfV, attrLowV,
     attrHighV, attrLogV, choice0V, isNumericV, isCatV, tmapGet, dmapGet, Except.map, $ts,*])

theorem prog_getSingleValue : program.getSingleValue = SuggestMethods.getSingleValue := rfl
theorem prog_checkCompat : program.checkCompat = SuggestMethods.checkCompat := rfl
theorem prog_isFixedParam : program.isFixedParam = SuggestMethods.isFixedParam := rfl
theorem prog_isRelativeParam : program.isRelativeParam = SuggestMethods.isRelativeParam := rfl
theorem prog_checkDistribution : program.checkDistribution = SuggestMethods.checkDistribution := rfl
theorem prog_suggest : program.suggest = SuggestMethods.suggest := rfl
theorem prog_suggestFloat : program.suggestFloat = SuggestMethods.suggestFloat := rfl
theorem prog_suggestInt : program.suggestInt = SuggestMethods.suggestInt := rfl
theorem prog_suggestCategorical : program.suggestCategorical = SuggestMethods.suggestCategorical := rfl
theorem prog_suggestUniform : program.suggestUniform = SuggestMethods.suggestUniform := rfl
theorem prog_suggestLogUniform : program.suggestLogUniform = SuggestMethods.suggestLogUniform := rfl
theorem prog_suggestDiscreteUniform : program.suggestDiscreteUniform = SuggestMethods.suggestDiscreteUniform := rfl
theorem prog_fixedSuggest : program.fixedSuggest = SuggestMethods.fixedSuggest := rfl
theorem prog_frozenSuggest : program.frozenSuggest = SuggestMethods.frozenSuggest := rfl

/-! ## what the model's context stands for: pinned source texts, keyword defaults -/

/-- **pinned_sources** — the places of `class Trial` that the model's `Ctx` / aliasing assumptions stand for read today
exactly as when the model was written: `_fixed_params` is `system_attrs["fixed_params"]` of the trial at creation,
`relative_search_space` is the sampler's answer at creation, `relative_params` is `sample_relative` evaluated once,
`_get_latest_trial` is a SHALLOW copy of the cache (so `trial.params / trial.distributions` are the cache's own
dictionaries), and no other method of the class writes any of these or calls `set_trial_param`. -/
theorem pinned_sources : SuggestMethods.pins =
    [("Trial.__init__: self._fixed_params =", "self._cached_frozen_trial.system_attrs.get('fixed_params', {})"),
     ("Trial.__init__: self.relative_search_space =", "self.study.sampler.infer_relative_search_space(study, self._cached_frozen_trial)"),
     ("Trial.__init__: self._relative_params =", "None"),
     ("Trial.__init__: self._cached_frozen_trial =", "copy.deepcopy(self.storage.get_trial(self._trial_id))"),
     ("Trial.__init__: self.storage =", "self.study._storage"),
     ("Trial.relative_params", "if self._relative_params is None: study = pruners._filter_study(self.study, self._cached_frozen_trial) self._relative_params = self.study.sampler.sample_relative(study, self._cached_frozen_trial, self.relative_search_space) ; return self._relative_params"),
     ("Trial._get_latest_trial", "latest_trial = copy.copy(self._cached_frozen_trial) ; latest_trial.system_attrs = _LazyTrialSystemAttrs(self._trial_id, self.storage) ; return latest_trial"),
     ("Trial: other methods that write params / distributions / fixed / relative params", "")] := rfl

/-- **signature_defaults** — `suggest_float(…, step=None, log=False)`, `suggest_int(…, step=1, log=False)` and the
constructors' `log=False`, `step=None` / `step=1` -/
theorem signature_defaults : SuggestMethods.defaults =
    [("suggest_float", "log", .false_), ("suggest_float", "step", .none_),
     ("suggest_int", "log", .false_), ("suggest_int", "step", .intLit 1),
     ("FloatDistribution", "log", .false_), ("FloatDistribution", "step", .none_),
     ("IntDistribution", "log", .false_), ("IntDistribution", "step", .intLit 1)] := by
  decide

/-! ## `distributions._get_single_value`, `check_distribution_compatibility` -/

/-- **call_getSingleValue** — `_get_single_value` as written today returns `low` / the first choice (`Suggest.singleValue`);
on a categorical without choices (not constructible) `choices[0]` raises IndexError. -/
theorem call_getSingleValue (E : SEnv) (d : Dist) (s : MSt) (hs : E.single d = true) :
    program.call0 E .getSingleValue [.dist d] s =
      (s, match d with
          | .cat [] => .error .indexError
          | _ => .ok (.tok (singleValue d))) := by
  simp only [Program.call0, prog_getSingleValue]
  cases d with
  | flt c low high log step => ir_simp [SuggestMethods.getSingleValue, hs, singleValue]
  | int c low high log step => ir_simp [SuggestMethods.getSingleValue, hs, singleValue]
  | cat cs =>
    cases cs with
    | nil => ir_simp [SuggestMethods.getSingleValue, hs, singleValue]
    | cons a t => ir_simp [SuggestMethods.getSingleValue, hs, singleValue]
example : program.call0 ⟨⟨[], [], []⟩, Dist.single, fun _ _ => .none, false⟩ .getSingleValue [.dist (.int .int 7 7 false 1)] { st := St.empty } =
    ({ st := St.empty }, .ok (.tok (.int 7))) := by decide

theorem pyEq_bool (a b : Bool) : Tok.pyEq (.bool a) (.bool b) = (a == b) := by
  cases a <;> cases b <;> simp [Tok.pyEq, Tok.num?]

/-- **call_checkCompat** — `check_distribution_compatibility` as written today raises ValueError exactly when
`Dist.compat` is false: another class, another `log`, or (categoricals) other choices. -/
theorem call_checkCompat (E : SEnv) (a b : Dist) (s : MSt) :
    program.call0 E .checkCompat [.dist a, .dist b] s =
      (s, if compat a b then .ok (.tok .none) else .error (.err .valueError)) := by
  simp only [Program.call0, prog_checkCompat]
  cases a with
  | flt c low high log step =>
    cases b with
    | flt c' low' high' log' step' =>
      cases log <;> cases log' <;> cases hc : (c == c') <;>
        ir_simp [SuggestMethods.checkCompat, compat, Dist.sameClass, Dist.log?, pyEq_bool, hc]
    | int c' low' high' log' step' => ir_simp [SuggestMethods.checkCompat, compat, Dist.sameClass, Dist.log?, pyEq_bool]
    | cat cs => ir_simp [SuggestMethods.checkCompat, compat, Dist.sameClass, Dist.log?, pyEq_bool]
  | int c low high log step =>
    cases b with
    | int c' low' high' log' step' =>
      cases log <;> cases log' <;> cases hc : (c == c') <;>
        ir_simp [SuggestMethods.checkCompat, compat, Dist.sameClass, Dist.log?, pyEq_bool, hc]
    | flt c' low' high' log' step' => ir_simp [SuggestMethods.checkCompat, compat, Dist.sameClass, Dist.log?, pyEq_bool]
    | cat cs => ir_simp [SuggestMethods.checkCompat, compat, Dist.sameClass, Dist.log?, pyEq_bool]
  | cat cs =>
    cases b with
    | cat cs' =>
      cases h : listCatEq cs cs' <;> ir_simp [SuggestMethods.checkCompat, compat, Dist.sameClass, Dist.log?, Dist.pyEq, h]
    | flt c' low' high' log' step' => ir_simp [SuggestMethods.checkCompat, compat, Dist.sameClass, Dist.log?, pyEq_bool]
    | int c' low' high' log' step' => ir_simp [SuggestMethods.checkCompat, compat, Dist.sameClass, Dist.log?, pyEq_bool]
example : (program.call0 ⟨⟨[], [], []⟩, Dist.single, fun _ _ => .none, false⟩ .checkCompat
    [.dist (.flt .float 0 1 false none), .dist (.flt .float 0 1 true none)] { st := St.empty }).2 = .error (.err .valueError) := by decide

theorem call1_checkCompat (E : SEnv) (a b : Dist) (s : MSt) :
    program.call1 E .checkCompat [.dist a, .dist b] s =
      (s, if compat a b then .ok (.tok .none) else .error (.err .valueError)) := call_checkCompat E a b s

theorem call1_getSingleValue (E : SEnv) (d : Dist) (s : MSt) (hs : E.single d = true) :
    program.call1 E .getSingleValue [.dist d] s =
      (s, match d with
          | .cat [] => .error .indexError
          | _ => .ok (.tok (singleValue d))) := call_getSingleValue E d s hs

/-! ## `_is_fixed_param`, `_is_relative_param`, `_check_distribution` -/

/-- `_is_fixed_param(name, distribution)` by the hand model: is the name enqueued / fixed; `to_internal_repr` may raise;
containment only decides about the warning -/
def handIsFixed (E : SEnv) (name : String) (d : Dist) (s : MSt) : Res Val :=
  match E.cx.fixed.get? name with
  | none => (s, .ok (boolV false))
  | some fv =>
    match d.toInternal fv with
    | .error e => (s, .error (.err e))
    | .ok q => ({ s with warns := if d.contains q then s.warns else s.warns ++ [.fixedOutOfRange] }, .ok (boolV true))

/-- **call_isFixedParam** -/
theorem call_isFixedParam (E : SEnv) (name : String) (d : Dist) (s : MSt) :
    program.call1 E .isFixedParam [.tok (.str name), .dist d] s = handIsFixed E name d s := by
  unfold handIsFixed
  simp only [Program.call1, prog_isFixedParam]
  cases h : E.cx.fixed.get? name with
  | none => ir_simp [SuggestMethods.isFixedParam, h]
  | some fv =>
    cases hq : d.toInternal fv with
    | error e => ir_simp [SuggestMethods.isFixedParam, h, hq]
    | ok q =>
      cases hc : d.contains q <;> ir_simp [SuggestMethods.isFixedParam, h, hq, hc, Tok.num?]
example : (program.call1 ⟨⟨[("x", .flt 5)], [], []⟩, Dist.single, fun _ _ => .none, false⟩ .isFixedParam
    [.tok (.str "x"), .dist (.flt .float 0 1 false none)] { st := St.empty }) =
    ({ st := St.empty, warns := [.fixedOutOfRange] }, .ok (.tok (.bool true))) := by decide

/-- `_is_relative_param(name, distribution)` by the hand model -/
def handIsRelative (E : SEnv) (name : String) (d : Dist) (s : MSt) : Res Val :=
  match E.cx.relParams.get? name with
  | none => (s, .ok (boolV false))
  | some rv =>
    match E.cx.relSpace.get? name with
    | none => (s, .error (.err .valueError))
    | some rd =>
      if !compat rd d then (s, .error (.err .valueError))
      else
        match d.toInternal rv with
        | .error e => (s, .error (.err e))
        | .ok q => (s, .ok (boolV (d.contains q)))

/-- **call_isRelativeParam** — the relative value counts only if the name is in the relative search space (else
ValueError), the distributions are compatible (else ValueError) and `_contains(to_internal_repr(value))` holds for the
distribution ASKED FOR. -/
theorem call_isRelativeParam (E : SEnv) (name : String) (d : Dist) (s : MSt) :
    program.call1 E .isRelativeParam [.tok (.str name), .dist d] s = handIsRelative E name d s := by
  unfold handIsRelative
  simp only [Program.call1, prog_isRelativeParam]
  cases h : E.cx.relParams.get? name with
  | none => ir_simp [SuggestMethods.isRelativeParam, h]
  | some rv =>
    cases hs : E.cx.relSpace.get? name with
    | none => ir_simp [SuggestMethods.isRelativeParam, h, hs]
    | some rd =>
      cases hc : compat rd d with
      | false => ir_simp [SuggestMethods.isRelativeParam, h, hs, hc, call_checkCompat]
      | true =>
        cases hq : d.toInternal rv with
        | error e => ir_simp [SuggestMethods.isRelativeParam, h, hs, hc, hq, call_checkCompat]
        | ok q => ir_simp [SuggestMethods.isRelativeParam, h, hs, hc, hq, call_checkCompat, Tok.num?]
example : (program.call1 ⟨⟨[], [("x", .flt .float 0 4 false none)], [("x", .flt 3)]⟩, Dist.single, fun _ _ => .none, false⟩ .isRelativeParam
    [.tok (.str "x"), .dist (.flt .float 0 2 false none)] { st := St.empty }).2 = .ok (.tok (.bool false)) := by decide

/-- **call_checkDistribution** — `_check_distribution` only warns (when the distribution recorded for the name is not
`==` the one asked for) -/
theorem call_checkDistribution (E : SEnv) (name : String) (d : Dist) (s : MSt) :
    program.call1 E .checkDistribution [.tok (.str name), .dist d] s =
      ({ s with warns := s.warns ++ checkDistributionH s.st name d }, .ok (.tok .none)) := by
  simp only [Program.call1, prog_checkDistribution]
  unfold checkDistributionH
  cases h : s.st.dists.get? name with
  | none => cases hp : d.pyEq d <;> ir_simp [SuggestMethods.checkDistribution, h, hp]
  | some o => cases hp : o.pyEq d <;> ir_simp [SuggestMethods.checkDistribution, h, hp]

example : (program.call1 ⟨⟨[], [], []⟩, Dist.single, fun _ _ => .none, false⟩ .checkDistribution
    [.tok (.str "x"), .dist (.flt .float 0 2 false none)]
    { st := ⟨[("x", .flt 1)], [("x", .flt .float 0 4 false none)], []⟩ }).1.warns = [.inconsistent] := by decide

/-! ## `Trial._suggest` -/

def flowOf : Except Exn (Tok × Branch) → Flow
  | .ok (v, br) => .ret (.tok v) (some br)
  | .error e => .raised e

/-- what a caller sees of `_suggest` by the hand model, when the warning log / sampler counter start at `w0` / `n0` -/
def suggestOutcome (E : SEnv) (st : St) (name : String) (d : Dist) (w0 : List Warn) (n0 : Nat) : St × List Warn × Nat × Flow :=
  ((suggestFull E st name d).st, w0 ++ (suggestFull E st name d).warns, n0 + (suggestFull E st name d).sampled,
   flowOf (suggestFull E st name d).res)

/-- a run of the generated `_suggest` body -/
def execSuggest (E : SEnv) (st : St) (name : String) (d : Dist) (w0 : List Warn) (n0 : Nat) : MSt × Flow :=
  exec E (program.call1 E) program.suggest { st := st, locals := argsND name d, warns := w0, sampled := n0 }

macro "sg_simp" "[" ts:Lean.Parser.Tactic.simpLemma,* "]" : tactic =>
  `(tactic| ir_simp [execSuggest, outcome, suggestOutcome, flowOf, prog_suggest, SuggestMethods.suggest, argsND, suggestFull, pickFull,
      call1_checkCompat, call_isFixedParam, call_isRelativeParam, handIsFixed, handIsRelative, Tok.num?, $ts,*])

theorem exec_suggest_reused (E : SEnv) (st : St) (name : String) (d dOld : Dist) (w0 : List Warn) (n0 : Nat)
    (h : st.dists.get? name = some dOld) :
    outcome (execSuggest E st name d w0 n0) = suggestOutcome E st name d w0 n0 := by
  cases hc : compat dOld d with
  | false => sg_simp [h, hc]
  | true =>
    cases hp : st.params.get? name with
    | none => sg_simp [h, hc, hp]
    | some v => sg_simp [h, hc, hp]

theorem exec_suggest_fixed (E : SEnv) (st : St) (name : String) (d : Dist) (w0 : List Warn) (n0 : Nat) (fv : Tok)
    (h : st.dists.get? name = none) (hf : E.cx.fixed.get? name = some fv) :
    outcome (execSuggest E st name d w0 n0) = suggestOutcome E st name d w0 n0 := by
  cases hq : d.toInternal fv with
  | error e => sg_simp [h, hf, hq]
  | ok q =>
    cases hw : E.writeFails <;> cases hc : d.contains q <;> sg_simp [h, hf, hq, hw, hc]

theorem exec_suggest_single (E : SEnv) (st : St) (name : String) (d : Dist) (w0 : List Warn) (n0 : Nat)
    (h : st.dists.get? name = none) (hf : E.cx.fixed.get? name = none) (hs : E.single d = true) :
    outcome (execSuggest E st name d w0 n0) = suggestOutcome E st name d w0 n0 := by
  cases d with
  | cat cs =>
    cases cs with
    | nil => sg_simp [h, hf, hs, call1_getSingleValue]
    | cons a t =>
      cases hq : (Dist.cat (a :: t)).toInternal (singleValue (.cat (a :: t))) with
      | error e => sg_simp [h, hf, hs, call1_getSingleValue, hq]
      | ok q => cases hw : E.writeFails <;> sg_simp [h, hf, hs, call1_getSingleValue, hq, hw]
  | flt c low high log step =>
    cases hq : (Dist.flt c low high log step).toInternal (singleValue (.flt c low high log step)) with
    | error e => sg_simp [h, hf, hs, call1_getSingleValue, hq]
    | ok q => cases hw : E.writeFails <;> sg_simp [h, hf, hs, call1_getSingleValue, hq, hw]
  | int c low high log step =>
    cases hq : (Dist.int c low high log step).toInternal (singleValue (.int c low high log step)) with
    | error e => sg_simp [h, hf, hs, call1_getSingleValue, hq]
    | ok q => cases hw : E.writeFails <;> sg_simp [h, hf, hs, call1_getSingleValue, hq, hw]

theorem exec_suggest_independent (E : SEnv) (st : St) (name : String) (d : Dist) (w0 : List Warn) (n0 : Nat)
    (h : st.dists.get? name = none) (hf : E.cx.fixed.get? name = none) (hs : E.single d = false)
    (hr : E.cx.relParams.get? name = none) :
    outcome (execSuggest E st name d w0 n0) = suggestOutcome E st name d w0 n0 := by
  cases hq : d.toInternal (E.indep name d) with
  | error e => sg_simp [h, hf, hs, hr, hq]
  | ok q => cases hw : E.writeFails <;> sg_simp [h, hf, hs, hr, hq, hw]

theorem exec_suggest_relative (E : SEnv) (st : St) (name : String) (d : Dist) (w0 : List Warn) (n0 : Nat) (rv : Tok)
    (h : st.dists.get? name = none) (hf : E.cx.fixed.get? name = none) (hs : E.single d = false)
    (hr : E.cx.relParams.get? name = some rv) :
    outcome (execSuggest E st name d w0 n0) = suggestOutcome E st name d w0 n0 := by
  cases hsp : E.cx.relSpace.get? name with
  | none => sg_simp [h, hf, hs, hr, hsp]
  | some rd =>
    cases hc : compat rd d with
    | false => sg_simp [h, hf, hs, hr, hsp, hc]
    | true =>
      cases hq : d.toInternal rv with
      | error e => sg_simp [h, hf, hs, hr, hsp, hc, hq]
      | ok q =>
        cases hin : d.contains q with
        | true => cases hw : E.writeFails <;> sg_simp [h, hf, hs, hr, hsp, hc, hq, hin, hw]
        | false =>
          cases hq2 : d.toInternal (E.indep name d) with
          | error e => sg_simp [h, hf, hs, hr, hsp, hc, hq, hin, hq2]
          | ok q2 => cases hw : E.writeFails <;> sg_simp [h, hf, hs, hr, hsp, hc, hq, hin, hq2, hw]

/-- **exec_suggest** — a run of `Trial._suggest` as written today, with today's `_is_fixed_param`,
`_is_relative_param`, `_get_single_value` and `check_distribution_compatibility` as its callees, from ANY trial state,
context, name, distribution, `single()` answer, sampler answer, storage behaviour, warning log and sampler counter, ends
exactly as the hand model says: new cache, new storage rows, value, source, exception, warnings, sampler calls. -/
theorem exec_suggest (E : SEnv) (st : St) (name : String) (d : Dist) (w0 : List Warn) (n0 : Nat) :
    outcome (execSuggest E st name d w0 n0) = suggestOutcome E st name d w0 n0 := by
  cases h : st.dists.get? name with
  | some dOld => exact exec_suggest_reused E st name d dOld w0 n0 h
  | none =>
    cases hf : E.cx.fixed.get? name with
    | some fv => exact exec_suggest_fixed E st name d w0 n0 fv h hf
    | none =>
      cases hs : E.single d with
      | true => exact exec_suggest_single E st name d w0 n0 h hf hs
      | false =>
        cases hr : E.cx.relParams.get? name with
        | none => exact exec_suggest_independent E st name d w0 n0 h hf hs hr
        | some rv => exact exec_suggest_relative E st name d w0 n0 rv h hf hs hr

theorem finishS'_flowOf (o : SOut) : finishS' (o.st, [] ++ o.warns, 0 + o.sampled, flowOf o.res) = some o := by
  obtain ⟨st, w, n, res⟩ := o
  cases res with
  | error e => simp [finishS', flowOf]
  | ok vb => obtain ⟨v, br⟩ := vb; simp [finishS', flowOf]

/-- **interp_suggest** — `Trial._suggest` as written today IS the hand model `SuggestApi.suggestFull`, for all inputs. -/
theorem interp_suggest (E : SEnv) (st : St) (name : String) (d : Dist) :
    interpSuggest program E st name d = some (suggestFull E st name d) := by
  have h := exec_suggest E st name d [] 0
  unfold execSuggest at h
  unfold interpSuggest finishS
  rw [h]
  exact finishS'_flowOf _

/-- the context of the non-vacuity examples: `x` is enqueued (outside [0, 1]), the sampler proposes `x`, `y` relatively -/
def exCx : Ctx := ⟨[("x", .flt 2)], [("x", .flt .float 0 4 false none), ("y", .flt .float 0 4 false none)],
                   [("x", .flt 1), ("y", .flt 3)]⟩
def exE : SEnv := ⟨exCx, Dist.single, fun _ _ => .flt 1, false⟩

-- non-vacuity: fixed beats relative beats independent; an uncontained fixed value is handed over with the warning
example : (interpSuggest program exE St.empty "x" (.flt .float 0 1 false none)).map (fun o => (o.res, o.warns, o.sampled)) =
    some (.ok (.flt 2, .fixed), [.fixedOutOfRange], 0) := by decide
example : (interpSuggest program exE St.empty "y" (.flt .float 0 4 false none)).map (fun o => (o.res, o.warns, o.sampled)) =
    some (.ok (.flt 3, .relative), [], 0) := by decide
example : (interpSuggest program exE St.empty "y" (.flt .float 0 2 false none)).map (fun o => (o.res, o.warns, o.sampled)) =
    some (.ok (.flt 1, .independent), [], 1) := by decide

/-! ## calls of `_suggest` from the wrappers -/

/-- the value a caller gets from how a body ended -/
def resOfFlow : Flow → Except Exn Val
  | .next => .ok (.tok .none)
  | .ret v _ => .ok v
  | .raised e => .error e

/-- the answer of `_suggest` as a caller sees it -/
def resVal : Except Exn (Tok × Branch) → Except Exn Val
  | .ok (v, _) => .ok (.tok v)
  | .error e => .error e

theorem runFn_of_outcomeA (E : SEnv) (callD : CallD) (body : Stmt) (params : List String) (args : List Val) (s : MSt)
    (hl : params.length = args.length) (st' : St) (w' : List Warn) (n' : Nat) (fl : Flow)
    (h : outcomeA (exec E callD body { s with locals := (params.zip args).map (fun p => (p.1, (p.2, none))) }) = (st', w', n', fl)) :
    runFn E callD body params args s =
      ({ st := st', locals := s.locals, warns := w', sampled := n' }, resOfFlow fl) := by
  unfold runFn
  rw [if_neg (by simpa using hl)]
  generalize exec E callD body _ = r at h
  obtain ⟨s', fl'⟩ := r
  simp only [outcomeA, Prod.mk.injEq] at h
  obtain ⟨h1, h2, h3, h4⟩ := h
  subst h1 h2 h3
  cases fl' <;> simp [Flow.untag] at h4 <;> subst h4 <;> rfl

theorem outcomeA_of_outcome (r : MSt × Flow) : outcomeA r = ((outcome r).1, (outcome r).2.1, (outcome r).2.2.1, (outcome r).2.2.2.untag) := rfl

/-- **call_suggest** — `self._suggest(name, distribution)` called from a wrapper: the hand model's effects on top of
the caller's warning log and sampler counter; the caller's locals are untouched -/
theorem call_suggest (E : SEnv) (name : String) (d : Dist) (s : MSt) :
    program.call2 E .suggest [.tok (.str name), .dist d] s =
      ({ st := (suggestFull E s.st name d).st, locals := s.locals, warns := s.warns ++ (suggestFull E s.st name d).warns,
         sampled := s.sampled + (suggestFull E s.st name d).sampled },
       resVal (suggestFull E s.st name d).res) := by
  have h := exec_suggest E s.st name d s.warns s.sampled
  unfold execSuggest suggestOutcome at h
  simp only [Program.call2]
  rw [runFn_of_outcomeA E (program.call1 E) program.suggest ["name", "distribution"] [.tok (.str name), .dist d] s rfl
    (suggestFull E s.st name d).st (s.warns ++ (suggestFull E s.st name d).warns) (s.sampled + (suggestFull E s.st name d).sampled)
    (flowOf (suggestFull E s.st name d).res).untag]
  · cases hres : (suggestFull E s.st name d).res with
    | error e => simp [flowOf, Flow.untag, resOfFlow, resVal]
    | ok vb => obtain ⟨v, br⟩ := vb; simp [flowOf, Flow.untag, resOfFlow, resVal]
  · rw [outcomeA_of_outcome]
    have : ({ s with locals := (["name", "distribution"].zip [Val.tok (.str name), Val.dist d]).map (fun p => (p.1, (p.2, (none : Option Branch)))) } : MSt) =
        { st := s.st, locals := argsND name d, warns := s.warns, sampled := s.sampled } := rfl
    rw [this, h]

theorem call2_checkDistribution (E : SEnv) (name : String) (d : Dist) (s : MSt) :
    program.call2 E .checkDistribution [.tok (.str name), .dist d] s =
      ({ s with warns := s.warns ++ checkDistributionH s.st name d }, .ok (.tok .none)) := call_checkDistribution E name d s

/-! ## the public wrappers -/

def flowA : Except Exn Tok → Flow
  | .ok v => .ret (.tok v) none
  | .error e => .raised e

/-- what a caller sees of a wrapper by the hand model, on top of a warning log `w0` and a sampler counter `n0` -/
def aOutcome (o : AOut) (w0 : List Warn) (n0 : Nat) : St × List Warn × Nat × Flow :=
  (o.st, w0 ++ o.warns, n0 + o.sampled, flowA o.res)

def floatLocals (name : String) (low high : Rat) (step : Option Rat) (log : Bool) : AList (Val × Option Branch) :=
  [loc "name" (.tok (.str name)), loc "low" (fltV low), loc "high" (fltV high), loc "step" (optFltV step), loc "log" (boolV log)]

macro "api_simp" "[" ts:Lean.Parser.Tactic.simpLemma,* "]" : tactic =>
  `(tactic| ir_simp [outcomeA, aOutcome, flowA, Flow.untag, loc, fltV, optFltV, mkFloatV, mkIntV, mkCatV, optStepV, Tok.num?, call_suggest,
      call2_checkDistribution, resVal, afterSuggest, $ts,*])

/-- **exec_suggestFloat** -/
theorem exec_suggestFloat (E : SEnv) (st : St) (name : String) (low high : Rat) (step : Option Rat) (log : Bool)
    (w0 : List Warn) (n0 : Nat) :
    outcomeA (exec E (program.call2 E) program.suggestFloat
        { st := st, locals := floatLocals name low high step log, warns := w0, sampled := n0 }) =
      aOutcome (suggestFloatH E st name low high step log) w0 n0 := by
  cases hm : mkFlt .float low high log step with
  | error e =>
    cases step <;> api_simp [prog_suggestFloat, SuggestMethods.suggestFloat, floatLocals, suggestFloatH, hm]
  | ok d =>
    cases hres : (suggestFull E st name d).res with
    | error e => cases step <;> api_simp [prog_suggestFloat, SuggestMethods.suggestFloat, floatLocals, suggestFloatH, hm, hres]
    | ok vb =>
      obtain ⟨v, br⟩ := vb
      cases step <;> api_simp [prog_suggestFloat, SuggestMethods.suggestFloat, floatLocals, suggestFloatH, hm, hres]

def intLocals (name : String) (low high step : Int) (log : Bool) : AList (Val × Option Branch) :=
  [loc "name" (.tok (.str name)), loc "low" (.tok (.int low)), loc "high" (.tok (.int high)), loc "step" (.tok (.int step)),
   loc "log" (boolV log)]

/-- **exec_suggestInt** -/
theorem exec_suggestInt (E : SEnv) (st : St) (name : String) (low high step : Int) (log : Bool) (w0 : List Warn) (n0 : Nat) :
    outcomeA (exec E (program.call2 E) program.suggestInt
        { st := st, locals := intLocals name low high step log, warns := w0, sampled := n0 }) =
      aOutcome (suggestIntH E st name low high step log) w0 n0 := by
  cases hm : mkInt .int low high log step with
  | error e => api_simp [prog_suggestInt, SuggestMethods.suggestInt, intLocals, suggestIntH, hm]
  | ok d =>
    cases hres : (suggestFull E st name d).res with
    | error e => api_simp [prog_suggestInt, SuggestMethods.suggestInt, intLocals, suggestIntH, hm, hres]
    | ok vb =>
      obtain ⟨v, br⟩ := vb
      cases v <;> api_simp [prog_suggestInt, SuggestMethods.suggestInt, intLocals, suggestIntH, hm, hres, intOfTok]

/-- **exec_suggestCategorical** -/
theorem exec_suggestCategorical (E : SEnv) (st : St) (name : String) (choices : List Tok) (w0 : List Warn) (n0 : Nat) :
    outcomeA (exec E (program.call2 E) program.suggestCategorical
        { st := st, locals := [loc "name" (.tok (.str name)), loc "choices" (.list choices)], warns := w0, sampled := n0 }) =
      aOutcome (suggestCategoricalH E st name choices) w0 n0 := by
  cases hm : mkCat choices with
  | error e => api_simp [prog_suggestCategorical, SuggestMethods.suggestCategorical, suggestCategoricalH, hm]
  | ok d =>
    cases hres : (suggestFull E st name d).res with
    | error e => api_simp [prog_suggestCategorical, SuggestMethods.suggestCategorical, suggestCategoricalH, hm, hres]
    | ok vb =>
      obtain ⟨v, br⟩ := vb
      api_simp [prog_suggestCategorical, SuggestMethods.suggestCategorical, suggestCategoricalH, hm, hres]

theorem finishA'_aOutcome (o : AOut) : finishA' (aOutcome o [] 0) = some o := by
  obtain ⟨st, w, n, res⟩ := o
  cases res <;> simp [finishA', aOutcome, flowA]

/-- **interp_suggestFloat** — `Trial.suggest_float` as written today (construction of the `FloatDistribution` incl. the
`step` / `log` arguments, `_suggest`, `_check_distribution`, the return) IS `SuggestApi.suggestFloatH`, for all inputs. -/
theorem interp_suggestFloat (E : SEnv) (st : St) (name : String) (low high : Rat) (step : Option Rat) (log : Bool) :
    interpSuggestFloat program E st name low high step log = some (suggestFloatH E st name low high step log) := by
  have h := exec_suggestFloat E st name low high step log [] 0
  unfold floatLocals at h
  unfold interpSuggestFloat finishA
  rw [h]
  exact finishA'_aOutcome _

/-- **interp_suggestInt** — `Trial.suggest_int` as written today (`IntDistribution(low=…, high=…, log=…, step=…)`,
`int(self._suggest(…))`, `_check_distribution`) IS `SuggestApi.suggestIntH`. -/
theorem interp_suggestInt (E : SEnv) (st : St) (name : String) (low high step : Int) (log : Bool) :
    interpSuggestInt program E st name low high step log = some (suggestIntH E st name low high step log) := by
  have h := exec_suggestInt E st name low high step log [] 0
  unfold intLocals at h
  unfold interpSuggestInt finishA
  rw [h]
  exact finishA'_aOutcome _

/-- **interp_suggestCategorical** -/
theorem interp_suggestCategorical (E : SEnv) (st : St) (name : String) (choices : List Tok) :
    interpSuggestCategorical program E st name choices = some (suggestCategoricalH E st name choices) := by
  have h := exec_suggestCategorical E st name choices [] 0
  unfold interpSuggestCategorical finishA
  rw [h]
  exact finishA'_aOutcome _

example : (interpSuggestFloat program ⟨⟨[], [], []⟩, Dist.single, fun _ _ => .flt 2, false⟩ St.empty "x" 0 4 none false).map (fun o => (o.res, o.sampled, o.st.stored)) =
    some (.ok (.flt 2), 1, [("x", (2, .flt .float 0 4 false none))]) := by decide +kernel
example : (interpSuggestInt program ⟨⟨[], [], []⟩, Dist.single, fun _ _ => .flt 2, false⟩ St.empty "x" 0 4 2 false).map (fun o => (o.res, o.st.params)) =
    some (.ok (.int 2), [("x", .flt 2)]) := by decide +kernel
example : (interpSuggestCategorical program ⟨⟨[], [], []⟩, Dist.single, fun _ _ => .flt 2, false⟩ St.empty "x" [.flt 1, .flt 2]).map (fun o => (o.res, o.st.stored)) =
    some (.ok (.flt 2), [("x", (1, .cat [.flt 1, .flt 2]))]) := by decide +kernel

/-! ## the deprecated forwards -/

/-- **call_suggestFloat** — `self.suggest_float(name, low, high, step=…, log=…)` called from a forward -/
theorem call_suggestFloat (E : SEnv) (name : String) (low high : Rat) (step : Option Rat) (log : Bool) (s : MSt) :
    program.call3 E .suggestFloat [.tok (.str name), fltV low, fltV high, optFltV step, boolV log] s =
      ({ st := (suggestFloatH E s.st name low high step log).st, locals := s.locals,
         warns := s.warns ++ (suggestFloatH E s.st name low high step log).warns,
         sampled := s.sampled + (suggestFloatH E s.st name low high step log).sampled },
       (suggestFloatH E s.st name low high step log).res.map Val.tok) := by
  have h := exec_suggestFloat E s.st name low high step log s.warns s.sampled
  unfold aOutcome at h
  simp only [Program.call3]
  rw [runFn_of_outcomeA E (program.call2 E) program.suggestFloat ["name", "low", "high", "step", "log"]
    [.tok (.str name), fltV low, fltV high, optFltV step, boolV log] s rfl _ _ _ _ h]
  cases (suggestFloatH E s.st name low high step log).res <;> simp [flowA, resOfFlow, Except.map]

theorem call_suggestFloat_plain (E : SEnv) (name : String) (low high : Rat) (log : Bool) (s : MSt) :
    program.call3 E .suggestFloat [.tok (.str name), .tok (.flt low), .tok (.flt high), .tok .none, .tok (.bool log)] s =
      ({ st := (suggestFloatH E s.st name low high none log).st, locals := s.locals,
         warns := s.warns ++ (suggestFloatH E s.st name low high none log).warns,
         sampled := s.sampled + (suggestFloatH E s.st name low high none log).sampled },
       (suggestFloatH E s.st name low high none log).res.map Val.tok) := call_suggestFloat E name low high none log s

theorem call_suggestFloat_step (E : SEnv) (name : String) (low high q : Rat) (log : Bool) (s : MSt) :
    program.call3 E .suggestFloat [.tok (.str name), .tok (.flt low), .tok (.flt high), .tok (.flt q), .tok (.bool log)] s =
      ({ st := (suggestFloatH E s.st name low high (some q) log).st, locals := s.locals,
         warns := s.warns ++ (suggestFloatH E s.st name low high (some q) log).warns,
         sampled := s.sampled + (suggestFloatH E s.st name low high (some q) log).sampled },
       (suggestFloatH E s.st name low high (some q) log).res.map Val.tok) := call_suggestFloat E name low high (some q) log s

macro "fwd_simp" "[" ts:Lean.Parser.Tactic.simpLemma,* "]" : tactic =>
  `(tactic| ir_simp [interpForward, interpForwardQ, finishA, finishA', outcomeA, Flow.untag, loc, fltV, call_suggestFloat_plain,
      call_suggestFloat_step, deprecatedH, $ts,*])

/-- **interp_suggestUniform** — `suggest_uniform(name, low, high)` = the deprecation warning, then `suggest_float(name, low, high)` -/
theorem interp_suggestUniform (E : SEnv) (st : St) (name : String) (low high : Rat) :
    interpForward program E program.suggestUniform st name low high = some (suggestUniformH E st name low high) := by
  cases hres : (suggestFloatH E st name low high none false).res <;>
    fwd_simp [prog_suggestUniform, SuggestMethods.suggestUniform, suggestUniformH, hres]

/-- **interp_suggestLogUniform** — … `suggest_float(name, low, high, log=True)` -/
theorem interp_suggestLogUniform (E : SEnv) (st : St) (name : String) (low high : Rat) :
    interpForward program E program.suggestLogUniform st name low high = some (suggestLogUniformH E st name low high) := by
  cases hres : (suggestFloatH E st name low high none true).res <;>
    fwd_simp [prog_suggestLogUniform, SuggestMethods.suggestLogUniform, suggestLogUniformH, hres]

/-- **interp_suggestDiscreteUniform** — … `suggest_float(name, low, high, step=q)` -/
theorem interp_suggestDiscreteUniform (E : SEnv) (st : St) (name : String) (low high q : Rat) :
    interpForwardQ program E program.suggestDiscreteUniform st name low high q = some (suggestDiscreteUniformH E st name low high q) := by
  cases hres : (suggestFloatH E st name low high (some q) false).res <;>
    fwd_simp [prog_suggestDiscreteUniform, SuggestMethods.suggestDiscreteUniform, suggestDiscreteUniformH, hres]

example : (interpForward program ⟨⟨[], [], []⟩, Dist.single, fun _ _ => .flt 2, false⟩ program.suggestUniform St.empty "x" 1 4).map (fun o => (o.res, o.warns, o.st.dists)) =
    some (.ok (.flt 2), [.deprecated], [("x", .flt .float 1 4 false none)]) := by decide +kernel
example : (interpForward program ⟨⟨[], [], []⟩, Dist.single, fun _ _ => .flt 2, false⟩ program.suggestLogUniform St.empty "x" 1 4).map (fun o => (o.res, o.warns, o.st.dists)) =
    some (.ok (.flt 2), [.deprecated], [("x", .flt .float 1 4 true none)]) := by decide +kernel
example : (interpForwardQ program ⟨⟨[], [], []⟩, Dist.single, fun _ _ => .flt 2, false⟩ program.suggestDiscreteUniform St.empty "x" 0 5 2).map (fun o => (o.res, o.warns, o.st.dists)) =
    some (.ok (.flt 2), [.deprecated], [("x", .flt .float 0 4 false (some 2))]) := by decide +kernel

/-! ## `FixedTrial._suggest`, `FrozenTrial._suggest` -/

macro "given_simp" "[" ts:Lean.Parser.Tactic.simpLemma,* "]" : tactic =>
  `(tactic| ir_simp [interpGivenSuggest, finishA, finishA', outcomeA, Flow.untag, argsND, givenSuggestH, call_checkCompat, Tok.num?, $ts,*])

theorem interp_given (E : SEnv) (st : St) (name : String) (d : Dist) (record : Bool) (body : Stmt)
    (hb : body = if record then SuggestMethods.fixedSuggest else SuggestMethods.frozenSuggest) :
    interpGivenSuggest program E body st name d = some (givenSuggestH record E st name d) := by
  cases record <;> simp only [Bool.false_eq_true, if_true, if_false] at hb <;> subst hb
  all_goals
    cases hf : E.cx.fixed.get? name with
    | none => given_simp [SuggestMethods.fixedSuggest, SuggestMethods.frozenSuggest, hf]
    | some v =>
      cases hq : d.toInternal v with
      | error e => given_simp [SuggestMethods.fixedSuggest, SuggestMethods.frozenSuggest, hf, hq]
      | ok q =>
        cases hd : st.dists.get? name with
        | none => cases hc : d.contains q <;> given_simp [SuggestMethods.fixedSuggest, SuggestMethods.frozenSuggest, hf, hq, hd, hc]
        | some dOld =>
          cases hcp : compat dOld d <;> cases hc : d.contains q <;>
            given_simp [SuggestMethods.fixedSuggest, SuggestMethods.frozenSuggest, hf, hq, hd, hc, hcp]

/-- **interp_fixedSuggest** — `FixedTrial._suggest` as written today: the value given at construction or ValueError;
`to_internal_repr` validates; an uncontained value only warns; the distribution must be compatible with the one
recorded for the name; value and distribution are recorded. -/
theorem interp_fixedSuggest (E : SEnv) (st : St) (name : String) (d : Dist) :
    interpGivenSuggest program E program.fixedSuggest st name d = some (givenSuggestH true E st name d) :=
  interp_given E st name d true _ rfl

/-- **interp_frozenSuggest** — `FrozenTrial._suggest` as written today: the same, the parameters themselves are not rewritten. -/
theorem interp_frozenSuggest (E : SEnv) (st : St) (name : String) (d : Dist) :
    interpGivenSuggest program E program.frozenSuggest st name d = some (givenSuggestH false E st name d) :=
  interp_given E st name d false _ rfl

-- non-vacuity: a FrozenTrial asked for its parameter under a distribution with another `log` raises; under a narrower
-- range it hands the value over with the warning and replaces the recorded distribution
example : (interpGivenSuggest program ⟨⟨[("x", .flt 3)], [], []⟩, Dist.single, fun _ _ => .none, false⟩ program.frozenSuggest
    ⟨[("x", .flt 3)], [("x", .flt .float 1 4 false none)], []⟩ "x" (.flt .float 1 4 true none)).map (fun o => o.res) =
    some (.error (.err .valueError)) := by decide
example : (interpGivenSuggest program ⟨⟨[("x", .flt 3)], [], []⟩, Dist.single, fun _ _ => .none, false⟩ program.frozenSuggest
    ⟨[("x", .flt 3)], [("x", .flt .float 1 4 false none)], []⟩ "x" (.flt .float 1 2 false none)).map (fun o => (o.res, o.warns, o.st.dists)) =
    some (.ok (.flt 3), [.outOfRange], [("x", .flt .float 1 2 false none)]) := by decide
example : (interpGivenSuggest program ⟨⟨[("x", .flt 3)], [], []⟩, Dist.single, fun _ _ => .none, false⟩ program.fixedSuggest
    St.empty "x" (.flt .float 1 4 false none)).map (fun o => (o.res, o.warns, o.st.params)) =
    some (.ok (.flt 3), [], [("x", .flt 3)]) := by decide

/-! ## the interpreter as a function of the arguments of `Suggest.suggest`; the theorems of `Props/C10.lean` restated -/

/-- the environment `Suggest.suggest` is about: `single()` computed by the model, a storage that accepts writes, the
sampler answering `indep` -/
def envOf (cx : Ctx) (indep : Tok) : SEnv := ⟨cx, Dist.single, fun _ _ => indep, false⟩

/-- the interpreter of the generated `Trial._suggest` as a function of the arguments of `Suggest.suggest` -/
def genSuggest (cx : Ctx) (st : St) (name : String) (d : Dist) (indep : Tok) : Option (R (St × Tok × Branch)) :=
  match interpSuggest program (envOf cx indep) st name d with
  | some ⟨st', _, _, .ok (v, br)⟩ => some (.ok (st', v, br))
  | some ⟨_, _, _, .error (.err e)⟩ => some (.error e)
  | _ => none

/-- **gen_suggest_eq** — `Trial._suggest` as written today IS `Suggest.suggest` -/
theorem gen_suggest_eq (cx : Ctx) (st : St) (name : String) (d : Dist) (indep : Tok) :
    genSuggest cx st name d indep = some (suggest cx st name d indep) := by
  have h := suggestFull_toR (envOf cx indep) st name d rfl (by intro hd; subst hd; rfl)
  unfold genSuggest
  rw [interp_suggest]
  unfold toR at h
  show _ = some (suggestS d.single cx st name d indep)
  generalize suggestFull (envOf cx indep) st name d = o at h
  obtain ⟨st', w, n, res⟩ := o
  simp only [envOf] at h
  cases res with
  | ok vb =>
    obtain ⟨v, br⟩ := vb
    simp only at h
    cases hs : suggestS d.single cx st name d indep with
    | ok r => rw [hs] at h; simp [liftR] at h; simp [h]
    | error e => rw [hs] at h; simp [liftR] at h
  | error e =>
    simp only at h
    cases hs : suggestS d.single cx st name d indep with
    | ok r => rw [hs] at h; simp [liftR] at h
    | error e' => rw [hs] at h; simp [liftR] at h; subst h; rfl

/-- a sequence of calls through the interpreter; failed calls leave the state unchanged -/
def genRun (cx : Ctx) (st : St) : List (String × Dist × Tok) → Option St
  | [] => some st
  | (n, d, i) :: t =>
    match genSuggest cx st n d i with
    | some (.ok (st', _, _)) => genRun cx st' t
    | some (.error _) => genRun cx st t
    | none => none

/-- **gen_run_eq** -/
theorem gen_run_eq (cx : Ctx) (st : St) (calls : List (String × Dist × Tok)) : genRun cx st calls = some (run cx st calls) := by
  induction calls generalizing st with
  | nil => rfl
  | cons c t ih =>
    obtain ⟨n, d, i⟩ := c
    simp only [genRun, run, gen_suggest_eq]
    cases suggest cx st n d i with
    | ok r => obtain ⟨st', v, br⟩ := r; exact ih st'
    | error e => exact ih st

-- non-vacuity: the second call (another kind for the same name) raises and leaves the state of the first
example : (genRun exCx St.empty [("y", .flt .float 0 4 false none, .flt 1), ("y", .cat [.none], .none)]).map (fun st => st.params) =
    some [("y", .flt 3)] := by decide

/-- **gen_suggest_same_name_same_value** — for the code as written today: once `_suggest(name, ·)` has returned `v`, then
after ANY further sequence of suggest calls in the trial, asking for `name` again with a compatible distribution returns
the same `v` and changes nothing; with an incompatible one it raises ValueError. -/
theorem gen_suggest_same_name_same_value (cx : Ctx) (st st1 : St) (name : String) (d : Dist) (i v : Tok) (br : Branch)
    (h : genSuggest cx st name d i = some (.ok (st1, v, br))) (calls : List (String × Dist × Tok)) (d' : Dist) (i' : Tok) :
    ∃ stN, genRun cx st1 calls = some stN ∧ ∃ d0, stN.dists.get? name = some d0 ∧ (st.dists.get? name = none → d0 = d) ∧
      (compat d0 d' = true → genSuggest cx stN name d' i' = some (.ok (stN, v, .reused))) ∧
      (compat d0 d' = false → genSuggest cx stN name d' i' = some (.error .valueError)) := by
  rw [gen_suggest_eq] at h
  have h' := Option.some.inj h
  obtain ⟨d0, g1, g2, g3, g4⟩ := C10.suggest_same_name_same_value cx st st1 name d i v br h' calls d' i'
  refine ⟨run cx st1 calls, gen_run_eq cx st1 calls, d0, g1, g2, ?_, ?_⟩
  · intro hc; rw [gen_suggest_eq, g3 hc]
  · intro hc; rw [gen_suggest_eq, g4 hc]
example : genSuggest exCx St.empty "y" (.flt .float 0 4 false none) (.flt 1) =
    some (.ok (⟨[("y", .flt 3)], [("y", .flt .float 0 4 false none)], [("y", (3, .flt .float 0 4 false none))]⟩, .flt 3, .relative)) := by
  decide

/-- **gen_suggest_fixed_wins** — an enqueued / fixed value that `to_internal_repr` accepts is returned for a
not-yet-suggested name whatever the relative sampler proposed, whatever the independent sampler would answer and even when
the domain is a single point; its internal form is what is written to the storage. -/
theorem gen_suggest_fixed_wins (cx : Ctx) (st : St) (name : String) (d : Dist) (fv indep : Tok) (q : Rat)
    (hnew : st.dists.get? name = none) (hf : cx.fixed.get? name = some fv) (hq : d.toInternal fv = .ok q) :
    genSuggest cx st name d indep =
      some (.ok ({ params := st.params.set name fv, dists := st.dists.set name d, stored := st.stored.set name (q, d) }, fv, .fixed)) := by
  rw [gen_suggest_eq, C10.suggest_fixed_wins cx st name d fv indep q hnew hf hq]
example : (genSuggest exCx St.empty "x" (.flt .float 2 2 false none) (.flt 1)).map (fun r => r.toOption.map (fun x => x.2)) =
    some (some (.flt 2, .fixed)) := by decide

/-- **gen_relative_outside_falls_back** — a relative value NOT contained in the distribution asked for is discarded and
the independent sampler's value is used -/
theorem gen_relative_outside_falls_back (cx : Ctx) (st : St) (name : String) (d rd : Dist) (rv indep : Tok) (q qi : Rat)
    (hnew : st.dists.get? name = none) (hf : cx.fixed.get? name = none) (hs : d.single = false)
    (hr : cx.relParams.get? name = some rv) (hsp : cx.relSpace.get? name = some rd) (hc : compat rd d = true)
    (hq : d.toInternal rv = .ok q) (hout : d.contains q = false) (hqi : d.toInternal indep = .ok qi) :
    genSuggest cx st name d indep =
      some (.ok ({ params := st.params.set name indep, dists := st.dists.set name d, stored := st.stored.set name (qi, d) },
           indep, .independent)) := by
  rw [gen_suggest_eq, C10.relative_outside_falls_back cx st name d rd rv indep q qi hnew hf hs hr hsp hc hq hout hqi]
example : (genSuggest exCx St.empty "y" (.flt .float 0 2 false none) (.flt 1)).map (fun r => r.toOption.map (fun x => x.2)) =
    some (some (.flt 1, .independent)) := by decide

/-- **gen_relative_inside_used** — … and a contained one is used -/
theorem gen_relative_inside_used (cx : Ctx) (st : St) (name : String) (d rd : Dist) (rv indep : Tok) (q : Rat)
    (hnew : st.dists.get? name = none) (hf : cx.fixed.get? name = none) (hs : d.single = false)
    (hr : cx.relParams.get? name = some rv) (hsp : cx.relSpace.get? name = some rd) (hc : compat rd d = true)
    (hq : d.toInternal rv = .ok q) (hin : d.contains q = true) :
    genSuggest cx st name d indep =
      some (.ok ({ params := st.params.set name rv, dists := st.dists.set name d, stored := st.stored.set name (q, d) },
           rv, .relative)) := by
  rw [gen_suggest_eq, C10.relative_inside_used cx st name d rd rv indep q hnew hf hs hr hsp hc hq hin]

example : (genSuggest exCx St.empty "y" (.flt .float 0 4 false none) (.flt 1)).map (fun r => r.toOption.map (fun x => x.2)) =
    some (some (.flt 3, .relative)) := by decide

/-- **gen_suggest_stored_eq_returned** — for a newly suggested name: `trial.params[name]` is the returned value, the
storage holds exactly its internal form with the distribution asked for, and when that internal value is contained what any
reader gets back from the storage is equal to what the objective received — and stays so after any further suggest calls. -/
theorem gen_suggest_stored_eq_returned (cx : Ctx) (st st1 : St) (name : String) (d : Dist) (i v : Tok) (br : Branch)
    (hnew : st.dists.get? name = none) (h : genSuggest cx st name d i = some (.ok (st1, v, br)))
    (calls : List (String × Dist × Tok)) :
    ∃ stN, genRun cx st1 calls = some stN ∧ stN.params.get? name = some v ∧
    ∃ q, d.toInternal v = .ok q ∧ stN.stored.get? name = some (q, d) ∧
      (WF d → d.contains q = true → ∃ t, readBack stN name = some t ∧ v.catEq t = true) := by
  rw [gen_suggest_eq] at h
  obtain ⟨g1, q, g2, g3, g4⟩ := C10.suggest_stored_eq_returned cx st st1 name d i v br hnew (Option.some.inj h) calls
  exact ⟨run cx st1 calls, gen_run_eq cx st1 calls, g1, q, g2, g3, g4⟩

example : (genSuggest exCx St.empty "y" (.flt .float 0 4 false none) (.flt 1)).map
    (fun r => r.toOption.map (fun x => (readBack x.1 "y", x.1.params.get? "y"))) = some (some (some (.flt 3), some (.flt 3))) := by decide

/-- **gen_suggest_in_domain** — for the code as written today: the value returned for a new name is a member of the
declared domain whichever branch produced it, PROVIDED the two external sources are: the fixed value if there is one
(optuna only warns about an uncontained enqueued value) and the independent sampler's answer `indep` — i.e. the raw
number of the sampler has been projected as the code does (`C10.projection_in_domain`, `C10Gen`).  Nothing is assumed
about the relative sampler: its value is tested by the code. -/
theorem gen_suggest_in_domain (cx : Ctx) (st st1 : St) (name : String) (d : Dist) (indep v : Tok) (br : Branch)
    (hnew : st.dists.get? name = none) (h : genSuggest cx st name d indep = some (.ok (st1, v, br))) (hwf : WF d)
    (hfixed : ∀ fv, cx.fixed.get? name = some fv → Member d fv) (hindep : Member d indep) :
    Member d v := by
  rw [gen_suggest_eq] at h
  exact C10.suggest_in_domain cx st st1 name d indep v br hnew (Option.some.inj h) hwf hfixed hindep

example : Member (.flt .float 0 4 false none) (.flt 3) ∧ ¬ Member (.flt .float 0 2 false none) (.flt 3) := by
  refine ⟨⟨3, by decide, by decide⟩, ?_⟩
  rintro ⟨q, hq, hc⟩
  have : q = 3 := by simp [Dist.toInternal, Tok.num?] at hq; exact hq.symm
  subst this
  revert hc; decide

/-! ## what only the interpreter can say: writes, sampler calls, warnings, exceptions -/

theorem compat_refl (d : Dist) : compat d d = true := by
  cases d with
  | flt c low high log step => simp [compat, Dist.sameClass, Dist.log?]
  | int c low high log step => simp [compat, Dist.sameClass, Dist.log?]
  | cat cs => simp [compat, Dist.sameClass, Dist.log?, listCatEq_refl]

/-- after a successful call the name is in the trial, with its value and a distribution compatible with the one asked for -/
theorem suggestFull_ok_records (E : SEnv) (st : St) (name : String) (d : Dist) (v : Tok) (br : Branch)
    (h : (suggestFull E st name d).res = .ok (v, br)) :
    ∃ d0, (suggestFull E st name d).st.dists.get? name = some d0 ∧ compat d0 d = true ∧
      (suggestFull E st name d).st.params.get? name = some v := by
  unfold suggestFull at h ⊢
  cases hd : st.dists.get? name with
  | some dOld =>
    simp only [hd] at h ⊢
    cases hc : compat dOld d with
    | false => simp [hc] at h
    | true =>
      cases hv : st.params.get? name with
      | none => simp [hc, hv] at h
      | some v' =>
        simp [hc, hv] at h ⊢
        exact ⟨dOld, hd, hc, h.1⟩
  | none =>
    simp only [hd] at h ⊢
    generalize pickFull E name d = pf at h ⊢
    obtain ⟨w, n, r⟩ := pf
    cases r with
    | error e => simp at h
    | ok vb =>
      obtain ⟨v', br'⟩ := vb
      simp only at h ⊢
      cases hq : d.toInternal v' with
      | error e => simp [hq] at h
      | ok q =>
        cases hw : E.writeFails with
        | true => simp [hq, hw] at h
        | false =>
          simp [hq, hw] at h ⊢
          exact ⟨d, AList.get?_set_same _ _ _, compat_refl d, by rw [AList.get?_set_same, h.1]⟩

/-- **gen_second_call_same_value_no_write** — for the code as written today: after a call for `name` has returned `v`
(new or reused), a second call with the same name and distribution returns the SAME `v` whatever the context is by
then (`E'`: any fixed / relative parameters, any sampler answer, even a storage that would refuse every write), leaves
the cache and the storage rows exactly as they are, asks no sampler and warns about nothing: no write is attempted. -/
theorem gen_second_call_same_value_no_write (E E' : SEnv) (st : St) (name : String) (d : Dist) (o : SOut) (v : Tok) (br : Branch)
    (h1 : interpSuggest program E st name d = some o) (hok : o.res = .ok (v, br)) :
    interpSuggest program E' o.st name d = some ⟨o.st, [], 0, .ok (v, .reused)⟩ := by
  rw [interp_suggest] at h1 ⊢
  have := Option.some.inj h1
  subst this
  obtain ⟨d0, hd, hc, hv⟩ := suggestFull_ok_records E st name d v br hok
  rw [suggestFull_reused E' _ name d d0 v hd hc hv]
example : (interpSuggest program ⟨⟨[], [], []⟩, Dist.single, fun _ _ => .flt 9, true⟩
    ⟨[("y", .flt 3)], [("y", .flt .float 0 4 false none)], [("y", (3, .flt .float 0 4 false none))]⟩ "y" (.flt .float 0 4 false none)).map
      (fun o => (o.res, o.warns, o.sampled)) = some (.ok (.flt 3, .reused), [], 0) := by decide

/-- **gen_fixed_value_handed_over** — for the code as written today: a fixed / enqueued value that `to_internal_repr`
accepts is what a new name gets and what is stored (internal form, with the distribution asked for) — INSIDE the domain
silently, OUTSIDE it with exactly the one warning of `_is_fixed_param`; no sampler is asked. -/
theorem gen_fixed_value_handed_over (E : SEnv) (st : St) (name : String) (d : Dist) (fv : Tok) (q : Rat)
    (hnew : st.dists.get? name = none) (hf : E.cx.fixed.get? name = some fv) (hq : d.toInternal fv = .ok q)
    (hw : E.writeFails = false) :
    interpSuggest program E st name d =
      some ⟨{ params := st.params.set name fv, dists := st.dists.set name d, stored := st.stored.set name (q, d) },
            if d.contains q then [] else [.fixedOutOfRange], 0, .ok (fv, .fixed)⟩ := by
  rw [interp_suggest]
  simp [suggestFull, pickFull, hnew, hf, hq, hw]
example : (interpSuggest program exE St.empty "x" (.flt .float 0 1 false none)).map (fun o => (o.res, o.warns)) =
    some (.ok (.flt 2, .fixed), [.fixedOutOfRange]) := by decide
example : (interpSuggest program exE St.empty "x" (.flt .float 0 1 false none)).map (fun o => o.st.stored) =
    some [("x", (2, .flt .float 0 1 false none))] := by decide
example : (interpSuggest program exE St.empty "x" (.flt .float 0 4 false none)).map (fun o => (o.res, o.warns)) =
    some (.ok (.flt 2, .fixed), []) := by decide

/-- **gen_failed_call_changes_nothing** — for the code as written today: a call that ends in an exception — an
incompatible distribution, an invalid fixed / relative / sampled value, a relative parameter outside the relative search
space, a storage that refuses the write — leaves the trial-local cache and the storage rows exactly as they were. -/
theorem gen_failed_call_changes_nothing (E : SEnv) (st : St) (name : String) (d : Dist) (o : SOut) (e : Exn)
    (h : interpSuggest program E st name d = some o) (herr : o.res = .error e) : o.st = st := by
  rw [interp_suggest] at h
  have := Option.some.inj h
  subst this
  exact suggestFull_error_keeps_state E st name d e herr

example : (interpSuggest program exE ⟨[("y", .flt 3)], [("y", .flt .float 0 4 false none)], []⟩ "y" (.cat [.none])).map
    (fun o => (o.res, o.st.params, o.st.dists)) =
    some (.error (.err .valueError), [("y", .flt 3)], [("y", .flt .float 0 4 false none)]) := by decide

/-- **gen_refused_write_records_nothing** — the storage write comes BEFORE the cache update: when `set_trial_param`
raises for a new name, neither `trial.params` nor `trial.distributions` has the name afterwards (so a retry samples and
stores again instead of handing out a value the study does not have). -/
theorem gen_refused_write_records_nothing (E : SEnv) (st : St) (name : String) (d : Dist) (o : SOut)
    (hw : E.writeFails = true) (hnew : st.dists.get? name = none)
    (h : interpSuggest program E st name d = some o) : o.st = st ∧ ∃ e, o.res = .error e := by
  rw [interp_suggest] at h
  have := Option.some.inj h
  subst this
  exact suggestFull_write_refused E st name d hw hnew
example : (interpSuggest program ⟨exCx, Dist.single, fun _ _ => .flt 1, true⟩ St.empty "y" (.flt .float 0 4 false none)).map
    (fun o => (o.res, o.st.params, o.st.dists)) = some (.error .storage, [], []) := by decide

/-! ## the public wrappers: what the objective receives -/

/-- the value `_suggest` hands to a wrapper for a NEW name is a member of the distribution the wrapper built, as soon as
the fixed value (if any) and the sampler's answer are -/
theorem suggestFull_member (cx : Ctx) (st : St) (name : String) (d : Dist) (indep v : Tok) (br : Branch)
    (hnew : st.dists.get? name = none) (hwf : WF d)
    (h : (suggestFull (envOf cx indep) st name d).res = .ok (v, br))
    (hfixed : ∀ fv, cx.fixed.get? name = some fv → Member d fv) (hindep : Member d indep) : Member d v := by
  have ht := suggestFull_toR (envOf cx indep) st name d rfl (by intro hd; subst hd; rfl)
  unfold toR at ht
  rw [h] at ht
  simp only [envOf] at ht
  cases hs : suggestS d.single cx st name d indep with
  | error e => rw [hs] at ht; simp [liftR] at ht
  | ok r =>
    rw [hs] at ht
    simp only [liftR, Except.ok.injEq] at ht
    obtain ⟨st1, v1, br1⟩ := r
    simp only [Prod.mk.injEq] at ht
    obtain ⟨_, hv, hb⟩ := ht
    subst hv hb
    exact C10.suggest_in_domain cx st st1 name d indep v br hnew hs hwf hfixed hindep

/-- **gen_suggest_float_in_domain** — for the code as written today: what `suggest_float(name, low, high, step=…, log=…)`
returns for a new name is a member of the `FloatDistribution` it declares — inside `[low, high']` and on the step grid,
`high'` the adjusted upper end — whichever branch produced it, provided the fixed value (if any) and the sampler's
independent answer are. -/
theorem gen_suggest_float_in_domain (cx : Ctx) (st : St) (name : String) (low high : Rat) (step : Option Rat) (log : Bool)
    (indep v : Tok) (o : AOut) (hnew : st.dists.get? name = none)
    (h : interpSuggestFloat program (envOf cx indep) st name low high step log = some o) (hok : o.res = .ok v)
    (hfixed : ∀ d fv, mkFlt .float low high log step = .ok d → cx.fixed.get? name = some fv → Member d fv)
    (hindep : ∀ d, mkFlt .float low high log step = .ok d → Member d indep) :
    ∃ d, mkFlt .float low high log step = .ok d ∧ Member d v := by
  rw [interp_suggestFloat] at h
  have := Option.some.inj h
  subst this
  unfold suggestFloatH at hok
  cases hm : mkFlt .float low high log step with
  | error e => simp [hm] at hok
  | ok d =>
    simp only [hm] at hok
    unfold afterSuggest at hok
    cases hres : (suggestFull (envOf cx indep) st name d).res with
    | error e => simp [hres] at hok
    | ok vb =>
      obtain ⟨v0, br⟩ := vb
      simp [hres] at hok
      subst hok
      exact ⟨d, rfl, suggestFull_member cx st name d indep v0 br hnew (mkFlt_wf .float _ _ _ _ _ (by simp [FClsOK]) hm) hres (hfixed d · hm) (hindep d hm)⟩
example : (interpSuggestFloat program (envOf ⟨[], [], []⟩ (.flt (7/10))) St.empty "x" 0 1 (some (3/10)) false).map (fun o => (o.res, o.st.dists)) =
    some (.ok (.flt (7/10)), [("x", .flt .float 0 (9/10) false (some (3/10)))]) := by decide +kernel

/-- `int(x)` of a member of an int distribution is the same member, as an `int` -/
theorem int_of_member (c : ICls) (low high : Int) (log : Bool) (step : Int) (hs : 0 < step) (v : Tok)
    (h : Member (.int c low high log step) v) :
    ∃ i : Int, intOfTok v = .ok (.int i) ∧ Member (.int c low high log step) (.int i) := by
  obtain ⟨q, hq, hc⟩ := h
  have key : ∀ i : Int, (i : Rat) = q → Member (.int c low high log step) (.int i) := by
    intro i hi
    refine ⟨q, ?_, hc⟩
    simp only [Dist.toInternal] at hq ⊢
    cases hn : v.num? with
    | none => simp [hn] at hq
    | some q' =>
      simp only [hn] at hq
      split at hq
      · simp at hq
      · rename_i hcond
        simp only [Except.ok.injEq] at hq
        subst hq
        simp [Tok.num?, hi, hcond]
  have hnum : v.num? = some q := by
    simp only [Dist.toInternal] at hq
    cases hn : v.num? with
    | none => simp [hn] at hq
    | some q' =>
      simp only [hn] at hq
      split at hq
      · simp at hq
      · simp only [Except.ok.injEq] at hq; rw [hq]
  cases v with
  | none => simp [Tok.num?] at hnum
  | nan => simp [Tok.num?] at hnum
  | pinf => simp [Tok.num?] at hnum
  | ninf => simp [Tok.num?] at hnum
  | str s => simp [Tok.num?] at hnum
  | bool b =>
    simp only [Tok.num?, Option.some.injEq] at hnum
    exact ⟨if b then 1 else 0, rfl, key _ (by rw [← hnum]; cases b <;> simp)⟩
  | int i =>
    simp only [Tok.num?, Option.some.injEq] at hnum
    exact ⟨i, rfl, key _ hnum⟩
  | flt x =>
    simp only [Tok.num?, Option.some.injEq] at hnum
    subst hnum
    simp only [Dist.contains, Bool.and_eq_true, decide_eq_true_eq] at hc
    have hs' : (step : Rat) ≠ 0 := by exact_mod_cast (ne_of_gt hs)
    obtain ⟨k, hk⟩ := (ratMod_eq_zero_iff hs').1 hc.2
    have hxi : x = ((k * step + low : Int) : Rat) := by push_cast; linarith
    refine ⟨k * step + low, ?_, key _ hxi.symm⟩
    simp only [intOfTok]
    rw [hxi, truncI_intCast]

/-- **gen_suggest_int_returns_int** — for the code as written today: whatever `_suggest` hands back (an `int`, an integral
`float` that was enqueued, a `bool`), `suggest_int` returns an `int`. -/
theorem gen_suggest_int_returns_int (E : SEnv) (st : St) (name : String) (low high step : Int) (log : Bool) (o : AOut) (v : Tok)
    (h : interpSuggestInt program E st name low high step log = some o) (hok : o.res = .ok v) : ∃ i : Int, v = .int i := by
  rw [interp_suggestInt] at h
  have := Option.some.inj h
  subst this
  unfold suggestIntH at hok
  cases hm : mkInt .int low high log step with
  | error e => simp [hm] at hok
  | ok d =>
    simp only [hm] at hok
    unfold afterSuggest at hok
    cases hres : (suggestFull E st name d).res with
    | error e => simp [hres] at hok
    | ok vb =>
      obtain ⟨v0, br⟩ := vb
      simp only [hres] at hok
      cases v0 <;> simp [intOfTok] at hok <;> exact ⟨_, hok.symm⟩
example : (interpSuggestInt program (envOf ⟨[("n", .flt 4)], [], []⟩ (.int 1)) St.empty "n" 1 10 3 false).map (fun o => o.res) =
    some (.ok (.int 4)) := by decide +kernel

/-- **gen_suggest_int_in_domain** — … and that `int` is a member of the `IntDistribution` declared: in `[low, high']`, on
the step grid. -/
theorem gen_suggest_int_in_domain (cx : Ctx) (st : St) (name : String) (low high step : Int) (log : Bool)
    (indep v : Tok) (o : AOut) (hnew : st.dists.get? name = none)
    (h : interpSuggestInt program (envOf cx indep) st name low high step log = some o) (hok : o.res = .ok v)
    (hfixed : ∀ d fv, mkInt .int low high log step = .ok d → cx.fixed.get? name = some fv → Member d fv)
    (hindep : ∀ d, mkInt .int low high log step = .ok d → Member d indep) :
    ∃ d i, mkInt .int low high log step = .ok d ∧ v = .int i ∧ Member d (.int i) := by
  rw [interp_suggestInt] at h
  have := Option.some.inj h
  subst this
  unfold suggestIntH at hok
  cases hm : mkInt .int low high log step with
  | error e => simp [hm] at hok
  | ok d =>
    simp only [hm] at hok
    unfold afterSuggest at hok
    cases hres : (suggestFull (envOf cx indep) st name d).res with
    | error e => simp [hres] at hok
    | ok vb =>
      obtain ⟨v0, br⟩ := vb
      simp only [hres] at hok
      have hwf := mkInt_wf .int _ _ _ _ _ (by simp [IClsOK]) hm
      have hmem := suggestFull_member cx st name d indep v0 br hnew hwf hres (hfixed d · hm) (hindep d hm)
      have hd : ∃ high', d = .int .int low high' log step := by
        unfold mkInt at hm
        split at hm <;> try (simp at hm)
        split at hm <;> try (simp at hm)
        split at hm <;> try (simp at hm)
        split at hm <;> try (simp at hm)
        exact ⟨_, hm.symm⟩
      obtain ⟨high', hd⟩ := hd
      subst hd
      obtain ⟨i, hi, hmi⟩ := int_of_member .int low high' log step hwf.2.2.1 v0 hmem
      rw [hi] at hok
      simp at hok
      exact ⟨_, i, rfl, hok.symm, hmi⟩

example : mkInt .int 1 10 false 3 = .ok (.int .int 1 10 false 3) ∧ mkInt .int 1 9 false 3 = .ok (.int .int 1 7 false 3) := by
  decide +kernel

/-- **gen_suggest_categorical_in_choices** — what `suggest_categorical(name, choices)` returns for a new name is one of the
choices (up to Python `==`), provided the fixed value (if any) and the sampler's answer are. -/
theorem gen_suggest_categorical_in_choices (cx : Ctx) (st : St) (name : String) (choices : List Tok)
    (indep v : Tok) (o : AOut) (hnew : st.dists.get? name = none)
    (h : interpSuggestCategorical program (envOf cx indep) st name choices = some o) (hok : o.res = .ok v)
    (hfixed : ∀ fv, cx.fixed.get? name = some fv → Member (.cat choices) fv) (hindep : Member (.cat choices) indep) :
    Member (.cat choices) v := by
  rw [interp_suggestCategorical] at h
  have := Option.some.inj h
  subst this
  unfold suggestCategoricalH at hok
  cases hm : mkCat choices with
  | error e => simp [hm] at hok
  | ok d =>
    simp only [hm] at hok
    unfold afterSuggest at hok
    have hd : d = .cat choices := by
      unfold mkCat at hm
      split at hm
      · simp at hm
      · simp at hm; exact hm.symm
    subst hd
    cases hres : (suggestFull (envOf cx indep) st name (.cat choices)).res with
    | error e => simp [hres] at hok
    | ok vb =>
      obtain ⟨v0, br⟩ := vb
      simp [hres] at hok
      subst hok
      exact suggestFull_member cx st name _ indep v0 br hnew (mkCat_wf _ _ hm) hres hfixed hindep
example : (interpSuggestCategorical program (envOf ⟨[("c", .none)], [], []⟩ (.str "a")) St.empty "c" [.str "a", .none]).map (fun o => (o.res, o.st.stored)) =
    some (.ok .none, [("c", (1, .cat [.str "a", .none]))]) := by decide

/-- **gen_given_value_returned** — `FixedTrial._suggest` / `FrozenTrial._suggest` as written today return the value given at
construction for the name (never anything else); without a warning that value is a member of the distribution asked for; a
`FixedTrial` shows it in `params`. -/
theorem gen_given_value_returned (E : SEnv) (st : St) (name : String) (d : Dist) (record : Bool) (o : AOut) (v : Tok)
    (h : interpGivenSuggest program E (if record then program.fixedSuggest else program.frozenSuggest) st name d = some o)
    (hok : o.res = .ok v) :
    E.cx.fixed.get? name = some v ∧ (o.warns = [] → Member d v) ∧ (record = true → o.st.params.get? name = some v) ∧
      o.st.dists.get? name = some d := by
  have h' : interpGivenSuggest program E (if record then program.fixedSuggest else program.frozenSuggest) st name d =
      some (givenSuggestH record E st name d) := by
    cases record
    · exact interp_frozenSuggest E st name d
    · exact interp_fixedSuggest E st name d
  rw [h'] at h
  have := Option.some.inj h
  subst this
  unfold givenSuggestH at hok ⊢
  cases hf : E.cx.fixed.get? name with
  | none => simp [hf] at hok
  | some fv =>
    simp only [hf] at hok ⊢
    cases hq : d.toInternal fv with
    | error e => simp [hq] at hok
    | ok q =>
      simp only [hq] at hok ⊢
      cases hd : st.dists.get? name with
      | none =>
        simp [hd] at hok ⊢
        subst hok
        refine ⟨rfl, fun hc => ⟨q, hq, hc⟩, ?_, AList.get?_set_same _ _ _⟩
        intro hr; subst hr; simp [AList.get?_set_same]
      | some dOld =>
        cases hcp : compat dOld d with
        | false => simp [hd, hcp] at hok
        | true =>
          simp [hd, hcp] at hok ⊢
          subst hok
          refine ⟨rfl, fun hc => ⟨q, hq, hc⟩, ?_, AList.get?_set_same _ _ _⟩
          intro hr; subst hr; simp [AList.get?_set_same]

example : (interpGivenSuggest program ⟨⟨[("x", .flt 5)], [], []⟩, Dist.single, fun _ _ => .none, false⟩ program.fixedSuggest St.empty "x"
    (.flt .float 0 1 false none)).map (fun o => (o.res, o.warns)) = some (.ok (.flt 5), [.outOfRange]) := by decide

end OptunaVerif.C10SuggestGen
