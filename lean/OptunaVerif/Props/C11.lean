import OptunaVerif.Lemmas.Dist
/-!
# C11 — distributions and parameter values round-trip through every encoding

All statements are over unbounded `Int` / exact rationals `Rat`.  The integer high adjustment,
`IntDistribution.single` and `IntDistribution._contains` are the definitions *generated* from
`optuna/distributions.py` (`Generated/DistInt.lean`, translator `verif/translators/tint.py`).
What ℚ cannot say (IEEE rounding, `Decimal(str(float))`) enters as explicit hypotheses.
-/
namespace OptunaVerif.C11
open OptunaVerif OptunaVerif.Dist OptunaVerif.Generated

/-! ## 1. high adjustment -/

/-- **adjust_int_spec** — for `step > 0` and `low ≤ high` the adjusted `high'` of
`_adjust_int_uniform_high` (generated definition) satisfies `low ≤ high' ≤ high`,
`(high' - low) % step = 0`, loses less than one step, is the *largest* such grid point, and
adjusting again changes nothing. -/
theorem adjust_int_spec (low high step : Int) (hs : 0 < step) (hl : low ≤ high) :
    low ≤ DistInt.adjustIntUniformHigh low high step ∧
    DistInt.adjustIntUniformHigh low high step ≤ high ∧
    (DistInt.adjustIntUniformHigh low high step - low) % step = 0 ∧
    high - DistInt.adjustIntUniformHigh low high step < step ∧
    (∀ m, low ≤ m → m ≤ high → (m - low) % step = 0 → m ≤ DistInt.adjustIntUniformHigh low high step) ∧
    DistInt.adjustIntUniformHigh low (DistInt.adjustIntUniformHigh low high step) step
      = DistInt.adjustIntUniformHigh low high step := by
  have hr : 0 ≤ high - low := by omega
  have hdm := Int.mul_ediv_add_emod (high - low) step
  have hm0 := Int.emod_nonneg (high - low) (ne_of_gt hs)
  have hm1 := Int.emod_lt_of_pos (high - low) hs
  have hq : 0 ≤ (high - low) / step := Int.ediv_nonneg hr (le_of_lt hs)
  have hqs : 0 ≤ (high - low) / step * step := Int.mul_nonneg hq (le_of_lt hs)
  have hcomm : (high - low) / step * step = step * ((high - low) / step) := Int.mul_comm _ _
  rw [adjustInt_eq' low high step hs, adjustInt_eq' low _ step hs]
  by_cases h0 : (high - low) % step = 0
  · rw [if_pos h0, if_pos h0]
    exact ⟨hl, le_refl _, h0, by omega, fun m _ hm _ => hm, rfl⟩
  · rw [if_neg h0]
    have hgrid : ((high - low) / step * step + low - low) % step = 0 := by
      have : (high - low) / step * step + low - low = (high - low) / step * step := by omega
      rw [this]; exact Int.mul_emod_left _ _
    rw [if_pos hgrid]
    refine ⟨by omega, by omega, hgrid, by omega, ?_, rfl⟩
    intro m hm1' hm2 hm3
    obtain ⟨k, hk⟩ := Int.dvd_of_emod_eq_zero hm3
    have hk' : k * step ≤ high - low := by rw [Int.mul_comm, ← hk]; omega
    have : k ≤ (high - low) / step := Int.le_ediv_of_mul_le hs hk'
    have : step * k ≤ step * ((high - low) / step) := Int.mul_le_mul_of_nonneg_left this (le_of_lt hs)
    omega

example : DistInt.adjustIntUniformHigh (-3) 10 4 = 9 := by decide
example : DistInt.adjustIntUniformHigh 1 10 3 = 10 := by decide

/-- **adjust_discrete_spec** — the same facts for `_adjust_discrete_uniform_high` on exact decimals
(`Decimal` arithmetic is exact rational arithmetic as long as 28 digits suffice). "On the grid" is
`∃ k : ℤ, high' - low = k·step`. -/
theorem adjust_discrete_spec (low high step : Rat) (hs : 0 < step) (hl : low ≤ high) :
    low ≤ adjustDiscreteHigh low high step ∧ adjustDiscreteHigh low high step ≤ high ∧
    (∃ k : Int, 0 ≤ k ∧ adjustDiscreteHigh low high step - low = (k : Rat) * step) ∧
    high - adjustDiscreteHigh low high step < step ∧
    (∀ m (k : Int), m ≤ high → m - low = (k : Rat) * step → m ≤ adjustDiscreteHigh low high step) ∧
    adjustDiscreteHigh low (adjustDiscreteHigh low high step) step = adjustDiscreteHigh low high step := by
  have hne : step ≠ 0 := ne_of_gt hs
  have hr : 0 ≤ high - low := by linarith
  have hm0 := ratMod_nonneg (a := high - low) hs
  have hm1 := ratMod_lt (a := high - low) hs
  have hfl : (0 : Int) ≤ ((high - low) / step).floor :=
    Rat.le_floor_iff.mpr (by simpa using div_nonneg hr (le_of_lt hs))
  have hflq : (0 : Rat) ≤ (((high - low) / step).floor : Rat) := by exact_mod_cast hfl
  have hv : adjustDiscreteHigh low high step =
      if ratMod (high - low) step = 0 then high else (((high - low) / step).floor : Rat) * step + low := by
    unfold adjustDiscreteHigh
    by_cases h0 : ratMod (high - low) step = 0 <;> simp [h0]
  have hfix : ∀ X : Rat, ratMod (X - low) step = 0 → adjustDiscreteHigh low X step = X := by
    intro X hX
    unfold adjustDiscreteHigh
    simp [hX]
  by_cases h0 : ratMod (high - low) step = 0
  · rw [hv, if_pos h0]
    obtain ⟨k, hk⟩ := (ratMod_eq_zero_iff hne).mp h0
    have hk0 : 0 ≤ k := by
      by_contra hc
      have hk1 : k ≤ -1 := by omega
      have : (k : Rat) ≤ -1 := by exact_mod_cast hk1
      nlinarith
    exact ⟨hl, le_refl _, ⟨k, hk0, hk⟩, by linarith, fun m _ hm _ => hm, hfix _ h0⟩
  · rw [hv, if_neg h0]
    have hdef : (((high - low) / step).floor : Rat) * step = (high - low) - ratMod (high - low) step := by
      unfold ratMod; ring
    have hgrid : ratMod ((((high - low) / step).floor : Rat) * step + low - low) step = 0 :=
      (ratMod_eq_zero_iff hne).mpr ⟨_, by ring⟩
    refine ⟨by nlinarith, by linarith, ⟨_, hfl, by ring⟩, by linarith, ?_, hfix _ hgrid⟩
    intro m k hm hmk
    have h1 : (k : Rat) * step ≤ high - low := by linarith
    have h2 : (k : Rat) ≤ (high - low) / step := by rw [le_div_iff₀ hs]; exact h1
    have h3 : k ≤ ((high - low) / step).floor := Rat.le_floor_iff.mpr h2
    have h4 : (k : Rat) ≤ (((high - low) / step).floor : Rat) := by exact_mod_cast h3
    have h5 : (k : Rat) * step ≤ (((high - low) / step).floor : Rat) * step :=
      mul_le_mul_of_nonneg_right h4 (le_of_lt hs)
    linarith

example : adjustDiscreteHigh (1/10) 1 (3/10) = 1 := by
  norm_num [adjustDiscreteHigh, ratMod, floor_eq]
example : adjustDiscreteHigh (1/10) 1 (4/10) = 9/10 := by
  norm_num [adjustDiscreteHigh, ratMod, floor_eq]

/-- The float bridge made explicit: `dec` is `Decimal(str(·))`, `fl` is `float(·)`.  If the adjusted
decimal survives the trip through a float (`repr_roundtrip`: true for decimals of ≤ 15 significant
digits), re-adjusting the stored float high is the identity — this is what makes the JSON round trip
of a stepped float exact; beyond 15 digits the hypothesis fails and so can the round trip. -/
theorem adjust_discrete_float_idempotent (dec fl : Rat → Rat) (low high step : Rat)
    (hs : 0 < step) (hl : low ≤ high)
    (repr_roundtrip : dec (fl (adjustDiscreteHigh low high step)) = adjustDiscreteHigh low high step) :
    adjustDiscreteHigh low (dec (fl (adjustDiscreteHigh low high step))) step
      = dec (fl (adjustDiscreteHigh low high step)) := by
  rw [repr_roundtrip]
  exact (adjust_discrete_spec low high step hs hl).2.2.2.2.2

/-! ## 2. the JSON encoding -/

/-- **json_roundtrip** — for every distribution a constructor can produce (all eight classes, the
deprecated ones included) `json_to_distribution(distribution_to_json(d)) = d`; the parse re-runs
`__init__`, so this rests on the high adjustment being idempotent on grid-aligned ranges. -/
theorem json_roundtrip (d : Dist) (h : WF d) : parse (print d) = .ok d := by
  cases d with
  | flt c low high log step =>
    have hm := mkFlt_of_wf c low high log step h
    obtain ⟨_, hlog, hstep, hc⟩ := h
    cases c with
    | float =>
      cases step <;>
        simp [parse, print, jget, Dist.clsName, FCls.name, fromAttrs, Dist.asdict, keysWithin, asNum, asBoolD,
          asOptNum, optStep, Tok.num?, bind, Except.bind, hm]
    | uniform =>
      obtain ⟨h1, h2⟩ := hc; subst h1; subst h2
      simp [parse, print, jget, Dist.clsName, FCls.name, fromAttrs, Dist.asdict, keysWithin, asNum,
        Tok.num?, bind, Except.bind, mkUniform, hm]
    | logUniform =>
      obtain ⟨h1, h2⟩ := hc; subst h1; subst h2
      simp [parse, print, jget, Dist.clsName, FCls.name, fromAttrs, Dist.asdict, keysWithin, asNum,
        Tok.num?, bind, Except.bind, mkLogUniform, hm]
    | discreteUniform =>
      obtain ⟨h1, h2⟩ := hc; subst h1
      cases step with
      | none => exact absurd rfl h2
      | some s =>
        simp [parse, print, jget, Dist.clsName, FCls.name, fromAttrs, Dist.asdict, keysWithin, asNum, optStep,
          Tok.num?, bind, Except.bind, mkDiscreteUniform, hm]
  | int c low high log step =>
    have hm := mkInt_of_wf c low high log step h
    obtain ⟨_, _, _, _, hc⟩ := h
    cases c with
    | int =>
      simp [parse, print, jget, Dist.clsName, ICls.name, fromAttrs, Dist.asdict, keysWithin, asInt, asIntD, asBoolD,
        Tok.num?, bind, Except.bind, truncI_intCast, hm]
    | intUniform =>
      simp only [IClsOK] at hc; subst hc
      simp [parse, print, jget, Dist.clsName, ICls.name, fromAttrs, Dist.asdict, keysWithin, asInt, asIntD,
        Tok.num?, bind, Except.bind, truncI_intCast, mkIntUniform, hm]
    | intLogUniform =>
      simp only [IClsOK] at hc; subst hc
      simp [parse, print, jget, Dist.clsName, ICls.name, fromAttrs, Dist.asdict, keysWithin, asInt, asIntD,
        Tok.num?, bind, Except.bind, truncI_intCast, mkIntLogUniform, hm]
  | cat cs =>
    simp [parse, print, jget, Dist.clsName, fromAttrs, Dist.asdict, keysWithin, mkCat_of_wf cs h]

theorem fromAttrs_wf (name : String) (o : JObj) (d : Dist) (h : fromAttrs name o = .ok d) : WF d := by
  unfold fromAttrs at h
  repeat' split at h
  all_goals try (simp at h; done)
  all_goals
    repeat (obtain ⟨_, _, h⟩ := bind_ok _ _ _ h)
  · refine mkFlt_wf _ _ _ _ _ _ ?_ h; simp [FClsOK]
  · refine mkFlt_wf _ _ _ _ _ _ ?_ h; simp [FClsOK]
  · refine mkFlt_wf _ _ _ _ _ _ ?_ h; simp [FClsOK]
  · refine mkFlt_wf _ _ _ _ _ _ ?_ h; simp [FClsOK]
  · refine mkInt_wf _ _ _ _ _ _ ?_ h; simp [IClsOK]
  · refine mkInt_wf _ _ _ _ _ _ ?_ h; simp [IClsOK]
  · refine mkInt_wf _ _ _ _ _ _ ?_ h; simp [IClsOK]
  · exact mkCat_wf _ _ h

theorem fromAbbrev_wf (ty : String) (doc : JDoc) (d : Dist) (h : fromAbbrev ty doc = .ok d) : WF d := by
  unfold fromAbbrev at h
  simp only at h
  repeat' split at h
  all_goals try (simp at h; done)
  all_goals
    repeat (obtain ⟨_, _, h⟩ := bind_ok _ _ _ h)
  all_goals
    first
    | exact mkCat_wf _ _ h
    | (refine mkFlt_wf _ _ _ _ _ _ ?_ h; simp [FClsOK])
    | (refine mkInt_wf _ _ _ _ _ _ ?_ h; simp [IClsOK])

/-- Whatever `json_to_distribution` accepts (full or abbreviated form, any attribute values) is a
well-formed distribution: the parse goes through `__init__`. -/
theorem parse_wf (doc : JDoc) (d : Dist) (h : parse doc = .ok d) : WF d := by
  unfold parse at h
  repeat' split at h
  all_goals try (simp at h; done)
  · exact fromAttrs_wf _ _ _ h
  · exact fromAbbrev_wf _ _ _ h

/-- **print_parse_idempotent** — parsing is idempotent: after one parse, printing and parsing again
returns the same distribution (for *every* accepted document, also hand-written abbreviated ones
whose `high` is not on the grid). -/
theorem print_parse_idempotent (doc : JDoc) (d : Dist) (h : parse doc = .ok d) :
    parse (print d) = .ok d :=
  json_roundtrip d (parse_wf doc d h)

/-- The abbreviated `{"type": ...}` form of a base-class distribution parses to that distribution. -/
theorem abbrev_parse (d : Dist) (h : WF d) (hbase : convertOld d = d) : parse (abbrevDoc d) = .ok d := by
  cases d with
  | flt c low high log step =>
    have hm := mkFlt_of_wf c low high log step h
    simp only [convertOld, Dist.flt.injEq, and_true] at hbase
    subst hbase
    cases step <;>
      simp [parse, abbrevDoc, jget, fromAbbrev, asNum, asBoolD, asOptNum, optStep, Tok.num?, bind, Except.bind, hm]
  | int c low high log step =>
    have hm := mkInt_of_wf c low high log step h
    simp only [convertOld, Dist.int.injEq, and_true] at hbase
    subst hbase
    simp [parse, abbrevDoc, jget, fromAbbrev, asInt, asBoolD, Tok.num?, bind, Except.bind, truncI_intCast, hm,
      ]
  | cat cs =>
    simp [parse, abbrevDoc, jget, fromAbbrev, mkCat_of_wf cs h]

-- non-vacuity: a stepped float whose `high` is off the grid is adjusted by the parse, then stable
example : parse [("type", .v (.atom (.str "int"))), ("low", .v (.atom (.int 1))), ("high", .v (.atom (.int 10))),
    ("step", .v (.atom (.int 4)))] = .ok (.int .int 1 9 false 4) := by decide
example : parse (print (.int .intUniform 1 9 false 4)) = .ok (.int .intUniform 1 9 false 4) := by decide
example : WF (.int .intUniform 1 9 false 4) := by simp [WF, IClsOK]
-- a document that loses `step` does NOT give the distribution back (what a faulty parser would do)
example : parse [("name", .v (.atom (.str "IntDistribution"))),
    ("attributes", .obj [("log", .atom (.bool false)), ("low", .atom (.int 1)), ("high", .atom (.int 9))])]
    ≠ .ok (.int .int 1 9 false 4) := by decide

/-! ## 3. internal / external representation -/

/-- a contained internal value of an int distribution is an integer on the grid -/
theorem int_contains_integral (c : ICls) (low high : Int) (log : Bool) (step : Int) (q : Rat)
    (hs : 0 < step) (hc : (Dist.int c low high log step).contains q = true) :
    ∃ i : Int, q = (i : Rat) ∧ low ≤ i ∧ i ≤ high ∧ (i - low) % step = 0 := by
  simp only [Dist.contains, Bool.and_eq_true, decide_eq_true_eq] at hc
  obtain ⟨⟨h1, h2⟩, h3⟩ := hc
  have hne : (step : Rat) ≠ 0 := by exact_mod_cast (ne_of_gt hs)
  obtain ⟨k, hk⟩ := (ratMod_eq_zero_iff hne).mp h3
  refine ⟨low + k * step, by push_cast; linarith, ?_, ?_, ?_⟩
  · have : (low : Rat) ≤ ((low + k * step : Int) : Rat) := by push_cast; linarith
    exact_mod_cast this
  · have : ((low + k * step : Int) : Rat) ≤ (high : Rat) := by push_cast; linarith
    exact_mod_cast this
  · have : low + k * step - low = k * step := by omega
    rw [this]; exact Int.mul_emod_left _ _

/-- **internal_external_roundtrip** (numeric distributions) — a contained internal value survives
`to_external_repr` then `to_internal_repr` unchanged. -/
theorem internal_external_roundtrip (d : Dist) (q : Rat) (h : WF d) (hnc : ∀ cs, d ≠ .cat cs)
    (hc : d.contains q = true) :
    ∃ t, d.toExternal q = some t ∧ d.toInternal t = .ok q := by
  cases d with
  | flt c low high log step =>
    refine ⟨.flt q, rfl, ?_⟩
    obtain ⟨_, hlog, _, _⟩ := h
    have hlow : low ≤ q := by
      cases step <;> simp only [Dist.contains, Bool.and_eq_true, decide_eq_true_eq] at hc
      · exact hc.1
      · exact hc.1.1
    cases log with
    | false => simp [Dist.toInternal, Tok.num?]
    | true =>
      have := (hlog rfl).1
      have hq : ¬ q ≤ 0 := not_le.mpr (lt_of_lt_of_le this hlow)
      simp [Dist.toInternal, Tok.num?, hq]
  | int c low high log step =>
    obtain ⟨_, hlog, hs, _, _⟩ := h
    obtain ⟨i, hi, h1, _, _⟩ := int_contains_integral c low high log step q hs hc
    subst hi
    refine ⟨.int i, by simp [Dist.toExternal, truncI_intCast], ?_⟩
    cases log with
    | false => simp [Dist.toInternal, Tok.num?]
    | true =>
      have := (hlog rfl).1
      have hq : ¬ ((i : Int) : Rat) ≤ 0 := by
        have : (0 : Int) < i := by omega
        exact not_le.mpr (by exact_mod_cast this)
      simp [Dist.toInternal, Tok.num?, hq]
  | cat cs => exact absurd rfl (hnc cs)

/-- **internal_external_roundtrip** (categorical) — a contained index maps to a choice; converting that
choice back gives the index of the *first* choice equal to it (Python `tuple.index`), whose choice is
equal (`==`/both-NaN) to the original; when no two choices are equal the index itself comes back. -/
theorem internal_external_roundtrip_cat (cs : List Tok) (q : Rat) (hc : (Dist.cat cs).contains q = true) :
    ∃ t, (Dist.cat cs).toExternal q = some t ∧
      ∃ j : Nat, (Dist.cat cs).toInternal t = .ok (j : Rat) ∧ (j : Int) ≤ truncI q ∧
        (∃ t', cs[j]? = some t' ∧ t.catEq t' = true) ∧
        ((∀ (i j : Nat) (a b : Tok), cs[i]? = some a → cs[j]? = some b → a.catEq b = true → i = j) → (j : Int) = truncI q) := by
  simp only [Dist.contains, Bool.and_eq_true, decide_eq_true_eq] at hc
  obtain ⟨h0, h1⟩ := hc
  have hlt : (truncI q).toNat < cs.length := by omega
  have hget : cs[(truncI q).toNat]? = some cs[(truncI q).toNat] := List.getElem?_eq_getElem hlt
  refine ⟨cs[(truncI q).toNat], by simp [Dist.toExternal, h0, hget], ?_⟩
  obtain ⟨j, hj, hle⟩ := firstIdx_of_mem (fun c => (cs[(truncI q).toNat]).catEq c) cs _ _ hget (catEq_refl _)
  obtain ⟨t', ht', hp, _⟩ := firstIdx_some _ cs j hj
  refine ⟨j, by simp [Dist.toInternal, catIndex, hj, Except.map], by omega, ⟨t', ht', hp⟩, ?_⟩
  intro hinj
  have := hinj _ _ _ _ hget ht' hp
  omega

/-- **external_internal_roundtrip** — an external value that `to_internal_repr` accepts and whose
internal form is contained comes back from `to_external_repr` equal (Python `==`, or both NaN) to
what went in — for every class, duplicates-by-equality among categorical choices included. -/
theorem external_internal_roundtrip (d : Dist) (v : Tok) (q : Rat) (h : WF d)
    (hi : d.toInternal v = .ok q) (hc : d.contains q = true) :
    ∃ t, d.toExternal q = some t ∧ v.catEq t = true := by
  cases d with
  | flt c low high log step =>
    refine ⟨.flt q, rfl, ?_⟩
    simp only [Dist.toInternal] at hi
    split at hi
    · rename_i x hx
      split at hi
      · simp at hi
      · simp only [Except.ok.injEq] at hi; subst hi
        have : v.pyEq (.flt x) = true := pyEq_of_num hx rfl
        simp [Tok.catEq, this]
    · simp at hi
  | int c low high log step =>
    obtain ⟨_, _, hs, _, _⟩ := h
    obtain ⟨i, hq, _, _, _⟩ := int_contains_integral c low high log step q hs hc
    subst hq
    refine ⟨.int i, by simp [Dist.toExternal, truncI_intCast], ?_⟩
    simp only [Dist.toInternal] at hi
    split at hi
    · rename_i x hx
      split at hi
      · simp at hi
      · simp only [Except.ok.injEq] at hi; subst hi
        have : v.pyEq (.int i) = true := pyEq_of_num hx rfl
        simp [Tok.catEq, this]
    · simp at hi
  | cat cs =>
    simp only [Dist.toInternal, catIndex] at hi
    split at hi
    · rename_i i hidx
      simp only [Except.map, Except.ok.injEq] at hi
      subst hi
      obtain ⟨t, ht, hp, _⟩ := firstIdx_some _ cs i hidx
      refine ⟨t, ?_, hp⟩
      simp [Dist.toExternal, truncI_natCast, ht]
    · simp [Except.map] at hi

-- `True` and `1` are equal choices: the internal form of `1` is index 0, which reads back as `True == 1`
example : (Dist.cat [.bool true, .int 1]).toInternal (.int 1) = .ok 0 := by decide
example : (Dist.cat [.bool true, .int 1]).toExternal 0 = some (.bool true) := by
  have : truncI 0 = 0 := truncI_intCast 0
  simp [Dist.toExternal, this]
example : (Tok.int 1).catEq (.bool true) = true := by simp [Tok.catEq, Tok.pyEq, Tok.num?]

/-- The rational `_contains` of the model agrees, on integral values, with the definition GENERATED
from `IntDistribution._contains` (so a `%`/comparison slip there breaks this proof). -/
theorem int_contains_generated (c : ICls) (low high : Int) (log : Bool) (step i : Int) (hs : 0 < step) :
    (Dist.int c low high log step).contains (i : Rat) = DistInt.intContains low high step i := by
  have hne : (step : Rat) ≠ 0 := by exact_mod_cast (ne_of_gt hs)
  rw [Bool.eq_iff_iff]
  simp only [Dist.contains, DistInt.intContains, Int.fmod_eq_emod_of_nonneg _ (le_of_lt hs), Bool.and_eq_true,
    decide_eq_true_eq, ratMod_eq_zero_iff hne]
  constructor
  · rintro ⟨⟨h1, h2⟩, k, hk⟩
    refine ⟨⟨by exact_mod_cast h1, by exact_mod_cast h2⟩, ?_⟩
    have : i - low = k * step := by
      have : ((i - low : Int) : Rat) = ((k * step : Int) : Rat) := by push_cast; exact hk
      exact_mod_cast this
    rw [this]; exact Int.mul_emod_left _ _
  · rintro ⟨⟨h1, h2⟩, h3⟩
    refine ⟨⟨by exact_mod_cast h1, by exact_mod_cast h2⟩, ?_⟩
    obtain ⟨k, hk⟩ := Int.dvd_of_emod_eq_zero h3
    refine ⟨k, ?_⟩
    have : ((i - low : Int) : Rat) = ((step * k : Int) : Rat) := by rw [hk]
    push_cast at this; linarith [mul_comm (step : Rat) (k : Rat)]

/-- **single_spec** — `single()` (for ints: the GENERATED definition) is true only when the domain is one
point: every contained internal value is then `low` (index 0 for a categorical), which is the value
`_get_single_value` hands out. -/
theorem single_spec (d : Dist) (q : Rat) (h : WF d) (hsg : d.single = true) (hc : d.contains q = true) :
    match d with
    | .flt _ low _ _ _ => q = low
    | .int _ low _ _ _ => q = (low : Rat)
    | .cat _ => truncI q = 0 := by
  cases d with
  | flt c low high log step =>
    obtain ⟨hl, _, hstep, _⟩ := h
    cases step with
    | none =>
      simp only [Dist.single, beq_iff_eq] at hsg
      simp only [Dist.contains, Bool.and_eq_true, decide_eq_true_eq] at hc
      exact le_antisymm (hsg ▸ hc.2) hc.1
    | some s =>
      obtain ⟨hs, K, hK0, hK⟩ := hstep s rfl
      simp only [Dist.contains, Bool.and_eq_true, decide_eq_true_eq] at hc
      have hhl : high = low := by
        simp only [Dist.single, Bool.or_eq_true, beq_iff_eq, decide_eq_true_eq] at hsg
        rcases hsg with h' | h'
        · exact h'.symm
        · -- high - low = K·s < s with K ≥ 0 forces K = 0
          have hK1 : K < 1 := by
            by_contra hcon
            have : (1 : Rat) ≤ (K : Rat) := by exact_mod_cast (not_lt.mp hcon)
            nlinarith
          have : K = 0 := by omega
          subst this
          simp at hK; linarith
      exact le_antisymm (hhl ▸ hc.1.2) hc.1.1
  | int c low high log step =>
    obtain ⟨hl, _, hs, hg, _⟩ := h
    obtain ⟨i, rfl, h1, h2, h3⟩ := int_contains_integral c low high log step q hs hc
    have hhl : high = low := by
      simp only [Dist.single, DistInt.intSingle] at hsg
      obtain ⟨K, hK⟩ := Int.dvd_of_emod_eq_zero hg
      have hKcase : high = low ∨ high - low < step := by
        cases log <;> simp at hsg
        · rcases hsg with h' | h'
          · left; exact h'.symm
          · right; exact h'
        · left; exact hsg.symm
      rcases hKcase with h' | h'
      · exact h'
      · have hK1 : K < 1 := by
          by_contra hcon
          have : step * 1 ≤ step * K := Int.mul_le_mul_of_nonneg_left (not_lt.mp hcon) (le_of_lt hs)
          omega
        have hK0 : 0 ≤ K := by
          by_contra hcon
          have : step * K < 0 := Int.mul_neg_of_pos_of_neg hs (by omega)
          omega
        have : K = 0 := by omega
        subst this; omega
    have : i = low := by omega
    simp [this]
  | cat cs =>
    simp only [Dist.single, beq_iff_eq] at hsg
    simp only [Dist.contains, hsg, Bool.and_eq_true, decide_eq_true_eq] at hc
    show truncI q = 0
    omega

/-! ## 4. answers are the same before and after a round trip -/

/-- **contains_invariant_under_roundtrip** (also `single`, `to_internal_repr`, `to_external_repr`). -/
theorem contains_invariant_under_roundtrip (d d' : Dist) (h : WF d) (hp : parse (print d) = .ok d') :
    (∀ q, d'.contains q = d.contains q) ∧ d'.single = d.single ∧
    (∀ v, d'.toInternal v = d.toInternal v) ∧ (∀ q, d'.toExternal q = d.toExternal q) := by
  rw [json_roundtrip d h] at hp
  simp only [Except.ok.injEq] at hp
  subst hp
  exact ⟨fun _ => rfl, rfl, fun _ => rfl, fun _ => rfl⟩

/-- **compat_invariant_under_roundtrip** — `check_distribution_compatibility` answers the same on the
stored-and-reloaded distributions as on the originals. -/
theorem compat_invariant_under_roundtrip (o n o' n' : Dist) (ho : WF o) (hn : WF n)
    (hpo : parse (print o) = .ok o') (hpn : parse (print n) = .ok n') :
    compat o' n' = compat o n ∧ o'.pyEq n' = o.pyEq n := by
  rw [json_roundtrip o ho] at hpo
  rw [json_roundtrip n hn] at hpn
  simp only [Except.ok.injEq] at hpo hpn
  subst hpo; subst hpn
  exact ⟨rfl, rfl⟩

/-- a distribution is compatible with (and `==` to) its own reloaded copy -/
theorem compat_with_reloaded (d d' : Dist) (h : WF d) (hp : parse (print d) = .ok d') :
    compat d d' = true ∧ d.pyEq d' = true := by
  rw [json_roundtrip d h] at hp
  simp only [Except.ok.injEq] at hp
  subst hp
  cases d with
  | flt c low high log step => simp [compat, Dist.sameClass, Dist.log?, Dist.pyEq]
  | int c low high log step => simp [compat, Dist.sameClass, Dist.log?, Dist.pyEq]
  | cat cs => simp [compat, Dist.sameClass, Dist.log?, Dist.pyEq, listCatEq_refl]

/-- The deprecated classes map to the base classes without changing any answer, and the result is
again well-formed (so it round-trips through JSON as well). -/
theorem convertOld_preserves (d : Dist) (h : WF d) :
    WF (convertOld d) ∧ (∀ q, (convertOld d).contains q = d.contains q) ∧ (convertOld d).single = d.single ∧
    (∀ v, (convertOld d).toInternal v = d.toInternal v) ∧ (∀ q, (convertOld d).toExternal q = d.toExternal q) ∧
    parse (print (convertOld d)) = .ok (convertOld d) := by
  have hw : WF (convertOld d) := by
    cases d with
    | flt c low high log step => obtain ⟨a, b, c', _⟩ := h; exact ⟨a, b, c', trivial⟩
    | int c low high log step => obtain ⟨a, b, c', e, _⟩ := h; exact ⟨a, b, c', e, trivial⟩
    | cat cs => exact h
  refine ⟨hw, ?_, ?_, ?_, ?_, json_roundtrip _ hw⟩
  · intro q; cases d with
    | flt c low high log step => cases step <;> rfl
    | int c low high log step => rfl
    | cat cs => rfl
  · cases d with
    | flt c low high log step => cases step <;> rfl
    | int c low high log step => rfl
    | cat cs => rfl
  · intro v; cases d <;> rfl
  · intro q; cases d <;> rfl

/-! ## 5. the search-space transform -/

/-- `EnvOK` is satisfiable: the identity pair (this is also what `transform_log=False` amounts to). -/
example : EnvOK ⟨id, id, fun h => h - 1⟩ := ⟨fun _ _ h => h, fun _ _ => rfl, fun _ _ _ h => h⟩

/-- **untransform_transform_id** — for every search space (any mix of the eight classes, any length),
every configuration of canonical contained values (plain floats not above the half-open clamp) and
every transform configuration (log / half-step widening / 0-1 scaling on or off): `transform` succeeds,
its columns lie within the declared `bounds`, and `untransform` returns exactly the configuration. -/
theorem untransform_transform_id (E : Env) (c : TCfg) (hE : EnvOK E) (space : List Dist) (params : List Tok)
    (hwf : ∀ d ∈ space, WF d) (hv : List.Forall₂ (Canon E) space params) :
    ∃ xs, transform E c space params = .ok xs ∧ List.Forall₂ InB (bounds E c space) xs ∧
      untransform E c space xs = some params := by
  rw [bounds_eq_flatMap]
  induction hv with
  | nil => exact ⟨[], rfl, List.Forall₂.nil, rfl⟩
  | @cons d v ds vs hdv _ ih =>
    obtain ⟨cols, htc, hbc, huc⟩ := tcols_spec E c d v hE (hwf d (by simp)) hdv
    obtain ⟨xs, htr, hbx, hux⟩ := ih (fun d' hd' => hwf d' (by simp [hd']))
    have hlen : cols.length = d.width := by rw [← hbc.length_eq, declB_length]
    refine ⟨cols ++ xs, by simp [transform, htc, htr, bind, Except.bind, pure, Except.pure], ?_, ?_⟩
    · rw [List.flatMap_cons]; exact List.rel_append hbc hbx
    · have h1 : ¬ (cols ++ xs).length < d.width := by simp [hlen]
      have h2 : (cols ++ xs).take d.width = cols := by rw [← hlen]; simp
      have h3 : (cols ++ xs).drop d.width = xs := by rw [← hlen]; simp
      rw [untransform_cons, if_neg h1, h2, h3, huc, hux]; rfl

/-- **untransform_in_domain** — every point of the transformed box (`bounds`, i.e. the unit cube under
0-1 scaling) maps back to a configuration whose every value is a member of its declared domain:
inside `[low, high]`, on the step grid, an integer for int distributions, one of the choices.  Needs
the clamp to stay in the domain (`HC`) and excludes `transform_log=False ∧ transform_step=True`. -/
theorem untransform_in_domain (E : Env) (c : TCfg) (hE : EnvOK E) (space : List Dist) (xs : List Rat)
    (hwf : ∀ d ∈ space, WF d) (hhc : ∀ d ∈ space, HC E d) (hcfg : c.tlog = true ∨ c.tstep = false)
    (hb : List.Forall₂ InB (bounds E c space) xs) :
    ∃ params, untransform E c space xs = some params ∧ List.Forall₂ Member space params := by
  rw [bounds_eq_flatMap] at hb
  induction space generalizing xs with
  | nil =>
    cases hb
    exact ⟨[], rfl, List.Forall₂.nil⟩
  | cons d ds ih =>
    rw [List.flatMap_cons] at hb
    have hlen := hb.length_eq
    have hw : (declB E c d).length = d.width := declB_length E c d
    have h1 : ¬ xs.length < d.width := by rw [← hlen]; simp [hw]
    have hb1 : List.Forall₂ InB (declB E c d) (xs.take d.width) := by
      have := List.forall₂_take d.width hb
      rwa [List.take_left' hw] at this
    have hb2 : List.Forall₂ InB (ds.flatMap (declB E c)) (xs.drop d.width) := by
      have := List.forall₂_drop d.width hb
      rwa [List.drop_left' hw] at this
    obtain ⟨v, hv, hm⟩ := ucols_in_domain E c d _ hE (hwf d (by simp)) (hhc d (by simp)) hcfg hb1
    obtain ⟨ps, hps, hms⟩ := ih _ (fun d' hd' => hwf d' (by simp [hd'])) (fun d' hd' => hhc d' (by simp [hd'])) hb2
    refine ⟨v :: ps, ?_, List.Forall₂.cons hm hms⟩
    rw [untransform_cons, if_neg h1, hv, hps]; rfl

/-- The excluded configuration really is out of contract: with `transform_log=False` and
`transform_step=True` the log-int `IntDistribution(1, 4, log=True)` has the raw bounds `[1/2, 9/2]`,
and the box point `3/5` untransforms to `int(0.6) = 0`, which is not in the domain.  (No caller in
optuna uses this configuration; the harness replays the witness on the real code as evidence.) -/
theorem untransform_out_of_domain_witness :
    let E : Env := ⟨id, id, fun h => h - 1⟩
    let c : TCfg := ⟨false, true, false⟩
    let d : Dist := .int .int 1 4 true 1
    WF d ∧ bounds E c [d] = [(1/2, 9/2)] ∧ untransform E c [d] [3/5] = some [.int 0] ∧
      d.contains 0 = false := by
  refine ⟨by simp [WF, IClsOK], ?_, ?_, ?_⟩
  · simp [bounds, boundsOf, tnum, Dist.isLog]; norm_num
  · have : truncI (3/5 : Rat) = 0 := by
      simp only [truncI]; norm_num [floor_eq]
    simp [untransform, Dist.width, ucols, decode, this, bind, Option.bind, pure]
  · simp [Dist.contains]

/-- The SECOND excluded configuration (`transform_log=False ∧ transform_step=True`, now with `transform_0_1=True`) is out of contract
as well: the box is the unit interval, the raw bounds of the log-int `IntDistribution(1, 4, log=True)` are `[1/2, 9/2]`, and the box
point `1/40` un-scales to `1/2 + 1/40 · 4 = 3/5`, which untransforms to `int(0.6) = 0`, not in the domain.  So the hypothesis
`c.tlog = true ∨ c.tstep = false` of `untransform_in_domain` excludes exactly the two configurations on which the statement is false. -/
theorem untransform_out_of_domain_witness_01 :
    let E : Env := ⟨id, id, fun h => h - 1⟩
    let c : TCfg := ⟨false, true, true⟩
    let d : Dist := .int .int 1 4 true 1
    WF d ∧ bounds E c [d] = [(0, 1)] ∧ untransform E c [d] [1/40] = some [.int 0] ∧
      d.contains 0 = false := by
  refine ⟨by simp [WF, IClsOK], ?_, ?_, ?_⟩
  · simp [bounds, boundsOf, tnum, Dist.isLog]
  · have h1 : (1/2 : Rat) + 1/40 * (9/2 - 1/2) = 3/5 := by norm_num
    have : truncI (3/5 : Rat) = 0 := by
      simp only [truncI]; norm_num [floor_eq]
    simp [untransform, Dist.width, ucols, decode, boundsOf, tnum, Dist.isLog, unscale01, List.zipWith, bind, Option.bind, pure]
    first
      | exact this
      | (rw [h1]; exact this)
      | (norm_num; exact this)
      | (have h2 : (2⁻¹ : Rat) + 40⁻¹ * (9 / 2 - 2⁻¹) = 3/5 := by norm_num
         rw [h2]; exact this)
  · simp [Dist.contains]

/-! ### the exclusion of `untransform_transform_id`, named (known finding F10a) -/

/-- a canonical contained external value — `Canon` without its clamp clause -/
def Contained : Dist → Tok → Prop
  | .flt _ low high _ Option.none, v => ∃ q, v = .flt q ∧ low ≤ q ∧ q ≤ high
  | .flt _ low high _ (some s), v => ∃ k : Int, v = .flt ((k : Rat) * s + low) ∧ 0 ≤ k ∧ (k : Rat) * s + low ≤ high
  | .int _ low high _ step, v => ∃ i : Int, v = .int i ∧ low ≤ i ∧ i ≤ high ∧ (i - low) % step = 0
  | .cat cs, v => ∃ i, cs[i]? = some v ∧ firstIdx (fun c => v.catEq c) cs = some i

/-- **NotAtOpenHigh** — the one exclusion of `untransform_transform_id`: for a float distribution WITHOUT step whose range is not a
single point, the value is not above the half-open clamp `below high` (= `nextafter(high, high - 1)`); in particular it is not `high`
itself.  Every other class is unrestricted.  (Known finding F10a: at `high` the round trip returns `below high`.) -/
def NotAtOpenHigh (E : Env) : Dist → Tok → Prop
  | .flt _ low high _ Option.none, v => low < high → ∀ q, v = .flt q → q ≤ E.below high
  | _, _ => True

theorem canon_iff (E : Env) (d : Dist) (v : Tok) : Canon E d v ↔ Contained d v ∧ NotAtOpenHigh E d v := by
  cases d with
  | flt c low high log step =>
    cases step with
    | none =>
      simp only [Canon, Contained, NotAtOpenHigh]
      constructor
      · rintro ⟨q, rfl, h1, h2, h3⟩
        exact ⟨⟨q, rfl, h1, h2⟩, fun hl q' hq => by cases hq; exact h3 hl⟩
      · rintro ⟨⟨q, rfl, h1, h2⟩, hn⟩
        exact ⟨q, rfl, h1, h2, fun hl => hn hl q rfl⟩
    | some s => simp [Canon, Contained, NotAtOpenHigh]
  | int c low high log step => simp [Canon, Contained, NotAtOpenHigh]
  | cat cs => simp [Canon, Contained, NotAtOpenHigh]

theorem forall2_canon (E : Env) {space : List Dist} {params : List Tok}
    (h1 : List.Forall₂ Contained space params) (h2 : List.Forall₂ (NotAtOpenHigh E) space params) :
    List.Forall₂ (Canon E) space params := by
  induction h1 with
  | nil => exact List.Forall₂.nil
  | cons h t ih =>
    cases h2 with
    | cons h' t' => exact List.Forall₂.cons ((canon_iff E _ _).2 ⟨h, h'⟩) (ih t')

/-- **untransform_transform_id_named** — `untransform_transform_id` with its exclusion spelled out: for canonical CONTAINED values that
are `NotAtOpenHigh`, transform-then-untransform is the identity (every search space, every configuration) -/
theorem untransform_transform_id_named (E : Env) (c : TCfg) (hE : EnvOK E) (space : List Dist) (params : List Tok)
    (hwf : ∀ d ∈ space, WF d) (hv : List.Forall₂ Contained space params) (hopen : List.Forall₂ (NotAtOpenHigh E) space params) :
    ∃ xs, transform E c space params = .ok xs ∧ List.Forall₂ InB (bounds E c space) xs ∧
      untransform E c space xs = some params :=
  untransform_transform_id E c hE space params hwf (forall2_canon E hv hopen)

/-- **untransform_transform_id_fails_at_high** — the exclusion is needed (F10a): `FloatDistribution(0, 1)` at the value `high = 1`, with
the clamp `below 1 = 7/8`: the value is contained, it is NOT `NotAtOpenHigh`, `transform` gives the column `1`, and `untransform`
returns `7/8 ≠ 1`. -/
theorem untransform_transform_id_fails_at_high :
    let E : Env := ⟨id, id, fun h => h - 1/8⟩
    let c : TCfg := ⟨true, true, false⟩
    let d : Dist := .flt .float 0 1 false Option.none
    WF d ∧ Contained d (.flt 1) ∧ ¬ NotAtOpenHigh E d (.flt 1) ∧
      transform E c [d] [.flt 1] = .ok [1] ∧ untransform E c [d] [1] = some [.flt (7/8)] := by
  refine ⟨?_, ⟨1, rfl, by norm_num, by norm_num⟩, ?_, ?_, ?_⟩
  · refine ⟨by norm_num, by simp, by simp, trivial⟩
  · intro h
    have := h (by norm_num) 1 rfl
    norm_num at this
  · simp [transform, tcols, encode, Tok.num?, tnum, Dist.isLog, bind, Except.bind, pure, Except.pure, Except.map]
  · simp [untransform, Dist.width, ucols, decode, Dist.single, bind, Option.bind, pure]
    norm_num

-- non-vacuity of the two theorems' hypotheses on a mixed space
example : Canon ⟨id, id, fun h => h - 1⟩ (.flt .float 0 1 false (some (1/4))) (.flt ((3 : Int) * (1/4) + 0)) :=
  ⟨3, rfl, by norm_num, by norm_num⟩
example : Canon ⟨id, id, fun h => h - 1/1000⟩ (.flt .float 0 1 false Option.none) (.flt (1/2)) :=
  ⟨1/2, rfl, by norm_num, by norm_num, fun _ => by norm_num⟩
example : Canon ⟨id, id, fun h => h - 1⟩ (.cat [.bool true, .int 1, .nan]) .nan :=
  ⟨2, by simp, by simp [firstIdx, Tok.catEq, Tok.pyEq]⟩

end OptunaVerif.C11
