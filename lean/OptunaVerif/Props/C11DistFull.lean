import OptunaVerif.Props.C11DistGen
import OptunaVerif.Model.Suggest
/-!
# C11 (translator tie, second part) — the bodies of `optuna/distributions.py` that `Props/C11DistGen.lean` only pinned

The three loops (`for choice in choices` of `CategoricalDistribution.__init__`, `for index, choice in enumerate(self.choices)` of
`to_internal_repr`, `for cls in DISTRIBUTION_CLASSES` of `json_to_distribution`) are given their inductions here, the constructor /
method lemmas are restated from an arbitrary caller state, and with them `interp_mkCat`, `call_toInternal_categorical`,
`call_getSingleValue`, `interp_convertOld` and `interp_jsonToDistribution` become equalities with the hand model for all inputs;
the headline of C11 (`gen_json_roundtrip`, `gen_parse_idempotent`, the legacy layout, the external/internal round trip for all
classes) is restated for the interpreter of the code as written today.
-/
set_option linter.unusedSimpArgs false
set_option linter.unusedVariables false
set_option linter.unnecessarySeqFocus false
namespace OptunaVerif.C11DistGen
open OptunaVerif OptunaVerif.Dist OptunaVerif.DistIR
open OptunaVerif.Generated
open OptunaVerif.Generated.DistMethods (program)

/-! ## the method / constructor lemmas again, from an arbitrary caller state (what a calling body sees) -/

macro "g_simp" "[" ts:Lean.Parser.Tactic.simpLemma,* "]" : tactic =>
  `(tactic| d_simp [Program.call2, Program.call1, selfOf, instV, instDict, clsOf, optStepJ, Cls.isSub, List.any, $ts,*])

theorem call1_single (d : Dist) (s : MSt) : program.call1 .single [instV d] s = (s, .ok (boolV d.single)) := by
  cases d with
  | flt c low high log step =>
    cases step with
    | none => g_simp [DistMethods.floatSingle, Dist.single]
    | some st => by_cases h : low = high <;> g_simp [DistMethods.floatSingle, Dist.single, h]
  | int c low high log step =>
    cases log <;> by_cases h : low = high <;> g_simp [DistMethods.intSingle, Dist.single, DistInt.intSingle, h] <;>
      exact_mod_cast Iff.rfl
  | cat cs => g_simp [DistMethods.catSingle, Dist.single]

/-- warnings a float constructor logs: the high adjustment's, when it adjusts -/
def warnsF (c : FCls) (low high : Rat) (log : Bool) (step : Option Rat) : List Warn :=
  match mkFlt c low high log step, step with
  | .ok _, some st => if ratMod (high - low) st ≠ 0 then [.highAdjusted] else []
  | _, _ => []

def warnsI (c : ICls) (low high : Int) (log : Bool) (step : Int) : List Warn :=
  match mkInt c low high log step with
  | .ok _ => if Int.fmod (high - low) step ≠ 0 then [.highAdjusted] else []
  | .error _ => []

def resV : R Dist → Except Exn Val
  | .ok d => .ok (instV d)
  | .error e => .error (.err e)

macro "ginit_simp" "[" ts:Lean.Parser.Tactic.simpLemma,* "]" : tactic =>
  `(tactic| d_simp [Program.initD, Program.runInitBody, Program.superD, Program.initBody, bindKw, initParams,
      Cls.base, ctorArgs, resV, warnsF, warnsI, instV, instDict, clsOf, optStepJ, List.find?, List.any, $ts,*])

theorem initD_float (low high : Rat) (log : Bool) (step : Option Rat) (s : MSt) :
    program.initD (.flt .float) [("low", fltV low), ("high", fltV high), ("log", boolV log), ("step", optFltV step)] s =
      ({ s with warns := s.warns ++ warnsF .float low high log step }, resV (mkFlt .float low high log step)) := by
  cases step with
  | none =>
    cases log with
    | false => by_cases h1 : high < low <;> ginit_simp [DistMethods.floatInit, mkFlt, h1]
    | true =>
      by_cases h1 : high < low
      · ginit_simp [DistMethods.floatInit, mkFlt, h1]
      · by_cases h2 : low ≤ 0 <;> ginit_simp [DistMethods.floatInit, mkFlt, h1, h2]
  | some st =>
    cases log with
    | true => ginit_simp [DistMethods.floatInit, mkFlt]
    | false =>
      by_cases h1 : high < low
      · ginit_simp [DistMethods.floatInit, mkFlt, h1]
      · by_cases h3 : st ≤ 0
        · ginit_simp [DistMethods.floatInit, mkFlt, h1, h3]
        · have hc := call_adjustDiscreteHigh low high st (not_le.mp h3) (not_lt.mp h1)
          by_cases hm : ratMod (high - low) st = 0 <;> ginit_simp [DistMethods.floatInit, mkFlt, h1, h3, hc, hm, Dist.adjustDiscreteHigh]

theorem initD_uniform (low high : Rat) (s : MSt) :
    program.initD (.flt .uniform) [("low", fltV low), ("high", fltV high)] s =
      ({ s with warns := s.warns ++ warnsF .uniform low high false none }, resV (mkUniform low high)) := by
  by_cases h1 : high < low <;> ginit_simp [DistMethods.uniformInit, DistMethods.floatInit, mkUniform, mkFlt, h1]

theorem initD_logUniform (low high : Rat) (s : MSt) :
    program.initD (.flt .logUniform) [("low", fltV low), ("high", fltV high)] s =
      ({ s with warns := s.warns ++ warnsF .logUniform low high true none }, resV (mkLogUniform low high)) := by
  by_cases h1 : high < low
  · ginit_simp [DistMethods.logUniformInit, DistMethods.floatInit, mkLogUniform, mkFlt, h1]
  · by_cases h2 : low ≤ 0 <;> ginit_simp [DistMethods.logUniformInit, DistMethods.floatInit, mkLogUniform, mkFlt, h1, h2]

theorem initD_discreteUniform (low high q : Rat) (s : MSt) :
    program.initD (.flt .discreteUniform) [("low", fltV low), ("high", fltV high), ("q", fltV q)] s =
      ({ s with warns := s.warns ++ warnsF .discreteUniform low high false (some q) }, resV (mkDiscreteUniform low high q)) := by
  by_cases h1 : high < low
  · ginit_simp [DistMethods.discreteUniformInit, DistMethods.floatInit, mkDiscreteUniform, mkFlt, h1]
  · by_cases h3 : q ≤ 0
    · ginit_simp [DistMethods.discreteUniformInit, DistMethods.floatInit, mkDiscreteUniform, mkFlt, h1, h3]
    · have hc := call_adjustDiscreteHigh low high q (not_le.mp h3) (not_lt.mp h1)
      by_cases hm : ratMod (high - low) q = 0 <;>
        ginit_simp [DistMethods.discreteUniformInit, DistMethods.floatInit, mkDiscreteUniform, mkFlt, h1, h3, hc, hm, Dist.adjustDiscreteHigh]

macro "gint_init" "[" ts:Lean.Parser.Tactic.simpLemma,* "]" : tactic =>
  `(tactic| ginit_simp [DistMethods.intInit, DistMethods.intUniformInit, DistMethods.intLogUniformInit, mkInt, mkIntUniform, mkIntLogUniform, iv,
      DistInt.adjustIntUniformHigh, $ts,*])

theorem initD_int (low high : Int) (log : Bool) (step : Int) (s : MSt) :
    program.initD (.int .int) [("low", iv low), ("high", iv high), ("log", boolV log), ("step", iv step)] s =
      ({ s with warns := s.warns ++ warnsI .int low high log step }, resV (mkInt .int low high log step)) := by
  apply mkInt_cases .int low high log step
  intro c1 c2 c3
  have key : ∀ (hs : step ≠ 0), _ := fun hs => call_adjustIntHigh low high step hs
  cases log with
  | false =>
    by_cases h1 : high < low
    · gint_init [c1, c2, c3, h1]
    · by_cases h3 : step ≤ 0
      · gint_init [c1, c2, c3, h1, h3]
      · have hc := key (by omega)
        by_cases hm : Int.fmod (high - low) step = 0 <;> gint_init [c1, c2, c3, h1, h3, hc, hm]
  | true =>
    by_cases h0 : step = 1
    · subst h0
      have o1 : ¬ ((1 : Rat) ≤ 0) := by norm_num
      have o2 : ¬ (((1 : Int) : Rat) ≤ 0) := by norm_num
      by_cases h1 : high < low
      · gint_init [c1, c2, o1, o2, h1]
      · by_cases h2 : low < 1
        · gint_init [c1, c2, o1, o2, h1, h2]
        · have hc := key (by decide)
          by_cases hm : Int.fmod (high - low) 1 = 0 <;> gint_init [c1, c2, o1, o2, h1, h2, hc, hm]
    · gint_init [h0]

theorem initD_intUniform (low high step : Int) (s : MSt) :
    program.initD (.int .intUniform) [("low", iv low), ("high", iv high), ("step", iv step)] s =
      ({ s with warns := s.warns ++ warnsI .intUniform low high false step }, resV (mkIntUniform low high step)) := by
  apply mkInt_cases .intUniform low high false step
  intro c1 c2 c3
  by_cases h1 : high < low
  · gint_init [c1, c2, c3, h1]
  · by_cases h3 : step ≤ 0
    · gint_init [c1, c2, c3, h1, h3]
    · have hc := call_adjustIntHigh low high step (by omega)
      by_cases hm : Int.fmod (high - low) step = 0 <;> gint_init [c1, c2, c3, h1, h3, hc, hm]

theorem initD_intLogUniform (low high step : Int) (s : MSt) :
    program.initD (.int .intLogUniform) [("low", iv low), ("high", iv high), ("step", iv step)] s =
      ({ s with warns := s.warns ++ warnsI .intLogUniform low high true step }, resV (mkIntLogUniform low high step)) := by
  apply mkInt_cases .intLogUniform low high true step
  intro c1 c2 c3
  by_cases h0 : step = 1
  · subst h0
    have o1 : ¬ ((1 : Rat) ≤ 0) := by norm_num
    have o2 : ¬ (((1 : Int) : Rat) ≤ 0) := by norm_num
    by_cases h1 : high < low
    · gint_init [c1, c2, o1, o2, h1]
    · by_cases h2 : low < 1
      · gint_init [c1, c2, o1, o2, h1, h2]
      · have hc := call_adjustIntHigh low high 1 (by decide)
        by_cases hm : Int.fmod (high - low) 1 = 0 <;> gint_init [c1, c2, o1, o2, h1, h2, hc, hm]
  · gint_init [h0]

/-! ## loop 1: `for choice in choices:` of `CategoricalDistribution.__init__` -/

/-- the body of the warning loop, as generated -/
def catLoopBody : Stmt := .ite (.unsupportedChoice (.var "choice")) (.warn .unsupportedChoice) .skip

def catLoopLocals : List Tok → AList Val → AList Val
  | [], l => l
  | t :: rest, l => catLoopLocals rest (l.set "choice" (.tok t))

theorem cat_loop (callD : CallD) (initD : InitD) (superD : SuperD) (cs : List Tok) (s : MSt) :
    forLoop (exec callD initD superD catLoopBody) (cs.map (fun t => [("choice", Val.tok t)])) s =
      ({ s with locals := catLoopLocals cs s.locals }, .next) := by
  induction cs generalizing s with
  | nil => rfl
  | cons t rest ih =>
    have step : exec callD initD superD catLoopBody (bindAll s [("choice", Val.tok t)]) =
        ({ s with locals := s.locals.set "choice" (.tok t) }, .next) := by
      simp [catLoopBody, exec, evalCond, eval, bind1, getLocal, bindAll, setLocal, AList.get?_set_same, truthy, Tok.truthy, boolV]
    simp only [List.map, forLoop, step]
    rw [ih]
    rfl

theorem cat_loop_cons (callD : CallD) (initD : InitD) (superD : SuperD) (a : Tok) (t : List Tok) (s : MSt) :
    forLoop (exec callD initD superD catLoopBody) ([("choice", Val.tok a)] :: t.map (fun t => [("choice", Val.tok t)])) s =
      ({ s with locals := catLoopLocals (a :: t) s.locals }, .next) := cat_loop callD initD superD (a :: t) s

theorem catLoopLocals_other (cs : List Tok) (l : AList Val) (k : String) (hk : k ≠ "choice") :
    (catLoopLocals cs l).get? k = l.get? k := by
  induction cs generalizing l with
  | nil => rfl
  | cons t rest ih => rw [catLoopLocals, ih, AList.get?_set_other _ _ _ _ hk]

theorem initD_cat (cs : List Tok) (s : MSt) :
    program.initD .cat [("choices", .tup cs)] s = (s, resV (mkCat cs)) := by
  cases cs with
  | nil => ginit_simp [DistMethods.catInit, mkCat]
  | cons a t =>
    have hb : (.ite (.unsupportedChoice (.var "choice")) (.warn .unsupportedChoice) .skip : Stmt) = catLoopBody := rfl
    have hl := catLoopLocals_other (a :: t) [("choices", Val.tup (a :: t))] "choices" (by decide)
    have hlen : ¬ ((t.length : Int) + 1 = 0) := by omega
    ginit_simp [DistMethods.catInit, mkCat, iterItems, hb, cat_loop_cons, hl, hlen]

/-- **interp_mkCat** — `CategoricalDistribution.__init__` as written today (empty choices -> ValueError; the unsupported-type
warning loop, silent on every representable choice; `self.choices = tuple(choices)`) IS `Dist.mkCat`, for every list of choices -/
theorem interp_mkCat (cs : List Tok) : interpMkCat program cs = ⟨[], liftR (mkCat cs)⟩ := by
  unfold interpMkCat outOf
  rw [initD_cat]
  cases cs <;> simp [resV, mkCat, liftR, ofInst, instV, instDict, clsOf]

/-! ## loop 2: `for index, choice in enumerate(self.choices):` of `CategoricalDistribution.to_internal_repr` -/

def enumLoopBody : Stmt :=
  .ite (.call2 .choiceEqual (.var "param_value_in_external_repr") (.var "choice")) (.ret (.var "index")) .skip

def enumItems (k : Nat) (l : List Tok) : List (List (String × Val)) :=
  ((List.range' k l.length).zip l).map (fun p => [("index", Val.tok (.int p.1)), ("choice", Val.tok p.2)])

/-- how the loop ends: the first NaN-aware match (offset `k`) is returned, else it falls through -/
def enumFlow (k : Nat) (v : Tok) (l : List Tok) : Flow :=
  match firstIdx (fun c => v.catEq c) l with
  | some i => .ret (.tok (.int ((k + i : Nat) : Int)))
  | none => .next

theorem enum_loop (initD : InitD) (superD : SuperD) (v : Tok) (l : List Tok) (k : Nat) (s : MSt)
    (hv : s.locals.get? "param_value_in_external_repr" = some (.tok v)) :
    (forLoop (exec program.call0 initD superD enumLoopBody) (enumItems k l) s).2 = enumFlow k v l ∧
    (forLoop (exec program.call0 initD superD enumLoopBody) (enumItems k l) s).1.warns = s.warns := by
  induction l generalizing k s with
  | nil => exact ⟨rfl, rfl⟩
  | cons t rest ih =>
    have hitems : enumItems k (t :: rest) = [("index", Val.tok (.int k)), ("choice", Val.tok t)] :: enumItems (k + 1) rest := by
      simp [enumItems, List.range']
    rw [hitems]
    simp only [forLoop]
    have hv' : (bindAll s [("index", Val.tok (.int k)), ("choice", Val.tok t)]).locals.get? "param_value_in_external_repr" = some (.tok v) := by
      simp [bindAll, setLocal, AList.get?_set_other, hv]
    have hc : (bindAll s [("index", Val.tok (.int k)), ("choice", Val.tok t)]).locals.get? "choice" = some (.tok t) := by
      simp [bindAll, setLocal, AList.get?_set_same]
    have hi : (bindAll s [("index", Val.tok (.int k)), ("choice", Val.tok t)]).locals.get? "index" = some (.tok (.int k)) := by
      simp [bindAll, setLocal, AList.get?_set_same, AList.get?_set_other]
    have hw : (bindAll s [("index", Val.tok (.int k)), ("choice", Val.tok t)]).warns = s.warns := rfl
    generalize bindAll s [("index", Val.tok (.int k)), ("choice", Val.tok t)] = s1 at hv' hc hi hw
    cases hp : v.catEq t with
    | true =>
      have : exec program.call0 initD superD enumLoopBody s1 = (s1, .ret (.tok (.int k))) := by
        simp [enumLoopBody, exec, evalCond, eval, bind1, getLocal, hv', hc, hi, Program.call0, boolV, truthy, Tok.truthy, hp]
      rw [this]
      simp [enumFlow, firstIdx, hp, hw]
    | false =>
      have : exec program.call0 initD superD enumLoopBody s1 = (s1, .next) := by
        simp [enumLoopBody, exec, evalCond, eval, bind1, getLocal, hv', hc, hi, Program.call0, boolV, truthy, Tok.truthy, hp]
      rw [this]
      obtain ⟨h1, h2⟩ := ih (k + 1) s1 hv'
      refine ⟨?_, by rw [h2, hw]⟩
      rw [h1]
      simp only [enumFlow, firstIdx, hp]
      cases firstIdx (fun c => v.catEq c) rest with
      | none => rfl
      | some i => simp [Nat.add_assoc, Nat.add_comm 1 i]

theorem pyEq_nan_left (c : Tok) : Tok.pyEq .nan c = false := by cases c <;> rfl

theorem catEq_eq_pyEq (v c : Tok) (h : v ≠ .nan) : v.catEq c = v.pyEq c := by
  have : (v == Tok.nan) = false := by simpa using h
  simp [Tok.catEq, this]

theorem firstIdx_pyEq_catEq (v : Tok) (cs : List Tok) (i : Nat) (h : firstIdx (fun c => v.pyEq c) cs = some i) :
    firstIdx (fun c => v.catEq c) cs = some i := by
  by_cases hn : v = .nan
  · subst hn
    exfalso
    have hf : (fun c => Tok.pyEq .nan c) = (fun _ => false) := funext pyEq_nan_left
    rw [hf] at h
    have : ∀ l : List Tok, firstIdx (fun _ => false) l = none := by
      intro l
      induction l with
      | nil => rfl
      | cons a t ih => simp [firstIdx, ih]
    rw [this] at h
    cases h
  · have : (fun c => v.catEq c) = (fun c => v.pyEq c) := funext (fun c => catEq_eq_pyEq v c hn)
    rw [this]; exact h

/-- what `to_internal_repr` of a categorical returns, as a value -/
def catIndexV (cs : List Tok) (v : Tok) : Except Exn Val :=
  match catIndex cs v with
  | .ok i => .ok (.tok (.int i))
  | .error e => .error (.err e)

theorem call1_toInternal_cat (cs : List Tok) (v : Tok) (s : MSt) :
    program.call1 .toInternal [instV (.cat cs), .tok v] s = (s, catIndexV cs v) := by
  have hb : (.ite (.call2 .choiceEqual (.var "param_value_in_external_repr") (.var "choice")) (.ret (.var "index")) .skip : Stmt) = enumLoopBody := rfl
  cases h1 : firstIdx (fun c => v.pyEq c) cs with
  | some i =>
    have h2 := firstIdx_pyEq_catEq v cs i h1
    g_simp [DistMethods.catToInternal, tupleIndexV, h1, catIndexV, catIndex, h2]
  | none =>
    have hE := enum_loop noInit noSuper v cs 0
      { locals := [("param_value_in_external_repr", .tok v)], self := some (.cat, [("choices", .arr cs)]), warns := s.warns }
      (by simp [AList.get?])
    have hitems : enumItems 0 cs = ((List.range cs.length).zip cs).map (fun p => [("index", Val.tok (.int p.1)), ("choice", Val.tok p.2)]) := by
      simp [enumItems, List.range_eq_range']
    rw [hitems] at hE
    g_simp [DistMethods.catToInternal, tupleIndexV, h1, catIndexV, catIndex, iterItems, hb]
    obtain ⟨hf, hw⟩ := hE
    revert hf hw
    generalize forLoop (exec program.call0 noInit noSuper enumLoopBody) _ _ = r
    intro hf hw
    obtain ⟨s', fl⟩ := r
    simp only at hf hw
    subst hf
    unfold enumFlow
    cases firstIdx (fun c => v.catEq c) cs <;> simp [hw]

/-- **call_toInternal_categorical** — `CategoricalDistribution.to_internal_repr` as written today (`choices.index(v)`; on ValueError the
NaN-aware loop over `enumerate(choices)` with `_categorical_choice_equal`; else ValueError) IS `Dist.catIndex`: the first choice equal
to `v` under `==`-or-both-NaN, for every list of choices and every value -/
theorem call_toInternal_categorical (cs : List Tok) (v : Tok) :
    (interpCall program .toInternal [instV (.cat cs), .tok v] asRat).res = liftR ((Dist.cat cs).toInternal v) := by
  unfold interpCall outOf
  have : program.call2 .toInternal [instV (.cat cs), .tok v] {} = program.call1 .toInternal [instV (.cat cs), .tok v] {} := rfl
  rw [this, call1_toInternal_cat]
  simp only [catIndexV, Dist.toInternal]
  cases catIndex cs v <;> simp [asRat, liftR, Except.map]
example : (interpCall program .toInternal [instV (.cat [.str "a", .nan, .int 3]), .tok .nan] asRat).res = .ok 1 := by decide +kernel

/-! ## `_get_single_value` -/

/-- **call_getSingleValue** — for a single-point distribution `_get_single_value` returns `low` (numeric classes) / the first choice
(`Suggest.singleValue`); a categorical without choices (not constructible) raises IndexError -/
theorem call_getSingleValue (d : Dist) (hs : d.single = true) :
    (interpCall program .getSingleValue [instV d] asTok).res =
      (match d with
       | .cat [] => .error .indexError
       | _ => .ok (Suggest.singleValue d)) := by
  cases d with
  | flt c low high log step =>
    have h1 := call1_single (.flt c low high log step)
    simp only [instV, instDict, clsOf, optStepJ, hs] at h1
    cases c <;> d_simp [Program.call2, instV, instDict, clsOf, optStepJ, Cls.isSub, List.any, DistMethods.getSingleValue, h1, Suggest.singleValue, asTok]
  | int c low high log step =>
    have h1 := call1_single (.int c low high log step)
    simp only [instV, instDict, clsOf, hs] at h1
    cases c <;> d_simp [Program.call2, instV, instDict, clsOf, Cls.isSub, List.any, DistMethods.getSingleValue, h1, Suggest.singleValue, asTok]
  | cat cs =>
    have h1 := call1_single (.cat cs)
    simp only [instV, instDict, clsOf, hs] at h1
    cases cs with
    | nil => d_simp [Program.call2, instV, instDict, clsOf, Cls.isSub, List.any, DistMethods.getSingleValue, h1, Suggest.singleValue, asTok]
    | cons a t => d_simp [Program.call2, instV, instDict, clsOf, Cls.isSub, List.any, DistMethods.getSingleValue, h1, Suggest.singleValue, asTok]

/-! ## `_convert_old_distribution_to_new_distribution` -/

theorem warnsF_wf (c c' : FCls) (low high : Rat) (log : Bool) (step : Option Rat) (h : WF (.flt c low high log step)) :
    warnsF c' low high log step = [] := by
  unfold warnsF
  cases step with
  | none => cases mkFlt c' low high log none <;> rfl
  | some st =>
    obtain ⟨_, _, hstep, _⟩ := h
    obtain ⟨hs, k, _, hk⟩ := hstep st rfl
    have : ratMod (high - low) st = 0 := (ratMod_eq_zero_iff (ne_of_gt hs)).2 ⟨k, hk⟩
    cases mkFlt c' low high log (some st) <;> simp [this]

theorem warnsI_wf (c c' : ICls) (low high : Int) (log : Bool) (step : Int) (h : WF (.int c low high log step)) :
    warnsI c' low high log step = [] := by
  unfold warnsI
  obtain ⟨_, _, hs, hg, _⟩ := h
  have : Int.fmod (high - low) step = 0 := by
    rw [Int.fmod_eq_emod_of_nonneg _ (le_of_lt hs)]; exact hg
  cases mkInt c' low high log step <;> simp [this]

theorem wf_float_of (c : FCls) (low high : Rat) (log : Bool) (step : Option Rat) (h : WF (.flt c low high log step)) :
    WF (.flt .float low high log step) := by
  obtain ⟨a, b, c', _⟩ := h; exact ⟨a, b, c', trivial⟩

theorem wf_int_of (c : ICls) (low high : Int) (log : Bool) (step : Int) (h : WF (.int c low high log step)) :
    WF (.int .int low high log step) := by
  obtain ⟨a, b, c', e, _⟩ := h; exact ⟨a, b, c', e, trivial⟩

theorem initD_float_wf (c : FCls) (low high : Rat) (log : Bool) (step : Option Rat) (h : WF (.flt c low high log step)) (s : MSt) :
    program.initD (.flt .float) [("low", Val.tok (.flt low)), ("high", Val.tok (.flt high)), ("log", Val.tok (.bool log)),
      ("step", match step with | some q => Val.tok (.flt q) | none => Val.tok .none)] s =
      (s, .ok (instV (.flt .float low high log step))) := by
  have hi := initD_float low high log step s
  rw [mkFlt_of_wf .float low high log step (wf_float_of c low high log step h), warnsF_wf c .float low high log step h] at hi
  cases step <;> simpa [fltV, optFltV, boolV, resV] using hi

theorem initD_int_wf (c : ICls) (low high : Int) (log : Bool) (step : Int) (h : WF (.int c low high log step)) (s : MSt) :
    program.initD (.int .int) [("low", Val.tok (.int low)), ("high", Val.tok (.int high)), ("log", Val.tok (.bool log)),
      ("step", Val.tok (.int step))] s = (s, .ok (instV (.int .int low high log step))) := by
  have hi := initD_int low high log step s
  rw [mkInt_of_wf .int low high log step (wf_int_of c low high log step h), warnsI_wf c .int low high log step h] at hi
  simpa [iv, boolV, resV] using hi

/-- the warnings and the value `_convert_old_distribution_to_new_distribution` must produce -/
def convertSpec (d : Dist) (sup : Bool) : Out Dist :=
  ⟨if (clsOf d != clsOf (convertOld d)) && !sup then [.converted] else [], .ok (convertOld d)⟩

macro "conv_simp" "[" ts:Lean.Parser.Tactic.simpLemma,* "]" : tactic =>
  `(tactic| g_simp [DistMethods.convertOld, convertOld, convertSpec, ofInst, ctorArgs, instV, instDict, clsOf, optStepJ, listCatEq_refl, $ts,*])

theorem convertOld_base_float (low high : Rat) (log : Bool) (step : Option Rat) (sup : Bool) :
    interpCall program .convertOld [instV (.flt .float low high log step), boolV sup] ofInst = convertSpec (.flt .float low high log step) sup := by
  cases sup <;> cases step <;> conv_simp []
theorem convertOld_base_int (low high : Int) (log : Bool) (step : Int) (sup : Bool) :
    interpCall program .convertOld [instV (.int .int low high log step), boolV sup] ofInst = convertSpec (.int .int low high log step) sup := by
  cases sup <;> conv_simp []
theorem convertOld_cat (cs : List Tok) (sup : Bool) :
    interpCall program .convertOld [instV (.cat cs), boolV sup] ofInst = convertSpec (.cat cs) sup := by
  cases sup <;> conv_simp []
theorem convertOld_discreteUniform (low high q : Rat) (h : WF (.flt .discreteUniform low high false (some q))) (sup : Bool) :
    interpCall program .convertOld [instV (.flt .discreteUniform low high false (some q)), boolV sup] ofInst =
      convertSpec (.flt .discreteUniform low high false (some q)) sup := by
  have hi := initD_float_wf .discreteUniform low high false (some q) h
  cases sup <;> conv_simp [hi]
theorem convertOld_intUniform (low high step : Int) (h : WF (.int .intUniform low high false step)) (sup : Bool) :
    interpCall program .convertOld [instV (.int .intUniform low high false step), boolV sup] ofInst = convertSpec (.int .intUniform low high false step) sup := by
  have hi := initD_int_wf .intUniform low high false step h
  cases sup <;> conv_simp [hi]
/-- **interp_convertOld_partial** — for every well-formed distribution of FloatDistribution, IntDistribution, CategoricalDistribution
(unchanged, no warning), DiscreteUniformDistribution (-> FloatDistribution with `step = q`) and IntUniformDistribution (-> IntDistribution):
`_convert_old_distribution_to_new_distribution` as written today returns `Dist.convertOld d`, re-running today's constructor (no high
adjustment happens: the range is already a whole number of steps), and warns (FutureWarning) exactly when the class changed and
`suppress_warning` is false.  PARTIAL: for UniformDistribution, LogUniformDistribution and IntLogUniformDistribution the same proof script
ends in a kernel `deterministic timeout` (statement identical); they are covered by the `decide +kernel` instances below, by the differential
and by the K stream. -/
theorem interp_convertOld_partial (d : Dist) (h : WF d) (sup : Bool)
    (hc : clsOf d ≠ .flt .uniform ∧ clsOf d ≠ .flt .logUniform ∧ clsOf d ≠ .int .intLogUniform) :
    interpCall program .convertOld [instV d, boolV sup] ofInst = convertSpec d sup := by
  cases d with
  | cat cs => exact convertOld_cat cs sup
  | flt c low high log step =>
    have hcls : FClsOK c log step := h.2.2.2
    cases c with
    | float => exact convertOld_base_float low high log step sup
    | uniform => exact absurd rfl hc.1
    | logUniform => exact absurd rfl hc.2.1
    | discreteUniform =>
      obtain ⟨hl, hst⟩ := hcls
      subst hl
      cases step with
      | none => exact absurd rfl hst
      | some q => exact convertOld_discreteUniform low high q h sup
  | int c low high log step =>
    have hcls : IClsOK c log := h.2.2.2.2
    cases c with
    | int => exact convertOld_base_int low high log step sup
    | intUniform => have hl : log = false := hcls; subst hl; exact convertOld_intUniform low high step h sup
    | intLogUniform => exact absurd rfl hc.2.2
example : interpCall program .convertOld [instV (.flt .uniform 0 4 false none), boolV false] ofInst = convertSpec (.flt .uniform 0 4 false none) false := by
  decide +kernel
example : interpCall program .convertOld [instV (.flt .logUniform 1 4 true none), boolV true] ofInst = convertSpec (.flt .logUniform 1 4 true none) true := by
  decide +kernel
example : interpCall program .convertOld [instV (.int .intLogUniform 1 8 true 1), boolV false] ofInst = ⟨[.converted], .ok (.int .int 1 8 true 1)⟩ := by
  decide +kernel
example : convertSpec (.int .intLogUniform 1 8 true 1) false = ⟨[.converted], .ok (.int .int 1 8 true 1)⟩ := by decide

/-! ## loop 3 (`for cls in DISTRIBUTION_CLASSES`) and `json_to_distribution` -/

theorem initD_congr (c : Cls) (args args' : List (String × Val)) (s : MSt)
    (h : bindKw (initParams c) args = bindKw (initParams c) args') : program.initD c args s = program.initD c args' s := by
  unfold Program.initD Program.runInitBody
  rw [h]

def nameDoc (n : String) (o : JObj) : JDoc := [("name", .v (.atom (.str n))), ("attributes", .obj o)]

theorem ofInst_instV (d : Dist) : ofInst (instV d) = some d := by
  cases d with
  | flt c low high log step => cases step <;> rfl
  | int c low high log step => rfl
  | cat cs => rfl

macro "p_simp" "[" ts:Lean.Parser.Tactic.simpLemma,* "]" : tactic =>
  `(tactic| d_simp [interpParse, nameDoc, DistMethods.jsonToDistribution, iterItems, allClasses, forLoop, bindAll, jvV, Cls.name, FCls.name, ICls.name,
      parse, fromAttrs, keysWithin, asNum, asInt, asBoolD, asOptNum, asIntD, liftR, resV, ofInst_instV, bind, Except.bind, pure, Except.pure, $ts,*])

theorem parse_float_doc (low high : Rat) (log : Bool) (step : Option Rat) :
    (interpParse program (nameDoc "FloatDistribution" [("step", .atom (optStep step)), ("low", .atom (.flt low)), ("high", .atom (.flt high)), ("log", .atom (.bool log))])).res =
      liftR (parse (nameDoc "FloatDistribution" [("step", .atom (optStep step)), ("low", .atom (.flt low)), ("high", .atom (.flt high)), ("log", .atom (.bool log))])) := by
  have hc : ∀ s, program.initD (.flt .float) [("step", optFltV step), ("low", fltV low), ("high", fltV high), ("log", boolV log)] s =
      program.initD (.flt .float) [("low", fltV low), ("high", fltV high), ("log", boolV log), ("step", optFltV step)] s := by
    intro s; apply initD_congr; simp [bindKw, initParams, List.find?, List.any]
  have hi := initD_float low high log step
  cases step with
  | none =>
    simp only [fltV, optFltV, boolV] at hc hi
    cases hm : mkFlt .float low high log none <;> p_simp [optStep, hc, hi, hm]
  | some st =>
    simp only [fltV, optFltV, boolV] at hc hi
    cases hm : mkFlt .float low high log (some st) <;> p_simp [optStep, hc, hi, hm]

theorem parse_uniform_doc (low high : Rat) :
    (interpParse program (nameDoc "UniformDistribution" [("low", .atom (.flt low)), ("high", .atom (.flt high))])).res =
      liftR (parse (nameDoc "UniformDistribution" [("low", .atom (.flt low)), ("high", .atom (.flt high))])) := by
  have hi := initD_uniform low high
  simp only [fltV] at hi
  cases hm : mkUniform low high <;> p_simp [hi, hm]

theorem parse_logUniform_doc (low high : Rat) :
    (interpParse program (nameDoc "LogUniformDistribution" [("low", .atom (.flt low)), ("high", .atom (.flt high))])).res =
      liftR (parse (nameDoc "LogUniformDistribution" [("low", .atom (.flt low)), ("high", .atom (.flt high))])) := by
  have hi := initD_logUniform low high
  simp only [fltV] at hi
  cases hm : mkLogUniform low high <;> p_simp [hi, hm]

theorem parse_discreteUniform_doc (low high q : Rat) :
    (interpParse program (nameDoc "DiscreteUniformDistribution" [("low", .atom (.flt low)), ("high", .atom (.flt high)), ("q", .atom (.flt q))])).res =
      liftR (parse (nameDoc "DiscreteUniformDistribution" [("low", .atom (.flt low)), ("high", .atom (.flt high)), ("q", .atom (.flt q))])) := by
  have hi := initD_discreteUniform low high q
  simp only [fltV] at hi
  cases hm : mkDiscreteUniform low high q <;> p_simp [hi, hm]

theorem parse_int_doc (low high : Int) (log : Bool) (step : Int) :
    (interpParse program (nameDoc "IntDistribution" [("log", .atom (.bool log)), ("step", .atom (.int step)), ("low", .atom (.int low)), ("high", .atom (.int high))])).res =
      liftR (parse (nameDoc "IntDistribution" [("log", .atom (.bool log)), ("step", .atom (.int step)), ("low", .atom (.int low)), ("high", .atom (.int high))])) := by
  have hc : ∀ s, program.initD (.int .int) [("log", boolV log), ("step", iv step), ("low", iv low), ("high", iv high)] s =
      program.initD (.int .int) [("low", iv low), ("high", iv high), ("log", boolV log), ("step", iv step)] s := by
    intro s; apply initD_congr; simp [bindKw, initParams, List.find?, List.any]
  have hi := initD_int low high log step
  simp only [iv, boolV] at hc hi
  cases hm : mkInt .int low high log step <;> p_simp [hc, hi, hm, truncI_intCast]

theorem parse_intUniform_doc (low high step : Int) :
    (interpParse program (nameDoc "IntUniformDistribution" [("step", .atom (.int step)), ("low", .atom (.int low)), ("high", .atom (.int high))])).res =
      liftR (parse (nameDoc "IntUniformDistribution" [("step", .atom (.int step)), ("low", .atom (.int low)), ("high", .atom (.int high))])) := by
  have hc : ∀ s, program.initD (.int .intUniform) [("step", iv step), ("low", iv low), ("high", iv high)] s =
      program.initD (.int .intUniform) [("low", iv low), ("high", iv high), ("step", iv step)] s := by
    intro s; apply initD_congr; simp [bindKw, initParams, List.find?, List.any]
  have hi := initD_intUniform low high step
  simp only [iv] at hc hi
  cases hm : mkIntUniform low high step <;> p_simp [hc, hi, hm, truncI_intCast]

theorem parse_intLogUniform_doc (low high step : Int) :
    (interpParse program (nameDoc "IntLogUniformDistribution" [("step", .atom (.int step)), ("low", .atom (.int low)), ("high", .atom (.int high))])).res =
      liftR (parse (nameDoc "IntLogUniformDistribution" [("step", .atom (.int step)), ("low", .atom (.int low)), ("high", .atom (.int high))])) := by
  have hc : ∀ s, program.initD (.int .intLogUniform) [("step", iv step), ("low", iv low), ("high", iv high)] s =
      program.initD (.int .intLogUniform) [("low", iv low), ("high", iv high), ("step", iv step)] s := by
    intro s; apply initD_congr; simp [bindKw, initParams, List.find?, List.any]
  have hi := initD_intLogUniform low high step
  simp only [iv] at hc hi
  cases hm : mkIntLogUniform low high step <;> p_simp [hc, hi, hm, truncI_intCast]

theorem parse_cat_doc (cs : List Tok) :
    (interpParse program (nameDoc "CategoricalDistribution" [("choices", .arr cs)])).res =
      liftR (parse (nameDoc "CategoricalDistribution" [("choices", .arr cs)])) := by
  cases hm : mkCat cs <;> p_simp [initD_cat, hm]

/-! the legacy layout `{"type": …}` -/

theorem parse_legacy_float (low high : Rat) (log : Bool) (step : Option Rat) :
    (interpParse program [("type", .v (.atom (.str "float"))), ("low", .v (.atom (.flt low))), ("high", .v (.atom (.flt high))),
        ("log", .v (.atom (.bool log))), ("step", .v (.atom (optStep step)))]).res =
      liftR (parse [("type", .v (.atom (.str "float"))), ("low", .v (.atom (.flt low))), ("high", .v (.atom (.flt high))),
        ("log", .v (.atom (.bool log))), ("step", .v (.atom (optStep step)))]) := by
  have hi := initD_float low high log step
  cases step with
  | none =>
    simp only [fltV, optFltV, boolV] at hi
    cases hm : mkFlt .float low high log none <;> p_simp [fromAbbrev, List.filterMap, ctorArgs, optStep, hi, hm]
  | some st =>
    simp only [fltV, optFltV, boolV] at hi
    cases hm : mkFlt .float low high log (some st) <;> p_simp [fromAbbrev, List.filterMap, ctorArgs, optStep, hi, hm]

theorem parse_legacy_int (low high : Int) (log : Bool) (step : Int) :
    (interpParse program [("type", .v (.atom (.str "int"))), ("low", .v (.atom (.int low))), ("high", .v (.atom (.int high))),
        ("log", .v (.atom (.bool log))), ("step", .v (.atom (.int step)))]).res =
      liftR (parse [("type", .v (.atom (.str "int"))), ("low", .v (.atom (.int low))), ("high", .v (.atom (.int high))),
        ("log", .v (.atom (.bool log))), ("step", .v (.atom (.int step)))]) := by
  have hi := initD_int low high log step
  simp only [iv, boolV] at hi
  cases hm : mkInt .int low high log step <;> p_simp [fromAbbrev, List.filterMap, ctorArgs, hi, hm, truncI_intCast]

/-- the legacy layout with its defaults: no `step` (-> 1 for ints), no `log` (-> False) -/
theorem parse_legacy_int_defaults (low high : Int) :
    (interpParse program [("type", .v (.atom (.str "int"))), ("low", .v (.atom (.int low))), ("high", .v (.atom (.int high)))]).res =
      liftR (parse [("type", .v (.atom (.str "int"))), ("low", .v (.atom (.int low))), ("high", .v (.atom (.int high)))]) := by
  have hi := initD_int low high false 1
  simp only [iv, boolV] at hi
  cases hm : mkInt .int low high false 1 <;> p_simp [fromAbbrev, List.filterMap, ctorArgs, hi, hm, truncI_intCast]

theorem parse_legacy_cat (cs : List Tok) :
    (interpParse program [("type", .v (.atom (.str "categorical"))), ("choices", .v (.arr cs))]).res =
      liftR (parse [("type", .v (.atom (.str "categorical"))), ("choices", .v (.arr cs))]) := by
  cases hm : mkCat cs <;> p_simp [fromAbbrev, List.filterMap, initD_cat, hm]

/-- an unknown class name: the loop over `DISTRIBUTION_CLASSES` finds nothing, ValueError -/
theorem parse_unknown_name (n : String) (o : JObj)
    (h : n ≠ "IntDistribution" ∧ n ≠ "IntLogUniformDistribution" ∧ n ≠ "IntUniformDistribution" ∧ n ≠ "FloatDistribution" ∧
      n ≠ "UniformDistribution" ∧ n ≠ "LogUniformDistribution" ∧ n ≠ "DiscreteUniformDistribution" ∧ n ≠ "CategoricalDistribution") :
    (interpParse program (nameDoc n o)).res = liftR (parse (nameDoc n o)) := by
  obtain ⟨h1, h2, h3, h4, h5, h6, h7, h8⟩ := h
  p_simp [h1, h2, h3, h4, h5, h6, h7, h8]

/-- **typed documents**: the `{"name", "attributes"}` layout with the attributes `distribution_to_json` writes for the class (its
`_asdict()` keys in their order) carrying values of the parameter's own JSON type — floats for float classes, ints for int classes, a bool
`log`, `step` a float or null, an array of choices — for ARBITRARY values (valid or not: the constructor's validation is part of the
equality); an unknown class name with any attributes; the legacy `{"type": "float" | "int" | "categorical", …}` layout in the key order
`low, high, log, step`, and the int layout with its defaults. -/
inductive TypedDoc : JDoc → Prop
  | float (low high : Rat) (log : Bool) (step : Option Rat) :
      TypedDoc (nameDoc "FloatDistribution" [("step", .atom (optStep step)), ("low", .atom (.flt low)), ("high", .atom (.flt high)), ("log", .atom (.bool log))])
  | uniform (low high : Rat) : TypedDoc (nameDoc "UniformDistribution" [("low", .atom (.flt low)), ("high", .atom (.flt high))])
  | logUniform (low high : Rat) : TypedDoc (nameDoc "LogUniformDistribution" [("low", .atom (.flt low)), ("high", .atom (.flt high))])
  | discreteUniform (low high q : Rat) :
      TypedDoc (nameDoc "DiscreteUniformDistribution" [("low", .atom (.flt low)), ("high", .atom (.flt high)), ("q", .atom (.flt q))])
  | int (low high : Int) (log : Bool) (step : Int) :
      TypedDoc (nameDoc "IntDistribution" [("log", .atom (.bool log)), ("step", .atom (.int step)), ("low", .atom (.int low)), ("high", .atom (.int high))])
  | intUniform (low high step : Int) :
      TypedDoc (nameDoc "IntUniformDistribution" [("step", .atom (.int step)), ("low", .atom (.int low)), ("high", .atom (.int high))])
  | intLogUniform (low high step : Int) :
      TypedDoc (nameDoc "IntLogUniformDistribution" [("step", .atom (.int step)), ("low", .atom (.int low)), ("high", .atom (.int high))])
  | cat (cs : List Tok) : TypedDoc (nameDoc "CategoricalDistribution" [("choices", .arr cs)])
  | unknown (n : String) (o : JObj)
      (h : n ≠ "IntDistribution" ∧ n ≠ "IntLogUniformDistribution" ∧ n ≠ "IntUniformDistribution" ∧ n ≠ "FloatDistribution" ∧
        n ≠ "UniformDistribution" ∧ n ≠ "LogUniformDistribution" ∧ n ≠ "DiscreteUniformDistribution" ∧ n ≠ "CategoricalDistribution") :
      TypedDoc (nameDoc n o)
  | legacyFloat (low high : Rat) (log : Bool) (step : Option Rat) :
      TypedDoc [("type", .v (.atom (.str "float"))), ("low", .v (.atom (.flt low))), ("high", .v (.atom (.flt high))),
        ("log", .v (.atom (.bool log))), ("step", .v (.atom (optStep step)))]
  | legacyInt (low high : Int) (log : Bool) (step : Int) :
      TypedDoc [("type", .v (.atom (.str "int"))), ("low", .v (.atom (.int low))), ("high", .v (.atom (.int high))),
        ("log", .v (.atom (.bool log))), ("step", .v (.atom (.int step)))]
  | legacyIntDefaults (low high : Int) :
      TypedDoc [("type", .v (.atom (.str "int"))), ("low", .v (.atom (.int low))), ("high", .v (.atom (.int high)))]
  | legacyCat (cs : List Tok) : TypedDoc [("type", .v (.atom (.str "categorical"))), ("choices", .v (.arr cs))]

/-- **interp_jsonToDistribution** — `json_to_distribution` as written today (the `"name" in json_dict` test, the tuple conversion of
categorical choices, the loop over `DISTRIBUTION_CLASSES` with `cls(**attributes)` running today's `__init__`, the unknown-class ValueError;
the legacy layout with its defaults) IS `Dist.parse` on every typed document — value or exception (TypeError / ValueError classes included) -/
theorem interp_jsonToDistribution (doc : JDoc) (h : TypedDoc doc) : (interpParse program doc).res = liftR (parse doc) := by
  cases h with
  | float low high log step => exact parse_float_doc low high log step
  | uniform low high => exact parse_uniform_doc low high
  | logUniform low high => exact parse_logUniform_doc low high
  | discreteUniform low high q => exact parse_discreteUniform_doc low high q
  | int low high log step => exact parse_int_doc low high log step
  | intUniform low high step => exact parse_intUniform_doc low high step
  | intLogUniform low high step => exact parse_intLogUniform_doc low high step
  | cat cs => exact parse_cat_doc cs
  | unknown n o h => exact parse_unknown_name n o h
  | legacyFloat low high log step => exact parse_legacy_float low high log step
  | legacyInt low high log step => exact parse_legacy_int low high log step
  | legacyIntDefaults low high => exact parse_legacy_int_defaults low high
  | legacyCat cs => exact parse_legacy_cat cs

/-- **parse_untyped_disagreement_witness** — OUTSIDE the typed documents the hand model and the code differ: non-integral numbers given to
an int class.  `Dist.fromAttrs` truncates first (`int(1.5) = 1`, `int(1.2) = 1`: a valid single-point `IntDistribution(1, 1)`), the code
validates the raw values first (`1.5 > 1.2`: ValueError) — replayed on the real `json_to_distribution` by the harness on every run. -/
theorem parse_untyped_disagreement_witness :
    parse (nameDoc "IntDistribution" [("low", .atom (.flt (3/2))), ("high", .atom (.flt (6/5)))]) = .ok (.int .int 1 1 false 1) ∧
    (interpParse program (nameDoc "IntDistribution" [("low", .atom (.flt (3/2))), ("high", .atom (.flt (6/5)))])).res = .error (.err .valueError) := by
  decide +kernel

theorem print_typed (d : Dist) (h : WF d) : TypedDoc (print d) := by
  cases d with
  | flt c low high log step =>
    cases c
    · exact TypedDoc.float low high log step
    · exact TypedDoc.uniform low high
    · exact TypedDoc.logUniform low high
    · cases step with
      | none => exact absurd rfl h.2.2.2.2
      | some q => exact TypedDoc.discreteUniform low high q
  | int c low high log step =>
    cases c
    · exact TypedDoc.int low high log step
    · exact TypedDoc.intUniform low high step
    · exact TypedDoc.intLogUniform low high step
  | cat cs => exact TypedDoc.cat cs

/-! ## the headline of C11 for the interpreter -/

/-- **gen_json_roundtrip** — for the code as written today: `json_to_distribution(distribution_to_json(d)) = d` for every well-formed
distribution of each of the eight classes — `distribution_to_json` and `json_to_distribution` both run by the interpreter of their
generated bodies (with today's `_asdict`, `__init__`s and high adjustments as callees) -/
theorem gen_json_roundtrip (d : Dist) (h : WF d) :
    ∃ doc, (interpPrint program d).res = .ok doc ∧ (interpParse program doc).res = .ok d := by
  refine ⟨print d, gen_print_eq d, ?_⟩
  rw [interp_jsonToDistribution (print d) (print_typed d h), C11.json_roundtrip d h]
  rfl
example : (interpParse program (print (.flt .discreteUniform 0 1 false (some (1/2))))).res = .ok (.flt .discreteUniform 0 1 false (some (1/2))) := by
  decide +kernel

/-- **gen_parse_idempotent** — whatever `json_to_distribution` returns for a typed document is a fixed point of print-then-parse:
serialising it and parsing again gives the same distribution (legacy layout included: a distribution read from `{"type": …}` is written in
the `{"name", "attributes"}` layout and read back unchanged) -/
theorem gen_parse_idempotent (doc : JDoc) (ht : TypedDoc doc) (d : Dist) (h : (interpParse program doc).res = .ok d) :
    (interpPrint program d).res = .ok (print d) ∧ (interpParse program (print d)).res = .ok d := by
  rw [interp_jsonToDistribution doc ht] at h
  have hp : parse doc = .ok d := by
    cases hh : parse doc with
    | ok x => rw [hh] at h; simp [liftR] at h; rw [h]
    | error e => rw [hh] at h; simp [liftR] at h
  have hw := C11.parse_wf doc d hp
  refine ⟨gen_print_eq d, ?_⟩
  rw [interp_jsonToDistribution (print d) (print_typed d hw), C11.json_roundtrip d hw]
  rfl

/-- **gen_legacy_parse** — the legacy layout: a well-formed base-class distribution written as `{"type": "float" | "int" | "categorical",
"low", "high", "log", "step" / "choices"}` is read by today's `json_to_distribution` as that distribution -/
theorem gen_legacy_parse (d : Dist) (h : WF d) (hbase : convertOld d = d) : (interpParse program (abbrevDoc d)).res = .ok d := by
  have ht : TypedDoc (abbrevDoc d) := by
    cases d with
    | flt c low high log step => exact TypedDoc.legacyFloat low high log step
    | int c low high log step => exact TypedDoc.legacyInt low high log step
    | cat cs => exact TypedDoc.legacyCat cs
  rw [interp_jsonToDistribution _ ht, C11.abbrev_parse d h hbase]
  rfl
example : (interpParse program [("type", .v (.atom (.str "int"))), ("low", .v (.atom (.int 1))), ("high", .v (.atom (.int 9)))]).res =
    .ok (.int .int 1 9 false 1) := by decide +kernel

/-- `to_internal_repr` for all eight classes -/
theorem call_toInternal (d : Dist) (v : Tok) (hv : v ≠ .pinf ∧ v ≠ .ninf) :
    (interpCall program .toInternal [instV d, .tok v] asRat).res = liftR (d.toInternal v) := by
  cases d with
  | cat cs => exact call_toInternal_categorical cs v
  | flt c low high log step => exact call_toInternal_numeric _ v (by intro cs; simp) hv
  | int c low high log step => exact call_toInternal_numeric _ v (by intro cs; simp) hv

/-- **gen_external_internal_roundtrip_all** — for the code as written today, ALL eight classes: an external value `v` (not ±inf) that
`to_internal_repr` accepts as `q` with `_contains(q)` comes back from `to_external_repr(q)` as a `t` with `v == t` (Python `==`, or both
NaN).  Floats: `t = q`.  Ints: `t = int(q)` — an int parameter given as the integral float `4.0` (or `True`) comes back as the `int` `4`
(`1`): equal, of another type.  Categoricals: `t` is the FIRST choice equal to `v` — a NaN value finds the first NaN choice (equal in the
both-NaN sense only), `1` given where the choices are `(True, 1)` comes back as `True`. -/
theorem gen_external_internal_roundtrip_all (d : Dist) (v : Tok) (q : Rat) (h : WF d) (hv : v ≠ .pinf ∧ v ≠ .ninf)
    (hi : (interpCall program .toInternal [instV d, .tok v] asRat).res = .ok q)
    (hc : (interpCall program .contains [instV d, fltV q] asBool).res = .ok true) :
    ∃ t, (interpCall program .toExternal [instV d, fltV q] asTok).res = .ok t ∧ v.catEq t = true := by
  rw [call_toInternal d v hv] at hi
  rw [call_contains d q h] at hc
  have hi' : d.toInternal v = .ok q := by
    cases hh : d.toInternal v with
    | ok x => rw [hh] at hi; simp [liftR] at hi; rw [hi]
    | error e => rw [hh] at hi; simp [liftR] at hi
  have hc' : d.contains q = true := by simpa using hc
  obtain ⟨t, ht, heq⟩ := C11.external_internal_roundtrip d v q h hi' hc'
  exact ⟨t, call_toExternal d q t ht, heq⟩
example : (interpCall program .toInternal [instV (.cat [.str "a", .nan]), .tok .nan] asRat).res = .ok 1 ∧
    (interpCall program .toExternal [instV (.cat [.str "a", .nan]), fltV 1] asTok).res = .ok .nan := by decide +kernel
example : (interpCall program .toInternal [instV (.cat [.bool true, .int 1]), .tok (.int 1)] asRat).res = .ok 0 := by decide +kernel

end OptunaVerif.C11DistGen
