import OptunaVerif.Generated.DistMethods
import OptunaVerif.Props.C11
/-!
# C11 (translator tie) — `optuna/distributions.py` *as written in the source today* is the hand model `Model/Dist.lean`

`Generated/DistMethods.lean` is regenerated on every run by `verif/translators/tdist.py` from `optuna/distributions.py`
(34 bodies: the `__init__`s of the eight classes, `single`, `_contains`, `to_internal_repr`, `to_external_repr`, `_asdict`, the two
high adjustments, `check_distribution_compatibility`, `_get_single_value`, `_convert_old_distribution_to_new_distribution`,
`_is_distribution_log`, `distribution_to_json`, `json_to_distribution`) as data of the statement language of `Model/DistIR.lean`,
together with the class table, the `__init__` signatures and the pinned texts of `__eq__` / `__hash__` / `__repr__` /
`_categorical_choice_equal` / the class statements.

Proved here, for ALL inputs: per method, the interpreter of the generated body equals the hand-model function (`call_*`,
`interp_*`); the C11 round-trip theorems restated for the interpreter (`gen_*`).  A source edit changes the generated data and a
named equality below stops type-checking.
-/
set_option linter.unusedSimpArgs false
set_option linter.unusedVariables false
namespace OptunaVerif.C11DistGen
open OptunaVerif OptunaVerif.Dist OptunaVerif.DistIR
open OptunaVerif.Generated
open OptunaVerif.Generated.DistMethods (program)

theorem prog_adjustDiscreteHigh : program.adjustDiscreteHigh = DistMethods.adjustDiscreteHigh := rfl
theorem prog_adjustIntHigh : program.adjustIntHigh = DistMethods.adjustIntHigh := rfl
theorem prog_floatInit : program.floatInit = DistMethods.floatInit := rfl
theorem prog_intInit : program.intInit = DistMethods.intInit := rfl
theorem prog_catInit : program.catInit = DistMethods.catInit := rfl
theorem prog_uniformInit : program.uniformInit = DistMethods.uniformInit := rfl
theorem prog_logUniformInit : program.logUniformInit = DistMethods.logUniformInit := rfl
theorem prog_discreteUniformInit : program.discreteUniformInit = DistMethods.discreteUniformInit := rfl
theorem prog_intUniformInit : program.intUniformInit = DistMethods.intUniformInit := rfl
theorem prog_intLogUniformInit : program.intLogUniformInit = DistMethods.intLogUniformInit := rfl
theorem prog_floatSingle : program.floatSingle = DistMethods.floatSingle := rfl
theorem prog_intSingle : program.intSingle = DistMethods.intSingle := rfl
theorem prog_catSingle : program.catSingle = DistMethods.catSingle := rfl
theorem prog_floatContains : program.floatContains = DistMethods.floatContains := rfl
theorem prog_intContains : program.intContains = DistMethods.intContains := rfl
theorem prog_catContains : program.catContains = DistMethods.catContains := rfl
theorem prog_floatToInternal : program.floatToInternal = DistMethods.floatToInternal := rfl
theorem prog_intToInternal : program.intToInternal = DistMethods.intToInternal := rfl
theorem prog_catToInternal : program.catToInternal = DistMethods.catToInternal := rfl
theorem prog_baseToExternal : program.baseToExternal = DistMethods.baseToExternal := rfl
theorem prog_intToExternal : program.intToExternal = DistMethods.intToExternal := rfl
theorem prog_catToExternal : program.catToExternal = DistMethods.catToExternal := rfl
theorem prog_baseAsdict : program.baseAsdict = DistMethods.baseAsdict := rfl
theorem prog_uniformAsdict : program.uniformAsdict = DistMethods.uniformAsdict := rfl
theorem prog_logUniformAsdict : program.logUniformAsdict = DistMethods.logUniformAsdict := rfl
theorem prog_discreteUniformAsdict : program.discreteUniformAsdict = DistMethods.discreteUniformAsdict := rfl
theorem prog_intUniformAsdict : program.intUniformAsdict = DistMethods.intUniformAsdict := rfl
theorem prog_intLogUniformAsdict : program.intLogUniformAsdict = DistMethods.intLogUniformAsdict := rfl
theorem prog_checkCompat : program.checkCompat = DistMethods.checkCompat := rfl
theorem prog_getSingleValue : program.getSingleValue = DistMethods.getSingleValue := rfl
theorem prog_convertOld : program.convertOld = DistMethods.convertOld := rfl
theorem prog_isLog : program.isLog = DistMethods.isLog := rfl
theorem prog_distributionToJson : program.distributionToJson = DistMethods.distributionToJson := rfl
theorem prog_jsonToDistribution : program.jsonToDistribution = DistMethods.jsonToDistribution := rfl

theorem pyEq_int (a b : Int) : Tok.pyEq (.int a) (.int b) = decide (a = b) := by
  simp [Tok.pyEq, Tok.num?, beq_eq_decide]
theorem pyEq_flt (a b : Rat) : Tok.pyEq (.flt a) (.flt b) = decide (a = b) := by
  simp [Tok.pyEq, Tok.num?, beq_eq_decide]
theorem pyEq_flt_int (a : Rat) (b : Int) : Tok.pyEq (.flt a) (.int b) = decide (a = (b : Rat)) := by
  simp [Tok.pyEq, Tok.num?, beq_eq_decide]
theorem pyEq_bool' (a b : Bool) : Tok.pyEq (.bool a) (.bool b) = decide (a = b) := by
  cases a <;> cases b <;> simp [Tok.pyEq, Tok.num?]
theorem pyEq_str (a b : String) : Tok.pyEq (.str a) (.str b) = decide (a = b) := by
  simp [Tok.pyEq, beq_eq_decide]

macro "d_simp" "[" ts:Lean.Parser.Tactic.simpLemma,* "]" : tactic =>
  `(tactic| simp [runFn, block, exec, evalCond, eval, bind1, getLocal, setLocal, AList.get?, AList.set, truthy, Tok.truthy, boolV,
     cmpV, eqV, isV, isInV, arith, absV, roundV, floatOfV, intOfV, isnanV, lenV, indexV, getDV, attrV, numOf, Tok.num?, pyEq_int, pyEq_flt, pyEq_flt_int, pyEq_bool', pyEq_str, beq_eq_decide, jget, jv1V, valJV1,
     errOf, Except.map, outOf, interpCall, fltV, optFltV, prog_adjustDiscreteHigh, prog_adjustIntHigh, prog_floatInit, prog_intInit, prog_catInit, prog_uniformInit, prog_logUniformInit, prog_discreteUniformInit, prog_intUniformInit, prog_intLogUniformInit, prog_floatSingle, prog_intSingle, prog_catSingle, prog_floatContains, prog_intContains, prog_catContains, prog_floatToInternal, prog_intToInternal, prog_catToInternal, prog_baseToExternal, prog_intToExternal, prog_catToExternal, prog_baseAsdict, prog_uniformAsdict, prog_logUniformAsdict, prog_discreteUniformAsdict, prog_intUniformAsdict, prog_intLogUniformAsdict, prog_checkCompat, prog_getSingleValue, prog_convertOld, prog_isLog, prog_distributionToJson, prog_jsonToDistribution, $ts,*])

theorem call_adjustIntHigh (low high step : Int) (hs : step ≠ 0) (s : MSt) :
    program.call0 .adjustIntHigh [.tok (.int low), .tok (.int high), .tok (.int step)] s =
      ({ s with warns := if Int.fmod (high - low) step ≠ 0 then s.warns ++ [.highAdjusted] else s.warns },
       .ok (.tok (.int (DistInt.adjustIntUniformHigh low high step)))) := by
  by_cases h : Int.fmod (high - low) step = 0
  · d_simp [Program.call0, DistMethods.adjustIntHigh, DistInt.adjustIntUniformHigh, hs, h]
  · d_simp [Program.call0, DistMethods.adjustIntHigh, DistInt.adjustIntUniformHigh, hs, h]

theorem call_adjustDiscreteHigh (low high step : Rat) (hs : 0 < step) (hl : low ≤ high) (s : MSt) :
    program.call0 .adjustDiscreteHigh [.tok (.flt low), .tok (.flt high), .tok (.flt step)] s =
      ({ s with warns := if ratMod (high - low) step ≠ 0 then s.warns ++ [.highAdjusted] else s.warns },
       .ok (.tok (.flt (adjustDiscreteHigh low high step)))) := by
  have h1 : ¬ step ≤ 0 := not_le.mpr hs
  have h2 : ¬ high - low < 0 := by linarith
  by_cases h : ratMod (high - low) step = 0
  · d_simp [Program.call0, DistMethods.adjustDiscreteHigh, Dist.adjustDiscreteHigh, h1, h2, h]
  · d_simp [Program.call0, DistMethods.adjustDiscreteHigh, Dist.adjustDiscreteHigh, h1, h2, h]

def liftR {α : Type} : R α → Except Exn α
  | .ok a => .ok a
  | .error e => .error (.err e)

macro "init_simp" "[" ts:Lean.Parser.Tactic.simpLemma,* "]" : tactic =>
  `(tactic| d_simp [interpMkFloat, interpMkInt, interpMkCat, Program.initD, Program.runInitBody, Program.superD, Program.initBody, bindKw, initParams,
      Cls.base, ctorArgs, ofInst, liftR, optStepJ, List.find?, List.any, $ts,*])

theorem interp_mkFloat (low high : Rat) (log : Bool) (step : Option Rat) :
    (interpMkFloat program .float [("low", fltV low), ("high", fltV high), ("log", boolV log), ("step", optFltV step)]).res =
      liftR (mkFlt .float low high log step) := by
  cases step with
  | none =>
    cases log with
    | false => by_cases h1 : high < low <;> init_simp [DistMethods.floatInit, mkFlt, h1]
    | true =>
      by_cases h1 : high < low
      · init_simp [DistMethods.floatInit, mkFlt, h1]
      · by_cases h2 : low ≤ 0 <;> init_simp [DistMethods.floatInit, mkFlt, h1, h2]
  | some st =>
    cases log with
    | true => init_simp [DistMethods.floatInit, mkFlt]
    | false =>
      by_cases h1 : high < low
      · init_simp [DistMethods.floatInit, mkFlt, h1]
      · by_cases h3 : st ≤ 0
        · init_simp [DistMethods.floatInit, mkFlt, h1, h3]
        · have hc := call_adjustDiscreteHigh low high st (not_le.mp h3) (not_lt.mp h1)
          by_cases hm : ratMod (high - low) st = 0 <;> init_simp [DistMethods.floatInit, mkFlt, h1, h3, hc, hm]

/-! ## pinned tables and texts -/

/-- **pinned_sources** — the parts of `distributions.py` the interpreter gives meaning to as primitives read today exactly as when
that meaning was written: `BaseDistribution.__eq__` (same type, same `__dict__`), `__hash__`, `__repr__`,
`CategoricalDistribution.__eq__` (choices compared with `_categorical_choice_equal`), `_categorical_choice_equal` (`==` or both NaN), the
`q` property of DiscreteUniformDistribution (alias of `step`), and for each of the eight classes its bases, decorators, and that it
redefines none of the methods the dispatch of `Program.call1` takes from its base class -/
theorem pinned_sources : DistMethods.pins =
    [("BaseDistribution.__eq__", "[] if not isinstance(other, BaseDistribution): return NotImplemented ; if type(self) is not type(other): return False ; return self.__dict__ == other.__dict__"),
     ("BaseDistribution.__hash__", "[] return hash((self.__class__,) + tuple(sorted(self.__dict__.items())))"),
     ("BaseDistribution.__repr__", "[] kwargs = ', '.join(('{}={}'.format(k, v) for k, v in sorted(self._asdict().items()))) ; return '{}({})'.format(self.__class__.__name__, kwargs)"),
     ("CategoricalDistribution.__eq__", "[] if not isinstance(other, BaseDistribution): return NotImplemented ; if not isinstance(other, self.__class__): return False ; if self.__dict__.keys() != other.__dict__.keys(): return False ; for key, value in self.__dict__.items(): if key == 'choices': if len(value) != len(getattr(other, key)): return False for choice, other_choice in zip(value, getattr(other, key)): if not _categorical_choice_equal(choice, other_choice): return False elif value != getattr(other, key): return False ; return True"),
     ("_categorical_choice_equal", "[] value1_is_nan = isinstance(value1, Real) and np.isnan(float(value1)) ; value2_is_nan = isinstance(value2, Real) and np.isnan(float(value2)) ; return value1 == value2 or (value1_is_nan and value2_is_nan)"),
     ("DiscreteUniformDistribution.q", "[property] return cast(float, self.step) || [q.setter] self.step = v"),
     ("class FloatDistribution", "bases (BaseDistribution); decorators []; redefines []; class attributes []"),
     ("class UniformDistribution", "bases (FloatDistribution); decorators [deprecated_class]; redefines []; class attributes []"),
     ("class LogUniformDistribution", "bases (FloatDistribution); decorators [deprecated_class]; redefines []; class attributes []"),
     ("class DiscreteUniformDistribution", "bases (FloatDistribution); decorators [deprecated_class]; redefines []; class attributes []"),
     ("class IntDistribution", "bases (BaseDistribution); decorators []; redefines []; class attributes []"),
     ("class IntUniformDistribution", "bases (IntDistribution); decorators [deprecated_class]; redefines []; class attributes []"),
     ("class IntLogUniformDistribution", "bases (IntDistribution); decorators [deprecated_class]; redefines []; class attributes []"),
     ("class CategoricalDistribution", "bases (BaseDistribution); decorators []; redefines []; class attributes []")] := rfl


/-- **class_table** — `DISTRIBUTION_CLASSES` lists the eight classes in the order the interpreter's loop uses -/
theorem class_table : DistMethods.classTable = allClasses.map Cls.name := by decide

/-- **init_signatures** — parameters and literal defaults of the eight `__init__`s are those `cls(**attributes)` binds against -/
theorem init_signatures : DistMethods.signatures =
    [("FloatDistribution", [("low", none), ("high", none), ("log", some .false_), ("step", some .none_)]),
     ("UniformDistribution", [("low", none), ("high", none)]),
     ("LogUniformDistribution", [("low", none), ("high", none)]),
     ("DiscreteUniformDistribution", [("low", none), ("high", none), ("q", none)]),
     ("IntDistribution", [("low", none), ("high", none), ("log", some .false_), ("step", some (.intLit 1))]),
     ("IntUniformDistribution", [("low", none), ("high", none), ("step", some (.intLit 1))]),
     ("IntLogUniformDistribution", [("low", none), ("high", none), ("step", some (.intLit 1))]),
     ("CategoricalDistribution", [("choices", none)])] := rfl

/-! ## the deprecated float classes: `super().__init__` forwards -/

theorem interp_mkUniform (low high : Rat) :
    (interpMkFloat program .uniform [("low", fltV low), ("high", fltV high)]).res = liftR (mkUniform low high) := by
  by_cases h1 : high < low <;> init_simp [DistMethods.uniformInit, DistMethods.floatInit, mkUniform, mkFlt, h1]

theorem interp_mkLogUniform (low high : Rat) :
    (interpMkFloat program .logUniform [("low", fltV low), ("high", fltV high)]).res = liftR (mkLogUniform low high) := by
  by_cases h1 : high < low
  · init_simp [DistMethods.logUniformInit, DistMethods.floatInit, mkLogUniform, mkFlt, h1]
  · by_cases h2 : low ≤ 0 <;> init_simp [DistMethods.logUniformInit, DistMethods.floatInit, mkLogUniform, mkFlt, h1, h2]

theorem interp_mkDiscreteUniform (low high q : Rat) :
    (interpMkFloat program .discreteUniform [("low", fltV low), ("high", fltV high), ("q", fltV q)]).res =
      liftR (mkDiscreteUniform low high q) := by
  by_cases h1 : high < low
  · init_simp [DistMethods.discreteUniformInit, DistMethods.floatInit, mkDiscreteUniform, mkFlt, h1]
  · by_cases h3 : q ≤ 0
    · init_simp [DistMethods.discreteUniformInit, DistMethods.floatInit, mkDiscreteUniform, mkFlt, h1, h3]
    · have hc := call_adjustDiscreteHigh low high q (not_le.mp h3) (not_lt.mp h1)
      by_cases hm : ratMod (high - low) q = 0 <;>
        init_simp [DistMethods.discreteUniformInit, DistMethods.floatInit, mkDiscreteUniform, mkFlt, h1, h3, hc, hm]

/-! ## `IntDistribution.__init__` and its deprecated subclasses -/

def iv (i : Int) : Val := .tok (.int i)

macro "int_init" "[" ts:Lean.Parser.Tactic.simpLemma,* "]" : tactic =>
  `(tactic| init_simp [DistMethods.intInit, DistMethods.intUniformInit, DistMethods.intLogUniformInit, mkInt, mkIntUniform, mkIntLogUniform, iv,
      DistInt.adjustIntUniformHigh, $ts,*])

theorem mkInt_cases (c : ICls) (low high : Int) (log : Bool) (step : Int)
    (P : Prop)
    (k : ∀ (c1 : ((high : Rat) < (low : Rat)) ↔ high < low) (c2 : ((low : Rat) < 1) ↔ low < 1) (c3 : ((step : Rat) ≤ 0) ↔ step ≤ 0), P) : P :=
  k Int.cast_lt (by exact_mod_cast Iff.rfl) (by exact_mod_cast Iff.rfl)

/-- **interp_mkInt** — `IntDistribution.__init__` as written today (validation order, `int(...)` casts, the high adjustment through
today's `_adjust_int_uniform_high`, attribute order) IS `Dist.mkInt` -/
theorem interp_mkInt (low high : Int) (log : Bool) (step : Int) :
    (interpMkInt program .int [("low", iv low), ("high", iv high), ("log", boolV log), ("step", iv step)]).res =
      liftR (mkInt .int low high log step) := by
  apply mkInt_cases .int low high log step
  intro c1 c2 c3
  have key : ∀ (hs : step ≠ 0), _ := fun hs => call_adjustIntHigh low high step hs
  cases log with
  | false =>
    by_cases h1 : high < low
    · int_init [c1, c2, c3, h1]
    · by_cases h3 : step ≤ 0
      · int_init [c1, c2, c3, h1, h3]
      · have hc := key (by omega)
        by_cases hm : Int.fmod (high - low) step = 0 <;> int_init [c1, c2, c3, h1, h3, hc, hm]
  | true =>
    by_cases h0 : step = 1
    · subst h0
      have o1 : ¬ ((1 : Rat) ≤ 0) := by norm_num
      have o2 : ¬ (((1 : Int) : Rat) ≤ 0) := by norm_num
      by_cases h1 : high < low
      · int_init [c1, c2, o1, o2, h1]
      · by_cases h2 : low < 1
        · int_init [c1, c2, o1, o2, h1, h2]
        · have hc := key (by decide)
          by_cases hm : Int.fmod (high - low) 1 = 0 <;> int_init [c1, c2, o1, o2, h1, h2, hc, hm]
    · int_init [h0]

theorem interp_mkIntUniform (low high step : Int) :
    (interpMkInt program .intUniform [("low", iv low), ("high", iv high), ("step", iv step)]).res = liftR (mkIntUniform low high step) := by
  apply mkInt_cases .intUniform low high false step
  intro c1 c2 c3
  by_cases h1 : high < low
  · int_init [c1, c2, c3, h1]
  · by_cases h3 : step ≤ 0
    · int_init [c1, c2, c3, h1, h3]
    · have hc := call_adjustIntHigh low high step (by omega)
      by_cases hm : Int.fmod (high - low) step = 0 <;> int_init [c1, c2, c3, h1, h3, hc, hm]

theorem interp_mkIntLogUniform (low high step : Int) :
    (interpMkInt program .intLogUniform [("low", iv low), ("high", iv high), ("step", iv step)]).res = liftR (mkIntLogUniform low high step) := by
  apply mkInt_cases .intLogUniform low high true step
  intro c1 c2 c3
  by_cases h0 : step = 1
  · subst h0
    have o1 : ¬ ((1 : Rat) ≤ 0) := by norm_num
    have o2 : ¬ (((1 : Int) : Rat) ≤ 0) := by norm_num
    by_cases h1 : high < low
    · int_init [c1, c2, o1, o2, h1]
    · by_cases h2 : low < 1
      · int_init [c1, c2, o1, o2, h1, h2]
      · have hc := call_adjustIntHigh low high 1 (by decide)
        by_cases hm : Int.fmod (high - low) 1 = 0 <;> int_init [c1, c2, o1, o2, h1, h2, hc, hm]
  · int_init [h0]

/-! ## the methods, on the object `instV d` of a distribution -/

macro "m_simp" "[" ts:Lean.Parser.Tactic.simpLemma,* "]" : tactic =>
  `(tactic| d_simp [Program.call2, Program.call1, selfOf, instV, instDict, clsOf, optStepJ, asBool, asRat, asTok, asDict, asDoc, asUnit, liftR,
      Cls.isSub, List.any, $ts,*])

/-- **call_single** — `single()` of the three base classes (inherited by the deprecated ones) IS `Dist.single` -/
theorem call_single (d : Dist) : (interpCall program .single [instV d] asBool).res = .ok d.single := by
  cases d with
  | flt c low high log step =>
    cases step with
    | none => m_simp [DistMethods.floatSingle, Dist.single]
    | some st => by_cases h : low = high <;> m_simp [DistMethods.floatSingle, Dist.single, h]
  | int c low high log step =>
    cases log <;> by_cases h : low = high <;> m_simp [DistMethods.intSingle, Dist.single, DistInt.intSingle, h] <;>
      exact_mod_cast Iff.rfl
  | cat cs => m_simp [DistMethods.catSingle, Dist.single]

/-- **call_contains** — `_contains` as written today (floats: the chain `low <= v <= high`, the grid test
`abs(k - round(k)) < 1e-8` with `k = (v - low) / step`; ints: `(v - low) % step == 0`; categoricals: `0 <= int(v) < len(choices)`)
IS `Dist.contains`, for every well-formed distribution and every internal value -/
theorem call_contains (d : Dist) (v : Rat) (h : WF d) : (interpCall program .contains [instV d, fltV v] asBool).res = .ok (d.contains v) := by
  cases d with
  | flt c low high log step =>
    cases step with
    | none => by_cases h1 : low ≤ v <;> by_cases h2 : v ≤ high <;> m_simp [DistMethods.floatContains, Dist.contains, h1, h2]
    | some st =>
      have hs : st ≠ 0 := ne_of_gt (h.2.2.1 st rfl).1
      by_cases h1 : low ≤ v <;> by_cases h2 : v ≤ high <;> m_simp [DistMethods.floatContains, Dist.contains, h1, h2, hs]
  | int c low high log step =>
    have hs : ¬ ((step : Rat) ≤ 0) := by have := h.2.2.1; exact not_le.mpr (by exact_mod_cast this)
    by_cases h1 : (low : Rat) ≤ v <;> by_cases h2 : v ≤ (high : Rat) <;> m_simp [DistMethods.intContains, Dist.contains, h1, h2, hs]
  | cat cs =>
    have cc : ((truncI v : Int) : Rat) < ((cs.length : Int) : Rat) ↔ truncI v < cs.length := Int.cast_lt
    have c0 : ((0 : Rat) ≤ ((truncI v : Int) : Rat)) ↔ 0 ≤ truncI v := by exact_mod_cast Iff.rfl
    by_cases h0 : 0 ≤ truncI v <;> m_simp [DistMethods.catContains, Dist.contains, h0, cc, c0] <;> exact_mod_cast Iff.rfl

/-- **call_toInternal_numeric** — `to_internal_repr` of the float and int classes (the `float(...)` cast with its ValueError, the NaN
rejection, the `log` positivity test) IS `Dist.toInternal`, for every finite external value -/
theorem call_toInternal_numeric (d : Dist) (v : Tok) (hd : ∀ cs, d ≠ .cat cs) (hv : v ≠ .pinf ∧ v ≠ .ninf) :
    (interpCall program .toInternal [instV d, .tok v] asRat).res = liftR (d.toInternal v) := by
  cases d with
  | cat cs => exact absurd rfl (hd cs)
  | flt c low high log step =>
    cases v with
    | pinf => exact absurd rfl hv.1
    | ninf => exact absurd rfl hv.2
    | none => cases log <;> m_simp [DistMethods.floatToInternal, Dist.toInternal]
    | nan => cases log <;> m_simp [DistMethods.floatToInternal, Dist.toInternal]
    | str x => cases log <;> m_simp [DistMethods.floatToInternal, Dist.toInternal]
    | bool b =>
      have o1 : ¬ ((1 : Rat) ≤ 0) := by norm_num
      cases log <;> cases b <;> m_simp [DistMethods.floatToInternal, Dist.toInternal, o1]
    | int i => cases log <;> by_cases hq : (i : Rat) ≤ 0 <;> m_simp [DistMethods.floatToInternal, Dist.toInternal, hq]
    | flt x => cases log <;> by_cases hq : x ≤ 0 <;> m_simp [DistMethods.floatToInternal, Dist.toInternal, hq]
  | int c low high log step =>
    cases v with
    | pinf => exact absurd rfl hv.1
    | ninf => exact absurd rfl hv.2
    | none => cases log <;> m_simp [DistMethods.intToInternal, Dist.toInternal]
    | nan => cases log <;> m_simp [DistMethods.intToInternal, Dist.toInternal]
    | str x => cases log <;> m_simp [DistMethods.intToInternal, Dist.toInternal]
    | bool b =>
      have o1 : ¬ ((1 : Rat) ≤ 0) := by norm_num
      cases log <;> cases b <;> m_simp [DistMethods.intToInternal, Dist.toInternal, o1]
    | int i => cases log <;> by_cases hq : (i : Rat) ≤ 0 <;> m_simp [DistMethods.intToInternal, Dist.toInternal, hq]
    | flt x => cases log <;> by_cases hq : x ≤ 0 <;> m_simp [DistMethods.intToInternal, Dist.toInternal, hq]

/-- **call_toExternal** — `to_external_repr`: floats unchanged, ints `int(v)`, categoricals `choices[int(v)]` (for a non-negative index) -/
theorem call_toExternal (d : Dist) (q : Rat) (t : Tok) (h : d.toExternal q = some t) :
    (interpCall program .toExternal [instV d, fltV q] asTok).res = .ok t := by
  cases d with
  | flt c low high log step => simp [Dist.toExternal] at h; subst h; m_simp [DistMethods.baseToExternal]
  | int c low high log step => simp [Dist.toExternal] at h; subst h; m_simp [DistMethods.intToExternal]
  | cat cs =>
    simp only [Dist.toExternal] at h
    split at h
    · rename_i h0
      have h0' : ¬ truncI q < 0 := not_lt.mpr h0
      m_simp [DistMethods.catToExternal, h0', h]
    · simp at h

/-- **call_asdict** — `_asdict()` of each of the eight classes IS `Dist.asdict`: the `__dict__` in the insertion order of `__init__`,
minus what the deprecated classes pop, plus `q` -/
theorem call_asdict (d : Dist) : (interpCall program .asdict [instV d] asDict).res = .ok d.asdict := by
  cases d with
  | flt c low high log step => cases step <;> cases c <;> m_simp [DistMethods.baseAsdict, DistMethods.uniformAsdict, DistMethods.logUniformAsdict, DistMethods.discreteUniformAsdict, Dist.asdict, optStep, List.filter]
  | int c low high log step => cases c <;> m_simp [DistMethods.baseAsdict, DistMethods.intUniformAsdict, DistMethods.intLogUniformAsdict, Dist.asdict, List.filter]
  | cat cs => m_simp [DistMethods.baseAsdict, Dist.asdict]

/-! ## module functions -/

/-- **call_checkCompat** — `check_distribution_compatibility` as written today raises ValueError exactly when `Dist.compat` is false:
another class, another `log` (numeric classes), other choices (categoricals, `CategoricalDistribution.__eq__`: pinned) -/
theorem call_checkCompat (o n : Dist) :
    (interpCall program .checkCompat [instV o, instV n] asUnit).res = if compat o n then .ok () else .error (.err .valueError) := by
  cases o with
  | flt c low high log step =>
    cases n with
    | flt c' low' high' log' step' =>
      cases log <;> cases log' <;> cases c <;> cases c' <;> m_simp [DistMethods.checkCompat, compat, Dist.sameClass, Dist.log?]
    | int c' low' high' log' step' => m_simp [DistMethods.checkCompat, compat, Dist.sameClass, Dist.log?]
    | cat cs => m_simp [DistMethods.checkCompat, compat, Dist.sameClass, Dist.log?]
  | int c low high log step =>
    cases n with
    | int c' low' high' log' step' =>
      cases log <;> cases log' <;> cases c <;> cases c' <;> m_simp [DistMethods.checkCompat, compat, Dist.sameClass, Dist.log?]
    | flt c' low' high' log' step' => m_simp [DistMethods.checkCompat, compat, Dist.sameClass, Dist.log?]
    | cat cs => m_simp [DistMethods.checkCompat, compat, Dist.sameClass, Dist.log?]
  | cat cs =>
    cases n with
    | cat cs' => cases h : listCatEq cs cs' <;> m_simp [DistMethods.checkCompat, compat, Dist.sameClass, Dist.log?, h]
    | flt c' low' high' log' step' => m_simp [DistMethods.checkCompat, compat, Dist.sameClass, Dist.log?]
    | int c' low' high' log' step' => m_simp [DistMethods.checkCompat, compat, Dist.sameClass, Dist.log?]

/-- **call_isLog** — `_is_distribution_log` IS `Dist.isLog` -/
theorem call_isLog (d : Dist) : (interpCall program .isLog [instV d] asBool).res = .ok d.isLog := by
  cases d with
  | flt c low high log step => cases c <;> m_simp [DistMethods.isLog, Dist.isLog]
  | int c low high log step => cases c <;> m_simp [DistMethods.isLog, Dist.isLog]
  | cat cs => m_simp [DistMethods.isLog, Dist.isLog]

/-- **gen_print_eq** — `distribution_to_json` as written today ({"name": class name, "attributes": _asdict()}) IS `Dist.print`, for each of the
eight classes -/
theorem gen_print_eq (d : Dist) : (interpPrint program d).res = .ok (print d) := by
  have h := call_asdict d
  cases d with
  | flt c low high log step =>
    cases step <;> cases c <;>
      m_simp [interpPrint, DistMethods.distributionToJson, print, Dist.clsName, FCls.name, Cls.name, Dist.asdict, optStep, List.filter,
        DistMethods.baseAsdict, DistMethods.uniformAsdict, DistMethods.logUniformAsdict, DistMethods.discreteUniformAsdict]
  | int c low high log step =>
    cases c <;> m_simp [interpPrint, DistMethods.distributionToJson, print, Dist.clsName, ICls.name, Cls.name, Dist.asdict, List.filter,
        DistMethods.baseAsdict, DistMethods.intUniformAsdict, DistMethods.intLogUniformAsdict]
  | cat cs => m_simp [interpPrint, DistMethods.distributionToJson, print, Dist.clsName, Cls.name, Dist.asdict, DistMethods.baseAsdict]

/-! ## the C11 theorems restated for the interpreter -/

/-- **gen_contains_unchanged_by_roundtrip** — for the code as written today: a well-formed distribution and its reloaded copy
(`json_to_distribution(distribution_to_json(d))`, by the hand model's parser) contain the same values, are single together, and
`distribution_to_json` of the interpreter produces exactly the document that parser reads -/
theorem gen_contains_unchanged_by_roundtrip (d d' : Dist) (h : WF d) (hp : parse (print d) = .ok d') (q : Rat) :
    (interpPrint program d).res = .ok (print d) ∧
    (interpCall program .contains [instV d', fltV q] asBool).res = (interpCall program .contains [instV d, fltV q] asBool).res ∧
    (interpCall program .single [instV d'] asBool).res = (interpCall program .single [instV d] asBool).res := by
  have hd : d' = d := by
    rw [C11.json_roundtrip d h] at hp
    exact (Except.ok.inj hp).symm
  subst hd
  exact ⟨gen_print_eq d', rfl, rfl⟩

/-- **gen_compat_unchanged_by_roundtrip** — compatibility of two well-formed distributions is the same before and after the JSON round trip -/
theorem gen_compat_unchanged_by_roundtrip (o n o' n' : Dist) (ho : WF o) (hn : WF n)
    (hpo : parse (print o) = .ok o') (hpn : parse (print n) = .ok n') :
    (interpCall program .checkCompat [instV o', instV n'] asUnit).res = (interpCall program .checkCompat [instV o, instV n] asUnit).res := by
  rw [call_checkCompat, call_checkCompat, (C11.compat_invariant_under_roundtrip o n o' n' ho hn hpo hpn).1]

/-- **gen_external_internal_roundtrip** — for the code as written today, numeric classes: an external value `v` (finite) that
`to_internal_repr` accepts as `q` with `_contains(q)` comes back from `to_external_repr(q)` as a value `t` equal to `v` under Python `==`:
for floats `t = q` itself; for ints `t = int(q)` — so an int parameter given as the integral float `4.0` (or as `True`) comes back as the
`int` `4` (`1`), equal but of another type -/
theorem gen_external_internal_roundtrip (d : Dist) (v : Tok) (q : Rat) (h : WF d) (hd : ∀ cs, d ≠ .cat cs) (hv : v ≠ .pinf ∧ v ≠ .ninf)
    (hi : (interpCall program .toInternal [instV d, .tok v] asRat).res = .ok q)
    (hc : (interpCall program .contains [instV d, fltV q] asBool).res = .ok true) :
    ∃ t, (interpCall program .toExternal [instV d, fltV q] asTok).res = .ok t ∧ v.catEq t = true := by
  rw [call_toInternal_numeric d v hd hv] at hi
  rw [call_contains d q h] at hc
  have hi' : d.toInternal v = .ok q := by
    cases hh : d.toInternal v with
    | ok x => rw [hh] at hi; simp [liftR] at hi; rw [hi]
    | error e => rw [hh] at hi; simp [liftR] at hi
  have hc' : d.contains q = true := by simpa using hc
  obtain ⟨t, ht, heq⟩ := C11.external_internal_roundtrip d v q h hi' hc'
  exact ⟨t, call_toExternal d q t ht, heq⟩

/-- **gen_convertOld_same_values** — the new-style form of a deprecated distribution (hand model `convertOld`: the class tag only)
contains the same values, is single together with it, converts values the same way — as computed by today's `_contains` / `single` /
`to_internal_repr` -/
theorem gen_convertOld_same_values (d : Dist) (h : WF d) (q : Rat) (v : Tok) (hd : ∀ cs, d ≠ .cat cs) (hv : v ≠ .pinf ∧ v ≠ .ninf) :
    (interpCall program .contains [instV (convertOld d), fltV q] asBool).res = (interpCall program .contains [instV d, fltV q] asBool).res ∧
    (interpCall program .single [instV (convertOld d)] asBool).res = (interpCall program .single [instV d] asBool).res ∧
    (interpCall program .toInternal [instV (convertOld d), .tok v] asRat).res = (interpCall program .toInternal [instV d, .tok v] asRat).res := by
  obtain ⟨hw, h1, h2, h3, _, _⟩ := C11.convertOld_preserves d h
  have hd' : ∀ cs, convertOld d ≠ .cat cs := by
    intro cs; cases d <;> simp [convertOld] at * 
  rw [call_contains _ q hw, call_contains d q h, h1 q, call_single, call_single, h2,
    call_toInternal_numeric _ v hd' hv, call_toInternal_numeric d v hd hv, h3 v]
  exact ⟨rfl, rfl, rfl⟩

example : (interpMkFloat program .float [("low", fltV 0), ("high", fltV 1), ("log", boolV false), ("step", optFltV (some (3/10)))]).res =
    .ok (.flt .float 0 (9/10) false (some (3/10))) := by decide +kernel
example : (interpMkInt program .intUniform [("low", iv 1), ("high", iv 9), ("step", iv 3)]).res = .ok (.int .intUniform 1 7 false 3) := by
  decide +kernel
example : (interpCall program .contains [instV (.flt .float 0 (9/10) false (some (3/10))), fltV (6/10)] asBool).res = .ok true := by
  decide +kernel
example : (interpCall program .toInternal [instV (.int .int 1 7 false 3), .tok (.flt 4)] asRat).res = .ok 4 ∧
    (interpCall program .toExternal [instV (.int .int 1 7 false 3), fltV 4] asTok).res = .ok (.int 4) := by decide +kernel
example : (interpCall program .checkCompat [instV (.flt .float 0 1 false none), instV (.flt .float 0 1 true none)] asUnit).res =
    .error (.err .valueError) := by decide +kernel
example : (interpPrint program (.flt .discreteUniform 0 1 false (some (1/2)))).res =
    .ok [("name", .v (.atom (.str "DiscreteUniformDistribution"))),
         ("attributes", .obj [("low", .atom (.flt 0)), ("high", .atom (.flt 1)), ("q", .atom (.flt (1/2)))])] := by decide +kernel

/-! ## bodies whose equality with the hand model is NOT proved here (tied by the differential and by K only): their generated form is
pinned, so that any edit of the source still breaks a named obligation.  Missing for a full proof: the loop inductions
(`for choice in choices`, `for index, choice in enumerate(...)`, `for cls in DISTRIBUTION_CLASSES`) and `interp json_to_distribution = Dist.parse`
on typed documents. -/

/-- **convertOld_shape_partial** — _convert_old_distribution_to_new_distribution: each deprecated class -> FloatDistribution / IntDistribution with its own low / high / log / step (q), others unchanged; the FutureWarning unless suppress_warning -/
theorem convertOld_shape_partial : DistMethods.convertOld =
  (block [
    (.ite (.isinstance (.var "distribution") [(.flt .uniform)]) (.assign "new_distribution" (.construct (.flt .float) (.attr (.var "distribution") "low") (.attr (.var "distribution") "high") .false_ .none_)) (.ite (.isinstance (.var "distribution") [(.flt .logUniform)]) (.assign "new_distribution" (.construct (.flt .float) (.attr (.var "distribution") "low") (.attr (.var "distribution") "high") .true_ .none_)) (.ite (.isinstance (.var "distribution") [(.flt .discreteUniform)]) (.assign "new_distribution" (.construct (.flt .float) (.attr (.var "distribution") "low") (.attr (.var "distribution") "high") .false_ (.attr (.var "distribution") "q"))) (.ite (.isinstance (.var "distribution") [(.int .intUniform)]) (.assign "new_distribution" (.construct (.int .int) (.attr (.var "distribution") "low") (.attr (.var "distribution") "high") .false_ (.attr (.var "distribution") "step"))) (.ite (.isinstance (.var "distribution") [(.int .intLogUniform)]) (.assign "new_distribution" (.construct (.int .int) (.attr (.var "distribution") "low") (.attr (.var "distribution") "high") .true_ (.attr (.var "distribution") "step"))) (.assign "new_distribution" (.var "distribution"))))))),
    (.ite (.and (.ne (.var "new_distribution") (.var "distribution")) (.not (.var "suppress_warning"))) (.warn .converted) .skip),
    (.ret (.var "new_distribution"))]) := rfl


-- (the bodies pinned here before — CategoricalDistribution.__init__ / to_internal_repr, _get_single_value, json_to_distribution — are now
-- proved equal to the hand model in Props/C11DistFull.lean; `convertOld_shape_partial` stays: three of its classes are not proved there)
example : (interpCall program .convertOld [instV (.int .intLogUniform 1 8 true 1), boolV false] ofInst) =
    ⟨[.converted], .ok (.int .int 1 8 true 1)⟩ := by decide +kernel

end OptunaVerif.C11DistGen
