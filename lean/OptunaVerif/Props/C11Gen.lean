import OptunaVerif.Generated.TransformGen
import OptunaVerif.Lemmas.TransformIR
import OptunaVerif.Props.C11
/-!
# C11 / C10 (translator tie) — `optuna/_transform.py` *as written in the source today* is the hand model

`Generated/TransformGen.lean` is regenerated on every run by `verif/translators/ttransform.py` from
`optuna/_transform.py`: the decision trees and expression trees of `_transform_numerical_param` /
`_untransform_numerical_param`, the loop body of `_transform_search_space` (bounds with half-step widening and log
of the bounds, one-hot columns with `[0, 1]` rows, the column bookkeeping), the loop body of `transform` and its
`transform_0_1` block (zero-width mask), `untransform` (un-scaling, column selection, `argmax`), the `bounds`
property — as DATA of the IR of `Model/TransformIR.lean`, which has one interpreter per function.

Proved here, for **all** distributions / search spaces / values / vectors / flag combinations and every monotone
pair `lg/ex` and clamp `below` (no bound, no sampling):

* `gen_tnum_eq`, `gen_unum_eq`, `gen_bds_eq` — each generated formula evaluates to the hand model's `tnum`, `decode`,
  `boundsOf`;  `gen_scale_eq`, `gen_unscale_eq` — the 0-1 block is `scale01` / `unscale01`;  `gen_argmax_eq`,
  `gen_decode_eq` — the categorical arm takes the FIRST maximal column;
* `gen_search_space_eq` — the generated loop of `_transform_search_space` returns the hand model's raw bounds,
  consecutive column ranges (`colsOf`) and the matching back map (`backOf`);  `gen_bounds_eq`;
* `gen_transform_eq`, `gen_untransform_eq` — the whole methods equal `Dist.transform` / `Dist.untransform`
  (including which error is raised, and `none` for a vector of the wrong length);
* hence `gen_untransform_transform_id`, `gen_untransform_in_domain` (C11) hold of the interpreters of the generated
  IR; `Props/C10Gen.lean` does the same for `untransform_projection_in_domain` (C10).

A source change that drops or doubles the half step, clips before rounding, replaces the `nextafter` clamp, changes
the zero-width mask, takes another maximal index, applies `log` to the step, mis-advances `bound_idx` … changes the
generated data and the named equality no longer type-checks (or, outside the whitelist, the translator stops).
-/
set_option linter.unusedSimpArgs false
namespace OptunaVerif.C11Gen
open OptunaVerif OptunaVerif.Dist OptunaVerif.TransformIR
open OptunaVerif.Generated.TransformGen (prog)

/-- a concrete environment for the non-vacuity examples: `lg = ex = id`, clamp one below -/
def E0 : Env := ⟨id, id, fun h => h - 1⟩

/-! ## one equality per generated formula -/

/-- `_transform_numerical_param` as written today is the hand model's `tnum` (every numerical class, `log` and
`transform_log` on or off). -/

theorem gen_tnum_eq (E : Env) (c : TCfg) (d : Dist) (v : Rat) (hd : ∀ cs, d ≠ .cat cs) :
    tnumEval prog E c d v = some (Dist.tnum E c d v) := by
  cases d with
  | cat cs => exact absurd rfl (hd cs)
  | flt cl low high log step =>
    cases log <;> cases htl : c.tlog <;>
      simp [tnumEval, prog, Generated.TransformGen.tnum, T.pick, G.eval, X.eval, rhoD, Dist.tnum, Dist.isLog, htl]
  | int cl low high log step =>
    cases log <;> cases htl : c.tlog <;>
      simp [tnumEval, prog, Generated.TransformGen.tnum, T.pick, G.eval, X.eval, rhoD, Dist.tnum, Dist.isLog, htl]

example : tnumEval prog E0 ⟨true, true, false⟩ (.flt .float 1 8 true none) 3 = some 3 ∧
    tnumEval prog ⟨fun q => q - 1, fun q => q + 1, fun h => h - 1⟩ ⟨true, true, false⟩ (.int .int 1 8 true 1) 3 = some 2 ∧
    tnumEval prog ⟨fun q => q - 1, fun q => q + 1, fun h => h - 1⟩ ⟨false, true, false⟩ (.int .int 1 8 true 1) 3 = some 3 := by
  decide +kernel

/-- on a categorical distribution the function reaches its `assert False` -/
theorem gen_tnum_cat (E : Env) (c : TCfg) (cs : List Tok) (v : Rat) : tnumEval prog E c (.cat cs) v = none := by
  simp [tnumEval, prog, Generated.TransformGen.tnum, T.pick, G.eval]
example : tnumEval prog E0 ⟨true, true, false⟩ (.cat [.none, .nan]) 0 = none := by decide +kernel

/-- `_untransform_numerical_param` as written today is the hand model's `decode` on one column: log floats
(`exp`, clamp unless single), stepped floats (round to the grid, then clip), plain floats (clamp unless single), log ints
(`exp`, round, clip / plain `int` without `transform_log`), ints (round to the grid, clip); Python type of the result
(`int` vs `float`) included. -/
theorem gen_unum_eq (E : Env) (c : TCfg) (d : Dist) (x : Rat) (hd : ∀ cs, d ≠ .cat cs) :
    unumEval prog E c d x = decode E c d [x] := by
  cases d with
  | cat cs => exact absurd rfl (hd cs)
  | flt cl low high log step =>
    cases log
    · cases step with
      | none =>
        cases hs : (Dist.flt cl low high false Option.none).single <;>
          simp [unumEval, prog, Generated.TransformGen.unum, T.pick, G.eval, X.eval, leafTok, rhoD, decode, Dist.isLog, hs,
            highQ, lowQ, stepQ]
      | some s =>
        simp [unumEval, prog, Generated.TransformGen.unum, T.pick, G.eval, X.eval, leafTok, rhoD, decode, Dist.isLog,
          highQ, lowQ, stepQ]
    · cases hs : (Dist.flt cl low high true step).single <;> cases htl : c.tlog <;>
        simp [unumEval, prog, Generated.TransformGen.unum, T.pick, G.eval, X.eval, leafTok, rhoD, decode, Dist.isLog, hs, htl,
          highQ, lowQ, stepQ]
  | int cl low high log step =>
    cases log <;> cases htl : c.tlog <;>
      simp [unumEval, prog, Generated.TransformGen.unum, T.pick, G.eval, X.eval, leafTok, rhoD, decode, Dist.isLog, htl,
        highQ, lowQ, stepQ]

example : unumEval prog E0 ⟨true, true, false⟩ (.int .int 1 9 false 4) (26/5) = some (.int 5) ∧
    unumEval prog E0 ⟨true, true, false⟩ (.int .int 1 9 false 4) 100 = some (.int 9) ∧
    unumEval prog E0 ⟨true, true, false⟩ (.flt .float 0 1 false (some (1/4))) (3/8) = some (.flt (1/2)) ∧   -- tie 1.5: half to even
    unumEval prog E0 ⟨true, true, false⟩ (.flt .float 0 1 false (some (1/4))) (1/8) = some (.flt 0) ∧     -- tie 0.5: half to even
    unumEval prog E0 ⟨true, true, false⟩ (.flt .float 0 3 false none) 3 = some (.flt 2) ∧                    -- the clamp
    unumEval prog E0 ⟨true, true, false⟩ (.flt .float 3 3 false none) 3 = some (.flt 3) := by               -- single: no clamp
  decide +kernel

/-- the totalised call used inside the bounds expressions -/
theorem gen_tnumCall_eq (E : Env) (c : TCfg) (d : Dist) (hd : ∀ cs, d ≠ .cat cs) :
    tnumCall prog E c d = Dist.tnum E c d := by
  funext v
  simp [tnumCall, gen_tnum_eq E c d v hd]
example : tnumCall prog ⟨fun q => q - 1, fun q => q + 1, id⟩ ⟨true, true, false⟩ (.int .int 1 8 true 1) 3 = 2 := by decide +kernel

/-- the `bds` chain of `_transform_search_space` as written today is the hand model's `boundsOf`: stepped floats
and ints widened by half a step OUTSIDE the log, log ints widened INSIDE the log, nothing without `transform_step`. -/
theorem gen_bds_eq (E : Env) (c : TCfg) (d : Dist) (hd : ∀ cs, d ≠ .cat cs) :
    (bdsEval prog E c d).map (fun b => [b]) = some (boundsOf E c d) := by
  have hcall := gen_tnumCall_eq E c d hd
  cases d with
  | cat cs => exact absurd rfl (hd cs)
  | flt cl low high log step =>
    simp only [bdsEval, hcall]
    cases step with
    | none =>
      simp [prog, Generated.TransformGen.ssBds, T.pick, G.eval, X.eval, rhoD, boundsOf, highQ, lowQ, stepQ]
    | some s =>
      cases hts : c.tstep <;>
        simp [prog, Generated.TransformGen.ssBds, T.pick, G.eval, X.eval, rhoD, boundsOf, highQ, lowQ, stepQ, hts, half_mul]
  | int cl low high log step =>
    simp only [bdsEval, hcall]
    cases log <;> cases hts : c.tstep <;>
      simp [prog, Generated.TransformGen.ssBds, T.pick, G.eval, X.eval, rhoD, boundsOf, highQ, lowQ, stepQ, hts,
        Dist.isLog, half_mul]

example : bdsEval prog E0 ⟨true, true, false⟩ (.int .int 1 9 false 4) = some (-1, 11) ∧
    bdsEval prog E0 ⟨true, false, false⟩ (.int .int 1 9 false 4) = some (1, 9) ∧
    bdsEval prog ⟨fun q => 2 * q, id, id⟩ ⟨true, true, false⟩ (.int .int 1 9 true 1) = some (1, 19) ∧
    bdsEval prog E0 ⟨true, true, false⟩ (.flt .float 0 1 false (some (1/4))) = some (-1/8, 9/8) := by
  decide +kernel

/-- the `transform_0_1` block as written today is `scale01`: exactly the zero-width columns go to 1/2, every other
column is `(x - lo) / (hi - lo)`. -/
theorem gen_scale_eq (E : Env) (c : TCfg) (b : Rat × Rat) (x : Rat) :
    applyScale E c prog.tMask prog.tScale b x = scale01 b x := by
  by_cases h : b.1 = b.2 <;>
    simp [applyScale, prog, Mask.eval, X.eval, rhoS, scale01, h]
example : applyScale E0 default prog.tMask prog.tScale (2, 2) 2 = 1/2 ∧
    applyScale E0 default prog.tMask prog.tScale (2, 2 + 1/1000000000) (2 + 1/1000000000) = 1 := by   -- narrow is not zero-width
  decide +kernel

/-- the un-scaling of `untransform` as written today is `unscale01` -/
theorem gen_unscale_eq (E : Env) (c : TCfg) (b : Rat × Rat) (x : Rat) :
    prog.uUnscale.eval E c default (fun _ => 0) (rhoS b x) = unscale01 b x := by
  simp [prog, X.eval, rhoS, unscale01]
example : prog.uUnscale.eval E0 default default (fun _ => 0) (rhoS (2, 6) (1/4)) = 3 := by decide +kernel

/-- the index handed to `to_external_repr` as written today is the FIRST maximal column -/
theorem gen_argmax_eq (cols : List Rat) : prog.uCat.eval cols = ((argmax cols : Nat) : Int) := by
  simp [prog, IE.eval, VE.eval]
example : prog.uCat.eval [1/2, 1, 1, 0] = 1 := by decide +kernel

/-- one parameter of `untransform` as written today is the hand model's `decode`, for every distribution and every
list of columns (wrong widths included). -/
theorem gen_decode_eq (E : Env) (c : TCfg) (d : Dist) (cols : List Rat) :
    decodeGen prog E c d cols = decode E c d cols := by
  cases d with
  | cat cs =>
    have h : prog.uCatG.eval c (.cat cs) = true := by simp [prog, G.eval]
    simp [decodeGen, h, gen_argmax_eq, decode]
  | flt cl low high log step =>
    have h : prog.uCatG.eval c (.flt cl low high log step) = false := by simp [prog, G.eval]
    simp only [decodeGen, h]
    match cols with
    | [] => cases log <;> cases step <;> simp [decode]
    | [x] => simpa using gen_unum_eq E c _ x (by simp)
    | _ :: _ :: _ => cases log <;> cases step <;> simp [decode]
  | int cl low high log step =>
    have h : prog.uCatG.eval c (.int cl low high log step) = false := by simp [prog, G.eval]
    simp only [decodeGen, h]
    match cols with
    | [] => cases log <;> simp [decode]
    | [x] => simpa using gen_unum_eq E c _ x (by simp)
    | _ :: _ :: _ => cases log <;> simp [decode]

example : decodeGen prog E0 ⟨true, true, false⟩ (.cat [.none, .nan, .int 3]) [1/2, 1, 1] = some .nan ∧
    decodeGen prog E0 ⟨true, true, false⟩ (.int .int 1 9 false 4) [1, 2] = none := by decide +kernel

/-! ## the column bookkeeping of `_transform_search_space` -/

/-- `n_bounds` as written today is the total width (one column per numerical parameter, one per choice) -/
theorem gen_nBounds_eq (c : TCfg) (space : List Dist) : nBounds prog c space = totalWidth space := by
  induction space with
  | nil => rfl
  | cons d ds ih =>
    simp only [nBounds, totalWidth, ih]
    cases d <;> simp [prog, G.eval, W.eval, Dist.width]
example : nBounds prog ⟨true, true, false⟩ [.cat [.none, .nan], .int .int 1 9 false 4] = 3 := by decide

/-- one iteration of the generated loop of `_transform_search_space` appends exactly this distribution's rows,
its column range and its back-map entries, and advances `bound_idx` by its width -/
theorem gen_ssStep_eq (E : Env) (c : TCfg) (s : SS) (d : Dist) (h1 : s.rows.length = s.idx) (h2 : s.e2c.length = s.idx) :
    ssStep prog E c s d = some
      { idx := s.idx + d.width, rows := s.rows ++ boundsOf E c d, c2e := s.c2e ++ [List.range' s.idx d.width],
        e2c := s.e2c ++ List.replicate d.width s.c2e.length, cur := some (List.range' s.idx d.width) } := by
  cases d with
  | cat cs =>
    simp [ssStep, prog, G.eval, runB, BStmt.step, W.eval, boundsOf, Dist.width, h1, h2]
  | flt cl low high log step =>
    have hb := gen_bds_eq E c (.flt cl low high log step) (by simp)
    have hg1 : prog.ssCatG.eval c (.flt cl low high log step) = false := by simp [prog, G.eval]
    have hg2 : prog.ssNumG.eval c (.flt cl low high log step) = true := by simp [prog, G.eval]
    simp only [ssStep, hg1, hg2]
    cases hbe : bdsEval prog E c (.flt cl low high log step) with
    | none => simp [hbe] at hb
    | some b =>
      simp [hbe] at hb
      simp [← hb, prog, runB, BStmt.step, W.eval, Dist.width, h1, h2]
  | int cl low high log step =>
    have hb := gen_bds_eq E c (.int cl low high log step) (by simp)
    have hg1 : prog.ssCatG.eval c (.int cl low high log step) = false := by simp [prog, G.eval]
    have hg2 : prog.ssNumG.eval c (.int cl low high log step) = true := by simp [prog, G.eval]
    simp only [ssStep, hg1, hg2]
    cases hbe : bdsEval prog E c (.int cl low high log step) with
    | none => simp [hbe] at hb
    | some b =>
      simp [hbe] at hb
      simp [← hb, prog, runB, BStmt.step, W.eval, Dist.width, h1, h2]
example : (ssStep prog E0 ⟨true, true, false⟩ SS.init (.cat [.none, .nan])).map (fun s => (s.idx, s.rows, s.c2e, s.e2c)) =
    some (2, [(0, 1), (0, 1)], [[0, 1]], [0, 0]) := by decide +kernel

/-- the whole generated loop, from any state that has been filled front to back so far -/
theorem gen_ssLoop_eq (E : Env) (c : TCfg) (space : List Dist) (s : SS) (h1 : s.rows.length = s.idx) (h2 : s.e2c.length = s.idx) :
    ∃ s', ssLoop prog E c space s = some s' ∧ s'.idx = s.idx + totalWidth space ∧
      s'.rows = s.rows ++ space.flatMap (boundsOf E c) ∧ s'.c2e = s.c2e ++ colsOf s.idx space ∧
      s'.e2c = s.e2c ++ backOf s.c2e.length space := by
  induction space generalizing s with
  | nil => exact ⟨s, rfl, by simp [totalWidth], by simp, by simp [colsOf], by simp [backOf]⟩
  | cons d ds ih =>
    have hstep := gen_ssStep_eq E c s d h1 h2
    obtain ⟨s', hl, hi, hr, hc, he⟩ := ih
      { idx := s.idx + d.width, rows := s.rows ++ boundsOf E c d, c2e := s.c2e ++ [List.range' s.idx d.width],
        e2c := s.e2c ++ List.replicate d.width s.c2e.length, cur := some (List.range' s.idx d.width) }
      (by simp [boundsOf_length, h1]) (by simp [h2])
    refine ⟨s', by simp [ssLoop, hstep, hl], ?_, ?_, ?_, ?_⟩
    · simp [hi, totalWidth]; omega
    · simp [hr, List.flatMap_cons]
    · simp [hc, colsOf]
    · simp [he, backOf]
example : (ssLoop prog E0 ⟨true, true, false⟩ [.cat [.none, .nan], .int .int 1 9 false 4] SS.init).map (fun s => (s.idx, s.c2e, s.e2c)) =
    some (3, [[0, 1], [2]], [0, 0, 1]) := by decide +kernel

/-- **gen_search_space_eq** — `_transform_search_space` as written today returns, for every search space and flag
combination: the hand model's raw bounds, consecutive column ranges, and the matching back map. -/
theorem gen_search_space_eq (E : Env) (c : TCfg) (space : List Dist) :
    runSS prog E c space = some (space.flatMap (boundsOf E c), colsOf 0 space, backOf 0 space) := by
  obtain ⟨s', hl, hi, hr, hc, he⟩ := gen_ssLoop_eq E c space SS.init rfl rfl
  simp only [SS.init, List.nil_append, Nat.zero_add, List.length_nil] at hi hr hc he
  have h3 := flatMap_boundsOf_length E c space
  have h4 := backOf_length 0 space
  simp only [runSS, hl, gen_nBounds_eq, hi, hr, hc, he, h3, h4, and_self, if_true]

example : runSS prog E0 ⟨true, true, false⟩ [.cat [.none, .nan], .int .int 1 9 false 4, .cat [.none]] =
    some ([(0, 1), (0, 1), (-1, 11), (0, 1)], [[0, 1], [2], [3]], [0, 0, 1, 2]) := by decide +kernel

/-- **gen_bounds_eq** — the `bounds` property as written today is the hand model's `bounds` (unit rows under 0-1 scaling). -/
theorem gen_bounds_eq (E : Env) (c : TCfg) (space : List Dist) :
    boundsGen prog E c space = some (Dist.bounds E c space) := by
  simp only [boundsGen, gen_search_space_eq, Option.map_some, Dist.bounds]
  cases c.t01 <;> simp [prog]
example : boundsGen prog E0 ⟨true, true, true⟩ [.cat [.none, .nan], .int .int 1 9 false 4] = some [(0, 1), (0, 1), (0, 1)] ∧
    boundsGen prog E0 ⟨true, true, false⟩ [.cat [.none, .nan], .int .int 1 9 false 4] = some [(0, 1), (0, 1), (-1, 11)] := by
  decide +kernel

/-! ## `transform` -/

/-- one iteration of the generated loop of `transform` appends exactly the hand model's `encode` of this parameter -/
theorem gen_tArm_eq (E : Env) (c : TCfg) (d : Dist) (v : Tok) (out : List Rat) :
    runT (tnumEval prog E c d) prog.tInit d v (if prog.tCatG.eval c d then prog.tCat else prog.tNum) ⟨out, [], none⟩ =
      (encode E c d v).map (fun raw => ⟨out ++ raw, [], none⟩) := by
  cases d with
  | cat cs =>
    have hg : prog.tCatG.eval c (.cat cs) = true := by simp [prog, G.eval]
    simp only [hg, if_true, encode]
    cases hi : catIndex cs v with
    | error e => simp [prog, runT, TStmt.step, hi, Except.map]
    | ok i =>
      have hlt := catIndex_lt cs v i hi
      have hw := window_hot cs.length i 1
      simp [prog, runT, TStmt.step, hi, Except.map, W.eval, hlt, oneHot] at hw ⊢
      exact hw
  | flt cl low high log step =>
    have hg : prog.tCatG.eval c (.flt cl low high log step) = false := by simp [prog, G.eval]
    simp only [hg, encode]
    cases hn : v.num? with
    | none => simp [prog, runT, TStmt.step, hn, Except.map]
    | some q =>
      have ht := gen_tnum_eq E c (.flt cl low high log step) q (by simp)
      generalize tnumEval prog E c _ = tn at ht
      simp [prog, runT, TStmt.step, hn, ht, W.eval, window, Except.map, List.range_succ]
  | int cl low high log step =>
    have hg : prog.tCatG.eval c (.int cl low high log step) = false := by simp [prog, G.eval]
    simp only [hg, encode]
    cases hn : v.num? with
    | none => simp [prog, runT, TStmt.step, hn, Except.map]
    | some q =>
      have ht := gen_tnum_eq E c (.int cl low high log step) q (by simp)
      generalize tnumEval prog E c _ = tn at ht
      simp [prog, runT, TStmt.step, hn, ht, W.eval, window, Except.map, List.range_succ]

example : (runT (tnumEval prog E0 ⟨true, true, false⟩ (.cat [.none, .nan])) prog.tInit (.cat [.none, .nan]) .nan prog.tCat
    ⟨[7], [], none⟩).toOption.map (fun s => s.out) = some [7, 0, 1] := by decide +kernel

/-- the whole generated loop of `transform` = the raw columns of the configuration, appended to what is there -/
theorem gen_tLoop_eq (E : Env) (c : TCfg) (space : List Dist) (params : List Tok) (out : List Rat) :
    tLoop prog E c space params out = (encodeAll E c space params).map (fun raw => out ++ raw) := by
  induction space generalizing params out with
  | nil => cases params <;> simp [tLoop, encodeAll, Except.map]
  | cons d ds ih =>
    cases params with
    | nil => simp [tLoop, encodeAll, Except.map]
    | cons v vs =>
      simp only [tLoop, encodeAll, gen_tArm_eq]
      cases he : encode E c d v with
      | error e => simp [Except.map]
      | ok a =>
        simp only [Except.map, List.isEmpty_nil, if_true, ih]
        cases hr : encodeAll E c ds vs with
        | error e => simp [Except.map]
        | ok b => simp [Except.map]
example : tLoop prog E0 ⟨true, true, false⟩ [.cat [.none, .nan], .int .int 1 9 false 4] [.nan, .int 5] [7] = .ok [7, 0, 1, 5] := by
  decide +kernel

/-- **gen_transform_eq** — `_SearchSpaceTransform.transform` as written today (loop, one-hot writes, numerical writes,
the `transform_0_1` block with its zero-width mask) is the hand model's `transform`, for every search space,
configuration (also ill-typed / too short / too long ones: same error) and flag combination. -/
theorem gen_transform_eq (E : Env) (c : TCfg) (space : List Dist) (params : List Tok) :
    transformGen prog E c space params = Dist.transform E c space params := by
  have hs : applyScale E c prog.tMask prog.tScale = scale01 := by
    funext b x; exact gen_scale_eq E c b x
  simp only [transformGen, gen_tLoop_eq, transform_eq_encodeAll, gen_search_space_eq, hs]
  cases encodeAll E c space params with
  | error e => simp [Except.map]
  | ok raw => cases c.t01 <;> simp [Except.map]

example : transformGen prog E0 ⟨true, true, true⟩ [.cat [.none, .nan], .int .int 1 9 false 4, .flt .float 2 2 false none]
      [.nan, .int 5, .flt 2] = .ok [0, 1, 1/2, 1/2] ∧
    transformGen prog E0 ⟨true, true, false⟩ [.cat [.none, .nan], .int .int 1 9 false 4] [.int 7, .int 5] = .error .valueError ∧
    transformGen prog E0 ⟨true, true, false⟩ [.cat [.none, .nan]] [] = .error .keyError := by decide +kernel

/-! ## `untransform` -/

/-- the generated loop of `untransform` over the column ranges = decoding consecutive segments -/
theorem gen_uLoop_eq (E : Env) (c : TCfg) (ys : List Rat) (space : List Dist) (off : Nat)
    (h : off + totalWidth space = ys.length) :
    uLoop prog E c ys space (colsOf off space) = decodeAll E c space (ys.drop off) := by
  induction space generalizing off with
  | nil =>
    have : ys.drop off = [] := by
      apply List.eq_nil_of_length_eq_zero; simp only [List.length_drop, totalWidth] at *; omega
    simp [uLoop, this, decodeAll]
  | cons d ds ih =>
    simp only [totalWidth] at h
    have hg := gather_range ys off d.width (by omega)
    have hnlt : ¬ (ys.drop off).length < d.width := by simp only [List.length_drop]; omega
    simp only [colsOf, uLoop, hg, gen_decode_eq, ih (off + d.width) (by omega), decodeAll, if_neg hnlt, List.drop_drop]
    cases decode E c d ((ys.drop off).take d.width) <;> cases decodeAll E c ds (ys.drop (off + d.width)) <;> rfl
example : uLoop prog E0 ⟨true, true, false⟩ [9, 0, 1, 5] [.cat [.none, .nan], .int .int 1 9 false 4]
    (colsOf 1 [.cat [.none, .nan], .int .int 1 9 false 4]) = some [.nan, .int 5] := by decide +kernel

/-- **gen_untransform_eq** — `_SearchSpaceTransform.untransform` as written today (un-scaling, column selection through
`column_to_encoded_columns`, first-maximum `argmax` for categoricals, `_untransform_numerical_param` otherwise) is the
hand model's `untransform`, for every search space, every vector (also of the wrong length) and flag combination. -/
theorem gen_untransform_eq (E : Env) (c : TCfg) (space : List Dist) (xs : List Rat) :
    untransformGen prog E c space xs = untransform E c space xs := by
  have hu : (fun b x => prog.uUnscale.eval E c default (fun _ => 0) (rhoS b x)) = unscale01 := by
    funext b x; exact gen_unscale_eq E c b x
  simp only [untransformGen, gen_search_space_eq, hu, flatMap_boundsOf_length]
  by_cases h : xs.length = totalWidth space
  · rw [if_pos h, untransform_eq_decodeAll E c space xs h]
    have hl : (if c.t01 then List.zipWith unscale01 (space.flatMap (boundsOf E c)) xs else xs).length = totalWidth space := by
      have hf := flatMap_boundsOf_length E c space
      cases c.t01
      · simpa using h
      · simp only [if_true, List.length_zipWith, hf, h, Nat.min_self]
    have := gen_uLoop_eq E c _ space 0 (by rw [hl]; simp)
    simpa using this
  · rw [if_neg h, untransform_wrong_length E c space xs h]

example : untransformGen prog E0 ⟨true, true, true⟩ [.cat [.none, .nan], .int .int 1 9 false 4, .flt .float 2 2 false none]
      [1/3, 1/3, 7/10, 0] = some [.none, .int 9, .flt 2] ∧
    untransformGen prog E0 ⟨true, true, false⟩ [.cat [.none, .nan]] [1] = none := by decide +kernel

/-! ## the property theorems, restated for the interpreters of the generated IR -/

/-- **gen_untransform_transform_id** (C11) — for the code as written today: every configuration of canonical contained
values is transformed without error into the declared bounds and `untransform` returns exactly the configuration;
every search space, every flag combination. -/
theorem gen_untransform_transform_id (E : Env) (c : TCfg) (hE : EnvOK E) (space : List Dist) (params : List Tok)
    (hwf : ∀ d ∈ space, WF d) (hv : List.Forall₂ (Canon E) space params) :
    ∃ xs bs, transformGen prog E c space params = .ok xs ∧ boundsGen prog E c space = some bs ∧
      List.Forall₂ InB bs xs ∧ untransformGen prog E c space xs = some params := by
  obtain ⟨xs, h1, h2, h3⟩ := C11.untransform_transform_id E c hE space params hwf hv
  exact ⟨xs, _, by rw [gen_transform_eq]; exact h1, gen_bounds_eq E c space, h2, by rw [gen_untransform_eq]; exact h3⟩
-- non-vacuity: a mixed space with a canonical configuration (the hypotheses of the theorem are met) …
example : List.Forall₂ (Canon E0) [.cat [.bool true, .int 1, .nan], .flt .float 0 1 false (some (1/4))]
    [.nan, .flt ((3 : Int) * (1/4) + 0)] :=
  .cons ⟨2, by simp, by simp [firstIdx, Tok.catEq, Tok.pyEq]⟩ (.cons ⟨3, rfl, by norm_num, by norm_num⟩ .nil)
-- … and the round trip computed by the interpreters of the generated IR
example : transformGen prog E0 ⟨true, true, false⟩ [.cat [.bool true, .int 1, .nan], .flt .float 0 1 false (some (1/4))]
      [.nan, .flt (3/4)] = .ok [0, 0, 1, 3/4] ∧
    untransformGen prog E0 ⟨true, true, false⟩ [.cat [.bool true, .int 1, .nan], .flt .float 0 1 false (some (1/4))]
      [0, 0, 1, 3/4] = some [.nan, .flt (3/4)] := by decide +kernel

/-- **gen_untransform_in_domain** (C11) — for the code as written today: every point of the declared box untransforms
to a configuration of members of the declared domains (same hypotheses as `C11.untransform_in_domain`). -/
theorem gen_untransform_in_domain (E : Env) (c : TCfg) (hE : EnvOK E) (space : List Dist) (xs : List Rat)
    (hwf : ∀ d ∈ space, WF d) (hhc : ∀ d ∈ space, HC E d) (hcfg : c.tlog = true ∨ c.tstep = false)
    (bs : List (Rat × Rat)) (hbs : boundsGen prog E c space = some bs) (hb : List.Forall₂ InB bs xs) :
    ∃ params, untransformGen prog E c space xs = some params ∧ List.Forall₂ Member space params := by
  rw [gen_bounds_eq] at hbs
  cases hbs
  obtain ⟨ps, h1, h2⟩ := C11.untransform_in_domain E c hE space xs hwf hhc hcfg hb
  exact ⟨ps, by rw [gen_untransform_eq]; exact h1, h2⟩
-- non-vacuity: a corner of the widened box of a stepped float maps onto the last grid point
example : boundsGen prog E0 ⟨true, true, false⟩ [.flt .float 0 1 false (some (1/4))] = some [(-1/8, 9/8)] ∧
    untransformGen prog E0 ⟨true, true, false⟩ [.flt .float 0 1 false (some (1/4))] [9/8] = some [.flt 1] := by decide +kernel
example : InB (-1/8, 9/8) (9/8) := ⟨by norm_num, by norm_num⟩

end OptunaVerif.C11Gen
