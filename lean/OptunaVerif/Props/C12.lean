import OptunaVerif.Lemmas.Best
/-!
# C12 — best_trial / best_value / best_trials are exactly the optimum of the history

Everything is stated over **all** trial lists / event histories (no bound on length, number of objectives or
values), for the models of `Model/Best.lean`, whose comparison operators, ASC/DESC flags, SQL rank table and
branch structure are regenerated from `/repo` on every run (`Generated/Best.lean`).  The models are tied to the
running code by `verif/props/c12.py` on every storage configuration.

Vocabulary (Lemmas/Best.lean): `CompleteAt p ts i v` — trial number `i` of `ts` is COMPLETE, satisfies `p` and has
the value `v`; `IsBest d p ts i` — it is one and no such trial beats it in direction `d`; `OptResult d p ts o` — `o`
is a right answer (`none` = `ValueError` exactly when there is no such trial); `WF n ts` — every COMPLETE trial has
`n` values (enforced by `Study.tell` / `Study.add_trial`; an invariant of every history: `history_wellformed`).
Precondition throughout: values of COMPLETE trials are NaN-free (`EVal`), as `tell` / `add_trial` enforce.
-/
namespace OptunaVerif.C12
open OptunaVerif OptunaVerif.Best

/-! ## 0. the executable specification used by the correspondence check -/

/-- `optSet` (what the driver validates the implementation's answers against) is exactly the set of optima. -/
theorem mem_optSet_iff (d : Dir) (p : BTrial → Bool) (ts : List BTrial) (i : Nat) :
    i ∈ optSet d p ts ↔ IsBest d p ts i := by
  simp only [optSet, List.mem_map, List.mem_filter, List.all_eq_true]
  constructor
  · rintro ⟨⟨i', v⟩, ⟨hm, hall⟩, rfl⟩
    refine ⟨v, (mem_valuedIn_complete p ts i' v).mp hm, ?_⟩
    intro j w hc
    exact hall (j, w) ((mem_valuedIn_complete p ts j w).mpr hc)
  · rintro ⟨v, hv, hall⟩
    refine ⟨(i, v), ⟨(mem_valuedIn_complete p ts i v).mpr hv, ?_⟩, rfl⟩
    rintro ⟨j, w⟩ hm
    exact hall j w ((mem_valuedIn_complete p ts j w).mp hm)

/-! ## 1. the base-class scan -/

/-- **scan_is_optimal**: `BaseStorage.get_best_trial` returns a COMPLETE trial that no COMPLETE trial beats
(±∞ included), and raises `ValueError` exactly when there is no COMPLETE trial. -/
theorem scan_is_optimal (d : Dir) (ts : List BTrial) : OptResult d anyTrial ts (scanBest d ts) := by
  rw [scanBest_eq]; exact pick_valuedIn_opt d anyTrial ts

example : scanBest .minimize
    [⟨.pruned, some [.ninf], .absent⟩, ⟨.complete, some [.fin 2], .absent⟩, ⟨.complete, some [.ninf], .absent⟩,
     ⟨.complete, some [.ninf], .absent⟩, ⟨.fail, none, .absent⟩] = some 2 := by decide
example : scanBest .maximize
    [⟨.complete, some [.fin 2], .absent⟩, ⟨.complete, some [.pinf], .absent⟩, ⟨.running, none, .absent⟩] = some 1 := by decide
example : scanBest .maximize [⟨.pruned, some [.fin 2], .absent⟩, ⟨.running, none, .absent⟩] = none := by decide

/-! ## 2. the in-memory incremental cache -/

/-- **history_wellformed**: after any history every COMPLETE trial carries one value per objective. -/
theorem history_wellformed (dirs : List Dir) (evs : List Ev) : WF dirs.length (Mem.run dirs evs).trials :=
  memRun_wf dirs evs

/-- **incremental_is_optimal** (invariant over ALL histories): whatever sequence of `create_new_trial` /
`set_trial_state_values` / constraint writes happened — in any order of completion —, the cached `best_trial_id`
is an optimum of the COMPLETE trials so far, and it is `None` exactly when there is none. -/
theorem incremental_is_optimal (d : Dir) (evs : List Ev) :
    OptResult d anyTrial (Mem.run [d] evs).trials (Mem.run [d] evs).best :=
  (memRun_inv_from d Mem.init evs (memInit_inv d)).2

/-- **incremental_eq_scan**: the incrementally maintained answer and a from-scratch scan of the same history agree:
both raise, or both return trials with the same (optimal) value. -/
theorem incremental_eq_scan (d : Dir) (evs : List Ev) :
    ((Mem.run [d] evs).best = none ↔ scanBest d (Mem.run [d] evs).trials = none) ∧
    ∀ i j v w, (Mem.run [d] evs).best = some i → scanBest d (Mem.run [d] evs).trials = some j →
      CompleteAt anyTrial (Mem.run [d] evs).trials i v → CompleteAt anyTrial (Mem.run [d] evs).trials j w → v = w := by
  have h1 := incremental_is_optimal d evs
  have h2 := scan_is_optimal d (Mem.run [d] evs).trials
  refine ⟨?_, ?_⟩
  · constructor
    · intro hn
      rw [hn] at h1
      cases hs : scanBest d (Mem.run [d] evs).trials with
      | none => rfl
      | some j =>
        rw [hs] at h2
        obtain ⟨v, hv, _⟩ := h2
        exact absurd hv (h1 j v)
    · intro hn
      rw [hn] at h2
      cases hs : (Mem.run [d] evs).best with
      | none => rfl
      | some j =>
        rw [hs] at h1
        obtain ⟨v, hv, _⟩ := h1
        exact absurd hv (h2 j v)
  · intro i j v w hi hj hv hw
    rw [hi] at h1; rw [hj] at h2
    exact isBest_value_unique d anyTrial _ i j v w h1 h2 hv hw

/-- The comparison the cache uses (operators and branches read from the source) is "strictly better":
a later trial with an equal value does not replace the cached one. -/
theorem incremental_replaces_iff_strictly_better (d : Dir) (cached new : EVal) :
    memReplace d cached new = better d new cached := memReplace_eq d cached new

-- trial 1 completes before trial 0; equal values keep the earlier *completion*; +∞ handled
example : (Mem.run [.minimize] [.create .running none .absent, .create .running none .absent,
    .setState 1 .complete (some [.fin 3]), .setState 0 .complete (some [.fin 3])]).best = some 1 := by decide
example : (Mem.run [.maximize] [.create .complete (some [.fin 3]) .absent, .create .running none .absent,
    .setState 1 .complete (some [.pinf]), .create .pruned (some [.pinf]) .absent,
    .setState 1 .complete (some [.fin 0])]).best = some 1 := by decide

/-! ## 3. the RDB query -/

/-- **sql_rank_order_iso**: on stored `(value, value_type)` pairs the `ORDER BY` key of `find_min_value_trial_id`
(resp. `find_max…`) — rank of the type first, then the nullable value, ASC (resp. DESC) — is order-isomorphic to
`<` (resp. `>`) on the values they encode, ±∞ included. -/
theorem sql_rank_order_iso (useMax : Bool) (a b : EVal) :
    sqlBefore useMax (encode a) (encode b) = if useMax then b.lt a else a.lt b :=
  sqlBefore_encode useMax a b

/-- `stored_repr_to_value ∘ value_to_stored_repr = id` (incl. ±∞). -/
theorem stored_value_roundtrip (v : EVal) : decode (encode v) = some v := decode_encode v

/-- On well-formed single-objective data the query returns exactly what the scan returns. -/
theorem rdb_eq_scan (d : Dir) (ts : List BTrial) (hwf : WF 1 ts) : rdbBest d ts = scanBest d ts :=
  rdbBest_eq_scan d ts hwf

/-- **rdb_is_optimal**: `ORDER BY … LIMIT 1` over the stored encoding returns an optimum of the COMPLETE trials. -/
theorem rdb_is_optimal (d : Dir) (ts : List BTrial) (hwf : WF 1 ts) : OptResult d anyTrial ts (rdbBest d ts) := by
  rw [rdb_eq_scan d ts hwf]; exact scan_is_optimal d ts

/-- … in particular after every history. -/
theorem rdb_is_optimal_history (d : Dir) (evs : List Ev) :
    OptResult d anyTrial (Mem.run [d] evs).trials (rdbBest d (Mem.run [d] evs).trials) :=
  rdb_is_optimal d _ (history_wellformed [d] evs)

example : rdbBest .minimize [⟨.complete, some [.fin 2], .absent⟩, ⟨.complete, some [.pinf], .absent⟩,
    ⟨.complete, some [.ninf], .absent⟩, ⟨.pruned, some [.ninf], .absent⟩] = some 2 := by decide
example : rdbBest .maximize [⟨.complete, some [.fin 2], .absent⟩, ⟨.complete, some [.pinf], .absent⟩,
    ⟨.complete, some [.ninf], .absent⟩] = some 1 := by decide
example : sqlBefore false (encode .ninf) (encode (.fin (-5))) = true := by decide

/-! ## 4. `Study.best_trial` -/

/-- What `Study.best_trial` does with a right storage answer: it returns the storage's trial when that trial records
no violation; otherwise an optimum of the feasible COMPLETE trials; `ValueError` when there is no COMPLETE trial, or
the storage's trial records a violation and no feasible COMPLETE trial exists. -/
theorem study_best_trial_spec (alg : Dir → List BTrial → Option Nat) (d : Dir) (ts : List BTrial)
    (hopt : OptResult d anyTrial ts (alg d ts)) :
    match studyBestTrial alg [d] ts with
    | .ok r => (alg d ts = some r ∧ ∃ t, ts[r]? = some t ∧ violated t = false) ∨
               (∃ b tb, alg d ts = some b ∧ ts[b]? = some tb ∧ violated tb = true ∧ IsBest d feasible ts r)
    | .error e => e = .valueError ∧ ((∀ j w, ¬ CompleteAt anyTrial ts j w) ∨
               (∃ b tb, alg d ts = some b ∧ ts[b]? = some tb ∧ violated tb = true ∧ ∀ j w, ¬ CompleteAt feasible ts j w)) := by
  have hdef : studyBestTrial alg [d] ts =
      (match alg d ts with
       | none => .error .valueError
       | some b => fallback d ts b) := rfl
  rw [hdef]
  cases ha : alg d ts with
  | none =>
    rw [ha] at hopt
    exact ⟨rfl, Or.inl hopt⟩
  | some b =>
    rw [ha] at hopt
    obtain ⟨v, ⟨tb, htb, _⟩, _⟩ := hopt
    have hf := fallback_spec d ts b tb htb
    show (match fallback d ts b with
      | .ok r => _
      | .error e => _)
    cases hfb : fallback d ts b with
    | ok r =>
      rw [hfb] at hf
      rcases hf with ⟨h1, h2⟩ | ⟨h1, h2⟩
      · subst h2; exact Or.inl ⟨rfl, tb, htb, h1⟩
      · exact Or.inr ⟨b, tb, rfl, htb, h1, h2⟩
    | error e =>
      rw [hfb] at hf
      refine ⟨?_, Or.inr ⟨b, tb, rfl, htb, hf.1, hf.2⟩⟩
      -- the only error `fallback` produces is ValueError
      unfold fallback at hfb
      simp only [htb] at hfb
      split at hfb
      · split at hfb
        · cases hfb; rfl
        · cases hfb
      · cases hfb

/-- **best_is_complete**: whatever `best_trial` returns is a COMPLETE trial of the study. -/
theorem best_is_complete (alg : Dir → List BTrial → Option Nat) (d : Dir) (ts : List BTrial)
    (hopt : OptResult d anyTrial ts (alg d ts)) (r : Nat) (h : studyBestTrial alg [d] ts = .ok r) :
    ∃ v, CompleteAt anyTrial ts r v := by
  have := study_best_trial_spec alg d ts hopt
  rw [h] at this
  rcases this with ⟨h1, _⟩ | ⟨_, _, _, _, _, v, hv, _⟩
  · rw [h1] at hopt
    obtain ⟨v, hv, _⟩ := hopt
    exact ⟨v, hv⟩
  · exact ⟨v, completeAt_mono _ _ _ _ hv⟩

/-- **best_unconstrained_is_optimum**: a returned trial that records no constraint values is the storage's answer,
i.e. no COMPLETE trial beats it. -/
theorem best_unconstrained_is_optimum (alg : Dir → List BTrial → Option Nat) (d : Dir) (ts : List BTrial)
    (hopt : OptResult d anyTrial ts (alg d ts)) (r : Nat) (t : BTrial)
    (h : studyBestTrial alg [d] ts = .ok r) (ht : ts[r]? = some t) (hc : t.cons.get = none) :
    IsBest d anyTrial ts r := by
  have := study_best_trial_spec alg d ts hopt
  rw [h] at this
  rcases this with ⟨h1, _⟩ | ⟨_, _, _, _, _, v, ⟨t', ht', _, hf, _⟩, _⟩
  · rw [h1] at hopt; exact hopt
  · rw [ht] at ht'; cases ht'
    simp [feasible, hc] at hf

/-- **constraint_fallback_feasible**: when the returned trial has recorded (NaN-free) constraint values, it is
feasible and no feasible COMPLETE trial beats it. -/
theorem constraint_fallback_feasible (alg : Dir → List BTrial → Option Nat) (d : Dir) (ts : List BTrial)
    (hopt : OptResult d anyTrial ts (alg d ts)) (r : Nat) (t : BTrial) (cs : List XVal)
    (h : studyBestTrial alg [d] ts = .ok r) (ht : ts[r]? = some t) (hc : t.cons = .vals cs)
    (hnan : ∀ x ∈ cs, x ≠ .nan) :
    feasible t = true ∧ IsBest d feasible ts r := by
  have := study_best_trial_spec alg d ts hopt
  rw [h] at this
  rcases this with ⟨h1, t', ht', hv⟩ | ⟨_, _, _, _, _, hb⟩
  · rw [ht] at ht'; cases ht'
    have hfeas : feasible t = true := by
      simp only [violated, hc, Cons.get, violatedList_iff_not_feasible cs hnan, Bool.not_eq_false'] at hv
      simp only [feasible, hc, Cons.get, hv]
    refine ⟨hfeas, ?_⟩
    rw [h1] at hopt
    obtain ⟨v, ⟨t', ht', hs, _, hval⟩, hall⟩ := hopt
    rw [ht] at ht'; cases ht'
    exact ⟨v, ⟨t, ht, hs, hfeas, hval⟩, fun j w hj => hall j w (completeAt_mono _ _ _ _ hj)⟩
  · refine ⟨?_, hb⟩
    obtain ⟨v, ⟨t', ht', _, hf, _⟩, _⟩ := hb
    rw [ht] at ht'; cases ht'; exact hf

/-- **best_trial_feasible_when_possible**: if the best-valued trial records a violation and a feasible COMPLETE
trial exists, `best_trial` returns (no `ValueError`) a feasible trial that no feasible COMPLETE trial beats; if
none exists it raises `ValueError`. -/
theorem best_trial_feasible_when_possible (alg : Dir → List BTrial → Option Nat) (d : Dir) (ts : List BTrial)
    (hopt : OptResult d anyTrial ts (alg d ts)) (b : Nat) (tb : BTrial)
    (hb : alg d ts = some b) (htb : ts[b]? = some tb) (hviol : violated tb = true) :
    ((∃ j w, CompleteAt feasible ts j w) → ∃ r, studyBestTrial alg [d] ts = .ok r ∧ IsBest d feasible ts r) ∧
    ((∀ j w, ¬ CompleteAt feasible ts j w) → studyBestTrial alg [d] ts = .error .valueError) := by
  have hspec := study_best_trial_spec alg d ts hopt
  constructor
  · rintro ⟨j, w, hjw⟩
    cases hres : studyBestTrial alg [d] ts with
    | ok r =>
      rw [hres] at hspec
      rcases hspec with ⟨h1, t, ht, hv⟩ | ⟨_, _, _, _, _, hbest⟩
      · rw [hb] at h1; cases h1
        rw [htb] at ht; cases ht
        rw [hviol] at hv; cases hv
      · exact ⟨r, rfl, hbest⟩
    | error e =>
      rw [hres] at hspec
      rcases hspec.2 with h1 | ⟨_, _, _, _, _, h1⟩
      · exact absurd (completeAt_mono _ _ _ _ hjw) (h1 j w)
      · exact absurd hjw (h1 j w)
  · intro hno
    cases hres : studyBestTrial alg [d] ts with
    | ok r =>
      rw [hres] at hspec
      rcases hspec with ⟨h1, t, ht, hv⟩ | ⟨_, _, _, _, _, v, hv, _⟩
      · rw [hb] at h1; cases h1
        rw [htb] at ht; cases ht
        rw [hviol] at hv; cases hv
      · exact absurd hv (hno r v)
    | error e =>
      rw [hres] at hspec
      rw [hspec.1]

/-- `best_trial` of a multi-objective study raises `RuntimeError`. -/
theorem best_trial_multi_objective_raises (alg : Dir → List BTrial → Option Nat) (d1 d2 : Dir) (ds : List Dir)
    (ts : List BTrial) : studyBestTrial alg (d1 :: d2 :: ds) ts = .error .runtimeError := rfl

/-- The three storage algorithms satisfy the hypothesis of the theorems above after every history. -/
theorem storage_answers_are_optimal (d : Dir) (evs : List Ev) :
    OptResult d anyTrial (Mem.run [d] evs).trials (scanBest d (Mem.run [d] evs).trials) ∧
    OptResult d anyTrial (Mem.run [d] evs).trials ((fun _ _ => (Mem.run [d] evs).best) d (Mem.run [d] evs).trials) ∧
    OptResult d anyTrial (Mem.run [d] evs).trials (rdbBest d (Mem.run [d] evs).trials) :=
  ⟨scan_is_optimal d _, incremental_is_optimal d evs, rdb_is_optimal_history d evs⟩

-- the best-valued trial (0) violates its constraint → the best feasible one (2) is returned
example : studyBestTrial scanBest [.minimize]
    [⟨.complete, some [.fin 0], .vals [.fin 1]⟩, ⟨.complete, some [.fin 1], .absent⟩,
     ⟨.complete, some [.fin 2], .vals [.fin 0, .ninf]⟩, ⟨.complete, some [.fin 3], .vals [.fin (-1)]⟩] = .ok 2 := by decide
-- … and ValueError when nothing is feasible
example : studyBestTrial scanBest [.maximize]
    [⟨.complete, some [.pinf], .vals [.pinf]⟩, ⟨.complete, some [.fin 1], .null⟩] = .error .valueError := by decide
-- a best-valued trial without recorded constraints is returned as is (upstream: undefined)
example : studyBestTrial scanBest [.minimize]
    [⟨.complete, some [.fin 0], .absent⟩, ⟨.complete, some [.fin 1], .vals [.fin 0]⟩] = .ok 0 := by decide

-- NaN among the recorded constraints: `any(x > 0)` and `all(x <= 0)` are both False, so `Study.best_trial` treats the
-- trial as not violating while `_get_feasible_trials` treats it as infeasible — this is why
-- `constraint_fallback_feasible` asks for NaN-free constraint values.
example : violatedList [.nan, .fin (-1)] = false ∧ feasibleList [.nan, .fin (-1)] = false := by decide
-- the hypothesis of `constraint_fallback_feasible` is satisfiable and its conclusion is not trivial
example : violatedList [.fin 0, .ninf] = false ∧ feasibleList [.fin 0, .ninf] = true ∧ violatedList [.fin 0, .pinf] = true := by decide

/-! ## 5. the Pareto front -/

/-- **pareto_front_1d / 2d / nd**: on a lex-sorted duplicate-free array each path of
`_is_pareto_front_for_unique_sorted` flags exactly the rows that no row dominates. -/
theorem pareto_front_1d (u : List Point) (hrect : Rect 1 u) (hs : LexSorted u) :
    front1d u = u.map (fun r => !dominatedIn u r) := front1d_exact u hrect hs
theorem pareto_front_2d (u : List Point) (hrect : Rect 2 u) (hs : LexSorted u) :
    front2d u = u.map (fun r => !dominatedIn u r) := front2d_exact u hrect hs
theorem pareto_front_nd (k : Nat) (u : List Point) (hrect : Rect (k + 1) u) (hs : LexSorted u) :
    frontNd u = u.map (fun r => !dominatedIn u r) := frontNd_exact k u hrect hs

/-- The model of `np.unique(axis=0)` returns the same rows, strictly increasing in lexicographic order. -/
theorem unique_lexsort_spec (n : Nat) (rows : List Point) (h : Rect n rows) :
    LexSorted (uniqueLexsort rows) ∧ ∀ x, x ∈ uniqueLexsort rows ↔ x ∈ rows :=
  ⟨uniqueLexsort_sorted n rows h, mem_uniqueLexsort rows⟩

/-- **pareto_front_exact**: `_is_pareto_front(loss_values, assume_unique_lexsorted=False)` flags row `i` iff no row
dominates it — for any number `k+1 ≥ 1` of columns, with duplicates, ties in the first column and ±∞. -/
theorem pareto_front_exact (k : Nat) (rows : List Point) (hrect : Rect (k + 1) rows) :
    isParetoFront rows = rows.map (fun r => !dominatedIn rows r) := isParetoFront_exact k rows hrect

example : isParetoFront [[.fin 1, .fin 2], [.fin 1, .fin 2], [.fin 1, .fin 3], [.fin 0, .pinf], [.ninf, .pinf], [.fin 2, .fin 2]]
    = [true, true, false, false, true, false] := by decide
example : isParetoFront [[.fin 1], [.fin 0], [.fin 0], [.pinf]] = [false, true, true, false] := by decide
example : Rect 3 [[.fin 1, .fin 2, .fin 3], [.fin 1, .fin 3, .fin 2], [.fin 2, .fin 2, .fin 3], [.fin 1, .fin 2, .fin 3]] := by decide
example : dominatedIn [[.fin 1, .fin 2, .fin 3], [.fin 1, .fin 3, .fin 2], [.fin 2, .fin 2, .fin 3]] [.fin 2, .fin 2, .fin 3] = true := by decide
-- the N-D path (three columns), evaluated through the theorem
example : isParetoFront [[.fin 1, .fin 2, .fin 3], [.fin 1, .fin 3, .fin 2], [.fin 2, .fin 2, .fin 3], [.fin 1, .fin 2, .fin 3], [.ninf, .pinf, .pinf]]
    = [true, true, false, true, true] := by
  rw [pareto_front_exact 2 _ (by decide)]; decide

/-- Negating a maximised objective turns direction-aware dominance into plain dominance of loss rows. -/
theorem normalize_dominance (dirs : List Dir) (a b : List EVal) :
    dominates (normRow dirs a) (normRow dirs b) = domDir dirs a b := dominates_normRow dirs a b

/-- **best_trials_exact** (list form): on a well-formed history of a study with `k+1` objectives `Study.best_trials`
does not raise and returns, in number order, exactly the eligible trials (COMPLETE; feasible if any trial of the
study carries the constraints key) that no eligible trial dominates under the study's directions. -/
theorem best_trials_exact (k : Nat) (dirs : List Dir) (hd : dirs.length = k + 1) (ts : List BTrial)
    (hwf : WF dirs.length ts) : bestTrials dirs ts = some (paretoSpec dirs ts) :=
  bestTrials_eq_spec k dirs hd ts hwf

/-- **best_trials_membership**: trial `i` is returned iff it is eligible and no eligible trial dominates it. -/
theorem best_trials_membership (k : Nat) (dirs : List Dir) (hd : dirs.length = k + 1) (ts : List BTrial)
    (hwf : WF dirs.length ts) (i : Nat) :
    (∃ l, bestTrials dirs ts = some l ∧ i ∈ l) ↔
      ∃ t, ts[i]? = some t ∧ eligible ts t = true ∧
        ∀ (j : Nat) (t' : BTrial), ts[j]? = some t' → eligible ts t' = true → domDir dirs (vals t') (vals t) = false := by
  rw [best_trials_exact k dirs hd ts hwf]
  simp only [Option.some.injEq, exists_eq_left', paretoSpec, List.mem_map, List.mem_filter]
  constructor
  · rintro ⟨⟨t, j⟩, ⟨hmem, hcond⟩, rfl⟩
    rw [List.mem_zipIdx_iff_getElem?] at hmem
    simp only [Bool.and_eq_true, Bool.not_eq_true', dominatedBy, List.any_eq_false] at hcond
    refine ⟨t, hmem, hcond.1, ?_⟩
    intro j' t' ht' he
    have := hcond.2 t' (List.mem_of_getElem? ht')
    simpa [he] using this
  · rintro ⟨t, ht, he, hall⟩
    refine ⟨(t, i), ⟨by rw [List.mem_zipIdx_iff_getElem?]; exact ht, ?_⟩, rfl⟩
    simp only [Bool.and_eq_true, Bool.not_eq_true', dominatedBy, List.any_eq_false]
    refine ⟨he, ?_⟩
    intro t' ht'
    obtain ⟨j, hj, hjt⟩ := List.getElem_of_mem ht'
    have hj' : ts[j]? = some t' := by rw [List.getElem?_eq_getElem hj, hjt]
    cases he' : eligible ts t' with
    | false => simp
    | true => simp [hall j t' hj' he']

/-- … in particular after every history built through the Study API. -/
theorem best_trials_exact_history (k : Nat) (dirs : List Dir) (hd : dirs.length = k + 1) (evs : List Ev) :
    bestTrials dirs (Mem.run dirs evs).trials = some (paretoSpec dirs (Mem.run dirs evs).trials) :=
  best_trials_exact k dirs hd _ (history_wellformed dirs evs)

-- duplicates are both returned; the infeasible best point is dropped once some trial has the constraints key;
-- a trial without the key is then not eligible
example : bestTrials [.minimize, .maximize]
    [⟨.complete, some [.fin 0, .fin 9], .vals [.fin 1]⟩, ⟨.complete, some [.fin 1, .fin 5], .vals [.fin 0]⟩,
     ⟨.complete, some [.fin 1, .fin 5], .vals []⟩, ⟨.complete, some [.fin 1, .fin 4], .vals [.fin 0]⟩,
     ⟨.complete, some [.ninf, .ninf], .vals [.ninf]⟩, ⟨.complete, some [.ninf, .pinf], .absent⟩,
     ⟨.pruned, some [.ninf, .pinf], .vals [.fin 0]⟩] = some [1, 2, 4] := by decide
example : bestTrials [.minimize, .maximize]
    [⟨.complete, some [.fin 0, .fin 9], .absent⟩, ⟨.complete, some [.fin 1, .fin 5], .absent⟩] = some [0] := by decide

end OptunaVerif.C12
