import OptunaVerif.Lemmas.BestIR
/-!
# C12 (translator tie, part 1) — the "best trial" code *as written in the source today* is the reference semantics

`Generated/BestMethods.lean` is regenerated on every run by `verif/translators/tbest.py` from `optuna/study/study.py`
(`Study.best_trial / best_value / best_params / best_trials`), `optuna/study/_multi_objective.py` (`_normalize_value`, `_dominates`,
`_get_pareto_front_trials(_by_trials)`, `_is_pareto_front`, `…_for_unique_sorted`, `…_2d`, `…_nd`),
`optuna/study/_constrained_optimization.py`, `optuna/storages/_in_memory.py` (`_update_cache`, `get_best_trial`, the call sites),
`optuna/storages/_base.py`, `optuna/storages/_rdb/{storage,models}.py` — as DATA of the IR of `Model/BestIR.lean`.

Proved here, for **all** inputs (trial lists, histories, arrays, values incl. ±∞, directions; no bound, no sampling), one equality per
method between the interpreter of the generated data and a FLAG-FREE reference (`Lemmas/BestIR.lean`: today's semantics
written out; the hand model itself takes its operators from `Generated/Best.lean`, so it moves with the source — the bridge
reference = hand model is `Props/C12GenSpec.lean`).  This file does not import `Lemmas/Best.lean`, so its obligations are checked even
when an operator change stops that file from building.

A source change that turns `<` into `<=` in `_update_cache`, drops the sign flip or the `None → inf` rule of `_normalize_value`, weakens
feasibility to `< 0`, reads the fallback's trials from the per-thread cache, folds ±∞ onto ±DBL_MAX in the SQL key, replaces
`np.unique` by lexsort + `np.diff`, compares with `<=` only in `_dominates`, moves `_update_cache` out of the lock … changes the
generated data and the named equality below no longer type-checks.
-/
set_option linter.unusedSimpArgs false
namespace OptunaVerif.C12Gen
open OptunaVerif OptunaVerif.Best OptunaVerif.BestIR
open OptunaVerif.Generated.Best (Cmp)
open OptunaVerif.Generated.BestMethods (prog)

/-! ## constraints -/

/-- the violation test of `Study.best_trial` as written today: constraints recorded and SOME value `> 0` (NaN is not a violation) -/
theorem gen_violation_eq (t : BTrial) :
    prog.violation.eval (consGet prog.consKey t) = some (violatedRef t) := by
  cases hc : t.cons.get <;>
    simp [prog, consGet, ConsPred.eval, ConsPred.evalList, violatedRef, hc, cmpX, zero]
example : prog.violation.eval (consGet prog.consKey ⟨.complete, some [.fin 0], .vals [.fin 0, .fin (1/2)]⟩) = some true ∧
    prog.violation.eval (consGet prog.consKey ⟨.complete, some [.fin 0], .vals [.fin 0, .nan]⟩) = some false ∧
    prog.violation.eval (consGet prog.consKey ⟨.complete, some [.fin 0], .null⟩) = some false := by decide +kernel

/-- `_get_feasible_trials` as written today keeps a trial iff constraints are recorded and ALL values are `<= 0` (0 is feasible) -/
theorem gen_feasible_eq (t : BTrial) : feasibleGen prog t = feasibleRef t := by
  cases hc : t.cons.get <;>
    simp [feasibleGen, prog, consGet, ConsPred.eval, ConsPred.evalList, feasibleRef, hc, cmpX, zero]

example : feasibleGen prog ⟨.complete, some [.fin 0], .vals [.fin 0, .ninf]⟩ = true ∧
    feasibleGen prog ⟨.complete, some [.fin 0], .vals [.fin 0, .fin (1/2)]⟩ = false ∧
    feasibleGen prog ⟨.complete, some [.fin 0], .absent⟩ = false := by decide +kernel

/-! ## `InMemoryStorage._update_cache`, `get_best_trial` -/

/-- the comparison of `_update_cache` as written today: with a cached value and a new value, the new trial replaces the
cached one iff it is STRICTLY better in the study's direction (an equal value keeps the earlier completion) -/
theorem gen_cache_replace_eq (d : Dir) (st : TState) (b : Nat) (bv nv : EVal) (hst : st = .complete) :
    prog.updateCache.eval (UCond.eval ⟨st, some b, [d], some bv, some nv⟩) = some (if better d nv bv then .set else .keep) := by
  subst hst
  have htot := le_total' bv nv
  cases d <;> cases hb : bv.le nv <;> cases hn : nv.le bv <;>
    simp [prog, Generated.BestMethods.updateCache, DT.eval, UCond.eval, UCtx.val, TState.code, Dir.isMax, cmpE, cmpX, xlt,
      better, betterEq, EVal.le, hb, hn] at * <;> simp_all [EVal.le]
example : prog.updateCache.eval (UCond.eval ⟨.complete, some 0, [.minimize], some (.fin 3), some (.fin 3)⟩) = some .keep ∧
    prog.updateCache.eval (UCond.eval ⟨.complete, some 0, [.minimize], some (.fin 3), some .ninf⟩) = some .set ∧
    prog.updateCache.eval (UCond.eval ⟨.complete, some 0, [.maximize], some (.fin 3), some .pinf⟩) = some .set := by decide +kernel

/-- **gen_update_cache_eq** — `_update_cache` as written today is the reference: only COMPLETE trials are considered, the first
one is cached, a multi-objective study keeps the first, a cached trial without value is replaced, else strictly better wins. -/
theorem gen_update_cache_eq (dirs : List Dir) (hd : dirs ≠ []) (m : Mem) (i : Nat) :
    interpUpdateCache prog.updateCache dirs m i = updateCacheRef dirs m i := by
  unfold interpUpdateCache updateCacheRef
  cases ht : m.trials[i]? with
  | none => rfl
  | some t =>
    simp only
    by_cases hs : t.state = .complete
    · cases hb : m.best with
      | none =>
        simp [prog, Generated.BestMethods.updateCache, DT.eval, UCond.eval, hs, TState.code]
      | some b =>
        match dirs with
        | [] => exact absurd rfl hd
        | [d] =>
          cases hbv : (m.trials[b]?).bind BTrial.value? with
          | none => simp [prog, Generated.BestMethods.updateCache, DT.eval, UCond.eval, hs, TState.code, hbv]
          | some bv =>
            cases hnv : t.value? with
            | none => simp [prog, Generated.BestMethods.updateCache, DT.eval, UCond.eval, hs, TState.code, hbv, hnv]
            | some nv =>
              have := gen_cache_replace_eq d t.state b bv nv hs
              simp only [hs] at this
              simp only [Option.bind_some, hbv, hnv, hs, this]
              cases better d nv bv <;> simp
        | _ :: _ :: _ =>
          simp [prog, Generated.BestMethods.updateCache, DT.eval, UCond.eval, hs, TState.code]
    · have hc : (t.state.code != 1) = true := by cases hst : t.state <;> simp_all [TState.code]
      have hne : (t.state != TState.complete) = true := by simpa using hs
      simp [prog, Generated.BestMethods.updateCache, DT.eval, UCond.eval, hc, hne]

example : (interpUpdateCache prog.updateCache [.maximize]
    ⟨[⟨.complete, some [.fin 1], .absent⟩, ⟨.pruned, some [.pinf], .absent⟩, ⟨.complete, some [.fin 2], .absent⟩], some 0⟩ 1).best = some 0 ∧
    (interpUpdateCache prog.updateCache [.maximize]
    ⟨[⟨.complete, some [.fin 1], .absent⟩, ⟨.pruned, some [.pinf], .absent⟩, ⟨.complete, some [.fin 2], .absent⟩], some 0⟩ 2).best = some 2 := by
  decide +kernel

/-- `InMemoryStorage.get_best_trial` as written today: ValueError without a cached id, RuntimeError for a multi-objective study,
else the cached trial. -/
theorem gen_mem_best_eq (dirs : List Dir) (cached : Option Nat) : interpMemBest prog dirs cached = memBestRef dirs cached := by
  cases cached with
  | none => simp [interpMemBest, runGetter, prog, Generated.BestMethods.memGet, DT.eval, GCond.eval, GLeaf.run, memBestRef]
  | some b =>
    by_cases h : 1 < dirs.length <;>
      simp [interpMemBest, runGetter, prog, Generated.BestMethods.memGet, DT.eval, GCond.eval, GLeaf.run, memBestRef, h]
example : interpMemBest prog [.minimize] none = .raise .valueError ∧ interpMemBest prog [.minimize] (some 4) = .ok 4 ∧
    interpMemBest prog [.minimize, .maximize] (some 4) = .raise .runtimeError := by decide +kernel

/-- the in-memory bookkeeping is atomic with the write: every call of `_update_cache` sits inside `with self._lock`, after the
trial was stored; `set_trial_state_values` calls it exactly for finished states -/
theorem gen_cache_update_under_lock :
    prog.cacheCalls = [⟨"create_new_trial", true, true, false⟩, ⟨"set_trial_state_values", true, true, true⟩] := by decide
example : prog.cacheCalls.all (fun c => c.underLock && c.afterSetTrial) = true := by decide

/-! ## `BaseStorage.get_best_trial` -/

/-- Python `max([])` / `min([])` -/
theorem pick_nil_iff {α : Type} (um : Bool) (key : α → EVal) (l : List α) : l.isEmpty = true → pyPick um key l = none := by
  intro h; cases l <;> simp_all [pyPick, firstBest]

/-- **gen_base_best_eq** — the base-class getter as written today: Python `max` (maximise) / `min` (minimise) by value over the
COMPLETE trials, ValueError when there is none. -/
theorem gen_base_best_eq (d : Dir) (ts : List BTrial) :
    interpBaseBest prog [d] ts = GRes.ofOpt (pickRef d (fun _ => true) ts) := by
  have hpool : poolOf prog prog.basePool ts ts = valuedIn [1] (fun _ => true) ts := by
    simp [poolOf, prog]
  unfold interpBaseBest
  rw [hpool]
  cases hl : valuedIn [1] (fun _ => true) ts with
  | nil =>
    simp [runGetter, prog, Generated.BestMethods.baseGet, DT.eval, GCond.eval, GLeaf.run, pickRef, hl, pyPick, firstBest, GRes.ofOpt]
  | cons x xs =>
    cases d <;>
      simp [runGetter, prog, Generated.BestMethods.baseGet, DT.eval, GCond.eval, GLeaf.run, pickRef, hl, Dir.isMax, Sel.useMax]
example : interpBaseBest prog [.minimize] [⟨.complete, some [.fin 2], .absent⟩, ⟨.complete, some [.ninf], .absent⟩,
    ⟨.complete, some [.ninf], .absent⟩, ⟨.pruned, some [.ninf], .absent⟩] = .ok 1 := by decide +kernel     -- tie: the lowest number

/-! ## the RDB queries -/

/-- the `ORDER BY` terms of `find_max_value_trial_id` / `find_min_value_trial_id` as written today are the reference order -/
theorem gen_sql_before_eq (a b : Option Rat × VType) :
    sqlBeforeGen prog.findMax.order a b = sqlBeforeRef true a b ∧ sqlBeforeGen prog.findMin.order a b = sqlBeforeRef false a b := by
  obtain ⟨va, ta⟩ := a
  obtain ⟨vb, tb⟩ := b
  obtain ⟨l1, l2, l3, l4, l5, l6, l7, l8, l9, l10, l11, l12⟩ := rank_lits
  constructor <;> cases ta <;> cases tb <;>
    simp [prog, sqlBeforeGen, SqlKey.eval, sqlBeforeRef, rankRef, l1, l2, l3, l4, l5, l6, l7, l8, l9, l10, l11, l12] <;>
    first
      | (intro h e; subst e; simp [nullLt_irrefl] at h)
      | simp [nullLt, l7, l8, l9, l10, l11, l12]
example : sqlBeforeGen prog.findMax.order (none, .infPos) (some 5, .finite) = true ∧
    sqlBeforeGen prog.findMin.order (none, .infNeg) (some (-5), .finite) = true := by decide +kernel

/-- **gen_sql_order_iso** — on stored `(value, value_type)` pairs the generated `ORDER BY` is order-isomorphic to the order of the
values they encode, ±∞ included: "sorts strictly before" under `find_max…` is `>`, under `find_min…` is `<`. -/
theorem gen_sql_order_iso (a b : EVal) :
    sqlBeforeGen prog.findMax.order (encode a) (encode b) = b.lt a ∧
    sqlBeforeGen prog.findMin.order (encode a) (encode b) = a.lt b := by
  obtain ⟨h1, h2⟩ := gen_sql_before_eq (encode a) (encode b)
  rw [h1, h2]
  constructor <;> cases a <;> cases b <;>
    simp [sqlBeforeRef, rankRef, encode, nullLt, EVal.lt, EVal.le, EVal.toX, XVal.le, rat_lt_decide']

-- +inf beats every finite value, however large (what the DBL_MAX fold of seeded C12-3 gets wrong)
example : sqlBeforeGen prog.findMax.order (encode .pinf) (encode (.fin 179769313486231570814527423731704356798070567525844996598917476803157260780028538760589558632766878171540458953514382464234321326889464182768467546703537516986049910576551282076245490090389328944075868508455133942304583236903222948165808559332123348274797826204144723168738177180919299881250404026184124858368)) = true := by
  decide +kernel

/-- each of the two queries as written today (COMPLETE filter, objective filter, `ORDER BY`, `LIMIT 1`) is the reference query -/
theorem gen_query_eq (useMax : Bool) (rows : List Row) :
    (if useMax then prog.findMax else prog.findMin).run prog.rdbObjective rows = GRes.ofOpt (rdbRowsRef useMax rows) := by
  have hmax : (fun (y cur : Nat × (Option Rat × VType)) => sqlBeforeGen prog.findMax.order y.2 cur.2) =
      (fun y cur => sqlBeforeRef true y.2 cur.2) := by
    funext y cur; exact (gen_sql_before_eq y.2 cur.2).1
  have hmin : (fun (y cur : Nat × (Option Rat × VType)) => sqlBeforeGen prog.findMin.order y.2 cur.2) =
      (fun y cur => sqlBeforeRef false y.2 cur.2) := by
    funext y cur; exact (gen_sql_before_eq y.2 cur.2).2
  have hcode : ∀ s : TState, (s.code == 1) = (s == .complete) := by intro s; cases s <;> rfl
  cases useMax
  · simp only [Bool.false_eq_true, if_false, Query.run, hmin, rdbRowsRef]
    simp [prog, hcode]
  · simp only [if_true, Query.run, hmax, rdbRowsRef]
    simp [prog, hcode]
example : prog.findMin.run prog.rdbObjective [⟨.complete, [(some 2, .finite)]⟩, ⟨.pruned, [(none, .infNeg)]⟩, ⟨.complete, [(none, .infNeg)]⟩] = .ok 2 := by
  decide +kernel

/-- **gen_rdb_best_eq** — `RDBStorage.get_best_trial` as written today: the `find_max…` query when maximising, `find_min…` when
minimising, objective 0, COMPLETE rows only, the reference `ORDER BY … LIMIT 1`; ValueError when no row qualifies. -/
theorem gen_rdb_best_eq (d : Dir) (rows : List Row) :
    interpRdbBest prog [d] rows = GRes.ofOpt (rdbRowsRef d.isMax rows) := by
  have h1 := gen_query_eq true rows
  have h2 := gen_query_eq false rows
  simp only [if_true, Bool.false_eq_true, if_false] at h1 h2
  unfold interpRdbBest
  rw [h1, h2]
  cases d <;> simp [runGetter, prog, Generated.BestMethods.rdbGet, DT.eval, GCond.eval, GLeaf.run, Dir.isMax]
example : interpRdbBest prog [.maximize] [⟨.complete, [(some 2, .finite)]⟩, ⟨.complete, [(none, .infPos)]⟩, ⟨.complete, [(none, .infNeg)]⟩] = .ok 1 := by
  decide +kernel

/-- a multi-objective study: RuntimeError before any query -/
theorem gen_rdb_best_multi (d1 d2 : Dir) (ds : List Dir) (rows : List Row) :
    interpRdbBest prog (d1 :: d2 :: ds) rows = .raise .runtimeError := by
  simp [interpRdbBest, runGetter, prog, Generated.BestMethods.rdbGet, DT.eval, GCond.eval, GLeaf.run]
example : interpRdbBest prog [.minimize, .maximize] [] = .raise .runtimeError := by decide +kernel

/-! ## `Study.best_trial`, `best_value` -/

/-- **gen_study_best_eq** — `Study.best_trial` of a single-objective study as written today: the storage's answer unless that trial
records a violated constraint (`some x > 0`), then Python `max` / `min` by value over the FEASIBLE COMPLETE trials of the CURRENT
history (not the per-thread cache), ValueError when there is none; storage errors propagate. -/
theorem gen_study_best_eq (sb : GRes) (d : Dir) (ts cache : List BTrial) :
    interpStudyBest prog sb [d] ts cache = studyBestRef sb d ts := by
  have hfeas : (fun t => feasibleGen prog t) = feasibleRef := by funext t; exact gen_feasible_eq t
  have hsp : prog.studyPool = ⟨.fresh, [1], true⟩ := by decide
  have hpool : poolOf prog prog.studyPool ts cache = valuedIn [1] feasibleRef ts := by
    simp only [poolOf, hsp, hfeas]; simp
  have hguard : prog.studyMultiGuard.eval { pool := [], dirs := [d], cached := none, sqlMax := .crash, sqlMin := .crash } = some false := by
    simp [prog, GCond.eval]
  unfold interpStudyBest studyBestRef
  rw [hguard]
  cases sb with
  | raise e => rfl
  | crash => rfl
  | ok b =>
    simp only
    cases ht : ts[b]? with
    | none => rfl
    | some t =>
      simp only [gen_violation_eq, hpool]
      cases hv : violatedRef t
      · simp
      · simp only [if_true]
        cases hl : valuedIn [1] feasibleRef ts with
        | nil =>
          simp [runGetter, prog, Generated.BestMethods.studyFallback, DT.eval, GCond.eval, GLeaf.run, pickRef, hl, pyPick, firstBest, GRes.ofOpt]
        | cons x xs =>
          cases d <;>
            simp [runGetter, prog, Generated.BestMethods.studyFallback, DT.eval, GCond.eval, GLeaf.run, pickRef, hl, Dir.isMax, Sel.useMax]
example : interpStudyBest prog (.ok 0) [.minimize]
    [⟨.complete, some [.fin 0], .vals [.fin 1]⟩, ⟨.complete, some [.fin 2], .vals [.fin 0]⟩, ⟨.complete, some [.fin 1], .vals [.fin 0]⟩] [] = .ok 2 ∧
    interpStudyBest prog (.raise .valueError) [.minimize] [] [] = .raise .valueError := by decide +kernel

/-- `best_trial` of a multi-objective study raises RuntimeError before anything is read -/
theorem gen_study_best_multi (sb : GRes) (d1 d2 : Dir) (ds : List Dir) (ts cache : List BTrial) :
    interpStudyBest prog sb (d1 :: d2 :: ds) ts cache = .raise .runtimeError := by
  simp [interpStudyBest, prog, GCond.eval]
example : interpStudyBest prog (.ok 0) [.minimize, .minimize] [⟨.complete, some [.fin 0, .fin 0], .absent⟩] [] = .raise .runtimeError := by
  decide +kernel

/-- `best_value` / `best_params` read the trial that `best_trial` returns -/
theorem gen_best_value_eq (sb : GRes) (d : Dir) (ts cache : List BTrial) :
    interpBestValue prog sb [d] ts cache =
      (match studyBestRef sb d ts with
       | .ok r => (ts[r]?).bind BTrial.value?
       | _ => none) ∧ prog.bestParamsOfBestTrial = true ∧ prog.bestValueAsserts = true := by
  refine ⟨?_, by decide, by decide⟩
  have hb : prog.bestValueOfBestTrial = true := by decide
  unfold interpBestValue
  rw [gen_study_best_eq, hb]
  cases studyBestRef sb d ts <;> rfl

example : interpBestValue prog (.ok 0) [.maximize] [⟨.complete, some [.pinf], .absent⟩] [] = some .pinf := by decide +kernel

/-! ## `_normalize_value`, `_dominates` -/

/-- `_normalize_value` as written today: the value when minimising, its negation when maximising -/
theorem gen_normalize_eq (d : Dir) (v : EVal) : interpNormalize prog.normalize (some v) d = some (normalize d v) := by
  cases d <;> simp [interpNormalize, prog, Generated.BestMethods.normalize, DT.eval, NCond.eval, NX.eval, normalize, Dir.isMax]
example : interpNormalize prog.normalize (some (.fin 3)) .maximize = some (.fin (-3)) ∧
    interpNormalize prog.normalize (some .pinf) .maximize = some .ninf ∧
    interpNormalize prog.normalize (some (.fin 3)) .minimize = some (.fin 3) := by decide +kernel

/-- … and `None` (a missing value) counts as `+inf`, whatever the direction -/
theorem gen_normalize_none (d : Dir) : interpNormalize prog.normalize none d = some .pinf := by
  cases d <;> simp [interpNormalize, prog, Generated.BestMethods.normalize, DT.eval, NCond.eval, NX.eval]
example : interpNormalize prog.normalize none .maximize = some .pinf := by decide +kernel

/-- a whole row: `[_normalize_value(v, d) for v, d in zip(values, directions)]` -/
theorem gen_normRow_eq (dirs : List Dir) (vs : List EVal) : interpNormRow prog.normalize dirs vs = some (normRow dirs vs) := by
  induction dirs generalizing vs with
  | nil => cases vs <;> rfl
  | cons d ds ih =>
    cases vs with
    | nil => rfl
    | cons v t => simp [interpNormRow, gen_normalize_eq, ih t, normRow]
example : interpNormRow prog.normalize [.minimize, .maximize] [.fin 1, .fin 2] = some [.fin 1, .fin (-2)] := by decide +kernel

/-- **gen_dominates_eq** — `_dominates` as written today, on two COMPLETE trials with one value per objective, is the docstring's
dominance of the normalised rows: `all(v0 <= v1) and any(v0 < v1)`. -/
theorem gen_dominates_eq (dirs : List Dir) (t0 t1 : BTrial) (a b : List EVal)
    (h0 : t0.state = .complete) (h1 : t1.state = .complete) (ha : t0.values = some a) (hb : t1.values = some b)
    (hla : a.length = dirs.length) (hlb : b.length = dirs.length) :
    interpDominates prog.normalize prog.dominates dirs t0 t1 = .ok (dominates (normRow dirs a) (normRow dirs b)) := by
  have hlen : (normRow dirs a).length = (normRow dirs b).length := by
    rw [normRow_length' dirs a hla, normRow_length' dirs b hlb, hla, hlb]
  have hdom := ne_allLe_eq_dominates (normRow dirs a) (normRow dirs b) hlen
  unfold interpDominates
  simp only [ha, hb, Option.bind_some, gen_normRow_eq]
  by_cases heq : normRow dirs a = normRow dirs b
  · have hd : dominates (normRow dirs a) (normRow dirs b) = false := by rw [← hdom]; simp [heq]
    simp [prog, Generated.BestMethods.dominates, DT.eval, DCond.eval, DCtx.tr, h0, h1, ha, hb, hla, hlb, TState.code, heq,
      DX.eval, hd]
    rw [heq] at hd; exact hd
  · have hne : (normRow dirs a == normRow dirs b) = false := by simpa using heq
    simp [prog, Generated.BestMethods.dominates, DT.eval, DCond.eval, DCtx.tr, h0, h1, ha, hb, hla, hlb, TState.code, heq, hne,
      DX.eval, zipAllC_le, ← hdom]
example : interpDominates prog.normalize prog.dominates [.minimize, .maximize]
      ⟨.complete, some [.fin 1, .fin 5], .absent⟩ ⟨.complete, some [.fin 1, .fin 4], .absent⟩ = .ok true ∧
    interpDominates prog.normalize prog.dominates [.minimize, .maximize]
      ⟨.complete, some [.fin 1, .fin 5], .absent⟩ ⟨.complete, some [.fin 1, .fin 5], .absent⟩ = .ok false ∧      -- equal rows: no dominance
    interpDominates prog.normalize prog.dominates [.minimize, .maximize]
      ⟨.complete, some [.fin 1, .fin 5], .absent⟩ ⟨.complete, some [.fin 0, .fin 9], .absent⟩ = .ok false := by decide +kernel

/-- a trial that is not COMPLETE dominates nothing and is dominated by every COMPLETE trial -/
theorem gen_dominates_incomplete (dirs : List Dir) (t0 t1 : BTrial) :
    (t0.state ≠ .complete → interpDominates prog.normalize prog.dominates dirs t0 t1 = .ok false) ∧
    (t0.state = .complete → t1.state ≠ .complete → interpDominates prog.normalize prog.dominates dirs t0 t1 = .ok true) := by
  constructor
  · intro h
    have hc : (t0.state.code != 1) = true := by cases hs : t0.state <;> simp_all [TState.code]
    have ht : ∀ x : DCtx, x.t0 = t0 → prog.dominates.eval (DCond.eval x) = some (.ret (.const false)) := by
      intro x hx; simp [prog, Generated.BestMethods.dominates, DT.eval, DCond.eval, DCtx.tr, hx, hc]
    unfold interpDominates
    cases t0.values.bind (interpNormRow prog.normalize dirs) <;> cases t1.values.bind (interpNormRow prog.normalize dirs) <;>
      simp only [ht ⟨t0, t1, dirs, _, _⟩ rfl] <;> rfl
  · intro h0 h
    have hc0 : (t0.state.code != 1) = false := by simp [h0, TState.code]
    have hc : (t1.state.code != 1) = true := by cases hs : t1.state <;> simp_all [TState.code]
    have ht : ∀ x : DCtx, x.t0 = t0 → x.t1 = t1 → prog.dominates.eval (DCond.eval x) = some (.ret (.const true)) := by
      intro x hx hx1; simp [prog, Generated.BestMethods.dominates, DT.eval, DCond.eval, DCtx.tr, hx, hx1, hc, hc0]
    unfold interpDominates
    cases t0.values.bind (interpNormRow prog.normalize dirs) <;> cases t1.values.bind (interpNormRow prog.normalize dirs) <;>
      simp only [ht ⟨t0, t1, dirs, _, _⟩ rfl rfl] <;> rfl

example : interpDominates prog.normalize prog.dominates [.minimize] ⟨.running, none, .absent⟩ ⟨.complete, some [.fin 1], .absent⟩ = .ok false ∧
    interpDominates prog.normalize prog.dominates [.minimize] ⟨.complete, some [.fin 1], .absent⟩ ⟨.pruned, some [.ninf], .absent⟩ = .ok true := by
  decide +kernel

/-! ## the numpy paths of `_is_pareto_front` -/

/-- **gen_front2d_eq** — `_is_pareto_front_2d` as written today (`np.minimum.accumulate` of the second column, first row True, then
"the running minimum got strictly smaller") is the hand model's `front2d` on every 2-column array. -/
theorem gen_front2d_eq (u : List Point) (h : Rect' 2 u) : prog.front2d.run callNone [.mat u] = .mask (front2d u) := by
  rw [front2d_eq u h]
  simp only [NFun.run, prog, Generated.BestMethods.front2d, NE.eval, envGet, lenOf]
  simp
  cases hc : u.map (fun r => r[1]?.getD EVal.pinf) with
  | nil =>
    have : u = [] := by simpa using hc
    subst this; simp [cumminL, ltRow]
  | cons y ys =>
    have hl : u.length = ys.length + 1 := by
      have := congrArg List.length hc; simpa using this
    simp [cumminL, hl, List.replicate_succ, ltRow_cummin, cmAux_length]

example : prog.front2d.run callNone [.mat [[.ninf, .pinf], [.fin 0, .pinf], [.fin 1, .fin 2], [.fin 1, .fin 3], [.fin 2, .fin 2]]] =
    .mask [true, false, true, false, false] := by decide +kernel

/-- one iteration of the generated `while len(loss_values):` loop: the top row's index is marked, the rows that are not strictly
below the top row in some coordinate are dropped (the top row itself included) -/
theorem gen_nd_step (i : Nat) (is : List Nat) (r : Point) (rows : List Point) (M : List Bool) (env : List (String × NV))
    (hlen : is.length = rows.length) (hi : i < M.length)
    (h1 : envGet env "loss_values" = .mat (r :: rows)) (h2 : envGet env "nondominated_indices" = .idx (i :: is))
    (h3 : envGet env "on_front" = .mask M) :
    let env' := runAssigns callNone prog.frontNd.body env
    envGet env' "loss_values" = .mat (selMask rows (rows.map (fun q => anyLt q r))) ∧
    envGet env' "nondominated_indices" = .idx (selMask is (rows.map (fun q => anyLt q r))) ∧
    envGet env' "on_front" = .mask (M.set i true) := by
  simp only [prog, Generated.BestMethods.frontNd, runAssigns, NE.eval, envGet_cons, h1, h2, h3]
  have hf : ((fun (r : List Bool) => r.any id) ∘ fun q => ltRow q r) = (fun q => anyLt q r) := by
    funext q; exact ltRow_any q r
  simp [ltRow_any, anyLt_self, selMask, hi, hlen, hf]

example : envGet (runAssigns callNone prog.frontNd.body
    [("loss_values", .mat [[.fin 2, .fin 3], [.fin 3, .fin 2], [.fin 2, .fin 3]]), ("nondominated_indices", .idx [0, 1, 2]),
     ("on_front", .mask [false, false, false])]) "nondominated_indices" = .idx [1] := by decide +kernel

/-- the whole generated loop, from any state whose index list and row list have the same length -/
theorem gen_nd_loop (fuel : Nat) : ∀ (is : List Nat) (rows : List Point) (M : List Bool) (env : List (String × NV)),
    is.length = rows.length → rows.length < fuel → (∀ i ∈ is, i < M.length) →
    envGet env "loss_values" = .mat rows → envGet env "nondominated_indices" = .idx is → envGet env "on_front" = .mask M →
    ∃ env', loopFuel callNone prog.frontNd fuel env = some env' ∧
      envGet env' "on_front" = .mask (markAll M (peel (is.zip rows))) := by
  induction fuel with
  | zero => intro is rows M env _ h; omega
  | succ fuel ih =>
    intro is rows M env hlen hfuel hlt h1 h2 h3
    have hc : prog.frontNd.condLen = "loss_values" := by decide
    cases rows with
    | nil =>
      have : is = [] := by cases is <;> simp_all
      subst this
      refine ⟨env, ?_, ?_⟩
      · simp [loopFuel, hc, h1, lenOf]
      · simpa [peel, markAll] using h3
    | cons r rows =>
      cases is with
      | nil => simp at hlen
      | cons i is =>
        simp only [List.length_cons, Nat.add_right_cancel_iff] at hlen
        have hi : i < M.length := hlt i List.mem_cons_self
        obtain ⟨s1, s2, s3⟩ := gen_nd_step i is r rows M env hlen hi h1 h2 h3
        obtain ⟨z1, z2⟩ := selMask_zip (fun q => anyLt q r) is rows hlen
        have hle := selMask_length_le rows (rows.map (fun q => anyLt q r))
        obtain ⟨env', he1, he2⟩ := ih _ _ (M.set i true) _ z2
          (by simp only [List.length_cons] at hfuel; omega)
          (by intro j hj; rw [List.length_set]; exact hlt j (List.mem_cons_of_mem _ (selMask_subset _ _ j hj)))
          s1 s2 s3
        refine ⟨env', ?_, ?_⟩
        · simp only [loopFuel, hc, h1, lenOf, List.length_cons]
          exact he1
        · rw [he2, List.zip_cons_cons, peel_cons', markAll, z1]
example : (loopFuel callNone prog.frontNd 3 [("loss_values", .mat [[.fin 2], [.fin 1]]), ("nondominated_indices", .idx [0, 1]),
    ("on_front", .mask [false, false])]).map (fun env => envGet env "on_front") = some (.mask [true, true]) := by decide +kernel

/-- **gen_frontNd_eq** — `_is_pareto_front_nd` as written today (drop the first column, mark the top row, keep the rows with a
strictly smaller coordinate, repeat) is the hand model's `frontNd`, for every array. -/
theorem gen_frontNd_eq (u : List Point) : prog.frontNd.run callNone [.mat u] = .mask (frontNd u) := by
  have hinit : runAssigns callNone prog.frontNd.init (prog.frontNd.params.zip [.mat u]) =
      [("nondominated_indices", .idx (List.range u.length)), ("on_front", .mask (List.replicate u.length false)),
       ("n_trials", .nat u.length), ("loss_values", .mat (u.map (fun r => r.drop 1))), ("unique_lexsorted_loss_values", .mat u)] := by
    simp [prog, Generated.BestMethods.frontNd, runAssigns, NE.eval, envGet_cons, envGet, lenOf]
  have hg1 : envGet [("nondominated_indices", NV.idx (List.range u.length)), ("on_front", .mask (List.replicate u.length false)),
       ("n_trials", .nat u.length), ("loss_values", .mat (u.map (fun r => r.drop 1))), ("unique_lexsorted_loss_values", .mat u)]
       "loss_values" = .mat (u.map (fun r => r.drop 1)) := by simp [envGet_cons]
  obtain ⟨env', he1, he2⟩ := gen_nd_loop (u.length + 1) (List.range u.length) (u.map (fun r => r.drop 1))
    (List.replicate u.length false)
    [("nondominated_indices", .idx (List.range u.length)), ("on_front", .mask (List.replicate u.length false)),
       ("n_trials", .nat u.length), ("loss_values", .mat (u.map (fun r => r.drop 1))), ("unique_lexsorted_loss_values", .mat u)]
    (by simp) (by simp) (by intro i hi; simpa using hi)
    hg1 (by simp [envGet_cons]) (by simp [envGet_cons])
  have hc : prog.frontNd.condLen = "loss_values" := by decide
  have hp : prog.frontNd.params.length = 1 := rfl
  have hres : prog.frontNd.result = .var "on_front" := rfl
  simp only [NLoop.run, hp, List.length_cons, List.length_nil, Nat.zero_add, if_true, hc, hinit, hg1, lenOf, List.length_map, he1,
    hres, NE.eval, he2, frontNd, zipIdx_tail_pairs, markAll_replicate]

example : prog.frontNd.run callNone [.mat [[.ninf, .pinf, .pinf], [.fin 1, .fin 2, .fin 3], [.fin 1, .fin 3, .fin 2], [.fin 2, .fin 2, .fin 3]]] =
    .mask [true, true, true, false] := by decide +kernel

/-- **gen_frontSorted_eq** — `_is_pareto_front_for_unique_sorted` as written today dispatches on the number of columns exactly as the
hand model: one column → only the first row; two → the cummin path; otherwise the loop. -/
theorem gen_frontSorted_eq (n : Nat) (u : List Point) (h : Rect' n u) :
    prog.frontSorted.run (callSorted prog) [.mat u] = .mask (frontSorted u) := by
  cases u with
  | nil =>
    have := gen_frontNd_eq []
    have h0 : frontNd [] = [] := by simp [frontNd]
    rw [h0] at this
    simp [NFun.run, prog, Generated.BestMethods.frontSorted, NE.eval, NE.evalList, envGet_cons, lenOf, callSorted] at this ⊢
    simpa [frontSorted] using this
  | cons r rest =>
    by_cases h1 : r.length = 1
    · simp [NFun.run, prog, Generated.BestMethods.frontSorted, NE.eval, NE.evalList, envGet_cons, lenOf, callSorted, h1, frontSorted,
        front1d, List.replicate_succ]
      exact List.map_const'.symm
    · have hb1 : (r.length == 1) = false := by simpa using h1
      by_cases h2 : r.length = 2
      · have hrect : Rect' 2 (r :: rest) := by
          intro q hq; rw [h q hq, ← h r List.mem_cons_self, h2]
        have := gen_front2d_eq (r :: rest) hrect
        simp [NFun.run, prog, Generated.BestMethods.frontSorted, NE.eval, NE.evalList, envGet_cons, lenOf, callSorted, hb1, h2, frontSorted] at this ⊢
        exact this
      · have hb2 : (r.length == 2) = false := by simpa using h2
        have := gen_frontNd_eq (r :: rest)
        simp [NFun.run, prog, Generated.BestMethods.frontSorted, NE.eval, NE.evalList, envGet_cons, lenOf, callSorted, hb1, hb2, frontSorted] at this ⊢
        exact this
example : prog.frontSorted.run (callSorted prog) [.mat [[.fin 0], [.fin 1], [.pinf]]] = .mask [true, false, false] := by decide +kernel

/-- **gen_front_eq** — `_is_pareto_front(loss_values, assume_unique_lexsorted=False)` as written today (`np.unique(axis=0)` with its
inverse, the sorted-array routine, `on_front[order_inv]`) is the hand model's `isParetoFront`, for every rectangular array. -/
theorem gen_front_eq (n : Nat) (rows : List Point) (h : Rect' n rows) :
    interpFront prog rows false = .mask (isParetoFront rows) := by
  have hs := gen_frontSorted_eq n (uniqueLexsort rows) (uniqueLexsort_rect' n rows h)
  have hidx : ∀ r ∈ rows, (uniqueLexsort rows).idxOf r < (frontSorted (uniqueLexsort rows)).length := by
    intro r hr
    rw [frontSorted_length]
    exact List.idxOf_lt_length_of_mem ((mem_uniqueLexsort' rows r).mpr hr)
  have hall : (rows.map (fun r => (uniqueLexsort rows).idxOf r)).all
      (fun j => decide (j < (frontSorted (uniqueLexsort rows)).length)) = true := by
    simp only [List.all_map, List.all_eq_true, Function.comp, decide_eq_true_eq]
    exact hidx
  have hcall : callFront prog "_is_pareto_front_for_unique_sorted" [.mat (uniqueLexsort rows)] = .mask (frontSorted (uniqueLexsort rows)) := by
    simp only [callFront, if_true]; exact hs
  unfold interpFront
  generalize callFront prog = cf at hcall
  simp only [NFun.run, prog, Generated.BestMethods.front, NE.eval, NE.evalList, envGet_cons]
  simp [envGet_cons, envGet, hcall, isParetoFront]
  rw [if_pos hidx]; rfl
example : interpFront prog [[.fin 1, .fin 2], [.fin 1, .fin 2], [.fin 1, .fin 3], [.fin 0, .pinf], [.ninf, .pinf], [.fin 2, .fin 2]] false =
    .mask [true, true, false, false, true, false] := by decide +kernel

/-- with `assume_unique_lexsorted=True` the array is handed to the sorted-array routine as is -/
theorem gen_front_assume_sorted (n : Nat) (u : List Point) (h : Rect' n u) :
    interpFront prog u true = .mask (frontSorted u) := by
  have hs := gen_frontSorted_eq n u h
  have hcall : callFront prog "_is_pareto_front_for_unique_sorted" [.mat u] = .mask (frontSorted u) := by
    simp only [callFront, if_true]; exact hs
  unfold interpFront
  generalize callFront prog = cf at hcall
  simp only [NFun.run, prog, Generated.BestMethods.front, NE.eval, NE.evalList, envGet_cons]
  simp [envGet_cons, envGet, hcall]

example : interpFront prog [[.fin 0, .fin 5], [.fin 1, .fin 4], [.fin 2, .fin 4]] true = .mask [true, true, false] := by decide +kernel

/-! ## `Study.best_trials` -/

/-- **gen_best_trials_eq** — `Study.best_trials` as written today (constraint probe over all trials, COMPLETE filter, feasibility filter
when the study is constrained, the value-count check, normalisation, `_is_pareto_front`, selection by the mask) is the reference:
for every history and every list of directions. -/
theorem gen_best_trials_eq (dirs : List Dir) (ts : List BTrial) : interpBestTrials prog dirs ts = bestTrialsRef dirs ts := by
  have hfeas : (fun (x : BTrial × Nat) => feasibleGen prog x.1) = (fun x => feasibleRef x.1) := by
    funext x; exact gen_feasible_eq x.1
  have hcode : ∀ s : TState, (s.code == 1) = (s == .complete) := by intro s; cases s <;> rfl
  have hkey : prog.bestTrialsKey = "constraints" := by decide
  have hq : prog.bestTrialsQuant = .any := by decide
  have hstages : prog.pareto = [.keepState 1, .keepFeasibleIf, .emptyReturnsEmpty, .raiseIfValuesLen .ne .valueError, .lossRows,
      .frontMask false, .retSelected] := by decide
  unfold interpBestTrials bestTrialsRef
  simp only [hkey, hq, if_true, hstages, runStages, PStage.step]
  generalize hcon : ts.any (fun t => t.cons.hasKey) = con
  -- the eligible trials
  have hc : (if con = true then
        { trials := (ts.zipIdx.filter (fun x => x.1.state.code == 1)).filter (fun x => feasibleGen prog x.1), loss := none, mask := none : PState }
      else { trials := ts.zipIdx.filter (fun x => x.1.state.code == 1), loss := none, mask := none }).trials =
      ts.zipIdx.filter (fun x => x.1.state == .complete && (!con || feasibleRef x.1)) := by
    cases con
    · simp [hcode]
    · simp [hcode, hfeas, List.filter_filter, Bool.and_comm]
  generalize hS : (if con = true then
        { trials := (ts.zipIdx.filter (fun x => x.1.state.code == 1)).filter (fun x => feasibleGen prog x.1), loss := none, mask := none : PState }
      else { trials := ts.zipIdx.filter (fun x => x.1.state.code == 1), loss := none, mask := none }) = S at hc
  have hl : S.loss = none ∧ S.mask = none := by subst hS; cases con <;> simp
  obtain ⟨c, l0, m0⟩ := S
  simp only at hc hl
  obtain ⟨rfl, rfl⟩ := hl
  subst hc
  generalize ts.zipIdx.filter (fun x => x.1.state == .complete && (!con || feasibleRef x.1)) = c
  cases hcn : c with
  | nil => simp [isParetoFront, uniqueLexsort, frontSorted]
  | cons x xs =>
    rw [← hcn]
    have hne : c.isEmpty = false := by rw [hcn]; rfl
    simp only [hne, Bool.false_eq_true, if_false]
    by_cases hlen : c.any (fun x => (x.1.values.getD []).length != dirs.length) = true
    · simp [hlen]
    · have hlen' : c.any (fun x => (x.1.values.getD []).length != dirs.length) = false := by simpa using hlen
      simp only [hlen', Bool.false_eq_true, if_false]
      have hrows : c.map (fun x => interpNormRow prog.normalize dirs (x.1.values.getD [])) =
          c.map (fun x => some (normRow dirs (x.1.values.getD []))) := by
        apply List.map_congr_left; intro x _; exact gen_normRow_eq dirs _
      have hrect : Rect' dirs.length (c.map (fun x => normRow dirs (x.1.values.getD []))) := by
        intro r hr
        obtain ⟨x, hx, rfl⟩ := List.mem_map.mp hr
        have : (x.1.values.getD []).length = dirs.length := by
          have := List.any_eq_false.mp hlen' x hx
          simpa using this
        rw [normRow_length' dirs _ this, this]
      have hfront := gen_front_eq dirs.length _ hrect
      simp only [hrows, List.all_map, Function.comp, Option.isSome_some, List.all_eq_true, implies_true, List.map_map,
        Option.getD_some, if_true]
      have hcomp : ((fun (r : Option (List EVal)) => r.getD []) ∘ fun (x : BTrial × Nat) => some (normRow dirs (x.1.values.getD []))) =
          (fun x => normRow dirs (x.1.values.getD [])) := by funext x; rfl
      rw [hcomp, hfront]
example : interpBestTrials prog [.minimize, .maximize]
    [⟨.complete, some [.fin 0, .fin 9], .vals [.fin 1]⟩, ⟨.complete, some [.fin 1, .fin 5], .vals [.fin 0]⟩,
     ⟨.complete, some [.fin 1, .fin 5], .vals []⟩, ⟨.complete, some [.fin 1, .fin 4], .vals [.fin 0]⟩,
     ⟨.running, none, .absent⟩] = some [1, 2] ∧
    interpBestTrials prog [.minimize, .maximize] [⟨.complete, some [.fin 0], .absent⟩] = none := by decide +kernel

end OptunaVerif.C12Gen
