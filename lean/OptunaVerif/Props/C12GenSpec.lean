import OptunaVerif.Props.C12Gen
import OptunaVerif.Props.C12
/-!
# C12 (translator tie, part 2) — the property theorems of `Props/C12.lean`, restated for the interpreters of the generated IR

`Props/C12Gen.lean` proves each method *as written in the source today* equal to a flag-free reference semantics.  Here
(1) the reference semantics is shown to be the hand model of `Model/Best.lean` (`*_eq` bridges; this is where
`Generated/Best.lean`'s operators enter), and (2) every property theorem of `Props/C12.lean` is carried over to
`interpBaseBest / interpMemBest / interpRdbBest / interpStudyBest / interpFront / interpBestTrials / runGen` over
`Generated.BestMethods.prog`: the returned trial is COMPLETE and no COMPLETE trial is strictly better (all three storages,
all histories), the constraint fallback returns a feasible optimum of the CURRENT history or raises ValueError, the
Pareto mask flags exactly the non-dominated rows (duplicates alike, ±∞), `best_trials` is exactly the non-dominated
eligible set in number order.
-/
set_option linter.unusedSimpArgs false
namespace OptunaVerif.C12GenSpec
open OptunaVerif OptunaVerif.Best OptunaVerif.BestIR OptunaVerif.C12Gen
open OptunaVerif.Generated.BestMethods (prog)

/-! ## the reference semantics of `Lemmas/BestIR.lean` is the hand model of `Model/Best.lean` -/

theorem violatedRef_eq (t : BTrial) : violatedRef t = violated t := by
  unfold violatedRef violated
  cases t.cons.get <;> simp [violatedList_eq]

theorem feasibleRef_eq : feasibleRef = feasible := by
  funext t
  unfold feasibleRef feasible
  cases t.cons.get <;> simp [feasibleList_eq]

theorem pickRef_eq_scan (d : Dir) (ts : List BTrial) : pickRef d (fun _ => true) ts = scanBest d ts := by
  rw [scanBest_eq]; rfl

theorem updateCacheRef_eq (dirs : List Dir) (m : Mem) (i : Nat) : updateCacheRef dirs m i = Mem.updateCache dirs m i := by
  unfold updateCacheRef Mem.updateCache
  cases m.trials[i]? with
  | none => rfl
  | some t =>
    simp only [Generated.Best.memSkipsNonComplete, Bool.true_and]
    split
    · rfl
    · cases m.best with
      | none => rfl
      | some b =>
        match dirs with
        | [] => rfl
        | [d] => simp only; cases (m.trials[b]?).bind BTrial.value? <;> cases t.value? <;> simp [memReplace_eq]
        | _ :: _ :: _ => rfl

theorem sqlBeforeRef_eq (useMax : Bool) (a b : Option Rat × VType) : sqlBeforeRef useMax a b = sqlBefore useMax a b := by
  obtain ⟨va, ta⟩ := a
  obtain ⟨vb, tb⟩ := b
  cases useMax <;> cases ta <;> cases tb <;>
    simp [sqlBeforeRef, sqlBefore, rankRef, rankOf,
      Generated.Best.minRankInfNeg, Generated.Best.minRankFinite, Generated.Best.minRankInfPos,
      Generated.Best.maxRankInfNeg, Generated.Best.maxRankFinite, Generated.Best.maxRankInfPos,
      Generated.Best.minRankAsc, Generated.Best.minValueAsc, Generated.Best.maxRankAsc, Generated.Best.maxValueAsc]

theorem rdbRowsRef_eq (d : Dir) (rows : List Row) : rdbRowsRef d.isMax rows = rdbBestRows d rows := by
  have hb : (fun (y cur : Nat × (Option Rat × VType)) => sqlBeforeRef d.isMax y.2 cur.2) =
      (fun y cur => sqlBefore d.isMax y.2 cur.2) := by
    funext y cur; exact sqlBeforeRef_eq _ _ _
  unfold rdbRowsRef rdbBestRows rdbCandidates
  simp only [rdbUseMax_eq, hb]
  cases d <;> simp [Dir.isMax, Generated.Best.maxFilterComplete, Generated.Best.minFilterComplete, Generated.Best.rdbObjectiveIndex]

theorem bestTrialsRef_eq (dirs : List Dir) (ts : List BTrial) : bestTrialsRef dirs ts = bestTrials dirs ts := by
  unfold bestTrialsRef bestTrials
  rw [feasibleRef_eq]


/-- results of the hand model's `studyBestTrial` in the interpreter's result type -/
def toG : Except Err Nat → GRes
  | .ok i => .ok i
  | .error e => .raise e

theorem toG_ok (x : Except Err Nat) (r : Nat) : toG x = .ok r ↔ x = .ok r := by
  cases x <;> simp [toG]

theorem studyBestRef_eq (alg : Dir → List BTrial → Option Nat) (d : Dir) (ts : List BTrial) :
    studyBestRef (GRes.ofOpt (alg d ts)) d ts = toG (studyBestTrial alg [d] ts) := by
  have hdef : studyBestTrial alg [d] ts =
      (match alg d ts with
       | none => .error .valueError
       | some b => fallback d ts b) := rfl
  rw [hdef]
  cases alg d ts with
  | none => rfl
  | some b =>
    simp only [GRes.ofOpt, studyBestRef, fallback]
    cases ts[b]? with
    | none => rfl
    | some t =>
      simp only [violatedRef_eq, pickRef, feasibleRef_eq, studyUseMax_eq, Generated.Best.studyFallbackStates,
        Generated.Best.studyFallbackFiltersFeasible, Bool.not_true, Bool.false_or]
      cases violated t
      · rfl
      · simp only [if_true]
        cases pyPick d.isMax (fun x => x.2) (valuedIn [1] (fun t => feasible t) ts) <;> rfl

/-- **the generated `Study.best_trial` is the hand model's**, whatever algorithm the storage uses and whatever the per-thread cache holds -/
theorem gen_study_best_eq_hand (alg : Dir → List BTrial → Option Nat) (d : Dir) (ts cache : List BTrial) :
    interpStudyBest prog (GRes.ofOpt (alg d ts)) [d] ts cache = toG (studyBestTrial alg [d] ts) := by
  rw [gen_study_best_eq, studyBestRef_eq]

/-! ## the storages, for the interpreters of the generated IR -/

/-- **gen_scan_is_optimal** — `BaseStorage.get_best_trial` as written today returns a COMPLETE trial that no COMPLETE trial beats
(±∞ included) and raises ValueError exactly when there is none. -/
theorem gen_scan_is_optimal (d : Dir) (ts : List BTrial) :
    ∃ o, interpBaseBest prog [d] ts = GRes.ofOpt o ∧ OptResult d anyTrial ts o :=
  ⟨scanBest d ts, by rw [gen_base_best_eq, pickRef_eq_scan], C12.scan_is_optimal d ts⟩

example : interpBaseBest prog [.minimize]
    [⟨.pruned, some [.ninf], .absent⟩, ⟨.complete, some [.fin 2], .absent⟩, ⟨.complete, some [.ninf], .absent⟩,
     ⟨.complete, some [.ninf], .absent⟩, ⟨.fail, none, .absent⟩] = .ok 2 := by decide +kernel
example : interpBaseBest prog [.maximize] [⟨.pruned, some [.fin 2], .absent⟩, ⟨.running, none, .absent⟩] = .raise .valueError := by decide +kernel

theorem stepGen_eq (d : Dir) : stepWith (interpUpdateCache prog.updateCache) [d] = Mem.step [d] := by
  have hupd : interpUpdateCache prog.updateCache [d] = Mem.updateCache [d] := by
    funext m i; rw [gen_update_cache_eq [d] (by simp), updateCacheRef_eq]
  funext m ev
  cases ev with
  | create st vals c => simp only [stepWith, Mem.step, hupd]
  | setState i st vals => simp only [stepWith, Mem.step, hupd]; cases m.trials[i]? <;> rfl
  | setCons i c => simp only [stepWith, Mem.step]; cases m.trials[i]? <;> rfl

theorem runGen_eq (d : Dir) (evs : List Ev) : runGen prog [d] evs = Mem.run [d] evs := by
  unfold runGen Mem.run; rw [stepGen_eq]

/-- the same for EVERY non-empty direction vector (single-objective minimise / maximise, and every multi-objective study): one step of a
history replayed with the generated `_update_cache` is the hand model's step -/
theorem stepGen_eq_dirs (dirs : List Dir) (hd : dirs ≠ []) : stepWith (interpUpdateCache prog.updateCache) dirs = Mem.step dirs := by
  have hupd : interpUpdateCache prog.updateCache dirs = Mem.updateCache dirs := by
    funext m i; rw [gen_update_cache_eq dirs hd, updateCacheRef_eq]
  funext m ev
  cases ev with
  | create st vals c => simp only [stepWith, Mem.step, hupd]
  | setState i st vals => simp only [stepWith, Mem.step, hupd]; cases m.trials[i]? <;> rfl
  | setCons i c => simp only [stepWith, Mem.step]; cases m.trials[i]? <;> rfl

/-- **runGen_eq_dirs** — for every direction vector `dirs ≠ []` (a study always has at least one direction) and every history, replaying with
the generated bookkeeping gives the hand model's state: `runGen_eq` is the instance `dirs = [d]`, for both values of `d`. -/
theorem runGen_eq_dirs (dirs : List Dir) (hd : dirs ≠ []) (evs : List Ev) : runGen prog dirs evs = Mem.run dirs evs := by
  unfold runGen Mem.run; rw [stepGen_eq_dirs dirs hd]

example : runGen prog [.minimize, .maximize] [.create .complete (some [.fin 1, .fin 2]) .absent, .create .running none .absent,
    .setState 1 .complete (some [.fin 0, .fin 3])] = Mem.run [.minimize, .maximize] [.create .complete (some [.fin 1, .fin 2]) .absent,
    .create .running none .absent, .setState 1 .complete (some [.fin 0, .fin 3])] := runGen_eq_dirs _ (by simp) _

/-- **gen_incremental_is_optimal** (all histories) — replaying any history of `create_new_trial` / `set_trial_state_values` / constraint
writes with `_update_cache` as written today, the cached `best_trial_id` is an optimum of the COMPLETE trials so far (`None` exactly when
there is none), and `InMemoryStorage.get_best_trial` as written today returns it. -/
theorem gen_incremental_is_optimal (d : Dir) (evs : List Ev) :
    OptResult d anyTrial (runGen prog [d] evs).trials (runGen prog [d] evs).best ∧
    interpMemBest prog [d] (runGen prog [d] evs).best = GRes.ofOpt (runGen prog [d] evs).best := by
  rw [runGen_eq]
  refine ⟨C12.incremental_is_optimal d evs, ?_⟩
  rw [gen_mem_best_eq]
  cases (Mem.run [d] evs).best <;> simp [memBestRef, GRes.ofOpt]

-- trial 1 completes before trial 0; the equal value keeps the earlier *completion* (documented tie-break of the cache)
example : (runGen prog [.minimize] [.create .running none .absent, .create .running none .absent,
    .setState 1 .complete (some [.fin 3]), .setState 0 .complete (some [.fin 3])]).best = some 1 := by decide +kernel

/-- **gen_rdb_is_optimal** — `RDBStorage.get_best_trial` as written today (direction dispatch, the two queries with their `ORDER BY`) returns an
optimum of the COMPLETE trials on well-formed single-objective data. -/
theorem gen_rdb_is_optimal (d : Dir) (ts : List BTrial) (hwf : WF 1 ts) :
    ∃ o, interpRdbBest prog [d] (ts.map toRow) = GRes.ofOpt o ∧ OptResult d anyTrial ts o := by
  refine ⟨rdbBest d ts, ?_, C12.rdb_is_optimal d ts hwf⟩
  rw [gen_rdb_best_eq, rdbRowsRef_eq]; rfl

example : interpRdbBest prog [.maximize] ([⟨.complete, some [.fin 2], .absent⟩, ⟨.complete, some [.pinf], .absent⟩,
    ⟨.complete, some [.ninf], .absent⟩].map toRow) = .ok 1 := by decide +kernel


/-- The three storage getters as written today satisfy the hypothesis of the `Study.best_trial` theorems after every history. -/
theorem gen_storage_answers_are_optimal (d : Dir) (evs : List Ev) :
    let ts := (runGen prog [d] evs).trials
    (∃ o, interpBaseBest prog [d] ts = GRes.ofOpt o ∧ OptResult d anyTrial ts o) ∧
    (∃ o, interpMemBest prog [d] (runGen prog [d] evs).best = GRes.ofOpt o ∧ OptResult d anyTrial ts o) ∧
    (∃ o, interpRdbBest prog [d] (ts.map toRow) = GRes.ofOpt o ∧ OptResult d anyTrial ts o) := by
  refine ⟨gen_scan_is_optimal d _, ⟨_, (gen_incremental_is_optimal d evs).2, (gen_incremental_is_optimal d evs).1⟩, ?_⟩
  apply gen_rdb_is_optimal
  rw [runGen_eq]; exact C12.history_wellformed [d] evs

/-! ## `Study.best_trial`, for the interpreter of the generated IR -/

/-- **gen_best_is_complete** — whatever `Study.best_trial` as written today returns is a COMPLETE trial of the study. -/
theorem gen_best_is_complete (alg : Dir → List BTrial → Option Nat) (d : Dir) (ts cache : List BTrial)
    (hopt : OptResult d anyTrial ts (alg d ts)) (r : Nat)
    (h : interpStudyBest prog (GRes.ofOpt (alg d ts)) [d] ts cache = .ok r) : ∃ v, CompleteAt anyTrial ts r v := by
  rw [gen_study_best_eq_hand, toG_ok] at h
  exact C12.best_is_complete alg d ts hopt r h

/-- **gen_best_unconstrained_is_optimum** — a returned trial without recorded constraint values is one that no COMPLETE trial beats. -/
theorem gen_best_unconstrained_is_optimum (alg : Dir → List BTrial → Option Nat) (d : Dir) (ts cache : List BTrial)
    (hopt : OptResult d anyTrial ts (alg d ts)) (r : Nat) (t : BTrial)
    (h : interpStudyBest prog (GRes.ofOpt (alg d ts)) [d] ts cache = .ok r) (ht : ts[r]? = some t) (hc : t.cons.get = none) :
    IsBest d anyTrial ts r := by
  rw [gen_study_best_eq_hand, toG_ok] at h
  exact C12.best_unconstrained_is_optimum alg d ts hopt r t h ht hc

/-- **gen_constraint_fallback_feasible** — a returned trial with recorded (NaN-free) constraint values is feasible and no feasible
COMPLETE trial of the CURRENT history beats it (the per-thread cache `cache` plays no role). -/
theorem gen_constraint_fallback_feasible (alg : Dir → List BTrial → Option Nat) (d : Dir) (ts cache : List BTrial)
    (hopt : OptResult d anyTrial ts (alg d ts)) (r : Nat) (t : BTrial) (cs : List XVal)
    (h : interpStudyBest prog (GRes.ofOpt (alg d ts)) [d] ts cache = .ok r) (ht : ts[r]? = some t) (hc : t.cons = .vals cs)
    (hnan : ∀ x ∈ cs, x ≠ .nan) :
    feasible t = true ∧ IsBest d feasible ts r := by
  rw [gen_study_best_eq_hand, toG_ok] at h
  exact C12.constraint_fallback_feasible alg d ts hopt r t cs h ht hc hnan

/-- **gen_best_trial_feasible_when_possible** — if the best-valued trial records a violation and a feasible COMPLETE trial exists,
`best_trial` as written today returns a feasible optimum; if none exists it raises ValueError. -/
theorem gen_best_trial_feasible_when_possible (alg : Dir → List BTrial → Option Nat) (d : Dir) (ts cache : List BTrial)
    (hopt : OptResult d anyTrial ts (alg d ts)) (b : Nat) (tb : BTrial)
    (hb : alg d ts = some b) (htb : ts[b]? = some tb) (hviol : violated tb = true) :
    ((∃ j w, CompleteAt feasible ts j w) →
      ∃ r, interpStudyBest prog (GRes.ofOpt (alg d ts)) [d] ts cache = .ok r ∧ IsBest d feasible ts r) ∧
    ((∀ j w, ¬ CompleteAt feasible ts j w) →
      interpStudyBest prog (GRes.ofOpt (alg d ts)) [d] ts cache = .raise .valueError) := by
  obtain ⟨h1, h2⟩ := C12.best_trial_feasible_when_possible alg d ts hopt b tb hb htb hviol
  rw [gen_study_best_eq_hand]
  constructor
  · intro hex
    obtain ⟨r, hr, hbest⟩ := h1 hex
    exact ⟨r, by rw [hr]; rfl, hbest⟩
  · intro hno
    rw [h2 hno]; rfl

/-- `best_trial` of a multi-objective study raises RuntimeError. -/
theorem gen_best_trial_multi_objective_raises (sb : GRes) (d1 d2 : Dir) (ds : List Dir) (ts cache : List BTrial) :
    interpStudyBest prog sb (d1 :: d2 :: ds) ts cache = .raise .runtimeError :=
  gen_study_best_multi sb d1 d2 ds ts cache

-- the best-valued trial (0) violates its constraint → the best feasible one (2) is returned; the stale cache is ignored
example : interpStudyBest prog (interpBaseBest prog [.minimize]
      [⟨.complete, some [.fin 0], .vals [.fin 1]⟩, ⟨.complete, some [.fin 1], .absent⟩,
       ⟨.complete, some [.fin 2], .vals [.fin 0, .ninf]⟩, ⟨.complete, some [.fin 3], .vals [.fin (-1)]⟩]) [.minimize]
    [⟨.complete, some [.fin 0], .vals [.fin 1]⟩, ⟨.complete, some [.fin 1], .absent⟩,
     ⟨.complete, some [.fin 2], .vals [.fin 0, .ninf]⟩, ⟨.complete, some [.fin 3], .vals [.fin (-1)]⟩]
    [⟨.complete, some [.fin 0], .vals [.fin 1]⟩] = .ok 2 := by decide +kernel
-- … and ValueError when nothing is feasible
example : interpStudyBest prog (.ok 0) [.maximize]
    [⟨.complete, some [.pinf], .vals [.pinf]⟩, ⟨.complete, some [.fin 1], .null⟩] [] = .raise .valueError := by decide +kernel
example : OptResult .maximize anyTrial [⟨.complete, some [.pinf], .vals [.pinf]⟩, ⟨.complete, some [.fin 1], .null⟩]
    (scanBest .maximize [⟨.complete, some [.pinf], .vals [.pinf]⟩, ⟨.complete, some [.fin 1], .null⟩]) := C12.scan_is_optimal _ _

/-! ## the Pareto front and `Study.best_trials`, for the interpreters of the generated IR -/

theorem rect_iff (n : Nat) (rows : List Point) : Rect' n rows ↔ Rect n rows := Iff.rfl

/-- **gen_pareto_front_exact** — `_is_pareto_front(loss_values, assume_unique_lexsorted=False)` as written today flags row `i` iff no row
dominates it: any number `k+1 ≥ 1` of columns, duplicates (all copies flagged alike), ties in the first column, ±∞. -/
theorem gen_pareto_front_exact (k : Nat) (rows : List Point) (hrect : Rect (k + 1) rows) :
    interpFront prog rows false = .mask (rows.map (fun r => !dominatedIn rows r)) := by
  rw [gen_front_eq (k + 1) rows hrect, C12.pareto_front_exact k rows hrect]

example : interpFront prog [[.fin 1, .fin 2], [.fin 1, .fin 2], [.fin 1, .fin 3], [.fin 0, .pinf], [.ninf, .pinf], [.fin 2, .fin 2]] false
    = .mask [true, true, false, false, true, false] := by decide +kernel
example : interpFront prog [[.fin 1, .fin 2, .fin 3], [.fin 1, .fin 3, .fin 2], [.fin 2, .fin 2, .fin 3], [.fin 1, .fin 2, .fin 3], [.ninf, .pinf, .pinf]] false
    = .mask [true, true, false, true, true] := by decide +kernel
example : interpFront prog [[.fin 1], [.fin 0], [.fin 0], [.pinf]] false = .mask [false, true, true, false] := by decide +kernel

/-- **gen_best_trials_exact** — on a well-formed history of a study with `k+1` objectives `Study.best_trials` as written today does not
raise and returns, in number order, exactly the eligible trials (COMPLETE; feasible if any trial carries the constraints key) that no
eligible trial dominates under the study's directions — duplicates kept. -/
theorem gen_best_trials_exact (k : Nat) (dirs : List Dir) (hd : dirs.length = k + 1) (ts : List BTrial)
    (hwf : WF dirs.length ts) : interpBestTrials prog dirs ts = some (paretoSpec dirs ts) := by
  rw [gen_best_trials_eq, bestTrialsRef_eq]; exact C12.best_trials_exact k dirs hd ts hwf

/-- **gen_best_trials_membership** — trial `i` is returned iff it is eligible and no eligible trial dominates it. -/
theorem gen_best_trials_membership (k : Nat) (dirs : List Dir) (hd : dirs.length = k + 1) (ts : List BTrial)
    (hwf : WF dirs.length ts) (i : Nat) :
    (∃ l, interpBestTrials prog dirs ts = some l ∧ i ∈ l) ↔
      ∃ t, ts[i]? = some t ∧ eligible ts t = true ∧
        ∀ (j : Nat) (t' : BTrial), ts[j]? = some t' → eligible ts t' = true → domDir dirs (vals t') (vals t) = false := by
  rw [gen_best_trials_eq, bestTrialsRef_eq]; exact C12.best_trials_membership k dirs hd ts hwf i

/-- … in particular after every history replayed with the generated bookkeeping. -/
theorem gen_best_trials_exact_history (d : Dir) (evs : List Ev) :
    interpBestTrials prog [d] (runGen prog [d] evs).trials = some (paretoSpec [d] (runGen prog [d] evs).trials) := by
  rw [runGen_eq]
  exact gen_best_trials_exact 0 [d] rfl _ (C12.history_wellformed [d] evs)

/-- **gen_best_trials_exact_history_dirs** — the same for EVERY direction vector of length `k + 1 ≥ 1` (minimise and maximise in any mix,
any number of objectives) and every history replayed with the generated bookkeeping: `Study.best_trials` as written today returns, in number
order, exactly the eligible trials that no eligible trial dominates under those directions.  `gen_best_trials_exact_history` is `k = 0`. -/
theorem gen_best_trials_exact_history_dirs (k : Nat) (dirs : List Dir) (hd : dirs.length = k + 1) (evs : List Ev) :
    interpBestTrials prog dirs (runGen prog dirs evs).trials = some (paretoSpec dirs (runGen prog dirs evs).trials) := by
  have hne : dirs ≠ [] := by intro e; rw [e] at hd; simp at hd
  rw [runGen_eq_dirs dirs hne]
  exact gen_best_trials_exact k dirs hd _ (C12.history_wellformed dirs evs)

example : interpBestTrials prog [.minimize, .maximize]
    (runGen prog [.minimize, .maximize] [.create .complete (some [.fin 1, .fin 2]) .absent, .create .running none .absent,
      .setState 1 .complete (some [.fin 0, .fin 3]), .create .complete (some [.fin 2, .fin 1]) .absent]).trials = some [1] := by decide +kernel

/-- `_dominates` as written today is direction-aware dominance (used by the samplers; same relation as `best_trials`). -/
theorem gen_dominates_is_domDir (dirs : List Dir) (t0 t1 : BTrial) (a b : List EVal)
    (h0 : t0.state = .complete) (h1 : t1.state = .complete) (ha : t0.values = some a) (hb : t1.values = some b)
    (hla : a.length = dirs.length) (hlb : b.length = dirs.length) :
    interpDominates prog.normalize prog.dominates dirs t0 t1 = .ok (domDir dirs a b) := by
  rw [gen_dominates_eq dirs t0 t1 a b h0 h1 ha hb hla hlb, C12.normalize_dominance]

-- duplicates are both returned; the infeasible best point is dropped once some trial has the constraints key
example : interpBestTrials prog [.minimize, .maximize]
    [⟨.complete, some [.fin 0, .fin 9], .vals [.fin 1]⟩, ⟨.complete, some [.fin 1, .fin 5], .vals [.fin 0]⟩,
     ⟨.complete, some [.fin 1, .fin 5], .vals []⟩, ⟨.complete, some [.fin 1, .fin 4], .vals [.fin 0]⟩,
     ⟨.complete, some [.ninf, .ninf], .vals [.ninf]⟩, ⟨.complete, some [.ninf, .pinf], .absent⟩,
     ⟨.pruned, some [.ninf, .pinf], .vals [.fin 0]⟩] = some [1, 2, 4] := by decide +kernel
-- two copies of a front point that contains +inf are both returned
example : interpBestTrials prog [.minimize, .minimize]
    [⟨.complete, some [.fin 0, .pinf], .absent⟩, ⟨.complete, some [.fin 0, .pinf], .absent⟩, ⟨.complete, some [.fin 1, .pinf], .absent⟩]
    = some [0, 1] := by decide +kernel

end OptunaVerif.C12GenSpec
