import OptunaVerif.Lemmas.Direction
import OptunaVerif.Lemmas.Nsga2Mirror
import OptunaVerif.Generated.DirectionSites
/-!
# C13 — maximising `f` behaves exactly like minimising `-f`

For every direction-dependent decision site of `Model/Direction.lean` a *mirror* theorem: the site
under `maximize` on values `v` decides exactly what it decides under `minimize` on `-v`, for **all**
inputs (any list lengths, any rationals, NaNs where the code accepts them) — no bound.  The
multi-objective paths read the objective values only through the loss normalisation
(`lvals *= ±1`, `_normalize_value`), which is invariant under flipping any subset of objectives
(`loss_row_flip`, `normalised_component_symmetric`).

Partial by nature (DESIGN §3 C13, MANIFEST): that the numpy/torch sampler bodies contain no other
direction dependence is tied by the T-sites inventory (`direction_sites_all_modelled`, a `decide`d
obligation over a table regenerated from `/repo` on every run) and by paired runs of the real code
(`verif/props/c13.py`); float rounding of `100 - q` / `lerp` is outside ℚ.

Two sites were **not** symmetric and have been repaired in `/repo`.  NSGA-II `_crowding_distance_sort` (finding
F-C13-1: ties between equal crowding distances were ordered by the raw last objective) now sorts by
`(-distance, number)`: `crowding_order_symmetric` for ALL fronts with distinct numbers and pairwise-distinct values
per objective; `crowding_old_order_not_symmetric` keeps the old behaviour's witness (about `crowdingSortOld`), so that a
revert is recognised.  NSGA-III niching on raw values (finding F-C13-2): `nsga3_shift_symmetric`;
`nsga3_raw_shift_not_symmetric` keeps the old behaviour's witness.
-/
namespace OptunaVerif.C13
open OptunaVerif OptunaVerif.Direction

/-! ## pruners -/

/-- `_get_best_intermediate_result_over_steps`: `nanmax v = -nanmin (-v)` (NaN ↦ NaN). -/
theorem best_intermediate_mirror (vs : List V) :
    bestIntermediate .maximize vs = negV (bestIntermediate .minimize (negVL vs)) := by
  simp only [bestIntermediate]; exact nanmax_eq vs

example : bestIntermediate .maximize [some 1, none, some 3] = some 3 ∧
    bestIntermediate .minimize (negVL [some 1, none, some 3]) = some (-3) := by decide +kernel

/-- numpy's linearly interpolated percentile: `perc (100 - q) v = - perc q (-v)` for every
non-empty list (duplicates allowed) and every `0 ≤ q ≤ 100`. -/
theorem percentile_mirror (l : List Rat) (q : Rat) (hl : l ≠ []) (hq0 : 0 ≤ q) (hq1 : q ≤ 100) :
    percLin (sortR l) (100 - q) = -percLin (sortR (negL l)) q := by
  rw [sortR_negL]
  apply percLin_mirror _ _ _ hq0 hq1
  intro h
  have := congrArg List.length h
  simp at this
  exact hl this

example : percLin (sortR [4, 1, 2]) (100 - 25) = 3 ∧ percLin (sortR (negL [4, 1, 2])) 25 = -3 := by
  decide +kernel

theorem nanpercentile_mirror (l : List V) (q : Rat) (hq0 : 0 ≤ q) (hq1 : q ≤ 100) :
    nanpercentile l (100 - q) = negV (nanpercentile (negVL l) q) := by
  unfold nanpercentile
  rw [finite_negVL]
  cases h : finite l with
  | nil => simp [negL, negV]
  | cons x t =>
    have := percentile_mirror (x :: t) q (by simp) hq0 hq1
    simp only [negL, List.map_cons] at this ⊢
    simp [negV, this]

/-- `_get_percentile_intermediate_result_over_trials`: under MAXIMIZE the source computes the mirror of the
minimisation case itself (`-np.nanpercentile(-values, percentile)`, repair of F41), so the mirror law holds by
construction — no appeal to `perc (100 - q) v = -perc q (-v)` (`nanpercentile_mirror`, true over ℚ only). -/
theorem percentile_over_trials_mirror (vals : List V) (q : Rat) (nMin : Nat)
    (hq0 : 0 ≤ q) (hq1 : q ≤ 100) :
    percentileOverTrials .maximize vals q nMin =
      negV (percentileOverTrials .minimize (negVL vals) q nMin) := by
  unfold percentileOverTrials
  have : (negVL vals).length = vals.length := by simp [negVL]
  rw [this]
  split <;> rfl

/-- `PercentilePruner.prune` / `MedianPruner.prune`: same decision in the mirrored study. -/
theorem percentile_prune_mirror (q : Rat) (nMin : Nat) (cur others : List V)
    (hq0 : 0 ≤ q) (hq1 : q ≤ 100) :
    percentilePrune .maximize q nMin cur others =
      percentilePrune .minimize q nMin (negVL cur) (negVL others) := by
  unfold percentilePrune
  rw [best_intermediate_mirror cur, percentile_over_trials_mirror others q nMin hq0 hq1]
  cases bestIntermediate .minimize (negVL cur) with
  | none => simp [negV]
  | some b =>
    cases percentileOverTrials .minimize (negVL others) q nMin with
    | none => simp [negV]
    | some p =>
      simp only [negV, gt_iff_lt, decide_eq_decide]
      constructor <;> intro h <;> linarith

example : percentilePrune .maximize 50 1 [some 1] [some 2, some 3, some 4] = true ∧
    percentilePrune .maximize 50 1 [some 5] [some 2, some 3, some 4] = false ∧
    percentilePrune .minimize 50 1 [some (-1)] [some (-2), some (-3), some (-4)] = true := by
  decide +kernel

theorem promotableIdx_lt (n rf : Nat) (hn : 0 < n) : promotableIdx n rf < n := by
  unfold promotableIdx
  split
  · exact hn
  · have : n / rf ≤ n := Nat.div_le_self n rf
    omega

/-- `_is_trial_promotable_to_next_rung`: top-k under maximize = bottom-k of the negated values. -/
theorem promotable_mirror (value : Rat) (competing : List Rat) (rf : Nat) (hc : competing ≠ []) :
    promotable .maximize value competing rf = promotable .minimize (-value) (negL competing) rf := by
  have hn : 0 < competing.length := List.length_pos_iff.mpr hc
  have hidx := promotableIdx_lt competing.length rf hn
  unfold promotable
  simp only [negL_length]
  rw [sortR_negL, getD_negL_reverse _ _ (by simpa using hidx)]
  simp only [sortR_length, decide_eq_decide]
  constructor <;> intro h <;> linarith

example : promotable .maximize 5 [1, 5, 3, 4] 2 = true ∧ promotable .maximize 3 [1, 5, 3, 4] 2 = false ∧
    promotable .minimize (-5) (negL [1, 5, 3, 4]) 2 = true := by decide +kernel

/-- `PatientPruner`: `nanmin(before) + δ < nanmin(after)` ⇔ mirrored `nanmax(before) - δ > nanmax(after)`. -/
theorem patient_mirror (before after : List V) (delta : Rat) :
    patientMaybePrune .maximize before after delta =
      patientMaybePrune .minimize (negVL before) (negVL after) delta := by
  unfold patientMaybePrune
  simp only
  rw [nanmax_eq before, nanmax_eq after]
  cases nanmin (negVL before) with
  | none => simp [negV]
  | some b =>
    cases nanmin (negVL after) with
    | none => simp [negV]
    | some a =>
      simp only [negV, decide_eq_decide]
      constructor <;> intro h <;> linarith

example : patientMaybePrune .maximize [some 5] [some 3, some 4] (1/2) = true ∧
    patientMaybePrune .maximize [some 5] [some 3, some 6] (1/2) = false := by decide +kernel

/-- `ThresholdPruner` with mirrored bounds (`lower' = -upper`, `upper' = -lower`). -/
theorem threshold_mirror (lower upper : Option Rat) (v : V) :
    thresholdPrune lower upper v =
      thresholdPrune (upper.map (fun x => -x)) (lower.map (fun x => -x)) (negV v) := by
  unfold thresholdPrune
  cases v with
  | none => simp [negV]
  | some x =>
    simp only [negV]
    rw [Bool.or_comm]
    cases lower <;> cases upper <;> simp only [Option.map_none, Option.map_some, Bool.or_false, Bool.false_or] <;>
      first
        | rfl
        | (congr 1 <;> simp only [decide_eq_decide] <;> constructor <;> intro h <;> linarith)
        | (simp only [decide_eq_decide]; constructor <;> intro h <;> linarith)

example : thresholdPrune (some 0) (some 1) (some 2) = true ∧ thresholdPrune (some 0) none (some 2) = false := by
  decide +kernel

theorem lookupStep_neg (s : Int) (best : List (Int × Rat)) :
    lookupStep s (best.map (fun p => (p.1, -p.2))) = (lookupStep s best).map (fun x => -x) := by
  induction best with
  | nil => rfl
  | cons p t ih =>
    obtain ⟨s', v⟩ := p
    simp only [List.map_cons, lookupStep]
    split <;> simp [ih]

theorem diffs_neg (cur best : List (Int × Rat)) :
    diffs (cur.map (fun p => (p.1, -p.2))) (best.map (fun p => (p.1, -p.2))) = negL (diffs cur best) := by
  unfold diffs negL
  rw [List.filterMap_map, List.map_filterMap]
  congr 1
  funext p
  simp only [Function.comp, lookupStep_neg]
  cases lookupStep p.1 best with
  | none => rfl
  | some b => simp only [Option.map_some]; congr 1; ring

/-- `WilcoxonPruner`: the signed-rank sums swap under negation (`rPlus (-d) = rMinus d`), the
alternative flips `less ↔ greater`, `average_is_best` mirrors.  `hpv`: the null distribution of the
signed-rank statistic is symmetric (assumption about scipy, sampled by the tie). -/
theorem wilcoxon_mirror (pv : Alt → Rat → Rat → Nat → Rat)
    (hpv : ∀ rp rm n, pv .less rp rm n = pv .greater rm rp n)
    (pThr : Rat) (cur best : List (Int × Rat)) :
    wilcoxonPrune pv .maximize pThr cur best =
      wilcoxonPrune pv .minimize pThr (cur.map (fun p => (p.1, -p.2))) (best.map (fun p => (p.1, -p.2))) := by
  unfold wilcoxonPrune
  simp only [diffs_neg, rPlus_negL, rMinus_negL, negL_length, wilcoxonAlt, hpv]
  have hb : (best.map (fun p => (p.1, -p.2))).map (·.2) = negL (best.map (·.2)) := by
    simp [negL, List.map_map, Function.comp_def]
  have hc : (cur.map (fun p => (p.1, -p.2))).map (·.2) = negL (cur.map (·.2)) := by
    simp [negL, List.map_map, Function.comp_def]
  have havg : avgIsBest .maximize (best.map (·.2)) (cur.map (·.2)) =
      avgIsBest .minimize (negL (best.map (·.2))) (negL (cur.map (·.2))) := by
    unfold avgIsBest
    simp only [mean_negL, decide_eq_decide]
    constructor <;> intro h <;> linarith
  rw [hb, hc, havg]

/-- the signed-rank statistic itself: a concrete evaluation (ties and a zero) -/
example : rPlus [1, -2, 2, 0] = 6 ∧ rMinus [1, -2, 2, 0] = 4 ∧ rPlus (negL [1, -2, 2, 0]) = 4 := by decide +kernel

/-! ## TPE -/

/-- `_split_complete_trials_single_objective`: `sorted(reverse=True)` on `v` and `sorted` on `-v`
put the same trials below and above (stable both ways, so this holds even with equal values). -/
theorem split_complete_single_mirror (ts : List TV) (nBelow : Nat) :
    let a := splitCompleteSingle .maximize ts nBelow
    let b := splitCompleteSingle .minimize (negT ts) nBelow
    a.1.map (·.1) = b.1.map (·.1) ∧ a.2.map (·.1) = b.2.map (·.1) := by
  have key : sortBy (fun (a b : TV) => leR a.2 b.2) (negT ts) =
      negT (sortBy (fun (a b : TV) => leR b.2 a.2) ts) := by
    unfold negT
    rw [sortBy_map]
    congr 2
    funext a b
    simp only [leR, decide_eq_decide]
    constructor <;> intro h <;> linarith
  simp only [splitCompleteSingle, key]
  have hl : (negT ts).length = ts.length := by simp [negT]
  rw [hl]
  unfold negT
  constructor
  · rw [← List.map_take]; simp [List.map_map, Function.comp_def]
  · rw [← List.map_drop]; simp [List.map_map, Function.comp_def]

example : (splitCompleteSingle .maximize [(0, 1), (1, 5), (2, 3)] 2).1.map (·.1) = [1, 2] ∧
    (splitCompleteSingle .minimize (negT [(0, 1), (1, 5), (2, 3)]) 2).1.map (·.1) = [1, 2] := by
  decide +kernel

theorem lastEntry_negIV (iv : List (Int × V)) :
    lastEntry (negIV iv) = (lastEntry iv).map (fun p => (p.1, negV p.2)) := by
  induction iv with
  | nil => rfl
  | cons p t ih =>
    simp only [negIV, List.map_cons, lastEntry] at ih ⊢
    rw [ih]
    cases lastEntry t with
    | none => rfl
    | some m =>
      simp only [Option.map_some]
      split <;> rfl

/-- `_get_pruned_trial_score`: the score of a pruned trial is the same in both runs. -/
theorem pruned_score_mirror (iv : List (Int × V)) :
    prunedScore .maximize iv = prunedScore .minimize (negIV iv) := by
  unfold prunedScore
  rw [lastEntry_negIV]
  cases lastEntry iv with
  | none => rfl
  | some p =>
    obtain ⟨s, v⟩ := p
    cases v <;> simp [negV]

example : prunedScore .maximize [(0, some 1), (3, some 2)] = (-3, .fin (-2)) ∧
    prunedScore .minimize [(0, some 1), (3, some 2)] = (-3, .fin 2) ∧
    prunedScore .maximize [(1, none)] = (-1, .pinf) := by decide +kernel

/-- `_split_pruned_trials`: same below / above numbers in both runs. -/
theorem split_pruned_mirror (ts : List (Nat × List (Int × V))) (nBelow : Nat) :
    splitPruned .maximize ts nBelow =
      splitPruned .minimize (ts.map (fun p => (p.1, negIV p.2))) nBelow := by
  unfold splitPruned
  have key : sortBy (fun (a b : Nat × List (Int × V)) => scoreLe (prunedScore .minimize a.2) (prunedScore .minimize b.2))
      (ts.map (fun p => (p.1, negIV p.2))) =
      (sortBy (fun (a b : Nat × List (Int × V)) => scoreLe (prunedScore .maximize a.2) (prunedScore .maximize b.2)) ts).map
        (fun p => (p.1, negIV p.2)) := by
    rw [sortBy_map]
    congr 2
    funext a b
    simp only [pruned_score_mirror]
  simp only [key, List.length_map]
  refine Prod.ext ?_ ?_
  · simp only []; rw [← List.map_take]; simp [List.map_map, Function.comp_def]
  · simp only []; rw [← List.map_drop]; simp [List.map_map, Function.comp_def]

/-- `_split_trials` (single objective): the below / above sets handed to the two Parzen
estimators are the same trials in both runs — complete and pruned parts composed, with the quota
arithmetic in between. -/
theorem split_trials_single_mirror (complete : List TV) (pruned : List (Nat × List (Int × V)))
    (nBelow : Nat) :
    splitTrialsSingle .maximize complete pruned nBelow =
      splitTrialsSingle .minimize (negT complete) (pruned.map (fun p => (p.1, negIV p.2))) nBelow := by
  have h := split_complete_single_mirror complete nBelow
  simp only at h
  obtain ⟨h1, h2⟩ := h
  have hlen : (splitCompleteSingle .maximize complete nBelow).1.length =
      (splitCompleteSingle .minimize (negT complete) nBelow).1.length := by
    have := congrArg List.length h1
    simpa using this
  unfold splitTrialsSingle
  simp only [h1, h2, hlen, split_pruned_mirror]

example : splitTrialsSingle .maximize [(0, 1), (3, 5)] [(1, [(0, some 2)]), (2, [(1, some 0)])] 3 = ([0, 2, 3], [1]) ∧
    splitTrialsSingle .minimize [(0, 1), (3, 5)] [(1, [(0, some 2)]), (2, [(1, some 0)])] 1 = ([0], [1, 2, 3]) := by
  decide +kernel

/-! ## loss normalisation and everything that reads values only through it -/

/-- `_normalize_value` -/
theorem normalize_mirror (v : Rat) : normalize .maximize v = normalize .minimize (-v) := rfl

theorem sign_flip_mul (d : Dir) (v : Rat) : sign d.flip * -v = sign d * v := by
  cases d <;> simp [sign, Dir.flip]

/-- `lvals *= ±1`: flipping the direction of any subset of objectives together with the sign of
their values leaves the loss row unchanged. -/
theorem loss_row_flip (mask : List Bool) (dirs : List Dir) (vals : List Rat)
    (h1 : mask.length = dirs.length) :
    lossRow (flipDirs mask dirs) (flipVals mask vals) = lossRow dirs vals := by
  induction mask generalizing dirs vals with
  | nil =>
    cases dirs with
    | nil => simp [flipDirs, lossRow]
    | cons d ds => simp at h1
  | cons m ms ih =>
    cases dirs with
    | nil => simp at h1
    | cons d ds =>
      cases vals with
      | nil => simp [flipVals, lossRow]
      | cons v vs =>
        simp only [flipDirs, flipVals, lossRow]
        rw [ih ds vs (by simpa using h1)]
        cases m <;> cases d <;> simp [sign, Dir.flip]

/-- Anything computed from the loss matrix (non-domination rank, HSSP tie-break, hypervolume
weights, NSGA rank) is the same in the two runs, for every subset of flipped objectives. -/
theorem normalised_component_symmetric {β : Type} (F : List (List Rat) → β)
    (mask : List Bool) (dirs : List Dir) (rows : List (List Rat)) (h1 : mask.length = dirs.length) :
    F (lossMatrix (flipDirs mask dirs) (rows.map (flipVals mask))) = F (lossMatrix dirs rows) := by
  congr 1
  unfold lossMatrix
  rw [List.map_map]
  apply List.map_congr_left
  intro r _
  exact loss_row_flip mask dirs r h1

example : lossMatrix (flipDirs [true, false] [.minimize, .minimize]) ([[1, 2], [3, 4]].map (flipVals [true, false]))
    = [[1, 2], [3, 4]] := by decide +kernel

theorem norm_row_flip (mask : List Bool) (dirs : List Dir) (vals : List Rat)
    (h1 : mask.length = dirs.length) :
    normRow (flipDirs mask dirs) (flipVals mask vals) = normRow dirs vals := by
  induction mask generalizing dirs vals with
  | nil =>
    cases dirs with
    | nil => simp [flipDirs, normRow]
    | cons d ds => simp at h1
  | cons m ms ih =>
    cases dirs with
    | nil => simp at h1
    | cons d ds =>
      cases vals with
      | nil => simp [flipVals, normRow]
      | cons v vs =>
        simp only [flipDirs, flipVals, normRow]
        rw [ih ds vs (by simpa using h1)]
        cases m <;> cases d <;> simp [normalize, Dir.flip]

/-- `_dominates` (Pareto front of `best_trials`, NSGA parent selection) -/
theorem dominates_flip (mask : List Bool) (dirs : List Dir) (v0 v1 : List Rat)
    (h1 : mask.length = dirs.length) :
    dominates (flipDirs mask dirs) (flipVals mask v0) (flipVals mask v1) = dominates dirs v0 v1 := by
  unfold dominates
  simp only [norm_row_flip mask dirs _ h1]

example : dominates [.maximize, .minimize] [3, 1] [2, 1] = true ∧
    dominates [.maximize, .minimize] [2, 1] [3, 1] = false := by decide +kernel

/-! ## GP sampler -/

/-- `_sign * value`: the score vector the GP is fitted on is the same in both runs. -/
theorem gp_score_mirror (v : Rat) : gpScore .maximize v = gpScore .minimize (-v) := by
  simp [gpScore]

/-! ## best trial -/

theorem updateBest_mirror (best : Option TV) (new : TV) :
    (updateBest .minimize (best.map (fun p => (p.1, -p.2))) (new.1, -new.2)) =
      (updateBest .maximize best new).map (fun p => (p.1, -p.2)) := by
  cases best with
  | none => rfl
  | some b =>
    simp only [updateBest, Option.map_some]
    by_cases h : b.2 < new.2
    · have h' : -new.2 < -b.2 := by linarith
      simp [h, h']
    · have h' : ¬ (-new.2 < -b.2) := by intro hh; apply h; linarith
      simp [h, h']

/-- `InMemoryStorage._update_cache` over any history of COMPLETE trials, and the feasible
fallback `max(feasible, key=value)` / `min(...)` of `Study.best_trial`: same trial number. -/
theorem best_trial_mirror (ts : List TV) :
    (bestTrial .maximize ts).map (·.1) = (bestTrial .minimize (negT ts)).map (·.1) := by
  have gen : ∀ (ts : List TV) (acc : Option TV),
      (negT ts).foldl (updateBest .minimize) (acc.map (fun p => (p.1, -p.2))) =
        (ts.foldl (updateBest .maximize) acc).map (fun p => (p.1, -p.2)) := by
    intro ts
    induction ts with
    | nil => intro acc; rfl
    | cons t rest ih =>
      intro acc
      simp only [negT, List.map_cons, List.foldl_cons] at ih ⊢
      rw [updateBest_mirror acc t]
      exact ih _
  unfold bestTrial
  have := gen ts none
  simp only [Option.map_none] at this
  rw [this]
  cases ts.foldl (updateBest .maximize) none <;> simp

example : (bestTrial .maximize [(0, 1), (1, 5), (2, 5), (3, 2)]).map (·.1) = some 1 ∧
    (bestTrial .minimize [(0, 1), (1, 5), (2, 5), (3, 2)]).map (·.1) = some 0 := by decide +kernel

/-! ## NSGA-II crowding-distance sort and NSGA-III niching: symmetric since the repairs of F-C13-1 / F-C13-2; the old
behaviours are kept as definitions with their (replayable) witnesses -/

def witnessPop : List Ind := [⟨0, [0, 0]⟩, ⟨1, [1, 1]⟩]

theorem flipVals_getD_rat (mask : List Bool) (vs : List Rat) (i : Nat) (h1 : i < mask.length) (h2 : i < vs.length) :
    (flipVals mask vs).getD i 0 = if mask.getD i false then -(vs.getD i 0) else vs.getD i 0 := by
  induction mask generalizing vs i with
  | nil => simp at h1
  | cons m ms ih =>
    cases vs with
    | nil => simp at h2
    | cons v vs =>
      cases i with
      | zero => cases m <;> simp [flipVals]
      | succ i =>
        simp only [List.length_cons, Nat.add_lt_add_iff_right] at h1 h2
        simpa [flipVals] using ih vs i h1 h2

/-- mirroring commutes with the passage to the NSGA-II model's individuals -/
theorem toN_flipInd (mask : List Bool) (n : Nat) (x : Ind) (hm : mask.length = n) (hv : x.values.length = n) :
    Ind.toN n (flipInd mask x) = Nsga2.flipInd mask (Ind.toN n x) := by
  unfold Ind.toN flipInd Nsga2.flipInd
  simp only [Nsga2.Ind.mk.injEq, true_and, and_true]
  apply List.ext_getElem
  · simp [Nsga2.flipVals_length]
  · intro i h1 h2
    simp only [List.length_map, List.length_range] at h1
    have hfl := Nsga2.flipVals_getD mask ((List.range n).map (fun i => XVal.fin (x.values.getD i 0))) i
    rw [List.getD_eq_getElem?_getD, List.getElem?_eq_getElem h2] at hfl
    simp only [Option.getD_some] at hfl
    rw [hfl]
    simp only [List.getElem_map, List.getElem_range, List.getD_eq_getElem?_getD, List.getElem?_map,
      List.getElem?_range h1, Option.map_some, Option.getD_some]
    have := flipVals_getD_rat mask x.values i (by omega) (by omega)
    simp only [List.getD_eq_getElem?_getD] at this
    rw [this]
    unfold Nsga2.flipOne
    split <;> simp [Nsga2.xneg]

theorem toN_val (n : Nat) (x : Ind) (i : Nat) :
    (Ind.toN n x).val Nsga2.xnum i = if i < n then XVal.fin (x.values.getD i 0) else XVal.fin 0 := by
  unfold Nsga2.Ind.val Ind.toN
  simp only [List.getD_eq_getElem?_getD, List.getElem?_map]
  by_cases h : i < n
  · simp [List.getElem?_range h, h, Nsga2.xnum]
  · have : (List.range n)[i]? = none := by simp; omega
    simp [this, h, Nsga2.xnum]

/-- **crowding_order_symmetric** (NSGA-II, after the repair of F-C13-1).  For EVERY front — any size, any number of
objectives `n`, any rational values — whose trial numbers are pairwise distinct and in which no two individuals
share a value in any objective (the property's quantifier: pairwise-distinct values), and for EVERY subset of
negated objectives: `_crowding_distance_sort` lists the same trials in the same order in the study and in its mirror
image.  (Crowding distances are equal trial by trial — `C13Nsga.crowding_distance_mirror` — and the order is a
function of (distance, number) only.) -/
theorem crowding_order_symmetric (pop : List Ind) (n : Nat) (mask : List Bool)
    (hnum : (pop.map (·.number)).Nodup) (hvals : ∀ x ∈ pop, x.values.length = n) (hmask : mask.length = n)
    (htf : ∀ i < n, (pop.map (fun x => x.values.getD i 0)).Nodup) :
    (crowdingSort (pop.map (flipInd mask)) n).map (·.number) = (crowdingSort pop n).map (·.number) := by
  cases pop with
  | nil => rfl
  | cons p0 t =>
    unfold crowdingSort
    have hflip : ((p0 :: t).map (flipInd mask)).map (Ind.toN n) = ((p0 :: t).map (Ind.toN n)).map (Nsga2.flipInd mask) := by
      simp only [List.map_map]
      apply List.map_congr_left
      intro x hx
      exact toN_flipInd mask n x hmask (hvals x hx)
    rw [hflip]
    simp only [List.map_cons]
    have hlen0 : (Ind.toN n p0).values.length = n := by simp [Ind.toN]
    apply Nsga2.crowdingSort_mirror mask (Ind.toN n p0) (t.map (Ind.toN n))
    · intro z hz i
      rw [← List.map_cons] at hz
      obtain ⟨w, _, rfl⟩ := List.mem_map.1 hz
      rw [toN_val]
      split <;> simp [Nsga2.NotNaN]
    · rw [← List.map_cons, List.map_map]
      exact hnum
    · intro i hi
      rw [hlen0] at hi
      unfold Nsga2.TieFree
      rw [← List.map_cons, List.map_map]
      have : ((fun x => Nsga2.Ind.val Nsga2.xnum x i) ∘ Ind.toN n) = (fun x : Ind => XVal.fin (x.values.getD i 0)) := by
        funext x
        simp [toN_val, hi]
      rw [this]
      have h := (htf i hi).map (f := XVal.fin) (fun a b h => by simpa using h)
      rw [List.map_map] at h
      exact h

-- non-vacuity: the witness front of the former finding, and a front of five trials with three objectives
example : (crowdingSort witnessPop 2).map (·.number) = [0, 1] ∧
    (crowdingSort (witnessPop.map (flipInd [false, true])) 2).map (·.number) = [0, 1] := by decide +kernel

example :
    let pop : List Ind := [⟨7, [0, 9, 3]⟩, ⟨2, [1, 7, 8]⟩, ⟨5, [4, 4, 0]⟩, ⟨3, [6, 1, 5]⟩, ⟨9, [3, 6, 4]⟩]
    (crowdingSort pop 3).map (·.number) = [2, 3, 5, 7, 9] ∧
    (crowdingSort (pop.map (flipInd [true, false, true])) 3).map (·.number) = [2, 3, 5, 7, 9] ∧
    (crowdingSortOld pop 3).map (·.number) ≠ (crowdingSortOld (pop.map (flipInd [true, false, true])) 3).map (·.number) := by
  decide +kernel

/-- What the code did before the repair (`sort(key=distance); reverse()`) is not symmetric: on the front
{#0 = (0,0), #1 = (1,1)} of a (minimize, maximize) study the two boundary individuals tie at distance `inf` and come
out as `[1, 0]`, in the mirrored (minimize, minimize) study as `[0, 1]`.  If the tie-break by number is lost again,
the K witness of `c13.py` reproduces exactly these two orders. -/
theorem crowding_old_order_not_symmetric :
    (crowdingSortOld witnessPop 2).map (·.number) = [1, 0] ∧
    (crowdingSortOld (witnessPop.map (flipInd [false, true])) 2).map (·.number) = [0, 1] := by
  decide +kernel

/-- NSGA-III (after the repair of finding F-C13-2): the matrix handed to the niching step is computed from the
loss matrix (`* signs` in `__call__`, then the ideal-point shift of `_normalize_objective_values`), so it is the
same in the two runs for every subset of flipped objectives, every population, every number of objectives. -/
theorem nsga3_shift_symmetric (mask : List Bool) (dirs : List Dir) (rows : List (List Rat))
    (h1 : mask.length = dirs.length) :
    nsga3Shift (flipDirs mask dirs) (rows.map (flipVals mask)) = nsga3Shift dirs rows := by
  unfold nsga3Shift
  exact normalised_component_symmetric nsga3ShiftRaw mask dirs rows h1

/-- non-vacuity: the witness of the former finding, now equal -/
example : nsga3Shift [.maximize, .minimize] [[0, 1], [1, 0]] = [[1, 1], [0, 0]] ∧
    nsga3Shift [.minimize, .minimize] ([[0, 1], [1, 0]].map (flipVals [true, false])) = [[1, 1], [0, 0]] := by
  decide +kernel

/-- What the code did before the repair (shift of the *raw* values, whatever the direction) is not symmetric:
if the `* signs` is lost again, the K witness of `c13.py` reproduces exactly these two matrices. -/
theorem nsga3_raw_shift_not_symmetric :
    nsga3ShiftRaw [[0, 1], [1, 0]] = [[0, 1], [1, 0]] ∧
    nsga3ShiftRaw ([[0, 1], [1, 0]].map (flipVals [true, false])) = [[1, 1], [0, 0]] := by
  decide +kernel

/-! ## T-sites: every syntactic use of the study direction is one of the modelled kinds -/

open OptunaVerif.Generated.DirectionSites

/-- kind codes that only move a direction value around or ask for the number of objectives:
annotation, param, import, alias, len, iter -/
def harmlessKinds : List Nat := [0, 1, 2, 3, 4, 5]

/-- A direction value may be handed on unchanged (kind `arg`) to these callees, each of which lies
inside the inventoried scope, so that its own uses are sites of the table.  (content key of the
callee name as computed by the translator, name) -/
def passThrough : List (Nat × String) := [
  (966219776530388589, "_dominates"),
  (769997335846989581, "_get_best_intermediate_result_over_steps"),
  (60858935606157838, "_get_pareto_front_trials_by_trials"),
  (992557294830636340, "_get_percentile_intermediate_result_over_trials"),
  (538001665542802874, "_init_optimizer"),
  (486194166520288950, "_is_trial_promotable_to_next_rung"),
  (242144034796757810, "_normalize_value"),
  (809392628677074164, "_rank_population"),
  (934855743950228633, "dominates")
]

/-- The comparison sites: content key of (file, function, kind, normalised source text of the
whole conditional statement / expression — both branches), where it is, the model definition and
theorem that mirror it, and the text the key was computed from (for the reader; the harness
re-checks that it hashes to the key). -/
def modelled : List (Nat × String × String × String) := [
  (303879651824230381, "optuna/pruners/_patient.py :: PatientPruner.prune", "patientMaybePrune / patient_mirror",
    "if direction == StudyDirection.MINIMIZE:\n    maybe_prune = np.nanmin(scores_before_patience) + self._min_delta < np.nanmin(scores_after_patience)\nelse:\n    maybe_prune = np.nanmax(scores_before_patience) - self._min_delta > np.nanmax(scores_after_patience)"),
  (302227148660013765, "optuna/pruners/_percentile.py :: PercentilePruner.prune", "percentilePrune / percentile_prune_mirror",
    "if direction == StudyDirection.MAXIMIZE:\n    return best_intermediate_result < p\nreturn best_intermediate_result > p"),
  (587249821687924554, "optuna/pruners/_percentile.py :: _get_best_intermediate_result_over_steps", "bestIntermediate / best_intermediate_mirror",
    "if direction == StudyDirection.MAXIMIZE:\n    return np.nanmax(values)\nreturn np.nanmin(values)"),
  (38630033197901168, "optuna/pruners/_percentile.py :: _get_percentile_intermediate_result_over_trials", "percentileOverTrials / percentile_over_trials_mirror",
    "if direction == StudyDirection.MAXIMIZE:\n    return float(-np.nanpercentile(-values, percentile))\nreturn float(np.nanpercentile(values, percentile))"),
  (961701887983855907, "optuna/pruners/_successive_halving.py :: _is_trial_promotable_to_next_rung", "promotable / promotable_mirror",
    "if study_direction == StudyDirection.MAXIMIZE:\n    return value >= competing_values[-(promotable_idx + 1)]\nreturn value <= competing_values[promotable_idx]"),
  (1003403920123082744, "optuna/pruners/_wilcoxon.py :: WilcoxonPruner.prune", "wilcoxonAlt, avgIsBest / wilcoxon_mirror",
    "if study.direction == StudyDirection.MAXIMIZE:\n    alt = 'less'\n    average_is_best = sum(best_step_values) / len(best_step_values) <= sum(step_values) / len(step_values)\nelse:\n    alt = 'greater'\n    average_is_best = sum(best_step_values) / len(best_step_values) >= sum(step_values) / len(step_values)"),
  (647806295106539706, "optuna/samplers/_cmaes.py :: CmaEsSampler._init_optimizer", "sign (cmaes is not installed here: inventory only, no paired runs)",
    "sign = 1 if direction == StudyDirection.MINIMIZE else -1"),
  (230445444235903133, "optuna/samplers/_cmaes.py :: CmaEsSampler.sample_relative", "normalize (cmaes is not installed here: inventory only, no paired runs)",
    "y = t.value if study.direction == StudyDirection.MINIMIZE else -t.value"),
  (1025251500456186751, "optuna/samplers/_gp/sampler.py :: GPSampler.sample_relative", "gpScore / gp_score_mirror",
    "_sign = -1.0 if study.direction == StudyDirection.MINIMIZE else 1.0"),
  (74504816849398637, "optuna/samplers/_tpe/sampler.py :: _calculate_weights_below_for_multi_objective", "lossRow / normalised_component_symmetric",
    "lvals *= np.array([-1.0 if d == StudyDirection.MAXIMIZE else 1.0 for d in study.directions])"),
  (617997911809762632, "optuna/samplers/_tpe/sampler.py :: _get_pruned_trial_score", "prunedScore / pruned_score_mirror",
    "if study.direction == StudyDirection.MINIMIZE:\n    return (-step, intermediate_value)\nelse:\n    return (-step, -intermediate_value)"),
  (797440649637856998, "optuna/samplers/_tpe/sampler.py :: _split_complete_trials_multi_objective", "lossRow / normalised_component_symmetric",
    "lvals *= np.array([-1.0 if d == StudyDirection.MAXIMIZE else 1.0 for d in study.directions])"),
  (548322413692360182, "optuna/samplers/_tpe/sampler.py :: _split_complete_trials_single_objective", "splitCompleteSingle / split_complete_single_mirror",
    "if study.direction == StudyDirection.MINIMIZE:\n    sorted_trials = sorted(trials, key=lambda trial: cast(float, trial.value))\nelse:\n    sorted_trials = sorted(trials, key=lambda trial: cast(float, trial.value), reverse=True)"),
  (1023719012774262988, "optuna/samplers/_nsgaiii/_elite_population_selection_strategy.py :: NSGAIIIElitePopulationSelectionStrategy.__call__", "nsga3Shift / nsga3_shift_symmetric",
    "signs = np.array([-1.0 if d == StudyDirection.MAXIMIZE else 1.0 for d in study.directions])"),
  (1009417229565642569, "optuna/samplers/nsgaii/_elite_population_selection_strategy.py :: _rank_population", "lossRow / normalised_component_symmetric",
    "objective_values *= np.array([-1.0 if d == StudyDirection.MAXIMIZE else 1.0 for d in directions])"),
  (483258862141608860, "optuna/storages/_in_memory.py :: InMemoryStorage._update_cache", "updateBest / best_trial_mirror",
    "if direction == StudyDirection.MAXIMIZE:\n    if best_value < new_value:\n        self._studies[study_id].best_trial_id = trial_id\nelif best_value > new_value:\n    self._studies[study_id].best_trial_id = trial_id"),
  (781127105785771589, "optuna/study/_multi_objective.py :: _normalize_value", "normalize / normalize_mirror, dominates_flip",
    "if direction is StudyDirection.MAXIMIZE:\n    value = -value\nreturn value"),
  (194436531777880718, "optuna/study/study.py :: Study.best_trial", "bestTrial / best_trial_mirror",
    "if self.direction == StudyDirection.MAXIMIZE:\n    best_trial = max(feasible_trials, key=lambda t: cast(float, t.value))\nelse:\n    best_trial = min(feasible_trials, key=lambda t: cast(float, t.value))")
]

/-- The places where a direction value is handed on (content key of file, function, callee and
number of such calls in the function): dropping one of them, e.g. calling `_dominates` with a
constant instead of `study.directions`, removes the key from the regenerated table. -/
def handedOn : List (Nat × String) := [
  (342128443367974480, "optuna/pruners/_percentile.py :: PercentilePruner.prune :: arg:_get_best_intermediate_result_over_steps x1"),
  (481892620949972523, "optuna/pruners/_percentile.py :: PercentilePruner.prune :: arg:_get_percentile_intermediate_result_over_trials x1"),
  (274944644098412827, "optuna/pruners/_successive_halving.py :: SuccessiveHalvingPruner.prune :: arg:_is_trial_promotable_to_next_rung x1"),
  (141722228062336961, "optuna/samplers/_cmaes.py :: CmaEsSampler.sample_relative :: arg:_init_optimizer x3"),
  (397384540408325075, "optuna/samplers/_nsgaiii/_elite_population_selection_strategy.py :: NSGAIIIElitePopulationSelectionStrategy.__call__ :: arg:_rank_population x1"),
  (771615535309437999, "optuna/samplers/nsgaii/_constraints_evaluation.py :: _constrained_dominates :: arg:_dominates x2"),
  (250947280829458419, "optuna/samplers/nsgaii/_crossover.py :: _select_parent :: arg:dominates x1"),
  (752245170275467178, "optuna/samplers/nsgaii/_elite_population_selection_strategy.py :: NSGAIIElitePopulationSelectionStrategy.__call__ :: arg:_rank_population x1"),
  (114542491584912774, "optuna/study/_multi_objective.py :: _dominates :: arg:_normalize_value x4"),
  (369806653867956746, "optuna/study/_multi_objective.py :: _get_pareto_front_trials :: arg:_get_pareto_front_trials_by_trials x1"),
  (33341047191780696, "optuna/study/_multi_objective.py :: _get_pareto_front_trials_by_trials :: arg:_normalize_value x2")
]

def siteOk (s : Site) : Bool :=
  harmlessKinds.contains s.kindCode ||
  (s.kindCode == 6 && (passThrough.map (·.1)).contains s.calleeKey) ||
  (s.kindCode == 7 && (modelled.map (·.1)).contains s.key)

/-- Every syntactic use of `StudyDirection` / `.direction(s)` in optuna/samplers, optuna/pruners,
optuna/_hypervolume, `_multi_objective.py`, `Study.best_trial` and the in-memory best-trial cache
(table regenerated from `/repo` by `verif/translators/tsites.py` on every run) is a pure
pass-through or one of the comparison sites modelled above — text of both branches included.  A new
or edited direction branch makes this obligation fail. -/
theorem direction_sites_all_modelled : sites.all siteOk = true := by decide

/-- Conversely every modelled comparison is still present in the code (a deleted mirroring
branch also breaks the tie). -/
theorem modelled_sites_all_present :
    (modelled.map (·.1)).all (fun k => (sites.map (·.key)).contains k) = true := by decide

/-- Every hand-on of a direction value is still there. -/
theorem handed_on_sites_all_present :
    (handedOn.map (·.1)).all (fun k => (sites.map (·.key)).contains k) = true := by decide

example : sites.length ≥ 60 ∧ modelled.length = 18 ∧ handedOn.length = 11 := by decide

end OptunaVerif.C13
