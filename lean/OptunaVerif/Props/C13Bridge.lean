import OptunaVerif.Lemmas.PrunersMirror
import OptunaVerif.Props.C16SkelGen
import OptunaVerif.Props.C13Tpe
import OptunaVerif.Props.C13
import OptunaVerif.Props.C15
/-!
# C13 bridge — the direction mirror on the models that ARE tied to the source

`Props/C13.lean` proves mirror laws for the small helpers of `Model/Direction.lean`.  This file proves the
mirror on `Model/Pruners.lean` — the model whose control flow is regenerated from the source
(`Props/C16SkelGen.skel_prune_eq`) and whose integer kernels are T-int generated (`Props/C16Gen`) — as WHOLE
`prune` calls, for every study state and configuration, and transports it to the interpreter of the generated
skeletons (`gen_prune_mirror*`).

`negT` negates every reported intermediate value and every stored `completed_rung_k` value of a trial (NaN stays
NaN; the model's trial has no final value: no pruner reads it); `mirrorP` mirrors the bounds of a
ThresholdPruner (`lower' = -upper`, `upper' = -lower`) and keeps everything else.

What makes each mirror go through (and where it does not):
* Threshold: `v < lower` / `v > upper` are strict on both sides, so they swap exactly under negation; NaN first.
* Patient: `nanmin(before) + δ < nanmin(after)` ↔ `nanmax(after') < nanmax(before') - δ` — strict on both sides,
  `-(a + δ) = -a - δ` also at ±inf; the window split is by step and does not look at values.
* SuccessiveHalving / Hyperband: the promotable index counts from the front under minimize and from the end
  under maximize of the SAME ascending sort, `<=` / `>=` are both non-strict, so the sorted list of the negated
  values (the reversed, negated sort — unique because `≤` is antisymmetric on non-NaN floats, ties are equal
  values) gives the same comparison.  Hypothesis: no stored `completed_rung_k` is NaN (`NoNanRungs`; invariant of
  every reachable study, `C16.sh_never_stores_nan`) — Python's `sort` with NaN has no mirror law.
* Percentile / Median: since the repair of F41 the source computes the MAXIMIZE case as the mirror of the MINIMIZE case
  itself (`-np.nanpercentile(-values, percentile)`), `best < p` / `best > p` are both strict: the mirror holds for EVERY
  state, ±inf reports included, with no hypothesis.  The formulation before the repair (`percentile = 100 - percentile` on
  the raw values) is kept as `percentileOverTrialsOld` / `percentilePruneOld`: it mirrors only without ±inf reports
  (`percentileOverTrialsOld_mirror`), and `percentile_mirror_fails_with_inf` is the witness (numpy's two `_lerp` branches
  `a + d·t` / `b - d·(1 - t)` agree for finite neighbours only) — a revert of the source is recognised by the skeleton
  translator, `C16SkelGen.gen_percentile_over_trials` and the C13 site table, and replayed by `inf_percentile_witness`.
-/
set_option linter.unusedSimpArgs false
set_option linter.unusedVariables false
namespace OptunaVerif.C13Bridge
open OptunaVerif OptunaVerif.Pruners OptunaVerif.Skel

/-! ## whole-`prune` mirrors on Model/Pruners.lean -/

/-- **PercentilePruner, whole `prune`** (start-up, `last_step`, warm-up, interval, NaN best, `n_min_trials`, the
percentile as the source computes it under each direction, the strict comparison): EVERY state, ±inf reports included. -/
theorem prune_mirror_percentile (crc : Nat → Nat) (trials : List PTrial) (n : Nat) (t : PTrial) (c : PercentileCfg) :
    prune crc ⟨.maximize, trials⟩ n t (.percentile c) =
      prune crc ⟨.minimize, trials.map negT⟩ n (negT t) (.percentile c) := by
  simp only [prune, percentilePrune_mirror c trials t]

/-- MedianPruner = PercentilePruner(50) -/
theorem prune_mirror_median (crc : Nat → Nat) (trials : List PTrial) (n : Nat) (t : PTrial) (a b c d : Nat) :
    prune crc ⟨.maximize, trials⟩ n t (Pruner.median a b c d) =
      prune crc ⟨.minimize, trials.map negT⟩ n (negT t) (Pruner.median a b c d) :=
  prune_mirror_percentile crc trials n t _

/-- the formulation BEFORE the repair of F41 is not symmetric with a ±inf report: numpy's `_lerp` at `t = 1/2` between
`-inf` and `0` is `-inf`, between `0` and `+inf` it is `inf - inf = nan`; the old median pruner then prunes under minimize
and not under maximize (this is what the real code did up to the repair; a revert brings it back). -/
theorem percentile_mirror_fails_with_inf :
    percentilePruneOld ⟨50, 0, 0, 1, 1⟩ .minimize
      [⟨.complete, [(0, .ninf)], []⟩, ⟨.complete, [(0, .fin 0)], []⟩] ⟨.running, [(0, .fin 5)], []⟩ = true ∧
    percentilePruneOld ⟨50, 0, 0, 1, 1⟩ .maximize
      ([⟨.complete, [(0, .ninf)], []⟩, ⟨.complete, [(0, .fin 0)], []⟩].map negT) (negT ⟨.running, [(0, .fin 5)], []⟩) = false := by
  decide +kernel

/-- … and the same witness under today's formulation is symmetric: pruned in both runs -/
example :
    percentilePrune ⟨50, 0, 0, 1, 1⟩ .minimize
      [⟨.complete, [(0, .ninf)], []⟩, ⟨.complete, [(0, .fin 0)], []⟩] ⟨.running, [(0, .fin 5)], []⟩ = true ∧
    percentilePrune ⟨50, 0, 0, 1, 1⟩ .maximize
      ([⟨.complete, [(0, .ninf)], []⟩, ⟨.complete, [(0, .fin 0)], []⟩].map negT) (negT ⟨.running, [(0, .fin 5)], []⟩) = true := by
  decide +kernel

/-- on values without ±inf the two formulations agree in exact arithmetic (they differ by float rounding only) -/
theorem percentile_old_eq_new_without_inf (completed : List PTrial) (d : Dir) (step : Int) (q : Rat) (nMin : Nat)
    (h : NoInf (valuesAtStep completed step)) (hq0 : 0 ≤ q) (hq1 : q ≤ 100) :
    percentileOverTrials completed d step q nMin = percentileOverTrialsOld completed d step q nMin := by
  unfold percentileOverTrials percentileOverTrialsOld
  simp only
  split
  · rfl
  · cases d with
    | minimize => rfl
    | maximize =>
      simp only
      rw [npPercentile_neg _ q h hq0 hq1, xneg_xneg]

example : prune (fun _ => 0) ⟨.maximize, [⟨.complete, [(0, .fin 1)], []⟩, ⟨.complete, [(0, .fin 3)], []⟩]⟩ 2
      ⟨.running, [(0, .fin 0)], []⟩ (Pruner.median 0 0 1 1) = noWrite true ∧
    prune (fun _ => 0) ⟨.minimize, [⟨.complete, [(0, .fin (-1))], []⟩, ⟨.complete, [(0, .fin (-3))], []⟩]⟩ 2
      ⟨.running, [(0, .fin 0)], []⟩ (Pruner.median 0 0 1 1) = noWrite true := by decide +kernel

/-- **ThresholdPruner, whole `prune`**, bounds mirrored -/
theorem prune_mirror_threshold (crc : Nat → Nat) (trials : List PTrial) (n : Nat) (t : PTrial) (c : ThresholdCfg) :
    prune crc ⟨.maximize, trials⟩ n t (.threshold c) =
      prune crc ⟨.minimize, trials.map negT⟩ n (negT t) (.threshold (mirrorThreshold c)) := by
  simp only [prune, thresholdPrune_mirror]

example : thresholdPrune ⟨.fin 0, .fin 1, 0, 1⟩ ⟨.running, [(0, .fin 2)], []⟩ = true ∧
    thresholdPrune (mirrorThreshold ⟨.fin 0, .fin 1, 0, 1⟩) (negT ⟨.running, [(0, .fin 2)], []⟩) = true ∧
    mirrorThreshold ⟨.fin 0, .fin 1, 0, 1⟩ = ⟨.fin (-1), .fin 0, 0, 1⟩ := by decide +kernel

/-- **SuccessiveHalvingPruner, whole `prune`** (auto `min_resource`, current rung, the rung loop with bootstrap and
promotion, the `completed_rung_k` writes — the written value is the negated one) -/
theorem prune_mirror_sh (crc : Nat → Nat) (trials : List PTrial) (n : Nat) (t : PTrial) (c : SHCfg) (hr : NoNanRungs trials) :
    prune crc ⟨.minimize, trials.map negT⟩ n (negT t) (.sh c) = negR (prune crc ⟨.maximize, trials⟩ n t (.sh c)) :=
  shPrune_mirror c trials t hr

/-- **HyperbandPruner, whole `prune`**: same bracket (it depends on name and number only), the bracket's trials negated,
then the bracket's successive-halving pruner -/
theorem prune_mirror_hyperband (crc : Nat → Nat) (trials : List PTrial) (n : Nat) (t : PTrial) (c : HBCfg) (hr : NoNanRungs trials) :
    prune crc ⟨.minimize, trials.map negT⟩ n (negT t) (.hyperband c) = negR (prune crc ⟨.maximize, trials⟩ n t (.hyperband c)) :=
  hbPrune_mirror c crc trials n t hr

example : (prune (fun _ => 0) ⟨.maximize, [⟨.running, [(1, .fin 0)], [(0, .fin 3)]⟩]⟩ 1 ⟨.running, [(1, .fin 1)], []⟩ (.sh ⟨some 1, 2, 0, 0⟩)).prune = true ∧
    (prune (fun _ => 0) ⟨.minimize, [⟨.running, [(1, .fin 0)], [(0, .fin (-3))]⟩]⟩ 1 ⟨.running, [(1, .fin (-1))], []⟩ (.sh ⟨some 1, 2, 0, 0⟩)).prune = true := by
  decide +kernel

/-- **every pruner, whole `prune`** — in particular **PatientPruner around any pruner that itself mirrors** (the
induction step: the window comparison mirrors, then the wrapped pruner's mirror applies). -/
theorem prune_mirror_all (crc : Nat → Nat) (trials : List PTrial) (n : Nat) (t : PTrial) (p : Pruner)
    (hr : NoNanRungs trials) :
    prune crc ⟨.minimize, trials.map negT⟩ n (negT t) (mirrorP p) = negR (prune crc ⟨.maximize, trials⟩ n t p) :=
  prune_mirror crc trials n t p hr

/-- PatientPruner (wrapped or not): decisions equal -/
theorem prune_mirror_patient (crc : Nat → Nat) (trials : List PTrial) (n : Nat) (t : PTrial) (w : Pruner) (k : Nat) (dl : Rat)
    (hr : NoNanRungs trials) :
    (prune crc ⟨.maximize, trials⟩ n t (.patient w k dl)).prune =
      (prune crc ⟨.minimize, trials.map negT⟩ n (negT t) (.patient (mirrorP w) k dl)).prune := by
  have := prune_mirror_all crc trials n t (.patient w k dl) hr
  simp only [mirrorP] at this
  rw [this]; rfl

example : patientMaybe 1 0 .maximize ⟨.running, [(0, .fin 3), (1, .fin 4), (2, .fin 3), (3, .fin 3)], []⟩ = true ∧
    patientMaybe 1 0 .minimize (negT ⟨.running, [(0, .fin 3), (1, .fin 4), (2, .fin 3), (3, .fin 3)], []⟩) = true := by
  decide +kernel

/-! ## … and for the interpreter of the GENERATED skeletons -/

theorem prunerValid_mirror (p : Pruner) (h : C16SkelGen.PrunerValid p) : C16SkelGen.PrunerValid (mirrorP p) := by
  induction p with
  | patient w k dl ih => exact ih h
  | nop => exact h
  | percentile c => exact h
  | threshold c => trivial
  | sh c => exact h
  | hyperband c => exact h
  | patientNone k dl => exact h

/-- **The mirror for the skeletons regenerated from the source**: interpreting the generated control skeleton of any
pruner under maximize on the study and under minimize on the negated study (thresholds mirrored) gives the same
decision. -/
theorem gen_prune_mirror (crc : Nat → Nat) (trials : List PTrial) (n : Nat) (t : PTrial) (p : Pruner)
    (hv : C16SkelGen.PrunerValid p) (hr : NoNanRungs trials) :
    C16SkelGen.skelPrune crc ⟨.maximize, trials⟩ n t p =
      C16SkelGen.skelPrune crc ⟨.minimize, trials.map negT⟩ n (negT t) (mirrorP p) := by
  rw [C16SkelGen.skel_prune_eq crc _ n t p hv, C16SkelGen.skel_prune_eq crc _ n (negT t) (mirrorP p) (prunerValid_mirror p hv),
    prune_mirror_all crc trials n t p hr]
  rfl

theorem gen_prune_mirror_percentile (crc : Nat → Nat) (trials : List PTrial) (n : Nat) (t : PTrial) (c : PercentileCfg)
    :
    C16SkelGen.skelPrune crc ⟨.maximize, trials⟩ n t (.percentile c) =
      C16SkelGen.skelPrune crc ⟨.minimize, trials.map negT⟩ n (negT t) (.percentile c) := by
  rw [C16SkelGen.skel_prune_eq crc _ n t (.percentile c) trivial, C16SkelGen.skel_prune_eq crc _ n (negT t) (.percentile c) trivial,
    prune_mirror_percentile crc trials n t c]

theorem gen_prune_mirror_median (crc : Nat → Nat) (trials : List PTrial) (n : Nat) (t : PTrial) (a b c d : Nat)
    :
    C16SkelGen.skelPrune crc ⟨.maximize, trials⟩ n t (Pruner.median a b c d) =
      C16SkelGen.skelPrune crc ⟨.minimize, trials.map negT⟩ n (negT t) (Pruner.median a b c d) :=
  gen_prune_mirror_percentile crc trials n t _

theorem gen_prune_mirror_threshold (crc : Nat → Nat) (trials : List PTrial) (n : Nat) (t : PTrial) (c : ThresholdCfg) :
    C16SkelGen.skelPrune crc ⟨.maximize, trials⟩ n t (.threshold c) =
      C16SkelGen.skelPrune crc ⟨.minimize, trials.map negT⟩ n (negT t) (.threshold (mirrorThreshold c)) := by
  rw [C16SkelGen.skel_prune_eq crc _ n t (.threshold c) trivial,
    C16SkelGen.skel_prune_eq crc _ n (negT t) (.threshold (mirrorThreshold c)) trivial, prune_mirror_threshold crc trials n t c]

theorem gen_prune_mirror_sh (crc : Nat → Nat) (trials : List PTrial) (n : Nat) (t : PTrial) (c : SHCfg) (hv : c.Valid)
    (hr : NoNanRungs trials) :
    C16SkelGen.skelPrune crc ⟨.maximize, trials⟩ n t (.sh c) =
      C16SkelGen.skelPrune crc ⟨.minimize, trials.map negT⟩ n (negT t) (.sh c) :=
  gen_prune_mirror crc trials n t (.sh c) hv hr

theorem gen_prune_mirror_hyperband (crc : Nat → Nat) (trials : List PTrial) (n : Nat) (t : PTrial) (c : HBCfg) (hv : c.Valid)
    (hr : NoNanRungs trials) :
    C16SkelGen.skelPrune crc ⟨.maximize, trials⟩ n t (.hyperband c) =
      C16SkelGen.skelPrune crc ⟨.minimize, trials.map negT⟩ n (negT t) (.hyperband c) :=
  gen_prune_mirror crc trials n t (.hyperband c) hv hr

theorem gen_prune_mirror_patient (crc : Nat → Nat) (trials : List PTrial) (n : Nat) (t : PTrial) (w : Pruner) (k : Nat) (dl : Rat)
    (hv : C16SkelGen.PrunerValid w) (hr : NoNanRungs trials) :
    C16SkelGen.skelPrune crc ⟨.maximize, trials⟩ n t (.patient w k dl) =
      C16SkelGen.skelPrune crc ⟨.minimize, trials.map negT⟩ n (negT t) (.patient (mirrorP w) k dl) :=
  gen_prune_mirror crc trials n t (.patient w k dl) hv hr

/-- non-vacuity: the interpreted skeletons on a mirrored pair (median prunes in both runs) -/
example :
    C16SkelGen.skelPrune (fun _ => 0) ⟨.maximize, [⟨.complete, [(0, .fin 1)], []⟩, ⟨.complete, [(0, .fin 3)], []⟩]⟩ 2
      ⟨.running, [(0, .fin 0)], []⟩ (Pruner.median 0 0 1 1) = some (.b true) ∧
    C16SkelGen.skelPrune (fun _ => 0) ⟨.minimize, [⟨.complete, [(0, .fin 1)], []⟩, ⟨.complete, [(0, .fin 3)], []⟩].map negT⟩ 2
      (negT ⟨.running, [(0, .fin 0)], []⟩) (Pruner.median 0 0 1 1) = some (.b true) := by decide +kernel

/-! ## `default_gamma` -/

/-- **`default_gamma(x) = min(⌈x/10⌉, 25)`, about `defaultGamma` itself**: `defaultGamma x` is at most `k` exactly when
`k ≥ 25` or `x ≤ 10·k`; in particular below the cap it is the least `k` with `x/10 ≤ k`. -/
theorem default_gamma_is_ceil (x k : Nat) : TpeSplit.defaultGamma x ≤ k ↔ (25 ≤ k ∨ x ≤ 10 * k) := by
  unfold TpeSplit.defaultGamma; omega

theorem default_gamma_eq_ceil_below_cap (x : Nat) (h : x ≤ 250) :
    10 * TpeSplit.defaultGamma x < x + 10 ∧ x ≤ 10 * TpeSplit.defaultGamma x := by
  unfold TpeSplit.defaultGamma; omega

theorem default_gamma_capped (x : Nat) (h : 240 < x) : TpeSplit.defaultGamma x = 25 := by
  unfold TpeSplit.defaultGamma; omega

example : TpeSplit.defaultGamma 31 = 4 ∧ (TpeSplit.defaultGamma 31 ≤ 3 ↔ False) ∧ TpeSplit.defaultGamma 241 = 25 ∧ TpeSplit.defaultGamma 240 = 24 := by
  decide

/-! ## the C15 kernels meet `KernelsOk` -/

section kernels
open OptunaVerif.Hypervolume OptunaVerif.Rank OptunaVerif.Hssp

/-- a lattice coordinate (the C15 models are over integer points; rationals by scaling) -/
def toInt? : XVal → Option Int
  | .fin q => if q.den = 1 then some q.num else none
  | _ => none

def toPt? : List XVal → Option Pt
  | [] => some []
  | v :: t => match toInt? v, toPt? t with
    | some a, some r => some (a :: r)
    | _, _ => none

def toPts? : List (List XVal) → Option (List Pt)
  | [] => some []
  | r :: t => match toPt? r, toPts? t with
    | some a, some rest => some (a :: rest)
    | _, _ => none

theorem toPts?_length : ∀ (rows : List (List XVal)) (S : List Pt), toPts? rows = some S → S.length = rows.length := by
  intro rows
  induction rows with
  | nil => intro S h; simp [toPts?] at h; subst h; rfl
  | cons r t ih =>
    intro S h
    simp only [toPts?] at h
    cases h1 : toPt? r <;> cases h2 : toPts? t <;> simp [h1, h2] at h
    subst h
    simp [ih _ h2]

/-- every level below a used rank is used, for a rank function that is a peeling below `B` -/
theorem peeling_levels_nonempty (d : Nat) (S : List Pt) (hS : ∀ q ∈ S, q.length = d) (ρ : Pt → Nat) (B : Nat)
    (hiff : ∀ p ∈ S, ∀ j, j < B → j ≤ ρ p → (ρ p = j ↔ ∀ q ∈ S, j ≤ ρ q → ¬ Dom q p)) :
    ∀ p ∈ S, ∀ j, j < B → j < ρ p → ∃ p' ∈ S, ρ p' = j := by
  intro p hp j hjB hj
  have hT : ∀ q ∈ S.filter (fun q => decide (j ≤ ρ q)), q.length = d := fun q hq => hS q (List.mem_filter.mp hq).1
  have hne : S.filter (fun q => decide (j ≤ ρ q)) ≠ [] := by
    intro h
    have : p ∈ S.filter (fun q => decide (j ≤ ρ q)) := List.mem_filter.mpr ⟨hp, by simp; omega⟩
    rw [h] at this; simp at this
  obtain ⟨p0, hp0, hnd⟩ := exists_nonDom d _ hT hne
  have hp0S := (List.mem_filter.mp hp0).1
  have hp0j : j ≤ ρ p0 := by simpa using (List.mem_filter.mp hp0).2
  refine ⟨p0, hp0S, ?_⟩
  rw [hiff p0 hp0S j hjB hp0j]
  intro q hq hjq
  exact hnd q (List.mem_filter.mpr ⟨hq, by simpa using hjq⟩)

/-- **the ranks `_calculate_nondomination_rank(S, n_below)` hands out are contiguous from 0** (from
`C15.rank_n_below_spec` for several objectives, `C15.rank_eq_peeling` for one) -/
theorem calcRank_contiguous (d : Nat) (S : List Pt) (hS : ∀ q ∈ S, q.length = d) (nb : Option Int) :
    ∀ r ∈ calcRank d S nb, ∀ r' < r, r' ∈ calcRank d S nb := by
  intro r hr r' hlt
  unfold calcRank at hr ⊢
  obtain ⟨p, hp, rfl⟩ := List.mem_map.mp hr
  by_cases ht : trivialCase S nb = true
  · simp [rankFn, ht] at hlt
  have ht' : trivialCase S nb = false := by simpa using ht
  by_cases h1 : d = 1
  · -- one objective: the rank is the index among the unique sorted values, a full peeling
    subst h1
    have hne : S.isEmpty = false := by
      cases hS' : S.isEmpty with
      | false => rfl
      | true => simp [trivialCase, hS'] at ht'
    have heq : ∀ q, rankFn 1 S nb q = rankFn 1 S none q := by
      intro q
      cases nb with
      | none => rfl
      | some n =>
        have hn : ¬ n ≤ 0 := by simpa [trivialCase, hne] using ht'
        simp [rankFn, trivialCase, hne, hn]
    have hpeel := C15.rank_eq_peeling 1 S hS
    obtain ⟨p', hp', hr'⟩ := peeling_levels_nonempty 1 S hS (rankFn 1 S none) (r' + 1)
      (fun p hp j _ hj => hpeel p hp j hj) p hp r' (by omega) (by rw [← heq]; exact hlt)
    exact List.mem_map.mpr ⟨p', hp', by rw [heq]; exact hr'⟩
  · obtain ⟨K, hup, _, _⟩ := C15.rank_n_below_spec d S hS nb h1 ht'
    have hK := hup.1 p hp
    obtain ⟨p', hp', hr'⟩ := peeling_levels_nonempty d S hS (rankFn d S nb) K hup.2 p hp r' (by omega) hlt
    exact List.mem_map.mpr ⟨p', hp', hr'⟩

/-- the rank kernel of C15 on a loss matrix: `_fast_non_domination_rank(lvals, n_below=n)` (no penalty) on lattice
rows of equal length; anything else (not the C15 model's domain) gets rank 0 -/
def rankC15 (rows : List (List XVal)) (n : Nat) : List Nat :=
  match toPts? rows with
  | some S =>
    if ∀ q ∈ S, q.length = (rows.headD []).length then (fastRank (rows.headD []).length S none (some n)).getD []
    else rows.map (fun _ => 0)
  | none => rows.map (fun _ => 0)

/-- the HSSP kernel of C15: `_solve_hssp(rank_i_lvals, rank_i_indices, subset_size, ref)` = the selected POSITIONS of
`Hssp.solveHssp`, relabelled by `rank_i_indices`; `ref` is any reference point the rows weakly dominate (the real
`_get_reference_point` is one) -/
def hsspC15 (ref : List Pt → Pt) (rows : List (List XVal)) (idx : List Nat) (k : Nat) : List Nat :=
  match toPts? rows with
  | some V =>
    if V.all (fun p => allLe p (ref V)) ∧ V.length = idx.length then (solveHssp V k (ref V) true).map (fun i => idx.getD i 0)
    else idx.take k
  | none => idx.take k

def kernelsC15 (ref : List Pt → Pt) : TpeSplit.Kernels := ⟨rankC15, hsspC15 ref⟩

theorem zeros_contiguous (rows : List (List XVal)) : ∀ r ∈ rows.map (fun _ => (0 : Nat)), ∀ r' < r, r' ∈ rows.map (fun _ => (0 : Nat)) := by
  intro r hr r' hlt
  obtain ⟨_, _, rfl⟩ := List.mem_map.mp hr
  omega

/-- **`KernelsOk` holds of the C15 hand models of the two kernels** — `Rank.fastRank` (one rank per row, contiguous
from 0: `C15.rank_n_below_spec`, `C15.rank_eq_peeling`) and `Hssp.solveHssp` (`k` distinct positions:
`C15.hssp_returns_k_distinct_members`). -/
theorem kernels_ok_c15 (ref : List Pt → Pt) : C13Tpe.KernelsOk (kernelsC15 ref) where
  rank_length := by
    intro rows n
    show (rankC15 rows n).length = rows.length
    unfold rankC15
    cases h : toPts? rows with
    | none => simp
    | some S =>
      simp only
      split
      · have hl := toPts?_length rows S h
        unfold fastRank
        by_cases he : S.isEmpty = true
        · have : S = [] := List.isEmpty_iff.mp he
          subst this; simp at hl ⊢; omega
        · simp [he, calcRank, hl]
      · simp
  rank_contiguous := by
    intro rows n
    show ∀ r ∈ rankC15 rows n, ∀ r' < r, r' ∈ rankC15 rows n
    unfold rankC15
    cases h : toPts? rows with
    | none => exact zeros_contiguous rows
    | some S =>
      simp only
      split
      · rename_i hS
        unfold fastRank
        by_cases he : S.isEmpty = true
        · simp [he]
        · simp only [he, Bool.false_eq_true, if_false, Option.getD_some]
          exact calcRank_contiguous _ S hS _
      · exact zeros_contiguous rows
  hssp_ok := by
    intro rows idx k hnd hk
    show (hsspC15 ref rows idx k).Nodup ∧ (∀ i ∈ hsspC15 ref rows idx k, i ∈ idx) ∧ (hsspC15 ref rows idx k).length = k
    have hfall : (idx.take k).Nodup ∧ (∀ i ∈ idx.take k, i ∈ idx) ∧ (idx.take k).length = k :=
      ⟨(List.take_sublist k idx).nodup hnd, fun i hi => List.mem_of_mem_take hi, by simp; omega⟩
    unfold hsspC15
    cases h : toPts? rows with
    | none => exact hfall
    | some V =>
      simp only
      split
      · rename_i hc
        obtain ⟨hle0, hlen⟩ := hc
        have hle : ∀ p ∈ V, Le p (ref V) := fun p hp => (allLe_iff' p (ref V)).mp (List.all_eq_true.mp hle0 p hp)
        obtain ⟨h1, h2, h3⟩ := C15.hssp_returns_k_distinct_members V (ref V) hle k (by omega) true
        refine ⟨?_, ?_, by simp [h1]⟩
        · apply List.Nodup.map_on _ h2
          intro a ha b hb hab
          have ha' : a < idx.length := by have := h3 a ha; omega
          have hb' : b < idx.length := by have := h3 b hb; omega
          simp only [List.getD_eq_getElem?_getD, List.getElem?_eq_getElem ha', List.getElem?_eq_getElem hb', Option.getD_some] at hab
          exact (List.Nodup.getElem_inj_iff hnd).mp hab
        · intro i hi
          obtain ⟨a, ha, rfl⟩ := List.mem_map.mp hi
          have ha' : a < idx.length := by have := h3 a ha; omega
          simp [List.getD_eq_getElem?_getD, List.getElem?_eq_getElem ha']
      · exact hfall

/-- **TPE's multi-objective split with the C15 kernels: sizes exact and direction mirror, no kernel hypothesis left** -/
theorem split_sizes_c15 (ref : List Pt → Pt) (dirs : List Direction.Dir) (ce : Bool) (ts : List TpeSplit.Trial) (nBelow : Nat)
    (h : C13Tpe.NoBad ce ts) :
    (TpeSplit.splitTrials (kernelsC15 ref) dirs ce ts nBelow).1.length = min nBelow (TpeSplit.nFinished ts) :=
  C13Tpe.split_sizes_of_kernels _ (kernels_ok_c15 ref) dirs ce ts nBelow h

theorem split_direction_mirror_multi_c15 (ref : List Pt → Pt) (mask : List Bool) (dirs : List Direction.Dir) (ce : Bool)
    (ts : List TpeSplit.Trial) (nBelow : Nat) (hd : 1 < dirs.length) (hm : mask.length = dirs.length)
    (hnd : ∀ t ∈ TpeSplit.ofClass ce .pruned ts, TpeSplit.needsDirection t = false) :
    TpeSplit.splitTrials (kernelsC15 ref) (Direction.flipDirs mask dirs) ce (ts.map (TpeSplit.flipT mask)) nBelow =
      ((TpeSplit.splitTrials (kernelsC15 ref) dirs ce ts nBelow).1.map (TpeSplit.flipT mask),
       (TpeSplit.splitTrials (kernelsC15 ref) dirs ce ts nBelow).2.map (TpeSplit.flipT mask)) :=
  C13Tpe.split_direction_mirror_multi (kernelsC15 ref) mask dirs ce ts nBelow hd hm hnd

/-- non-vacuity: the C15 kernels at work on a two-objective study (ranks 0,1,1,2 with `n_below = 2`: trial 0 below by rank,
one of the two rank-1 trials by HSSP) -/
example :
    (TpeSplit.splitTrials (kernelsC15 (fun _ => [10, 10])) [.minimize, .minimize] false
      [⟨0, .complete, [.fin 0, .fin 0], [], none⟩, ⟨1, .complete, [.fin 1, .fin 3], [], none⟩, ⟨2, .complete, [.fin 3, .fin 1], [], none⟩,
       ⟨3, .complete, [.fin 4, .fin 4], [], none⟩] 2).1.map (·.number) = [0, 1] ∧
    rankC15 [[.fin 0, .fin 0], [.fin 1, .fin 3], [.fin 3, .fin 1], [.fin 4, .fin 4]] 2 = [0, 1, 1, 2] ∧
    hsspC15 (fun _ => [10, 10]) [[.fin 1, .fin 3], [.fin 3, .fin 1], [.fin 4, .fin 4]] [1, 2, 3] 1 = [1] := by
  decide +kernel

/-! ## `normalised_component_symmetric` at the C15 kernels -/

def ratPt? (r : List Rat) : Option Pt := toPt? (r.map XVal.fin)
def ratPts? (m : List (List Rat)) : Option (List Pt) := toPts? (m.map (fun r => r.map XVal.fin))

/-- **non-domination ranks (`Rank.fastRank` on the loss matrix) are the same in the two runs**, any subset of objectives flipped -/
theorem fast_rank_symmetric_c15 (d : Nat) (nBelow : Option Nat) (mask : List Bool) (dirs : List Direction.Dir)
    (rows : List (List Rat)) (h1 : mask.length = dirs.length) :
    (ratPts? (Direction.lossMatrix (Direction.flipDirs mask dirs) (rows.map (Direction.flipVals mask)))).bind
        (fun S => fastRank d S none nBelow) =
      (ratPts? (Direction.lossMatrix dirs rows)).bind (fun S => fastRank d S none nBelow) :=
  C13.normalised_component_symmetric (fun M => (ratPts? M).bind (fun S => fastRank d S none nBelow)) mask dirs rows h1

/-- **the HSSP tie-break (`Hssp.solveHssp` on the loss rows) is the same in the two runs** -/
theorem solve_hssp_symmetric_c15 (k : Nat) (ref : List Pt → Pt) (fin : Bool) (mask : List Bool) (dirs : List Direction.Dir)
    (rows : List (List Rat)) (h1 : mask.length = dirs.length) :
    (ratPts? (Direction.lossMatrix (Direction.flipDirs mask dirs) (rows.map (Direction.flipVals mask)))).map
        (fun V => solveHssp V k (ref V) fin) =
      (ratPts? (Direction.lossMatrix dirs rows)).map (fun V => solveHssp V k (ref V) fin) :=
  C13.normalised_component_symmetric (fun M => (ratPts? M).map (fun V => solveHssp V k (ref V) fin)) mask dirs rows h1

example : (ratPts? (Direction.lossMatrix [.maximize, .minimize] [[1, 2], [3, 0]])).bind (fun S => fastRank 2 S none none) = some [1, 0] ∧
    (ratPts? (Direction.lossMatrix [.minimize, .minimize] [[-1, 2], [-3, 0]])).bind (fun S => fastRank 2 S none none) = some [1, 0] := by
  decide +kernel

end kernels

end OptunaVerif.C13Bridge
