import OptunaVerif.Props.C13Bridge
import OptunaVerif.Props.C16ReportGen
/-!
# C13 — the direction mirror over whole HISTORIES of `ask` / `report` / `should_prune` / `tell`

`Props/C13Bridge.lean` proves the mirror for one `prune` call on a study whose stored `completed_rung_k` values are not
NaN (`NoNanRungs`).  Here the hypothesis is discharged: the negated history (`negOp`: every reported value negated, every
pruner replaced by its mirror `mirrorP` — ThresholdPruner bounds mirrored, everything else identical) builds, from the
empty minimising study, exactly the negated study (`after_neg` — including the rung values `should_prune` writes), every
reachable study has no NaN rung (`reachable_noNanRungs`, from `C16.reachable_wf`), hence `should_prune()` answers the
same in the maximising history and in the mirrored minimising history at EVERY call (`prune_mirror_history`,
`history_outputs_mirror`) — no hypothesis on the history at all.
-/
set_option linter.unusedSimpArgs false
set_option linter.unusedVariables false
namespace OptunaVerif.C13History
open OptunaVerif OptunaVerif.Pruners

/-- the op of the mirrored history -/
def negOp : Op → Op
  | .report n st v => .report n st (xneg v)
  | .shouldPrune n p => .shouldPrune n (mirrorP p)
  | op => op

/-- the mirrored study of a maximising study -/
def negStudy (s : Study) : Study := ⟨.minimize, s.trials.map negT⟩

theorem noNanRungs_of_wf (s : Study) (h : C16.WFStudy s) : NoNanRungs s.trials :=
  fun t ht p hp => ((h t ht).2 p hp).1

/-- **every reachable study has no NaN `completed_rung_k`** (the pruner returns before storing a NaN: `C16.sh_never_stores_nan`,
carried along every history by `C16.reachable_wf`) -/
theorem reachable_noNanRungs (crc : Nat → Nat) (d : Dir) (ops : List Op) :
    NoNanRungs (after crc (Study.init d) ops).trials :=
  noNanRungs_of_wf _ (C16.reachable_wf crc d ops)

theorem updAt_map {α β : Type} (g : α → β) (f : α → α) (f' : β → β) (h : ∀ a, f' (g a) = g (f a)) :
    ∀ (l : List α) (n : Nat), updAt (l.map g) n f' = (updAt l n f).map g := by
  intro l
  induction l with
  | nil => intro n; rfl
  | cons a t ih =>
    intro n
    cases n with
    | zero => simp [updAt, h]
    | succ n => simp [updAt, ih]

theorem applyWrites_neg (t : PTrial) (r : SHResult) : applyWrites (negT t) (negR r) = negT (applyWrites t r) := by
  simp [applyWrites, negT, negR, List.map_append, List.map_map, Function.comp_def]

theorem step_dir (crc : Nat → Nat) (s : Study) (op : Op) : (step crc s op).1.dir = s.dir := by
  cases op with
  | ask => rfl
  | report n st v =>
    simp only [step]
    cases s.trials[n]? with
    | none => rfl
    | some t => simp only; split <;> rfl
  | shouldPrune n p =>
    simp only [step]
    cases s.trials[n]? with
    | none => rfl
    | some t => simp only; split <;> rfl
  | tell n st =>
    simp only [step]
    cases s.trials[n]? with
    | none => rfl
    | some t => simp only; split <;> rfl

/-- one call: the mirrored call on the mirrored study gives the mirrored study and the same answer -/
theorem step_neg (crc : Nat → Nat) (s : Study) (op : Op) (hd : s.dir = .maximize) (hr : NoNanRungs s.trials) :
    step crc (negStudy s) (negOp op) = (negStudy (step crc s op).1, (step crc s op).2) := by
  obtain ⟨d, trials⟩ := s
  simp only at hd hr
  subst hd
  have hget : ∀ n, (trials.map negT)[n]? = (trials[n]?).map negT := fun n => List.getElem?_map
  cases op with
  | ask => simp [step, negOp, negStudy, negT]
  | report n st v =>
    simp only [step, negOp, negStudy, hget]
    cases trials[n]? with
    | none => rfl
    | some t =>
      simp only [Option.map_some, negT_state]
      have hig : (interGet (negT t).inter st).isSome = (interGet t.inter st).isSome := by
        simp only [negT, interGet_neg]; cases interGet t.inter st <;> rfl
      rw [hig]
      by_cases hc : (t.state != TState.running || decide (st < 0) || (interGet t.inter st).isSome) = true
      · simp only [hc, if_true]
      · simp only [hc, if_false, Bool.false_eq_true]
        have := updAt_map negT (fun (t : PTrial) => { t with inter := t.inter ++ [(st, v)] })
          (fun (t : PTrial) => { t with inter := t.inter ++ [(st, xneg v)] }) (by intro a; simp [negT]) trials n
        rw [this]
  | shouldPrune n p =>
    simp only [step, negOp, negStudy, hget]
    cases trials[n]? with
    | none => rfl
    | some t =>
      simp only [Option.map_some, negT_state]
      by_cases hc : (t.state != TState.running) = true
      · simp only [hc, if_true]
      · simp only [hc, if_false, Bool.false_eq_true]
        have hm := prune_mirror crc trials n t p hr
        rw [hm]
        have := updAt_map negT (fun (a : PTrial) => applyWrites a (prune crc ⟨.maximize, trials⟩ n t p))
          (fun (a : PTrial) => applyWrites a (negR (prune crc ⟨.maximize, trials⟩ n t p)))
          (fun a => applyWrites_neg a _) trials n
        rw [this]
        rfl
  | tell n st =>
    simp only [step, negOp, negStudy, hget]
    cases trials[n]? with
    | none => rfl
    | some t =>
      simp only [Option.map_some, negT_state]
      by_cases hc : (t.state != TState.running || !st.isFinished) = true
      · simp only [hc, if_true]
      · simp only [hc, if_false, Bool.false_eq_true]
        have := updAt_map negT (fun (t : PTrial) => { t with state := st }) (fun (t : PTrial) => { t with state := st })
          (by intro a; rfl) trials n
        rw [this]

theorem after_neg_from (crc : Nat → Nat) : ∀ (ops : List Op) (s : Study), s.dir = .maximize → C16.WFStudy s →
    after crc (negStudy s) (ops.map negOp) = negStudy (after crc s ops) := by
  intro ops
  induction ops with
  | nil => intro s _ _; rfl
  | cons op ops ih =>
    intro s hd hwf
    simp only [List.map_cons, after, List.foldl_cons]
    have h1 := step_neg crc s op hd (noNanRungs_of_wf s hwf)
    have := ih (step crc s op).1 (by rw [step_dir]; exact hd) (C16.step_wf crc s op hwf)
    simp only [after] at this
    rw [h1]
    exact this

/-- **the negated history builds the negated study** — every trial, every reported value, every `completed_rung_k` value
written by `should_prune` along the way -/
theorem after_neg (crc : Nat → Nat) (ops : List Op) :
    after crc (Study.init .minimize) (ops.map negOp) = negStudy (after crc (Study.init .maximize) ops) :=
  after_neg_from crc ops (Study.init .maximize) rfl (by intro t ht; simp [Study.init] at ht)

/-- **`should_prune()` after any history**: the answer in the maximising history equals the answer in the mirrored minimising
history — for every pruner (mirrored by `mirrorP`), every op list, every trial number; no hypothesis. -/
theorem prune_mirror_history (crc : Nat → Nat) (ops : List Op) (n : Nat) (p : Pruner) :
    (step crc (after crc (Study.init .minimize) (ops.map negOp)) (.shouldPrune n (mirrorP p))).2 =
      (step crc (after crc (Study.init .maximize) ops) (.shouldPrune n p)).2 := by
  rw [after_neg]
  have hwf := C16.reachable_wf crc .maximize ops
  have hd : (after crc (Study.init .maximize) ops).dir = .maximize := by
    have : ∀ (ops : List Op) (s : Study), (after crc s ops).dir = s.dir := by
      intro ops
      induction ops with
      | nil => intro s; rfl
      | cons op ops ih => intro s; simp only [after, List.foldl_cons]; rw [← step_dir crc s op]; exact ih _
    exact this ops _
  have := step_neg crc _ (.shouldPrune n p) hd (noNanRungs_of_wf _ hwf)
  simp only [negOp] at this
  rw [this]

/-- the answers of all calls of a history, in order (`none` for ask / report / tell and for calls that do nothing) -/
def outputs (crc : Nat → Nat) : Study → List Op → List (Option Bool)
  | _, [] => []
  | s, op :: ops => (step crc s op).2 :: outputs crc (step crc s op).1 ops

theorem outputs_neg_from (crc : Nat → Nat) : ∀ (ops : List Op) (s : Study), s.dir = .maximize → C16.WFStudy s →
    outputs crc (negStudy s) (ops.map negOp) = outputs crc s ops := by
  intro ops
  induction ops with
  | nil => intro s _ _; rfl
  | cons op ops ih =>
    intro s hd hwf
    simp only [List.map_cons, outputs]
    rw [step_neg crc s op hd (noNanRungs_of_wf s hwf)]
    simp only
    rw [ih (step crc s op).1 (by rw [step_dir]; exact hd) (C16.step_wf crc s op hwf)]

/-- **at every step**: the whole sequence of `should_prune()` answers of a history and of its mirror are equal -/
theorem history_outputs_mirror (crc : Nat → Nat) (ops : List Op) :
    outputs crc (Study.init .minimize) (ops.map negOp) = outputs crc (Study.init .maximize) ops :=
  outputs_neg_from crc ops (Study.init .maximize) rfl (by intro t ht; simp [Study.init] at ht)

theorem after_dir (crc : Nat → Nat) : ∀ (ops : List Op) (s : Study), (after crc s ops).dir = s.dir := by
  intro ops
  induction ops with
  | nil => intro s; rfl
  | cons op ops ih => intro s; simp only [after, List.foldl_cons]; rw [← step_dir crc s op]; exact ih _

/-! ## starting from the minimising side (`d.flip` in general) -/

theorem negT_negT (t : PTrial) : negT (negT t) = t := by
  cases t with
  | mk st inter rungs =>
    have h1 : inter.map ((fun p : Int × XVal => (p.1, xneg p.2)) ∘ (fun p : Int × XVal => (p.1, xneg p.2))) = inter := by
      conv_rhs => rw [← List.map_id inter]
      apply List.map_congr_left; intro p _; simp [Function.comp]
    have h2 : rungs.map ((fun p : Nat × XVal => (p.1, xneg p.2)) ∘ (fun p : Nat × XVal => (p.1, xneg p.2))) = rungs := by
      conv_rhs => rw [← List.map_id rungs]
      apply List.map_congr_left; intro p _; simp [Function.comp]
    simp only [negT, List.map_map, h1, h2]

theorem mirrorP_mirrorP (p : Pruner) : mirrorP (mirrorP p) = p := by
  induction p with
  | patient w k d ih => simp only [mirrorP, ih]
  | threshold c => simp [mirrorP, mirrorThreshold]
  | nop => rfl
  | percentile c => rfl
  | sh c => rfl
  | hyperband c => rfl
  | patientNone k d => rfl

theorem negOp_negOp (op : Op) : negOp (negOp op) = op := by
  cases op <;> simp [negOp, mirrorP_mirrorP]

/-- the mirrored study of a minimising study -/
def negStudyMax (s : Study) : Study := ⟨.maximize, s.trials.map negT⟩

/-- `after_neg` in the other direction: the negated history of a MINIMISING run builds the negated maximising study -/
theorem after_neg_min (crc : Nat → Nat) (ops : List Op) :
    after crc (Study.init .maximize) (ops.map negOp) = negStudyMax (after crc (Study.init .minimize) ops) := by
  have h := after_neg crc (ops.map negOp)
  rw [List.map_map] at h
  have hid : (negOp ∘ negOp) = id := by funext op; exact negOp_negOp op
  rw [hid, List.map_id] at h
  rw [h]
  have hd := after_dir crc (ops.map negOp) (Study.init .maximize)
  generalize after crc (Study.init .maximize) (ops.map negOp) = s at hd ⊢
  obtain ⟨d, trials⟩ := s
  simp only [Study.init] at hd
  subst hd
  simp only [negStudyMax, negStudy, List.map_map]
  congr 1
  conv_lhs => rw [← List.map_id trials]
  apply List.map_congr_left
  intro t _
  simp [Function.comp, negT_negT]

/-- `after_neg` for either direction -/
theorem after_neg_flip (crc : Nat → Nat) (d : Dir) (ops : List Op) :
    after crc (Study.init (match d with | .maximize => .minimize | .minimize => .maximize)) (ops.map negOp) =
      ⟨(match d with | .maximize => .minimize | .minimize => .maximize), (after crc (Study.init d) ops).trials.map negT⟩ := by
  cases d with
  | maximize => exact after_neg crc ops
  | minimize => exact after_neg_min crc ops

/-! ## … for the interpreter of the generated skeletons and the generated `report` / `should_prune` glue -/

/-- **the skeletons regenerated from the source, over histories**: after any history, interpreting the generated control
skeleton of any pruner on the maximising study and on the study of the mirrored minimising history (trial negated, pruner
mirrored) gives the same decision.  Only `PrunerValid` (valid SH / Hyperband configurations) is assumed. -/
theorem gen_prune_mirror_history (crc : Nat → Nat) (ops : List Op) (n : Nat) (t : PTrial) (p : Pruner)
    (hv : C16SkelGen.PrunerValid p) :
    C16SkelGen.skelPrune crc (after crc (Study.init .maximize) ops) n t p =
      C16SkelGen.skelPrune crc (after crc (Study.init .minimize) (ops.map negOp)) n (negT t) (mirrorP p) := by
  rw [after_neg]
  have hd := after_dir crc ops (Study.init .maximize)
  have hr := reachable_noNanRungs crc .maximize ops
  generalize after crc (Study.init .maximize) ops = s at hd hr ⊢
  obtain ⟨d, trials⟩ := s
  simp only [Study.init] at hd
  subst hd
  exact C13Bridge.gen_prune_mirror crc trials n t p hv hr

/-- the same with the history itself run through the glue GENERATED from `optuna/trial/_trial.py`
(`C16ReportGen.afterG_eq`: `Trial.report` / `Trial.should_prune` as translated from the source) -/
theorem gen_glue_after_neg (crc : Nat → Nat) (ops : List Op) :
    ReportIR.afterG Generated.ReportMethods.reportProg crc (Study.init .minimize) (ops.map negOp) =
      negStudy (ReportIR.afterG Generated.ReportMethods.reportProg crc (Study.init .maximize) ops) := by
  rw [C16ReportGen.afterG_eq, C16ReportGen.afterG_eq, after_neg]

/-! ## non-vacuity -/

/-- the F41 witness as a history: two trials report {-inf, 0} and complete, a third reports 5 and asks the median pruner —
pruned, and so is its mirror ({+inf, 0}, -5 under maximize is the left-hand history here) -/
def f41History : List Op :=
  [.ask, .report 0 0 .pinf, .tell 0 .complete, .ask, .report 1 0 (.fin 0), .tell 1 .complete,
   .ask, .report 2 0 (.fin (-5)), .shouldPrune 2 (Pruner.median 0 0 1 1)]

example : outputs (fun _ => 0) (Study.init .maximize) f41History =
      [none, none, none, none, none, none, none, none, some true] ∧
    outputs (fun _ => 0) (Study.init .minimize) (f41History.map negOp) =
      [none, none, none, none, none, none, none, none, some true] := by decide +kernel

/-- a Hyperband history with a NaN report: trial 0 reaches rung 0 (its value is stored), trial 1 reports NaN and is pruned
without a write; the mirrored history stores the negated rung value and answers the same -/
def hbHistory : List Op :=
  [.ask, .report 0 1 (.fin 3), .shouldPrune 0 (.hyperband ⟨1, 2, 0, some 2⟩),
   .ask, .report 1 1 .nan, .shouldPrune 1 (.hyperband ⟨1, 2, 0, some 2⟩),
   .ask, .report 2 1 (.fin 1), .shouldPrune 2 (.hyperband ⟨1, 2, 0, some 2⟩)]

example : outputs (fun n => n) (Study.init .maximize) hbHistory = outputs (fun n => n) (Study.init .minimize) (hbHistory.map negOp) ∧
    (outputs (fun n => n) (Study.init .maximize) hbHistory).getD 5 none = some true ∧
    ((after (fun n => n) (Study.init .maximize) hbHistory).trials.map (·.rungs)) ≠ [[], [], []] ∧
    (after (fun n => n) (Study.init .minimize) (hbHistory.map negOp)).trials =
      (after (fun n => n) (Study.init .maximize) hbHistory).trials.map negT := by decide +kernel

end OptunaVerif.C13History
