import OptunaVerif.Generated.Nsga2Src
import OptunaVerif.Lemmas.Nsga2Mirror
/-!
# C13 (NSGA-II part) — `_crowding_distance_sort` under `maximize f` ≡ `minimize −f`

The non-domination ranks are computed from direction-normalised values (`_rank_population`, C13's
`normalised_component_symmetric`), the crowding distance from the RAW `trial.values`.  Mirroring a study therefore
shows the crowding code a population with some objective columns negated (`flipInd mask`).  Proved here about
`Model/Nsga2.lean` (exact instance), for the code AFTER the repair of finding F-C13-1 (sort key `(-distance, number)`):

* `crowding_contrib_mirror`            per objective and for EVERY column (ties, ±inf, NaN): the contributions by sorted
                                       position are exactly reversed
* `crowding_distance_mirror`           columns without ties (C13's quantifier: pairwise distinct values): every
                                       individual keeps its distance, for every subset of negated objectives
* `crowding_sort_mirror`               … and the sorted front lists the same trials in the same order (all fronts)
* `crowding_sorted_distances_mirror`   (corollary) same distance sequence along the two sorted fronts
* `crowding_old_tie_order_not_symmetric`, `crowding_old_tie_order_three`   the code BEFORE the repair
                                       (`crowdingSortOld`: sort by distance, reverse) ordered equal distances by the raw
                                       last objective: the recorded witnesses, kept so that a revert is recognised
* `crowding_column_tie_witness`        outside C13's quantifier: with a tie inside a column even the distances change
-/
namespace OptunaVerif.C13Nsga
open OptunaVerif OptunaVerif.Nsga2 List

/-- **crowding_contrib_mirror.**  One objective, any column of values as sorted by the code: negating the values
(the sorted order is then the reverse one) yields the reversed list of contributions — so the multiset of
contributions of that objective never depends on the direction. -/
theorem crowding_contrib_mirror (col : List XVal) :
    contribs xnum ((col.map xneg).reverse) = (contribs xnum col).reverse :=
  contribs_mirror col

example : contribs xnum [.ninf, .fin 0, .fin 1, .fin 4] = [.pinf, .pinf, .fin 1, .pinf] ∧
    contribs xnum [.fin (-4), .fin (-1), .fin 0, .pinf] = [.pinf, .fin 1, .pinf, .pinf] := by decide +kernel

/-- **crowding_distance_mirror.**  A front without NaN values, distinct trial numbers, and no two individuals sharing
a value in any objective: for every subset of negated objectives every individual's crowding distance is unchanged
(so is, a fortiori, the multiset of distances). -/
theorem crowding_distance_mirror (mask : List Bool) (p0 : Ind XVal) (t : List (Ind XVal)) (hnn : NoNaNPop (p0 :: t))
    (hnum : ((p0 :: t).map (·.number)).Nodup) (htf : ∀ i < p0.values.length, TieFree (p0 :: t) i) :
    (∀ n, lookupD xnum n (calcCrowding xnum ((p0 :: t).map (flipInd mask))).2 = lookupD xnum n (calcCrowding xnum (p0 :: t)).2) ∧
    ((p0 :: t).map (fun x => lookupD xnum x.number (calcCrowding xnum ((p0 :: t).map (flipInd mask))).2) =
      (p0 :: t).map (fun x => lookupD xnum x.number (calcCrowding xnum (p0 :: t)).2)) := by
  have h : ∀ n, lookupD xnum n (calcCrowding xnum ((p0 :: t).map (flipInd mask))).2 = lookupD xnum n (calcCrowding xnum (p0 :: t)).2 := by
    intro n
    unfold calcCrowding
    simp only [map_cons]
    have hlen : (flipInd mask p0).values.length = p0.values.length := flipVals_length mask p0.values
    rw [hlen]
    have := fold_rel mask (p0 :: t) hnn hnum (List.range p0.values.length)
      (fun i hi => htf i (by simpa using hi)) (p0 :: t, []) ((p0 :: t).map (flipInd mask), [])
      (Perm.refl _) ⟨Perm.refl _, fun _ => rfl⟩
    simpa using this.look n
  exact ⟨h, map_congr_left (fun x _ => h x.number)⟩

-- non-vacuity: three mutually non-dominated trials, objective 1 negated: same distances
example :
    let pop : List (Ind XVal) := [⟨0, [.fin 0, .fin 5], none, true, []⟩, ⟨1, [.fin 1, .fin 3], none, true, []⟩, ⟨2, [.fin 4, .fin 0], none, true, []⟩]
    (pop.map (fun x => lookupD xnum x.number (calcCrowding xnum (pop.map (flipInd [false, true]))).2)) = [.pinf, .fin 2, .pinf] ∧
    (pop.map (fun x => lookupD xnum x.number (calcCrowding xnum pop).2)) = [.pinf, .fin 2, .pinf] := by decide +kernel

theorem desc_unique (l1 l2 : List XVal) (hg1 : ∀ v ∈ l1, Good v)
    (h1 : l1.Pairwise (fun a b => xlt a b = false)) (h2 : l2.Pairwise (fun a b => xlt a b = false)) (hp : l1.Perm l2) :
    l1 = l2 := by
  apply hp.eq_of_pairwise _ h1 h2
  intro a b ha hb hab hba
  exact xlt_total (hg1 a ha).notNaN (hg1 b (hp.symm.subset hb)).notNaN hab hba

/-- **crowding_sorted_distances_mirror.**  Under the hypotheses of `crowding_distance_mirror`, reading the crowding
distances off the two sorted fronts (original and mirrored) gives the same non-increasing sequence: position by
position the two orders hold individuals of equal distance. -/
theorem crowding_sorted_distances_mirror (mask : List Bool) (p0 : Ind XVal) (t : List (Ind XVal)) (hnn : NoNaNPop (p0 :: t))
    (hnum : ((p0 :: t).map (·.number)).Nodup) (htf : ∀ i < p0.values.length, TieFree (p0 :: t) i) :
    (crowdingSort xnum ((p0 :: t).map (flipInd mask))).map (fun x => lookupD xnum x.number (calcCrowding xnum (p0 :: t)).2) =
      (crowdingSort xnum (p0 :: t)).map (fun x => lookupD xnum x.number (calcCrowding xnum (p0 :: t)).2) := by
  obtain ⟨hd, _⟩ := crowding_distance_mirror mask p0 t hnn hnum htf
  have hnnB : NoNaNPop ((p0 :: t).map (flipInd mask)) := by
    intro z hz i
    obtain ⟨w, hw, rfl⟩ := mem_map.1 hz
    rw [flipInd_val]; exact notNaN_flipOne _ (hnn w hw i)
  obtain ⟨hpA, hgA, hsA⟩ := crowdingSort_desc (p0 :: t) hnn
  obtain ⟨hpB, _, hsB⟩ := crowdingSort_desc ((p0 :: t).map (flipInd mask)) hnnB
  apply desc_unique
  · intro v hv
    obtain ⟨z, _, rfl⟩ := mem_map.1 hv
    exact hgA z.number
  · rw [pairwise_map]
    refine hsB.imp ?_
    intro a b hab
    rw [← hd a.number, ← hd b.number]; exact hab.1
  · rw [pairwise_map]; exact hsA.imp (fun {a b} h => h.1)
  · have h1 := (hpB.map (fun x : Ind XVal => lookupD xnum x.number (calcCrowding xnum (p0 :: t)).2))
    have h2 := (hpA.map (fun x : Ind XVal => lookupD xnum x.number (calcCrowding xnum (p0 :: t)).2))
    refine h1.trans (Perm.trans ?_ h2.symm)
    rw [map_map]
    exact Perm.of_eq (map_congr_left (fun w _ => rfl))

/-- **crowding_sort_mirror.**  Under the hypotheses of `crowding_distance_mirror` (no NaN, distinct numbers, no
per-objective ties), for every subset of negated objectives `_crowding_distance_sort` lists the same trial numbers
in the same order for the front and for its mirror image: the order is a function of (distance, number). -/
theorem crowding_sort_mirror (mask : List Bool) (p0 : Ind XVal) (t : List (Ind XVal)) (hnn : NoNaNPop (p0 :: t))
    (hnum : ((p0 :: t).map (·.number)).Nodup) (htf : ∀ i < p0.values.length, TieFree (p0 :: t) i) :
    (crowdingSort xnum ((p0 :: t).map (flipInd mask))).map (·.number) = (crowdingSort xnum (p0 :: t)).map (·.number) :=
  crowdingSort_mirror mask p0 t hnn hnum htf

/-! ## what was NOT symmetric before the repair of F-C13-1 (`crowdingSortOld`) -/

/-- the front {#0 = (0,0), #1 = (1,1)} of a study with directions (minimize, maximize) -/
def witnessFront : List (Ind XVal) := [⟨0, [.fin 0, .fin 0], none, true, []⟩, ⟨1, [.fin 1, .fin 1], none, true, []⟩]

-- non-vacuity of `crowding_sort_mirror`: the witness front, both boundary individuals at distance inf: [0, 1] both ways
example : (crowdingSort xnum witnessFront).map (·.number) = [0, 1] ∧
    (crowdingSort xnum (witnessFront.map (flipInd [false, true]))).map (·.number) = [0, 1] := by
  constructor <;> decide +kernel

/-- **crowding_old_tie_order_not_symmetric (the former finding F-C13-1).**  Both individuals of `witnessFront` are
boundary individuals: distance `inf` in the study and in its mirror image alike.  The OLD sort
(`sort(key=distance); reverse()`) ordered a class of equal distances by the position the LAST per-objective sort left
them in, reversed: `[1, 0]` for the raw values, `[0, 1]` for the mirrored ones. -/
theorem crowding_old_tie_order_not_symmetric :
    (crowdingSortOld xnum witnessFront).map (·.number) = [1, 0] ∧
    (crowdingSortOld xnum (witnessFront.map (flipInd [false, true]))).map (·.number) = [0, 1] ∧
    (calcCrowding xnum witnessFront).2 = [(0, .pinf), (1, .pinf)] ∧
    (∀ i < 2, TieFree witnessFront i) := by
  refine ⟨by decide +kernel, by decide +kernel, by decide +kernel, ?_⟩
  intro i hi
  have : i = 0 ∨ i = 1 := by omega
  rcases this with rfl | rfl <;> (unfold TieFree; decide +kernel)

/-- … the same with three trials on a line: #0 and #2 tie at `inf`, #1 has distance 2 in both runs; the old sort
listed `[2, 0, 1]` for the raw values and `[0, 2, 1]` for the mirrored ones; the repaired one `[0, 2, 1]` both ways. -/
theorem crowding_old_tie_order_three :
    (crowdingSortOld xnum [⟨0, [.fin 0, .fin 0], none, true, []⟩, ⟨1, [.fin 1, .fin 1], none, true, []⟩,
        ⟨2, [.fin 2, .fin 2], none, true, []⟩]).map (·.number) = [2, 0, 1] ∧
    (crowdingSortOld xnum ([⟨0, [.fin 0, .fin 0], none, true, []⟩, ⟨1, [.fin 1, .fin 1], none, true, []⟩,
        ⟨2, [.fin 2, .fin 2], none, true, []⟩].map (flipInd [false, true]))).map (·.number) = [0, 2, 1] ∧
    (crowdingSort xnum [⟨0, [.fin 0, .fin 0], none, true, []⟩, ⟨1, [.fin 1, .fin 1], none, true, []⟩,
        ⟨2, [.fin 2, .fin 2], none, true, []⟩]).map (·.number) = [0, 2, 1] ∧
    (crowdingSort xnum ([⟨0, [.fin 0, .fin 0], none, true, []⟩, ⟨1, [.fin 1, .fin 1], none, true, []⟩,
        ⟨2, [.fin 2, .fin 2], none, true, []⟩].map (flipInd [false, true]))).map (·.number) = [0, 2, 1] := by
  refine ⟨?_, ?_, ?_, ?_⟩ <;> decide +kernel

/-- **crowding_column_tie_witness** (outside C13's quantifier, which asks for pairwise distinct values): when two
individuals share a value in an objective, which of them gets the larger contribution depends on the order the
previous sorts left them in — negating that objective changes individual distances, and the multiset of distances.
Front of a 3-objective study, objective 0 negated. -/
theorem crowding_column_tie_witness :
    let pop : List (Ind XVal) :=
      [⟨0, [.fin 1, .fin 0, .fin 5], none, true, []⟩, ⟨1, [.fin 1, .fin 5, .fin 0], none, true, []⟩,
       ⟨2, [.fin 0, .fin 6, .fin 6], none, true, []⟩, ⟨3, [.fin 3, .fin (-1), .fin 7], none, true, []⟩]
    pop.map (fun x => lookupD xnum x.number (calcCrowding xnum pop).2) ≠
      pop.map (fun x => lookupD xnum x.number (calcCrowding xnum (pop.map (flipInd [true, false, false]))).2) := by
  decide +kernel

/-! ## T-nsga2: the functions mirrored here are the ones the model was written against -/

/-- content keys (docstring-free, position-free AST; `verif/translators/nsga2_src.py`) of the functions of the tree
under test that the theorems of this file speak about, as they were when `Model/Nsga2.lean` was written -/
def modelledKeys : List (String × Nat) := [
  ("optuna/samplers/nsgaii/_elite_population_selection_strategy.py :: _calc_crowding_distance", 60815413682515448),
  ("optuna/samplers/nsgaii/_elite_population_selection_strategy.py :: _crowding_distance_sort", 458905545629052035),
  ("optuna/samplers/nsgaii/_elite_population_selection_strategy.py :: _rank_population", 645381497369769622)
]

/-- **modelled_source_unchanged.**  `_calc_crowding_distance`, `_crowding_distance_sort` and `_rank_population` are the functions the symmetry statements were proved about, in the state after the repair of F-C13-1 (sort key `(-distance, number)`); an edit — e.g. a revert of that repair — breaks this obligation. -/
theorem modelled_source_unchanged :
    modelledKeys.all (fun p => Generated.Nsga2Src.keyOf p.1 == p.2) = true := by decide

end OptunaVerif.C13Nsga
