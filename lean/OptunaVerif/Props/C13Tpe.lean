import OptunaVerif.Lemmas.TpeSplit
import Mathlib.Data.Nat.Sqrt
import Mathlib.Tactic.Linarith
import Mathlib.Tactic.FieldSimp
import Mathlib.Algebra.Order.Field.Rat
/-!
# C13 / C09 — TPE's trial split and weighting (`Model/TpeSplit.lean`)

For **all** trial lists (any length, any mix of states, tied / infinite values, NaN reports, any
constraints), every `n_below`, both directions, every pair of numeric kernels unless said otherwise.

* `split_is_partition` — `below ++ above` is a permutation of the input trials.
* `split_sizes`, `split_sizes_single`, `mo_select_ok`, `split_sizes_of_kernels` — `|below| = min(n_below, #non-RUNNING)`,
  exactly the quota arithmetic of the code; for several objectives from the contracts of the two kernels (C15).
* `split_sorted_by_number`, `split_halves_strictly_sorted`, `strictly_sorted_eq_of_perm` — both halves sorted by trial
  number; the trial type has no `_trial_id`, each half is determined by its members (C09).
* `running_never_below`, `split_below_independent_of_running`, `sample_*` — constant-liar handling of RUNNING trials.
* `split_direction_mirror` (single objective, ties included), `split_direction_mirror_multi` (any subset of objectives
  flipped) — C13.
* `gamma_bounds`, `default_gamma_is_ceil`, `hyperopt_gamma_is_ceil`; `weights_spec`; `mo_weights_spec`.
The hypothesis `NoBad` / `hnd` of several theorems is "the real call does not raise" (`noBad_of_err_none`,
`no_direction_read_of_err_none`).
-/
set_option linter.unusedSimpArgs false
set_option linter.unusedVariables false
namespace OptunaVerif.C13Tpe
open OptunaVerif OptunaVerif.TpeSplit
open OptunaVerif.Direction (Dir sortBy insertBy sortBy_perm sortBy_length sortBy_map sortBy_pairwise)

/-- no FAIL / WAITING trial reaches the `assert False` of the classification loop -/
def NoBad (ce : Bool) (ts : List Trial) : Prop := ∀ t ∈ ts, classify ce t ≠ .bad

/-- the hypotheses of the theorems below are exactly "the real call does not raise" (`err = none`) -/
theorem noBad_of_err_none (dirs : List Dir) (ce : Bool) (ts : List Trial) (h : err dirs ce ts = none) : NoBad ce ts := by
  intro t ht hbad
  unfold err at h
  have : ts.any (fun t => classify ce t = .bad) = true := by
    rw [List.any_eq_true]; exact ⟨t, ht, by simp [hbad]⟩
  simp [this] at h

theorem no_direction_read_of_err_none (dirs : List Dir) (ce : Bool) (ts : List Trial) (hd : 1 < dirs.length)
    (h : err dirs ce ts = none) : ∀ t ∈ ofClass ce .pruned ts, needsDirection t = false := by
  intro t ht
  unfold err at h
  split at h
  · exact absurd h (by simp)
  · split at h
    · exact absurd h (by simp)
    · rename_i _ h2
      cases hn : needsDirection t with
      | false => rfl
      | true =>
        exfalso
        apply h2
        simp only [Bool.and_eq_true, decide_eq_true_eq, List.any_eq_true]
        exact ⟨hd, t, ht, hn⟩

/-! ## partition -/

/-- **`below ++ above` is a permutation of the input trials** (every considered trial lands in exactly
one half; RUNNING trials included, in `above`). -/
theorem split_is_partition (K : Kernels) (dirs : List Dir) (ce : Bool) (ts : List Trial) (nBelow : Nat)
    (h : NoBad ce ts) :
    ((splitTrials K dirs ce ts nBelow).1 ++ (splitTrials K dirs ce ts nBelow).2).Perm ts := by
  unfold splitTrials sortByNumber
  simp only
  have hc := splitComplete_perm K dirs (ofClass ce .complete ts) nBelow
  generalize splitComplete K dirs (ofClass ce .complete ts) nBelow = c at hc ⊢
  have hp := splitPruned_perm (dir0 dirs) (ofClass ce .pruned ts) (nBelow - c.1.length)
  generalize splitPruned (dir0 dirs) (ofClass ce .pruned ts) (nBelow - c.1.length) = p at hp ⊢
  have hi := splitInfeasible_perm (ofClass ce .infeasible ts) (nBelow - c.1.length - p.1.length)
  generalize splitInfeasible (ofClass ce .infeasible ts) (nBelow - c.1.length - p.1.length) = i at hi ⊢
  refine ((sortBy_perm _ _).append (sortBy_perm _ _)).trans ?_
  refine List.Perm.trans ?_ (classes_perm ce ts h)
  refine List.Perm.trans ?_ (((hc.append hp).append hi).append_right _)
  rw [List.perm_iff_count]
  intro a
  simp only [List.count_append]
  try omega

example : splitTrials ⟨fun _ _ => [], fun _ _ _ => []⟩ [.minimize] false
    [⟨0, .complete, [.fin 3], [], none⟩, ⟨1, .running, [], [], none⟩, ⟨2, .complete, [.fin 1], [], none⟩,
     ⟨3, .pruned, [], [(2, .fin 0)], none⟩] 2 =
    ([⟨0, .complete, [.fin 3], [], none⟩, ⟨2, .complete, [.fin 1], [], none⟩],
     [⟨1, .running, [], [], none⟩, ⟨3, .pruned, [], [(2, .fin 0)], none⟩]) := by decide +kernel

/-! ## sizes -/

/-- what the multi-objective index selection must deliver for the size claim: `n` distinct positions
inside the list (for the real kernels this is C15: `rank_eq_peeling`, `hssp_returns_k_distinct_members`;
`mo_select_ok` below derives it from those two facts) -/
def SelOk (K : Kernels) (dirs : List Dir) : Prop :=
  ∀ (ts : List Trial) (n : Nat), 0 < n → n < ts.length →
    (moSelect K dirs ts n).selected.Nodup ∧ (∀ i ∈ (moSelect K dirs ts n).selected, i < ts.length) ∧
    (moSelect K dirs ts n).selected.length = n

theorem splitComplete_length (K : Kernels) (dirs : List Dir) (ts : List Trial) (nBelow : Nat)
    (hsel : 1 < dirs.length → SelOk K dirs) :
    (splitComplete K dirs ts nBelow).1.length = min nBelow ts.length := by
  unfold splitComplete
  simp only
  split
  · rw [splitCompleteSingle_length]; omega
  · rename_i hd
    unfold splitCompleteMulti
    split
    · rename_i h0; simp; omega
    split
    · rename_i h0 h1; simp; omega
    · rename_i h0 h1
      have hs := hsel (by omega) ts (min nBelow ts.length) (by omega) (by omega)
      rw [byMembership_length ts _ hs.1 hs.2.1, hs.2.2]

/-- **`|below| = min(n_below, number of non-RUNNING trials)`** — the three quotas
`min(n_below, …)`, `max(0, n_below − len(below_complete))`, … add up exactly.  Unconditional for a
single-objective study; for several objectives under `SelOk` (the index selection returns `n` distinct
positions). -/
theorem split_sizes (K : Kernels) (dirs : List Dir) (ce : Bool) (ts : List Trial) (nBelow : Nat)
    (h : NoBad ce ts) (hsel : 1 < dirs.length → SelOk K dirs) :
    (splitTrials K dirs ce ts nBelow).1.length = min nBelow (nFinished ts) ∧
    (splitTrials K dirs ce ts nBelow).2.length = ts.length - min nBelow (nFinished ts) := by
  have hperm := (split_is_partition K dirs ce ts nBelow h).length_eq
  rw [List.length_append] at hperm
  have hcl := classes_length ce ts h
  have hrun := nFinished_add_running ce ts
  have h1 : (splitTrials K dirs ce ts nBelow).1.length = min nBelow (nFinished ts) := by
    unfold splitTrials sortByNumber
    simp only [sortBy_length, List.length_append]
    rw [splitInfeasible_length, splitPruned_length, splitComplete_length K dirs _ _ hsel]
    omega
  exact ⟨h1, by omega⟩

theorem split_sizes_single (K : Kernels) (d : Dir) (ce : Bool) (ts : List Trial) (nBelow : Nat) (h : NoBad ce ts) :
    (splitTrials K [d] ce ts nBelow).1.length = min nBelow (nFinished ts) :=
  (split_sizes K [d] ce ts nBelow h (fun h => absurd h (by simp))).1

example : (splitTrials ⟨fun _ _ => [], fun _ _ _ => []⟩ [.maximize] true
    [⟨0, .complete, [.fin 3], [], some [.fin 1]⟩, ⟨1, .running, [], [], none⟩, ⟨2, .complete, [.fin 1], [], some [.fin (-1)]⟩,
     ⟨3, .pruned, [], [(2, .fin 0)], some []⟩] 5).1.map (·.number) = [0, 2, 3] := by decide +kernel

/-- what C15 establishes about the two kernels, as far as the split needs it:
`_fast_non_domination_rank` returns one rank per row and the ranks used are contiguous from 0
(`Rank.rank_eq_peeling`; the code itself asserts it), `_solve_hssp` returns `subset_size` distinct
members of the index array it was given (`C15.hssp_returns_k_distinct_members`). -/
structure KernelsOk (K : Kernels) : Prop where
  rank_length : ∀ rows n, (K.rank rows n).length = rows.length
  rank_contiguous : ∀ rows n, ∀ r ∈ K.rank rows n, ∀ r' < r, r' ∈ K.rank rows n
  hssp_ok : ∀ rows idx k, idx.Nodup → k ≤ idx.length →
    (K.hssp rows idx k).Nodup ∧ (∀ i ∈ K.hssp rows idx k, i ∈ idx) ∧ (K.hssp rows idx k).length = k

/-- **The multi-objective index selection returns exactly `n_below` distinct positions**, given the
kernel contracts: `len(indices_below) ≤ n_below` by the definition of `last_rank_before_tiebreak`;
when it is smaller, the rows of rank `last + 1` are strictly more than the `subset_size` missing
ones (so the HSSP precondition `subset_size ≤ len(rank_i_indices)` holds — the two `assert`s of the
code cannot fire), and the HSSP result is disjoint from `indices_below`. -/
theorem mo_select_ok (K : Kernels) (hK : KernelsOk K) (dirs : List Dir) : SelOk K dirs := by
  intro ts n hn0 hnlt
  unfold moSelect
  simp only
  generalize hr : K.rank (lossMatrix dirs ts) n = ranks
  have hlen : ranks.length = ts.length := by
    rw [← hr, hK.rank_length]; simp [lossMatrix]
  have hcont : ∀ r ∈ ranks, ∀ r' < r, r' ∈ ranks := by rw [← hr]; exact hK.rank_contiguous _ _
  have hBlen : (indicesWhere (fun r => decide ((r : Int) ≤ lastRank ranks n)) ranks).length ≤ n := by
    rw [indicesWhere_length]; exact idxBelow_length_le ranks n
  have hBnd := indicesWhere_nodup (fun r => decide ((r : Int) ≤ lastRank ranks n)) ranks
  have hBmem : ∀ i ∈ indicesWhere (fun r => decide ((r : Int) ≤ lastRank ranks n)) ranks,
      ∃ r, ranks[i]? = some r ∧ (r : Int) ≤ lastRank ranks n := by
    intro i hi
    obtain ⟨r, h1, h2⟩ := (mem_indicesWhere _ _ _).mp hi
    exact ⟨r, h1, by simpa using h2⟩
  have hBlt : ∀ i ∈ indicesWhere (fun r => decide ((r : Int) ≤ lastRank ranks n)) ranks, i < ts.length := by
    intro i hi; rw [← hlen]; exact indicesWhere_lt _ _ _ hi
  have hTmem : ∀ i ∈ indicesWhere (fun r => decide ((r : Int) = lastRank ranks n + 1)) ranks,
      ∃ r, ranks[i]? = some r ∧ (r : Int) = lastRank ranks n + 1 := by
    intro i hi
    obtain ⟨r, h1, h2⟩ := (mem_indicesWhere _ _ _).mp hi
    exact ⟨r, h1, by simpa using h2⟩
  have hTlt : ∀ i ∈ indicesWhere (fun r => decide ((r : Int) = lastRank ranks n + 1)) ranks, i < ts.length := by
    intro i hi; rw [← hlen]; exact indicesWhere_lt _ _ _ hi
  have hTnd := indicesWhere_nodup (fun r => decide ((r : Int) = lastRank ranks n + 1)) ranks
  have hTk : (indicesWhere (fun r => decide ((r : Int) ≤ lastRank ranks n)) ranks).length < n →
      n - (indicesWhere (fun r => decide ((r : Int) ≤ lastRank ranks n)) ranks).length ≤
        (indicesWhere (fun r => decide ((r : Int) = lastRank ranks n + 1)) ranks).length := by
    intro hlt
    have := tie_large_enough ranks n hcont (by rw [← indicesWhere_length]; exact hlt) (by omega)
    rw [← indicesWhere_length, ← indicesWhere_length] at this
    omega
  generalize indicesWhere (fun r => decide ((r : Int) ≤ lastRank ranks n)) ranks = below at *
  generalize indicesWhere (fun r => decide ((r : Int) = lastRank ranks n + 1)) ranks = tie at *
  split
  · rename_i hlt
    dsimp only
    obtain ⟨hnd, hsub, hl⟩ := hK.hssp_ok (pick (lossMatrix dirs ts) tie) tie (n - below.length) hTnd (hTk hlt)
    refine ⟨?_, ?_, ?_⟩
    · rw [List.nodup_append]
      refine ⟨hBnd, hnd, ?_⟩
      intro a ha b hb hab
      subst hab
      obtain ⟨r1, h1, p1⟩ := hBmem a ha
      obtain ⟨r2, h2, p2⟩ := hTmem a (hsub a hb)
      rw [h1] at h2
      cases h2
      omega
    · intro i hi
      rcases List.mem_append.mp hi with h | h
      · exact hBlt i h
      · exact hTlt i (hsub i h)
    · rw [List.length_append, hl]; omega
  · rename_i hge
    dsimp only
    exact ⟨hBnd, hBlt, by omega⟩

/-- `|below| = min(n_below, non-RUNNING trials)` for any number of objectives, from the kernel contracts -/
theorem split_sizes_of_kernels (K : Kernels) (hK : KernelsOk K) (dirs : List Dir) (ce : Bool) (ts : List Trial) (nBelow : Nat)
    (h : NoBad ce ts) :
    (splitTrials K dirs ce ts nBelow).1.length = min nBelow (nFinished ts) :=
  (split_sizes K dirs ce ts nBelow h (fun _ => mo_select_ok K hK dirs)).1

/-- non-vacuity: a pair of kernels meeting `KernelsOk` (every row rank 0; HSSP takes the first `k` indices) -/
example : KernelsOk ⟨fun rows _ => rows.map (fun _ => 0), fun _ idx k => idx.take k⟩ where
  rank_length := by intro rows n; simp
  rank_contiguous := by
    intro rows n r hr r' hlt
    simp only [List.mem_map] at hr
    obtain ⟨_, _, rfl⟩ := hr
    omega
  hssp_ok := by
    intro rows idx k hnd hk
    exact ⟨(List.take_sublist k idx).nodup hnd, fun i hi => List.mem_of_mem_take hi, by simp; omega⟩

example :
    let K : Kernels := ⟨fun rows _ => rows.map (fun _ => 0), fun _ idx k => idx.take k⟩
    (moSelect K [.minimize, .minimize]
      [⟨0, .complete, [.fin 1, .fin 1], [], none⟩, ⟨1, .complete, [.fin 0, .fin 2], [], none⟩, ⟨2, .complete, [.fin 0, .fin 3], [], none⟩] 2)
      = ⟨[0, 0, 0], -1, [], some ⟨[[.fin 1, .fin 1], [.fin 0, .fin 2], [.fin 0, .fin 3]], [0, 1, 2], 2⟩, [0, 1]⟩ := by
  decide +kernel

/-! ## order of the halves (C09) -/

/-- **Both halves are returned sorted by trial number.**  The model's trial has no `_trial_id`
field, so the split is by construction a function of the id-erased history; together with
`split_halves_strictly_sorted` each half is determined by WHICH trials it holds. -/
theorem split_sorted_by_number (K : Kernels) (dirs : List Dir) (ce : Bool) (ts : List Trial) (nBelow : Nat) :
    (splitTrials K dirs ce ts nBelow).1.Pairwise (fun a b => a.number ≤ b.number) ∧
    (splitTrials K dirs ce ts nBelow).2.Pairwise (fun a b => a.number ≤ b.number) := by
  unfold splitTrials
  exact ⟨sortByNumber_pairwise _, sortByNumber_pairwise _⟩

/-- with pairwise distinct trial numbers (as in any study) the order is strict -/
theorem split_halves_strictly_sorted (K : Kernels) (dirs : List Dir) (ce : Bool) (ts : List Trial) (nBelow : Nat)
    (h : NoBad ce ts) (hnd : (ts.map (·.number)).Nodup) :
    (splitTrials K dirs ce ts nBelow).1.Pairwise (fun a b => a.number < b.number) ∧
    (splitTrials K dirs ce ts nBelow).2.Pairwise (fun a b => a.number < b.number) := by
  have hp := (split_is_partition K dirs ce ts nBelow h).map (·.number)
  have hnd2 : (((splitTrials K dirs ce ts nBelow).1 ++ (splitTrials K dirs ce ts nBelow).2).map (·.number)).Nodup :=
    hp.nodup_iff.mpr hnd
  rw [List.map_append] at hnd2
  have hs := split_sorted_by_number K dirs ce ts nBelow
  have key : ∀ l : List Trial, (l.map (·.number)).Nodup → l.Pairwise (fun a b => a.number ≤ b.number) →
      l.Pairwise (fun a b => a.number < b.number) := by
    intro l h1 h2
    have h1' : l.Pairwise (fun a b => a.number ≠ b.number) := by
      rw [List.Nodup, List.pairwise_map] at h1; exact h1
    exact (h2.and h1').imp (by intro a b h; exact Nat.lt_of_le_of_ne h.1 h.2)
  exact ⟨key _ (List.nodup_append.mp hnd2).1 hs.1, key _ (List.nodup_append.mp hnd2).2.1 hs.2⟩

/-- two strictly number-sorted lists holding the same trials are the same list: the order in which
the storage hands the trials over does not matter beyond membership -/
theorem strictly_sorted_eq_of_perm (l₁ l₂ : List Trial) (hp : l₁.Perm l₂)
    (h1 : l₁.Pairwise (fun a b => a.number < b.number)) (h2 : l₂.Pairwise (fun a b => a.number < b.number)) :
    l₁ = l₂ := by
  apply List.Perm.eq_of_pairwise (le := fun a b => a.number < b.number) _ h1 h2 hp
  intro a b _ _ hab hba
  omega

example : (splitTrials ⟨fun _ _ => [], fun _ _ _ => []⟩ [.minimize] false
    [⟨0, .complete, [.fin 3], [], none⟩, ⟨1, .complete, [.fin 2], [], none⟩, ⟨2, .complete, [.fin 1], [], none⟩] 2).1.map (·.number)
    = [1, 2] := by decide +kernel

/-! ## RUNNING trials (constant liar) -/

/-- **A RUNNING trial is never in `below`** (it only ever joins `above`: the "constant liar"). -/
theorem running_never_below (K : Kernels) (dirs : List Dir) (ce : Bool) (ts : List Trial) (nBelow : Nat) :
    ∀ t ∈ (splitTrials K dirs ce ts nBelow).1, t.state ≠ .running := by
  intro t ht
  unfold splitTrials sortByNumber at ht
  simp only at ht
  have ht' := (sortBy_perm _ _).subset ht
  simp only [List.mem_append] at ht'
  rcases ht' with (h | h) | h
  · have := (splitComplete_perm K dirs (ofClass ce .complete ts) nBelow).subset (List.mem_append_left _ h)
    exact not_running_of_class (mem_ofClass this) (by decide)
  · have := (splitPruned_perm (dir0 dirs) (ofClass ce .pruned ts) _).subset (List.mem_append_left _ h)
    exact not_running_of_class (mem_ofClass this) (by decide)
  · have := (splitInfeasible_perm (ofClass ce .infeasible ts) _).subset (List.mem_append_left _ h)
    exact not_running_of_class (mem_ofClass this) (by decide)

/-- **RUNNING trials do not influence `below`**: deleting them from the input leaves the below half
(the trials the "good" density is built from) unchanged — they neither take quota nor shift the cut. -/
theorem split_below_independent_of_running (K : Kernels) (dirs : List Dir) (ce : Bool) (ts : List Trial) (nBelow : Nat) :
    (splitTrials K dirs ce (ts.filter (fun t => t.state ≠ .running)) nBelow).1 = (splitTrials K dirs ce ts nBelow).1 := by
  unfold splitTrials
  simp only [ofClass_filter_notRunning ce .complete (by decide), ofClass_filter_notRunning ce .pruned (by decide),
    ofClass_filter_notRunning ce .infeasible (by decide)]

/-- what `_sample` passes on never trips the `assert False` (only COMPLETE / PRUNED / RUNNING trials are fetched) -/
theorem sample_never_asserts (constantLiar ce : Bool) (all : List Trial) : NoBad ce (considered constantLiar all) := by
  intro t ht
  unfold considered at ht
  have := (List.mem_filter.mp ht).2
  unfold classify
  split
  · simp
  split
  · simp
  split
  · simp
  split
  · simp
  · rename_i h1 _ h3 h4
    simp [h1, h3, h4] at this

/-- without `constant_liar` no RUNNING trial is in either half -/
theorem sample_no_running_without_constant_liar (K : Kernels) (gamma : Nat → Nat) (dirs : List Dir) (ce : Bool) (all : List Trial) :
    ∀ t ∈ (sampleSplit K gamma false dirs ce all).1 ++ (sampleSplit K gamma false dirs ce all).2, t.state ≠ .running := by
  intro t ht
  unfold sampleSplit at ht
  have := (split_is_partition K dirs ce _ _ (sample_never_asserts false ce all)).subset ht
  unfold considered at this
  have h := (List.mem_filter.mp this).2
  intro hs
  simp [hs] at h

/-- with `constant_liar` every RUNNING trial is in `above`, and `n_below = gamma(number of finished trials)`
does not count them -/
theorem sample_running_above_with_constant_liar (K : Kernels) (gamma : Nat → Nat) (dirs : List Dir) (ce : Bool) (all : List Trial)
    (t : Trial) (ht : t ∈ all) (hs : t.state = .running) : t ∈ (sampleSplit K gamma true dirs ce all).2 := by
  have hc : t ∈ considered true all := by
    unfold considered; exact List.mem_filter.mpr ⟨ht, by simp [hs]⟩
  unfold sampleSplit
  have hp := (split_is_partition K dirs ce _ (gamma (nFinished (considered true all))) (sample_never_asserts true ce all))
  have := hp.symm.subset hc
  rcases List.mem_append.mp this with h | h
  · exact absurd hs (running_never_below K dirs ce _ _ t h)
  · exact h

example : (sampleSplit ⟨fun _ _ => [], fun _ _ _ => []⟩ defaultGamma true [.minimize] false
      [⟨0, .complete, [.fin 3], [], none⟩, ⟨1, .running, [], [], none⟩, ⟨2, .fail, [], [], none⟩, ⟨3, .complete, [.fin 1], [], none⟩]).2.map (·.number) = [0, 1] ∧
    (sampleSplit ⟨fun _ _ => [], fun _ _ _ => []⟩ defaultGamma false [.minimize] false
      [⟨0, .complete, [.fin 3], [], none⟩, ⟨1, .running, [], [], none⟩, ⟨2, .fail, [], [], none⟩, ⟨3, .complete, [.fin 1], [], none⟩]).2.map (·.number) = [0] := by
  decide +kernel

/-! ## direction mirror, single objective (C13) -/

/-- **C13 for the whole `_split_trials` pipeline, single objective.**  The split of the negated
history under `minimize` is the split of the original history under `maximize`, trial for trial
(the same trials below, the same above, in the same order) — for every mix of states, every
`n_below`, constraints on or off, ±inf values, NaN reports.

Tie-breaking, precisely: `sorted(trials, key=value)` and `sorted(trials, key=value, reverse=True)` are
both STABLE — among equal values the earlier trial (smaller position in the list the storage
returned, i.e. smaller number) comes first in both — and `-v` has the same ties as `v`; the pruned
and infeasible sorts are plain stable `sorted`; no numpy argsort / argpartition is involved in the
single-objective path.  Hence the symmetry **survives ties**: no distinctness hypothesis here. -/
theorem split_direction_mirror (K : Kernels) (ce : Bool) (ts : List Trial) (nBelow : Nat) :
    splitTrials K [.minimize] ce (ts.map negT) nBelow =
      ((splitTrials K [.maximize] ce ts nBelow).1.map negT, (splitTrials K [.maximize] ce ts nBelow).2.map negT) := by
  unfold splitTrials
  simp only [ofClass_map ce _ negT (classify_negT ce), splitComplete_single_negT, List.length_map, dir0, List.headD_cons,
    splitPruned_negT, splitInfeasible_map negT infeasibleScore_negT, ← List.map_append,
    sortByNumber_map negT (fun _ => rfl)]

/-- ties: two trials with the same value, the cut between them — the earlier one is `below` under both
directions' mirrored runs -/
example : (splitTrials ⟨fun _ _ => [], fun _ _ _ => []⟩ [.maximize] false
      [⟨0, .complete, [.fin 1], [], none⟩, ⟨1, .complete, [.fin 2], [], none⟩, ⟨2, .complete, [.fin 2], [], none⟩] 1).1.map (·.number) = [1] ∧
    (splitTrials ⟨fun _ _ => [], fun _ _ _ => []⟩ [.minimize] false
      [⟨0, .complete, [.fin (-1)], [], none⟩, ⟨1, .complete, [.fin (-2)], [], none⟩, ⟨2, .complete, [.fin (-2)], [], none⟩] 1).1.map (·.number) = [1] := by
  decide +kernel

/-! ## direction mirror, several objectives: any subset of objectives flipped -/

/-- **C13 per objective in multi-objective studies.**  Flipping the direction of any subset of the
objectives and negating those objective values leaves the split unchanged, trial for trial — for
every pair of numeric kernels (they only ever see the loss matrix `lvals *= ±1`, which is the same
matrix in both runs).  `hnd`: no PRUNED trial makes `_get_pruned_trial_score` read `study.direction`
(it would raise `RuntimeError` in a multi-objective study: `err = some runtimeError`). -/
theorem split_direction_mirror_multi (K : Kernels) (mask : List Bool) (dirs : List Dir) (ce : Bool) (ts : List Trial)
    (nBelow : Nat) (hd : 1 < dirs.length) (hm : mask.length = dirs.length)
    (hnd : ∀ t ∈ ofClass ce .pruned ts, needsDirection t = false) :
    splitTrials K (Direction.flipDirs mask dirs) ce (ts.map (flipT mask)) nBelow =
      ((splitTrials K dirs ce ts nBelow).1.map (flipT mask), (splitTrials K dirs ce ts nBelow).2.map (flipT mask)) := by
  have hc : ∀ t, classify ce (flipT mask t) = classify ce t := fun _ => rfl
  have hcomp : ∀ (l : List Trial) (n : Nat), splitComplete K (Direction.flipDirs mask dirs) (l.map (flipT mask)) n =
      ((splitComplete K dirs l n).1.map (flipT mask), (splitComplete K dirs l n).2.map (flipT mask)) := by
    intro l n
    unfold splitComplete
    have h1 : ¬ (Direction.flipDirs mask dirs).length ≤ 1 := by rw [flipDirs_length mask dirs hm]; omega
    have h2 : ¬ dirs.length ≤ 1 := by omega
    simp only [h1, h2, if_false, List.length_map]
    exact splitCompleteMulti_flip K mask dirs l _ hm
  have hpr : ∀ (n : Nat), splitPruned (dir0 (Direction.flipDirs mask dirs)) ((ofClass ce .pruned ts).map (flipT mask)) n =
      ((splitPruned (dir0 dirs) (ofClass ce .pruned ts) n).1.map (flipT mask),
       (splitPruned (dir0 dirs) (ofClass ce .pruned ts) n).2.map (flipT mask)) := by
    intro n
    rw [splitPruned_map _ (flipT mask) (fun _ => rfl)]
    rw [splitPruned_indep (dir0 (Direction.flipDirs mask dirs)) (dir0 dirs) _ n hnd]
  unfold splitTrials
  simp only [ofClass_map ce _ (flipT mask) hc, hcomp, hpr, List.length_map,
    splitInfeasible_map (flipT mask) (fun _ => rfl), ← List.map_append, sortByNumber_map (flipT mask) (fun _ => rfl)]

/-- non-vacuity: two objectives, the first flipped; the kernels of the example put rank-0 rows below -/
example :
    let K : Kernels := ⟨fun rows _ => rows.map (fun r => if r = [.fin (-1), .fin 1] then 0 else 1), fun _ idx k => idx.take k⟩
    (splitTrials K [.maximize, .minimize] false
      [⟨0, .complete, [.fin 1, .fin 1], [], none⟩, ⟨1, .complete, [.fin 0, .fin 2], [], none⟩, ⟨2, .complete, [.fin 0, .fin 3], [], none⟩] 2).1.map (·.number) = [0, 1] ∧
    (splitTrials K [.minimize, .minimize] false
      [⟨0, .complete, [.fin (-1), .fin 1], [], none⟩, ⟨1, .complete, [.fin 0, .fin 2], [], none⟩, ⟨2, .complete, [.fin 0, .fin 3], [], none⟩] 2).1.map (·.number) = [0, 1] := by
  decide +kernel

/-! ## gamma -/

/-- **`0 ≤ gamma(n) ≤ min(n, 25)`** for `default_gamma` and `hyperopt_default_gamma` (so `n_below`
never exceeds the number of finished trials, nor 25). -/
theorem gamma_bounds (x : Nat) : defaultGamma x ≤ min x 25 ∧ hyperoptGamma x ≤ min x 25 := by
  unfold defaultGamma hyperoptGamma
  have := ceilSqrt_le_self x
  constructor <;> omega

/-- `default_gamma(x) = min(⌈x/10⌉, 25)`: `(x+9)/10` is the least `k` with `x/10 ≤ k` -/
theorem default_gamma_is_ceil (x k : Nat) : (x + 9) / 10 ≤ k ↔ x ≤ 10 * k := by omega

/-- `hyperopt_default_gamma(x) = min(⌈√x/4⌉, 25)`: `(⌈√x⌉+3)/4` is the least `k` with `√x ≤ 4k` -/
theorem hyperopt_gamma_is_ceil (x k : Nat) : (ceilSqrt x + 3) / 4 ≤ k ↔ x ≤ (4 * k) * (4 * k) := by
  rw [← ceilSqrt_le_iff]; omega

example : defaultGamma 0 = 0 ∧ defaultGamma 1 = 1 ∧ defaultGamma 30 = 3 ∧ defaultGamma 31 = 4 ∧ defaultGamma 1000 = 25 ∧
    hyperoptGamma 0 = 0 ∧ hyperoptGamma 16 = 1 ∧ hyperoptGamma 17 = 2 ∧ hyperoptGamma 100000 = 25 := by decide +kernel

/-! ## weights -/

/-- **`default_weights(x)`**: length `x`; every weight in `(0, 1]`; the newest `min(x, 25)` trials have
weight exactly 1; before them the ramp `linspace(1/x, 1, x − 25)`; the weights never decrease with the
trial's position (older trials never weigh more). -/
theorem weights_spec (x : Nat) :
    (defaultWeights x).length = x ∧
    (∀ w ∈ defaultWeights x, 0 < w ∧ w ≤ 1) ∧
    (defaultWeights x).drop (x - 25) = List.replicate (min x 25) 1 ∧
    (defaultWeights x).take (x - 25) = linspace (1 / (x : Rat)) 1 (x - 25) ∧
    (defaultWeights x).Pairwise (· ≤ ·) := by
  unfold defaultWeights
  by_cases h0 : x = 0
  · subst h0; simp [linspace]
  by_cases h25 : x < 25
  · simp only [h0, h25, if_false, if_true]
    have hx : x - 25 = 0 := by omega
    have hm : min x 25 = x := by omega
    refine ⟨by simp, ?_, by simp [hx, hm], by simp [hx, linspace], ?_⟩
    · intro w hw
      rw [List.mem_replicate] at hw
      rw [hw.2]; exact ⟨by norm_num, le_refl _⟩
    · rw [List.pairwise_replicate]; right; exact le_refl _
  simp only [h0, h25, if_false]
  have hxpos : (0 : Rat) < (x : Rat) := by exact_mod_cast (by omega : 0 < x)
  have ha0 : (0 : Rat) < 1 / (x : Rat) := by positivity
  have ha1 : 1 / (x : Rat) ≤ 1 := by
    rw [div_le_one hxpos]; exact_mod_cast (by omega : 1 ≤ x)
  have hlen : (linspace (1 / (x : Rat)) 1 (x - 25)).length = x - 25 := by simp [linspace]
  have hm : min x 25 = 25 := by omega
  have hramp : ∀ w ∈ linspace (1 / (x : Rat)) 1 (x - 25), 0 < w ∧ w ≤ 1 := by
    intro w hw
    unfold linspace at hw
    obtain ⟨i, hi, rfl⟩ := List.mem_map.mp hw
    have := linspaceAt_bounds (1 / (x : Rat)) (x - 25) i ha0 ha1 (List.mem_range.mp hi)
    exact ⟨by linarith [this.1], this.2⟩
  refine ⟨by rw [List.length_append, hlen, List.length_replicate]; omega, ?_, ?_, ?_, ?_⟩
  · intro w hw
    rcases List.mem_append.mp hw with h | h
    · exact hramp w h
    · rw [List.mem_replicate] at h; rw [h.2]; exact ⟨by norm_num, le_refl _⟩
  · rw [List.drop_append_of_le_length (by omega), List.drop_eq_nil_of_le (by omega), hm]; rfl
  · rw [List.take_append_of_le_length (by omega), List.take_of_length_le (by omega)]
  · rw [List.pairwise_append]
    refine ⟨?_, ?_, ?_⟩
    · unfold linspace
      rw [List.pairwise_map]
      exact (List.pairwise_lt_range).imp (fun {i j} hij => linspaceAt_mono _ _ i j ha1 (le_of_lt hij))
    · rw [List.pairwise_replicate]; right; exact le_refl _
    · intro a ha b hb
      rw [List.mem_replicate] at hb
      rw [hb.2]; exact (hramp a ha).2

example : defaultWeights 27 = [1/27, 1] ++ List.replicate 25 1 ∧ defaultWeights 3 = [1, 1, 1] ∧
    (defaultWeights 30).take 5 = [1/30, 11/40, 31/60, 91/120, 1] := by decide +kernel

/-! ## multi-objective weights of the below trials -/

/-- **`_calculate_weights_below_for_multi_objective`**: one weight per below trial, every weight in
`[EPS, 1]` (so `np.isfinite(weights_below).all()` and no trial is weighted out entirely), infeasible
trials get exactly `EPS` — for every feasibility mask and every contribution vector (`none` = infinite
hypervolume). -/
theorem mo_weights_spec (feasible : List Bool) (contribs : Option (List Rat)) :
    (moWeights feasible contribs).length = feasible.length ∧
    (∀ w ∈ moWeights feasible contribs, eps ≤ w ∧ w ≤ 1) ∧
    (∀ p ∈ List.zip feasible (moWeights feasible contribs), p.1 = false → p.2 = eps) := by
  unfold moWeights
  simp only
  split
  · exact ⟨fill_length _ _, fill_bounds _ _ (by simp), fill_infeasible _ _⟩
  · cases contribs with
    | none => exact ⟨fill_length _ _, fill_bounds _ _ (by simp), fill_infeasible _ _⟩
    | some cs =>
      refine ⟨fill_length _ _, fill_bounds _ _ ?_, fill_infeasible _ _⟩
      intro v hv
      obtain ⟨c, hc, rfl⟩ := List.mem_map.mp hv
      have hm : eps ≤ Direction.rmax (maxR cs) eps := by unfold Direction.rmax; split <;> linarith
      have hm2 : maxR cs ≤ Direction.rmax (maxR cs) eps := by unfold Direction.rmax; split <;> linarith
      have hpos : 0 < Direction.rmax (maxR cs) eps := lt_of_lt_of_le eps_pos hm
      have hc1 : c / Direction.rmax (maxR cs) eps ≤ 1 := by
        rw [div_le_one hpos]; exact le_trans (le_maxR cs c hc) hm2
      exact rmax_eps_bounds _ hc1

example : moWeights [true, false, true, true] (some [1/2, 0, 2]) = [1/4, eps, eps, 1] ∧
    moWeights [true, false, true] none = [1, eps, 1] ∧ moWeights [false, true] (some [5]) = [eps, 1] := by decide +kernel

end OptunaVerif.C13Tpe
