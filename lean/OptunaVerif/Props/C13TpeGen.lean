import OptunaVerif.Props.C13Tpe
import OptunaVerif.Generated.TpeInt
/-!
# C13 / C09 — TPE's gamma / weights / quota arithmetic regenerated from the Python source is the hand model

`Generated/TpeInt.lean` is rewritten from `/repo/optuna/samplers/_tpe/sampler.py` on every run
(`verif/translators/tpe_int.py`).  Each theorem relates one generated definition to `Model/TpeSplit.lean`
for **all** arguments; `gen_classify_chain` and `gen_pinned` pin the order of the classification
if-chain and the text of the statements whose meaning is hand-modelled (sort keys, `reverse=True`,
slices, concatenation order, the score tuples, the `_sample` glue).
-/
set_option linter.unusedSimpArgs false
set_option linter.unusedVariables false
namespace OptunaVerif.C13TpeGen
open OptunaVerif OptunaVerif.TpeSplit
open OptunaVerif.Generated

theorem ceil_tenth (x : Nat) : (Rat.ceil (((1 : Rat) / 10) * (x : Rat))).toNat = (x + 9) / 10 := by
  have key : ∀ k : Nat, (Rat.ceil (((1 : Rat) / 10) * (x : Rat))).toNat ≤ k ↔ (x + 9) / 10 ≤ k := by
    intro k
    rw [Int.toNat_le, show ((k : Nat) : Int) = ((k : Int)) from rfl, Rat.ceil_le_iff]
    have : ((1 : Rat) / 10) * (x : Rat) ≤ ((k : Int) : Rat) ↔ (x : Rat) ≤ 10 * (k : Rat) := by
      constructor <;> intro h <;> push_cast at * <;> linarith
    rw [this]
    have : (x : Rat) ≤ 10 * (k : Rat) ↔ x ≤ 10 * k := by exact_mod_cast Iff.rfl
    rw [this]; omega
  exact Nat.le_antisymm ((key _).mpr (Nat.le_refl _)) ((key _).mp (Nat.le_refl _))

/-- `default_gamma` as written in the source (`⌈0.1·x⌉` with the decimal literal) is the model's -/
theorem gen_default_gamma (x : Nat) : TpeInt.defaultGamma x = defaultGamma x := by
  unfold TpeInt.defaultGamma defaultGamma
  rw [ceil_tenth]

/-- `hyperopt_default_gamma` as written in the source is the model's -/
theorem gen_hyperopt_gamma (x : Nat) : TpeInt.hyperoptGamma x = hyperoptGamma x := by
  unfold TpeInt.hyperoptGamma hyperoptGamma
  simp

/-- `default_weights` as written in the source is the model's -/
theorem gen_default_weights (x : Nat) : TpeInt.defaultWeights x = defaultWeights x := by
  unfold TpeInt.defaultWeights defaultWeights
  simp

/-- `n_below = max(0, n_below - len(below_x))` is the model's truncated subtraction -/
theorem gen_quota (n l : Nat) : TpeInt.quota (n : Int) (l : Int) = ((n - l : Nat) : Int) := by
  unfold TpeInt.quota; omega

/-- `n_below = min(n_below, len(trials))` -/
theorem gen_clip (n l : Nat) : TpeInt.clip (n : Int) (l : Int) = ((min n l : Nat) : Int) := by
  unfold TpeInt.clip; omega

/-- the order of the classification tests is the order of the model's `classify`:
RUNNING first, then infeasibility (only with constraints enabled), then COMPLETE, then PRUNED, else `assert False` -/
theorem gen_classify_chain : TpeInt.classifyChain = [
    ("trial.state == TrialState.RUNNING", "running_trials"),
    ("constraints_enabled and _get_infeasible_trial_score(trial) > 0", "infeasible_trials"),
    ("trial.state == TrialState.COMPLETE", "complete_trials"),
    ("trial.state == TrialState.PRUNED", "pruned_trials")] := by decide

/-- the hand-modelled statements, verbatim -/
theorem gen_pinned : TpeInt.pinned = [
  "below_complete, above_complete = _split_complete_trials(complete_trials, study, n_below)",
  "n_below = max(0, n_below - len(below_complete))",
  "below_pruned, above_pruned = _split_pruned_trials(pruned_trials, study, n_below)",
  "n_below = max(0, n_below - len(below_pruned))",
  "below_infeasible, above_infeasible = _split_infeasible_trials(infeasible_trials, n_below)",
  "below_trials = below_complete + below_pruned + below_infeasible",
  "above_trials = above_complete + above_pruned + above_infeasible + running_trials",
  "below_trials.sort(key=lambda trial: trial.number)",
  "above_trials.sort(key=lambda trial: trial.number)",
  "return (below_trials, above_trials)",
  "_split_complete_trials: if len(study.directions) <= 1: return _split_complete_trials_single_objective(trials, study, n_below) else: return _split_complete_trials_multi_objective(trials, study, n_below)",
  "_split_pruned_trials: sorted_trials = sorted(trials, key=lambda trial: _get_pruned_trial_score(trial, study))",
  "_split_pruned_trials: return (sorted_trials[:n_below], sorted_trials[n_below:])",
  "_split_infeasible_trials: sorted_trials = sorted(trials, key=_get_infeasible_trial_score)",
  "_split_infeasible_trials: return (sorted_trials[:n_below], sorted_trials[n_below:])",
  "_split_complete_trials_single_objective: if study.direction == StudyDirection.MINIMIZE: sorted_trials = sorted(trials, key=lambda trial: cast(float, trial.value)) else: sorted_trials = sorted(trials, key=lambda trial: cast(float, trial.value), reverse=True)",
  "_split_complete_trials_single_objective: return (sorted_trials[:n_below], sorted_trials[n_below:])",
  "_get_pruned_trial_score: if len(trial.intermediate_values) > 0: step, intermediate_value = max(trial.intermediate_values.items()) if math.isnan(intermediate_value): return (-step, float('inf')) elif study.direction == StudyDirection.MINIMIZE: return (-step, intermediate_value) else: return (-step, -intermediate_value) else: return (1, 0.0)",
  "_get_infeasible_trial_score: return float('inf')",
  "_get_infeasible_trial_score: return sum((v for v in constraint if v > 0))",
  "_split_complete_trials_multi_objective: if n_below == 0",
  "_split_complete_trials_multi_objective: lvals *= np.array([-1.0 if d == StudyDirection.MAXIMIZE else 1.0 for d in study.directions])",
  "_split_complete_trials_multi_objective: nondomination_ranks = _fast_non_domination_rank(lvals, n_below=n_below)",
  "_split_complete_trials_multi_objective: last_rank_before_tiebreak = int(np.max(ranks[np.cumsum(rank_counts) <= n_below], initial=-1))",
  "_split_complete_trials_multi_objective: indices_below = indices[nondomination_ranks <= last_rank_before_tiebreak]",
  "_split_complete_trials_multi_objective: if indices_below.size < n_below",
  "_split_complete_trials_multi_objective: below_trials = [trials[i] for i in range(len(trials)) if i in below_indices_set]",
  "_split_complete_trials_multi_objective: above_trials = [trials[i] for i in range(len(trials)) if i not in below_indices_set]",
  "_split_complete_trials_multi_objective: if n_below == len(trials)",
  "_split_complete_trials_multi_objective: need_tiebreak = nondomination_ranks == last_rank_before_tiebreak + 1",
  "_split_complete_trials_multi_objective: subset_size = n_below - indices_below.size",
  "_split_complete_trials_multi_objective: selected_indices = _solve_hssp(rank_i_lvals, indices[need_tiebreak], subset_size, _get_reference_point(rank_i_lvals))",
  "_split_complete_trials_multi_objective: indices_below = np.append(indices_below, selected_indices)",
  "_sample: if self._constant_liar: states = [TrialState.COMPLETE, TrialState.PRUNED, TrialState.RUNNING] else: states = [TrialState.COMPLETE, TrialState.PRUNED]",
  "_sample: trials = study._get_trials(deepcopy=False, states=states, use_cache=use_cache)",
  "_sample: n = sum((trial.state != TrialState.RUNNING for trial in trials))",
  "_sample: below_trials, above_trials = _split_trials(study, trials, self._gamma(n), self._constraints_func is not None)"
] := rfl

example : TpeInt.defaultGamma 31 = 4 ∧ TpeInt.hyperoptGamma 17 = 2 ∧ TpeInt.quota 3 5 = 0 ∧ TpeInt.clip 3 5 = 3 ∧
    TpeInt.defaultWeights 26 = (1 / 26 : Rat) :: List.replicate 25 1 := by decide +kernel

end OptunaVerif.C13TpeGen
