import OptunaVerif.Lemmas.BruteForce
import OptunaVerif.Lemmas.Grid
/-!
# C14 — exhaustive samplers visit every point of a finite space exactly once, then stop

Brute-force sampler (`optuna/samplers/_brute_force.py`), model in `Model/BruteForce.lean`.

Quantifiers of the theorems below (nothing is bounded):
* `p : Prog` — **every** finite define-by-run program (finitely branching tree of suggest calls;
  conditional branches, shared sub-spaces, single-valued domains, branches of different depth, early
  failing branches are all just shapes of `p`), well-formed in the sense of `Prog.WF`
  (candidate lists non-empty and duplicate-free — proved for every distribution in
  `enumerate_ne_nil` / `enumerate_nodup` — and no parameter name twice on one path);
* `cx.ω` — **every** RNG (an arbitrary stream of proposals, see `pick`);
* the outcomes at the leaves (complete / pruned / fail, caught or re-raised) — every pattern;
* `cx.cuts` — KeyboardInterrupts, any pattern, as long as they hit after the last suggest of a
  trial (`NoMidCut`; the other case is `interrupt_mid_trial_loses_subspace` below);
* `ks` — **every** split of the run into `optimize(n_trials=k)` calls;
* `cx.avoid` — both modes; `R` — stale RUNNING trials left by a dead worker (any number, standing at
  any node) are allowed in the strict mode `avoid_premature_stop=True`; in the default mode the
  study must not contain RUNNING trials (`stale_running_default_mode_stops_early` shows why).
-/
namespace OptunaVerif.C14
open OptunaVerif.BruteForce

/-- The hypotheses of the exhaustiveness theorems. -/
structure Setting (p : Prog) (cx : Ctx) (R : List Trial) : Prop where
  wf : p.WF
  cuts : NoMidCut cx
  stale : ∀ t ∈ R, t.finished = false ∧ Walk p t.steps
  mode : cx.avoid = true ∨ R = []

theorem setting_inv {p : Prog} {cx : Ctx} {R : List Trial} (h : Setting p cx R) (ks : List Nat) :
    Inv (!cx.avoid) p (session cx p ks (initSt R)) := by
  apply session_inv cx p h.wf h.cuts ks
  apply inv_init _ p h.wf R h.stale
  rcases h.mode with hm | hm
  · left; simp [hm]
  · right; exact hm

/-- supporting invariant "visited paths = finished trials": the tree the sampler builds from the
trials of the study is the specification tree of that history, and building it never raises -/
theorem tree_is_spec (p : Prog) (H : List Trial) (h : ∀ t ∈ H, TrialOK p t) :
    populate (Tree.unexp false) H [] = some (specTree p H) :=
  populate_from_empty p H h

/-- supporting invariant "the chosen child always has an unexpanded descendant" (every RNG) -/
theorem chosen_child_has_unexpanded (excl : Bool) (n : Option String) (ks : List Val) (ch : Val → Tree)
    (r : Bool) (proposal : Val) (h : 0 < (Tree.exp n ks ch r).count excl) :
    (Tree.exp n ks ch r).sampleChild excl proposal ∈ ks ∧
      0 < (ch ((Tree.exp n ks ch r).sampleChild excl proposal)).count excl :=
  sampleChild_pos excl n ks ch r proposal h

/-- supporting invariant "single-valued domains add exactly one edge" -/
theorem single_valued_one_edge (d : Dist) (h : d.WF) (hs : d.single = true) :
    d.enumerate = [d.singleValue] :=
  single_one_edge d h hs

theorem candidates_wellformed (d : Dist) (h : d.WF) : d.enumerate ≠ [] ∧ d.enumerate.Nodup :=
  ⟨enumerate_ne_nil d h, enumerate_nodup d h⟩

/-- the candidate enumeration misses no point of a stepped domain (in particular not the last one) -/
theorem candidates_complete_float (low high step : Rat) (h : (Dist.float low high step).WF) (k : Nat)
    (hk : low + (k : Rat) * step ≤ high) : low + (k : Rat) * step ∈ (Dist.float low high step).enumerate :=
  enumerate_complete_float low high step h k hk

theorem candidates_complete_int (low high step : Int) (h : (Dist.int low high step).WF) (k : Nat)
    (hk : low + (k : Int) * step ≤ high) :
    ((low + (k : Int) * step : Int) : Rat) ∈ (Dist.int low high step).enumerate :=
  enumerate_complete_int low high step h k hk

/-- … and contains nothing above `high` -/
theorem candidates_bounded (high step : Rat) (fuel : Nat) (value x : Rat)
    (h : x ∈ loopQ high step fuel value) : x ≤ high :=
  loopQ_le_high high step fuel value x h

/-- the last point `1 = 0.1 + 3·0.3` of `FloatDistribution(0.1, 1.0, step=0.3)` is a candidate -/
example : (1 / 10 : Rat) + ((3 : Nat) : Rat) * (3 / 10) ∈ (Dist.float (1 / 10) 1 (3 / 10)).enumerate :=
  candidates_complete_float _ _ _ ⟨by grind, by grind⟩ 3 (by grind)

example : (Dist.int 3 3 2).single = true ∧ (Dist.cat 1).single = true ∧ (Dist.int 1 7 3).single = false := by
  decide

/-- **Never twice, never outside.**  After any number of `optimize` calls: the sampler never raised,
every evaluated combination is a root-to-leaf path of the program and no combination was evaluated
twice. -/
theorem bruteforce_never_twice (p : Prog) (cx : Ctx) (R : List Trial) (h : Setting p cx R)
    (ks : List Nat) :
    (session cx p ks (initSt R)).crashed = false ∧
    (∀ l ∈ evaluated (session cx p ks (initSt R)), LeafPath p l) ∧
    (evaluated (session cx p ks (initSt R))).Nodup := by
  have hinv := setting_inv h ks
  refine ⟨hinv.noCrash, ?_, hinv.nodup⟩
  intro l hl
  simp only [evaluated, evalOf, List.mem_map, List.mem_filter] at hl
  obtain ⟨t, ⟨ht, hf⟩, hs⟩ := hl
  have := hinv.ok t ht
  simp only [TrialOK, hf, if_true] at this
  rw [← hs]
  exact this

/-- **Stops exactly when everything is evaluated**: the stop flag is set iff every root-to-leaf
path of the program is among the evaluated combinations. -/
theorem bruteforce_stop_iff_all (p : Prog) (cx : Ctx) (R : List Trial) (h : Setting p cx R)
    (ks : List Nat) :
    (session cx p ks (initSt R)).stop = true ↔
      ∀ l, LeafPath p l → l ∈ evaluated (session cx p ks (initSt R)) := by
  have hinv := setting_inv h ks
  rw [hinv.stop]
  constructor
  · intro h0 l hl
    obtain ⟨t, ht, hf, hs⟩ := visited_of_remaining_zero p _ l hinv.ok h0 hl
    simp only [evaluated, evalOf, List.mem_map, List.mem_filter]
    exact ⟨t, ⟨ht, hf⟩, hs⟩
  · intro hall
    apply remaining_zero_of_visited
    intro l hl
    have := hall l hl
    simp only [evaluated, evalOf, List.mem_map, List.mem_filter] at this
    obtain ⟨t, ⟨ht, hf⟩, hs⟩ := this
    exact ⟨t, ht, hf, hs⟩

/-- the number of trials: the stale ones plus the finished ones, never more than the number of
leaves; and the stop flag is set iff that number is reached (so: not one trial early, not one late) -/
theorem bruteforce_trial_count (p : Prog) (cx : Ctx) (R : List Trial) (h : Setting p cx R)
    (ks : List Nat) :
    (session cx p ks (initSt R)).trials.length ≤ R.length + numLeaves p ∧
    ((session cx p ks (initSt R)).stop = true ↔
      (session cx p ks (initSt R)).trials.length = R.length + numLeaves p) := by
  have hinv0 : Inv (!cx.avoid) p (initSt R) := by
    apply inv_init _ p h.wf R h.stale
    rcases h.mode with hm | hm
    · left; simp [hm]
    · right; exact hm
  have hinv := setting_inv h ks
  obtain ⟨F, hF, hfin⟩ := session_shape cx p h.wf h.cuts ks (initSt R) hinv0
  have hRf : R.filter (·.finished) = [] := by
    rw [List.filter_eq_nil_iff]
    intro t ht
    simp [(h.stale t ht).1]
  have hFf : F.filter (·.finished) = F := by
    rw [List.filter_eq_self]
    exact hfin
  have hlen : (session cx p ks (initSt R)).trials.length = R.length + F.length := by
    rw [hF]; simp [initSt]
  have hnf : nFinished (session cx p ks (initSt R)).trials = F.length := by
    rw [hF]; simp [nFinished, initSt, List.filter_append, hRf, hFf]
  have hc := hinv.count
  rw [hnf] at hc
  refine ⟨by omega, ?_⟩
  rw [hinv.stop]
  omega

/-- **bruteforce_exhaustive.**  For every program, RNG, outcome pattern, end-of-trial interruption
pattern and split into `optimize` calls: as soon as the stop flag is set, the evaluated
combinations are exactly the root-to-leaf paths of the program, each exactly once, and the study
holds exactly `numLeaves p` finished trials (plus the stale ones it started with). -/
theorem bruteforce_exhaustive (p : Prog) (cx : Ctx) (R : List Trial) (h : Setting p cx R)
    (ks : List Nat) (hstop : (session cx p ks (initSt R)).stop = true) :
    (session cx p ks (initSt R)).crashed = false ∧
    (evaluated (session cx p ks (initSt R))).Nodup ∧
    (∀ l, l ∈ evaluated (session cx p ks (initSt R)) ↔ LeafPath p l) ∧
    (session cx p ks (initSt R)).trials.length = R.length + numLeaves p := by
  obtain ⟨h1, h2, h3⟩ := bruteforce_never_twice p cx R h ks
  have h4 := (bruteforce_stop_iff_all p cx R h ks).mp hstop
  have h5 := (bruteforce_trial_count p cx R h ks).2.mp hstop
  exact ⟨h1, h3, fun l => ⟨h2 l, h4 l⟩, h5⟩

/-- the same as a statement about multisets: the evaluated combinations are a permutation of the
explicit list `leaves p` of all root-to-leaf paths -/
theorem bruteforce_exhaustive_perm (p : Prog) (cx : Ctx) (R : List Trial) (h : Setting p cx R)
    (ks : List Nat) (hstop : (session cx p ks (initSt R)).stop = true) :
    (evaluated (session cx p ks (initSt R))).Perm (leaves p) := by
  obtain ⟨_, hnd, hmem, _⟩ := bruteforce_exhaustive p cx R h ks hstop
  rw [List.perm_ext_iff_of_nodup hnd (leaves_nodup p h.wf)]
  intro l
  rw [mem_leaves_iff]
  exact hmem l

/-- **It does stop by itself** — programs that never raise, no interruption: for every split `ks`
of the run, the number of trials is `min (total budget) (number of leaves)`; in particular a
single `optimize()` without budget (= any budget ≥ the number of leaves) runs exactly `numLeaves p`
trials and ends with the stop flag set. -/
theorem bruteforce_stops_by_itself (p : Prog) (cx : Ctx) (R : List Trial) (h : Setting p cx R)
    (hnc : NoCut cx) (hnr : NoRaise p) (ks : List Nat) :
    (session cx p ks (initSt R)).trials.length = R.length + min ks.sum (numLeaves p) ∧
    (numLeaves p ≤ ks.sum → (session cx p ks (initSt R)).stop = true) := by
  have hinv0 : Inv (!cx.avoid) p (initSt R) := by
    apply inv_init _ p h.wf R h.stale
    rcases h.mode with hm | hm
    · left; simp [hm]
    · right; exact hm
  have hcnt := session_count cx p h.wf hnc hnr ks (initSt R) hinv0
  have hrem : remaining p (initSt R).trials = numLeaves p :=
    remaining_all_running p R (fun t ht => (h.stale t ht).1)
  rw [hrem] at hcnt
  have hlen : (initSt R).trials.length = R.length := rfl
  rw [hlen] at hcnt
  refine ⟨hcnt, fun hle => ?_⟩
  rw [(bruteforce_trial_count p cx R h ks).2, hcnt]
  omega

/-- **It does stop by itself** — general case (leaves may raise exceptions that end the current
`optimize` call, trials may be interrupted after their last suggest): every call with a positive
budget on a study that has not stopped yet runs at least one trial, so after at most `numLeaves p`
resumptions the stop flag is set. -/
theorem bruteforce_stops_after_resumptions (p : Prog) (cx : Ctx) (R : List Trial) (h : Setting p cx R)
    (ks : List Nat) (hks : ∀ k ∈ ks, 1 ≤ k) (hlen : numLeaves p ≤ ks.length) :
    (session cx p ks (initSt R)).stop = true := by
  have hinv0 : Inv (!cx.avoid) p (initSt R) := by
    apply inv_init _ p h.wf R h.stale
    rcases h.mode with hm | hm
    · left; simp [hm]
    · right; exact hm
  rcases session_progress cx p h.wf h.cuts ks hks (initSt R) hinv0 with h1 | h1
  · exact h1
  · have h2 := bruteforce_trial_count p cx R h ks
    have hl : (initSt R).trials.length = R.length := rfl
    rw [hl] at h1
    rw [h2.2]
    omega

/-! ## non-vacuity: a concrete program in the scope of the theorems, and concrete runs -/

/-- `c ∈ {0,1}`; `c = 0`: `x ∈ {1,2,3}` (the trial with `x = 2` raises an uncaught exception);
`c = 1`: `a ∈ {1,2}`, then a single-valued `s ∈ {5}`, then `b ∈ {a..2}` (a sub-space shared by the
two `a` branches, with different ranges); `b = 2` is pruned, the other one fails (caught). -/
def demo : Prog :=
  .node "c" false [0, 1] (fun c =>
    if c = 0 then .node "x" false [1, 2, 3] (fun x => .leaf (if x = 2 then .fail true else .complete))
    else .node "a" false [1, 2] (fun a =>
      .node "s" true [5] (fun _ =>
        .node "b" false (if a = 1 then [1, 2] else [2])
          (fun b => .leaf (if b = 2 then .pruned else .fail false)))))

theorem demo_wf : demo.WF := by
  simp [demo, Prog.WF, HasName]

/-- RNG proposals 0,1,2,…; trial 1 is interrupted after its last suggest -/
def demoCx (avoid : Bool) : Ctx := ⟨avoid, fun n => (n : Rat), fun n => if n = 1 then .atEnd else .none⟩

/-- a stale RUNNING trial that stands at `c = 1, a = 1, s = 5` -/
def demoStale : List Trial := [⟨[⟨"c", [0, 1], 1⟩, ⟨"a", [1, 2], 1⟩, ⟨"s", [5], 5⟩], false⟩]

theorem demo_setting_default : Setting demo (demoCx false) [] :=
  ⟨demo_wf, by intro n j; simp only [demoCx]; split <;> simp, by simp, Or.inr rfl⟩

theorem demo_setting_strict : Setting demo (demoCx true) demoStale :=
  ⟨demo_wf, by intro n j; simp only [demoCx]; split <;> simp,
   by
    intro t ht
    simp only [demoStale, List.mem_singleton] at ht
    subst ht
    refine ⟨rfl, ?_⟩
    simp only [demo, Walk]
    refine Or.inr ⟨1, _, rfl, by simp, ?_⟩
    have h10 : ¬ ((1 : Rat) = 0) := by decide
    simp only [h10, if_false, Walk]
    refine Or.inr ⟨1, _, rfl, by simp, ?_⟩
    exact Or.inr ⟨5, _, rfl, by simp, Or.inl rfl⟩, Or.inl rfl⟩

/-- the values of the evaluated combinations, for display -/
def evaluatedVals (st : St) : List (List Val) := (evaluated st).map (fun l => l.map (·.value))

example : numLeaves demo = 6 := by decide

/-- the hypotheses of `bruteforce_exhaustive` are satisfiable and its conclusion is not trivial:
a run split into calls with budgets 2, 1, 1, 10 (the second call is cut short by the interrupt, a
later one by the uncaught failure) evaluates six different combinations and then has the stop flag -/
example : (session (demoCx false) demo [2, 1, 1, 1, 10] (initSt [])).stop = true ∧
    evaluatedVals (session (demoCx false) demo [2, 1, 1, 1, 10] (initSt [])) =
      [[0, 1], [0, 3], [0, 2], [1, 1, 5, 1], [1, 1, 5, 2], [1, 2, 5, 2]] := by decide

/-- … and before the last one the flag is not set -/
example : (session (demoCx false) demo [2, 1, 1, 1] (initSt [])).stop = false ∧
    (session (demoCx false) demo [2, 1, 1, 1] (initSt [])).trials.length = 5 := by decide

/-- strict mode with a stale RUNNING trial: still all six -/
example : (session (demoCx true) demo [20, 20, 20] (initSt demoStale)).stop = true ∧
    (evaluated (session (demoCx true) demo [20, 20, 20] (initSt demoStale))).length = 6 := by decide

/-! ## where the full-strength statement is false on today's code (model witnesses; the harness
replays both on the real sampler) -/

/-- `x ∈ {0,1}`, then `y ∈ {0,1}` -/
def pxy : Prog := .node "x" false [0, 1] (fun _ => .node "y" false [0, 1] (fun _ => .leaf .complete))

theorem pxy_wf : pxy.WF := by simp [pxy, Prog.WF, HasName]

/-- **Interrupted before all parameters were suggested.**  Trial 0 gets a KeyboardInterrupt after
`x = 0` and before `y` is asked for; it is stored as FAIL with the partial path, `optimize`
re-raises, the user resumes: the sampler now treats the prefix `x = 0` as a finished leaf, the two
combinations below it are never evaluated, and the study stops "by itself" after 3 of 4. -/
theorem interrupt_mid_trial_loses_subspace :
    let cx : Ctx := ⟨false, fun _ => 0, fun n => if n = 0 then .mid 1 else .none⟩
    let st := session cx pxy [1, 10] (initSt [])
    st.stop = true ∧ st.crashed = false ∧ numLeaves pxy = 4 ∧
      evaluatedVals st = [[0], [1, 0], [1, 1]] := by decide

/-- the same in the strict mode -/
theorem interrupt_mid_trial_loses_subspace_strict :
    let cx : Ctx := ⟨true, fun _ => 0, fun n => if n = 0 then .mid 1 else .none⟩
    let st := session cx pxy [1, 10] (initSt [])
    st.stop = true ∧ evaluatedVals st = [[0], [1, 0], [1, 1]] := by decide

/-- … and when the prefix had already been explored further by an earlier trial, the partial FAIL
trial makes `_populate_tree` raise `ValueError` in every later `sample_independent`/`after_trial`
(here: trial 0 evaluates `x=0,y=0`, trial 1 is interrupted after `x = 0`). -/
theorem interrupt_mid_trial_breaks_sampler :
    let cx : Ctx := ⟨false, fun _ => 0, fun n => if n = 1 then .mid 1 else .none⟩
    let st := session cx pxy [1, 1, 10] (initSt [])
    st.crashed = true ∧ st.stop = false := by decide

/-- **Default mode and a stale RUNNING trial** (a worker was killed after `x = 0`): the node is
counted as explored, the study stops after 2 of 4 combinations.  (Documented for
`avoid_premature_stop=False`; `bruteforce_exhaustive` covers the strict mode.) -/
theorem stale_running_default_mode_stops_early :
    let cx : Ctx := ⟨false, fun _ => 0, fun _ => .none⟩
    let st := session cx pxy [10] (initSt [⟨[⟨"x", [0, 1], 0⟩], false⟩])
    st.stop = true ∧ evaluatedVals st = [[1, 0], [1, 1]] := by decide

/-! # Grid sampler (`optuna/samplers/_grid.py`), model in `Model/Grid.lean`

Quantifiers: every grid size `n`, every RNG `cx.ω`, every pattern `cx.raises` of trials that end
with an exception leaving `optimize` (uncaught failure, KeyboardInterrupt — the trial is finished in
every case), every split `ks` into `optimize` calls, and every initial content `pre` of the study
that satisfies `GridSetting`: trials without grid id in any state (other samplers, `add_trial`,
enqueued trials waiting in the queue, RUNNING leftovers) and grid trials left by an earlier,
interrupted run of the same sampler (finished or still RUNNING). -/

section grid
open OptunaVerif.Grid

def ginit (pre : List GTrial) : Grid.St := { trials := pre }

/-- What is assumed about the trials already in the study. `idx`: a grid id held by trial number
`i` is `i` itself or `i ≥ n` (true of everything the sampler itself ever assigns); `nodup`: no cell
was finished twice; WAITING trials carry no grid id (not a retried grid trial); some cell is free. -/
structure GridSetting (n : Nat) (pre : List GTrial) : Prop where
  idx : ∀ (i : Nat) (t : GTrial) (g : Nat), pre[i]? = some t → t.gridId = some g → g < n ∧ (g = i ∨ n ≤ i)
  nodup : (visitedIds pre).Nodup
  waitingNoId : ∀ t ∈ pre, t.state = .waiting → t.gridId = none
  notDone : 0 < remainingG n (visitedIds pre)

theorem gridSetting_ginv {n : Nat} {pre : List GTrial} (h : GridSetting n pre) : GInv n (ginit pre) :=
  ⟨h.idx, h.nodup, h.waitingNoId, by
    have := h.notDone
    simp only [ginit]
    constructor
    · intro h; simp at h
    · intro h; omega⟩

theorem visitedIds_of_noIds (pre : List GTrial) (h : ∀ t ∈ pre, t.gridId = none) : visitedIds pre = [] := by
  simp only [visitedIds, List.filterMap_eq_nil_iff, List.mem_filter]
  intro t ht
  exact h t ht.1

theorem remainingG_nil (n : Nat) : remainingG n [] = n := by
  have : (List.range n).filter (fun g => !([] : List Nat).contains g) = List.range n := by
    rw [List.filter_eq_self]; intro a _; simp
  unfold remainingG
  rw [this]
  simp

/-- the usual case: nothing in the study carries a grid id yet -/
theorem gridSetting_of_noIds (n : Nat) (hn : 0 < n) (pre : List GTrial) (h : ∀ t ∈ pre, t.gridId = none) :
    GridSetting n pre := by
  refine ⟨?_, ?_, fun t ht _ => h t ht, ?_⟩
  · intro i t g hi hg
    have := h t (List.mem_of_getElem? hi)
    rw [this] at hg
    simp at hg
  · rw [visitedIds_of_noIds pre h]; simp
  · rw [visitedIds_of_noIds pre h, remainingG_nil]; exact hn

/-- **grid_exhaustive.**  After any number of `optimize` calls no grid cell has been finished twice,
every finished cell is a cell of the grid, and the stop flag is set exactly when every cell has
been finished (not one trial early, not one late). -/
theorem grid_exhaustive (n : Nat) (cx : Grid.Ctx) (pre : List GTrial) (h : GridSetting n pre)
    (ks : List Nat) :
    (visitedIds (Grid.session cx n ks (ginit pre)).trials).Nodup ∧
    (∀ g ∈ visitedIds (Grid.session cx n ks (ginit pre)).trials, g < n) ∧
    ((Grid.session cx n ks (ginit pre)).stop = true ↔
      ∀ g, g < n → g ∈ visitedIds (Grid.session cx n ks (ginit pre)).trials) := by
  have hinv := session_ginv cx n ks (ginit pre) (gridSetting_ginv h)
  refine ⟨hinv.nodup, ?_, ?_⟩
  · intro g hg
    obtain ⟨i, t, hi, hgid⟩ := mem_visitedIds _ _ hg
    exact (hinv.idx i t g hi hgid).1
  · rw [hinv.stop, remainingG_zero_iff]

theorem gridSetting_ginv3 {n : Nat} {pre : List GTrial} (h : GridSetting n pre) :
    GInv3 n (pre.length + remainingG n (visitedIds pre)) (ginit pre) :=
  ⟨gridSetting_ginv h, rfl, by
    intro h0
    have := h.notDone
    simp only [ginit] at h0
    omega⟩

/-- **It stops by itself — enqueued trials included.**  If no trial raises out of `optimize`, then
for every split `ks` the number of trials brought to a finished state is
`min (total budget) (queued trials + free cells)`: the run first works off the queue
(`enqueue_trial`; such a trial has no grid id and never sets the stop flag), then the free cells; and
with enough budget it ends with the stop flag set, an empty queue, and exactly one new trial per
free cell. -/
theorem grid_stops_by_itself (n : Nat) (cx : Grid.Ctx) (pre : List GTrial) (h : GridSetting n pre)
    (hnr : ∀ i, cx.raises i = false) (ks : List Nat) :
    nDone (Grid.session cx n ks (ginit pre)).trials =
      nDone pre + min ks.sum (nWaiting pre + remainingG n (visitedIds pre)) ∧
    (nWaiting pre + remainingG n (visitedIds pre) ≤ ks.sum →
      (Grid.session cx n ks (ginit pre)).stop = true ∧
      nWaiting (Grid.session cx n ks (ginit pre)).trials = 0 ∧
      (Grid.session cx n ks (ginit pre)).trials.length = pre.length + remainingG n (visitedIds pre)) := by
  have h3 := gridSetting_ginv3 h
  have hinv := session_ginv3 cx n _ ks (ginit pre) h3
  obtain ⟨hc1, hc2⟩ := Grid.session_count cx n _ hnr ks (ginit pre) h3
  have htodo : todo n (ginit pre) = nWaiting pre + remainingG n (visitedIds pre) := rfl
  have hd : nDone (ginit pre).trials = nDone pre := rfl
  rw [htodo] at hc1 hc2
  rw [hd] at hc1
  refine ⟨hc1, fun hle => ?_⟩
  have hz : todo n (Grid.session cx n ks (ginit pre)) = 0 := by rw [hc2]; omega
  simp only [todo] at hz
  have hr0 : remainingG n (visitedIds (Grid.session cx n ks (ginit pre)).trials) = 0 := by omega
  refine ⟨hinv.stop.mpr hr0, by omega, ?_⟩
  have := hinv.lenInv
  omega

/-- a fresh study and a 2×3 grid run in calls of 4 + 1 + 10 trials, trial 2 raising: six cells, six
trials, stop — the hypotheses are satisfiable and the conclusion is not trivial -/
example : (visitedIds (Grid.session ⟨fun c => c, fun i => i == 2⟩ 6 [4, 1, 10] (ginit [])).trials) =
      [0, 1, 2, 3, 4, 5] ∧
    (Grid.session ⟨fun c => c, fun i => i == 2⟩ 6 [4, 1, 10] (ginit [])).stop = true ∧
    (Grid.session ⟨fun c => c, fun i => i == 2⟩ 6 [4, 1] (ginit [])).stop = false := by decide

/-- with two non-grid trials already in the study (one finished, one enqueued and waiting) the
number-based assignment covers only cells 2,3 and the RNG fills in 0 and 1 -/
example : (visitedIds (Grid.session ⟨fun _ => 1, fun _ => false⟩ 4 [10]
      (ginit [⟨none, .finished⟩, ⟨none, .waiting⟩])).trials) = [2, 3, 1, 0] ∧
    (Grid.session ⟨fun _ => 1, fun _ => false⟩ 4 [10]
      (ginit [⟨none, .finished⟩, ⟨none, .waiting⟩])).trials.length = 6 := by decide

example : GridSetting 4 [⟨none, .finished⟩, ⟨none, .waiting⟩] :=
  gridSetting_of_noIds 4 (by omega) _ (by simp)

/-- a cell whose worker was killed (stale RUNNING grid trial 1) is evaluated again at the end -/
example : (visitedIds (Grid.session ⟨fun _ => 0, fun _ => false⟩ 3 [10]
      (ginit [⟨some 0, .finished⟩, ⟨some 1, .running⟩])).trials) = [0, 2, 1] := by decide

/-- **Enqueued trial and a one-cell grid** (the input on which `after_trial` used to raise
`KeyError('grid_id')` before the repair f91818c, replayed on the real sampler by the harness): the
enqueued trial is evaluated, does not stop the study, then the cell is evaluated and the study stops. -/
theorem grid_enqueued_then_grid :
    let st := Grid.session ⟨fun _ => 0, fun _ => false⟩ 1 [10] (ginit [⟨none, .waiting⟩])
    st.stop = true ∧ st.trials = [⟨none, .finished⟩, ⟨some 0, .finished⟩] := by decide

/-- an enqueued trial added between two calls, when exactly one cell is free -/
example : (Grid.session ⟨fun _ => 0, fun _ => false⟩ 2 [10]
      (ginit [⟨some 0, .finished⟩, ⟨none, .waiting⟩])).trials =
    [⟨some 0, .finished⟩, ⟨none, .finished⟩, ⟨some 1, .finished⟩] := by decide

end grid

end OptunaVerif.C14
