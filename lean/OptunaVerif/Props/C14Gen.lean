import OptunaVerif.Generated.BruteForceMethods
import OptunaVerif.Generated.GridMethods
import OptunaVerif.Props.C14
set_option linter.unusedSimpArgs false
set_option linter.unusedVariables false
namespace OptunaVerif.C14Gen
open OptunaVerif OptunaVerif.BruteForce OptunaVerif.SamplerIR
open OptunaVerif.Generated OptunaVerif.Generated.BruteForceMethods

/-! ## `_TreeNode` -/

@[simp] theorem treeSem_cond (f) : (treeSem f).cond = evalTCond := rfl
@[simp] theorem treeSem_act (f) : (treeSem f).act = doTAct f := rfl
@[simp] theorem treeSem_iter (f) : (treeSem f).iter = iterT := rfl
@[simp] theorem treeSem_retv (f) : (treeSem f).retv = retT := rfl

theorem interp_expand (t : Tree) (name : Option String) (cands : List Val) :
    interpExpand expand t name cands = liftErr .valueError (t.expand name cands) := by
  cases t with
  | unexp r =>
    simp [interpExpand, expand, block, exec, andThen, treeSem, evalTCond, doTAct, TEnv.ofTree, finishNode, Tree.expand,
      liftErr, TEnv.self, Tree.kidsOf, Tree.nameOf, Tree.isRunning]
  | exp n ks ch r =>
    cases hn : (n == name) <;> cases hk : sameKeys ks cands <;>
    simp [interpExpand, expand, block, exec, andThen, treeSem, evalTCond, doTAct, TEnv.ofTree, finishNode, Tree.expand,
      liftErr, TEnv.self, Tree.kidsOf, Tree.nameOf, Tree.isRunning, hn, hk, bne]

/-- non-vacuity (the interpreter on concrete nodes): expanding an unexpanded RUNNING node gives three unexpanded
children and keeps the flag; expanding it again with another name or another candidate set raises; `set_leaf` on
an inner node raises -/
example : (toOpt (interpExpand expand (.unexp true) (some "x") [0, 1, 2])).map (fun t => (t.count false, t.isRunning)) =
      some (3, true) ∧
    toOpt (match interpExpand expand (.unexp false) (some "x") [0, 1] with
      | .ok t => interpExpand expand t (some "y") [0, 1]
      | .error e => .error e) = none ∧
    toOpt (match interpExpand expand (.unexp false) (some "x") [0, 1] with
      | .ok t => interpExpand expand t (some "x") [0, 1, 2]
      | .error e => .error e) = none ∧
    toOpt (match interpExpand expand (.unexp false) (some "x") [0, 1] with
      | .ok t => interpSetLeaf setLeaf expand t
      | .error e => .error e) = none := by decide

theorem interp_setRunning (t : Tree) : interpSetRunning setRunning t = .ok t.setRunning := by
  cases t <;>
    simp [interpSetRunning, setRunning, exec, treeSem, doTAct, TEnv.ofTree, finishNode, Tree.setRunning,
      TEnv.self, Tree.kidsOf, Tree.nameOf, Tree.isRunning]

theorem self_setSelf (env : TEnv) (t : Tree) : (env.setSelf t).self = t := by
  cases t <;> simp [TEnv.setSelf, TEnv.self, Tree.kidsOf, Tree.nameOf, Tree.isRunning]

theorem self_ofTree (t : Tree) (cc : Bool → Val → Except Err Nat) : (TEnv.ofTree t cc).self = t := by
  cases t <;> simp [TEnv.ofTree, TEnv.self, Tree.kidsOf, Tree.nameOf, Tree.isRunning]

theorem interp_setLeaf (t : Tree) : interpSetLeaf setLeaf expand t = liftErr .valueError t.setLeaf := by
  have h := interp_expand t none []
  simp only [interpSetLeaf, setLeaf, exec, andThen, treeSem, doTAct, evalNameArg, evalSpaceArg, self_ofTree, h, Tree.setLeaf]
  cases t.expand none [] <;> simp [liftErr, finishNode, self_setSelf]

/-- what the caller of `add_path` does with the returned pointer: `fin` on the node, the tree rebuilt -/
def closePath (fin : Tree → Option Tree) : Except Err (Tree × List Frame × Bool) → Option Tree
  | .ok (t, fs, true) => (fin t).map (fun t' => zipUp t' fs)
  | .ok (t, fs, false) => some (zipUp t fs)
  | .error _ => none

theorem expand_isExp (t t' : Tree) (n : Option String) (c : List Val) (h : t.expand n c = some t') :
    ∃ n' ks ch r, t' = .exp n' ks ch r := by
  cases t with
  | unexp r => simp [Tree.expand] at h; exact ⟨_, _, _, _, h.symm⟩
  | exp n0 ks ch r =>
    simp only [Tree.expand] at h
    split at h
    · cases h; exact ⟨_, _, _, _, rfl⟩
    · cases h

/-- the body of the loop of `add_path`, as generated -/
def pathBody : TStmt :=
  block [(.act .curExpand), (.assert (.not .curChildrenIsNone)),
    (.ite (.not .valueInCur) (.ret .none) .skip), (.act .curDescend)]

theorem addPath_shape : addPath = block [(.act .curFromSelf), (.loop .pathTriples pathBody), (.ret .cur)] := rfl

/-- the loop of `add_path` from any position of the zipper -/
theorem addPath_loop (fin : Tree → Option Tree) (path : List Step) :
    ∀ (env : TEnv) (t : Tree) (fs : List Frame), env.cur = some t → env.frames = fs →
      closePath fin (finishPath
        (andThen (loopAux (fun e => exec (treeSem (interpExpand expand)) pathBody e)
            (path.map (fun s => fun (e : TEnv) => { e with step := some s })) env)
          (fun e => exec (treeSem (interpExpand expand)) (.ret .cur) e))) =
      (Tree.addPath fin path t).map (fun t' => zipUp t' fs) := by
  induction path with
  | nil =>
    intro env t fs hc hf
    simp [andThen, loopAux, exec, treeSem, retT, hc, hf, finishPath, closePath, Tree.addPath]
  | cons s rest ih =>
    intro env t fs hc hf
    have he := interp_expand t (some s.name) s.cands
    cases hx : t.expand (some s.name) s.cands with
    | none =>
      simp [andThen, loopAux, List.map, pathBody, block, exec, treeSem, doTAct, hc, he, hx, liftErr, finishPath, closePath, Tree.addPath]
    | some t' =>
      obtain ⟨n', ks, ch, r, rfl⟩ := expand_isExp t t' _ _ hx
      by_cases hv : ks.contains s.value = true
      · have := ih { env with step := some s, cur := some (ch s.value), frames := ⟨n', ks, ch, r, s.value⟩ :: env.frames }
          (ch s.value) (⟨n', ks, ch, r, s.value⟩ :: fs) rfl (by simp [hf])
        simp only [andThen, loopAux, List.map, pathBody, block, exec, treeSem, doTAct, evalTCond, hc, he, hx, liftErr, hv, Tree.addPath,
          if_true, Bool.not_true, Bool.not_false] at this ⊢
        rw [this]
        cases Tree.addPath fin rest (ch s.value) <;> simp [zipUp]
      · simp only [Bool.not_eq_true] at hv
        have hv' : s.value ∉ ks := by simpa using hv
        simp [andThen, loopAux, List.map, pathBody, block, exec, treeSem, doTAct, evalTCond, retT, hc, hf, he, hx, liftErr, hv, hv', Tree.addPath,
          finishPath, closePath]

theorem interp_addPath (fin : Tree → Option Tree) (t : Tree) (path : List Step) :
    closePath fin (interpAddPath addPath expand t path) = Tree.addPath fin path t := by
  have h := addPath_loop fin path
    { TEnv.ofTree t noCount with path := path, cur := some t, frames := [] } t [] rfl rfl
  have hs : ({ TEnv.ofTree t noCount with path := path } : TEnv).self = t := by
    cases t <;> simp [TEnv.ofTree, TEnv.self, Tree.kidsOf, Tree.nameOf, Tree.isRunning]
  simp only [zipUp, Option.map_id'] at h
  rw [interpAddPath, addPath_shape]
  simp only [block, exec, treeSem_act, treeSem_iter, treeSem_retv, doTAct, iterT, hs, andThen] at h ⊢
  exact h

/-- non-vacuity: `add_path` of `x = 1, y = 0` into an empty tree returns a pointer two levels down (two frames);
a value off the candidate list returns `None` and keeps the expansion made so far -/
example : (toOpt (interpAddPath addPath expand (.unexp false) [⟨"x", [0, 1], 1⟩, ⟨"y", [0, 1], 0⟩])).map
      (fun r => (r.2.1.length, r.2.2, (zipUp r.1 r.2.1).count false)) = some (2, true, 3) ∧
    (toOpt (interpAddPath addPath expand (.unexp false) [⟨"x", [0, 1], 7⟩])).map
      (fun r => (r.2.1.length, r.2.2, (zipUp r.1 r.2.1).count false)) = some (0, false, 2) := by decide

theorem sumE_ok {α : Type} (l : List α) (f : α → Nat) :
    sumE (l.map (fun k => (Except.ok (f k) : Except Err Nat))) = .ok ((l.map f).sum) := by
  induction l with
  | nil => rfl
  | cons a l ih => simp [sumE, ih]

theorem mapE_ok {α β : Type} (l : List α) (f : α → β) :
    mapE (fun k => (Except.ok (f k) : Except Err β)) l = .ok (l.map f) := by
  induction l with
  | nil => rfl
  | cons a l ih => simp [mapE, ih]

theorem interp_countUnexpanded (t : Tree) : ∀ (excl : Bool),
    interpCount countUnexpanded t excl = .ok (t.count excl) := by
  induction t with
  | unexp r =>
    intro excl
    cases excl <;> cases r <;>
      simp [interpCount, countUnexpanded, exec, evalTCond, retT, evalNExpr, TEnv.ofTree, Tree.kidsOf,
        Tree.nameOf, Tree.isRunning, finishNat, Tree.count]
  | exp n ks ch r ih =>
    intro excl
    rw [interpCount]
    simp only [ih]
    simp only [countUnexpanded, exec, treeSem_cond, treeSem_retv, evalTCond, retT, evalNExpr, TEnv.ofTree,
      Tree.kidsOf, Option.isNone, evalBExpT, sumE_ok, finishNat, Tree.count]

/-- the weight of a child after the "prioritise non-running" loop -/
def zeroed (excl : Bool) (ch : Val → Tree) (k : Val) : Nat := if (ch k).isRunning then 0 else (ch k).count excl

/-- the body of the loop of `sample_child`, as generated -/
def zeroBody : TStmt := .ite .childRunning (.act .zeroWeight) .skip

theorem loopAux_cons_next {E V : Type} (f : E → E × Flow V) (b : E → E) (rest : List (E → E)) (env env' : E)
    (h : f (b env) = (env', .next)) : loopAux f (b :: rest) env = loopAux f rest env' := by
  simp [loopAux, h]

theorem zero_step (env : TEnv) (ks : List Val) (ch : Val → Tree) (ws : List Nat) (i : Nat) (k : Val)
    (hk : env.kids = some (ks, ch)) (hw : env.weights = some ws) (hi : env.idx = some i) (hki : ks[i]? = some k) :
    exec (treeSem noExpand) zeroBody env =
      (if (ch k).isRunning then { env with weights := some (ws.set i 0) } else env, .next) := by
  cases hr : (ch k).isRunning <;>
    simp [zeroBody, exec, evalTCond, doTAct, hk, hw, hi, hki, hr]

theorem zero_loop (excl : Bool) (ch : Val → Tree) (rest : List Val) :
    ∀ (pre : List Val) (pre' : List Nat) (env : TEnv), pre'.length = pre.length →
      env.kids = some (pre ++ rest, ch) →
      env.weights = some (pre' ++ rest.map (fun k => (ch k).count excl)) →
      ∃ env', loopAux (fun e => exec (treeSem noExpand) zeroBody e)
          ((List.range' pre.length rest.length).map (fun i => fun (e : TEnv) => { e with idx := some i })) env = (env', .next) ∧
        env'.weights = some (pre' ++ rest.map (zeroed excl ch)) ∧ env'.kids = env.kids ∧
        env'.normalised = env.normalised ∧ env'.proposal = env.proposal := by
  induction rest with
  | nil =>
    intro pre pre' env hl hk hw
    exact ⟨env, by simp [loopAux], by simpa using hw, rfl, rfl, rfl⟩
  | cons k rest ih =>
    intro pre pre' env hl hk hw
    have hidx : (pre ++ k :: rest)[pre.length]? = some k := by simp
    have hstep := zero_step { env with idx := some pre.length } _ ch _ pre.length k hk
      (by simpa using hw) rfl hidx
    cases hr : (ch k).isRunning with
    | true =>
      obtain ⟨env', h1, h2, h3, h4, h5⟩ := ih (pre ++ [k]) (pre' ++ [0])
        { env with idx := some pre.length, weights := some ((pre' ++ (ch k).count excl :: rest.map (fun k => (ch k).count excl)).set pre.length 0) }
        (by simp [hl]) (by simp [hk]) (by rw [← hl]; simp)
      refine ⟨env', ?_, ?_, by rw [h3], by rw [h4], by rw [h5]⟩
      · simp only [hr, if_true, List.map_cons] at hstep
        simp only [List.length_cons, List.range'_succ, List.map_cons]
        rw [loopAux_cons_next _ _ _ _ _ hstep]
        simp only [List.length_append, List.length_singleton] at h1
        exact h1
      · rw [h2]; simp [zeroed, hr]
    | false =>
      obtain ⟨env', h1, h2, h3, h4, h5⟩ := ih (pre ++ [k]) (pre' ++ [(ch k).count excl])
        { env with idx := some pre.length }
        (by simp [hl]) (by simp [hk]) (by simp [hw])
      refine ⟨env', ?_, ?_, by rw [h3], by rw [h4], by rw [h5]⟩
      · simp only [hr, Bool.false_eq_true, if_false] at hstep
        simp only [List.length_cons, List.range'_succ, List.map_cons]
        rw [loopAux_cons_next _ _ _ _ _ hstep]
        simp only [List.length_append, List.length_singleton] at h1
        exact h1
      · rw [h2]; simp [zeroed, hr]

theorem anyE_range {α : Type} (f : Nat → Except Err Bool) (g : α → Bool) (rest : List α) :
    ∀ (pre : List α), (∀ i (h : i < rest.length), f (pre.length + i) = .ok (g rest[i])) →
      anyE f (List.range' pre.length rest.length) = .ok (rest.any g) := by
  induction rest with
  | nil => intro pre _; rfl
  | cons a rest ih =>
    intro pre h
    have h0 := h 0 (by simp)
    simp only [Nat.add_zero, List.getElem_cons_zero] at h0
    have hrest := ih (pre ++ [a]) (by
      intro i hi
      have := h (i + 1) (by simp; omega)
      simp only [List.getElem_cons_succ] at this
      simp only [List.length_append, List.length_singleton]
      rw [← this]; congr 1; omega)
    simp only [List.length_append, List.length_singleton] at hrest
    simp only [List.length_cons, List.range'_succ, anyE, h0, List.any_cons]
    cases g a <;> simp [hrest]

theorem isRunning_exp (n : Option String) (ks : List Val) (ch : Val → Tree) (r : Bool) :
    (Tree.exp n ks ch r).isRunning = r := rfl
theorem nameOf_exp (n : Option String) (ks : List Val) (ch : Val → Tree) (r : Bool) :
    Tree.nameOf (Tree.exp n ks ch r) = n := rfl

theorem interp_sampleChild_unexp (excl r : Bool) (proposal : Val) :
    interpSampleChild sampleChild countUnexpanded excl (.unexp r) proposal = .error .assertion := by
  simp [interpSampleChild, sampleChild, block, exec, andThen, evalTCond, TEnv.withCounts, TEnv.ofTree, Tree.kidsOf,
    finishChoice]

theorem sampleChild_shape : sampleChild = block [
    (.assert (.not .childrenIsNone)), (.act (.setWeights .excl)),
    (.ite (.anyChild (.and (.not .childRunning) .weightPos)) (.loop .children zeroBody) .skip),
    (.act .normalise), (.ret .choice)] := rfl

/-- `sample_child` as generated: the weight vector handed to the RNG and the value drawn are the hand model's -/
theorem interp_sampleChild (excl : Bool) (n : Option String) (ks : List Val) (ch : Val → Tree) (r : Bool)
    (proposal : Val) :
    interpSampleChild sampleChild countUnexpanded excl (.exp n ks ch r) proposal =
      .ok ((Tree.exp n ks ch r).weights excl, (Tree.exp n ks ch r).sampleChild excl proposal) := by
  have hany : ∀ (f : Nat → Except Err Bool),
      (∀ i (h : i < ks.length), f i = .ok (!(ch ks[i]).isRunning && decide (0 < (ch ks[i]).count excl))) →
      anyE f (List.range ks.length) = .ok (ks.any (fun k => !(ch k).isRunning && decide (0 < (ch k).count excl))) := by
    intro f hf
    rw [List.range_eq_range']
    apply anyE_range f (fun k => !(ch k).isRunning && decide (0 < (ch k).count excl)) ks []
    intro i hi
    simpa using hf i hi
  rw [interpSampleChild, sampleChild_shape]
  simp only [block, exec, andThen, treeSem_cond, treeSem_act, treeSem_iter, treeSem_retv, evalTCond, doTAct, evalBExpT,
    TEnv.withCounts, TEnv.ofTree, Tree.kidsOf, nameOf_exp, isRunning_exp, Option.isNone, Bool.not_false,
    interp_countUnexpanded, mapE_ok, iterT]
  rw [hany _ (by
    intro i hi
    simp only [List.getElem?_eq_getElem hi, List.getElem?_map, Option.map_some, List.length_map]
    cases (ch ks[i]).isRunning <;> simp)]
  cases hp : ks.any (fun k => !(ch k).isRunning && decide (0 < (ch k).count excl)) with
  | false =>
    simp [retT, finishChoice, Tree.weights, Tree.sampleChild, Tree.keys, hp]
  | true =>
    simp only []
    rw [List.range_eq_range']
    obtain ⟨env', h1, h2, h3, h4, h5⟩ := zero_loop excl ch ks [] []
      { name := n, kids := some (ks, ch), running := r,
        childCount := fun e k => interpCount countUnexpanded (ch k) e, argName := none, argSpace := [], excl := excl,
        path := [], proposal := proposal, cur := none, frames := [], step := none,
        weights := some (ks.map (fun k => (ch k).count excl)), normalised := false, idx := none }
      rfl rfl rfl
    have hz : zeroed excl ch = fun k => if (ch k).isRunning then 0 else (ch k).count excl := rfl
    simp only [List.length_nil, List.nil_append, hz] at h1 h2
    simp only [interp_countUnexpanded] at h1
    rw [h1]
    simp [retT, finishChoice, h2, h3, h5, Tree.weights, Tree.sampleChild, Tree.keys, hp, zeroed]

/-- non-vacuity: children `0` (RUNNING, unexpanded), `1` (unexpanded), `2` (a finished leaf).  Strict mode counts
the running child, the default mode does not; the weight vector zeroes the running child because `1` is free,
and the RNG proposal `0` (weight 0) is replaced by the first child of positive weight -/
example :
    let t : Tree := .exp (some "x") [0, 1, 2]
      (fun k => if k = 0 then .unexp true else if k = 1 then .unexp false else .exp none [] (fun _ => .unexp false) false) false
    toOpt (interpCount countUnexpanded t false) = some 2 ∧ toOpt (interpCount countUnexpanded t true) = some 1 ∧
    toOpt (interpSampleChild sampleChild countUnexpanded false t 0) = some ([0, 1, 0], 1) ∧
    toOpt (interpSampleChild sampleChild countUnexpanded false
      (.exp (some "x") [0, 1] (fun k => if k = 0 then .unexp true else .exp none [] (fun _ => .unexp false) false) false) 1) =
        some ([1, 0], 0) := by decide

/-! ## `BruteForceSampler` -/

@[simp] theorem bfSem_cond (c) : (bfSem c).cond = evalBCond c := rfl
@[simp] theorem bfSem_act (c) : (bfSem c).act = doBAct c := rfl
@[simp] theorem bfSem_iter (c) : (bfSem c).iter = iterB := rfl
@[simp] theorem bfSem_retv (c) : (bfSem c).retv = retB c := rfl

theorem loopAux_cons_cont {E V : Type} (f : E → E × Flow V) (b : E → E) (rest : List (E → E)) (env env' : E)
    (h : f (b env) = (env', .cont)) : loopAux f (b :: rest) env = loopAux f rest env' := by
  simp [loopAux, h]

theorem loopAux_cons_raised {E V : Type} (f : E → E × Flow V) (b : E → E) (rest : List (E → E)) (env env' : E)
    (e : Err) (h : f (b env) = (env', .raised e)) : loopAux f (b :: rest) env = (env', .raised e) := by
  simp [loopAux, h]

theorem loopAux_cons_ret {E V : Type} (f : E → E × Flow V) (b : E → E) (rest : List (E → E)) (env env' : E)
    (v : V) (h : f (b env) = (env', .ret v)) : loopAux f (b :: rest) env = (env', .ret v) := by
  simp [loopAux, h]

/-- the body of the loop of `_populate_tree`, as generated -/
def popBody : BStmt :=
  block [(.ite (.not .paramsMatch) .cont .skip), (.act .leafAddPath),
    (.ite (.not .leafIsNone) (.ite .trialFinished (.act .leafSetLeaf) (.act .leafSetRunning)) .skip)]

theorem populateTree_shape : populateTree = .loop .trials popBody := rfl

/-- one iteration of the loop of `_populate_tree` -/
theorem populate_step (pf) (env : BEnv) (tree : Tree) (params : List (String × Val)) (t : ITrial)
    (ht : env.tree = some tree) (hp : env.pParams = params) :
    let r := exec (bfSem (treeCalls treeProg pf)) popBody { env with trial := some t }
    let want := if dictMatch params t.toTrial then tree.addPath (finOf t.toTrial) (restSteps params t.toTrial) else some tree
    (∃ e, r.2 = .raised e ∧ want = none) ∨
    ((r.2 = .next ∨ r.2 = .cont) ∧ r.1.pParams = params ∧ ∃ tree', r.1.tree = some tree' ∧ want = some tree') := by
  intro r want
  cases hm : dictMatch params t.toTrial with
  | false =>
    right
    simp [r, want, popBody, block, exec, andThen, evalBCond, hp, hm, ht]
  | true =>
    have hap := interp_addPath (finOf t.toTrial) tree (restSteps params t.toTrial)
    have hr : r = exec (bfSem (treeCalls treeProg pf)) popBody { env with trial := some t } := rfl
    simp only [popBody, block, exec, andThen, bfSem_cond, bfSem_act, evalBCond, doBAct, hp, hm, ht, treeCalls, treeProg,
      Bool.not_true] at hr
    have hw : want = Tree.addPath (finOf t.toTrial) (restSteps params t.toTrial) tree := by
      simp only [want, hm, if_true]
    rw [hw, ← hap]
    cases hR : interpAddPath addPath expand tree (restSteps params t.toTrial) with
    | error e =>
      left
      rw [hR] at hr
      simp only [] at hr
      exact ⟨e, by rw [hr], by simp [closePath]⟩
    | ok res =>
      obtain ⟨focus, frames, found⟩ := res
      rw [hR] at hr
      cases found with
      | false =>
        right
        simp only [Bool.false_eq_true, if_false, Option.isNone, Bool.not_true] at hr
        rw [hr]
        simp [closePath, hp]
      | true =>
        simp only [if_true, Option.isNone, Bool.not_false] at hr
        cases hfin : t.state.isFinished with
        | true =>
          have hsl := interp_setLeaf focus
          simp only [hfin, hsl] at hr
          cases hx : focus.setLeaf with
          | none =>
            left
            simp only [hx, liftErr] at hr
            exact ⟨.valueError, by rw [hr], by simp [closePath, finOf, ITrial.toTrial, hfin, hx]⟩
          | some f' =>
            right
            simp only [hx, liftErr] at hr
            rw [hr]
            simp [closePath, finOf, ITrial.toTrial, hfin, hx, hp]
        | false =>
          right
          have hsr := interp_setRunning focus
          simp only [hfin, hsr] at hr
          rw [hr]
          simp [closePath, finOf, ITrial.toTrial, hfin, hp]

theorem populate_loop (pf) (params : List (String × Val)) (ts : List ITrial) :
    ∀ (env : BEnv) (tree : Tree), env.tree = some tree → env.pParams = params →
      toOpt (finishTree (loopAux (fun e => exec (bfSem (treeCalls treeProg pf)) popBody e)
        (ts.map (fun t => fun (e : BEnv) => { e with trial := some t })) env)) =
      populate tree (ts.map ITrial.toTrial) params := by
  induction ts with
  | nil =>
    intro env tree ht hp
    simp [loopAux, finishTree, ht, toOpt, populate]
  | cons t rest ih =>
    intro env tree ht hp
    have hs := populate_step pf env tree params t ht hp
    simp only [] at hs
    generalize hR : exec (bfSem (treeCalls treeProg pf)) popBody { env with trial := some t } = R at hs
    obtain ⟨env', fl⟩ := R
    simp only [List.map_cons, populate]
    rcases hs with ⟨e, hfl, hw⟩ | ⟨hfl, hpp, tree', ht', hw⟩
    · simp only [] at hfl
      subst hfl
      rw [loopAux_cons_raised _ _ _ _ _ _ hR]
      cases hm : dictMatch params t.toTrial <;> simp [hm] at hw ⊢
      simp [hw, finishTree, toOpt]
    · simp only [] at hfl hpp ht'
      have hl : loopAux (fun e => exec (bfSem (treeCalls treeProg pf)) popBody e)
          ((fun (e : BEnv) => { e with trial := some t }) :: rest.map (fun t => fun (e : BEnv) => { e with trial := some t })) env =
          loopAux (fun e => exec (bfSem (treeCalls treeProg pf)) popBody e)
            (rest.map (fun t => fun (e : BEnv) => { e with trial := some t })) env' := by
        rcases hfl with h | h <;> subst h
        · exact loopAux_cons_next _ _ _ _ _ hR
        · exact loopAux_cons_cont _ _ _ _ _ hR
      rw [hl, ih env' tree' ht' hpp]
      cases hm : dictMatch params t.toTrial <;> simp [hm] at hw ⊢
      · rw [← hw]
      · rw [hw]

/-- `_populate_tree` as generated is the hand model's `populate`, for every tree, trial list (any states) and prefix -/
theorem interp_populateTree (tree : Tree) (ts : List ITrial) (params : List (String × Val)) :
    toOpt (interpPopulate treeProg populateTree tree ts params) = populate tree (ts.map ITrial.toTrial) params := by
  rw [interpPopulate, populateTree_shape]
  simp only [exec, bfSem_iter, iterB]
  exact populate_loop noPopulate params ts _ tree rfl rfl

/-- non-vacuity: three stored trials (COMPLETE `x=0,y=0`; FAIL `x=0,y=1`; RUNNING at `x=1`) populate a tree with
one unexpanded node left in the default mode (`y` below `x=1` is running) and … the trial filtered by the prefix
`x = 1` sees only the third -/
example : (toOpt (interpPopulate treeProg populateTree (.unexp false)
      [⟨0, [⟨"x", [0, 1], 0⟩, ⟨"y", [0, 1], 0⟩], .complete⟩, ⟨1, [⟨"x", [0, 1], 0⟩, ⟨"y", [0, 1], 1⟩], .fail⟩,
       ⟨2, [⟨"x", [0, 1], 1⟩], .running⟩] [])).map (fun t => (t.count false, t.count true)) = some (1, 0) ∧
    (toOpt (interpPopulate treeProg populateTree (.exp (some "y") [0, 1] (fun _ => .unexp false) false)
      [⟨0, [⟨"x", [0, 1], 0⟩, ⟨"y", [0, 1], 0⟩], .complete⟩, ⟨2, [⟨"x", [0, 1], 1⟩, ⟨"y", [0, 1], 1⟩], .pruned⟩]
      [("x", 1)])).map (fun t => t.count false) = some 1 := by decide

def Tree.isExp : Tree → Bool
  | .unexp _ => false
  | .exp _ _ _ _ => true

theorem addPath_isExp (fin : Tree → Option Tree)
    (hfin : ∀ t t', Tree.isExp t = true → fin t = some t' → Tree.isExp t' = true)
    (steps : List Step) (n : Option String) (ks : List Val) (ch : Val → Tree) (r : Bool) (t' : Tree)
    (h : Tree.addPath fin steps (.exp n ks ch r) = some t') : Tree.isExp t' = true := by
  cases steps with
  | nil => exact hfin _ _ rfl h
  | cons s rest =>
    simp only [Tree.addPath, Tree.expand] at h
    by_cases hc : (n == some s.name && sameKeys ks s.cands) = true
    · simp only [hc, if_true] at h
      by_cases hv : ks.contains s.value = true
      · simp only [hv, if_true] at h
        cases hr : Tree.addPath fin rest (ch s.value) with
        | none => simp [hr] at h
        | some c' => simp only [hr, Option.some.injEq] at h; subst h; rfl
      · simp only [hv, Bool.false_eq_true, if_false, Option.some.injEq] at h; subst h; rfl
    · simp [hc] at h

theorem finOf_isExp (tr : Trial) (t t' : Tree) (ht : Tree.isExp t = true) (h : finOf tr t = some t') :
    Tree.isExp t' = true := by
  cases t with
  | unexp r => cases ht
  | exp n ks ch r =>
    simp only [finOf] at h
    split at h
    · simp only [Tree.setLeaf, Tree.expand] at h
      split at h
      · cases h; rfl
      · cases h
    · cases h; rfl

theorem populate_isExp (params : List (String × Val)) (ts : List Trial) :
    ∀ (t t' : Tree), Tree.isExp t = true → populate t ts params = some t' → Tree.isExp t' = true := by
  induction ts with
  | nil => intro t t' ht h; simp only [populate] at h; cases h; exact ht
  | cons tr rest ih =>
    intro t t' ht h
    simp only [populate] at h
    split at h
    · split at h
      · cases h
      · rename_i tree' hap
        cases t with
        | unexp r => cases ht
        | exp n ks ch r =>
          exact ih tree' t' (addPath_isExp _ (finOf_isExp tr) _ _ _ _ _ _ hap) h
    · exact ih t t' ht h

/-- the trials `study.get_trials(states=(COMPLETE, PRUNED, RUNNING, FAIL))` returns -/
def visible (study : List ITrial) : List ITrial :=
  study.filter (fun t => [TState.complete, TState.pruned, TState.running, TState.fail].contains t.state)

theorem sampleChild_of_isExp (excl : Bool) (t : Tree) (proposal : Val) (h : Tree.isExp t = true) :
    interpSampleChild sampleChild countUnexpanded excl t proposal = .ok (t.weights excl, t.sampleChild excl proposal) := by
  cases t with
  | unexp r => cases h
  | exp n ks ch r => exact interp_sampleChild excl n ks ch r proposal

/-- `sample_independent` as generated is the hand model's, for every study content (any states, any numbering),
prefix, candidate list and RNG proposal -/
theorem interp_sampleIndependent (avoid : Bool) (study : List ITrial) (number : Nat) (pre : List Step)
    (name : String) (cands : List Val) (proposal : Val) :
    toOpt (interpSampleIndependent treeProg populateTree BruteForceMethods.sampleIndependent avoid study number (paramsOf pre) name
      cands proposal) =
    BruteForce.sampleIndependent avoid
      (((visible study).filter (fun t => t.number != number)).map ITrial.toTrial) pre name cands proposal := by
  have hpop := interp_populateTree (.exp (some name) cands (fun _ => .unexp false) false)
    ((visible study).filter (fun t => t.number != number)) (paramsOf pre)
  have hexp := interp_expand (.unexp false) (some name) cands
  simp only [Tree.expand, liftErr] at hexp
  simp only [interpSampleIndependent, BruteForceMethods.sampleIndependent, block, exec, andThen, bfSem_cond, bfSem_act, bfSem_retv,
    evalBCond, doBAct, retB, evalBExpB, BEnv.init, treeCalls, treeProg, evalTrialsSrc, evalParamsSrc, hexp]
  simp only [BruteForce.sampleIndependent, buildTree, Tree.expand]
  simp only [visible, treeProg] at hpop
  simp only [visible]
  generalize interpPopulate _ populateTree _ _ _ = P at hpop ⊢
  cases P with
  | error e =>
    simp only [toOpt] at hpop
    rw [← hpop]
    simp [toOpt, finishVal]
  | ok tree' =>
    simp only [toOpt] at hpop
    have hE := populate_isExp _ _ _ _ rfl hpop.symm
    simp only [← hpop, toOpt, interp_countUnexpanded, Bool.not_not]
    cases hc : (tree'.count (!avoid) == 0) with
    | true =>
      have : tree'.count (!avoid) = 0 := by simpa using hc
      simp [this, finishVal, toOpt]
    | false =>
      have : ¬ tree'.count (!avoid) = 0 := by simpa using hc
      simp [this, finishVal, toOpt, sampleChild_of_isExp _ _ _ hE]

/-- `after_trial` as generated is the hand model's: the trials of the study with the current one in the state
being told -/
theorem interp_afterTrial (avoid : Bool) (study : List ITrial) (number : Nat) (state : TState) :
    toOpt (interpAfterTrial treeProg populateTree BruteForceMethods.afterTrial avoid study number state) =
    BruteForce.afterTrial avoid
      (((visible study).map (fun t => if t.number != number then t else { t with state := state })).map
        ITrial.toTrial) := by
  have hpop := interp_populateTree (.unexp false)
    ((visible study).map (fun t => if t.number != number then t else { t with state := state })) []
  simp only [interpAfterTrial, BruteForceMethods.afterTrial, block, exec, andThen, bfSem_cond, bfSem_act, bfSem_retv,
    evalBCond, doBAct, retB, evalBExpB, BEnv.init, treeCalls, treeProg, evalTrialsSrc, evalParamsSrc]
  simp only [BruteForce.afterTrial]
  simp only [visible, treeProg] at hpop
  simp only [visible]
  generalize interpPopulate _ populateTree _ _ _ = P at hpop ⊢
  cases P with
  | error e =>
    simp only [toOpt] at hpop
    rw [← hpop]
    simp [toOpt, finishStop]
  | ok tree' =>
    simp only [toOpt] at hpop
    simp only [← hpop, toOpt, interp_countUnexpanded, Bool.not_not]
    cases hc : (tree'.count (!avoid) == 0) <;> simp [hc, finishStop, toOpt]

/-! ## `_enumerate_candidates` -/

theorem rangeZ_loopQ (high step : Int) : ∀ (fuel : Nat) (v : Int),
    (rangeZ (high + 1) step fuel v).map (fun (i : Int) => (i : Rat)) = loopQ (high : Rat) (step : Rat) fuel (v : Rat) := by
  intro fuel
  induction fuel with
  | zero => intro v; rfl
  | succ f ih =>
    intro v
    simp only [rangeZ, loopQ]
    by_cases h : v < high + 1
    · have h' : (v : Rat) ≤ (high : Rat) := by exact_mod_cast (Int.lt_add_one_iff.mp h)
      simp only [h, h', if_true, List.map_cons]
      rw [ih (v + step)]
      congr 2
      push_cast; rfl
    · have h' : ¬ (v : Rat) ≤ (high : Rat) := by
        intro hc
        have : v ≤ high := by exact_mod_cast hc
        omega
      simp [h, h']

/-- the shape of `_enumerate_candidates`: the `isinstance` chain float / int / categorical, every Decimal built
from `str(x)`, `step is None` refused, `range(low, high + 1, step)`, unknown distributions refused -/
theorem enumerate_shape :
    enumerateCandidates = { arms := [(.float, .floatLoop .ofStr .ofStr .ofStr true), (.int, .intRange 1), (.cat, .catRange)],
                            elseRaises := true } := rfl

/-- `_enumerate_candidates` as generated is `Dist.enumerate`, whatever the rounding `toFloat` of decimals to doubles
is (no Decimal is built from a float) -/
theorem interp_enumerateCandidates (toFloat : Rat → Rat) (d : Dist) :
    interpEnumerate enumerateCandidates toFloat d = .ok d.enumerate := by
  cases d with
  | int low high step =>
    have h : interpEnumerate enumerateCandidates toFloat (.int low high step) =
        .ok ((rangeZ (high + 1) step ((high - low).toNat + 1) low).map (fun (i : Int) => (i : Rat))) := rfl
    rw [h, rangeZ_loopQ]
    rfl
  | float low high step => rfl
  | cat n => rfl
/-- the last point `1 = 0.1 + 3·0.3` of `FloatDistribution(0.1, 1.0, step=0.3)` is a candidate of the generated
enumeration, however decimals round to doubles -/
example (toFloat : Rat → Rat) : ∃ l, interpEnumerate enumerateCandidates toFloat (.float (1 / 10) 1 (3 / 10)) = .ok l ∧
    (1 / 10 : Rat) + ((3 : Nat) : Rat) * (3 / 10) ∈ l :=
  ⟨_, interp_enumerateCandidates toFloat _, C14.candidates_complete_float _ _ _ ⟨by grind, by grind⟩ 3 (by grind)⟩
example : toOpt (interpEnumerate enumerateCandidates id (.int 1 7 3)) = some [1, 4, 7] := by decide

/-! ## the optimize loop over the generated hooks -/

theorem fstate_finished (f : FState) : f.toT.isFinished = true := by cases f <;> rfl
theorem fstate_visible (f : FState) :
    [TState.complete, TState.pruned, TState.running, TState.fail].contains f.toT = true := by cases f <;> rfl

theorem embedFrom_mem (σ : Nat → FState) : ∀ (H : List Trial) (i : Nat) (t : ITrial), t ∈ embedFrom σ i H →
    i ≤ t.number ∧ t.number < i + H.length ∧
      [TState.complete, TState.pruned, TState.running, TState.fail].contains t.state = true := by
  intro H
  induction H with
  | nil => intro i t h; simp [embedFrom] at h
  | cons a rest ih =>
    intro i t h
    simp only [embedFrom, List.mem_cons] at h
    rcases h with h | h
    · subst h
      refine ⟨Nat.le_refl _, by simp, ?_⟩
      cases a.finished
      · rfl
      · simp only [if_true]; exact fstate_visible _
    · obtain ⟨h1, h2, h3⟩ := ih (i + 1) t h
      exact ⟨by omega, by simp only [List.length_cons]; omega, h3⟩

theorem embedFrom_toTrial (σ : Nat → FState) : ∀ (H : List Trial) (i : Nat),
    (embedFrom σ i H).map ITrial.toTrial = H := by
  intro H
  induction H with
  | nil => intro i; rfl
  | cons a rest ih =>
    intro i
    simp only [embedFrom, List.map_cons, ih, ITrial.toTrial]
    congr 1
    cases hf : a.finished
    · cases a; simp_all [TState.isFinished]
    · cases a; simp_all [fstate_finished]

theorem visible_embed (σ : Nat → FState) (H : List Trial) (n : Nat) (steps : List Step) :
    visible (embedFrom σ 0 H ++ [(⟨n, steps, .running⟩ : ITrial)]) = embedFrom σ 0 H ++ [(⟨n, steps, .running⟩ : ITrial)] := by
  simp only [visible]
  rw [List.filter_eq_self]
  intro t ht
  simp only [List.mem_append, List.mem_singleton] at ht
  rcases ht with ht | ht
  · exact (embedFrom_mem σ H 0 t ht).2.2
  · subst ht; rfl

theorem others_embed (σ : Nat → FState) (H : List Trial) (steps : List Step) :
    (embedFrom σ 0 H ++ [(⟨H.length, steps, .running⟩ : ITrial)]).filter (fun t => t.number != H.length) = embedFrom σ 0 H := by
  rw [List.filter_append]
  have h1 : (embedFrom σ 0 H).filter (fun t => t.number != H.length) = embedFrom σ 0 H := by
    rw [List.filter_eq_self]
    intro t ht
    have := (embedFrom_mem σ H 0 t ht).2.1
    simp only [bne_iff_ne, ne_eq]
    omega
  rw [h1]
  simp

theorem replaced_embed (σ : Nat → FState) (H : List Trial) (steps : List Step) (st : TState) :
    (embedFrom σ 0 H ++ [(⟨H.length, steps, .running⟩ : ITrial)]).map
        (fun (t : ITrial) => if t.number != H.length then t else { t with state := st }) =
      embedFrom σ 0 H ++ [(⟨H.length, steps, st⟩ : ITrial)] := by
  rw [List.map_append]
  congr 1
  · conv => rhs; rw [← List.map_id (embedFrom σ 0 H)]
    apply List.map_congr_left
    intro t ht
    have := (embedFrom_mem σ H 0 t ht).2.1
    have hne : (t.number != H.length) = true := by simp only [bne_iff_ne, ne_eq]; omega
    simp [hne]
  · simp

/-- **the hooks generated from the source are the hand model's hooks** on every study content the loop
produces, whatever finished state (`σ`) the trials ended in -/
theorem genImpl_eq (σ : Nat → FState) :
    genImpl treeProg populateTree BruteForceMethods.sampleIndependent BruteForceMethods.afterTrial σ = handImpl := by
  simp only [genImpl, handImpl]
  congr 1
  · funext avoid others pre name cands proposal
    rw [interp_sampleIndependent, visible_embed, others_embed, embedFrom_toTrial]
  · funext avoid others steps
    rw [interp_afterTrial, visible_embed, replaced_embed, List.map_append, embedFrom_toTrial]
    simp [ITrial.toTrial, fstate_finished]

theorem runObjW_hand (avoid : Bool) (ω : Nat → Val) (others : List Trial) (p : Prog) :
    ∀ (pre : List Step) (c : Nat) (cut : Cut),
      runObjW handImpl avoid ω others p pre c cut = runObj avoid ω others p pre c cut := by
  induction p with
  | leaf o => intro pre c cut; rfl
  | node name single cands child ih =>
    intro pre c cut
    have hs : handImpl.sample = BruteForce.sampleIndependent := rfl
    simp only [runObjW, runObj, hs, ih]
    generalize BruteForce.sampleIndependent avoid others pre name cands (ω c) = R
    cases R <;> rfl

theorem runTrialW_hand (cx : BruteForce.Ctx) (p : Prog) (st : BruteForce.St) :
    runTrialW handImpl cx p st = runTrial cx p st := by
  simp only [runTrialW, runTrial, runObjW_hand]
  rfl

theorem optimizeLoopW_hand (cx : BruteForce.Ctx) (p : Prog) (k : Nat) :
    ∀ (st : BruteForce.St), optimizeLoopW handImpl cx p k st = optimizeLoop cx p k st := by
  induction k with
  | zero => intro st; rfl
  | succ k ih => intro st; simp only [optimizeLoopW, optimizeLoop, runTrialW_hand, ih]

/-- the parametrised loop, instantiated with the hand model's hooks, is `BruteForce.session` -/
theorem sessionW_hand (cx : BruteForce.Ctx) (p : Prog) (ks : List Nat) (st : BruteForce.St) :
    sessionW handImpl cx p ks st = session cx p ks st := by
  simp only [sessionW, session, optimizeW, optimize, optimizeLoopW_hand]

/-- the optimize loop driven by the interpreter of the GENERATED `sample_independent` / `after_trial` -/
def genSession (σ : Nat → FState) (cx : BruteForce.Ctx) (p : Prog) (ks : List Nat) (st : BruteForce.St) : BruteForce.St :=
  sessionW (genImpl treeProg populateTree BruteForceMethods.sampleIndependent BruteForceMethods.afterTrial σ) cx p ks st

/-- **genSession_eq**: that loop is the hand model's `session` — for every program, RNG, interruption pattern,
split and assignment of COMPLETE / PRUNED / FAIL to the finished trials -/
theorem genSession_eq (σ : Nat → FState) (cx : BruteForce.Ctx) (p : Prog) (ks : List Nat) (st : BruteForce.St) :
    genSession σ cx p ks st = session cx p ks st := by
  rw [genSession, genImpl_eq, sessionW_hand]

/-! ## the theorems of C14 hold of the loop driven by the generated methods -/

/-- **gen_bruteforce_never_twice** (`never_twice`): the sampler methods as written in the source today never
raise, every evaluated combination is a root-to-leaf path of the program, none is evaluated twice. -/
theorem gen_bruteforce_never_twice (σ : Nat → FState) (p : Prog) (cx : BruteForce.Ctx) (R : List Trial)
    (h : C14.Setting p cx R) (ks : List Nat) :
    (genSession σ cx p ks (initSt R)).crashed = false ∧
    (∀ l ∈ evaluated (genSession σ cx p ks (initSt R)), LeafPath p l) ∧
    (evaluated (genSession σ cx p ks (initSt R))).Nodup := by
  rw [genSession_eq]; exact C14.bruteforce_never_twice p cx R h ks

/-- **gen_bruteforce_exhaustive**: as soon as the generated `after_trial` has set the stop flag, the evaluated
combinations are exactly the root-to-leaf paths of the program, each exactly once. -/
theorem gen_bruteforce_exhaustive (σ : Nat → FState) (p : Prog) (cx : BruteForce.Ctx) (R : List Trial)
    (h : C14.Setting p cx R) (ks : List Nat) (hstop : (genSession σ cx p ks (initSt R)).stop = true) :
    (genSession σ cx p ks (initSt R)).crashed = false ∧
    (evaluated (genSession σ cx p ks (initSt R))).Nodup ∧
    (∀ l, l ∈ evaluated (genSession σ cx p ks (initSt R)) ↔ LeafPath p l) ∧
    (genSession σ cx p ks (initSt R)).trials.length = R.length + numLeaves p := by
  rw [genSession_eq] at hstop ⊢; exact C14.bruteforce_exhaustive p cx R h ks hstop

/-- … and the flag is set exactly then -/
theorem gen_bruteforce_stop_iff_all (σ : Nat → FState) (p : Prog) (cx : BruteForce.Ctx) (R : List Trial)
    (h : C14.Setting p cx R) (ks : List Nat) :
    (genSession σ cx p ks (initSt R)).stop = true ↔
      ∀ l, LeafPath p l → l ∈ evaluated (genSession σ cx p ks (initSt R)) := by
  rw [genSession_eq]; exact C14.bruteforce_stop_iff_all p cx R h ks

/-- **gen_bruteforce_stops_by_itself** (`stops_by_itself`): without raising leaves and interruptions the number
of trials is `min (total budget) (number of leaves)` and with enough budget the run ends with the stop flag. -/
theorem gen_bruteforce_stops_by_itself (σ : Nat → FState) (p : Prog) (cx : BruteForce.Ctx) (R : List Trial)
    (h : C14.Setting p cx R) (hnc : NoCut cx) (hnr : NoRaise p) (ks : List Nat) :
    (genSession σ cx p ks (initSt R)).trials.length = R.length + min ks.sum (numLeaves p) ∧
    (numLeaves p ≤ ks.sum → (genSession σ cx p ks (initSt R)).stop = true) := by
  rw [genSession_eq]; exact C14.bruteforce_stops_by_itself p cx R h hnc hnr ks

/-- general case: after at most `numLeaves p` resumptions the stop flag is set -/
theorem gen_bruteforce_stops_after_resumptions (σ : Nat → FState) (p : Prog) (cx : BruteForce.Ctx) (R : List Trial)
    (h : C14.Setting p cx R) (ks : List Nat) (hks : ∀ k ∈ ks, 1 ≤ k) (hlen : numLeaves p ≤ ks.length) :
    (genSession σ cx p ks (initSt R)).stop = true := by
  rw [genSession_eq]; exact C14.bruteforce_stops_after_resumptions p cx R h ks hks hlen

/-- non-vacuity: the hypotheses are satisfiable and the loop over the generated methods runs the four
combinations of `pxy` and stops; the F19 counter-witness is reproduced by it as well -/
example : C14.Setting C14.pxy ⟨false, fun n => (n : Rat), fun _ => .none⟩ [] :=
  ⟨C14.pxy_wf, by intro n j; simp, by simp, Or.inr rfl⟩
example : (genSession (fun i => if i = 1 then .fail else .pruned) ⟨false, fun n => (n : Rat), fun _ => .none⟩ C14.pxy [3, 10]
      (initSt [])).stop = true ∧
    C14.evaluatedVals (genSession (fun i => if i = 1 then .fail else .pruned) ⟨false, fun n => (n : Rat), fun _ => .none⟩
      C14.pxy [3, 10] (initSt [])) = [[0, 1], [0, 0], [1, 0], [1, 1]] := by
  rw [genSession_eq]; decide
example : (genSession (fun _ => .fail) ⟨false, fun _ => 0, fun n => if n = 0 then .mid 1 else .none⟩ C14.pxy [1, 10]
    (initSt [])).stop = true ∧
    C14.evaluatedVals (genSession (fun _ => .fail) ⟨false, fun _ => 0, fun n => if n = 0 then .mid 1 else .none⟩ C14.pxy
      [1, 10] (initSt [])) = [[0], [1, 0], [1, 1]] := by
  rw [genSession_eq]; decide
/-- the interpreter itself, on a one-parameter study: after `x = 0` (FAIL) and `x = 1` (being told COMPLETE) the
generated `after_trial` calls `study.stop()`; one trial earlier it does not; and the generated
`sample_independent` then draws the remaining value whatever the RNG proposes -/
example : toOpt (interpAfterTrial treeProg populateTree BruteForceMethods.afterTrial false
      [⟨0, [⟨"x", [0, 1], 0⟩], .fail⟩, ⟨1, [⟨"x", [0, 1], 1⟩], .running⟩] 1 .complete) = some true ∧
    toOpt (interpAfterTrial treeProg populateTree BruteForceMethods.afterTrial false
      [⟨0, [⟨"x", [0, 1], 0⟩], .running⟩] 0 .fail) = some false ∧
    toOpt (interpSampleIndependent treeProg populateTree BruteForceMethods.sampleIndependent false
      [⟨0, [⟨"x", [0, 1], 0⟩], .fail⟩, ⟨1, [], .running⟩] 1 [] "x" [0, 1] 0) = some 1 := by decide

/-! # Grid sampler -/
section grid
open OptunaVerif.Grid

@[simp] theorem gridSem_cond (c) : (gridSem c).cond = evalGCond c := rfl
@[simp] theorem gridSem_act (c) : (gridSem c).act = doGAct c := rfl
@[simp] theorem gridSem_iter (c) : (gridSem c).iter = iterG := rfl
@[simp] theorem gridSem_retv (c) : (gridSem c).retv = retG := rfl

/-- `_grid_value_equal` as generated: `==`, or both NaN (whatever objects they are) -/
theorem interp_gridValueEqual (a b : GVal) :
    interpValueEqual GridMethods.gridValueEqual a b = .ok (Grid.gridValueEqual a b) := by
  simp only [interpValueEqual, GridMethods.gridValueEqual, evalLets, evalVExpr, VArg.get, List.find?, Grid.gridValueEqual]
  cases h1 : a.isNaN <;> cases h2 : b.isNaN <;> cases h3 : a.pyEq b <;> simp [evalVExpr, List.find?]
/-- two different NaN objects (a NaN read back from a serialising storage) are equal grid values -/
example : toOpt (interpValueEqual GridMethods.gridValueEqual (.nan 0) (.nan 1)) = some true ∧
    toOpt (interpValueEqual GridMethods.gridValueEqual (.int 1) (.float 1)) = some true ∧
    toOpt (interpValueEqual GridMethods.gridValueEqual (.int 1) (.str "1")) = some false := by decide

/-- `_param_value_equal` (the comparison of `_populate_tree`'s prefix filter since the repair of finding F38) as generated: the
same NaN-aware equality - `==`, or both NaN whatever objects they are.  This is what makes the `paramsMatch` primitive (whose
interpreter compares the model's values with a reflexive `==`) a faithful reading of the source also for a NaN categorical
choice; with the plain `trial.params[p] == v` of before, a NaN choice never matched itself and the combinations below it were
evaluated more than once. -/
theorem interp_paramValueEqual (a b : GVal) :
    interpValueEqual BruteForceMethods.paramValueEqual a b = .ok (Grid.gridValueEqual a b) := by
  simp only [interpValueEqual, BruteForceMethods.paramValueEqual, evalLets, evalVExpr, VArg.get, List.find?, Grid.gridValueEqual]
  cases h1 : a.isNaN <;> cases h2 : b.isNaN <;> cases h3 : a.pyEq b <;> simp [evalVExpr, List.find?]
/-- a NaN choice read back from a serialising storage (another object) matches the NaN choice of the current prefix -/
example : toOpt (interpValueEqual BruteForceMethods.paramValueEqual (.nan 0) (.nan 1)) = some true ∧
    toOpt (interpValueEqual BruteForceMethods.paramValueEqual (.nan 0) (.float 1)) = some false ∧
    toOpt (interpValueEqual BruteForceMethods.paramValueEqual (.str "a") (.str "a")) = some true := by decide
/-- the NaN-aware equality is reflexive on every value, NaN included (plain `==` is not: `pyEq` of a NaN with itself is false) -/
theorem param_value_equal_refl (a : GVal) : interpValueEqual BruteForceMethods.paramValueEqual a a = .ok true := by
  rw [interp_paramValueEqual]
  cases a <;> simp [Grid.gridValueEqual, GVal.isNaN, GVal.pyEq, GVal.num?]
example : GVal.pyEq (.nan 0) (.nan 0) = false := by decide

/-- the body of the inner loop of `_same_search_space`, as generated -/
def valBody : GStmt := .ite (.not .valueEqualCall) (.ret (.bool false)) .skip
/-- the body of the outer loop -/
def keyBody : GStmt := block [(.ite .lensDiffer (.ret (.bool false)) .skip), (.loop .theirValuesEnum valBody)]

theorem sameSearchSpace_shape : GridMethods.sameSearchSpace =
    block [(.ite .keySetsDiffer (.ret (.bool false)) .skip), (.loop .theirKeys keyBody), (.ret (.bool true))] := rfl

def veqCalls : GCalls := { noCallsG with valueEqual := interpValueEqual GridMethods.gridValueEqual }

theorem values_loop (p : String) (W : List GVal) (vs : List GVal) :
    ∀ (off : Nat) (ws : List GVal) (env : GEnv), env.paramName = some p → AList.get? env.inp.mine p = some W →
      W.drop off = ws → vs.length = ws.length →
      ∃ env', loopAux (fun e => exec (gridSem veqCalls) valBody e)
          ((enumFrom off vs).map (fun iv => fun (e : GEnv) => { e with vidx := some iv.1, paramValue := some iv.2 })) env =
          (env', if valuesEqual vs ws then .next else .ret (.bool false)) ∧ env'.inp = env.inp := by
  induction vs with
  | nil =>
    intro off ws env hp hW hd hl
    cases ws with
    | nil => exact ⟨env, by simp [enumFrom, loopAux, valuesEqual], rfl⟩
    | cons _ _ => simp at hl
  | cons v vs ih =>
    intro off ws env hp hW hd hl
    cases ws with
    | nil => simp at hl
    | cons w ws =>
      have hw : W[off]? = some w := by
        have := congrArg (fun l => l[0]?) hd
        simpa using this
      have hd' : W.drop (off + 1) = ws := by
        have := congrArg List.tail hd
        simpa [List.tail_drop] using this
      have hveq := interp_gridValueEqual v w
      cases hc : Grid.gridValueEqual v w with
      | false =>
        have hstep : exec (gridSem veqCalls) valBody { env with vidx := some off, paramValue := some v } =
            ({ env with vidx := some off, paramValue := some v }, .ret (.bool false)) := by
          simp [valBody, exec, evalGCond, retG, hp, hW, hw, veqCalls, hveq, hc]
        refine ⟨{ env with vidx := some off, paramValue := some v }, ?_, rfl⟩
        simp only [enumFrom, List.map_cons]
        rw [loopAux_cons_ret _ _ _ _ _ _ hstep]
        simp [valuesEqual, hc]
      | true =>
        have hstep : exec (gridSem veqCalls) valBody { env with vidx := some off, paramValue := some v } =
            ({ env with vidx := some off, paramValue := some v }, .next) := by
          simp [valBody, exec, evalGCond, retG, hp, hW, hw, veqCalls, hveq, hc]
        obtain ⟨env', h1, h2⟩ := ih (off + 1) ws { env with vidx := some off, paramValue := some v } hp hW hd'
          (by simpa using hl)
        refine ⟨env', ?_, h2⟩
        simp only [enumFrom, List.map_cons]
        rw [loopAux_cons_next _ _ _ _ _ hstep, h1]
        simp [valuesEqual, hc]

theorem valuesEqual_length (vs ws : List GVal) (h : vs.length ≠ ws.length) : valuesEqual vs ws = false := by
  induction vs generalizing ws with
  | nil => cases ws <;> simp_all [valuesEqual]
  | cons v vs ih =>
    cases ws with
    | nil => rfl
    | cons w ws =>
      simp only [valuesEqual]
      rw [ih ws (by simpa using h)]
      simp

/-- one key of `search_space` (the key is a key of `self._search_space` too) -/
theorem key_step (env : GEnv) (p : String) (vs W : List GVal)
    (hv : AList.get? env.inp.theirs p = some vs) (hW : AList.get? env.inp.mine p = some W) :
    ∃ env', exec (gridSem veqCalls) keyBody { env with paramName := some p } =
      (env', if valuesEqual vs W then .next else .ret (.bool false)) ∧ env'.inp = env.inp := by
  by_cases hl : vs.length = W.length
  · obtain ⟨env', h1, h2⟩ := values_loop p W vs 0 W { env with paramName := some p } rfl hW rfl hl
    refine ⟨env', ?_, h2⟩
    simp only [keyBody, block, exec, andThen, gridSem_cond, gridSem_iter, evalGCond, iterG, hv, hW, hl, bne_self_eq_false]
    exact h1
  · refine ⟨{ env with paramName := some p }, ?_, rfl⟩
    have : (vs.length != W.length) = true := by simpa using hl
    simp [keyBody, block, exec, andThen, evalGCond, retG, hv, hW, this, valuesEqual_length vs W hl]

theorem get?_isSome_of_mem {α : Type} (l : AList α) (k : String) (h : k ∈ l.map (·.1)) : ∃ v, AList.get? l k = some v := by
  induction l with
  | nil => simp at h
  | cons hd tl ih =>
    obtain ⟨k', v'⟩ := hd
    by_cases hk : k' = k
    · exact ⟨v', by simp [AList.get?, hk]⟩
    · simp only [List.map_cons, List.mem_cons] at h
      rcases h with h | h
      · exact absurd h.symm hk
      · obtain ⟨v, hv⟩ := ih h
        exact ⟨v, by simp [AList.get?, hk, hv]⟩

theorem keys_loop (keys : List (String × List GVal)) :
    ∀ (env : GEnv), (∀ kv ∈ keys, ∃ vs W, AList.get? env.inp.theirs kv.1 = some vs ∧ AList.get? env.inp.mine kv.1 = some W) →
      ∃ env', loopAux (fun e => exec (gridSem veqCalls) keyBody e)
          (keys.map (fun kv => fun (e : GEnv) => { e with paramName := some kv.1 })) env =
          (env', if keys.all (fun kv => entryEqual env.inp.mine env.inp.theirs kv.1) then .next else .ret (.bool false)) ∧
          env'.inp = env.inp := by
  induction keys with
  | nil => intro env _; exact ⟨env, by simp [loopAux], rfl⟩
  | cons kv rest ih =>
    intro env h
    obtain ⟨vs, W, hv, hW⟩ := h kv (by simp)
    obtain ⟨env1, h1, h1i⟩ := key_step env kv.1 vs W hv hW
    have he : entryEqual env.inp.mine env.inp.theirs kv.1 = valuesEqual vs W := by simp [entryEqual, hv, hW]
    cases hc : valuesEqual vs W with
    | false =>
      refine ⟨env1, ?_, h1i⟩
      simp only [hc, Bool.false_eq_true, if_false] at h1
      simp only [List.map_cons]
      rw [loopAux_cons_ret _ _ _ _ _ _ h1]
      simp [he, hc]
    | true =>
      simp only [hc, if_true] at h1
      obtain ⟨env2, h2, h2i⟩ := ih env1 (by
        intro kv' hkv'
        rw [h1i]
        exact h kv' (by simp [hkv']))
      refine ⟨env2, ?_, by rw [h2i, h1i]⟩
      simp only [List.map_cons]
      rw [loopAux_cons_next _ _ _ _ _ h1, h2, h1i]
      simp only [List.all_cons, he, hc, Bool.true_and]

/-- `_same_search_space` as generated is the hand model's, for all pairs of search spaces -/
theorem interp_sameSearchSpace (mine theirs : Space) :
    interpSameSpace GridMethods.gridValueEqual GridMethods.sameSearchSpace mine theirs = .ok (Grid.sameSearchSpace mine theirs) := by
  rw [interpSameSpace, sameSearchSpace_shape]
  cases hk : sameKeySets (theirs.map (·.1)) (mine.map (·.1)) with
  | false =>
    simp [block, exec, andThen, evalGCond, retG, GEnv.ofIn, GIn.init, hk, finishBool, Grid.sameSearchSpace]
  | true =>
    have hmem : ∀ kv ∈ theirs, ∃ vs W, AList.get? theirs kv.1 = some vs ∧ AList.get? mine kv.1 = some W := by
      intro kv hkv
      have h1 : kv.1 ∈ theirs.map (·.1) := List.mem_map_of_mem hkv
      have h2 : kv.1 ∈ mine.map (·.1) := by
        simp only [sameKeySets, Bool.and_eq_true, List.all_eq_true] at hk
        have := hk.1 kv.1 h1
        simpa using this
      obtain ⟨vs, hvs⟩ := get?_isSome_of_mem theirs kv.1 h1
      obtain ⟨W, hW⟩ := get?_isSome_of_mem mine kv.1 h2
      exact ⟨vs, W, hvs, hW⟩
    obtain ⟨env', h1, h2⟩ := keys_loop theirs (GEnv.ofIn { GIn.init mine 0 [] with theirs := theirs }) hmem
    simp only [block, exec, andThen, gridSem_cond, gridSem_iter, gridSem_retv, evalGCond, iterG, retG, GEnv.ofIn, GIn.init, hk,
      Bool.not_true] at h1 ⊢
    unfold veqCalls at h1
    rw [h1]
    by_cases hall : theirs.all (fun kv => entryEqual mine theirs kv.1) = true
    · simp only [hall, if_true, finishBool, Grid.sameSearchSpace, hk, Bool.and_self]
    · simp only [hall, if_false, finishBool, Grid.sameSearchSpace, hk, Bool.true_and]
      simp

/-- the body of the loop of `_get_unvisited_grid_ids`, as generated -/
def trialBody : GStmt :=
  .ite (.and .tHasGridId .tSameSpace)
    (.ite .tFinished (.act .appendVisited) (.ite (.tStateIs .running) (.act .appendRunning) .skip)) .skip

theorem getUnvisited_shape : GridMethods.getUnvisitedGridIds = block [
    (.act .initVisited), (.act .initRunning), (.act .getAllTrials), (.loop .trials trialBody),
    (.act (.setUnvisited [.visited, .running])),
    (.ite (.lenUnvisitedIs 0) (.act (.setUnvisited [.visited])) .skip), (.ret .listUnvisited)] := rfl

def ssCalls (mine : Space) : GCalls :=
  { noCallsG with sameSpace := fun sp => interpSameSpace GridMethods.gridValueEqual GridMethods.sameSearchSpace mine sp }

theorem runningIds_cons (a : GTrial) (ts : List GTrial) :
    runningIds (a :: ts) = (if a.state = .running then a.gridId.toList else []) ++ runningIds ts := by
  simp only [runningIds, List.filter_cons]
  by_cases h : a.state = .running
  · cases hg : a.gridId <;> simp [h, hg]
  · simp [h]

theorem trial_step (mine : Space) (env : GEnv) (t : RTrial) (V R : List Nat)
    (hv : env.visited = some V) (hr : env.running = some R) :
    (t.view mine = none ∧ ∃ env', exec (gridSem (ssCalls mine)) trialBody { env with t := some t } = (env', .raised .keyError)) ∨
    (∃ g, t.view mine = some g ∧ ∃ env', exec (gridSem (ssCalls mine)) trialBody { env with t := some t } = (env', .next) ∧
      env'.visited = some (V ++ visitedIds [g]) ∧ env'.running = some (R ++ runningIds [g]) ∧ env'.inp = env.inp) := by
  obtain ⟨gid, sp, fx, st⟩ := t
  have e1 : (TS.running == TS.finished) = false := rfl
  have e2 : (TS.waiting == TS.finished) = false := rfl
  have e3 : (TS.waiting == TS.running) = false := rfl
  cases gid with
  | none =>
    right
    refine ⟨⟨none, st⟩, rfl, { env with t := some ⟨none, sp, fx, st⟩ }, ?_, ?_, ?_, rfl⟩
    · simp [trialBody, exec, evalGCond]
    · simp [hv, visitedIds]
    · simp [hr, runningIds]
  | some g =>
    cases sp with
    | none =>
      left
      exact ⟨rfl, { env with t := some ⟨some g, none, fx, st⟩ }, by simp [trialBody, exec, evalGCond]⟩
    | some sp =>
      right
      have hss := interp_sameSearchSpace mine sp
      cases hs : Grid.sameSearchSpace mine sp with
      | false =>
        refine ⟨⟨none, st⟩, by simp [RTrial.view, hs], { env with t := some ⟨some g, some sp, fx, st⟩ }, ?_, ?_, ?_, rfl⟩
        · simp [trialBody, exec, evalGCond, ssCalls, hss, hs]
        · simp [hv, visitedIds]
        · simp [hr, runningIds]
      | true =>
        cases st with
        | finished =>
          refine ⟨⟨some g, .finished⟩, by simp [RTrial.view, hs],
            { env with t := some ⟨some g, some sp, fx, .finished⟩, visited := some (V ++ [g]) }, ?_, ?_, ?_, rfl⟩
          · simp [trialBody, exec, evalGCond, doGAct, ssCalls, hss, hs, hv]
          · simp [visitedIds]
          · simp [hr, runningIds]
        | running =>
          refine ⟨⟨some g, .running⟩, by simp [RTrial.view, hs],
            { env with t := some ⟨some g, some sp, fx, .running⟩, running := some (R ++ [g]) }, ?_, ?_, ?_, rfl⟩
          · simp [trialBody, exec, evalGCond, doGAct, ssCalls, hss, hs, hr, e1]
          · simp [hv, visitedIds]
          · simp [runningIds]
        | waiting =>
          refine ⟨⟨some g, .waiting⟩, by simp [RTrial.view, hs],
            { env with t := some ⟨some g, some sp, fx, .waiting⟩ }, ?_, ?_, ?_, rfl⟩
          · simp [trialBody, exec, evalGCond, doGAct, ssCalls, hss, hs, e2, e3]
          · simp [hv, visitedIds]
          · simp [hr, runningIds]

theorem trials_loop (mine : Space) (ts : List RTrial) :
    ∀ (env : GEnv) (V R : List Nat), env.visited = some V → env.running = some R →
      (viewAll mine ts = none ∧ ∃ env', loopAux (fun e => exec (gridSem (ssCalls mine)) trialBody e)
          (ts.map (fun t => fun (e : GEnv) => { e with t := some t })) env = (env', .raised .keyError)) ∨
      (∃ gs, viewAll mine ts = some gs ∧ ∃ env', loopAux (fun e => exec (gridSem (ssCalls mine)) trialBody e)
          (ts.map (fun t => fun (e : GEnv) => { e with t := some t })) env = (env', .next) ∧
        env'.visited = some (V ++ visitedIds gs) ∧ env'.running = some (R ++ runningIds gs) ∧ env'.inp = env.inp) := by
  induction ts with
  | nil =>
    intro env V R hv hr
    right
    exact ⟨[], rfl, env, by simp [loopAux], by simp [hv, visitedIds], by simp [hr, runningIds], rfl⟩
  | cons t rest ih =>
    intro env V R hv hr
    rcases trial_step mine env t V R hv hr with ⟨hn, env', h1⟩ | ⟨g, hg, env', h1, h2, h3, h4⟩
    · left
      exact ⟨by simp [viewAll, hn], env', by simp only [List.map_cons]; exact loopAux_cons_raised _ _ _ _ _ _ h1⟩
    · rcases ih env' _ _ h2 h3 with ⟨hn, env2, h5⟩ | ⟨gs, hgs, env2, h5, h6, h7, h8⟩
      · left
        refine ⟨by simp [viewAll, hg, hn], env2, ?_⟩
        simp only [List.map_cons]
        rw [loopAux_cons_next _ _ _ _ _ h1]; exact h5
      · right
        refine ⟨g :: gs, by simp [viewAll, hg, hgs], env2, ?_, ?_, ?_, by rw [h8, h4]⟩
        · simp only [List.map_cons]
          rw [loopAux_cons_next _ _ _ _ _ h1]; exact h5
        · rw [h6, visitedIds_cons g gs]
          have : visitedIds [g] = (if g.state = .finished then g.gridId.toList else []) := by
            rw [visitedIds_cons]; simp [visitedIds]
          rw [this, List.append_assoc]
        · rw [h7, runningIds_cons g gs]
          have : runningIds [g] = (if g.state = .running then g.gridId.toList else []) := by
            rw [runningIds_cons]; simp [runningIds]
          rw [this, List.append_assoc]

/-- `_get_unvisited_grid_ids` as generated is the hand model's (`KeyError` exactly when some trial has a grid id
and no search space), for every study content -/
theorem interp_getUnvisitedGridIds (mine : Space) (n : Nat) (study : List RTrial) :
    interpUnvisited GridMethods.gridProg mine n study = liftErr .keyError (unvisitedR mine n study) := by
  rw [interpUnvisited]
  have hP : GridMethods.gridProg.getUnvisitedGridIds = GridMethods.getUnvisitedGridIds := rfl
  have hV : GridMethods.gridProg.gridValueEqual = GridMethods.gridValueEqual := rfl
  have hS : GridMethods.gridProg.sameSearchSpace = GridMethods.sameSearchSpace := rfl
  rw [hP, hV, hS, getUnvisited_shape]
  have hl := trials_loop mine study
    { GEnv.ofIn (GIn.init mine n study) with visited := some [], running := some [], trials := some study } [] [] rfl rfl
  simp only [block, exec, andThen, gridSem_cond, gridSem_act, gridSem_iter, gridSem_retv, doGAct, iterG, GEnv.ofIn, GIn.init]
  simp only [GEnv.ofIn, ssCalls, GIn.init] at hl
  rcases hl with ⟨hn, env', h1⟩ | ⟨gs, hgs, env', h1, h2, h3, h4⟩
  · rw [h1]
    simp [unvisitedR, hn, liftErr, finishIds]
  · rw [h1]
    simp only [List.nil_append] at h2 h3
    have hn : env'.inp.nMin = n := by rw [h4]
    simp only [unvisitedR, hgs, Option.map_some, liftErr, Grid.unvisited, unvisitedOf, evalSetSrc, mapE, h2, h3, hn,
      evalGCond, retG, List.all_cons, List.all_nil, Bool.and_true]
    generalize ((List.range n).filter (fun g => !(visitedIds gs).contains g && !(runningIds gs).contains g)) = u
    cases u with
    | nil => simp [finishIds]
    | cons a l => simp [finishIds]

/-- `before_trial` as generated is the hand model's: the same early returns, the same choice of the target cells,
and the two attribute writes IN THE SAME ORDER (`search_space` first) -/
theorem interp_beforeTrial (mine : Space) (n : Nat) (study : List RTrial) (cur : RTrial) (number proposal : Nat) :
    interpBeforeTrial GridMethods.gridProg mine n study cur number proposal =
      liftErr .keyError (beforeTrialR mine n study cur number proposal) := by
  have hP : GridMethods.gridProg.beforeTrial = GridMethods.beforeTrial := rfl
  have hu := interp_getUnvisitedGridIds mine n study
  simp only [interpBeforeTrial, hP, GridMethods.beforeTrial, block, exec, andThen, gridSem_cond, gridSem_act, gridSem_retv,
    evalGCond, doGAct, retG, GEnv.ofIn, GIn.init, hu, beforeTrialR]
  cases hg : cur.gridId.isSome <;> cases hf : cur.fixed <;> simp [finishWrites, liftErr]
  by_cases hlt : number < n
  · simp [hlt, finishWrites, liftErr]
  · simp only [hlt, decide_false, if_false]
    cases hU : unvisitedR mine n study with
    | none => simp [liftErr, finishWrites]
    | some target =>
      cases target with
      | nil => simp [liftErr, finishWrites]
      | cons a l => simp [liftErr, finishWrites]

/-- `after_trial` as generated is the hand model's stop rule -/
theorem interp_gridAfterTrial (mine : Space) (n : Nat) (study : List RTrial) (curStored : Option Nat) :
    interpGridAfterTrial GridMethods.gridProg mine n study curStored =
      liftErr .keyError (afterTrialR mine n study curStored) := by
  have hP : GridMethods.gridProg.afterTrial = GridMethods.afterTrial := rfl
  have hu := interp_getUnvisitedGridIds mine n study
  simp only [interpGridAfterTrial, hP, GridMethods.afterTrial, block, exec, andThen, gridSem_cond, gridSem_act, gridSem_retv,
    evalGCond, doGAct, retG, GEnv.ofIn, GIn.init, hu, afterTrialR]
  cases hU : unvisitedR mine n study with
  | none => simp [liftErr, finishStopG]
  | some target =>
    cases target with
    | nil => simp [liftErr, finishStopG]
    | cons t0 rest =>
      cases rest with
      | nil =>
        cases curStored with
        | none => simp [liftErr, finishStopG]
        | some v => cases hb : (v == t0) <;> simp [liftErr, finishStopG, hb]
      | cons t1 rest' => simp [liftErr, finishStopG]

theorem writes_safe (g : Nat) : writesPrefixSafe [.searchSpace, .gridId g] = true := rfl

/-- **gen_before_writes_safe** (the order of the two attribute writes): whenever the generated `before_trial`
writes, every prefix of its write sequence — every point at which the worker process can die — leaves the trial
in a state `_get_unvisited_grid_ids` can read (a grid id never without its search space). -/
theorem gen_before_writes_safe (mine : Space) (n : Nat) (study : List RTrial) (cur : RTrial) (number proposal : Nat)
    (ws : List Write) (used : Bool)
    (h : interpBeforeTrial GridMethods.gridProg mine n study cur number proposal = .ok (ws, used)) :
    writesPrefixSafe ws = true := by
  rw [interp_beforeTrial] at h
  simp only [beforeTrialR] at h
  split at h
  · simp only [liftErr, Except.ok.injEq, Prod.mk.injEq] at h; rw [← h.1]; decide
  · split at h
    · simp only [liftErr, Except.ok.injEq, Prod.mk.injEq] at h; rw [← h.1]; exact writes_safe _
    · split at h
      · simp [liftErr] at h
      · simp only [liftErr, Except.ok.injEq, Prod.mk.injEq] at h; rw [← h.1]; exact writes_safe _
/-- the other order is not safe: a trial killed between the writes has a grid id and no search space, and every
later `_get_unvisited_grid_ids` raises `KeyError('search_space')` (seeded change C14-4) -/
example : writesPrefixSafe [.gridId 3, .searchSpace] = false ∧
    unvisitedR [("a", [.int 1])] 4 [⟨some 3, none, false, .running⟩] = none := by decide

/-! ## the optimize loop over the generated grid hooks -/

theorem gridValueEqual_refl (a : GVal) : Grid.gridValueEqual a a = true := by
  cases a <;> simp [Grid.gridValueEqual, GVal.pyEq, GVal.num?, GVal.isNaN]

theorem valuesEqual_refl (vs : List GVal) : valuesEqual vs vs = true := by
  induction vs with
  | nil => rfl
  | cons a vs ih => simp [valuesEqual, gridValueEqual_refl, ih]

theorem sameKeySets_refl (l : List String) : sameKeySets l l = true := by
  simp [sameKeySets]

/-- **sameSearchSpace_refl**: the sampler recognises its own search space — also when it contains NaN
(with `_grid_value_equal` by identity, seeded change C09-4, it would not after a storage round trip) -/
theorem sameSearchSpace_refl (mine : Space) : Grid.sameSearchSpace mine mine = true := by
  simp only [Grid.sameSearchSpace, sameKeySets_refl, Bool.true_and, List.all_eq_true]
  intro kv hkv
  obtain ⟨vs, hvs⟩ := get?_isSome_of_mem mine kv.1 (List.mem_map_of_mem hkv)
  simp [entryEqual, hvs, valuesEqual_refl]
example : Grid.sameSearchSpace [("a", [.nan 0, .inf true]), ("b", [.str "x"])]
    [("b", [.str "x"]), ("a", [.nan 7, .inf true])] = true := by decide

theorem view_store (mine : Space) (t : GTrial) : (t.store mine).view mine = some t := by
  obtain ⟨gid, st⟩ := t
  cases gid <;> simp [GTrial.store, RTrial.view, sameSearchSpace_refl]

theorem viewAll_store (mine : Space) (ts : List GTrial) : viewAll mine (ts.map (GTrial.store mine)) = some ts := by
  induction ts with
  | nil => rfl
  | cons t rest ih => simp [viewAll, view_store, ih]

theorem unvisitedR_store (mine : Space) (n : Nat) (ts : List GTrial) :
    unvisitedR mine n (ts.map (GTrial.store mine)) = some (Grid.unvisited n ts) := by
  simp [unvisitedR, viewAll_store]

/-- **the grid hooks generated from the source are the hand model's hooks** on the stored form of every study -/
theorem genGImpl_eq (mine : Space) : genGImpl GridMethods.gridProg mine = handGImpl := by
  simp only [genGImpl, handGImpl]
  congr 1
  · funext n ts number proposal
    rw [interp_beforeTrial]
    simp only [beforeTrialR, unvisitedR_store, Grid.beforeTrial]
    by_cases hlt : number < n
    · simp [hlt, liftErr, writtenId]
    · simp [hlt, liftErr, writtenId]
  · funext n ts cur
    rw [interp_gridAfterTrial]
    simp only [afterTrialR, unvisitedR_store, Grid.afterTrial]
    by_cases h0 : (Grid.unvisited n ts).length = 0
    · simp [h0, liftErr]
    · by_cases h1 : (Grid.unvisited n ts).length = 1
      · cases cur <;> simp [h0, h1, liftErr]
      · simp [h0, h1, liftErr]

theorem grunTrialW_hand (cx : Grid.Ctx) (n : Nat) (st : Grid.St) :
    grunTrialW handGImpl cx n st = Grid.runTrial cx n st := by
  simp only [grunTrialW, Grid.runTrial, handGImpl]
  cases firstWaiting st.trials <;> rfl

theorem goptimizeLoopW_hand (cx : Grid.Ctx) (n : Nat) (k : Nat) :
    ∀ (st : Grid.St), goptimizeLoopW handGImpl cx n k st = Grid.optimizeLoop cx n k st := by
  induction k with
  | zero => intro st; rfl
  | succ k ih => intro st; simp only [goptimizeLoopW, Grid.optimizeLoop, grunTrialW_hand, ih]

theorem gsessionW_hand (cx : Grid.Ctx) (n : Nat) (ks : List Nat) (st : Grid.St) :
    gsessionW handGImpl cx n ks st = Grid.session cx n ks st := by
  simp only [gsessionW, Grid.session, goptimizeW, Grid.optimize, goptimizeLoopW_hand]

/-- the optimize loop driven by the interpreter of the GENERATED `before_trial` / `after_trial` (which call the
generated `_get_unvisited_grid_ids`, `_same_search_space`, `_grid_value_equal`) of a sampler with search space `mine` -/
def genGridSession (mine : Space) (cx : Grid.Ctx) (n : Nat) (ks : List Nat) (st : Grid.St) : Grid.St :=
  gsessionW (genGImpl GridMethods.gridProg mine) cx n ks st

theorem genGridSession_eq (mine : Space) (cx : Grid.Ctx) (n : Nat) (ks : List Nat) (st : Grid.St) :
    genGridSession mine cx n ks st = Grid.session cx n ks st := by
  rw [genGridSession, genGImpl_eq, gsessionW_hand]

/-- `__init__` sets `_n_min_trials = len(_all_grids)` (the loops above use one `n` for both) -/
theorem nMin_is_len_all_grids : GridMethods.gridProg.nMinIsLenAllGrids = true := rfl

/-- `__init__` shuffles the cells with `LazyRandomState(seed or 0)`: a run resumed with a NEW sampler object (same
arguments, `seed=None` included) reads the stored grid ids as the same cells (seeded change C14-2 drops the `or 0`) -/
theorem grid_ids_stable_across_sampler_objects : GridMethods.gridProg.shuffleSeedFixed = true := rfl

/-- **gen_grid_exhaustive**: with the grid methods as written in the source today — any search space (NaN and
infinities included), any grid size, RNG, raise pattern, split and admissible initial content — no cell is
finished twice, every finished cell is a cell of the grid, and the stop flag is set exactly when every cell has
been finished. -/
theorem gen_grid_exhaustive (mine : Space) (n : Nat) (cx : Grid.Ctx) (pre : List GTrial) (h : C14.GridSetting n pre)
    (ks : List Nat) :
    (visitedIds (genGridSession mine cx n ks (C14.ginit pre)).trials).Nodup ∧
    (∀ g ∈ visitedIds (genGridSession mine cx n ks (C14.ginit pre)).trials, g < n) ∧
    ((genGridSession mine cx n ks (C14.ginit pre)).stop = true ↔
      ∀ g, g < n → g ∈ visitedIds (genGridSession mine cx n ks (C14.ginit pre)).trials) := by
  rw [genGridSession_eq]; exact C14.grid_exhaustive n cx pre h ks

/-- **gen_grid_stops_by_itself**: it works off the queue, then the free cells, and ends with the stop flag, an
empty queue and exactly one new trial per free cell. -/
theorem gen_grid_stops_by_itself (mine : Space) (n : Nat) (cx : Grid.Ctx) (pre : List GTrial)
    (h : C14.GridSetting n pre) (hnr : ∀ i, cx.raises i = false) (ks : List Nat) :
    nDone (genGridSession mine cx n ks (C14.ginit pre)).trials =
      nDone pre + min ks.sum (nWaiting pre + remainingG n (visitedIds pre)) ∧
    (nWaiting pre + remainingG n (visitedIds pre) ≤ ks.sum →
      (genGridSession mine cx n ks (C14.ginit pre)).stop = true ∧
      nWaiting (genGridSession mine cx n ks (C14.ginit pre)).trials = 0 ∧
      (genGridSession mine cx n ks (C14.ginit pre)).trials.length = pre.length + remainingG n (visitedIds pre)) := by
  rw [genGridSession_eq]; exact C14.grid_stops_by_itself n cx pre h hnr ks

/-- non-vacuity: the interpreter of the generated grid methods on a grid with a NaN value: a finished cell 0
stored by another process (its NaN is another object), a stale RUNNING cell 1, an enqueued trial; cell 2 is free -/
example : toOpt (interpUnvisited GridMethods.gridProg [("a", [.nan 0, .int 1, .int 2])] 3
      [⟨some 0, some [("a", [.nan 9, .float 1, .int 2])], false, .finished⟩,
       ⟨some 1, some [("a", [.nan 0, .int 1, .int 2])], false, .running⟩, ⟨none, none, true, .waiting⟩]) = some [2] ∧
    toOpt (interpBeforeTrial GridMethods.gridProg [("a", [.nan 0, .int 1, .int 2])] 3
      [⟨some 0, some [("a", [.nan 9, .float 1, .int 2])], false, .finished⟩,
       ⟨some 1, some [("a", [.nan 0, .int 1, .int 2])], false, .running⟩, ⟨none, none, true, .waiting⟩]
      ⟨none, none, false, .running⟩ 3 0) = some ([.searchSpace, .gridId 2], true) ∧
    toOpt (interpGridAfterTrial GridMethods.gridProg [("a", [.nan 0, .int 1, .int 2])] 3
      [⟨some 0, some [("a", [.nan 9, .float 1, .int 2])], false, .finished⟩,
       ⟨some 2, some [("a", [.nan 0, .int 1, .int 2])], false, .finished⟩,
       ⟨some 1, some [("a", [.nan 0, .int 1, .int 2])], false, .running⟩] (some 1)) = some true := by decide
example : (genGridSession [("a", [.nan 0, .int 1])] ⟨fun c => c, fun i => i == 1⟩ 2 [1, 1, 10] (C14.ginit [])).stop = true := by
  rw [genGridSession_eq]; decide

end grid

end OptunaVerif.C14Gen
