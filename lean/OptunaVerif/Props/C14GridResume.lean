import OptunaVerif.Props.C14
import OptunaVerif.Props.C14Gen
/-!
# C14 — the grid sampler with failures, killed workers and resumptions

`grid_stops_by_itself` (Props/C14.lean) assumes that no trial raises out of `optimize`.  This file is the grid counterpart of
`bruteforce_stops_after_resumptions`: the run is split into any number of `optimize` calls, a trial may end with an exception
that leaves `optimize` (`raises`), and a worker may be KILLED while the objective runs (`killed`: the trial stays RUNNING with
the `grid_id` that `before_trial` wrote, `after_trial` never runs, the `optimize` call ends).

What `_get_unvisited_grid_ids` reads is `t.state.is_finished()` — COMPLETE, PRUNED and FAIL are the same to it (the model's
`TS.finished`): which of the three outcomes a trial has is not even an input of the model.  So the guarantee of today's code is

* a cell is FINISHED at most once, whatever the outcomes — in particular a FAILED (or pruned) grid point is never retried;
* a cell whose worker was killed is started again (once all cells have been started), so it can have several RUNNING
  corpses, but still at most one finished trial;
* the stop flag is set exactly when every cell has a finished trial;
* every `optimize` call with a positive budget on a study that has not stopped either finishes a trial or loses its first
  trial to a kill, so after at most `queued + free cells + number of kills` resumptions the stop flag is set.

NOT guaranteed (and false, `grid_rerun_after_exhaustion_duplicates`): calling `optimize` again on a study whose grid is already
exhausted evaluates one duplicate point (the source warns "re-evaluating a configuration because the grid has been exhausted").
`session` / `sessionK` model a user who stops resuming once a call ended with the stop flag set.
-/
set_option linter.unusedSimpArgs false
set_option linter.unusedVariables false
namespace OptunaVerif.C14
open OptunaVerif OptunaVerif.Grid OptunaVerif.SamplerIR

/-- RNG proposals, exceptions leaving `optimize`, and workers killed while the objective of trial number `i` runs -/
structure KCtx where
  ω : Nat → Nat
  raises : Nat → Bool
  killed : Nat → Bool

def KCtx.base (cx : KCtx) : Grid.Ctx := ⟨cx.ω, cx.raises⟩

/-- `_run_trial` with kills, over any implementation `S` of the two hooks.  A killed queued trial was popped (RUNNING) and stays
so; a killed fresh trial was created, `before_trial` wrote its `grid_id`, and it stays RUNNING.  `true` = the call ends. -/
def runTrialKW (S : GImpl) (cx : KCtx) (n : Nat) (st : Grid.St) : Grid.St × Bool :=
  match firstWaiting st.trials with
  | some i =>
    if cx.killed i then ({ st with trials := setState st.trials i .running }, true)
    else grunTrialW S cx.base n st
  | none =>
    if cx.killed st.trials.length then
      let b := S.before n st.trials st.trials.length (cx.ω st.calls)
      ({ trials := st.trials ++ [⟨some b.1, .running⟩], stop := st.stop, calls := if b.2 then st.calls + 1 else st.calls }, true)
    else grunTrialW S cx.base n st

def optimizeLoopKW (S : GImpl) (cx : KCtx) (n : Nat) : Nat → Grid.St → Grid.St
  | 0, st => st
  | k + 1, st =>
    if st.stop then st
    else
      let r := runTrialKW S cx n st
      if r.2 then r.1 else optimizeLoopKW S cx n k r.1

def optimizeKW (S : GImpl) (cx : KCtx) (n : Nat) (k : Nat) (st : Grid.St) : Grid.St :=
  optimizeLoopKW S cx n k { st with stop := false }

def sessionKW (S : GImpl) (cx : KCtx) (n : Nat) (ks : List Nat) (st : Grid.St) : Grid.St :=
  ks.foldl (fun st k => if st.stop then st else optimizeKW S cx n k st) st

/-- the hand model's hooks -/
def runTrialK := runTrialKW handGImpl
def optimizeLoopK := optimizeLoopKW handGImpl
def sessionK := sessionKW handGImpl

/-! ## one step -/

theorem runTrialK_alive (cx : KCtx) (n : Nat) (st : Grid.St)
    (h : ∀ i, firstWaiting st.trials = some i → cx.killed i = false)
    (h' : firstWaiting st.trials = none → cx.killed st.trials.length = false) :
    runTrialK cx n st = Grid.runTrial cx.base n st := by
  simp only [runTrialK, runTrialKW]
  cases hfw : firstWaiting st.trials with
  | some i => simp [h i hfw, grunTrialW_hand']
  | none => simp [h' hfw, grunTrialW_hand']
where grunTrialW_hand' : ∀ (cx : Grid.Ctx) (n : Nat) (st : Grid.St), grunTrialW handGImpl cx n st = Grid.runTrial cx n st :=
  C14Gen.grunTrialW_hand

theorem nWaiting_setState_running (ts : List GTrial) : ∀ (i : Nat) (t : GTrial), ts[i]? = some t →
    t.state = .waiting → nWaiting (setState ts i .running) + 1 = nWaiting ts := by
  induction ts with
  | nil => intro i t h; simp at h
  | cons a ts ih =>
    intro i t h hw
    cases i with
    | zero =>
      simp only [List.getElem?_cons_zero, Option.some.injEq] at h
      subst h
      simp only [setState, updAt]
      rw [nWaiting_cons, nWaiting_cons]
      simp [hw]
      omega
    | succ i =>
      have := ih i t (by simpa using h) hw
      simp only [setState, updAt] at this ⊢
      rw [nWaiting_cons, nWaiting_cons]
      omega

/-- a worker killed on a queued trial: the invariant holds, the queue is one shorter -/
theorem kill_queued_ginv (n : Nat) (st : Grid.St) (hinv : GInv n st) (i : Nat) (hfw : firstWaiting st.trials = some i) :
    GInv n { st with trials := setState st.trials i .running } ∧
    todo n { st with trials := setState st.trials i .running } + 1 = todo n st := by
  obtain ⟨t, hti, htw⟩ := firstWaiting_spec _ _ hfw
  have hnoid : t.gridId = none := hinv.waitingNoId t (List.mem_of_getElem? hti) htw
  have hnone : ∀ t', st.trials[i]? = some t' → t'.gridId = none := by
    intro t' ht'; rw [hti] at ht'; simp only [Option.some.injEq] at ht'; subst ht'; exact hnoid
  have hv : visitedIds (setState st.trials i .running) = visitedIds st.trials := visitedIds_setState _ _ _ hnone
  refine ⟨⟨?_, ?_, ?_, ?_⟩, ?_⟩
  · intro j t' g hj hg
    simp only at hj
    rw [setState_getElem?] at hj
    split at hj
    · simp only [Option.map_eq_some_iff] at hj
      obtain ⟨t0, ht0, rfl⟩ := hj
      exact hinv.idx j t0 g ht0 hg
    · exact hinv.idx j t' g hj hg
  · simp only; rw [hv]; exact hinv.nodup
  · intro t' ht' hw
    obtain ⟨t0, ht0, hg, hs⟩ := mem_setState _ _ _ _ ht'
    rcases hs with hs | hs
    · rw [← hg]; exact hinv.waitingNoId t0 ht0 (by rw [← hs]; exact hw)
    · rw [hs] at hw; cases hw
  · simp only; rw [hv]; exact hinv.stop
  · simp only [todo]; rw [hv]
    have := nWaiting_setState_running st.trials i t hti htw
    omega

/-- a worker killed on a fresh trial: the invariant holds, nothing else changes but one more RUNNING trial -/
theorem kill_fresh_ginv (cx : KCtx) (n : Nat) (st : Grid.St) (hinv : GInv n st) (hns : st.stop = false) (c : Nat) :
    GInv n { trials := st.trials ++ [⟨some (beforeTrial n st.trials st.trials.length (cx.ω st.calls)).1, .running⟩],
             stop := st.stop, calls := c } ∧
    todo n { trials := st.trials ++ [⟨some (beforeTrial n st.trials st.trials.length (cx.ω st.calls)).1, .running⟩],
             stop := st.stop, calls := c } = todo n st := by
  obtain ⟨hlt, hnv, hpos⟩ := beforeTrial_free n st hinv hns (cx.ω st.calls)
  refine ⟨⟨?_, ?_, ?_, ?_⟩, ?_⟩
  · intro j t' g hj hg
    simp only at hj
    by_cases hjl : j < st.trials.length
    · rw [List.getElem?_append_left hjl] at hj
      exact hinv.idx j t' g hj hg
    · by_cases hje : j = st.trials.length
      · subst hje
        simp only [List.getElem?_append_right (Nat.le_refl _), Nat.sub_self, List.getElem?_cons_zero,
          Option.some.injEq] at hj
        subst hj
        simp only [Option.some.injEq] at hg
        subst hg
        exact ⟨hlt, hpos⟩
      · have : st.trials.length + 1 ≤ j := by omega
        rw [List.getElem?_eq_none (by simp; omega)] at hj
        cases hj
  · simp only; rw [visitedIds_snoc_running]; exact hinv.nodup
  · intro t' ht' hw
    simp only [List.mem_append, List.mem_singleton] at ht'
    rcases ht' with ht' | rfl
    · exact hinv.waitingNoId t' ht' hw
    · cases hw
  · simp only; rw [visitedIds_snoc_running]; exact hinv.stop
  · simp only [todo]; rw [visitedIds_snoc_running]
    simp [nWaiting, List.filter_append]

/-! ## the measure: things to do + kills still to come -/

/-- trial number `i` has not been started yet (it does not exist, or it is still WAITING) -/
def pend (ts : List GTrial) (i : Nat) : Bool :=
  match ts[i]? with
  | none => true
  | some t => decide (t.state = .waiting)

def mu (n : Nat) (Ks : List Nat) (st : Grid.St) : Nat := todo n st + (Ks.filter (pend st.trials)).length

theorem filter_length_le_of_imp {α : Type} (p q : α → Bool) (l : List α) (h : ∀ x ∈ l, q x = true → p x = true) :
    (l.filter q).length ≤ (l.filter p).length := by
  induction l with
  | nil => simp
  | cons a l ih =>
    have ih' := ih (fun x hx => h x (List.mem_cons_of_mem _ hx))
    simp only [List.filter_cons]
    cases hq : q a with
    | false => cases hp : p a <;> simp <;> omega
    | true => simp [h a (by simp) hq]; omega

theorem filter_length_lt_of_imp {α : Type} (p q : α → Bool) (l : List α) (h : ∀ x ∈ l, q x = true → p x = true)
    (x0 : α) (hx0 : x0 ∈ l) (hp0 : p x0 = true) (hq0 : q x0 = false) :
    (l.filter q).length + 1 ≤ (l.filter p).length := by
  induction l with
  | nil => cases hx0
  | cons a l ih =>
    have hle := filter_length_le_of_imp p q l (fun x hx => h x (List.mem_cons_of_mem _ hx))
    simp only [List.filter_cons]
    rcases List.mem_cons.1 hx0 with rfl | hmem
    · simp [hp0, hq0]; omega
    · have ih' := ih (fun x hx => h x (List.mem_cons_of_mem _ hx)) hmem
      cases hq : q a with
      | false => cases hp : p a <;> simp <;> omega
      | true => simp [h a (by simp) hq]; omega

theorem pend_setState (ts : List GTrial) (i : Nat) (s : TS) (hs : s ≠ .waiting) (j : Nat)
    (h : pend (setState ts i s) j = true) : pend ts j = true := by
  simp only [pend, setState_getElem?] at h ⊢
  by_cases hji : j = i
  · subst hji
    cases hg : ts[j]? with
    | none => rfl
    | some t => simp [hg, hs] at h
  · simpa [hji] using h

theorem pend_snoc (ts : List GTrial) (x : GTrial) (hs : x.state ≠ .waiting) (j : Nat)
    (h : pend (ts ++ [x]) j = true) : pend ts j = true := by
  simp only [pend] at h ⊢
  by_cases hjl : j < ts.length
  · rw [List.getElem?_append_left hjl] at h; exact h
  · rw [List.getElem?_eq_none (by omega)]

theorem pend_snoc_self (ts : List GTrial) (x : GTrial) (hs : x.state ≠ .waiting) :
    pend ts ts.length = true ∧ pend (ts ++ [x]) ts.length = false := by
  simp [pend, hs]

/-- one `_run_trial` (killed or not) from a state that has not stopped keeps the invariant and lowers the measure -/
theorem runTrialK_step (cx : KCtx) (n : Nat) (Ks : List Nat) (hK : ∀ i, cx.killed i = true → i ∈ Ks)
    (st : Grid.St) (hinv : GInv n st) (hns : st.stop = false) :
    GInv n (runTrialK cx n st).1 ∧ mu n Ks (runTrialK cx n st).1 + 1 ≤ mu n Ks st := by
  have hrem : 0 < remainingG n (visitedIds st.trials) := by
    rcases Nat.eq_zero_or_pos (remainingG n (visitedIds st.trials)) with h | h
    · have := hinv.stop.mpr h; rw [hns] at this; simp at this
    · exact h
  have h3 : GInv3 n (st.trials.length + remainingG n (visitedIds st.trials)) st :=
    ⟨hinv, rfl, fun h0 => by omega⟩
  -- the step of a worker that is not killed
  have alive : runTrialK cx n st = Grid.runTrial cx.base n st →
      GInv n (runTrialK cx n st).1 ∧ mu n Ks (runTrialK cx n st).1 + 1 ≤ mu n Ks st := by
    intro he
    rw [he]
    obtain ⟨hinv', htodo, _, _⟩ := runTrial_ginv3 cx.base n _ st h3 hns
    refine ⟨hinv'.toGInv, ?_⟩
    have hmono : ∀ j, pend (Grid.runTrial cx.base n st).1.trials j = true → pend st.trials j = true := by
      intro j
      cases hfw : firstWaiting st.trials with
      | some i =>
        obtain ⟨t, hti, htw⟩ := firstWaiting_spec _ _ hfw
        have hnoid : t.gridId = none := hinv.waitingNoId t (List.mem_of_getElem? hti) htw
        have hcur : (st.trials[i]?).bind (·.gridId) = none := by simp [hti, hnoid]
        rw [(runTrial_waiting_eq cx.base n st i hfw hcur).1]
        exact pend_setState _ _ _ (by simp) j
      | none =>
        rw [(runTrial_fresh_eq cx.base n st hfw).1]
        exact pend_snoc _ _ (by simp) j
    have := filter_length_le_of_imp (pend st.trials) (pend (Grid.runTrial cx.base n st).1.trials) Ks (fun x _ => hmono x)
    simp only [mu]
    omega
  cases hfw : firstWaiting st.trials with
  | some i =>
    cases hk : cx.killed i with
    | false =>
      exact alive (runTrialK_alive cx n st (fun i' hi' => by rw [hfw] at hi'; cases hi'; exact hk)
        (fun h => by rw [hfw] at h; cases h))
    | true =>
      have he : runTrialK cx n st = ({ st with trials := setState st.trials i .running }, true) := by
        simp [runTrialK, runTrialKW, hfw, hk]
      rw [he]
      obtain ⟨hg, ht⟩ := kill_queued_ginv n st hinv i hfw
      refine ⟨hg, ?_⟩
      have := filter_length_le_of_imp (pend st.trials) (pend (setState st.trials i .running)) Ks
        (fun x _ => pend_setState _ _ _ (by simp) x)
      simp only [mu] at this ⊢
      omega
  | none =>
    cases hk : cx.killed st.trials.length with
    | false =>
      exact alive (runTrialK_alive cx n st (fun i' hi' => by rw [hfw] at hi'; cases hi') (fun _ => hk))
    | true =>
      have he : runTrialK cx n st =
          ({ trials := st.trials ++ [⟨some (beforeTrial n st.trials st.trials.length (cx.ω st.calls)).1, .running⟩],
             stop := st.stop,
             calls := if (beforeTrial n st.trials st.trials.length (cx.ω st.calls)).2 then st.calls + 1 else st.calls }, true) := by
        simp only [runTrialK, runTrialKW, hfw, hk, handGImpl, if_true]
        rfl
      rw [he]
      obtain ⟨hg, ht⟩ := kill_fresh_ginv cx n st hinv hns
        (if (beforeTrial n st.trials st.trials.length (cx.ω st.calls)).2 then st.calls + 1 else st.calls)
      refine ⟨hg, ?_⟩
      obtain ⟨hp1, hp2⟩ := pend_snoc_self st.trials
        ⟨some (beforeTrial n st.trials st.trials.length (cx.ω st.calls)).1, .running⟩ (by simp)
      have := filter_length_lt_of_imp (pend st.trials)
        (pend (st.trials ++ [⟨some (beforeTrial n st.trials st.trials.length (cx.ω st.calls)).1, .running⟩])) Ks
        (fun x _ => pend_snoc _ _ (by simp) x) st.trials.length (hK _ hk) hp1 hp2
      simp only [mu] at this ⊢
      omega

/-! ## the loop, one call, several calls -/

theorem optimizeLoopK_unfold (cx : KCtx) (n k : Nat) (st : Grid.St) (hs : st.stop = false) :
    optimizeLoopK cx n (k + 1) st =
      if (runTrialK cx n st).2 then (runTrialK cx n st).1 else optimizeLoopK cx n k (runTrialK cx n st).1 := by
  simp only [optimizeLoopK, optimizeLoopKW, runTrialK, hs, Bool.false_eq_true, if_false]
  rfl

theorem optimizeLoopK_stopped (cx : KCtx) (n k : Nat) (st : Grid.St) (hs : st.stop = true) :
    optimizeLoopK cx n k st = st := by
  cases k <;> simp [optimizeLoopK, optimizeLoopKW, hs]

theorem optimizeLoopK_step (cx : KCtx) (n : Nat) (Ks : List Nat) (hK : ∀ i, cx.killed i = true → i ∈ Ks) (k : Nat) :
    ∀ (st : Grid.St), GInv n st →
      mu n Ks (optimizeLoopK cx n k st) ≤ mu n Ks st ∧
      (1 ≤ k → st.stop = false → mu n Ks (optimizeLoopK cx n k st) + 1 ≤ mu n Ks st) := by
  induction k with
  | zero => intro st h; exact ⟨Nat.le_refl _, fun h1 => by omega⟩
  | succ k ih =>
    intro st h
    cases hs : st.stop with
    | true => rw [optimizeLoopK_stopped cx n _ st hs]; exact ⟨Nat.le_refl _, fun _ hf => by cases hf⟩
    | false =>
      obtain ⟨hinv', hmu⟩ := runTrialK_step cx n Ks hK st h hs
      rw [optimizeLoopK_unfold cx n k st hs]
      cases hr : (runTrialK cx n st).2 with
      | true => simp only [if_true]; exact ⟨by omega, fun _ _ => hmu⟩
      | false =>
        simp only [Bool.false_eq_true, if_false]
        obtain ⟨h2, _⟩ := ih _ hinv'
        exact ⟨by omega, fun _ _ => by omega⟩

theorem sessionK_cons (cx : KCtx) (n k : Nat) (ks : List Nat) (st : Grid.St) :
    sessionK cx n (k :: ks) st = sessionK cx n ks (if st.stop then st else optimizeKW handGImpl cx n k st) := rfl

theorem optimizeK_of_not_stop (cx : KCtx) (n k : Nat) (st : Grid.St) (h : st.stop = false) :
    optimizeKW handGImpl cx n k st = optimizeLoopK cx n k st := by
  simp only [optimizeKW, optimizeLoopK]
  rw [reset_stop st h]

theorem sessionK_of_stop (cx : KCtx) (n : Nat) (ks : List Nat) (st : Grid.St) (h : st.stop = true) :
    sessionK cx n ks st = st := by
  induction ks with
  | nil => rfl
  | cons k ks ih => rw [sessionK_cons]; simp [h, ih]

/-- the invariant alone (no bound on the kills needed) -/
theorem runTrialK_ginv (cx : KCtx) (n : Nat) (st : Grid.St) (hinv : GInv n st) (hns : st.stop = false) :
    GInv n (runTrialK cx n st).1 := by
  cases hfw : firstWaiting st.trials with
  | some i =>
    cases hk : cx.killed i with
    | false =>
      rw [runTrialK_alive cx n st (fun i' hi' => by rw [hfw] at hi'; cases hi'; exact hk) (fun h => by rw [hfw] at h; cases h)]
      exact runTrial_ginv cx.base n st hinv hns
    | true =>
      have he : runTrialK cx n st = ({ st with trials := setState st.trials i .running }, true) := by
        simp [runTrialK, runTrialKW, hfw, hk]
      rw [he]
      exact (kill_queued_ginv n st hinv i hfw).1
  | none =>
    cases hk : cx.killed st.trials.length with
    | false =>
      rw [runTrialK_alive cx n st (fun i' hi' => by rw [hfw] at hi'; cases hi') (fun _ => hk)]
      exact runTrial_ginv cx.base n st hinv hns
    | true =>
      have he : runTrialK cx n st =
          ({ trials := st.trials ++ [⟨some (beforeTrial n st.trials st.trials.length (cx.ω st.calls)).1, .running⟩],
             stop := st.stop,
             calls := if (beforeTrial n st.trials st.trials.length (cx.ω st.calls)).2 then st.calls + 1 else st.calls }, true) := by
        simp only [runTrialK, runTrialKW, hfw, hk, handGImpl, if_true]
        rfl
      rw [he]
      exact (kill_fresh_ginv cx n st hinv hns _).1

theorem optimizeLoopK_ginv (cx : KCtx) (n : Nat) (k : Nat) : ∀ (st : Grid.St), GInv n st → GInv n (optimizeLoopK cx n k st) := by
  induction k with
  | zero => intro st h; exact h
  | succ k ih =>
    intro st h
    cases hs : st.stop with
    | true => rw [optimizeLoopK_stopped cx n _ st hs]; exact h
    | false =>
      rw [optimizeLoopK_unfold cx n k st hs]
      have := runTrialK_ginv cx n st h hs
      split
      · exact this
      · exact ih _ this

theorem sessionK_ginv (cx : KCtx) (n : Nat) (ks : List Nat) : ∀ (st : Grid.St), GInv n st → GInv n (sessionK cx n ks st) := by
  induction ks with
  | nil => intro st h; exact h
  | cons k ks ih =>
    intro st h
    rw [sessionK_cons]
    cases hs : st.stop with
    | true => simpa using ih st h
    | false =>
      simp only [Bool.false_eq_true, if_false]
      rw [optimizeK_of_not_stop cx n k st hs]
      exact ih _ (optimizeLoopK_ginv cx n k st h)

/-! ## the property theorems -/

theorem count_eq_one_of_nodup_mem (l : List Nat) (g : Nat) (hnd : l.Nodup) (hm : g ∈ l) : l.count g = 1 := by
  induction l with
  | nil => cases hm
  | cons a l ih =>
    rw [List.nodup_cons] at hnd
    rw [List.count_cons]
    by_cases hag : a = g
    · subst hag
      have : l.count a = 0 := List.count_eq_zero.2 hnd.1
      simp [this]
    · have hml : g ∈ l := by
        rcases List.mem_cons.1 hm with h | h
        · exact absurd h.symm hag
        · exact h
      simp [hag, ih hnd.2 hml]

/-- **grid_exhaustive_with_failures.**  For every grid, every split `ks` of the run into `optimize` calls, every pattern of
trials whose exception leaves `optimize` (`raises`) and of workers killed mid-trial (`killed`: the trial is left RUNNING) — and
whatever the outcomes COMPLETE / PRUNED / FAIL of the finished trials, which the sampler cannot tell apart —
(1) no grid cell is ever FINISHED twice: a failed or pruned grid point is not retried, and a cell whose worker was killed gets
at most one finished trial besides its RUNNING corpses; (2) every finished cell is a cell of the grid; (3) the stop flag is
set exactly when every cell has been finished; (4) and then every cell has been finished exactly once. -/
theorem grid_exhaustive_with_failures (n : Nat) (cx : KCtx) (pre : List GTrial) (h : GridSetting n pre) (ks : List Nat) :
    (visitedIds (sessionK cx n ks (ginit pre)).trials).Nodup ∧
    (∀ g ∈ visitedIds (sessionK cx n ks (ginit pre)).trials, g < n) ∧
    ((sessionK cx n ks (ginit pre)).stop = true ↔ ∀ g, g < n → g ∈ visitedIds (sessionK cx n ks (ginit pre)).trials) ∧
    ((sessionK cx n ks (ginit pre)).stop = true →
      ∀ g, g < n → (visitedIds (sessionK cx n ks (ginit pre)).trials).count g = 1) := by
  have hinv := sessionK_ginv cx n ks (ginit pre) (gridSetting_ginv h)
  have hiff : (sessionK cx n ks (ginit pre)).stop = true ↔
      ∀ g, g < n → g ∈ visitedIds (sessionK cx n ks (ginit pre)).trials := by
    rw [hinv.stop, remainingG_zero_iff]
  refine ⟨hinv.nodup, ?_, hiff, ?_⟩
  · intro g hg
    obtain ⟨i, t, hi, hgid⟩ := mem_visitedIds _ _ hg
    exact (hinv.idx i t g hi hgid).1
  · intro hs g hg
    exact count_eq_one_of_nodup_mem _ g hinv.nodup (hiff.mp hs g hg)

/-- **grid_stops_after_resumptions.**  Every `optimize` call with a positive budget on a study that has not stopped either
brings a trial to a finished state or loses its first trial to a kill.  Hence: if at most the trial numbers in `Ks` are ever
killed, then after `queued trials + free cells + Ks.length` resumptions (each with budget ≥ 1, any number of exceptions leaving
`optimize` in between) the stop flag is set — every cell finished exactly once (`grid_exhaustive_with_failures`). -/
theorem grid_stops_after_resumptions (n : Nat) (cx : KCtx) (pre : List GTrial) (h : GridSetting n pre)
    (ks : List Nat) (hks : ∀ k ∈ ks, 1 ≤ k) (Ks : List Nat) (hK : ∀ i, cx.killed i = true → i ∈ Ks)
    (hlen : nWaiting pre + remainingG n (visitedIds pre) + Ks.length ≤ ks.length) :
    (sessionK cx n ks (ginit pre)).stop = true := by
  have prog : ∀ (ks : List Nat), (∀ k ∈ ks, 1 ≤ k) → ∀ (st : Grid.St), GInv n st →
      (sessionK cx n ks st).stop = true ∨ mu n Ks (sessionK cx n ks st) + ks.length ≤ mu n Ks st := by
    intro ks
    induction ks with
    | nil => intro _ st _; right; simp [sessionK, sessionKW]
    | cons k ks ih =>
      intro hks st hinv
      rw [sessionK_cons]
      cases hs : st.stop with
      | true => left; simp only [if_true]; rw [sessionK_of_stop cx n ks st hs]; exact hs
      | false =>
        simp only [Bool.false_eq_true, if_false]
        rw [optimizeK_of_not_stop cx n k st hs]
        have hk1 : 1 ≤ k := hks k (by simp)
        have hstep := (optimizeLoopK_step cx n Ks hK k st hinv).2 hk1 hs
        rcases ih (fun k' hk' => hks k' (List.mem_cons_of_mem _ hk')) _ (optimizeLoopK_ginv cx n k st hinv) with h1 | h1
        · left; exact h1
        · right; simp only [List.length_cons]; omega
  have hinv0 := gridSetting_ginv h
  rcases prog ks hks (ginit pre) hinv0 with h1 | h1
  · exact h1
  · have hinv := sessionK_ginv cx n ks (ginit pre) hinv0
    have hmu0 : mu n Ks (ginit pre) ≤ nWaiting pre + remainingG n (visitedIds pre) + Ks.length := by
      simp only [mu, todo, ginit]
      have := List.length_filter_le (pend pre) Ks
      omega
    have hle : todo n (sessionK cx n ks (ginit pre)) ≤ mu n Ks (sessionK cx n ks (ginit pre)) := by
      simp only [mu]; omega
    have hz : todo n (sessionK cx n ks (ginit pre)) = 0 := by omega
    simp only [todo] at hz
    exact hinv.stop.mpr (by omega)

/-! ### without kills: the existing `Grid.session` -/

theorem sessionK_noKill (ω : Nat → Nat) (raises : Nat → Bool) (n : Nat) (ks : List Nat) (st : Grid.St) :
    sessionK ⟨ω, raises, fun _ => false⟩ n ks st = Grid.session ⟨ω, raises⟩ n ks st := by
  have hrun : ∀ st, runTrialKW handGImpl ⟨ω, raises, fun _ => false⟩ n st = Grid.runTrial ⟨ω, raises⟩ n st := by
    intro st
    exact runTrialK_alive ⟨ω, raises, fun _ => false⟩ n st (fun _ _ => rfl) (fun _ => rfl)
  have hloop : ∀ k st, optimizeLoopKW handGImpl ⟨ω, raises, fun _ => false⟩ n k st = Grid.optimizeLoop ⟨ω, raises⟩ n k st := by
    intro k
    induction k with
    | zero => intro st; rfl
    | succ k ih => intro st; simp only [optimizeLoopKW, Grid.optimizeLoop, hrun, ih]
  simp only [sessionK, sessionKW, Grid.session, optimizeKW, Grid.optimize, hloop]

/-- the counterpart of `bruteforce_stops_after_resumptions` for the model `Grid.session` of Props/C14.lean (trials may raise out
of `optimize`, nobody is killed): after `queued trials + free cells` resumptions with a positive budget the stop flag is set -/
theorem grid_stops_after_resumptions_raising (n : Nat) (cx : Grid.Ctx) (pre : List GTrial) (h : GridSetting n pre)
    (ks : List Nat) (hks : ∀ k ∈ ks, 1 ≤ k) (hlen : nWaiting pre + remainingG n (visitedIds pre) ≤ ks.length) :
    (Grid.session cx n ks (ginit pre)).stop = true := by
  have := grid_stops_after_resumptions n ⟨cx.ω, cx.raises, fun _ => false⟩ pre h ks hks [] (fun i hi => by cases hi)
    (by simpa using hlen)
  rwa [sessionK_noKill] at this

/-! ### for the interpreter of the GENERATED grid methods -/

/-- the run with kills driven by the interpreter of the generated `before_trial` / `after_trial` -/
def genSessionK (mine : Space) (cx : KCtx) (n : Nat) (ks : List Nat) (st : Grid.St) : Grid.St :=
  sessionKW (genGImpl Generated.GridMethods.gridProg mine) cx n ks st

theorem genSessionK_eq (mine : Space) (cx : KCtx) (n : Nat) (ks : List Nat) (st : Grid.St) :
    genSessionK mine cx n ks st = sessionK cx n ks st := by
  rw [genSessionK, C14Gen.genGImpl_eq]; rfl

theorem gen_grid_exhaustive_with_failures (mine : Space) (n : Nat) (cx : KCtx) (pre : List GTrial) (h : GridSetting n pre)
    (ks : List Nat) :
    (visitedIds (genSessionK mine cx n ks (ginit pre)).trials).Nodup ∧
    (∀ g ∈ visitedIds (genSessionK mine cx n ks (ginit pre)).trials, g < n) ∧
    ((genSessionK mine cx n ks (ginit pre)).stop = true ↔
      ∀ g, g < n → g ∈ visitedIds (genSessionK mine cx n ks (ginit pre)).trials) ∧
    ((genSessionK mine cx n ks (ginit pre)).stop = true →
      ∀ g, g < n → (visitedIds (genSessionK mine cx n ks (ginit pre)).trials).count g = 1) := by
  rw [genSessionK_eq]; exact grid_exhaustive_with_failures n cx pre h ks

theorem gen_grid_stops_after_resumptions (mine : Space) (n : Nat) (cx : KCtx) (pre : List GTrial) (h : GridSetting n pre)
    (ks : List Nat) (hks : ∀ k ∈ ks, 1 ≤ k) (Ks : List Nat) (hK : ∀ i, cx.killed i = true → i ∈ Ks)
    (hlen : nWaiting pre + remainingG n (visitedIds pre) + Ks.length ≤ ks.length) :
    (genSessionK mine cx n ks (ginit pre)).stop = true := by
  rw [genSessionK_eq]; exact grid_stops_after_resumptions n cx pre h ks hks Ks hK hlen

theorem gen_grid_stops_after_resumptions_raising (mine : Space) (n : Nat) (cx : Grid.Ctx) (pre : List GTrial)
    (h : GridSetting n pre) (ks : List Nat) (hks : ∀ k ∈ ks, 1 ≤ k)
    (hlen : nWaiting pre + remainingG n (visitedIds pre) ≤ ks.length) :
    (C14Gen.genGridSession mine cx n ks (ginit pre)).stop = true := by
  rw [C14Gen.genGridSession_eq]; exact grid_stops_after_resumptions_raising n cx pre h ks hks hlen

/-! ## non-vacuity, and what is NOT guaranteed -/

/-- a 3-cell grid, budget 1 per call; trial 1 raises out of `optimize`, the worker of trial 2 is killed: cell 2 has a RUNNING
corpse (trial 2) and is finished by trial 3; cells 0, 1, 2 finished exactly once; stop after the 4th call, not after the 3rd -/
example :
    (sessionK ⟨fun _ => 0, fun i => i == 1, fun i => i == 2⟩ 3 [1, 1, 1, 1] (ginit [])).trials =
      [⟨some 0, .finished⟩, ⟨some 1, .finished⟩, ⟨some 2, .running⟩, ⟨some 2, .finished⟩] ∧
    (sessionK ⟨fun _ => 0, fun i => i == 1, fun i => i == 2⟩ 3 [1, 1, 1, 1] (ginit [])).stop = true ∧
    (sessionK ⟨fun _ => 0, fun i => i == 1, fun i => i == 2⟩ 3 [1, 1, 1] (ginit [])).stop = false := by decide

/-- the bound of `grid_stops_after_resumptions` is met by that run: 0 queued + 3 free cells + 1 kill ≤ 4 calls -/
example : (sessionK ⟨fun _ => 0, fun i => i == 1, fun i => i == 2⟩ 3 [1, 1, 1, 1] (ginit [])).stop = true :=
  grid_stops_after_resumptions 3 _ [] (gridSetting_of_noIds 3 (by omega) [] (by simp)) [1, 1, 1, 1] (by simp) [2]
    (by intro i hi; simp only [beq_iff_eq] at hi; simp [hi]) (by decide)

/-- a killed worker on a QUEUED (enqueued) trial: the trial stays RUNNING without a grid id and is lost — it is not a grid cell;
the grid itself is still covered -/
example : (sessionK ⟨fun _ => 0, fun _ => false, fun i => i == 0⟩ 2 [5, 5] (ginit [⟨none, .waiting⟩])).trials =
    [⟨none, .running⟩, ⟨some 1, .finished⟩, ⟨some 0, .finished⟩] := by decide

/-- **NOT guaranteed — grid_rerun_after_exhaustion_duplicates.**  `optimize` called once more on a study whose grid is already
exhausted (the previous call ended with the stop flag set) evaluates ONE duplicate point and then stops: cell 0 is finished
twice.  This is today's code (replayed on the real `GridSampler`: it warns "re-evaluating a configuration because the grid has
been exhausted"); `grid_exhaustive` / `grid_exhaustive_with_failures` are about sessions that stop resuming at the stop flag. -/
theorem grid_rerun_after_exhaustion_duplicates :
    let done := Grid.session ⟨fun _ => 0, fun _ => false⟩ 2 [10] (ginit [])
    done.stop = true ∧ visitedIds done.trials = [0, 1] ∧
    visitedIds (Grid.optimize ⟨fun _ => 0, fun _ => false⟩ 2 10 done).trials = [0, 1, 0] ∧
    ¬ (visitedIds (Grid.optimize ⟨fun _ => 0, fun _ => false⟩ 2 10 done).trials).Nodup := by decide


end OptunaVerif.C14
