import OptunaVerif.Lemmas.Hypervolume
import OptunaVerif.Lemmas.Rank
import OptunaVerif.Lemmas.Hssp
import OptunaVerif.Lemmas.HsspReal
/-!
# C15 — hypervolume, non-domination rank and subset selection are exact (property theorems)

Models: `Model/Hypervolume.lean` (`optuna/_hypervolume/wfg.py`, `_is_pareto_front*`),
`Model/Rank.lean` (`_calculate_nondomination_rank`, `_fast_non_domination_rank`),
`Model/Hssp.lean` (`optuna/_hypervolume/hssp.py`).  Rows are lists of integers (lattice points; exact
rationals by scaling); every theorem quantifies over **all** dimensions, **all** row lists (duplicates,
per-coordinate ties, dominated rows) and all sizes — no bound anywhere.

Specification of the volume: `hvSpec S r` = the number of unit cells `c < r` with `p ≤ c` for some row
`p ∈ S` (`hvSpec_is_dominated_cell_count`).  `Le`/`Lt` are the pointwise orders (lengths equal).
The models are tied to `/repo` by `verif/props/c15.py`.
-/
namespace OptunaVerif.C15
open OptunaVerif OptunaVerif.Hypervolume OptunaVerif.Rank OptunaVerif.Hssp

/-! ## 1. Hypervolume -/

/-- The specification is what it should be: the cardinality of the set of dominated unit cells. -/
theorem hvSpec_is_dominated_cell_count (S : List Pt) (r : Pt) :
    hvSpec S r = Set.ncard {c : Pt | Lt c r ∧ ∃ p ∈ S, Le p c} :=
  hvSpec_eq_ncard S r

example : hvSpec [[0, 0], [1, 1]] [2, 2] = 4 := by decide

/-- The brute-force cell count that the compiled driver reports next to the model's result (and that the
harness compares with its own numpy count) is this specification. -/
theorem hvBrute_is_spec (S : List Pt) (r : Pt) (hS : ∀ p ∈ S, Le p r) : hvBrute S r = hvSpec S r :=
  hvBrute_eq_spec S r hS

example : hvBrute [[0, 2, 1], [1, 1, 1], [1, 1, 1], [2, 0, 0]] [3, 3, 3] = 15 := by decide

/-- **wfg_eq_spec.** `_compute_hv` (1-point and 2-point base cases, WFG sum of exclusive volumes with
limit = pointwise maximum and the weakly-dominated filter) returns the dominated volume, for every
dimension and every column-0-sorted list of rows that weakly dominate the reference point. -/
theorem wfg_eq_spec (r : Pt) (S : List Pt) (hS : ∀ p ∈ S, Le p r) (hs : Sorted0 S) :
    computeHv r.length r S = hvSpec S r :=
  computeHv_eq_spec r S hS hs

example : computeHv 3 [3, 3, 3] [[0, 2, 1], [1, 1, 1], [1, 1, 1], [2, 0, 0]] = 15 := by decide
example : hvSpec [[0, 2, 1], [1, 1, 1], [1, 1, 1], [2, 0, 0]] [3, 3, 3] = 15 := by decide

/-- The model's recursion budget plays no role: `computeHv` satisfies the equations of `_compute_hv`. -/
theorem computeHv_recursion (d : Nat) (r : Pt) (S : List Pt) :
    computeHv d r S =
      match S with
      | [] => 0
      | [p] => vol r p
      | [p, q] => vol r p + vol r q - vol r (pmax p q)
      | _ => sumExcl d r (computeHv d r) S :=
  computeHv_unfold d r S

/-- **two_point_path_eq_spec.** the inclusion–exclusion shortcut for two rows. -/
theorem two_point_path_eq_spec (r p q : Pt) (hp : Le p r) (hq : Le q r) :
    vol r p + vol r q - vol r (pmax p q) = hvSpec [p, q] r := by
  -- (the two-point branch does not look at the order of the rows)
  unfold hvSpec
  simp only [unionF, Finset.union_empty]
  rw [← card_boxF p r hp, ← card_boxF q r hq, ← card_boxF _ r (pmax_le hp hq), ← boxF_inter hp hq]
  have := Finset.card_union_add_card_inter (boxF p r) (boxF q r)
  omega

example : vol [4, 4] [0, 3] + vol [4, 4] [3, 0] - vol [4, 4] (pmax [0, 3] [3, 0]) = 7 := by decide

/-- **filter_weakly_dominated_preserves_union.** `_is_pareto_front(limited_sols, True)` applied to a
column-0-sorted array (not necessarily unique or lexsorted) keeps a sub-array with the same union of
boxes: what it drops is weakly dominated by something it keeps. -/
theorem filter_weakly_dominated_preserves_union (r : Pt) (L : List Pt) (hL : ∀ q ∈ L, Le q r)
    (hs : Sorted0 L) : unionF r (frontSorted id r.length L) = unionF r L :=
  unionF_eq_of_cover r _ _ (fun _ hq => (frontSorted_sublist r.length L).subset hq)
    (frontSorted_cover r L hL hs)

example : frontSorted id 3 [[0, 1, 1], [0, 1, 1], [1, 0, 2], [1, 1, 1]] = [[0, 1, 1], [1, 0, 2]] := by decide

/-- **compute2d_eq_spec.** the sweep `_compute_2d` (running minimum of the second coordinate) on rows `≤ r` sorted
by column 0 — in ANY order of the rows that tie in column 0, dominated rows and duplicates included — is the
dominated area. -/
theorem compute2d_eq_spec (r : Pt) (hr : r.length = 2) (S : List Pt) (hS : ∀ p ∈ S, Le p r)
    (hs : Sorted0 S) : compute2d r S = hvSpec S r :=
  compute2d_eq_spec' r hr S hS hs

/-- … in particular the result does not depend on which order `argsort` of column 0 gives to tied rows. -/
theorem compute2d_any_tie_order (r : Pt) (hr : r.length = 2) (S S' : List Pt) (hS : ∀ p ∈ S, Le p r)
    (hp : S'.Perm S) (hs : Sorted0 S') : compute2d r S' = hvSpec S r :=
  OptunaVerif.Hypervolume.compute2d_any_tie_order r hr S S' hS hp hs

-- non-vacuity: x-ties in both orders, a dominated row, a duplicate
example : compute2d [4, 4] [[0, 3], [1, 2], [1, 1], [1, 1], [2, 3], [3, 0]] = 11 ∧
    compute2d [4, 4] [[0, 3], [1, 1], [1, 2], [1, 1], [2, 3], [3, 0]] = 11 ∧
    hvSpec [[0, 3], [1, 2], [1, 1], [1, 1], [2, 3], [3, 0]] [4, 4] = 11 := by decide

example : compute2d [4, 4] [[0, 3], [1, 1], [1, 1], [3, 0]] = 11 := by decide
example : hvSpec [[0, 3], [1, 1], [1, 1], [3, 0]] [4, 4] = 11 := by decide

/-- **compute_hypervolume is exact** (default path: `np.unique`, Pareto pre-filter, 2-D sweep or WFG):
for finite inputs, any dimension, any rows that pass the reference-point check. -/
theorem compute_hypervolume_exact (S : List Pt) (r : Pt) (hS : ∀ p ∈ S, Le p r) :
    computeHypervolume (S.map liftPt) (liftPt r) false = HvOut.fin (hvSpec S r) := by
  exact computeHypervolume_eq_spec S r false hS

example : computeHypervolume [[.fin 0, .fin 0], [.fin 1, .fin 1], [.fin 1, .fin 1]] [.fin 2, .fin 2] false
    = HvOut.fin 4 := by decide

/-- `assume_pareto=True` (sort by column 0 only, no `unique`, no Pareto filter) is exact for every dimension and
every rows `≤ r`. -/
theorem compute_hypervolume_assume_pareto_exact (S : List Pt) (r : Pt) (hS : ∀ p ∈ S, Le p r) :
    computeHypervolume (S.map liftPt) (liftPt r) true = HvOut.fin (hvSpec S r) := by
  exact computeHypervolume_eq_spec S r true hS

example : computeHypervolume [[.fin 0, .fin 0, .fin 0], [.fin 1, .fin 1, .fin 1]] [.fin 2, .fin 2, .fin 2] true
    = HvOut.fin 8 := by decide

/-- 2-D included, with NO Pareto hypothesis (dominated rows, duplicates, ties in either coordinate). -/
theorem compute_hypervolume_assume_pareto_2d_exact (S : List Pt) (r : Pt) (hS : ∀ p ∈ S, Le p r)
    (_hd : r.length = 2) :
    computeHypervolume (S.map liftPt) (liftPt r) true = HvOut.fin (hvSpec S r) :=
  compute_hypervolume_assume_pareto_exact S r hS

example : computeHypervolume [[.fin 1, .fin 0], [.fin 0, .fin 1], [.fin 0, .fin 1]] [.fin 2, .fin 2] true
    = HvOut.fin 3 := by decide

/-- **assume_pareto_never_changes_result.**  The docstring's promise ("does not change the result even if this
argument is wrongly given") holds in every dimension: for all finite rows that pass the reference-point check the
two settings of the flag give the same value, the dominated volume. -/
theorem assume_pareto_never_changes_result (S : List Pt) (r : Pt) (hS : ∀ p ∈ S, Le p r) :
    computeHypervolume (S.map liftPt) (liftPt r) true = computeHypervolume (S.map liftPt) (liftPt r) false ∧
      computeHypervolume (S.map liftPt) (liftPt r) true = HvOut.fin (hvSpec S r) := by
  rw [compute_hypervolume_assume_pareto_exact S r hS, compute_hypervolume_exact S r hS]
  exact ⟨rfl, rfl⟩

-- non-vacuity: the input of the repaired finding F22 ([[0,0],[2,3]] is not a Pareto set): 24 with and without the flag
example : computeHypervolume [[.fin 0, .fin 0], [.fin 2, .fin 3]] [.fin 4, .fin 6] true = HvOut.fin 24 ∧
    computeHypervolume [[.fin 0, .fin 0], [.fin 2, .fin 3]] [.fin 4, .fin 6] false = HvOut.fin 24 ∧
    hvSpec [[0, 0], [2, 3]] [4, 6] = 24 := by decide

/-- **reference-point check**: finite rows that do not all weakly dominate the reference point are
rejected (`ValueError`). -/
theorem reference_check (S : List Pt) (r : Pt) (ap : Bool) (h : ¬ ∀ p ∈ S, Le p r) :
    computeHypervolume (S.map liftPt) (liftPt r) ap = HvOut.error :=
  computeHypervolume_lift_error S r ap h

example : computeHypervolume [[.fin 0, .fin 2]] [.fin 1, .fin 1] false = HvOut.error := by decide
example : computeHypervolume [[.fin 0, .nan]] [.fin 1, .fin 1] false = HvOut.error := by decide

/-- a row has infinite extent below the reference point and is not flat in any coordinate -/
def InfiniteBox (p r : List EInt) : Prop :=
  List.Forall₂ (fun a b => a.le b = true ∧ a ≠ b) p r ∧
    ((∃ a ∈ p, a = EInt.ninf) ∨ (∃ b ∈ r, b = EInt.pinf))

/-- **infinite ⇒ inf.** When the check passes and some row dominates a box of infinite volume, the
result is `inf` (in particular: **infinite_reference_is_inf**, any non-finite reference point). -/
theorem infinite_volume_is_inf (S : List (List EInt)) (r : List EInt) (ap : Bool)
    (hcheck : S.all (fun p => allLeE p r) = true) (p : List EInt) (hp : p ∈ S) (hbox : InfiniteBox p r) :
    computeHypervolume S r ap = HvOut.inf := by
  unfold computeHypervolume
  simp only [hcheck, Bool.not_true, Bool.false_eq_true, if_false]
  by_cases hr : r.all EInt.isFinite = true
  · simp only [hr, Bool.not_true, Bool.false_eq_true, if_false]
    have hmem : p ∈ S.filter (fun p => allLtE p r) := List.mem_filter.2 ⟨hp, allLtE_of_forall₂ hbox.1⟩
    have hne : (S.filter (fun p => allLtE p r)).isEmpty = false := by
      cases hS' : S.filter (fun p => allLtE p r) with
      | nil => rw [hS'] at hmem; simp at hmem
      | cons _ _ => rfl
    have : (S.filter (fun p => allLtE p r)).any (fun p => p.any (fun c => !c.isFinite)) = true := by
      rcases hbox.2 with ⟨a, ha, rfl⟩ | ⟨b, hb, rfl⟩
      · exact List.any_eq_true.2 ⟨p, hmem, List.any_eq_true.2 ⟨_, ha, by simp [EInt.isFinite]⟩⟩
      · have := List.all_eq_true.1 hr _ hb
        simp [EInt.isFinite] at this
    simp [hne, this]
  · simp [hr]

theorem infinite_reference_is_inf (S : List (List EInt)) (r : List EInt) (ap : Bool)
    (hcheck : S.all (fun p => allLeE p r) = true) (hr : r.all EInt.isFinite = false) :
    computeHypervolume S r ap = HvOut.inf := by
  unfold computeHypervolume
  simp [hcheck, hr]

example : computeHypervolume [[.fin 0, .fin 0]] [.pinf, .fin 1] false = HvOut.inf := by decide
example : computeHypervolume [[.ninf, .fin 4], [.fin 1, .fin 1]] [.fin 5, .fin 5] false = HvOut.inf := by decide

/-- **touching_rows_contribute_nothing.**  A row that passes the check but touches the reference point in some
coordinate (its box is degenerate) does not influence the result, whatever its other coordinates (`-inf`
included) and whatever the other rows are. -/
theorem touching_rows_contribute_nothing (S : List (List EInt)) (r p : List EInt) (ap : Bool)
    (hp : allLeE p r = true) (htouch : allLtE p r = false) :
    computeHypervolume (p :: S) r ap = computeHypervolume S r ap := by
  unfold computeHypervolume
  simp [List.all_cons, hp, List.filter_cons, htouch]

/-- … and when every row touches the (finite) reference point the hypervolume is 0. -/
theorem degenerate_rows_only_is_zero (S : List (List EInt)) (r : List EInt) (ap : Bool)
    (hcheck : S.all (fun p => allLeE p r) = true) (hr : r.all EInt.isFinite = true)
    (htouch : ∀ p ∈ S, allLtE p r = false) : computeHypervolume S r ap = HvOut.fin 0 := by
  unfold computeHypervolume
  have : S.filter (fun p => allLtE p r) = [] := List.filter_eq_nil_iff.2 (fun p hp => by simp [htouch p hp])
  simp [hcheck, hr, this]

/-- **degenerate_box_is_zero** (the input of the repaired finding F23): the only row has an infinite extent in
one coordinate and touches the reference point in the other — dominated volume 0, and 0 is returned; next to a
proper row it changes nothing. -/
theorem degenerate_box_is_zero :
    computeHypervolume [[.ninf, .fin 5]] [.fin 5, .fin 5] false = HvOut.fin 0 ∧
    computeHypervolume [[.ninf, .fin 5]] [.fin 5, .fin 5] true = HvOut.fin 0 ∧
    computeHypervolume [[.ninf, .fin 5], [.fin 1, .fin 1]] [.fin 5, .fin 5] false = HvOut.fin 16 ∧
      ¬ InfiniteBox [.ninf, .fin 5] [.fin 5, .fin 5] := by
  refine ⟨by decide, by decide, by decide, ?_⟩
  rintro ⟨h, _⟩
  cases h with
  | cons _ h => cases h with
    | cons h _ => exact h.2 rfl

/-- what is left of the old behaviour, by convention (the suite's `test_wfg_with_inf` pins it): a NON-FINITE
reference point answers `inf` before any row is looked at, also when the only row touches it. -/
theorem nonfinite_reference_is_inf_by_convention :
    computeHypervolume [[.pinf, .fin 0]] [.pinf, .fin 1] false = HvOut.inf := by decide

-- a `-inf` row that does NOT touch the reference point still gives inf
example : computeHypervolume [[.ninf, .fin 4]] [.fin 5, .fin 5] false = HvOut.inf := by decide

/-! ## 2. Pareto front and non-domination rank -/

/-- **front exactness.** On a unique-lexsorted array `_is_pareto_front(·, assume_unique_lexsorted=True)`
selects exactly the rows that no row dominates (1-, 2- and n-objective branches). -/
theorem front_exact_on_unique_lexsorted (r : Pt) (L : List Pt) (hL : LexSorted L) (hb : ∀ q ∈ L, Le q r)
    (p : Pt) : p ∈ frontSorted id r.length L ↔ p ∈ L ∧ ∀ q ∈ L, ¬ Dom q p :=
  mem_frontSorted_iff r L hL hb p

example : frontSorted id 2 (uniqueLex [[1, 1], [0, 2], [2, 0], [1, 1], [2, 2]]) = [[0, 2], [1, 1], [2, 0]] := by
  decide

/-- **rank_eq_peeling.** For every array of rows (any dimension, duplicates, ties) the rank computed by
`_calculate_nondomination_rank` / `_fast_non_domination_rank` without `n_below` is the rank given by
repeatedly peeling the Pareto front: for every level `j`, the rows of rank `j` are exactly the rows of
rank `≥ j` that no row of rank `≥ j` dominates. -/
theorem rank_eq_peeling (d : Nat) (S : List Pt) (hS : ∀ q ∈ S, q.length = d) :
    IsPeeling S (rankFn d S none) :=
  rankFn_isPeeling d S hS

/-- … and that rank function is unique, so this pins every rank down. -/
theorem peeling_rank_unique (S : List Pt) (ρ ρ' : Pt → Nat) (h : IsPeeling S ρ) (h' : IsPeeling S ρ') :
    ∀ p ∈ S, ρ p = ρ' p :=
  isPeeling_unique S ρ ρ' h h'

example : calcRank 2 [[0, 1], [1, 0], [1, 1], [1, 1], [2, 2]] none = [0, 0, 1, 1, 2] := by decide
example : calcRank 1 [[3], [1], [3], [2]] none = [2, 0, 2, 1] := by decide

/-- The O(n²) reference peeling that the driver reports next to the model's ranks (no sorting, no `unique`,
duplicates in place: rank 0 = rows no row dominates, remove them, repeat) gives exactly the modelled ranks. -/
theorem rank_eq_naive_peeling (d : Nat) (S : List Pt) (hS : ∀ q ∈ S, q.length = d) :
    naiveRanks S = calcRank d S none :=
  naive_eq_rank d S hS

example : naiveRanks [[0, 1], [1, 0], [1, 1], [1, 1], [2, 2]] = [0, 0, 1, 1, 2] := by decide

/-- **rank with `n_below`.** There is a stopping level `K`: ranks below `K` are exact peeling ranks, every
other row gets `K`; `K` is the first level at which at least `min(n_below, n_unique)` unique rows have
been ranked (`n_objectives ≠ 1`; for one objective the ranks are always exact). -/
theorem rank_n_below_spec (d : Nat) (S : List Pt) (hS : ∀ q ∈ S, q.length = d) (nBelow : Option Int)
    (h1 : d ≠ 1) (ht : trivialCase S nBelow = false) :
    ∃ K, IsPeelingUpTo S (rankFn d S nBelow) K ∧
      clipNBelow nBelow (uniqueLex S).length
        ≤ (uniqueLex S).length - ((uniqueLex S).filter (fun p => rankFn d S nBelow p = K)).length ∧
      (0 < K → (uniqueLex S).length - ((uniqueLex S).filter (fun p => K - 1 ≤ rankFn d S nBelow p)).length
        < clipNBelow nBelow (uniqueLex S).length) :=
  rankFn_upTo d S hS nBelow h1 ht

example : calcRank 2 [[0, 1], [1, 0], [1, 1], [1, 1], [2, 2], [3, 3]] (some 2) = [0, 0, 1, 1, 1, 1] := by decide
example : calcRank 2 [[0, 1], [1, 0], [1, 1], [1, 1], [2, 2], [3, 3]] (some 3) = [0, 0, 1, 1, 2, 2] := by decide

/-- **rank_constrained_eq_spec.** With penalties (`none` = NaN) and no `n_below`,
`_fast_non_domination_rank` ranks every row by repeated peeling under the constrained domination `CDom`
(feasible before infeasible before unknown; Pareto dominance among feasible and among unknown rows; smaller
penalty among infeasible rows): the rows of rank `j` are exactly the rows of rank `≥ j` that no row of
rank `≥ j` constrained-dominates. -/
theorem rank_constrained_eq_spec (d : Nat) (S : List Pt) (pen : List (Option Int))
    (hS : ∀ q ∈ S, q.length = d) (hlen : pen.length = S.length) :
    ∃ ρ : Row → Nat, fastRank d S (some pen) none = some ((S.zip pen).map ρ) ∧ IsCPeeling (S.zip pen) ρ :=
  fastRank_constrained d S pen hS hlen

example : fastRank 2 [[0, 1], [1, 0], [1, 1], [1, 1], [2, 2], [3, 3]]
    (some [some 0, some 1, none, some (-1), some 2, some 1]) none = some [0, 2, 4, 1, 3, 2] := by decide

/-! ## 3. Hypervolume subset selection -/

/-- **hv_monotone_submodular.** the dominated volume is a coverage function: gains are non-negative and
only shrink when more rows are selected. -/
theorem hv_monotone_submodular (r : Pt) (T T' : List Pt) (h : ∀ x ∈ T, x ∈ T') (p : Pt) :
    0 ≤ gain r T' p ∧ gain r T' p ≤ gain r T p ∧ hvSpec T r ≤ hvSpec T' r :=
  ⟨gain_nonneg r T' p, gain_antitone r T T' h p, hvSpec_mono r T T' h⟩

/-- **lazy_step_picks_true_argmax.** If the stored contributions are upper bounds of the true
non-negative marginal gains `g`, then after `_lazy_contribs_update` — visiting the candidates in *any*
order that covers them (so numpy's order of ties in `argsort` is irrelevant) — they still are, and
`np.argmax` of the updated array is an exactly recomputed entry that maximises the true gain. -/
theorem lazy_step_picks_true_argmax (g : Nat → Int) (cs : List Int) (order : List Nat) (hne : cs ≠ [])
    (hg0 : ∀ i < cs.length, 0 ≤ g i) (hub : ∀ i < cs.length, g i ≤ cs.getD i 0)
    (hord : ∀ i ∈ order, i < cs.length) (hcov : ∀ i < cs.length, i ∈ order) :
    (lazyGo g order 0 cs).length = cs.length ∧ (∀ i < cs.length, g i ≤ (lazyGo g order 0 cs).getD i 0) ∧
      argmax (lazyGo g order 0 cs) < cs.length ∧
      (lazyGo g order 0 cs).getD (argmax (lazyGo g order 0 cs)) 0 = g (argmax (lazyGo g order 0 cs)) ∧
      ∀ i < cs.length, g i ≤ g (argmax (lazyGo g order 0 cs)) :=
  lazy_argmax_exact g cs order hne hg0 hub hord hcov

example : lazyGo (fun i => [3, 2, 4].getD i 0) [2, 0, 1] 0 [5, 3, 9] = [3, 3, 4] := by decide

/-- **the main loop is a greedy run.** `_solve_hssp_on_unique_loss_vals` (finite reference, dimension ≠ 2,
`k < n_unique`) returns the labels of `k` picks, each of which maximises the *true* marginal hypervolume
gain among the candidates still available (the lazily skipped recomputations never change a pick). -/
theorem greedy_loop_is_greedy_run (r : Pt) (hd : r.length ≠ 2) (U : List Pt) (labels : List Nat)
    (hlen : labels.length = U.length) (hU : ∀ p ∈ U, Le p r) (k : Nat) (hk : k < U.length) :
    ∃ picks : List (Pt × Nat), solveOnUnique U labels k r true = picks.map (·.2) ∧ picks.length = k ∧
      GreedyRun r [] (U.zip labels) picks :=
  solveOnUnique_greedy r hd U labels hlen hU k hk

/-- **hssp_returns_k_distinct_members.** `_solve_hssp` returns exactly `k` distinct positions of the
array: every branch (k = n, duplicates branch, non-finite reference, k = n_unique, 2-D solver, lazy
greedy), every dimension. -/
theorem hssp_returns_k_distinct_members (vals : List Pt) (r : Pt) (hv : ∀ p ∈ vals, Le p r) (k : Nat)
    (hk : k ≤ vals.length) (fin : Bool) :
    (solveHssp vals k r fin).length = k ∧ (solveHssp vals k r fin).Nodup ∧
      ∀ i ∈ solveHssp vals k r fin, i < vals.length :=
  solveHssp_distinct vals r hv k hk fin

example : solveHssp [[0, 1, 1], [1, 0, 1], [1, 1, 0], [1, 1, 0], [0, 0, 2], [2, 0, 0]] 3 [3, 3, 3] true
    = [0, 5, 4] := by decide
example : solveHssp [[0, 3], [1, 2], [0, 3], [1, 2]] 3 [4, 4] true = [0, 1, 2] := by decide

/-- **greedy gap (Nemhauser–Wolsey–Fisher), integer form.** For the selection of `_solve_hssp` (finite
reference, dimension ≠ 2) and *every* set `O` of at most `k` rows of the array:
`k^k · (hv(O) − hv(selection)) ≤ (k−1)^k · hv(O)`. -/
theorem hssp_greedy_gap (vals : List Pt) (r : Pt) (hv : ∀ p ∈ vals, Le p r) (hd : r.length ≠ 2) (k : Nat)
    (hk : k ≤ vals.length) (O : List Pt) (hO : ∀ o ∈ O, o ∈ vals) (hOk : O.length ≤ k) :
    (k : Int) ^ k * ((hvSpec O r : Int) - hvSpec (rowsAt vals (solveHssp vals k r true)) r)
      ≤ ((k : Int) - 1) ^ k * (hvSpec O r : Int) :=
  solveHssp_bound vals r hv hd k hk O hO hOk

/-- **greedy_one_minus_inv_e.** Hence the selected subset has at least `(1 − 1/e)` of the hypervolume of
the best subset of the same size. -/
theorem greedy_one_minus_inv_e (vals : List Pt) (r : Pt) (hv : ∀ p ∈ vals, Le p r) (hd : r.length ≠ 2)
    (k : Nat) (hk : k ≤ vals.length) (O : List Pt) (hO : ∀ o ∈ O, o ∈ vals) (hOk : O.length ≤ k) :
    (1 - Real.exp (-1)) * (hvSpec O r : ℝ)
      ≤ (hvSpec (rowsAt vals (solveHssp vals k r true)) r : ℝ) := by
  by_cases hk0 : k = 0
  · subst hk0
    have : O = [] := List.eq_nil_of_length_eq_zero (by omega)
    subst this
    simp [hvSpec, unionF]
  · have h := hssp_greedy_gap vals r hv hd k hk O hO hOk
    have := one_sub_inv_e_of_gap k (by omega) (hvSpec O r) (hvSpec (rowsAt vals (solveHssp vals k r true)) r)
      (Int.natCast_nonneg _) h
    exact_mod_cast this

/-- **hssp2d_contribution_exact.** Invariant of `_solve_hssp_2d` (`Inv2`: the rectangle `[row, (dx, dy))` of
every remaining candidate is exactly the part of its box not covered by the selected rows; established by
the initial diagonals and preserved by every round, `inv2_step`): the stored rectangle area is the true
marginal hypervolume gain. -/
theorem hssp2d_contribution_exact (r0 r1 : Int) (T : List Pt) (cs : List Cand2) (h : Inv2 r0 r1 T cs)
    (c : Cand2) (hc : c ∈ cs) : gain [r0, r1] T c.pt = contrib2 c :=
  inv2_gain r0 r1 T cs h c hc

/-- One round of `_solve_hssp_2d` (remove the pick, clip `dx` of the rows before it and `dy` of the rows
after it) re-establishes that invariant for the enlarged selection. -/
theorem hssp2d_round_preserves_invariant (r0 r1 : Int) (T : List Pt) (cs : List Cand2) (h : Inv2 r0 r1 T cs)
    (m : Nat) (hm : m < cs.length) :
    Inv2 r0 r1 (T ++ [cs[m].pt])
      ((cs.take m).map (fun e => { e with dx := min (x0 cs[m].pt) e.dx }) ++
        (cs.drop (m + 1)).map (fun e => { e with dy := min (y1 cs[m].pt) e.dy })) :=
  inv2_step r0 r1 T cs h m hm

/-- **the 2-D solver is a greedy run** on unique-lexsorted mutually non-dominated rows (a staircase). -/
theorem hssp2d_is_greedy_run (r : Pt) (hr : r.length = 2) (U : List Pt) (labels : List Nat)
    (hlen : labels.length = U.length) (hU : ∀ p ∈ U, Le p r) (hst : Staircase U) (k : Nat)
    (hk : k < U.length) :
    ∃ picks : List (Pt × Nat), solveOnUnique U labels k r true = picks.map (·.2) ∧ picks.length = k ∧
      GreedyRun r [] (U.zip labels) picks :=
  solveOnUnique_greedy2d r hr U labels hlen hU hst k hk

example : solveHssp [[0, 3], [1, 2], [2, 1], [3, 0], [1, 2]] 2 [4, 4] true = [1, 2] := by decide

/-- **greedy gap in 2-D** for mutually non-dominated rows (duplicates allowed) — what the TPE sampler passes
(the rows of one non-domination rank). -/
theorem hssp_greedy_gap_2d (vals : List Pt) (r : Pt) (hv : ∀ p ∈ vals, Le p r) (hr : r.length = 2)
    (ha : Antichain vals) (k : Nat) (hk : k ≤ vals.length) (O : List Pt) (hO : ∀ o ∈ O, o ∈ vals)
    (hOk : O.length ≤ k) :
    (k : Int) ^ k * ((hvSpec O r : Int) - hvSpec (rowsAt vals (solveHssp vals k r true)) r)
      ≤ ((k : Int) - 1) ^ k * (hvSpec O r : Int) :=
  solveHssp_bound_2d vals r hv hr ha k hk O hO hOk

theorem greedy_one_minus_inv_e_2d (vals : List Pt) (r : Pt) (hv : ∀ p ∈ vals, Le p r) (hr : r.length = 2)
    (ha : Antichain vals) (k : Nat) (hk : k ≤ vals.length) (O : List Pt) (hO : ∀ o ∈ O, o ∈ vals)
    (hOk : O.length ≤ k) :
    (1 - Real.exp (-1)) * (hvSpec O r : ℝ)
      ≤ (hvSpec (rowsAt vals (solveHssp vals k r true)) r : ℝ) := by
  by_cases hk0 : k = 0
  · subst hk0
    have : O = [] := List.eq_nil_of_length_eq_zero (by omega)
    subst this
    simp [hvSpec, unionF]
  · have h := hssp_greedy_gap_2d vals r hv hr ha k hk O hO hOk
    have := one_sub_inv_e_of_gap k (by omega) (hvSpec O r) (hvSpec (rowsAt vals (solveHssp vals k r true)) r)
      (Int.natCast_nonneg _) h
    exact_mod_cast this

/- Not claimed: the greedy property / the `1 - 1/e` bound of `_solve_hssp` in 2-D for rows that dominate one
   another (`_solve_hssp_2d`'s rectangles are then not the marginal gains; the sampler never passes such rows).
   The tie still checks k-distinctness and the bound against the exhaustive optimum on such inputs. -/

end OptunaVerif.C15
