import OptunaVerif.Generated.HvMethods
import OptunaVerif.Generated.HvShapes
import OptunaVerif.Lemmas.HvExpected
import OptunaVerif.Lemmas.HsspIR
set_option linter.unusedSimpArgs false
namespace OptunaVerif.C15Gen
open OptunaVerif OptunaVerif.Hypervolume OptunaVerif.HvIR
open OptunaVerif.Generated.HvMethods (prog)

/-! ## shape pins: the normalised source text of every function in scope is the reviewed snapshot -/

theorem compute_2d_shape : Generated.HvShapes.compute2dSrc = HvExpected.compute2dSrc := rfl
theorem compute_hv_shape : Generated.HvShapes.computeHvSrc = HvExpected.computeHvSrc := rfl
theorem compute_exclusive_hv_shape : Generated.HvShapes.computeExclusiveHvSrc = HvExpected.computeExclusiveHvSrc := rfl
theorem compute_hypervolume_shape : Generated.HvShapes.computeHypervolumeSrc = HvExpected.computeHypervolumeSrc := rfl
theorem solve_hssp_2d_shape : Generated.HvShapes.solveHssp2dSrc = HvExpected.solveHssp2dSrc := rfl
theorem lazy_contribs_update_shape : Generated.HvShapes.lazyContribsUpdateSrc = HvExpected.lazyContribsUpdateSrc := rfl
theorem solve_hssp_on_unique_loss_vals_shape : Generated.HvShapes.solveHsspOnUniqueSrc = HvExpected.solveHsspOnUniqueSrc := rfl
theorem solve_hssp_shape : Generated.HvShapes.solveHsspSrc = HvExpected.solveHsspSrc := rfl
theorem fast_non_domination_rank_shape : Generated.HvShapes.fastNonDominationRankSrc = HvExpected.fastNonDominationRankSrc := rfl
theorem calculate_nondomination_rank_shape :
    Generated.HvShapes.calculateNondominationRankSrc = HvExpected.calculateNondominationRankSrc := rfl
theorem module_level_shape : Generated.HvShapes.wfgModuleLevelSrc = HvExpected.wfgModuleLevelSrc ∧
    Generated.HvShapes.hsspModuleLevelSrc = HvExpected.hsspModuleLevelSrc := ⟨rfl, rfl⟩


/-! ## `_compute_2d` -/

theorem hget_cons (k : String) (v : HVal) (env : List (String × HVal)) (n : String) :
    hget ((k, v) :: env) n = if k == n then v else hget env n := by
  unfold hget
  simp only [List.find?_cons]
  cases h : (k == n) <;> simp

theorem x0_getD (p : Pt) : p.getD 0 0 = x0 p := by cases p <;> rfl
theorem y1_getD (p : Pt) : p.getD 1 0 = y1 p := by
  cases p with
  | nil => rfl
  | cons a t => cases t <;> rfl

/-- the rows after the first one: `(ref[0] - x) @ (rect_diag_y - y)` with the running minimum `m` carried along -/
theorem c2d_go (r0 m : Int) (t : List Pt) :
    dotL ((t.map x0).map (fun x => r0 - x))
      (subL ((m :: cumminFromI m (t.map y1)).dropLast) (cumminFromI m (t.map y1))) = compute2dGo r0 m t := by
  induction t generalizing m with
  | nil => rfl
  | cons p t ih =>
    have := ih (min m (y1 p))
    simp only [List.map_cons, cumminFromI, List.dropLast_cons_cons, subL, List.zipWith_cons_cons, dotL, sumL, List.foldr_cons,
      compute2dGo] at this ⊢
    rw [this]

/-- **gen_compute_2d_eq** — `_compute_2d` as written today (running minimum of the second column, the shifted diagonal, the dot product)
is the hand model's sweep `compute2d`, for every array and reference point. -/
theorem gen_compute_2d_eq (r : Pt) (S : List Pt) : c2dGen prog.c2d r S = compute2d r S := by
  cases S with
  | nil =>
    simp [c2dGen, prog, Generated.HvMethods.c2d, HE.eval, hget_cons, hget, numOf, cumminI, subL, dotL, sumL, compute2d]
  | cons p t =>
    have h := c2d_go (x0 r) (y1 p) t
    have hx : (fun (q : Pt) => q.getD 0 0) = x0 := funext x0_getD
    have hy : (fun (q : Pt) => q.getD 1 0) = y1 := funext y1_getD
    simp only [c2dGen, prog, Generated.HvMethods.c2d, HE.eval, hget_cons, hget, numOf]
    simp [-List.getD_eq_getElem?_getD, hx, hy, x0_getD, y1_getD, cumminI]
    simp only [compute2d, ← h, dotL, subL, sumL, List.map_map]
    cases hc : cumminFromI (y1 p) (t.map y1) with
    | nil => simp [List.dropLast]
    | cons a b => simp [List.dropLast_cons_cons]

example : c2dGen prog.c2d [4, 4] [[0, 3], [1, 2], [1, 1], [1, 1], [2, 3], [3, 0]] = 11 := by decide


/-! ## `_compute_hv` / `_compute_exclusive_hv` -/

theorem prodL_subL (r p : Pt) : prodL (subL r p) = vol r p := by
  induction r generalizing p with
  | nil => cases p <;> rfl
  | cons b r ih =>
    cases p with
    | nil => rfl
    | cons a p => simp [subL, prodL, vol, ← ih p]

theorem gen_incl_eq (r : Pt) (S : List Pt) :
    vecOf (prog.wfg.incl.eval [("S", .mat S), ("ref", .vec r)]) = S.map (vol r) := by
  simp [prog, Generated.HvMethods.wfg, HE.eval, hget_cons, hget, vecOf, prodL_subL]

/-- `_compute_exclusive_hv` as written today: the inclusive volume when nothing is left, else minus the hypervolume of the
weakly-non-dominated limited points -/
theorem gen_exclusive_eq (d : Nat) (rec : List Pt → Int) (limited : List Pt) (inc : Int) :
    exclGen prog.wfg (frontOf d) rec limited inc = exclusiveHv d rec limited inc := by
  cases h : limited.isEmpty <;>
    simp [exclGen, prog, Generated.HvMethods.wfg, HE.eval, hget_cons, hget, numOf, exclusiveHv, frontOf, h]

/-- the `sum(… for i, inclusive_hv in enumerate(inclusive_hvs))` over `limited_sols_array[i, i + 1:]` is the hand model's `sumExcl` -/
theorem gen_sum_eq (d : Nat) (r : Pt) (rec : List Pt → Int) (S : List Pt) :
    sumL ((List.range S.length).map (fun i =>
      exclusiveHv d rec ((S.drop (i + 1)).map (pmax (S.getD i []))) ((S.map (vol r)).getD i 0))) = sumExcl d r rec S := by
  induction S with
  | nil => rfl
  | cons p rest ih =>
    rw [List.length_cons, List.range_succ_eq_map, List.map_cons, List.map_map]
    simp only [sumL, List.foldr_cons, sumExcl]
    have : sumL ((List.range rest.length).map ((fun i =>
        exclusiveHv d rec (((p :: rest).drop (i + 1)).map (pmax ((p :: rest).getD i []))) (((p :: rest).map (vol r)).getD i 0)) ∘ Nat.succ)) =
        sumExcl d r rec rest := by
      rw [← ih]; congr 1
    simp only [sumL] at this
    rw [this]
    simp

/-- **gen_compute_hv_eq** — `_compute_hv` / `_compute_exclusive_hv` as written today (inclusive volumes, the 1- and 2-point formulas, the
pair-maximum array, the suffix slices, the Pareto filter with `assume_unique_lexsorted=True`, `inclusive - recursive`) is the hand
model's WFG recursion `hvFuel`, for every dimension, reference point, array and recursion budget. -/
theorem gen_compute_hv_eq (d : Nat) (r : Pt) (fuel : Nat) (S : List Pt) :
    hvGen prog.wfg (frontOf d) r fuel S = hvFuel d r fuel S := by
  induction fuel generalizing S with
  | zero => rfl
  | succ fuel ih =>
    have hrec : hvGen prog.wfg (frontOf d) r fuel = hvFuel d r fuel := funext ih
    have hex : (fun (limited : List Pt) (inc : Int) => exclGen prog.wfg (frontOf d) (hvFuel d r fuel) limited inc) =
        (fun limited inc => exclusiveHv d (hvFuel d r fuel) limited inc) := by
      funext l i; exact gen_exclusive_eq d _ l i
    unfold hvGen
    simp only [gen_incl_eq, hrec]
    match S with
    | [] => simp [prog, Generated.HvMethods.wfg, hvFuel, sumL]
    | [p] =>
      simp [prog, Generated.HvMethods.wfg, hvFuel, HE.eval, hget_cons, hget, numOf]
    | [p, q] =>
      simp [prog, Generated.HvMethods.wfg, hvFuel, HE.eval, hget_cons, hget, numOf, sumL, prodL_subL]
    | p :: q :: s :: rest =>
      have hs := gen_sum_eq d r (hvFuel d r fuel) (p :: q :: s :: rest)
      have hfind : prog.wfg.cases.find? (fun c => c.1 == ((p :: q :: s :: rest).map (vol r)).length) = none := by
        simp [prog, Generated.HvMethods.wfg]
      have hflags : (prog.wfg.limitedPairMax && prog.wfg.sumOverEnumerate) = true ∧ prog.wfg.sliceOffset = 1 := by decide
      rw [hfind]
      simp only [hflags.1, hflags.2, if_true, List.length_map]
      rw [show (fun i => exclGen prog.wfg (frontOf d) (hvFuel d r fuel)
            (((p :: q :: s :: rest).drop (i + 1)).map (pmax ((p :: q :: s :: rest).getD i [])))
            (((p :: q :: s :: rest).map (vol r)).getD i 0)) =
          (fun i => exclusiveHv d (hvFuel d r fuel)
            (((p :: q :: s :: rest).drop (i + 1)).map (pmax ((p :: q :: s :: rest).getD i [])))
            (((p :: q :: s :: rest).map (vol r)).getD i 0)) from by funext i; exact gen_exclusive_eq d _ _ _]
      rw [hs]
      rfl

example : hvGen prog.wfg (frontOf 3) [3, 3, 3] 4 [[0, 2, 1], [1, 1, 1], [1, 1, 1], [2, 0, 0]] = 15 := by decide


/-! ## `compute_hypervolume` -/

theorem allCmpE_le (p q : List EInt) : allCmpE .le p q = allLeE p q := by
  induction p generalizing q with
  | nil => cases q <;> rfl
  | cons a p ih => cases q with
    | nil => rfl
    | cons b q => simp [allCmpE, allLeE, HCmp.evalE, ih]

theorem allCmpE_lt (p q : List EInt) : allCmpE .lt p q = allLtE p q := by
  induction p generalizing q with
  | nil => cases q <;> rfl
  | cons a p ih => cases q with
    | nil => rfl
    | cons b q => simp [allCmpE, allLtE, HCmp.evalE, ih]

/-- **gen_compute_hypervolume_eq** — `compute_hypervolume` as written today is the hand model's `computeHypervolume`, for every array,
reference point (±∞ / NaN included) and `assume_pareto`:
the `<=` check raises ValueError; a non-finite reference point answers inf;
rows that touch the reference point are dropped; nothing left answers 0;
unique + Pareto pre-filter or the column-0 sort; the 2-D sweep or the WFG recursion; a non-finite result is mapped to inf. -/
theorem gen_compute_hypervolume_eq (S : List (List EInt)) (r : List EInt) (ap : Bool) :
    chvGen prog S r ap = .out (computeHypervolume S r ap) := by
  have hle : (fun p => allCmpE .le p r) = (fun p => allLeE p r) := by funext p; exact allCmpE_le p r
  have hlt : (fun p => allCmpE .lt p r) = (fun p => allLtE p r) := by funext p; exact allCmpE_lt p r
  unfold chvGen computeHypervolume
  rw [show prog.chv = [.raiseUnlessAll .le, .retInfUnlessRefFinite, .keepRowsAll .lt, .retIfEmpty 0,
    .sortBranch (.uniqueFront true) .argsort0, .dispatch 2, .retFiniteOrInf] from rfl]
  simp only [runC, CStmt.step, hle, hlt]
  by_cases h1 : (!(S.all (fun p => allLeE p r))) = true
  · simp [h1]
  · simp only [h1, Bool.false_eq_true, if_false]
    by_cases h2 : (!(r.all EInt.isFinite)) = true
    · simp [h2]
    · simp only [h2, Bool.false_eq_true, if_false]
      by_cases h3 : (S.filter (fun p => allLtE p r)).isEmpty = true
      · simp [h3]
      · simp only [h3, Bool.false_eq_true, if_false]
        by_cases h4 : (S.filter (fun p => allLtE p r)).any (fun p => p.any (fun c => !c.isFinite)) = true
        · simp [h4]
        · simp only [h4, Bool.false_eq_true, if_false]
          simp only [computeHypervolumeFin, sortGen, frontOf, List.length_map, if_true, gen_compute_2d_eq, gen_compute_hv_eq, computeHv]
          cases ap <;> simp

example : chvGen prog [[.fin 0, .fin 0], [.fin 1, .fin 1], [.fin 1, .fin 1]] [.fin 2, .fin 2] false = .out (.fin 4) ∧
    chvGen prog [[.ninf, .fin 5]] [.fin 5, .fin 5] false = .out (.fin 0) ∧
    chvGen prog [[.ninf, .fin 4]] [.fin 5, .fin 5] false = .out .inf ∧
    chvGen prog [[.fin 0, .fin 2]] [.fin 1, .fin 1] true = .out .error ∧
    chvGen prog [[.fin 0, .fin 0, .fin 0], [.fin 1, .fin 1, .fin 1]] [.fin 2, .fin 2, .fin 2] true = .out (.fin 8) := by decide


/-! ## `_solve_hssp` -/

open OptunaVerif.HsspIR in
/-- **gen_solve_hssp_eq** — `_solve_hssp` as written today, for every array, every `rank_i_indices` of the same length, every `subset_size` and
every solver for unique rows: all ids when `k = n`; with fewer unique rows than `k` the first occurrence of every unique row plus the first
`k - n_unique` remaining positions (a boolean mask, so the result is in position order and has no repetition); otherwise the solver's
selection — always read through `rank_i_indices`. -/
theorem gen_solve_hssp_eq (solver : List Pt → List Nat → Nat → List Nat) (vals : List Pt) (ids : List Nat) (k : Nat) :
    topGen Generated.HsspMethods.prog.top solver vals ids k = .idx (solveHsspRef solver vals ids k) := by
  unfold topGen solveHsspRef
  simp only [Generated.HsspMethods.prog, Generated.HsspMethods.top, SE.eval, sget_cons, sget]
  by_cases hk : k = ids.length
  · simp [hk]
  · have hk' : (k == ids.length) = false := by simpa using hk
    simp only [hk, hk', if_false]
    by_cases hu : (uniqueLex vals).length < k
    · have hle : (uniqueLex vals).length ≤ k := Nat.le_of_lt hu
      simp [hu, hle, hk', setAll_replicate, setAll_map, selMask_map_filter, selMask_range]
      rfl
    · simp [hu, hk']

open OptunaVerif.HsspIR in
example : topGen Generated.HsspMethods.prog.top (fun _ _ _ => []) [[1, 1], [1, 1], [4, 4], [2, 1], [4, 4], [1, 1]] [10, 11, 12, 13, 14, 15] 5 =
    .idx [10, 11, 12, 13, 14] := by decide


/-! ## `_solve_hssp_on_unique_loss_vals` (with `_lazy_contribs_update` and `_solve_hssp_2d` as parameters) -/

open OptunaVerif.HsspIR OptunaVerif.Hssp in
theorem eraseIdx_map' {α β : Type} (f : α → β) (l : List α) (m : Nat) : (l.map f).eraseIdx m = (l.eraseIdx m).map f := by
  induction l generalizing m with
  | nil => rfl
  | cons a t ih => cases m <;> simp [List.eraseIdx, ih]

open OptunaVerif.HsspIR OptunaVerif.Hssp in
/-- the generated loop on the three parallel arrays `contribs` / `indices` / `rank_i_loss_vals` is the hand model's loop on candidate records:
first-maximum pick, the picked position dropped from all three arrays, no update after the last pick, the recorded rows handed to the lazy update -/
theorem gen_greedy_loop_eq (r : Pt) (lab : Nat → Nat) (k : Nat) : ∀ (T : List Trip) (sel : List Pt),
    (greedyGen Generated.HsspMethods.prog.greedy (fun cs vs s => lazyUpdate r cs vs s) k
      (T.map (fun t => t.2.2)) (T.map (fun t => t.2.1)) (T.map (fun t => t.1)) sel).map lab =
    (greedyLazy r k (T.map (toCand lab)) sel).map (fun c => c.label) := by
  induction k with
  | zero => intro T sel; rfl
  | succ k ih =>
    intro T sel
    have hflags : Generated.HsspMethods.prog.greedy.pick = .argmaxFirst ∧ Generated.HsspMethods.prog.greedy.dropFromContribs = true ∧
        Generated.HsspMethods.prog.greedy.dropFromIndices = true ∧ Generated.HsspMethods.prog.greedy.dropFromVals = true ∧
        Generated.HsspMethods.prog.greedy.recordsIndexOfPick = true ∧ Generated.HsspMethods.prog.greedy.recordsVecOfPick = true ∧
        Generated.HsspMethods.prog.greedy.breakAtLast = true ∧ Generated.HsspMethods.prog.greedy.lazySliceExtra = 2 := by decide
    obtain ⟨f1, f2, f3, f4, f5, f6, f7, f8⟩ := hflags
    have hc : (T.map (toCand lab)).map (fun c => c.contrib) = T.map (fun t => t.2.2) := by simp [toCand]
    unfold greedyGen greedyLazy
    simp only [f1, f2, f3, f4, f5, f6, f7, f8, Pick.eval, hc, List.getElem?_map, if_true]
    cases hm : T[argmax (T.map (fun t => t.2.2))]? with
    | none => simp
    | some t =>
      simp only [Option.map_some]
      by_cases hk : k = 0
      · subst hk; simp [toCand]
      · have hk' : (k == 0) = false := by simpa using hk
        simp only [hk, hk', Bool.true_and, Bool.false_eq_true, if_false, List.map_cons, eraseIdx_map', toCand]
        have hlen : (lazyUpdate r ((T.eraseIdx (argmax (T.map (fun t => t.2.2)))).map (fun t => t.2.2))
            ((T.eraseIdx (argmax (T.map (fun t => t.2.2)))).map (fun t => t.1)) (sel ++ [t.1])).length =
            (T.eraseIdx (argmax (T.map (fun t => t.2.2)))).length := by rw [lazyUpdate_length]; simp
        obtain ⟨p1, p2, p3⟩ := repl_proj _ _ hlen
        have hmapc : ((T.eraseIdx (argmax (T.map (fun t => t.2.2)))).map (toCand lab)).map (fun c => c.contrib) =
            (T.eraseIdx (argmax (T.map (fun t => t.2.2)))).map (fun t => t.2.2) := by simp [toCand]
        have hmapp : ((T.eraseIdx (argmax (T.map (fun t => t.2.2)))).map (toCand lab)).map (fun c => c.pt) =
            (T.eraseIdx (argmax (T.map (fun t => t.2.2)))).map (fun t => t.1) := by simp [toCand]
        have := ih (repl (T.eraseIdx (argmax (T.map (fun t => t.2.2))))
          (lazyUpdate r ((T.eraseIdx (argmax (T.map (fun t => t.2.2)))).map (fun t => t.2.2))
            ((T.eraseIdx (argmax (T.map (fun t => t.2.2)))).map (fun t => t.1)) (sel ++ [t.1]))) (sel ++ [t.1])
        rw [p1, p2, p3] at this
        show lab t.2.1 :: _ = _
        rw [this]
        simp only [hmapc, hmapp, setContribs_map lab _ _ hlen, toCand]


open OptunaVerif.HsspIR OptunaVerif.Hssp in
theorem zipIdx_cands (r : Pt) (labels : List Nat) (U : List Pt) : ∀ o, o + U.length = labels.length →
    (U.zipIdx o).map (fun x => toCand (fun j => labels.getD j 0) (x.1, x.2, vol r x.1)) =
    (U.zip (labels.drop o)).map (fun e => ({ pt := e.1, label := e.2, contrib := vol r e.1 } : Cand)) := by
  induction U with
  | nil => intro o _; rfl
  | cons p U ih =>
    intro o h
    have hlt : o < labels.length := by simp only [List.length_cons] at h; omega
    rw [List.drop_eq_getElem_cons hlt]
    have := ih (o + 1) (by simp only [List.length_cons] at h; omega)
    simp only [List.zipIdx_cons, List.map_cons, List.zip_cons_cons, this]
    simp [toCand, List.getD_eq_getElem?_getD, List.getElem?_eq_getElem hlt]

open OptunaVerif.HsspIR OptunaVerif.Hssp in
theorem zipIdx_proj (r : Pt) (U : List Pt) : ∀ o,
    ((U.zipIdx o).map (fun x => ((x.1, x.2, vol r x.1) : Trip))).map (fun t => t.1) = U ∧
    ((U.zipIdx o).map (fun x => ((x.1, x.2, vol r x.1) : Trip))).map (fun t => t.2.1) = List.range' o U.length ∧
    ((U.zipIdx o).map (fun x => ((x.1, x.2, vol r x.1) : Trip))).map (fun t => t.2.2) = U.map (vol r) := by
  induction U with
  | nil => intro o; simp
  | cons p U ih =>
    intro o
    obtain ⟨h1, h2, h3⟩ := ih (o + 1)
    simp only [List.map_map] at h1 h2 h3
    simp [List.zipIdx_cons, List.range'_succ, h1, h2, h3]

open OptunaVerif.HsspIR OptunaVerif.Hssp in
/-- **gen_solve_on_unique_eq** — `_solve_hssp_on_unique_loss_vals` as written today, with `_lazy_contribs_update` and `_solve_hssp_2d` taken as the
hand model's `lazyUpdate` / `hssp2dLoop` (PARAMETERS: they have no interpreter yet): the three early returns, the initial contributions
`prod(ref - row)`, the greedy loop, and the final `rank_i_indices[selected_indices]` are the hand model's `solveOnUnique`, for every
unique-row array, label array of the same length, `k`, reference point. -/
theorem gen_solve_on_unique_eq_partial (U : List Pt) (labels : List Nat) (k : Nat) (r : Pt) (fin : Bool) (hlen : labels.length = U.length) :
    uniqueGen Generated.HsspMethods.prog.greedy (fun cs vs s => lazyUpdate r cs vs s)
      (fun U labels k => hssp2dLoop k ((U.zip labels).map (fun e => { pt := e.1, label := e.2, dx := x0 r, dy := y1 r }))) U labels k r fin =
    solveOnUnique U labels k r fin := by
  unfold uniqueGen solveOnUnique
  have hf : Generated.HsspMethods.prog.greedy.refNotFiniteReturnsPrefix = true ∧ Generated.HsspMethods.prog.greedy.sizeEqReturnsAll = true ∧
      Generated.HsspMethods.prog.greedy.dispatch2d = 2 ∧ Generated.HsspMethods.prog.greedy.resultThroughIds = true := by decide
  obtain ⟨g1, g2, g3, g4⟩ := hf
  simp only [g1, g2, g3, g4, Bool.true_and, if_true]
  cases fin
  · simp
  · simp only [Bool.not_true, Bool.false_eq_true, if_false]
    by_cases hk : labels.length = k
    · simp [hk]
    · have hk' : (labels.length == k) = false := by simpa using hk
      simp only [hk, hk', Bool.false_eq_true, if_false]
      by_cases h2 : r.length = 2
      · simp [h2]
      · simp only [h2, if_false]
        have hcs : vecOf (Generated.HsspMethods.prog.greedy.initContribs.eval [("S", .mat U), ("ref", .vec r)]) = U.map (vol r) := by
          simp [Generated.HsspMethods.prog, Generated.HsspMethods.greedy, HE.eval, hget_cons, hget, vecOf, prodL_subL]
        obtain ⟨p1, p2, p3⟩ := zipIdx_proj r U 0
        have hloop := gen_greedy_loop_eq r (fun j => labels.getD j 0) k
          ((U.zipIdx 0).map (fun x => ((x.1, x.2, vol r x.1) : Trip))) []
        rw [p1, p2, p3, ← List.range_eq_range'] at hloop
        rw [hcs, hloop, List.map_map]
        have hz := zipIdx_cands r labels U 0 (by simp [hlen])
        simp only [List.drop_zero] at hz
        have hcomp : ((toCand fun j => labels.getD j 0) ∘ fun (x : Pt × Nat) => ((x.1, x.2, vol r x.1) : Trip)) =
            (fun x => toCand (fun j => labels.getD j 0) (x.1, x.2, vol r x.1)) := rfl
        rw [hcomp, hz]

end OptunaVerif.C15Gen
