import OptunaVerif.Generated.HvMethods
import OptunaVerif.Generated.HvShapes
import OptunaVerif.Lemmas.HvExpected
import OptunaVerif.Lemmas.HsspIR
import OptunaVerif.Lemmas.RankIR
set_option linter.unusedSimpArgs false
namespace OptunaVerif.C15Gen
open OptunaVerif OptunaVerif.Hypervolume OptunaVerif.HvIR
open OptunaVerif.Generated.HvMethods (prog)

/-! ## shape pins: the normalised source text of every function in scope is the reviewed snapshot -/

theorem compute_2d_shape : Generated.HvShapes.compute2dSrc = HvExpected.compute2dSrc := rfl
theorem compute_hv_shape : Generated.HvShapes.computeHvSrc = HvExpected.computeHvSrc := rfl
theorem compute_exclusive_hv_shape : Generated.HvShapes.computeExclusiveHvSrc = HvExpected.computeExclusiveHvSrc := rfl
theorem compute_hypervolume_shape : Generated.HvShapes.computeHypervolumeSrc = HvExpected.computeHypervolumeSrc := rfl
theorem solve_hssp_2d_shape : Generated.HvShapes.solveHssp2dSrc = HvExpected.solveHssp2dSrc := rfl
theorem lazy_contribs_update_shape : Generated.HvShapes.lazyContribsUpdateSrc = HvExpected.lazyContribsUpdateSrc := rfl
theorem solve_hssp_on_unique_loss_vals_shape : Generated.HvShapes.solveHsspOnUniqueSrc = HvExpected.solveHsspOnUniqueSrc := rfl
theorem solve_hssp_shape : Generated.HvShapes.solveHsspSrc = HvExpected.solveHsspSrc := rfl
theorem fast_non_domination_rank_shape : Generated.HvShapes.fastNonDominationRankSrc = HvExpected.fastNonDominationRankSrc := rfl
theorem calculate_nondomination_rank_shape :
    Generated.HvShapes.calculateNondominationRankSrc = HvExpected.calculateNondominationRankSrc := rfl
theorem module_level_shape : Generated.HvShapes.wfgModuleLevelSrc = HvExpected.wfgModuleLevelSrc ∧
    Generated.HvShapes.hsspModuleLevelSrc = HvExpected.hsspModuleLevelSrc := ⟨rfl, rfl⟩


/-! ## `_compute_2d` -/

theorem hget_cons (k : String) (v : HVal) (env : List (String × HVal)) (n : String) :
    hget ((k, v) :: env) n = if k == n then v else hget env n := by
  unfold hget
  simp only [List.find?_cons]
  cases h : (k == n) <;> simp

theorem x0_getD (p : Pt) : p.getD 0 0 = x0 p := by cases p <;> rfl
theorem y1_getD (p : Pt) : p.getD 1 0 = y1 p := by
  cases p with
  | nil => rfl
  | cons a t => cases t <;> rfl

/-- the rows after the first one: `(ref[0] - x) @ (rect_diag_y - y)` with the running minimum `m` carried along -/
theorem c2d_go (r0 m : Int) (t : List Pt) :
    dotL ((t.map x0).map (fun x => r0 - x))
      (subL ((m :: cumminFromI m (t.map y1)).dropLast) (cumminFromI m (t.map y1))) = compute2dGo r0 m t := by
  induction t generalizing m with
  | nil => rfl
  | cons p t ih =>
    have := ih (min m (y1 p))
    simp only [List.map_cons, cumminFromI, List.dropLast_cons_cons, subL, List.zipWith_cons_cons, dotL, sumL, List.foldr_cons,
      compute2dGo] at this ⊢
    rw [this]

/-- **gen_compute_2d_eq** — `_compute_2d` as written today (running minimum of the second column, the shifted diagonal, the dot product)
is the hand model's sweep `compute2d`, for every array and reference point. -/
theorem gen_compute_2d_eq (r : Pt) (S : List Pt) : c2dGen prog.c2d r S = compute2d r S := by
  cases S with
  | nil =>
    simp [c2dGen, prog, Generated.HvMethods.c2d, HE.eval, hget_cons, hget, numOf, cumminI, subL, dotL, sumL, compute2d]
  | cons p t =>
    have h := c2d_go (x0 r) (y1 p) t
    have hx : (fun (q : Pt) => q.getD 0 0) = x0 := funext x0_getD
    have hy : (fun (q : Pt) => q.getD 1 0) = y1 := funext y1_getD
    simp only [c2dGen, prog, Generated.HvMethods.c2d, HE.eval, hget_cons, hget, numOf]
    simp [-List.getD_eq_getElem?_getD, hx, hy, x0_getD, y1_getD, cumminI]
    simp only [compute2d, ← h, dotL, subL, sumL, List.map_map]
    cases hc : cumminFromI (y1 p) (t.map y1) with
    | nil => simp [List.dropLast]
    | cons a b => simp [List.dropLast_cons_cons]

example : c2dGen prog.c2d [4, 4] [[0, 3], [1, 2], [1, 1], [1, 1], [2, 3], [3, 0]] = 11 := by decide


/-! ## `_compute_hv` / `_compute_exclusive_hv` -/

theorem prodL_subL (r p : Pt) : prodL (subL r p) = vol r p := by
  induction r generalizing p with
  | nil => cases p <;> rfl
  | cons b r ih =>
    cases p with
    | nil => rfl
    | cons a p => simp [subL, prodL, vol, ← ih p]

theorem gen_incl_eq (r : Pt) (S : List Pt) :
    vecOf (prog.wfg.incl.eval [("S", .mat S), ("ref", .vec r)]) = S.map (vol r) := by
  simp [prog, Generated.HvMethods.wfg, HE.eval, hget_cons, hget, vecOf, prodL_subL]

/-- `_compute_exclusive_hv` as written today: the inclusive volume when nothing is left, else minus the hypervolume of the
weakly-non-dominated limited points -/
theorem gen_exclusive_eq (d : Nat) (rec : List Pt → Int) (limited : List Pt) (inc : Int) :
    exclGen prog.wfg (frontOf d) rec limited inc = exclusiveHv d rec limited inc := by
  cases h : limited.isEmpty <;>
    simp [exclGen, prog, Generated.HvMethods.wfg, HE.eval, hget_cons, hget, numOf, exclusiveHv, frontOf, h]

/-- the `sum(… for i, inclusive_hv in enumerate(inclusive_hvs))` over `limited_sols_array[i, i + 1:]` is the hand model's `sumExcl` -/
theorem gen_sum_eq (d : Nat) (r : Pt) (rec : List Pt → Int) (S : List Pt) :
    sumL ((List.range S.length).map (fun i =>
      exclusiveHv d rec ((S.drop (i + 1)).map (pmax (S.getD i []))) ((S.map (vol r)).getD i 0))) = sumExcl d r rec S := by
  induction S with
  | nil => rfl
  | cons p rest ih =>
    rw [List.length_cons, List.range_succ_eq_map, List.map_cons, List.map_map]
    simp only [sumL, List.foldr_cons, sumExcl]
    have : sumL ((List.range rest.length).map ((fun i =>
        exclusiveHv d rec (((p :: rest).drop (i + 1)).map (pmax ((p :: rest).getD i []))) (((p :: rest).map (vol r)).getD i 0)) ∘ Nat.succ)) =
        sumExcl d r rec rest := by
      rw [← ih]; congr 1
    simp only [sumL] at this
    rw [this]
    simp

/-- **gen_compute_hv_eq** — `_compute_hv` / `_compute_exclusive_hv` as written today (inclusive volumes, the 1- and 2-point formulas, the
pair-maximum array, the suffix slices, the Pareto filter with `assume_unique_lexsorted=True`, `inclusive - recursive`) is the hand
model's WFG recursion `hvFuel`, for every dimension, reference point, array and recursion budget. -/
theorem gen_compute_hv_eq (d : Nat) (r : Pt) (fuel : Nat) (S : List Pt) :
    hvGen prog.wfg (frontOf d) r fuel S = hvFuel d r fuel S := by
  induction fuel generalizing S with
  | zero => rfl
  | succ fuel ih =>
    have hrec : hvGen prog.wfg (frontOf d) r fuel = hvFuel d r fuel := funext ih
    have hex : (fun (limited : List Pt) (inc : Int) => exclGen prog.wfg (frontOf d) (hvFuel d r fuel) limited inc) =
        (fun limited inc => exclusiveHv d (hvFuel d r fuel) limited inc) := by
      funext l i; exact gen_exclusive_eq d _ l i
    unfold hvGen
    simp only [gen_incl_eq, hrec]
    match S with
    | [] => simp [prog, Generated.HvMethods.wfg, hvFuel, sumL]
    | [p] =>
      simp [prog, Generated.HvMethods.wfg, hvFuel, HE.eval, hget_cons, hget, numOf]
    | [p, q] =>
      simp [prog, Generated.HvMethods.wfg, hvFuel, HE.eval, hget_cons, hget, numOf, sumL, prodL_subL]
    | p :: q :: s :: rest =>
      have hs := gen_sum_eq d r (hvFuel d r fuel) (p :: q :: s :: rest)
      have hfind : prog.wfg.cases.find? (fun c => c.1 == ((p :: q :: s :: rest).map (vol r)).length) = none := by
        simp [prog, Generated.HvMethods.wfg]
      have hflags : (prog.wfg.limitedPairMax && prog.wfg.sumOverEnumerate) = true ∧ prog.wfg.sliceOffset = 1 := by decide
      rw [hfind]
      simp only [hflags.1, hflags.2, if_true, List.length_map]
      rw [show (fun i => exclGen prog.wfg (frontOf d) (hvFuel d r fuel)
            (((p :: q :: s :: rest).drop (i + 1)).map (pmax ((p :: q :: s :: rest).getD i [])))
            (((p :: q :: s :: rest).map (vol r)).getD i 0)) =
          (fun i => exclusiveHv d (hvFuel d r fuel)
            (((p :: q :: s :: rest).drop (i + 1)).map (pmax ((p :: q :: s :: rest).getD i [])))
            (((p :: q :: s :: rest).map (vol r)).getD i 0)) from by funext i; exact gen_exclusive_eq d _ _ _]
      rw [hs]
      rfl

example : hvGen prog.wfg (frontOf 3) [3, 3, 3] 4 [[0, 2, 1], [1, 1, 1], [1, 1, 1], [2, 0, 0]] = 15 := by decide


/-! ## `compute_hypervolume` -/

theorem allCmpE_le (p q : List EInt) : allCmpE .le p q = allLeE p q := by
  induction p generalizing q with
  | nil => cases q <;> rfl
  | cons a p ih => cases q with
    | nil => rfl
    | cons b q => simp [allCmpE, allLeE, HCmp.evalE, ih]

theorem allCmpE_lt (p q : List EInt) : allCmpE .lt p q = allLtE p q := by
  induction p generalizing q with
  | nil => cases q <;> rfl
  | cons a p ih => cases q with
    | nil => rfl
    | cons b q => simp [allCmpE, allLtE, HCmp.evalE, ih]

/-- **gen_compute_hypervolume_eq** — `compute_hypervolume` as written today is the hand model's `computeHypervolume`, for every array,
reference point (±∞ / NaN included) and `assume_pareto`:
the `<=` check raises ValueError; a non-finite reference point answers inf;
rows that touch the reference point are dropped; nothing left answers 0;
unique + Pareto pre-filter or the column-0 sort; the 2-D sweep or the WFG recursion; a non-finite result is mapped to inf. -/
theorem gen_compute_hypervolume_eq (S : List (List EInt)) (r : List EInt) (ap : Bool) :
    chvGen prog S r ap = .out (computeHypervolume S r ap) := by
  have hle : (fun p => allCmpE .le p r) = (fun p => allLeE p r) := by funext p; exact allCmpE_le p r
  have hlt : (fun p => allCmpE .lt p r) = (fun p => allLtE p r) := by funext p; exact allCmpE_lt p r
  unfold chvGen computeHypervolume
  rw [show prog.chv = [.raiseUnlessAll .le, .retInfUnlessRefFinite, .keepRowsAll .lt, .retIfEmpty 0,
    .sortBranch (.uniqueFront true) .argsort0, .dispatch 2, .retFiniteOrInf] from rfl]
  simp only [runC, CStmt.step, hle, hlt]
  by_cases h1 : (!(S.all (fun p => allLeE p r))) = true
  · simp [h1]
  · simp only [h1, Bool.false_eq_true, if_false]
    by_cases h2 : (!(r.all EInt.isFinite)) = true
    · simp [h2]
    · simp only [h2, Bool.false_eq_true, if_false]
      by_cases h3 : (S.filter (fun p => allLtE p r)).isEmpty = true
      · simp [h3]
      · simp only [h3, Bool.false_eq_true, if_false]
        by_cases h4 : (S.filter (fun p => allLtE p r)).any (fun p => p.any (fun c => !c.isFinite)) = true
        · simp [h4]
        · simp only [h4, Bool.false_eq_true, if_false]
          simp only [computeHypervolumeFin, sortGen, frontOf, List.length_map, if_true, gen_compute_2d_eq, gen_compute_hv_eq, computeHv]
          cases ap <;> simp

example : chvGen prog [[.fin 0, .fin 0], [.fin 1, .fin 1], [.fin 1, .fin 1]] [.fin 2, .fin 2] false = .out (.fin 4) ∧
    chvGen prog [[.ninf, .fin 5]] [.fin 5, .fin 5] false = .out (.fin 0) ∧
    chvGen prog [[.ninf, .fin 4]] [.fin 5, .fin 5] false = .out .inf ∧
    chvGen prog [[.fin 0, .fin 2]] [.fin 1, .fin 1] true = .out .error ∧
    chvGen prog [[.fin 0, .fin 0, .fin 0], [.fin 1, .fin 1, .fin 1]] [.fin 2, .fin 2, .fin 2] true = .out (.fin 8) := by decide


/-! ## `_solve_hssp` -/

open OptunaVerif.HsspIR in
/-- **gen_solve_hssp_eq** — `_solve_hssp` as written today, for every array, every `rank_i_indices` of the same length, every `subset_size` and
every solver for unique rows: all ids when `k = n`; with fewer unique rows than `k` the first occurrence of every unique row plus the first
`k - n_unique` remaining positions (a boolean mask, so the result is in position order and has no repetition); otherwise the solver's
selection — always read through `rank_i_indices`. -/
theorem gen_solve_hssp_eq (solver : List Pt → List Nat → Nat → List Nat) (vals : List Pt) (ids : List Nat) (k : Nat) :
    topGen Generated.HsspMethods.prog.top solver vals ids k = .idx (solveHsspRef solver vals ids k) := by
  unfold topGen solveHsspRef
  simp only [Generated.HsspMethods.prog, Generated.HsspMethods.top, SE.eval, sget_cons, sget]
  by_cases hk : k = ids.length
  · simp [hk]
  · have hk' : (k == ids.length) = false := by simpa using hk
    simp only [hk, hk', if_false]
    by_cases hu : (uniqueLex vals).length < k
    · have hle : (uniqueLex vals).length ≤ k := Nat.le_of_lt hu
      simp [hu, hle, hk', setAll_replicate, setAll_map, selMask_map_filter, selMask_range]
      rfl
    · simp [hu, hk']

open OptunaVerif.HsspIR in
example : topGen Generated.HsspMethods.prog.top (fun _ _ _ => []) [[1, 1], [1, 1], [4, 4], [2, 1], [4, 4], [1, 1]] [10, 11, 12, 13, 14, 15] 5 =
    .idx [10, 11, 12, 13, 14] := by decide


/-! ## `_solve_hssp_on_unique_loss_vals` (with `_lazy_contribs_update` and `_solve_hssp_2d` as parameters) -/

open OptunaVerif.HsspIR OptunaVerif.Hssp in
theorem eraseIdx_map' {α β : Type} (f : α → β) (l : List α) (m : Nat) : (l.map f).eraseIdx m = (l.eraseIdx m).map f := by
  induction l generalizing m with
  | nil => rfl
  | cons a t ih => cases m <;> simp [List.eraseIdx, ih]

open OptunaVerif.HsspIR OptunaVerif.Hssp in
/-- the generated loop on the three parallel arrays `contribs` / `indices` / `rank_i_loss_vals` is the hand model's loop on candidate records:
first-maximum pick, the picked position dropped from all three arrays, no update after the last pick, the recorded rows handed to the lazy update -/
theorem gen_greedy_loop_eq (r : Pt) (lab : Nat → Nat) (k : Nat) : ∀ (T : List Trip) (sel : List Pt),
    (greedyGen Generated.HsspMethods.prog.greedy (fun cs vs s => lazyUpdate r cs vs s) k
      (T.map (fun t => t.2.2)) (T.map (fun t => t.2.1)) (T.map (fun t => t.1)) sel).map lab =
    (greedyLazy r k (T.map (toCand lab)) sel).map (fun c => c.label) := by
  induction k with
  | zero => intro T sel; rfl
  | succ k ih =>
    intro T sel
    have hflags : Generated.HsspMethods.prog.greedy.pick = .argmaxFirst ∧ Generated.HsspMethods.prog.greedy.dropFromContribs = true ∧
        Generated.HsspMethods.prog.greedy.dropFromIndices = true ∧ Generated.HsspMethods.prog.greedy.dropFromVals = true ∧
        Generated.HsspMethods.prog.greedy.recordsIndexOfPick = true ∧ Generated.HsspMethods.prog.greedy.recordsVecOfPick = true ∧
        Generated.HsspMethods.prog.greedy.breakAtLast = true ∧ Generated.HsspMethods.prog.greedy.lazySliceExtra = 2 := by decide
    obtain ⟨f1, f2, f3, f4, f5, f6, f7, f8⟩ := hflags
    have hc : (T.map (toCand lab)).map (fun c => c.contrib) = T.map (fun t => t.2.2) := by simp [toCand]
    unfold greedyGen greedyLazy
    simp only [f1, f2, f3, f4, f5, f6, f7, f8, Pick.eval, hc, List.getElem?_map, if_true]
    cases hm : T[argmax (T.map (fun t => t.2.2))]? with
    | none => simp
    | some t =>
      simp only [Option.map_some]
      by_cases hk : k = 0
      · subst hk; simp [toCand]
      · have hk' : (k == 0) = false := by simpa using hk
        simp only [hk, hk', Bool.true_and, Bool.false_eq_true, if_false, List.map_cons, eraseIdx_map', toCand]
        have hlen : (lazyUpdate r ((T.eraseIdx (argmax (T.map (fun t => t.2.2)))).map (fun t => t.2.2))
            ((T.eraseIdx (argmax (T.map (fun t => t.2.2)))).map (fun t => t.1)) (sel ++ [t.1])).length =
            (T.eraseIdx (argmax (T.map (fun t => t.2.2)))).length := by rw [lazyUpdate_length]; simp
        obtain ⟨p1, p2, p3⟩ := repl_proj _ _ hlen
        have hmapc : ((T.eraseIdx (argmax (T.map (fun t => t.2.2)))).map (toCand lab)).map (fun c => c.contrib) =
            (T.eraseIdx (argmax (T.map (fun t => t.2.2)))).map (fun t => t.2.2) := by simp [toCand]
        have hmapp : ((T.eraseIdx (argmax (T.map (fun t => t.2.2)))).map (toCand lab)).map (fun c => c.pt) =
            (T.eraseIdx (argmax (T.map (fun t => t.2.2)))).map (fun t => t.1) := by simp [toCand]
        have := ih (repl (T.eraseIdx (argmax (T.map (fun t => t.2.2))))
          (lazyUpdate r ((T.eraseIdx (argmax (T.map (fun t => t.2.2)))).map (fun t => t.2.2))
            ((T.eraseIdx (argmax (T.map (fun t => t.2.2)))).map (fun t => t.1)) (sel ++ [t.1]))) (sel ++ [t.1])
        rw [p1, p2, p3] at this
        show lab t.2.1 :: _ = _
        rw [this]
        simp only [hmapc, hmapp, setContribs_map lab _ _ hlen, toCand]


open OptunaVerif.HsspIR OptunaVerif.Hssp in
theorem zipIdx_cands (r : Pt) (labels : List Nat) (U : List Pt) : ∀ o, o + U.length = labels.length →
    (U.zipIdx o).map (fun x => toCand (fun j => labels.getD j 0) (x.1, x.2, vol r x.1)) =
    (U.zip (labels.drop o)).map (fun e => ({ pt := e.1, label := e.2, contrib := vol r e.1 } : Cand)) := by
  induction U with
  | nil => intro o _; rfl
  | cons p U ih =>
    intro o h
    have hlt : o < labels.length := by simp only [List.length_cons] at h; omega
    rw [List.drop_eq_getElem_cons hlt]
    have := ih (o + 1) (by simp only [List.length_cons] at h; omega)
    simp only [List.zipIdx_cons, List.map_cons, List.zip_cons_cons, this]
    simp [toCand, List.getD_eq_getElem?_getD, List.getElem?_eq_getElem hlt]

open OptunaVerif.HsspIR OptunaVerif.Hssp in
theorem zipIdx_proj (r : Pt) (U : List Pt) : ∀ o,
    ((U.zipIdx o).map (fun x => ((x.1, x.2, vol r x.1) : Trip))).map (fun t => t.1) = U ∧
    ((U.zipIdx o).map (fun x => ((x.1, x.2, vol r x.1) : Trip))).map (fun t => t.2.1) = List.range' o U.length ∧
    ((U.zipIdx o).map (fun x => ((x.1, x.2, vol r x.1) : Trip))).map (fun t => t.2.2) = U.map (vol r) := by
  induction U with
  | nil => intro o; simp
  | cons p U ih =>
    intro o
    obtain ⟨h1, h2, h3⟩ := ih (o + 1)
    simp only [List.map_map] at h1 h2 h3
    simp [List.zipIdx_cons, List.range'_succ, h1, h2, h3]

open OptunaVerif.HsspIR OptunaVerif.Hssp in
/-- **gen_solve_on_unique_eq** — `_solve_hssp_on_unique_loss_vals` as written today, with `_lazy_contribs_update` and `_solve_hssp_2d` taken as the
hand model's `lazyUpdate` / `hssp2dLoop` (PARAMETERS: they have no interpreter yet): the three early returns, the initial contributions
`prod(ref - row)`, the greedy loop, and the final `rank_i_indices[selected_indices]` are the hand model's `solveOnUnique`, for every
unique-row array, label array of the same length, `k`, reference point. -/
theorem gen_solve_on_unique_eq_partial (U : List Pt) (labels : List Nat) (k : Nat) (r : Pt) (fin : Bool) (hlen : labels.length = U.length) :
    uniqueGen Generated.HsspMethods.prog.greedy (fun cs vs s => lazyUpdate r cs vs s)
      (fun U labels k => hssp2dLoop k ((U.zip labels).map (fun e => { pt := e.1, label := e.2, dx := x0 r, dy := y1 r }))) U labels k r fin =
    solveOnUnique U labels k r fin := by
  unfold uniqueGen solveOnUnique
  have hf : Generated.HsspMethods.prog.greedy.refNotFiniteReturnsPrefix = true ∧ Generated.HsspMethods.prog.greedy.sizeEqReturnsAll = true ∧
      Generated.HsspMethods.prog.greedy.dispatch2d = 2 ∧ Generated.HsspMethods.prog.greedy.resultThroughIds = true := by decide
  obtain ⟨g1, g2, g3, g4⟩ := hf
  simp only [g1, g2, g3, g4, Bool.true_and, if_true]
  cases fin
  · simp
  · simp only [Bool.not_true, Bool.false_eq_true, if_false]
    by_cases hk : labels.length = k
    · simp [hk]
    · have hk' : (labels.length == k) = false := by simpa using hk
      simp only [hk, hk', Bool.false_eq_true, if_false]
      by_cases h2 : r.length = 2
      · simp [h2]
      · simp only [h2, if_false]
        have hcs : vecOf (Generated.HsspMethods.prog.greedy.initContribs.eval [("S", .mat U), ("ref", .vec r)]) = U.map (vol r) := by
          simp [Generated.HsspMethods.prog, Generated.HsspMethods.greedy, HE.eval, hget_cons, hget, vecOf, prodL_subL]
        obtain ⟨p1, p2, p3⟩ := zipIdx_proj r U 0
        have hloop := gen_greedy_loop_eq r (fun j => labels.getD j 0) k
          ((U.zipIdx 0).map (fun x => ((x.1, x.2, vol r x.1) : Trip))) []
        rw [p1, p2, p3, ← List.range_eq_range'] at hloop
        rw [hcs, hloop, List.map_map]
        have hz := zipIdx_cands r labels U 0 (by simp [hlen])
        simp only [List.drop_zero] at hz
        have hcomp : ((toCand fun j => labels.getD j 0) ∘ fun (x : Pt × Nat) => ((x.1, x.2, vol r x.1) : Trip)) =
            (fun x => toCand (fun j => labels.getD j 0) (x.1, x.2, vol r x.1)) := rfl
        rw [hcomp, hz]

/-! ## the two rank functions of `optuna/study/_multi_objective.py` (interpreter of the generated statement lists, `Model/RankIR.lean`) -/

namespace RankLoop
open OptunaVerif.RankIR

/-! ## the `while` loop of `_calculate_nondomination_rank` -/

/-- the loop statement of the generated body -/
def calcLoop : Option (RE × List Simple) :=
  Generated.RankMethods.calcBody.findSome? (fun st => match st with | .whileS c b => some (c, b) | _ => none)

/-- the variables of `_calculate_nondomination_rank` at the loop -/
def loopEnv (d : Nat) (S : List Pt) (nb' : Int) (nU : Nat) (inv : List Int) (st : PeelSt) : Env :=
  [("loss_values", .mat d S), ("n_below", .int nb'), ("n_trials", .int S.length), ("n_objectives", .int d),
   ("unique_lexsorted_loss_values", .mat d st.arr), ("order_inv", .ints inv), ("n_unique", .int nU), ("ranks", .ints st.ranks),
   ("rank", .int st.rank), ("indices", .ints st.indices)]

theorem calcLoop_some : ∃ c b, calcLoop = some (c, b) := ⟨_, _, rfl⟩

def theC : RE := (calcLoop.getD (.none_, [])).1
def theB : List Simple := (calcLoop.getD (.none_, [])).2

theorem gen_calculate_rank_eq_loop_step (front : Nat → List Pt → List Pt) (d : Nat) (S : List Pt) (nb' : Int) (nU : Nat) (inv : List Int) :
    ∀ fuel (st : PeelSt) (x : RV), ∃ x',
      loopW front noCalc theC theB fuel (loopEnv d S nb' nU inv st ++ [("on_front", x)]) =
        loopEnv d S nb' nU inv (peelRef front d nU nb' fuel st) ++ [("on_front", x')] := by
  intro fuel
  induction fuel with
  | zero => intro st x; exact ⟨x, rfl⟩
  | succ f ih =>
    intro st x
    simp only [loopW, peelRef]
    have hc : theC.eval front noCalc (loopEnv d S nb' nU inv st ++ [("on_front", x)]) = .bool (decide ((nU : Int) - (st.indices.length : Int) < nb')) := by
      simp [theC, calcLoop, Generated.RankMethods.calcBody, loopEnv, RE.eval, rget_cons, RV.lenV, RV.cmpV, Cmp.eval]
    rw [hc]
    by_cases h : (nU : Int) - (st.indices.length : Int) < nb'
    · rw [if_pos (by simp [h]), if_pos h]
      have hb : execSimples front noCalc theB (loopEnv d S nb' nU inv st ++ [("on_front", x)]) =
          loopEnv d S nb' nU inv (PeelSt.mk (st.rank + 1) (selMask st.indices ((frontMaskOf front d st.arr).map (fun x => !x)))
            (selMask st.arr ((frontMaskOf front d st.arr).map (fun x => !x)))
            (scatterIdx st.ranks (selMask st.indices (frontMaskOf front d st.arr)) st.rank)) ++ [("on_front", .mask (frontMaskOf front d st.arr))] := by
        simp [theB, calcLoop, Generated.RankMethods.calcBody, loopEnv, execSimples, Simple.exec, RE.eval, rget_cons, rset_cons, rset_nil, RV.selV]
      rw [hb]
      exact ih _ _
    · rw [if_neg (by simp [h]), if_neg h]
      exact ⟨x, rfl⟩

theorem gen_calculate_rank_eq_loop (front : Nat → List Pt → List Pt) (d : Nat) (S : List Pt) (nb' : Int) (nU : Nat) (inv : List Int) (fuel : Nat) (st : PeelSt) :
    ∃ tl, loopW front noCalc theC theB fuel (loopEnv d S nb' nU inv st) = loopEnv d S nb' nU inv (peelRef front d nU nb' fuel st) ++ tl := by
  cases fuel with
  | zero => exact ⟨[], by simp [loopW, peelRef]⟩
  | succ f =>
    simp only [loopW, peelRef]
    have hc : theC.eval front noCalc (loopEnv d S nb' nU inv st) = .bool (decide ((nU : Int) - (st.indices.length : Int) < nb')) := by
      simp [theC, calcLoop, Generated.RankMethods.calcBody, loopEnv, RE.eval, rget_cons, RV.lenV, RV.cmpV, Cmp.eval]
    rw [hc]
    by_cases h : (nU : Int) - (st.indices.length : Int) < nb'
    · rw [if_pos (by simp [h]), if_pos h]
      have hb : execSimples front noCalc theB (loopEnv d S nb' nU inv st) =
          loopEnv d S nb' nU inv (PeelSt.mk (st.rank + 1) (selMask st.indices ((frontMaskOf front d st.arr).map (fun x => !x)))
            (selMask st.arr ((frontMaskOf front d st.arr).map (fun x => !x)))
            (scatterIdx st.ranks (selMask st.indices (frontMaskOf front d st.arr)) st.rank)) ++ [("on_front", .mask (frontMaskOf front d st.arr))] := by
        simp [theB, calcLoop, Generated.RankMethods.calcBody, loopEnv, execSimples, Simple.exec, RE.eval, rget_cons, rset_cons, rset_nil, RV.selV]
      rw [hb]
      obtain ⟨x', hx⟩ := gen_calculate_rank_eq_loop_step front d S nb' nU inv f _ (.mask (frontMaskOf front d st.arr))
      exact ⟨_, hx⟩
    · rw [if_neg (by simp [h]), if_neg h]
      exact ⟨[], by simp⟩

/-- what follows the prefix of straight-line statements: the loop, the last scatter write, the return -/
def calcTail : List Stmt := Generated.RankMethods.calcBody.drop 11

theorem calcTail_eq : calcTail = [.whileS theC theB, .s (.setIdx "ranks" (.var "indices") (.var "rank")), .ret (.take (.var "ranks") (.var "order_inv"))] := rfl

theorem run_calcTail (front : Nat → List Pt → List Pt) (d : Nat) (S : List Pt) (nb' : Int) (nU : Nat) (inv : List Int) (fuel : Nat) (st : PeelSt) :
    run front noCalc fuel calcTail (loopEnv d S nb' nU inv st) =
      .ints (inv.map (fun j => (scatterIdx (peelRef front d nU nb' fuel st).ranks (peelRef front d nU nb' fuel st).indices
        (peelRef front d nU nb' fuel st).rank).getD j.toNat 0)) := by
  rw [calcTail_eq]
  obtain ⟨tl, htl⟩ := gen_calculate_rank_eq_loop front d S nb' nU inv fuel st
  simp only [run, htl]
  simp [loopEnv, Simple.exec, RE.eval, rget_cons, rset_cons]



end RankLoop

open OptunaVerif.RankIR RankLoop in
open OptunaVerif.Generated.RankMethods (calcBody fastBody) in
/-- **gen_calculate_rank_eq** — `_calculate_nondomination_rank` as written today, for EVERY array (no rows, duplicates, any number of
columns), every `n_below` (None, zero, negative, larger than the array), every `_is_pareto_front` (`front`) and every loop bound: the value the
interpreter of the generated body returns is the flag-free reference `calcRef` (all zeros in the trivial case; the position among the sorted
distinct values for one objective; else unique rows, clipped `n_below`, the peeling loop with its scatter writes and its `n_below` exit, the
last rank for what is left, every row reading the rank of its unique row). -/
theorem gen_calculate_rank_eq (front : Nat → List Pt → List Pt) (fuel d : Nat) (S : List Pt) (nb : Option Int) :
    calcGen Generated.RankMethods.prog front fuel d S (nbRV nb) = .ints (calcRef front fuel d S nb) := by
  unfold calcGen calcRef
  have h0 : RE.eval front noCalc [("loss_values", .mat d S), ("n_below", nbRV nb)]
      (.or (.cmp .eq (.len (.var "loss_values")) (.int 0)) (.and (.isNotNone (.var "n_below")) (.cmp .le (.var "n_below") (.int 0)))) =
      .bool (Rank.trivialCase S nb) := by
    have hk : ∀ k : Nat, (((k : Int) + 1) == 0) = false := fun k => by
      have : ((k : Int) + 1) ≠ 0 := by omega
      simpa using this
    cases nb with
    | none => cases S <;> simp [RE.eval, rget_cons, RV.lenV, RV.cmpV, Cmp.eval, nbRV, Rank.trivialCase, hk]
    | some n => cases S <;> simp [RE.eval, rget_cons, RV.lenV, RV.cmpV, Cmp.eval, nbRV, Rank.trivialCase, hk]
  cases ht : Rank.trivialCase S nb with
  | true =>
    simp only [Generated.RankMethods.prog, calcBody, run, h0, ht]
    simp [RE.eval, execSimples, rget_cons, RV.lenV]
  | false =>
    by_cases hd : d = 1
    · subst hd
      simp only [Generated.RankMethods.prog, calcBody, run, h0, ht]
      simp [Simple.exec, RE.eval, rget_cons, rset_cons, rset_nil, RV.lenV, RV.cmpV, Cmp.eval, execSimples]
    · have hd' : ((d : Int) == 1) = false := by
        have : (d : Int) ≠ 1 := by omega
        simpa using this
      have hpre : run front noCalc fuel Generated.RankMethods.prog.calcBody [("loss_values", .mat d S), ("n_below", nbRV nb)] =
          run front noCalc fuel calcTail (loopEnv d S (nbClip nb (uniqueLex S).length) (uniqueLex S).length (uniqueInvOf S)
            (PeelSt.mk 0 ((List.range (uniqueLex S).length).map Int.ofNat) (uniqueLex S) (List.replicate (uniqueLex S).length 0))) := by
        have hn : ∀ n, nb = some n → ¬ n = 0 := by
          intro n e h; subst e; subst h; simp [Rank.trivialCase] at ht
        cases nb with
        | none =>
          simp only [Generated.RankMethods.prog, calcBody, run, h0, ht]
          simp [calcBody, calcTail, run, hd', Simple.exec, RE.eval, rget_cons, rset_cons, rset_nil, RV.lenV, RV.cmpV, Cmp.eval,
            execSimples, loopEnv, nbClip, nbOr, nbRV, RV.orElseV]
        | some n =>
          simp only [Generated.RankMethods.prog, calcBody, run, h0, ht]
          simp [calcBody, calcTail, run, hd', Simple.exec, RE.eval, rget_cons, rset_cons, rset_nil, RV.lenV, RV.cmpV, Cmp.eval,
            execSimples, loopEnv, nbClip, nbOr, nbRV, RV.orElseV, hn n rfl]
      rw [hpre, run_calcTail]
      simp only [hd, Bool.false_eq_true, if_false]

open OptunaVerif.RankIR in
open OptunaVerif.Generated.RankMethods (calcBody fastBody) in
example : calcGen Generated.RankMethods.prog (fun d l => frontSorted id d l) 5 2 [[0, 1], [1, 0], [1, 1], [1, 1], [2, 2], [3, 3]] (.int 2) =
    .ints [0, 0, 1, 1, 1, 1] := by decide

open OptunaVerif.RankIR in
open OptunaVerif.Generated.RankMethods (calcBody fastBody) in
/-- **gen_fast_rank_eq** — `_fast_non_domination_rank` as written today, the callee `_calculate_nondomination_rank(·, n_below=·)` being any
function `c` (instantiated with the interpreter of the generated callee below), for EVERY array, penalty vector (None, wrong length, NaN
entries) and `n_below`: the empty result, the AssertionError for a negative `n_below`, the unconstrained call, the ValueError for the length
mismatch, and the three scatter writes — feasible rows by domination, infeasible rows AFTER every feasible rank by the penalty alone, rows
without penalty information AFTER every rank given so far — with `n_below` reduced by the sizes of the groups already ranked. -/
theorem gen_fast_rank_eq (callee : Nat → List Pt → RV → RV) (c : Nat → List Pt → Int → List Int)
    (hc : ∀ d m n, callee d m (.int n) = .ints (c d m n)) (d : Nat) (S : List Pt) (pen : Option (List (Option Int))) (nb : Option Int) :
    fastGen Generated.RankMethods.prog callee d S (penRV pen) (nbRV nb) = fastRef c d S pen nb := by
  unfold fastGen fastRef
  by_cases hS : S.length = 0
  · simp [Generated.RankMethods.prog, fastBody, run, RE.eval, rget_cons, RV.lenV, RV.cmpV, Cmp.eval, execSimples, hS]
  · have hS' : ((S.length : Int) == 0) = false := by
      have : (S.length : Int) ≠ 0 := by omega
      simpa using this
    have hnb : RV.orElseV (nbRV nb) (.int (S.length : Int)) = .int (nbOr nb S.length) := by
      cases nb with
      | none => rfl
      | some n => by_cases h : n = 0 <;> simp [nbRV, RV.orElseV, nbOr, h]
    generalize nbOr nb S.length = N at hnb ⊢
    cases pen with
    | none =>
      by_cases hN : 0 < N
      · simp [Generated.RankMethods.prog, fastBody, run, RE.eval, rget_cons, rset_cons, rset_nil, Simple.exec, RV.lenV, execSimples, RV.cmpV, Cmp.eval, hS, hS', hnb, hN, penRV, hc]
      · simp [Generated.RankMethods.prog, fastBody, run, RE.eval, rget_cons, rset_cons, rset_nil, Simple.exec, RV.lenV, execSimples, RV.cmpV, Cmp.eval, hS, hS', hnb, hN, penRV, hc]
    | some q =>
      by_cases hN : 0 < N
      · by_cases hq : q.length = S.length
        · have hq' : ((q.length : Int) != (S.length : Int)) = false := by simp [hq]
          simp [hq', Generated.RankMethods.prog, fastBody, run, RE.eval, rget_cons, rset_cons, rset_nil, Simple.exec, RV.lenV, execSimples, RV.cmpV, Cmp.eval, hS, hS', hnb, hN, penRV, hc, hq, RV.selV]
          split <;> simp_all
        · have hq' : ((q.length : Int) != (S.length : Int)) = true := by
            have : (q.length : Int) ≠ (S.length : Int) := by omega
            simpa using this
          simp [hq', Generated.RankMethods.prog, fastBody, run, RE.eval, rget_cons, rset_cons, rset_nil, Simple.exec, RV.lenV, execSimples, RV.cmpV, Cmp.eval, hS, hS', hnb, hN, penRV, hc, hq]
      · simp [Generated.RankMethods.prog, fastBody, run, RE.eval, rget_cons, rset_cons, rset_nil, Simple.exec, RV.lenV, execSimples, RV.cmpV, Cmp.eval, hS, hS', hnb, hN, penRV, hc]

open OptunaVerif.RankIR in
/-- the callee of `_fast_non_domination_rank` as generated: the interpreter of the generated `_calculate_nondomination_rank`, loop bound `n_unique` -/
def calcCallee (front : Nat → List Pt → List Pt) : Nat → List Pt → RV → RV :=
  fun d m nb => calcGen Generated.RankMethods.prog front (uniqueLex m).length d m nb

open OptunaVerif.RankIR in
/-- **gen_fast_rank_eq_calc** — both generated functions together: `_fast_non_domination_rank` calling the generated
`_calculate_nondomination_rank` is `fastRef` over `calcRef` -/
theorem gen_fast_rank_eq_calc (front : Nat → List Pt → List Pt) (d : Nat) (S : List Pt) (pen : Option (List (Option Int))) (nb : Option Int) :
    fastGen Generated.RankMethods.prog (calcCallee front) d S (penRV pen) (nbRV nb) =
      fastRef (fun d m n => calcRef front (uniqueLex m).length d m (some n)) d S pen nb :=
  gen_fast_rank_eq _ _ (fun d m n => gen_calculate_rank_eq front (uniqueLex m).length d m (some n)) d S pen nb

open OptunaVerif.RankIR in
example : fastGen Generated.RankMethods.prog (calcCallee (fun d l => frontSorted id d l)) 2 [[0, 1], [1, 0], [1, 1], [1, 1], [2, 2], [3, 3]]
    (.pen [some 0, some 1, none, some (-1), some 2, some 1]) .none_ = .ints [0, 2, 4, 1, 3, 2] := by decide

end OptunaVerif.C15Gen
