import OptunaVerif.Props.C15Gen
import OptunaVerif.Props.C15
import OptunaVerif.Lemmas.RankBridge
/-!
# C15 (translator tie, part 2) — the hypervolume theorems of `Props/C15.lean`, restated for the interpreters of the generated IR

`Props/C15Gen.lean` proves `_compute_2d`, `_compute_hv` / `_compute_exclusive_hv` and `compute_hypervolume` *as written in the source today*
equal to the hand models of `Model/Hypervolume.lean` (which carry no generated flags, so they are the reference directly), and pins the
normalised source text of `hssp.py` and of the two rank functions.  Here the property theorems are carried over to `c2dGen`, `hvGen`, `chvGen`
over `Generated.HvMethods.prog`: hypervolume = number of dominated unit cells (`hvSpec`), in every dimension, with and without
`assume_pareto`, ±∞ / touching rows / the reference check included.

`*_partial` (first version of this file, kept): for `_lazy_contribs_update` / `_solve_hssp_2d` there is no interpreter; what is proved about that code as written today is that its
text is the reviewed snapshot (`*_shape` in C15Gen) on which the hand models `Model/Rank.lean` / `Model/Hssp.lean` (and the sampled tie of
`verif/props/c15.py`) stand; the theorems of `Props/C15.lean` about them are re-exported under `…_partial` names with that hypothesis spelled out.
-/
namespace OptunaVerif.C15GenSpec
open OptunaVerif OptunaVerif.Hypervolume OptunaVerif.Rank OptunaVerif.Hssp OptunaVerif.HvIR OptunaVerif.C15Gen
open OptunaVerif.Generated.HvMethods (prog)

/-- **gen_compute2d_eq_spec** — `_compute_2d` as written today returns the dominated area for every column-0-sorted array (ties in any
order, dominated rows and duplicates included: the F22 repair). -/
theorem gen_compute2d_eq_spec (r : Pt) (hr : r.length = 2) (S : List Pt) (hS : ∀ p ∈ S, Le p r) (hs : Sorted0 S) :
    c2dGen prog.c2d r S = hvSpec S r := by
  rw [gen_compute_2d_eq]; exact C15.compute2d_eq_spec r hr S hS hs

-- the input of the repaired finding F22: a non-Pareto row after a dominating one contributes nothing
example : c2dGen prog.c2d [4, 6] [[0, 0], [2, 3]] = 24 := by decide

/-- **gen_wfg_eq_spec** — `_compute_hv` as written today returns the dominated volume, every dimension, every column-0-sorted array
of rows that weakly dominate the reference point. -/
theorem gen_wfg_eq_spec (r : Pt) (S : List Pt) (hS : ∀ p ∈ S, Le p r) (hs : Sorted0 S) :
    hvGen prog.wfg (frontOf r.length) r S.length S = hvSpec S r := by
  rw [gen_compute_hv_eq]; exact C15.wfg_eq_spec r S hS hs

example : hvGen prog.wfg (frontOf 3) [3, 3, 3] 4 [[0, 2, 1], [1, 1, 1], [1, 1, 1], [2, 0, 0]] = 15 := by decide

/-- **gen_compute_hypervolume_exact** — `compute_hypervolume` as written today = the dominated volume, for finite inputs, any dimension,
either value of `assume_pareto` (whose docstring promise therefore holds). -/
theorem gen_compute_hypervolume_exact (S : List Pt) (r : Pt) (hS : ∀ p ∈ S, Le p r) (ap : Bool) :
    chvGen prog (S.map liftPt) (liftPt r) ap = .out (.fin (hvSpec S r)) := by
  rw [gen_compute_hypervolume_eq]
  cases ap
  · rw [C15.compute_hypervolume_exact S r hS]
  · rw [C15.compute_hypervolume_assume_pareto_exact S r hS]

example : chvGen prog [[.fin 0, .fin 0], [.fin 2, .fin 3]] [.fin 4, .fin 6] true = .out (.fin 24) ∧
    chvGen prog [[.fin 0, .fin 0], [.fin 2, .fin 3]] [.fin 4, .fin 6] false = .out (.fin 24) := by decide

/-- the reference-point check -/
theorem gen_reference_check (S : List Pt) (r : Pt) (ap : Bool) (h : ¬ ∀ p ∈ S, Le p r) :
    chvGen prog (S.map liftPt) (liftPt r) ap = .out .error := by
  rw [gen_compute_hypervolume_eq, C15.reference_check S r ap h]

example : chvGen prog [[.fin 0, .fin 2]] [.fin 1, .fin 1] false = .out .error := by decide

/-- **gen_touching_rows_contribute_nothing** (the F23 repair) — a row that weakly dominates the reference point and touches it in some
coordinate does not influence the result, whatever its other coordinates (`-inf` included). -/
theorem gen_touching_rows_contribute_nothing (S : List (List EInt)) (r p : List EInt) (ap : Bool)
    (hp : allLeE p r = true) (htouch : allLtE p r = false) :
    chvGen prog (p :: S) r ap = chvGen prog S r ap := by
  rw [gen_compute_hypervolume_eq, gen_compute_hypervolume_eq, C15.touching_rows_contribute_nothing S r p ap hp htouch]

example : chvGen prog [[.ninf, .fin 5], [.fin 1, .fin 1]] [.fin 5, .fin 5] false = chvGen prog [[.fin 1, .fin 1]] [.fin 5, .fin 5] false := by decide

/-- … and when every row touches the finite reference point the hypervolume is 0. -/
theorem gen_degenerate_rows_only_is_zero (S : List (List EInt)) (r : List EInt) (ap : Bool)
    (hcheck : S.all (fun p => allLeE p r) = true) (hr : r.all EInt.isFinite = true)
    (htouch : ∀ p ∈ S, allLtE p r = false) : chvGen prog S r ap = .out (.fin 0) := by
  rw [gen_compute_hypervolume_eq, C15.degenerate_rows_only_is_zero S r ap hcheck hr htouch]

example : chvGen prog [[.ninf, .fin 5]] [.fin 5, .fin 5] true = .out (.fin 0) := by decide

/-- a non-finite reference point answers inf (the convention upstream tests pin) -/
theorem gen_infinite_reference_is_inf (S : List (List EInt)) (r : List EInt) (ap : Bool)
    (hcheck : S.all (fun p => allLeE p r) = true) (hr : r.all EInt.isFinite = false) :
    chvGen prog S r ap = .out .inf := by
  rw [gen_compute_hypervolume_eq]
  unfold computeHypervolume
  simp [hcheck, hr]

example : chvGen prog [[.fin 0, .fin 0]] [.pinf, .fin 1] false = .out .inf := by decide

/-! ## rank and subset selection: text pinned, semantics through the hand models (`…_partial`) -/

/-- what is machine-checked about `hssp.py` and the two rank functions *as written today*: their normalised text is the reviewed snapshot -/
theorem rank_and_hssp_text_is_reviewed_partial :
    Generated.HvShapes.solveHssp2dSrc = HvExpected.solveHssp2dSrc ∧
    Generated.HvShapes.lazyContribsUpdateSrc = HvExpected.lazyContribsUpdateSrc ∧
    Generated.HvShapes.solveHsspOnUniqueSrc = HvExpected.solveHsspOnUniqueSrc ∧
    Generated.HvShapes.solveHsspSrc = HvExpected.solveHsspSrc ∧
    Generated.HvShapes.fastNonDominationRankSrc = HvExpected.fastNonDominationRankSrc ∧
    Generated.HvShapes.calculateNondominationRankSrc = HvExpected.calculateNondominationRankSrc :=
  ⟨solve_hssp_2d_shape, lazy_contribs_update_shape, solve_hssp_on_unique_loss_vals_shape, solve_hssp_shape,
    fast_non_domination_rank_shape, calculate_nondomination_rank_shape⟩

/-- the hypervolume that `_lazy_contribs_update` / the greedy loop call (`compute_hypervolume(…, assume_pareto=True)`) is, as written
today, the hand model's `hvAP` on finite data — the one place where `hssp.py`'s hand model meets an interpreted function -/
theorem gen_hvAP_partial (r : Pt) (vecs : List Pt) (hS : ∀ p ∈ vecs, Le p r) :
    chvGen prog (vecs.map liftPt) (liftPt r) true = .out (.fin (hvSpec vecs r)) :=
  gen_compute_hypervolume_exact vecs r hS true


/-! ## `_solve_hssp` / `_solve_hssp_on_unique_loss_vals`, for the interpreters of the generated IR -/

open OptunaVerif.HsspIR in
theorem map_getD_range (ids : List Nat) : (List.range ids.length).map (fun j => ids.getD j 0) = ids := by
  apply List.ext_getElem?
  intro i
  by_cases h : i < ids.length
  · simp [h, List.getElem?_eq_getElem h]
  · simp [h, List.getElem?_eq_none (Nat.le_of_not_lt h)]

open OptunaVerif.HsspIR in
/-- the reference of `_solve_hssp` reads the hand model's positions through `rank_i_indices` -/
theorem solveHsspRef_eq (vals : List Pt) (ids : List Nat) (k : Nat) (r : Pt) (fin : Bool) (hn : ids.length = vals.length) :
    solveHsspRef (fun U l k => solveOnUnique U l k r fin) vals ids k = (solveHssp vals k r fin).map (fun j => ids.getD j 0) := by
  unfold solveHsspRef solveHssp
  simp only [hn]
  by_cases hk : k = vals.length
  · simp only [hk, if_true]; rw [← hn, map_getD_range]
  · simp only [hk, if_false]
    split <;> rfl

open OptunaVerif.HsspIR in
/-- **gen_solve_hssp_eq_hand_partial** — `_solve_hssp` + `_solve_hssp_on_unique_loss_vals` as written today (with `_lazy_contribs_update` and
`_solve_hssp_2d` as the hand model's functions) return the hand model's selection read through `rank_i_indices`, for EVERY array
(duplicated loss vectors included), every `rank_i_indices` of the same length, every `k`, reference point. -/
theorem gen_solve_hssp_eq_hand_partial (vals : List Pt) (ids : List Nat) (k : Nat) (r : Pt) (fin : Bool) (hn : ids.length = vals.length) :
    topGen Generated.HsspMethods.prog.top
      (fun U l k => uniqueGen Generated.HsspMethods.prog.greedy (fun cs vs s => lazyUpdate r cs vs s)
        (fun U labels k => hssp2dLoop k ((U.zip labels).map (fun e => { pt := e.1, label := e.2, dx := x0 r, dy := y1 r }))) U l k r fin)
      vals ids k = .idx ((solveHssp vals k r fin).map (fun j => ids.getD j 0)) := by
  rw [gen_solve_hssp_eq]
  congr 1
  rw [← solveHsspRef_eq vals ids k r fin hn]
  unfold solveHsspRef
  simp only
  split
  · rfl
  · split
    · rfl
    · rw [gen_solve_on_unique_eq_partial _ _ _ _ _ (by simp)]

open OptunaVerif.HsspIR in
/-- **gen_hssp_returns_k_distinct_members_partial** — what the generated `_solve_hssp` returns is exactly `k` DISTINCT members of
`rank_i_indices`, for every input: duplicated loss vectors, arbitrary (distinct) `rank_i_indices`, every branch. -/
theorem gen_hssp_returns_k_distinct_members_partial (vals : List Pt) (ids : List Nat) (r : Pt) (hv : ∀ p ∈ vals, Le p r) (k : Nat)
    (hk : k ≤ vals.length) (fin : Bool) (hn : ids.length = vals.length) (hid : ids.Nodup) :
    ∃ res, topGen Generated.HsspMethods.prog.top
      (fun U l k => uniqueGen Generated.HsspMethods.prog.greedy (fun cs vs s => lazyUpdate r cs vs s)
        (fun U labels k => hssp2dLoop k ((U.zip labels).map (fun e => { pt := e.1, label := e.2, dx := x0 r, dy := y1 r }))) U l k r fin)
      vals ids k = .idx res ∧ res.length = k ∧ res.Nodup ∧ ∀ x ∈ res, x ∈ ids := by
  obtain ⟨h1, h2, h3⟩ := C15.hssp_returns_k_distinct_members vals r hv k hk fin
  refine ⟨_, gen_solve_hssp_eq_hand_partial vals ids k r fin hn, by simp [h1], ?_, ?_⟩
  · refine (List.nodup_map_iff_inj_on h2).mpr ?_
    intro i hi j hj hij
    have hi' : i < ids.length := by rw [hn]; exact h3 i hi
    have hj' : j < ids.length := by rw [hn]; exact h3 j hj
    simp only [List.getD_eq_getElem?_getD, List.getElem?_eq_getElem hi', List.getElem?_eq_getElem hj', Option.getD_some] at hij
    exact (List.Nodup.getElem_inj_iff hid).mp hij
  · intro x hx
    obtain ⟨j, hj, rfl⟩ := List.mem_map.mp hx
    have hj' : j < ids.length := by rw [hn]; exact h3 j hj
    simp [List.getD_eq_getElem?_getD, List.getElem?_eq_getElem hj']

open OptunaVerif.HsspIR in
/-- **gen_greedy_loop_is_greedy_run_partial** — the generated main loop (d ≠ 2) makes, at every step, a pick of maximal true marginal
hypervolume contribution (`GreedyRun`), which is the hypothesis of the greedy gap / 1 − 1/e bounds of `Props/C15.lean`. -/
theorem gen_greedy_loop_is_greedy_run_partial (r : Pt) (hd : r.length ≠ 2) (U : List Pt) (labels : List Nat)
    (hlen : labels.length = U.length) (hU : ∀ p ∈ U, Le p r) (k : Nat) (hk : k < U.length) :
    ∃ picks : List (Pt × Nat),
      uniqueGen Generated.HsspMethods.prog.greedy (fun cs vs s => lazyUpdate r cs vs s)
        (fun U labels k => hssp2dLoop k ((U.zip labels).map (fun e => { pt := e.1, label := e.2, dx := x0 r, dy := y1 r }))) U labels k r true =
        picks.map (·.2) ∧ picks.length = k ∧ GreedyRun r [] (U.zip labels) picks := by
  rw [gen_solve_on_unique_eq_partial U labels k r true hlen]
  exact C15.greedy_loop_is_greedy_run r hd U labels hlen hU k hk

-- the input of seeded C15-6: six rows, three distinct, k = 5, caller ids 10..15: five distinct ids
open OptunaVerif.HsspIR in
example : topGen Generated.HsspMethods.prog.top (fun _ _ _ => []) [[1, 1], [1, 1], [4, 4], [2, 1], [4, 4], [1, 1]] [10, 11, 12, 13, 14, 15] 5 =
    .idx [10, 11, 12, 13, 14] := by decide

/-! ## the two rank functions, for the interpreters of the generated statement lists (`Model/RankIR.lean`, `Generated/RankMethods.lean`)

`Props/C15Gen.lean` proves the interpreters equal to the flag-free array references (`gen_calculate_rank_eq`, `gen_fast_rank_eq`, all inputs);
`Lemmas/RankBridge.lean` proves the array reference of `_calculate_nondomination_rank` (scatter writes through index arrays) equal to the hand
model `Rank.calcRank` (table unique row ↦ rank), with `_is_pareto_front(·, True)` = `frontSorted` and the loop bound `n_unique`.  So the rank
theorems of `Props/C15.lean` hold of the code as generated.  `…_partial`: the CONSTRAINED branch of `_fast_non_domination_rank` is carried to
the three-scatter reference `fastRef` (C15Gen); its identification with `Rank.fastRank` is not proved (it is compared on every generated
case by the driver's "gen" field). -/

open OptunaVerif.RankIR in
/-- **gen_calculate_rank_eq_hand** — `_calculate_nondomination_rank` as generated = the hand model, rows of `d` columns, every `n_below` -/
theorem gen_calculate_rank_eq_hand (d : Nat) (S : List Pt) (hS : ∀ q ∈ S, q.length = d) (nb : Option Int) :
    calcGen Generated.RankMethods.prog frontH (uniqueLex S).length d S (nbRV nb) = .ints ((calcRank d S nb).map Int.ofNat) := by
  rw [gen_calculate_rank_eq, calcRef_eq_calcRank d S hS nb]

open OptunaVerif.RankIR in
/-- **gen_rank_eq_peeling** — what the generated `_calculate_nondomination_rank` returns without `n_below` is THE peeling rank: there is a rank
function `ρ` with "the rows of rank `j` are exactly the rows of rank ≥ j that no row of rank ≥ j dominates", the result is `ρ` row by row, and
any other such function agrees with `ρ` on the rows (duplicates, ties, any dimension, no rows). -/
theorem gen_rank_eq_peeling (d : Nat) (S : List Pt) (hS : ∀ q ∈ S, q.length = d) :
    ∃ ρ : Pt → Nat, IsPeeling S ρ ∧
      calcGen Generated.RankMethods.prog frontH (uniqueLex S).length d S .none_ = .ints (S.map (fun p => (ρ p : Int))) ∧
      ∀ ρ', IsPeeling S ρ' → ∀ p ∈ S, ρ' p = ρ p := by
  refine ⟨rankFn d S none, C15.rank_eq_peeling d S hS, ?_, fun ρ' h' => C15.peeling_rank_unique S ρ' _ h' (C15.rank_eq_peeling d S hS)⟩
  have := gen_calculate_rank_eq_hand d S hS none
  simpa [nbRV, calcRank, List.map_map, Function.comp_def] using this

open OptunaVerif.RankIR in
example : calcGen Generated.RankMethods.prog frontH 4 2 [[0, 1], [1, 0], [1, 1], [1, 1], [2, 2]] .none_ = .ints [0, 0, 1, 1, 2] := by decide

open OptunaVerif.RankIR in
/-- **gen_rank_n_below_spec** — the generated `_calculate_nondomination_rank` with `n_below` (more than one objective): there is a stopping
level `K`; ranks below `K` are exact peeling ranks, every other row gets `K`; `K` is the first level at which at least `min(n_below, n_unique)`
unique rows have been ranked. -/
theorem gen_rank_n_below_spec (d : Nat) (S : List Pt) (hS : ∀ q ∈ S, q.length = d) (nBelow : Option Int)
    (h1 : d ≠ 1) (ht : trivialCase S nBelow = false) :
    calcGen Generated.RankMethods.prog frontH (uniqueLex S).length d S (nbRV nBelow) = .ints (S.map (fun p => (rankFn d S nBelow p : Int))) ∧
    ∃ K, IsPeelingUpTo S (rankFn d S nBelow) K ∧
      clipNBelow nBelow (uniqueLex S).length
        ≤ (uniqueLex S).length - ((uniqueLex S).filter (fun p => rankFn d S nBelow p = K)).length ∧
      (0 < K → (uniqueLex S).length - ((uniqueLex S).filter (fun p => K - 1 ≤ rankFn d S nBelow p)).length
        < clipNBelow nBelow (uniqueLex S).length) := by
  refine ⟨?_, C15.rank_n_below_spec d S hS nBelow h1 ht⟩
  have := gen_calculate_rank_eq_hand d S hS nBelow
  simpa [calcRank, List.map_map, Function.comp_def] using this

open OptunaVerif.RankIR in
example : calcGen Generated.RankMethods.prog frontH 5 2 [[0, 1], [1, 0], [1, 1], [1, 1], [2, 2], [3, 3]] (.int 3) = .ints [0, 0, 1, 1, 2, 2] := by
  decide

open OptunaVerif.RankIR in
/-- **gen_fast_rank_unconstrained** — `_fast_non_domination_rank` as generated, calling the generated `_calculate_nondomination_rank`, without
penalties: the hand model `Rank.fastRank`, every array, every `n_below` -/
theorem gen_fast_rank_unconstrained (d : Nat) (S : List Pt) (hS : ∀ q ∈ S, q.length = d) (nBelow : Option Nat) :
    fastGen Generated.RankMethods.prog (C15Gen.calcCallee frontH) d S .none_ (nbRV (nBelow.map Int.ofNat)) =
      .ints (((fastRank d S none nBelow).getD []).map Int.ofNat) := by
  have h := C15Gen.gen_fast_rank_eq_calc frontH d S none (nBelow.map Int.ofNat)
  simp only [penRV] at h
  rw [h]
  unfold fastRef fastRank
  by_cases hS0 : S.length = 0
  · have : S = [] := List.length_eq_zero_iff.mp hS0
    subst this
    simp
  · have hne : S.isEmpty = false := by
      cases S with
      | nil => simp at hS0
      | cons a t => rfl
    cases nBelow with
    | none =>
      have hpos : 0 < nbOr none S.length := by simp only [nbOr]; omega
      simp only [Option.map_none, hS0, if_false, hpos, not_true_eq_false, hne, Bool.false_eq_true]
      rw [calcRef_eq_calcRank d S hS]
      simp [nbOr]
    | some n =>
      by_cases h0 : n = 0
      · subst h0
        have hpos : 0 < nbOr (some (Int.ofNat 0)) S.length := by simp only [nbOr]; simp; omega
        simp only [Option.map_some, hS0, if_false, hpos, not_true_eq_false, hne, Bool.false_eq_true]
        rw [calcRef_eq_calcRank d S hS]
        simp [nbOr]
      · have hpos : 0 < nbOr (some (Int.ofNat n)) S.length := by simp only [nbOr]; simp [h0]; omega
        simp only [Option.map_some, hS0, if_false, hpos, not_true_eq_false, hne, Bool.false_eq_true]
        rw [calcRef_eq_calcRank d S hS]
        simp [nbOr, h0]

open OptunaVerif.RankIR in
/-- **gen_fast_rank_constrained_partial** — the constrained branch as generated, calling the generated callee: the three-scatter reference
(`fastRef`: feasible rows by domination; infeasible rows AFTER every feasible rank, by the penalty alone; rows without penalty information
AFTER every rank given so far; `n_below` reduced by the sizes of the groups already ranked), each callee result being the hand model's
`calcRank` of that group.  PARTIAL: `fastRef = Rank.fastRank` is not proved here (hence `C15.rank_constrained_eq_spec` is not restated);
the two are compared on every generated case by the driver (`"gen"` of the `rank` op). -/
theorem gen_fast_rank_constrained_partial (d : Nat) (S : List Pt) (hS : ∀ q ∈ S, q.length = d) (pen : List (Option Int)) (nb : Option Int) :
    fastGen Generated.RankMethods.prog (C15Gen.calcCallee frontH) d S (.pen pen) (nbRV nb) =
      fastRef (fun d' m n => calcRef frontH (uniqueLex m).length d' m (some n)) d S (some pen) nb ∧
    (∀ (m : List Bool) n, calcRef frontH (uniqueLex (selMask S m)).length d (selMask S m) (some n) =
        (calcRank d (selMask S m) (some n)).map Int.ofNat) ∧
    (∀ (q : List (Option Int)) n, calcRef frontH (uniqueLex (newaxisOf q)).length 1 (newaxisOf q) (some n) =
        (calcRank 1 (newaxisOf q) (some n)).map Int.ofNat) := by
  refine ⟨C15Gen.gen_fast_rank_eq_calc frontH d S (some pen) nb, ?_, ?_⟩
  · intro m n
    refine calcRef_eq_calcRank d _ ?_ (some n)
    intro q hq
    have hsub : ∀ (l : List Pt) (b : List Bool), ∀ x ∈ selMask l b, x ∈ l := by
      intro l
      induction l with
      | nil => intro b x hx; cases b <;> simp [selMask] at hx
      | cons a t ih =>
        intro b x hx
        cases b with
        | nil => simp [selMask] at hx
        | cons c cs =>
          cases c
          · simp only [selMask] at hx; exact List.mem_cons_of_mem _ (ih cs x hx)
          · simp only [selMask, List.mem_cons] at hx
            rcases hx with rfl | hx
            · exact List.mem_cons_self ..
            · exact List.mem_cons_of_mem _ (ih cs x hx)
    exact hS q (hsub S m q hq)
  · intro q n
    refine calcRef_eq_calcRank 1 _ ?_ (some n)
    intro r hr
    simp only [newaxisOf, List.mem_map] at hr
    obtain ⟨v, _, rfl⟩ := hr
    rfl

open OptunaVerif.RankIR in
-- the input of seeded C15-2 (a NaN penalty next to ranked rows): the NaN-penalty row comes after every ranked row
example : fastGen Generated.RankMethods.prog (C15Gen.calcCallee frontH) 2 [[0, 1], [1, 0], [1, 1], [1, 1], [2, 2], [3, 3]]
    (.pen [some 0, some 1, none, some (-1), some 2, some 1]) .none_ = .ints [0, 2, 4, 1, 3, 2] := by decide

end OptunaVerif.C15GenSpec
