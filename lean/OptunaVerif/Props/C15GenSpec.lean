import OptunaVerif.Props.C15Gen
import OptunaVerif.Props.C15
import OptunaVerif.Lemmas.RankBridge
import OptunaVerif.Lemmas.RankBridge2
import OptunaVerif.Lemmas.FrontBridge
/-!
# C15 (translator tie, part 2) — the hypervolume theorems of `Props/C15.lean`, restated for the interpreters of the generated IR

`Props/C15Gen.lean` proves `_compute_2d`, `_compute_hv` / `_compute_exclusive_hv` and `compute_hypervolume` *as written in the source today*
equal to the hand models of `Model/Hypervolume.lean` (which carry no generated flags, so they are the reference directly), and pins the
normalised source text of `hssp.py` and of the two rank functions.  Here the property theorems are carried over to `c2dGen`, `hvGen`, `chvGen`
over `Generated.HvMethods.prog`: hypervolume = number of dominated unit cells (`hvSpec`), in every dimension, with and without
`assume_pareto`, ±∞ / touching rows / the reference check included.

`*_partial` (first version of this file, kept): for `_lazy_contribs_update` / `_solve_hssp_2d` there is no interpreter; what is proved about that code as written today is that its
text is the reviewed snapshot (`*_shape` in C15Gen) on which the hand models `Model/Rank.lean` / `Model/Hssp.lean` (and the sampled tie of
`verif/props/c15.py`) stand; the theorems of `Props/C15.lean` about them are re-exported under `…_partial` names with that hypothesis spelled out.
-/
namespace OptunaVerif.C15GenSpec
open OptunaVerif OptunaVerif.Hypervolume OptunaVerif.Rank OptunaVerif.Hssp OptunaVerif.HvIR OptunaVerif.C15Gen
open OptunaVerif.Generated.HvMethods (prog)

/-- **gen_compute2d_eq_spec** — `_compute_2d` as written today returns the dominated area for every column-0-sorted array (ties in any
order, dominated rows and duplicates included: the F22 repair). -/
theorem gen_compute2d_eq_spec (r : Pt) (hr : r.length = 2) (S : List Pt) (hS : ∀ p ∈ S, Le p r) (hs : Sorted0 S) :
    c2dGen prog.c2d r S = hvSpec S r := by
  rw [gen_compute_2d_eq]; exact C15.compute2d_eq_spec r hr S hS hs

-- the input of the repaired finding F22: a non-Pareto row after a dominating one contributes nothing
example : c2dGen prog.c2d [4, 6] [[0, 0], [2, 3]] = 24 := by decide

/-- **gen_wfg_eq_spec** — `_compute_hv` as written today returns the dominated volume, every dimension, every column-0-sorted array
of rows that weakly dominate the reference point. -/
theorem gen_wfg_eq_spec (r : Pt) (S : List Pt) (hS : ∀ p ∈ S, Le p r) (hs : Sorted0 S) :
    hvGen prog.wfg (frontOf r.length) r S.length S = hvSpec S r := by
  rw [gen_compute_hv_eq]; exact C15.wfg_eq_spec r S hS hs

example : hvGen prog.wfg (frontOf 3) [3, 3, 3] 4 [[0, 2, 1], [1, 1, 1], [1, 1, 1], [2, 0, 0]] = 15 := by decide

/-- **gen_compute_hypervolume_exact** — `compute_hypervolume` as written today = the dominated volume, for finite inputs, any dimension,
either value of `assume_pareto` (whose docstring promise therefore holds). -/
theorem gen_compute_hypervolume_exact (S : List Pt) (r : Pt) (hS : ∀ p ∈ S, Le p r) (ap : Bool) :
    chvGen prog (S.map liftPt) (liftPt r) ap = .out (.fin (hvSpec S r)) := by
  rw [gen_compute_hypervolume_eq]
  cases ap
  · rw [C15.compute_hypervolume_exact S r hS]
  · rw [C15.compute_hypervolume_assume_pareto_exact S r hS]

example : chvGen prog [[.fin 0, .fin 0], [.fin 2, .fin 3]] [.fin 4, .fin 6] true = .out (.fin 24) ∧
    chvGen prog [[.fin 0, .fin 0], [.fin 2, .fin 3]] [.fin 4, .fin 6] false = .out (.fin 24) := by decide

/-- the reference-point check -/
theorem gen_reference_check (S : List Pt) (r : Pt) (ap : Bool) (h : ¬ ∀ p ∈ S, Le p r) :
    chvGen prog (S.map liftPt) (liftPt r) ap = .out .error := by
  rw [gen_compute_hypervolume_eq, C15.reference_check S r ap h]

example : chvGen prog [[.fin 0, .fin 2]] [.fin 1, .fin 1] false = .out .error := by decide

/-- **gen_touching_rows_contribute_nothing** (the F23 repair) — a row that weakly dominates the reference point and touches it in some
coordinate does not influence the result, whatever its other coordinates (`-inf` included). -/
theorem gen_touching_rows_contribute_nothing (S : List (List EInt)) (r p : List EInt) (ap : Bool)
    (hp : allLeE p r = true) (htouch : allLtE p r = false) :
    chvGen prog (p :: S) r ap = chvGen prog S r ap := by
  rw [gen_compute_hypervolume_eq, gen_compute_hypervolume_eq, C15.touching_rows_contribute_nothing S r p ap hp htouch]

example : chvGen prog [[.ninf, .fin 5], [.fin 1, .fin 1]] [.fin 5, .fin 5] false = chvGen prog [[.fin 1, .fin 1]] [.fin 5, .fin 5] false := by decide

/-- … and when every row touches the finite reference point the hypervolume is 0. -/
theorem gen_degenerate_rows_only_is_zero (S : List (List EInt)) (r : List EInt) (ap : Bool)
    (hcheck : S.all (fun p => allLeE p r) = true) (hr : r.all EInt.isFinite = true)
    (htouch : ∀ p ∈ S, allLtE p r = false) : chvGen prog S r ap = .out (.fin 0) := by
  rw [gen_compute_hypervolume_eq, C15.degenerate_rows_only_is_zero S r ap hcheck hr htouch]

example : chvGen prog [[.ninf, .fin 5]] [.fin 5, .fin 5] true = .out (.fin 0) := by decide

/-- a non-finite reference point answers inf (the convention upstream tests pin) -/
theorem gen_infinite_reference_is_inf (S : List (List EInt)) (r : List EInt) (ap : Bool)
    (hcheck : S.all (fun p => allLeE p r) = true) (hr : r.all EInt.isFinite = false) :
    chvGen prog S r ap = .out .inf := by
  rw [gen_compute_hypervolume_eq]
  unfold computeHypervolume
  simp [hcheck, hr]

example : chvGen prog [[.fin 0, .fin 0]] [.pinf, .fin 1] false = .out .inf := by decide

/-! ## rank and subset selection: text pinned, semantics through the hand models (`…_partial`) -/

/-- what is machine-checked about `hssp.py` and the two rank functions *as written today*: their normalised text is the reviewed snapshot -/
theorem rank_and_hssp_text_is_reviewed_partial :
    Generated.HvShapes.solveHssp2dSrc = HvExpected.solveHssp2dSrc ∧
    Generated.HvShapes.lazyContribsUpdateSrc = HvExpected.lazyContribsUpdateSrc ∧
    Generated.HvShapes.solveHsspOnUniqueSrc = HvExpected.solveHsspOnUniqueSrc ∧
    Generated.HvShapes.solveHsspSrc = HvExpected.solveHsspSrc ∧
    Generated.HvShapes.fastNonDominationRankSrc = HvExpected.fastNonDominationRankSrc ∧
    Generated.HvShapes.calculateNondominationRankSrc = HvExpected.calculateNondominationRankSrc :=
  ⟨solve_hssp_2d_shape, lazy_contribs_update_shape, solve_hssp_on_unique_loss_vals_shape, solve_hssp_shape,
    fast_non_domination_rank_shape, calculate_nondomination_rank_shape⟩

/-- the hypervolume that `_lazy_contribs_update` / the greedy loop call (`compute_hypervolume(…, assume_pareto=True)`) is, as written
today, the hand model's `hvAP` on finite data — the one place where `hssp.py`'s hand model meets an interpreted function -/
theorem gen_hvAP_partial (r : Pt) (vecs : List Pt) (hS : ∀ p ∈ vecs, Le p r) :
    chvGen prog (vecs.map liftPt) (liftPt r) true = .out (.fin (hvSpec vecs r)) :=
  gen_compute_hypervolume_exact vecs r hS true


/-! ## `_solve_hssp` / `_solve_hssp_on_unique_loss_vals`, for the interpreters of the generated IR -/

open OptunaVerif.HsspIR in
theorem map_getD_range (ids : List Nat) : (List.range ids.length).map (fun j => ids.getD j 0) = ids := by
  apply List.ext_getElem?
  intro i
  by_cases h : i < ids.length
  · simp [h, List.getElem?_eq_getElem h]
  · simp [h, List.getElem?_eq_none (Nat.le_of_not_lt h)]

open OptunaVerif.HsspIR in
/-- the reference of `_solve_hssp` reads the hand model's positions through `rank_i_indices` -/
theorem solveHsspRef_eq (vals : List Pt) (ids : List Nat) (k : Nat) (r : Pt) (fin : Bool) (hn : ids.length = vals.length) :
    solveHsspRef (fun U l k => solveOnUnique U l k r fin) vals ids k = (solveHssp vals k r fin).map (fun j => ids.getD j 0) := by
  unfold solveHsspRef solveHssp
  simp only [hn]
  by_cases hk : k = vals.length
  · simp only [hk, if_true]; rw [← hn, map_getD_range]
  · simp only [hk, if_false]
    split <;> rfl

open OptunaVerif.HsspIR in
/-- **gen_solve_hssp_eq_hand_partial** — `_solve_hssp` + `_solve_hssp_on_unique_loss_vals` as written today (with `_lazy_contribs_update` and
`_solve_hssp_2d` as the hand model's functions) return the hand model's selection read through `rank_i_indices`, for EVERY array
(duplicated loss vectors included), every `rank_i_indices` of the same length, every `k`, reference point. -/
theorem gen_solve_hssp_eq_hand_partial (vals : List Pt) (ids : List Nat) (k : Nat) (r : Pt) (fin : Bool) (hn : ids.length = vals.length) :
    topGen Generated.HsspMethods.prog.top
      (fun U l k => uniqueGen Generated.HsspMethods.prog.greedy (fun cs vs s => lazyUpdate r cs vs s)
        (fun U labels k => hssp2dLoop k ((U.zip labels).map (fun e => { pt := e.1, label := e.2, dx := x0 r, dy := y1 r }))) U l k r fin)
      vals ids k = .idx ((solveHssp vals k r fin).map (fun j => ids.getD j 0)) := by
  rw [gen_solve_hssp_eq]
  congr 1
  rw [← solveHsspRef_eq vals ids k r fin hn]
  unfold solveHsspRef
  simp only
  split
  · rfl
  · split
    · rfl
    · rw [gen_solve_on_unique_eq_partial _ _ _ _ _ (by simp)]

open OptunaVerif.HsspIR in
/-- **gen_hssp_returns_k_distinct_members_partial** — what the generated `_solve_hssp` returns is exactly `k` DISTINCT members of
`rank_i_indices`, for every input: duplicated loss vectors, arbitrary (distinct) `rank_i_indices`, every branch. -/
theorem gen_hssp_returns_k_distinct_members_partial (vals : List Pt) (ids : List Nat) (r : Pt) (hv : ∀ p ∈ vals, Le p r) (k : Nat)
    (hk : k ≤ vals.length) (fin : Bool) (hn : ids.length = vals.length) (hid : ids.Nodup) :
    ∃ res, topGen Generated.HsspMethods.prog.top
      (fun U l k => uniqueGen Generated.HsspMethods.prog.greedy (fun cs vs s => lazyUpdate r cs vs s)
        (fun U labels k => hssp2dLoop k ((U.zip labels).map (fun e => { pt := e.1, label := e.2, dx := x0 r, dy := y1 r }))) U l k r fin)
      vals ids k = .idx res ∧ res.length = k ∧ res.Nodup ∧ ∀ x ∈ res, x ∈ ids := by
  obtain ⟨h1, h2, h3⟩ := C15.hssp_returns_k_distinct_members vals r hv k hk fin
  refine ⟨_, gen_solve_hssp_eq_hand_partial vals ids k r fin hn, by simp [h1], ?_, ?_⟩
  · refine (List.nodup_map_iff_inj_on h2).mpr ?_
    intro i hi j hj hij
    have hi' : i < ids.length := by rw [hn]; exact h3 i hi
    have hj' : j < ids.length := by rw [hn]; exact h3 j hj
    simp only [List.getD_eq_getElem?_getD, List.getElem?_eq_getElem hi', List.getElem?_eq_getElem hj', Option.getD_some] at hij
    exact (List.Nodup.getElem_inj_iff hid).mp hij
  · intro x hx
    obtain ⟨j, hj, rfl⟩ := List.mem_map.mp hx
    have hj' : j < ids.length := by rw [hn]; exact h3 j hj
    simp [List.getD_eq_getElem?_getD, List.getElem?_eq_getElem hj']

open OptunaVerif.HsspIR in
/-- **gen_greedy_loop_is_greedy_run_partial** — the generated main loop (d ≠ 2) makes, at every step, a pick of maximal true marginal
hypervolume contribution (`GreedyRun`), which is the hypothesis of the greedy gap / 1 − 1/e bounds of `Props/C15.lean`. -/
theorem gen_greedy_loop_is_greedy_run_partial (r : Pt) (hd : r.length ≠ 2) (U : List Pt) (labels : List Nat)
    (hlen : labels.length = U.length) (hU : ∀ p ∈ U, Le p r) (k : Nat) (hk : k < U.length) :
    ∃ picks : List (Pt × Nat),
      uniqueGen Generated.HsspMethods.prog.greedy (fun cs vs s => lazyUpdate r cs vs s)
        (fun U labels k => hssp2dLoop k ((U.zip labels).map (fun e => { pt := e.1, label := e.2, dx := x0 r, dy := y1 r }))) U labels k r true =
        picks.map (·.2) ∧ picks.length = k ∧ GreedyRun r [] (U.zip labels) picks := by
  rw [gen_solve_on_unique_eq_partial U labels k r true hlen]
  exact C15.greedy_loop_is_greedy_run r hd U labels hlen hU k hk

-- the input of seeded C15-6: six rows, three distinct, k = 5, caller ids 10..15: five distinct ids
open OptunaVerif.HsspIR in
example : topGen Generated.HsspMethods.prog.top (fun _ _ _ => []) [[1, 1], [1, 1], [4, 4], [2, 1], [4, 4], [1, 1]] [10, 11, 12, 13, 14, 15] 5 =
    .idx [10, 11, 12, 13, 14] := by decide

/-! ## the two rank functions, for the interpreters of the generated statement lists (`Model/RankIR.lean`, `Generated/RankMethods.lean`)

`Props/C15Gen.lean` proves the interpreters equal to the flag-free array references (`gen_calculate_rank_eq`, `gen_fast_rank_eq`, all inputs);
`Lemmas/RankBridge.lean` proves the array reference of `_calculate_nondomination_rank` (scatter writes through index arrays) equal to the hand
model `Rank.calcRank` (table unique row ↦ rank), with `_is_pareto_front(·, True)` = `frontSorted` and the loop bound `n_unique`.  So the rank
theorems of `Props/C15.lean` hold of the code as generated.  The CONSTRAINED branch of `_fast_non_domination_rank` is carried to the
three-scatter reference `fastRef` (C15Gen) and `Lemmas/RankBridge2.lean` identifies that with `Rank.fastRank` (`fastRef_eq_fastRank`: the offset
of the third group is a maximum over an interleaved selection, the hand model's over a concatenation — `maxInitOf_congr`), for every
penalty vector of the right length (NaN entries, empty groups) and every `n_below`. -/

open OptunaVerif.RankIR in
/-- **gen_calculate_rank_eq_hand** — `_calculate_nondomination_rank` as generated = the hand model, rows of `d` columns, every `n_below` -/
theorem gen_calculate_rank_eq_hand (d : Nat) (S : List Pt) (hS : ∀ q ∈ S, q.length = d) (nb : Option Int) :
    calcGen Generated.RankMethods.prog frontH (uniqueLex S).length d S (nbRV nb) = .ints ((calcRank d S nb).map Int.ofNat) := by
  rw [gen_calculate_rank_eq, calcRef_eq_calcRank d S hS nb]

open OptunaVerif.RankIR in
/-- **gen_rank_eq_peeling** — what the generated `_calculate_nondomination_rank` returns without `n_below` is THE peeling rank: there is a rank
function `ρ` with "the rows of rank `j` are exactly the rows of rank ≥ j that no row of rank ≥ j dominates", the result is `ρ` row by row, and
any other such function agrees with `ρ` on the rows (duplicates, ties, any dimension, no rows). -/
theorem gen_rank_eq_peeling (d : Nat) (S : List Pt) (hS : ∀ q ∈ S, q.length = d) :
    ∃ ρ : Pt → Nat, IsPeeling S ρ ∧
      calcGen Generated.RankMethods.prog frontH (uniqueLex S).length d S .none_ = .ints (S.map (fun p => (ρ p : Int))) ∧
      ∀ ρ', IsPeeling S ρ' → ∀ p ∈ S, ρ' p = ρ p := by
  refine ⟨rankFn d S none, C15.rank_eq_peeling d S hS, ?_, fun ρ' h' => C15.peeling_rank_unique S ρ' _ h' (C15.rank_eq_peeling d S hS)⟩
  have := gen_calculate_rank_eq_hand d S hS none
  simpa [nbRV, calcRank, List.map_map, Function.comp_def] using this

open OptunaVerif.RankIR in
example : calcGen Generated.RankMethods.prog frontH 4 2 [[0, 1], [1, 0], [1, 1], [1, 1], [2, 2]] .none_ = .ints [0, 0, 1, 1, 2] := by decide

open OptunaVerif.RankIR in
/-- **gen_rank_n_below_spec** — the generated `_calculate_nondomination_rank` with `n_below` (more than one objective): there is a stopping
level `K`; ranks below `K` are exact peeling ranks, every other row gets `K`; `K` is the first level at which at least `min(n_below, n_unique)`
unique rows have been ranked. -/
theorem gen_rank_n_below_spec (d : Nat) (S : List Pt) (hS : ∀ q ∈ S, q.length = d) (nBelow : Option Int)
    (h1 : d ≠ 1) (ht : trivialCase S nBelow = false) :
    calcGen Generated.RankMethods.prog frontH (uniqueLex S).length d S (nbRV nBelow) = .ints (S.map (fun p => (rankFn d S nBelow p : Int))) ∧
    ∃ K, IsPeelingUpTo S (rankFn d S nBelow) K ∧
      clipNBelow nBelow (uniqueLex S).length
        ≤ (uniqueLex S).length - ((uniqueLex S).filter (fun p => rankFn d S nBelow p = K)).length ∧
      (0 < K → (uniqueLex S).length - ((uniqueLex S).filter (fun p => K - 1 ≤ rankFn d S nBelow p)).length
        < clipNBelow nBelow (uniqueLex S).length) := by
  refine ⟨?_, C15.rank_n_below_spec d S hS nBelow h1 ht⟩
  have := gen_calculate_rank_eq_hand d S hS nBelow
  simpa [calcRank, List.map_map, Function.comp_def] using this

open OptunaVerif.RankIR in
example : calcGen Generated.RankMethods.prog frontH 5 2 [[0, 1], [1, 0], [1, 1], [1, 1], [2, 2], [3, 3]] (.int 3) = .ints [0, 0, 1, 1, 2, 2] := by
  decide

open OptunaVerif.RankIR in
/-- **gen_fast_rank_unconstrained** — `_fast_non_domination_rank` as generated, calling the generated `_calculate_nondomination_rank`, without
penalties: the hand model `Rank.fastRank`, every array, every `n_below` -/
theorem gen_fast_rank_unconstrained (d : Nat) (S : List Pt) (hS : ∀ q ∈ S, q.length = d) (nBelow : Option Nat) :
    fastGen Generated.RankMethods.prog (C15Gen.calcCallee frontH) d S .none_ (nbRV (nBelow.map Int.ofNat)) =
      .ints (((fastRank d S none nBelow).getD []).map Int.ofNat) := by
  have h := C15Gen.gen_fast_rank_eq_calc frontH d S none (nBelow.map Int.ofNat)
  simp only [penRV] at h
  rw [h]
  unfold fastRef fastRank
  by_cases hS0 : S.length = 0
  · have : S = [] := List.length_eq_zero_iff.mp hS0
    subst this
    simp
  · have hne : S.isEmpty = false := by
      cases S with
      | nil => simp at hS0
      | cons a t => rfl
    cases nBelow with
    | none =>
      have hpos : 0 < nbOr none S.length := by simp only [nbOr]; omega
      simp only [Option.map_none, hS0, if_false, hpos, not_true_eq_false, hne, Bool.false_eq_true]
      rw [calcRef_eq_calcRank d S hS]
      simp [nbOr]
    | some n =>
      by_cases h0 : n = 0
      · subst h0
        have hpos : 0 < nbOr (some (Int.ofNat 0)) S.length := by simp only [nbOr]; simp; omega
        simp only [Option.map_some, hS0, if_false, hpos, not_true_eq_false, hne, Bool.false_eq_true]
        rw [calcRef_eq_calcRank d S hS]
        simp [nbOr]
      · have hpos : 0 < nbOr (some (Int.ofNat n)) S.length := by simp only [nbOr]; simp [h0]; omega
        simp only [Option.map_some, hS0, if_false, hpos, not_true_eq_false, hne, Bool.false_eq_true]
        rw [calcRef_eq_calcRank d S hS]
        simp [nbOr, h0]

open OptunaVerif.RankIR in
/-- **gen_fast_rank_constrained** — `_fast_non_domination_rank` as generated, calling the generated `_calculate_nondomination_rank`, WITH
penalties: the hand model `Rank.fastRank`, for every array (no rows included), every penalty vector of that length (NaN entries; an empty
feasible, infeasible or NaN group), every `n_below`. -/
theorem gen_fast_rank_constrained (d : Nat) (S : List Pt) (hS : ∀ q ∈ S, q.length = d) (pen : List (Option Int))
    (hlen : pen.length = S.length) (nBelow : Option Nat) :
    fastGen Generated.RankMethods.prog (C15Gen.calcCallee frontH) d S (.pen pen) (nbRV (nBelow.map Int.ofNat)) =
      .ints (((fastRank d S (some pen) nBelow).getD []).map Int.ofNat) := by
  have h := C15Gen.gen_fast_rank_eq_calc frontH d S (some pen) (nBelow.map Int.ofNat)
  simp only [penRV] at h
  rw [h]
  exact fastRef_eq_fastRank d S hS pen hlen nBelow

open OptunaVerif.RankIR in
/-- the length mismatch is the ValueError -/
theorem gen_fast_rank_length_mismatch (d : Nat) (S : List Pt) (hne : S ≠ []) (pen : List (Option Int)) (hlen : pen.length ≠ S.length)
    (nBelow : Option Nat) :
    fastGen Generated.RankMethods.prog (C15Gen.calcCallee frontH) d S (.pen pen) (nbRV (nBelow.map Int.ofNat)) = .valueError := by
  have h := C15Gen.gen_fast_rank_eq_calc frontH d S (some pen) (nBelow.map Int.ofNat)
  simp only [penRV] at h
  rw [h]
  unfold fastRef
  have hS0 : ¬ S.length = 0 := fun e => hne (List.length_eq_zero_iff.mp e)
  have hpos : 0 < nbOr (nBelow.map Int.ofNat) S.length := by
    cases nBelow with
    | none => simp only [Option.map_none, nbOr]; omega
    | some n => by_cases h0 : n = 0 <;> simp [nbOr, h0] <;> omega
  simp [hS0, hpos, hlen]

open OptunaVerif.RankIR in
/-- **gen_rank_constrained_eq_spec** — with penalties (`none` = NaN) and no `n_below`, the generated `_fast_non_domination_rank` ranks every row
by repeated peeling under the constrained domination `CDom` (feasible before infeasible before unknown; Pareto dominance among feasible and among
unknown rows; smaller penalty among infeasible rows). -/
theorem gen_rank_constrained_eq_spec (d : Nat) (S : List Pt) (pen : List (Option Int))
    (hS : ∀ q ∈ S, q.length = d) (hlen : pen.length = S.length) :
    ∃ ρ : Row → Nat,
      fastGen Generated.RankMethods.prog (C15Gen.calcCallee frontH) d S (.pen pen) .none_ = .ints ((S.zip pen).map (fun e => (ρ e : Int))) ∧
      IsCPeeling (S.zip pen) ρ := by
  obtain ⟨ρ, h1, h2⟩ := C15.rank_constrained_eq_spec d S pen hS hlen
  refine ⟨ρ, ?_, h2⟩
  have := gen_fast_rank_constrained d S hS pen hlen none
  simp only [Option.map_none, nbRV] at this
  rw [this, h1]
  simp [List.map_map, Function.comp_def]

open OptunaVerif.RankIR in
/-- **gen_rank_groups_ordered** — every `n_below`: the result of the generated `_fast_non_domination_rank` is `ρ` row by row where
* a feasible row has the rank the callee gives it inside the feasible group (the peeling rank of that group: `gen_rank_eq_peeling` /
  `gen_rank_n_below_spec`), an infeasible row `topI +` its rank by penalty alone inside the infeasible group, a row without penalty
  information `topN +` its rank inside that group;
* every feasible row ranks STRICTLY before every infeasible row, and every feasible or infeasible row STRICTLY before every row without
  penalty information. -/
theorem gen_rank_groups_ordered (d : Nat) (S : List Pt) (pen : List (Option Int)) (hS : ∀ q ∈ S, q.length = d)
    (hlen : pen.length = S.length) (hne : S ≠ []) (nBelow : Option Nat) :
    ∃ (ρ : Row → Nat) (nb : Int) (topI topN : Nat),
      fastGen Generated.RankMethods.prog (C15Gen.calcCallee frontH) d S (.pen pen) (nbRV (nBelow.map Int.ofNat)) =
        .ints ((S.zip pen).map (fun e => (ρ e : Int))) ∧
      (∀ e ∈ (S.zip pen), classify e.2 = .feasible → ρ e = rankFn d ((rowsOf .feasible (S.zip pen)).map (·.1)) (some nb) e.1) ∧
      (∀ e ∈ (S.zip pen), classify e.2 = .infeasible → ρ e = topI + rankFn 1 (penaltyRows (S.zip pen)) (some (nb - (((rowsOf .feasible (S.zip pen)).map (·.1)).length : Int))) [e.2.getD 0]) ∧
      (∀ e ∈ (S.zip pen), classify e.2 = .unknown → ρ e = topN + rankFn d ((rowsOf .unknown (S.zip pen)).map (·.1)) (some (nb - (((rowsOf .feasible (S.zip pen)).map (·.1)).length : Int) - ((penaltyRows (S.zip pen)).length : Int))) e.1) ∧
      (∀ e ∈ (S.zip pen), ∀ e' ∈ (S.zip pen), classify e.2 = .feasible → classify e'.2 = .infeasible → ρ e < ρ e') ∧
      (∀ e ∈ (S.zip pen), ∀ e' ∈ (S.zip pen), classify e.2 ≠ .unknown → classify e'.2 = .unknown → ρ e < ρ e') := by
  have hemp : S.isEmpty = false := by cases S with | nil => exact absurd rfl hne | cons a t => rfl
  obtain ⟨nb, hfr⟩ : ∃ nb, fastRank d S (some pen) nBelow = some ((S.zip pen).map (fastRankFn d (S.zip pen) nb)) :=
    by
    unfold fastRank
    simp only [hemp, Bool.false_eq_true, if_false, hlen, ne_eq, not_true_eq_false]
    exact ⟨_, rfl⟩
  have hgen := gen_fast_rank_constrained d S hS pen hlen nBelow
  rw [hfr] at hgen
  refine ⟨fastRankFn d (S.zip pen) nb, nb, topRank (calcRank d ((rowsOf .feasible (S.zip pen)).map (·.1)) (some nb)), topRank ((calcRank d ((rowsOf .feasible (S.zip pen)).map (·.1)) (some nb)) ++ ((calcRank 1 (penaltyRows (S.zip pen)) (some (nb - (((rowsOf .feasible (S.zip pen)).map (·.1)).length : Int)))).map (· + topRank (calcRank d ((rowsOf .feasible (S.zip pen)).map (·.1)) (some nb))))), ?_, ?_, ?_, ?_, ?_, ?_⟩
  · rw [hgen]; simp [List.map_map, Function.comp_def]
  · intro e _ hc; simp only [fastRankFn, hc]
  · intro e _ hc; simp only [fastRankFn, hc]
  · intro e _ hc; simp only [fastRankFn, hc]
  · intro e he e' he' hc hc'
    have h1 : rankFn d ((rowsOf .feasible (S.zip pen)).map (·.1)) (some nb) e.1 ∈ (calcRank d ((rowsOf .feasible (S.zip pen)).map (·.1)) (some nb)) := by
      simp only [calcRank]
      exact List.mem_map.mpr ⟨e.1, List.mem_map.mpr ⟨e, (mem_rowsOf _ _ _).mpr ⟨he, hc⟩, rfl⟩, rfl⟩
    have := topRank_lt _ _ h1
    simp only [fastRankFn, hc, hc']
    omega
  · intro e he e' he' hc hc'
    have hlt : fastRankFn d (S.zip pen) nb e < topRank ((calcRank d ((rowsOf .feasible (S.zip pen)).map (·.1)) (some nb)) ++ ((calcRank 1 (penaltyRows (S.zip pen)) (some (nb - (((rowsOf .feasible (S.zip pen)).map (·.1)).length : Int)))).map (· + topRank (calcRank d ((rowsOf .feasible (S.zip pen)).map (·.1)) (some nb))))) := by
      apply topRank_lt
      cases hcl : classify e.2 with
      | unknown => exact absurd hcl hc
      | feasible =>
        apply List.mem_append_left
        simp only [fastRankFn, hcl, calcRank]
        exact List.mem_map.mpr ⟨e.1, List.mem_map.mpr ⟨e, (mem_rowsOf _ _ _).mpr ⟨he, hcl⟩, rfl⟩, rfl⟩
      | infeasible =>
        apply List.mem_append_right
        simp only [fastRankFn, hcl, calcRank, List.map_map]
        refine List.mem_map.mpr ⟨[e.2.getD 0], ?_, by simp [Nat.add_comm]⟩
        simp only [penaltyRows]
        exact List.mem_map.mpr ⟨e, (mem_rowsOf _ _ _).mpr ⟨he, hcl⟩, rfl⟩
    simp only [fastRankFn, hc'] at hlt ⊢
    omega

open OptunaVerif.RankIR in
-- non-vacuity: an empty feasible group, an empty infeasible group, all penalties NaN, one NaN next to ranked rows, no rows
example : fastGen Generated.RankMethods.prog (C15Gen.calcCallee frontH) 2 [[0, 1], [1, 0], [1, 1]] (.pen [some 2, none, some 1]) .none_ =
    .ints [1, 2, 0] := by decide
open OptunaVerif.RankIR in
example : fastGen Generated.RankMethods.prog (C15Gen.calcCallee frontH) 2 [[0, 1], [1, 0], [1, 1]] (.pen [some 0, none, some (-3)]) .none_ =
    .ints [0, 2, 1] := by decide
open OptunaVerif.RankIR in
example : fastGen Generated.RankMethods.prog (C15Gen.calcCallee frontH) 2 [[0, 1], [1, 0], [1, 1]] (.pen [none, none, none]) .none_ =
    .ints [0, 0, 1] := by decide
open OptunaVerif.RankIR in
-- the input on which seeded C15-2 fails: the NaN-penalty row must come after the feasible row although there is no infeasible row
example : fastGen Generated.RankMethods.prog (C15Gen.calcCallee frontH) 2 [[6, 1], [5, 2]] (.pen [some (-1), none]) .none_ = .ints [0, 1] := by
  decide
open OptunaVerif.RankIR in
example : fastGen Generated.RankMethods.prog (C15Gen.calcCallee frontH) 2 [] (.pen []) .none_ = .ints [] := by decide

open OptunaVerif.RankIR in
-- the input of seeded C15-2 (a NaN penalty next to ranked rows): the NaN-penalty row comes after every ranked row
example : fastGen Generated.RankMethods.prog (C15Gen.calcCallee frontH) 2 [[0, 1], [1, 0], [1, 1], [1, 1], [2, 2], [3, 3]]
    (.pen [some 0, some 1, none, some (-1), some 2, some 1]) .none_ = .ints [0, 2, 4, 1, 3, 2] := by decide

/-- **front_bridge_le2_partial** — the two hand models of `_is_pareto_front_for_unique_sorted` (C12's mask over extended rationals, the one
C12Gen's interpreter of the generated `_is_pareto_front` is proved equal to; C15's list of kept lattice rows, the parameter of the wfg / rank
interpreters) agree for one and two objectives under the encoding `FrontBridge.encRow`.  PARTIAL: three and more objectives are not bridged,
and the parameter of `gen_compute_hypervolume_eq` / `gen_calculate_rank_eq` is not yet discharged with the interpreter of the generated front. -/
theorem front_bridge_le2_partial (d : Nat) (hd : d = 1 ∨ d = 2) (U : List Pt) (hU : ∀ p ∈ U, p.length = d) :
    RankIR.selMask U (Best.frontSorted (U.map FrontBridge.encRow)) = Hypervolume.frontSorted id d U :=
  FrontBridge.frontSorted_eq_best_front_le2 d hd U hU

end OptunaVerif.C15GenSpec
