import OptunaVerif.Generated.Nsga2Src
import OptunaVerif.Model.Nsga2
import OptunaVerif.Lemmas.Nsga2
import OptunaVerif.Lemmas.Nsga2Crowd
import OptunaVerif.Lemmas.Nsga2Mirror
import OptunaVerif.Lemmas.Rank
import OptunaVerif.Props.C09
/-!
# C15 (NSGA-II part) — the elite population selection on top of the non-domination rank

`Model/Nsga2.lean` mirrors `NSGAIIElitePopulationSelectionStrategy.__call__`, `_rank_population`,
`_calc_crowding_distance`, `_crowding_distance_sort`.  Theorems (all populations, all population sizes, every number
instance unless `xnum` is named):

* `elite_size`, `elite_distinct_members`        exactly `min(population_size, |population|)` members, no trial twice
* `elite_fronts_monotone`                       a trial of rank `r` is selected only together with every trial of rank `< r`
* `elite_ranks_are_peeling_ranks`               … and that rank is the peeling rank of C15 (`rank_eq_peeling`,
                                                `rank_constrained_eq_spec`) on the order-embedded loss rows
* `crowding_boundary_inf`                       the unique extreme individual of an objective has distance `inf`
* `crowding_boundary_tie_at_neg_inf_witness`    … exactly as coded: with two `-inf` entries the first one gets `0`
* `crowding_sort_descending`                    `_crowding_distance_sort` (key `(-distance, number)`, after the repair of F-C13-1)
                                                lists distances in non-increasing order — the `inf` individuals first —,
                                                equal distances by ascending trial number
* `crowding_sort_order_independent`, `elite_set_order_independent`   for pairwise-distinct values per objective the sorted
                                                front, and the elite population as a set, do not depend on the input order
-/
namespace OptunaVerif.C15Nsga
open OptunaVerif OptunaVerif.Nsga2 OptunaVerif.Rank OptunaVerif.Hypervolume List

/-! ## 1. size and members -/

/-- **elite_size.**  Whatever the ranks and whatever the number arithmetic: the selection returns exactly
`min(population_size, |population|)` trials. -/
theorem elite_size {α : Type} (N : Num α) (popSize : Nat) (ranks : List Nat) (pop : List (Ind α))
    (hlen : ranks.length = pop.length) :
    (eliteWith N popSize ranks pop).length = min popSize pop.length := by
  unfold eliteWith
  cases pop with
  | nil => simp
  | cons p t =>
    simp only
    rw [selectLoop_length N popSize _ [] (by simp)]
    simp [(perRank_perm ranks (p :: t) hlen).length_eq]

/-- **elite_distinct_members.**  The result is a sub-multiset of the population: every selected trial is a member
and none is taken more often than it occurs — so for a population of distinct trials the selected ones are distinct. -/
theorem elite_distinct_members {α : Type} (N : Num α) (popSize : Nat) (ranks : List Nat) (pop : List (Ind α))
    (hlen : ranks.length = pop.length) :
    (eliteWith N popSize ranks pop).Subperm pop ∧
      ((pop.map (·.number)).Nodup → ((eliteWith N popSize ranks pop).map (·.number)).Nodup) := by
  have h : (eliteWith N popSize ranks pop).Subperm pop := by
    unfold eliteWith
    cases pop with
    | nil => exact Subperm.refl _
    | cons p t =>
      simp only
      have := selectLoop_subperm N popSize (perRank ranks (p :: t)) []
      simp only [nil_append] at this
      exact this.trans (perRank_perm ranks (p :: t) hlen).subperm
  refine ⟨h, fun hn => ?_⟩
  obtain ⟨l, hl1, hl2⟩ := h
  exact ((hl1.map (fun x : Ind α => x.number)).nodup_iff).1 (hn.sublist (hl2.map _))

theorem fastRank_length (d : Nat) (S : List Pt) (pen : Option (List (Option Int))) (r : List Nat)
    (h : fastRank d S pen none = some r) : r.length = S.length := by
  unfold fastRank at h
  by_cases hS : S = []
  · subst hS
    simp at h
    subst h; rfl
  · have h1 : S.isEmpty = false := by simpa using hS
    simp only [h1, Bool.false_eq_true, if_false] at h
    cases pen with
    | none =>
      simp only [Option.some.injEq] at h
      subst h; simp [calcRank]
    | some pen =>
      simp only at h
      split at h
      · simp at h
      · rename_i hl
        simp only [Option.some.injEq] at h
        subst h
        simp only [ne_eq, Decidable.not_not] at hl
        simp [hl]

/-- the top-level call (exact instance, ranks from `Model/Rank.lean`) -/
theorem elite_size_call (e : Enc) (popSize : Nat) (dirs : List Bool) (constrained : Bool) (pop res : List (Ind XVal))
    (h : elite e popSize dirs constrained pop = some res) :
    res.length = min popSize pop.length ∧ res.Subperm pop := by
  unfold elite at h
  split at h
  · simp at h
  · split at h
    · simp at h
    · rename_i ranks hr
      simp only [Option.some.injEq] at h
      subst h
      have hlen : ranks.length = pop.length := by
        have := fastRank_length _ _ _ _ hr
        simpa using this
      exact ⟨elite_size xnum popSize ranks pop hlen, (elite_distinct_members xnum popSize ranks pop hlen).1⟩

-- non-vacuity: four trials in two fronts, population size 3: the first front whole, one of the second (both of its
-- members are at distance inf: the smaller number wins)
example : (elite ⟨1, 10⟩ 3 [false, false] false
    [⟨0, [.fin 0, .fin 1], none, true, []⟩, ⟨1, [.fin 1, .fin 0], none, true, []⟩,
     ⟨2, [.fin 2, .fin 2], none, true, []⟩, ⟨3, [.fin 1, .fin 3], none, true, []⟩]).map (·.map (·.number)) = some [0, 1, 2] := by
  decide +kernel

/-! ## 2. whole fronts first -/

theorem zip_rank_unique {β : Type} (pop : List β) (ranks : List Nat) (hnd : pop.Nodup) (x : β) (a b : Nat)
    (ha : (x, a) ∈ pop.zip ranks) (hb : (x, b) ∈ pop.zip ranks) : a = b := by
  induction pop generalizing ranks with
  | nil => simp at ha
  | cons p t ih =>
    cases ranks with
    | nil => simp at ha
    | cons r rs =>
      rw [nodup_cons] at hnd
      simp only [zip_cons_cons, mem_cons, Prod.mk.injEq] at ha hb
      rcases ha with ⟨h1, h2⟩ | ha
      · rcases hb with ⟨_, h4⟩ | hb
        · omega
        · exact absurd (h1 ▸ (of_mem_zip hb).1) hnd.1
      · rcases hb with ⟨h3, _⟩ | hb
        · exact absurd (h3 ▸ (of_mem_zip ha).1) hnd.1
        · exact ih rs hnd.2 ha hb

/-- **elite_fronts_monotone.**  For a population of distinct trials and ANY rank vector (in the code: the
non-domination ranks): if a trial of rank `rx` is selected, every trial of smaller rank is selected. -/
theorem elite_fronts_monotone {α : Type} (N : Num α) (popSize : Nat) (ranks : List Nat) (pop : List (Ind α))
    (hnd : pop.Nodup) (x y : Ind α) (rx ry : Nat)
    (hx : (x, rx) ∈ pop.zip ranks) (hy : (y, ry) ∈ pop.zip ranks)
    (hsel : x ∈ eliteWith N popSize ranks pop) (hlt : ry < rx) :
    y ∈ eliteWith N popSize ranks pop := by
  unfold eliteWith at hsel ⊢
  cases pop with
  | nil => simp at hx
  | cons p t =>
    simp only at hsel ⊢
    rcases selectLoop_fronts N popSize (perRank ranks (p :: t)) [] x hsel with h | ⟨i, hi, hxi, hall⟩
    · simp at h
    · have hxi' := (mem_perRank ranks (p :: t) i hi x).1 hxi
      have hri : rx = i := zip_rank_unique (p :: t) ranks hnd x rx i hx hxi'
      apply hall y
      have hry : ry < (perRank ranks (p :: t)).length := by omega
      rw [mem_flatten]
      refine ⟨(perRank ranks (p :: t))[ry], ?_, (mem_perRank ranks (p :: t) ry hry y).2 hy⟩
      rw [mem_take_iff_getElem]
      exact ⟨ry, by omega, rfl⟩

-- non-vacuity (same population as above): rank-1 trial 2 is selected, so the rank-0 trials 0 and 1 are
example : calcRank 2 [[0, 1], [1, 0], [2, 2], [1, 3]] (some 4) = [0, 0, 1, 1] := by decide +kernel

/-- **elite_ranks_are_peeling_ranks.**  The ranks the selection uses are C15's peeling ranks of the (order-embedded)
loss rows: unconstrained — `rank_eq_peeling`; with `constraints_func` — `rank_constrained_eq_spec` (feasible before
infeasible before unknown). -/
theorem elite_ranks_are_peeling_ranks (e : Enc) (dirs : List Bool) (pop : List (Ind XVal))
    (hv : ∀ x ∈ pop, x.values.length = dirs.length) :
    (ranksOf e dirs false pop = some ((pop.map (lossRow e dirs)).map (rankFn dirs.length (pop.map (lossRow e dirs)) none)) ∧
      IsPeeling (pop.map (lossRow e dirs)) (rankFn dirs.length (pop.map (lossRow e dirs)) none)) ∧
    (∃ ρ : Row → Nat,
      ranksOf e dirs true pop =
        some (((pop.map (lossRow e dirs)).zip (pop.map (fun x => encPenalty e (penaltyOf x)))).map ρ) ∧
      IsCPeeling ((pop.map (lossRow e dirs)).zip (pop.map (fun x => encPenalty e (penaltyOf x)))) ρ) := by
  have hS : ∀ q ∈ pop.map (lossRow e dirs), q.length = dirs.length := by
    intro q hq
    obtain ⟨x, hx, rfl⟩ := mem_map.1 hq
    simp [lossRow, hv x hx]
  refine ⟨⟨?_, rankFn_isPeeling _ _ hS⟩, ?_⟩
  · unfold ranksOf fastRank
    by_cases hne : pop = []
    · subst hne; simp
    · have h1 : (pop.map (lossRow e dirs)).isEmpty = false := by simpa using hne
      simp only [h1, Bool.false_eq_true, if_false]
      have hpos : (0 : Int) < ((pop.map (lossRow e dirs)).length : Int) := by
        have : 0 < pop.length := length_pos_iff.2 hne
        simp; omega
      have := rankFn_some_eq_none dirs.length (pop.map (lossRow e dirs)) _ hpos
        (by simpa using uniqueLex_length_le dirs.length _ hS)
      have hl : ((pop.map (lossRow e dirs)).length : Int) = (pop.length : Int) := by simp
      rw [hl] at this
      simp [calcRank, this]
  · have := fastRank_constrained dirs.length (pop.map (lossRow e dirs))
      (pop.map (fun x => encPenalty e (penaltyOf x))) hS (by simp)
    simpa [ranksOf] using this

/-! ## 3. crowding distance: the extremes are kept first -/

/-- **crowding_boundary_inf.**  In a front of at least two trials without NaN values and with distinct numbers, the
individual that is the unique smallest — or the unique largest — in some objective has crowding distance `+inf`
(whatever its other objectives contribute, infinite objective values included). -/
theorem crowding_boundary_inf (p0 : Ind XVal) (t : List (Ind XVal)) (hnn : NoNaNPop (p0 :: t))
    (hnum : ((p0 :: t).map (·.number)).Nodup) (x : Ind XVal) (hx : x ∈ p0 :: t) (i : Nat) (hi : i < p0.values.length)
    (h2 : 2 ≤ (p0 :: t).length)
    (hext : (∀ y ∈ p0 :: t, y.number ≠ x.number → xlt (x.val xnum i) (y.val xnum i) = true) ∨
            (∀ y ∈ p0 :: t, y.number ≠ x.number → xlt (y.val xnum i) (x.val xnum i) = true)) :
    lookupD xnum x.number (calcCrowding xnum (p0 :: t)).2 = .pinf := by
  unfold calcCrowding
  simp only
  apply fold_hit (p0 :: t) hnn _ _ (inv_init _) x.number i (by simpa using hi)
  intro st hst
  rcases hext with h | h
  · exact crowdStep_min (p0 :: t) hnn hnum x hx i h2 h st hst
  · exact crowdStep_max (p0 :: t) hnn hnum x hx i h2 h st hst

-- non-vacuity: three trials, two objectives; #0 is the unique minimum of objective 0, #2 its unique maximum
example : (calcCrowding xnum [⟨0, [.fin 0, .fin 5], none, true, []⟩, ⟨1, [.fin 1, .fin 3], none, true, []⟩,
    ⟨2, [.fin 4, .fin 0], none, true, []⟩]).2 = [(0, .pinf), (1, .fin 2), (2, .pinf)] := by decide +kernel

/-- … exactly as coded: "unique" cannot be dropped.  With two `-inf` entries in an objective the first individual of
the sorted order gets `0` from it (`vs[j] == vs[j+2]`, "inf - inf is considered to be zero"), not `inf`. -/
theorem crowding_boundary_tie_at_neg_inf_witness :
    (calcCrowding xnum [⟨0, [.ninf], none, true, []⟩, ⟨1, [.ninf], none, true, []⟩, ⟨2, [.fin 3], none, true, []⟩]).2
      = [(0, .fin 0), (1, .pinf), (2, .pinf)] := by decide +kernel

/-- **crowding_sort_descending.**  After `_crowding_distance_sort` (sort key `(-distance, number)`) the list is a
permutation of the front, every crowding distance is a non-negative rational or `+inf`, and for `a` before `b`:
the distance of `a` is not smaller, and if the distances are equal the number of `a` is not larger. -/
theorem crowding_sort_descending (pop : List (Ind XVal)) (hnn : NoNaNPop pop) :
    (crowdingSort xnum pop).Perm pop ∧
    (∀ n, Good (lookupD xnum n (calcCrowding xnum pop).2)) ∧
    (crowdingSort xnum pop).Pairwise (fun a b =>
      xlt (lookupD xnum a.number (calcCrowding xnum pop).2) (lookupD xnum b.number (calcCrowding xnum pop).2) = false ∧
      (lookupD xnum a.number (calcCrowding xnum pop).2 = lookupD xnum b.number (calcCrowding xnum pop).2 →
        a.number ≤ b.number)) :=
  crowdingSort_desc pop hnn

/-- **crowding_sort_order_independent.**  A front of trials with distinct numbers, equally many objective values, no NaN
and no per-objective ties is sorted to the SAME list in whatever order it is handed over: the distances do not
depend on the input order, and the final order is a function of (distance, number). -/
theorem crowding_sort_order_independent (p0 p0' : Ind XVal) (t t' : List (Ind XVal)) (hp : (p0' :: t').Perm (p0 :: t))
    (hlen : p0'.values.length = p0.values.length) (hnn : NoNaNPop (p0 :: t))
    (hnum : ((p0 :: t).map (·.number)).Nodup) (htf : ∀ i < p0.values.length, TieFree (p0 :: t) i) :
    crowdingSort xnum (p0' :: t') = crowdingSort xnum (p0 :: t) :=
  crowdingSort_perm_invariant p0 p0' t t' hp hlen hnn hnum htf

/-- **elite_set_order_independent.**  For a population with distinct numbers, no NaN, `d` objective values each and
pairwise-distinct values per objective, the elite population does not depend on the order in which the population is
listed (the rank of a trial travelling with it): the two results are permutations of each other — same SET, and in
fact the same list up to the order inside the fronts that are taken whole.  (Before the repair of F-C13-1 this was
false: ties at distance `inf` were cut according to the input order.) -/
theorem elite_set_order_independent (d k : Nat) (ranks ranks' : List Nat) (pop pop' : List (Ind XVal))
    (hz : (pop'.zip ranks').Perm (pop.zip ranks)) (hl : ranks.length = pop.length) (hl' : ranks'.length = pop'.length)
    (hok : FrontOK d pop) : (eliteWith xnum k ranks' pop').Perm (eliteWith xnum k ranks pop) :=
  eliteWith_perm_invariant d k ranks ranks' pop pop' hz hl hl' hok

-- non-vacuity: one front of four trials (three at distance inf), population size 2, listed in two orders: {0, 1} both times
example :
    let a : Ind XVal := ⟨0, [.fin 0, .fin 9], none, true, []⟩
    let b : Ind XVal := ⟨1, [.fin 9, .fin 0], none, true, []⟩
    let c : Ind XVal := ⟨2, [.fin 4, .fin 5], none, true, []⟩
    let e : Ind XVal := ⟨3, [.fin 5, .fin 3], none, true, []⟩
    (eliteWith xnum 2 [0, 0, 0, 0] [a, b, c, e]).map (·.number) = [0, 1] ∧
    (eliteWith xnum 2 [0, 0, 0, 0] [e, c, b, a]).map (·.number) = [0, 1] := by decide +kernel

/-- … hence the individuals of infinite distance come first: nobody of finite distance stands before one of
infinite distance, and the truncation `individuals[:n]` drops finite-distance individuals first. -/
theorem crowding_inf_kept_first (pop : List (Ind XVal)) (hnn : NoNaNPop pop) (l1 l2 : List (Ind XVal)) (b : Ind XVal)
    (hs : crowdingSort xnum pop = l1 ++ b :: l2)
    (hb : lookupD xnum b.number (calcCrowding xnum pop).2 = .pinf) :
    ∀ a ∈ l1, lookupD xnum a.number (calcCrowding xnum pop).2 = .pinf := by
  obtain ⟨_, hg, hp⟩ := crowding_sort_descending pop hnn
  rw [hs, pairwise_append] at hp
  intro a ha
  have h1 := (hp.2.2 a ha b (by simp)).1
  rw [hb] at h1
  have h2 := hg a.number
  generalize lookupD xnum a.number (calcCrowding xnum pop).2 = v at h1 h2
  cases v <;> simp_all [xlt, Good]

example : (crowdingSort xnum [⟨0, [.fin 0, .fin 5], none, true, []⟩, ⟨1, [.fin 1, .fin 3], none, true, []⟩,
    ⟨2, [.fin 4, .fin 0], none, true, []⟩]).map (·.number) = [0, 2, 1] := by decide +kernel

/-! ## 4. the elite population and the parent cache (C09) -/

/-- **elite_through_parent_cache** (link to `C09.ga_cache_roundtrip`; not a new result).  `select_parent` = this
selection; `get_parent_population` stores the selected trials in a study system attribute and reads them back as
indices into the list of all trials.  Stored as trial NUMBERS (what NSGA-III does) the selected list comes back
unchanged on every storage; stored as `_trial_id`s (what `BaseGASampler` does today) it does not as soon as ids
differ from numbers — `C09.ga_cache_ids_wrong`, known finding F7. -/
theorem elite_through_parent_cache {α : Type} (N : Num α) (popSize : Nat) (ranks : List Nat) (pop : List (Ind α))
    (trials : List GACache.T) (hd : C09.NumberDense trials) (idOf : Nat → Nat)
    (hmem : ∀ x ∈ pop, (⟨idOf x.number, x.number⟩ : GACache.T) ∈ trials) (hlen : ranks.length = pop.length) :
    GACache.roundTrip GACache.writeNumbers trials ((eliteWith N popSize ranks pop).map (fun x => ⟨idOf x.number, x.number⟩)) =
      some ((eliteWith N popSize ranks pop).map (fun x => ⟨idOf x.number, x.number⟩)) := by
  apply C09.ga_cache_roundtrip trials _ hd
  intro p hp
  obtain ⟨x, hx, rfl⟩ := mem_map.1 hp
  exact hmem x ((elite_distinct_members N popSize ranks pop hlen).1.subset hx)

/-! ## T-nsga2: the functions mirrored here are the ones the model was written against -/

/-- content keys (docstring-free, position-free AST; `verif/translators/nsga2_src.py`) of the functions of the tree
under test that the theorems of this file speak about, as they were when `Model/Nsga2.lean` was written -/
def modelledKeys : List (String × Nat) := [
  ("optuna/samplers/nsgaii/_elite_population_selection_strategy.py :: NSGAIIElitePopulationSelectionStrategy.__call__", 719216067323116413),
  ("optuna/samplers/nsgaii/_elite_population_selection_strategy.py :: _calc_crowding_distance", 60815413682515448),
  ("optuna/samplers/nsgaii/_elite_population_selection_strategy.py :: _crowding_distance_sort", 458905545629052035),
  ("optuna/samplers/nsgaii/_elite_population_selection_strategy.py :: _rank_population", 645381497369769622),
  ("optuna/samplers/nsgaii/_constraints_evaluation.py :: _constrained_dominates", 1053739708068113442),
  ("optuna/samplers/nsgaii/_constraints_evaluation.py :: _evaluate_penalty", 582851371091823490),
  ("optuna/samplers/nsgaii/_constraints_evaluation.py :: _validate_constraints", 852570739291261064),
  ("optuna/study/_multi_objective.py :: _dominates", 132905871192497782),
  ("optuna/study/_multi_objective.py :: _normalize_value", 287351839270267405)
]

/-- **modelled_source_unchanged.**  The regenerated keys (every run, from the tree under test) of the selection / crowding / domination functions equal the recorded ones: an edit of any of them breaks this obligation. -/
theorem modelled_source_unchanged :
    modelledKeys.all (fun p => Generated.Nsga2Src.keyOf p.1 == p.2) = true := by decide

/-! ## 7. the ranks are the peeling ranks of the ORIGINAL objective vectors (faithful encodings) -/

/-- the direction-normalised objective vector of a trial (`objective_values *= ±1`) -/
def normRow (dirs : List Bool) (x : Ind XVal) : List XVal := List.zipWith normVal dirs x.values

/-- every value the ranking compares: the normalised objective values of the population -/
def valuesOf (dirs : List Bool) (pop : List (Ind XVal)) : List XVal := (pop.map (normRow dirs)).flatten

/-- **Enc.Faithful** — on the values that occur the encoding is an order embedding of the float order (`<=` of `XVal`: NaN is not comparable)
into the integers: it preserves and reflects `<=`, and distinct values get distinct codes.  (A population with a NaN objective value and any
other value has no faithful encoding: `nan <= v` is false both ways.) -/
structure _root_.OptunaVerif.Nsga2.Enc.Faithful (e : Enc) (vals : List XVal) : Prop where
  le_iff : ∀ a ∈ vals, ∀ b ∈ vals, (encV e a ≤ encV e b ↔ XVal.le a b = true)
  inj : ∀ a ∈ vals, ∀ b ∈ vals, encV e a = encV e b → a = b

/-- domination of ORIGINAL objective vectors under the study's directions: nowhere worse, and not the same vector -/
def VDom (dirs : List Bool) (y x : Ind XVal) : Prop :=
  List.Forall₂ (fun a b => XVal.le a b = true) (normRow dirs y) (normRow dirs x) ∧ normRow dirs y ≠ normRow dirs x

theorem lossRow_eq_map (e : Enc) (dirs : List Bool) (x : Ind XVal) : lossRow e dirs x = (normRow dirs x).map (encV e) := by
  simp [lossRow, normRow, List.map_zipWith]

theorem forall₂_enc (e : Enc) (vals : List XVal) (hf : e.Faithful vals) :
    ∀ (A B : List XVal), (∀ a ∈ A, a ∈ vals) → (∀ b ∈ B, b ∈ vals) →
      (List.Forall₂ (· ≤ ·) (A.map (encV e)) (B.map (encV e)) ↔ List.Forall₂ (fun a b => XVal.le a b = true) A B) := by
  intro A
  induction A with
  | nil => intro B _ _; cases B <;> simp
  | cons a A ih =>
    intro B hA hB
    cases B with
    | nil => simp
    | cons b B =>
      simp only [List.map_cons, List.forall₂_cons]
      rw [hf.le_iff a (hA a (List.mem_cons_self ..)) b (hB b (List.mem_cons_self ..)),
        ih B (fun x hx => hA x (List.mem_cons_of_mem _ hx)) (fun x hx => hB x (List.mem_cons_of_mem _ hx))]

theorem map_enc_inj (e : Enc) (vals : List XVal) (hf : e.Faithful vals) :
    ∀ (A B : List XVal), (∀ a ∈ A, a ∈ vals) → (∀ b ∈ B, b ∈ vals) → A.map (encV e) = B.map (encV e) → A = B := by
  intro A
  induction A with
  | nil => intro B _ _ h; cases B <;> simp_all
  | cons a A ih =>
    intro B hA hB h
    cases B with
    | nil => simp at h
    | cons b B =>
      simp only [List.map_cons, List.cons.injEq] at h
      rw [hf.inj a (hA a (List.mem_cons_self ..)) b (hB b (List.mem_cons_self ..)) h.1,
        ih B (fun x hx => hA x (List.mem_cons_of_mem _ hx)) (fun x hx => hB x (List.mem_cons_of_mem _ hx)) h.2]

theorem mem_valuesOf (dirs : List Bool) (pop : List (Ind XVal)) (x : Ind XVal) (hx : x ∈ pop) :
    ∀ a ∈ normRow dirs x, a ∈ valuesOf dirs pop := by
  intro a ha
  exact List.mem_flatten.mpr ⟨normRow dirs x, List.mem_map.mpr ⟨x, hx, rfl⟩, ha⟩

/-- for a faithful encoding, domination of the encoded loss rows IS domination of the original objective vectors -/
theorem dom_lossRow_iff (e : Enc) (dirs : List Bool) (pop : List (Ind XVal)) (hf : e.Faithful (valuesOf dirs pop))
    (x y : Ind XVal) (hx : x ∈ pop) (hy : y ∈ pop) :
    Dom (lossRow e dirs y) (lossRow e dirs x) ↔ VDom dirs y x := by
  unfold Dom VDom Le
  rw [lossRow_eq_map, lossRow_eq_map,
    forall₂_enc e _ hf _ _ (mem_valuesOf dirs pop y hy) (mem_valuesOf dirs pop x hx)]
  constructor
  · rintro ⟨h1, h2⟩; exact ⟨h1, fun h => h2 (by rw [h])⟩
  · rintro ⟨h1, h2⟩
    exact ⟨h1, fun h => h2 (map_enc_inj e _ hf _ _ (mem_valuesOf dirs pop y hy) (mem_valuesOf dirs pop x hx) h)⟩

/-- **elite_ranks_are_peeling_ranks_of_values.**  For a FAITHFUL encoding the ranks `_rank_population` hands to the selection are the peeling
ranks of the ORIGINAL objective vectors under the study's directions: there is `ρ` on trials with `ranks = pop.map ρ` and, for every trial `x`
and level `j ≤ ρ x`: `ρ x = j` iff no trial of rank ≥ j dominates `x` (`VDom`: original values, directions applied, float `<=`). -/
theorem elite_ranks_are_peeling_ranks_of_values (e : Enc) (dirs : List Bool) (pop : List (Ind XVal))
    (hv : ∀ x ∈ pop, x.values.length = dirs.length) (hf : e.Faithful (valuesOf dirs pop)) :
    ∃ ρ : Ind XVal → Nat, ranksOf e dirs false pop = some (pop.map ρ) ∧
      ∀ x ∈ pop, ∀ j, j ≤ ρ x → (ρ x = j ↔ ∀ y ∈ pop, j ≤ ρ y → ¬ VDom dirs y x) := by
  obtain ⟨⟨h1, h2⟩, _⟩ := elite_ranks_are_peeling_ranks e dirs pop hv
  refine ⟨fun x => rankFn dirs.length (pop.map (lossRow e dirs)) none (lossRow e dirs x), ?_, ?_⟩
  · rw [h1]; simp [List.map_map, Function.comp_def]
  · intro x hx j hj
    have := h2 (lossRow e dirs x) (List.mem_map.mpr ⟨x, hx, rfl⟩) j hj
    rw [this]
    constructor
    · intro h y hy hjy hd
      exact h (lossRow e dirs y) (List.mem_map.mpr ⟨y, hy, rfl⟩) hjy ((dom_lossRow_iff e dirs pop hf x y hx hy).mpr hd)
    · intro h q hq hjq hd
      obtain ⟨y, hy, rfl⟩ := List.mem_map.mp hq
      exact h y hy hjq ((dom_lossRow_iff e dirs pop hf x y hx hy).mp hd)

/-- **faithful_of_common_den** — the encoding the driver is given (verif/props/c15_nsga.py `enc_for`: `den` = a common denominator of the
finite values, `big` beyond every scaled finite value) is faithful on NaN-free values: `q * den` is an integer for every finite `q` that occurs,
and it lies strictly between `-big` and `big`. -/
theorem faithful_of_common_den (e : Enc) (vals : List XVal) (hden : 0 < e.den) (hbig0 : 0 < e.big)
    (hnan : XVal.nan ∉ vals)
    (hint : ∀ q, XVal.fin q ∈ vals → (((q * (e.den : Rat)).floor : Int) : Rat) = q * (e.den : Rat))
    (hbig : ∀ q, XVal.fin q ∈ vals → -e.big < (q * (e.den : Rat)).floor ∧ (q * (e.den : Rat)).floor < e.big) :
    e.Faithful vals := by
  have hd : (0 : Rat) < (e.den : Rat) := by exact_mod_cast hden
  have hfin : ∀ a b : Rat, XVal.fin a ∈ vals → XVal.fin b ∈ vals →
      ((a * (e.den : Rat)).floor ≤ (b * (e.den : Rat)).floor ↔ a ≤ b) := by
    intro a b ha hb
    rw [← Int.cast_le (R := Rat), hint a ha, hint b hb]
    exact mul_le_mul_iff_of_pos_right hd
  have hfineq : ∀ a b : Rat, XVal.fin a ∈ vals → XVal.fin b ∈ vals →
      (a * (e.den : Rat)).floor = (b * (e.den : Rat)).floor → a = b := by
    intro a b ha hb h
    have h' : (((a * (e.den : Rat)).floor : Int) : Rat) = (((b * (e.den : Rat)).floor : Int) : Rat) := by rw [h]
    rw [hint a ha, hint b hb] at h'
    exact mul_right_cancel₀ (ne_of_gt hd) h'
  constructor
  · intro a ha b hb
    cases a with
    | nan => exact absurd ha hnan
    | ninf =>
      cases b with
      | nan => exact absurd hb hnan
      | ninf => simp [encV, XVal.le]
      | pinf => simp [encV, XVal.le]; omega
      | fin q => have := hbig q hb; simp [encV, XVal.le]; omega
    | pinf =>
      cases b with
      | nan => exact absurd hb hnan
      | ninf => simp [encV, XVal.le]; omega
      | pinf => simp [encV, XVal.le]
      | fin q => have := hbig q hb; simp [encV, XVal.le]; omega
    | fin p =>
      cases b with
      | nan => exact absurd hb hnan
      | ninf => have := hbig p ha; simp [encV, XVal.le]; omega
      | pinf => have := hbig p ha; simp [encV, XVal.le]; omega
      | fin q => simpa [encV, XVal.le] using hfin p q ha hb
  · intro a ha b hb h
    cases a with
    | nan => exact absurd ha hnan
    | ninf =>
      cases b with
      | nan => exact absurd hb hnan
      | ninf => rfl
      | pinf => simp only [encV] at h; omega
      | fin q => have := hbig q hb; simp only [encV] at h; omega
    | pinf =>
      cases b with
      | nan => exact absurd hb hnan
      | ninf => simp only [encV] at h; omega
      | pinf => rfl
      | fin q => have := hbig q hb; simp only [encV] at h; omega
    | fin p =>
      cases b with
      | nan => exact absurd hb hnan
      | ninf => have := hbig p ha; simp only [encV] at h; omega
      | pinf => have := hbig p ha; simp only [encV] at h; omega
      | fin q => simp only [encV] at h; rw [hfineq p q ha hb h]

-- non-vacuity: the encoding `enc_for` computes for the values 1/2, 3/4, -inf, +inf (den = 4, big = 5) is faithful
example : (⟨4, 5⟩ : Enc).Faithful [.fin (1/2), .fin (3/4), .ninf, .pinf] := by
  refine faithful_of_common_den _ _ (by decide) (by decide) (by decide) ?_ ?_
  · intro q hq
    simp only [List.mem_cons, XVal.fin.injEq, reduceCtorEq, List.not_mem_nil, or_false] at hq
    rcases hq with rfl | rfl <;> decide +kernel
  · intro q hq
    simp only [List.mem_cons, XVal.fin.injEq, reduceCtorEq, List.not_mem_nil, or_false] at hq
    rcases hq with rfl | rfl <;> decide +kernel

end OptunaVerif.C15Nsga
