import OptunaVerif.Lemmas.Pruners
/-!
# C16 — pruners never prune what their contract protects (property theorems)

All theorems are about the executable model `Model/Pruners.lean` (`prune`, `step`, `after`) and hold
for **every** study state / history, every parameter setting that the constructors accept, both
directions, arbitrary intermediate values (NaN, ±inf, gaps, out-of-order steps).  Per-call theorems
quantify over arbitrary (not only reachable) states, which is stronger; `strictly_best_never_pruned`
needs two facts about reachable states (rungs are written in order `0,1,2,…`, a rung value is one of
the trial's own non-NaN reports) and is therefore stated over histories (`after`).
The model is tied to `/repo` by `verif/props/c16.py`.
-/
set_option linter.unusedSimpArgs false
set_option linter.unusedVariables false
namespace OptunaVerif.C16
open OptunaVerif OptunaVerif.Pruners

/-! ## which protections a pruner carries (a `PatientPruner` inherits those of the wrapped pruner) -/

def nWarmup? : Pruner → Option Nat
  | .percentile c => some c.nWarmup
  | .threshold c => some c.nWarmup
  | .patient w _ _ => nWarmup? w
  | _ => none

def nStartup? : Pruner → Option Nat
  | .percentile c => some c.nStartup
  | .patient w _ _ => nStartup? w
  | _ => none

/-- `(n_warmup_steps, interval_steps)` -/
def interval? : Pruner → Option (Nat × Nat)
  | .percentile c => some (c.nWarmup, c.interval)
  | .threshold c => some (c.nWarmup, c.interval)
  | .patient w _ _ => interval? w
  | _ => none

/-! ## NopPruner -/

/-- The no-op pruner never prunes. -/
theorem nop_never (crc : Nat → Nat) (s : Study) (n : Nat) (t : PTrial) :
    (prune crc s n t .nop).prune = false := rfl

example : (step (fun _ => 0) ⟨.minimize, [⟨.running, [(0, .nan)], []⟩]⟩ (.shouldPrune 0 .nop)).2 = some false := by
  decide

/-! ## no report, no pruning -/

/-- Without a reported value no pruner prunes. -/
theorem no_prune_without_report (crc : Nat → Nat) (s : Study) (n : Nat) (t : PTrial) (p : Pruner)
    (h : t.inter = []) : (prune crc s n t p).prune = false := by
  induction p with
  | nop => rfl
  | percentile c =>
    simp only [prune, noWrite, percentilePrune, h, lastStep]
    split
    · rfl
    · split <;> rfl
  | threshold c => simp [prune, noWrite, thresholdPrune, thresholdChecked, h, lastStep]
  | sh c => simp [prune, shPrune, h, lastStep, noWrite]
  | hyperband c =>
    simp only [prune, hbPrune]
    split
    · rfl
    · split
      · rfl
      · split
        · rfl
        · simp [shPrune, h, lastStep, noWrite]
  | patient w k dl ih => simp [prune, patientMaybe, h, noWrite]
  | patientNone k dl => simp [prune, patientMaybe, h, noWrite]

/-! ## warm-up -/

/-- No pruner with an `n_warmup_steps` parameter (percentile, median, threshold, or a patient pruner
around one of them) prunes while the trial's last step is below it. -/
theorem no_prune_before_warmup (crc : Nat → Nat) (s : Study) (n : Nat) (t : PTrial) (p : Pruner)
    (w : Nat) (stp : Int) (hw : nWarmup? p = some w) (hs : lastStep t.inter = some stp)
    (hlt : stp < (w : Int)) : (prune crc s n t p).prune = false := by
  induction p with
  | nop => rfl
  | percentile c =>
    simp only [nWarmup?, Option.some.injEq] at hw
    subst hw
    simp only [prune, noWrite, percentilePrune, hs, hlt, if_true]
    split
    · rfl
    · split <;> rfl
  | threshold c =>
    simp only [nWarmup?, Option.some.injEq] at hw
    subst hw
    simp [prune, noWrite, thresholdPrune, thresholdChecked, hs, hlt]
  | sh c => simp [nWarmup?] at hw
  | hyperband c => simp [nWarmup?] at hw
  | patient w' k dl ih =>
    simp only [nWarmup?] at hw
    simp only [prune]
    split
    · exact ih hw
    · rfl
  | patientNone k dl => simp [nWarmup?] at hw

/-- not vacuous: without the warm-up the same trial *is* pruned (median, one completed trial at 1,
the running trial reports 5 at step 0) -/
example :
    percentilePrune ⟨50, 0, 0, 1, 1⟩ .minimize
      [⟨.complete, [(0, .fin 1)], []⟩] ⟨.running, [(0, .fin 5)], []⟩ = true ∧
    percentilePrune ⟨50, 0, 1, 1, 1⟩ .minimize
      [⟨.complete, [(0, .fin 1)], []⟩] ⟨.running, [(0, .fin 5)], []⟩ = false := by
  decide +kernel

/-! ## start-up trials -/

theorem filter_length_le_of_imp {α : Type} (p q : α → Bool) (h : ∀ a, p a = true → q a = true)
    (l : List α) : (l.filter p).length ≤ (l.filter q).length := by
  induction l with
  | nil => simp
  | cons a t ih =>
    by_cases hp : p a = true
    · have hq := h a hp
      simp only [List.filter_cons, hp, hq, if_true, List.length_cons]; omega
    · by_cases hq : q a = true
      · simp only [List.filter_cons, hp, hq, if_true, if_false, Bool.false_eq_true, List.length_cons]; omega
      · simp only [List.filter_cons, hp, hq, if_false, Bool.false_eq_true]; exact ih

/-- While fewer than `n_startup_trials` trials are COMPLETE, the percentile / median pruner (also
inside a patient pruner) does not prune. -/
theorem no_prune_before_startup (crc : Nat → Nat) (s : Study) (n : Nat) (t : PTrial) (p : Pruner)
    (k : Nat) (hk : nStartup? p = some k) (hlt : (completedTrials s.trials).length < k) :
    (prune crc s n t p).prune = false := by
  induction p with
  | nop => rfl
  | percentile c =>
    simp only [nStartup?, Option.some.injEq] at hk
    subst hk
    simp only [prune, noWrite, percentilePrune, hlt, if_true]
    split <;> rfl
  | threshold c => simp [nStartup?] at hk
  | sh c => simp [nStartup?] at hk
  | hyperband c => simp [nStartup?] at hk
  | patient w' k' dl ih =>
    simp only [nStartup?] at hk
    simp only [prune]
    split
    · exact ih hk
    · rfl
  | patientNone k' dl => simp [nStartup?] at hk

/-- The property as worded (“finished” = COMPLETE, PRUNED or FAIL): fewer finished trials than
`n_startup_trials` ⇒ no pruning.  (The code counts COMPLETE trials only, which is even safer.) -/
theorem no_prune_before_startup_finished (crc : Nat → Nat) (s : Study) (n : Nat) (t : PTrial)
    (p : Pruner) (k : Nat) (hk : nStartup? p = some k)
    (hlt : (s.trials.filter (fun t => t.state.isFinished)).length < k) :
    (prune crc s n t p).prune = false := by
  apply no_prune_before_startup crc s n t p k hk
  have := filter_length_le_of_imp (fun t : PTrial => t.state == .complete) (fun t => t.state.isFinished)
    (by intro a h; have : a.state = .complete := by simpa using h
        simp [this, TState.isFinished]) s.trials
  simp only [completedTrials]
  omega

/-- Even with `n_startup_trials = 0` nothing is pruned before one trial is COMPLETE. -/
theorem percentile_no_prune_without_completed (c : PercentileCfg) (d : Dir) (trials : List PTrial)
    (t : PTrial) (h : completedTrials trials = []) : percentilePrune c d trials t = false := by
  simp [percentilePrune, h]

example :
    percentilePrune ⟨50, 1, 0, 1, 1⟩ .minimize
      [⟨.complete, [(0, .fin 1)], []⟩] ⟨.running, [(0, .fin 5)], []⟩ = true ∧
    percentilePrune ⟨50, 2, 0, 1, 1⟩ .minimize
      [⟨.complete, [(0, .fin 1)], []⟩, ⟨.pruned, [(0, .fin 1)], []⟩] ⟨.running, [(0, .fin 5)], []⟩ = false := by
  decide +kernel

/-! ## pruning interval -/

/-- `s'` was reported earlier in the same pruning interval as `stp`: some check point
`w + k·i ≤ s' < stp < w + (k+1)·i`.  (The check for that interval was due at or before `s'`.) -/
def SameIntervalEarlier (w i : Nat) (stp s' : Int) : Prop :=
  ∃ k : Nat, (w : Int) + k * i ≤ s' ∧ s' < stp ∧ stp < (w : Int) + (k + 1) * i

/-- `_is_first_in_interval_step` decides exactly “no other reported step lies in the same interval
`[w + k·i, w + (k+1)·i)` before the last step” (for `w ≤ last step`, `interval ≥ 1`). -/
theorem isFirstInIntervalStep_spec (t : PTrial) (w i : Nat) (stp : Int) (hi : 1 ≤ i)
    (hs : lastStep t.inter = some stp) (hw : (w : Int) ≤ stp) :
    isFirstInIntervalStep stp (interSteps t) w i = true ↔
      ¬ ∃ s' ∈ interSteps t, SameIntervalEarlier w i stp s' := by
  have hi' : (0 : Int) < (i : Int) := by omega
  have hmax := (lastStep_spec hs).2
  rw [isFirstInIntervalStep_iff]
  constructor
  · rintro ⟨_, h2⟩ ⟨s', hs', k, h3, h4, h5⟩
    have hn := nearestLower_eq (step := stp) (w := w) (i := i) (k : Int) hi' (by omega) h5
    have := h2 s' hs' (by omega)
    omega
  · intro h
    have hb := nearestLower_bounds (step := stp) (w := (w : Int)) (i := (i : Int)) hi'
    -- the nearest lower pruning step is `w + k·i` for a natural `k`
    have hk0 : 0 ≤ (stp - (w : Int)) / (i : Int) := Int.ediv_nonneg (by omega) (by omega)
    have hne : nearestLowerPruningStep stp w i = (w : Int) + (((stp - (w : Int)) / (i : Int)).toNat : Int) * i := by
      unfold nearestLowerPruningStep
      rw [Int.fdiv_eq_ediv_of_nonneg _ (Int.le_of_lt hi'), Int.toNat_of_nonneg hk0]
      omega
    refine ⟨?_, ?_⟩
    · rw [hne]
      have : 0 ≤ ((((stp - (w : Int)) / (i : Int)).toNat : Nat) : Int) * (i : Int) :=
        Int.mul_nonneg (by omega) (by omega)
      omega
    · intro s' hs' hne'
      apply Classical.byContradiction
      intro hge
      apply h
      refine ⟨s', hs', ((stp - (w : Int)) / (i : Int)).toNat, ?_, ?_, ?_⟩
      · rw [← hne]; omega
      · have := hmax s' hs'; omega
      · have e : (w : Int) + ((((stp - (w : Int)) / (i : Int)).toNat : Nat) + 1 : Int) * i
            = nearestLowerPruningStep stp w i + i := by
          rw [hne, Int.add_mul]; omega
        rw [e]; exact hb.2

/-- A pruner with `interval_steps` does not prune at a step when an earlier report already fell
into the same interval (percentile, median, threshold, patient around them). -/
theorem no_prune_off_interval (crc : Nat → Nat) (s : Study) (n : Nat) (t : PTrial) (p : Pruner)
    (w i : Nat) (stp : Int) (hp : interval? p = some (w, i)) (hi : 1 ≤ i)
    (hs : lastStep t.inter = some stp)
    (hoff : ∃ s' ∈ interSteps t, SameIntervalEarlier w i stp s') :
    (prune crc s n t p).prune = false := by
  induction p with
  | nop => rfl
  | percentile c =>
    simp only [interval?, Option.some.injEq, Prod.mk.injEq] at hp
    obtain ⟨h1, h2⟩ := hp
    subst h1; subst h2
    simp only [prune, noWrite, percentilePrune, hs]
    split
    · rfl
    · split
      · rfl
      · split
        · rfl
        · rename_i hw
          have hnf : isFirstInIntervalStep stp (interSteps t) c.nWarmup c.interval = false := by
            cases hf : isFirstInIntervalStep stp (interSteps t) c.nWarmup c.interval with
            | false => rfl
            | true => exact absurd hoff ((isFirstInIntervalStep_spec t _ _ stp hi hs (by omega)).1 hf)
          simp [hnf]
  | threshold c =>
    simp only [interval?, Option.some.injEq, Prod.mk.injEq] at hp
    obtain ⟨h1, h2⟩ := hp
    subst h1; subst h2
    have hnone : thresholdChecked c t = none := by
      unfold thresholdChecked
      simp only [hs]
      by_cases hw : stp < (c.nWarmup : Int)
      · simp [hw]
      · have hnf : isFirstInIntervalStep stp (interSteps t) c.nWarmup c.interval = false := by
          cases hf : isFirstInIntervalStep stp (interSteps t) c.nWarmup c.interval with
          | false => rfl
          | true => exact absurd hoff ((isFirstInIntervalStep_spec t _ _ stp hi hs (by omega)).1 hf)
        simp [hw, hnf]
    simp [prune, noWrite, thresholdPrune, hnone]
  | sh c => simp [interval?] at hp
  | hyperband c => simp [interval?] at hp
  | patient w' k dl ih =>
    simp only [interval?] at hp
    simp only [prune]
    split
    · exact ih hp
    · rfl
  | patientNone k dl => simp [interval?] at hp

/-- not vacuous: warm-up 0, interval 3; steps 0 and 1 are in one interval, 0 and 3 are not -/
example :
    percentilePrune ⟨50, 0, 0, 3, 1⟩ .minimize
      [⟨.complete, [(0, .fin 1), (1, .fin 1), (3, .fin 1)], []⟩] ⟨.running, [(0, .fin 0), (1, .fin 5)], []⟩ = false ∧
    percentilePrune ⟨50, 0, 0, 3, 1⟩ .minimize
      [⟨.complete, [(0, .fin 1), (1, .fin 1), (3, .fin 1)], []⟩] ⟨.running, [(0, .fin 6), (3, .fin 5)], []⟩ = true := by
  decide +kernel

/-! ## ThresholdPruner: prunes exactly when the checked value is NaN or outside the bounds -/

/-- The latest value is *checked* exactly at a last step at or after the warm-up that is the first
reported step of its interval; then the value looked at is the one reported at that step. -/
theorem thresholdChecked_iff (c : ThresholdCfg) (t : PTrial) (v : XVal) (hi : 1 ≤ c.interval) :
    thresholdChecked c t = some v ↔
      ∃ stp, lastStep t.inter = some stp ∧ (c.nWarmup : Int) ≤ stp ∧
        (¬ ∃ s' ∈ interSteps t, SameIntervalEarlier c.nWarmup c.interval stp s') ∧
        interGet t.inter stp = some v := by
  unfold thresholdChecked
  cases hs : lastStep t.inter with
  | none => simp
  | some stp =>
    simp only [Option.some.injEq, exists_eq_left']
    by_cases hw : stp < (c.nWarmup : Int)
    · simp only [hw, if_true]
      constructor
      · intro h; cases h
      · rintro ⟨h, _⟩; omega
    · simp only [hw, if_false]
      have hspec := isFirstInIntervalStep_spec t c.nWarmup c.interval stp hi hs (by omega)
      cases hf : isFirstInIntervalStep stp (interSteps t) c.nWarmup c.interval with
      | false =>
        simp only [Bool.not_false, if_true]
        constructor
        · intro h; cases h
        · rintro ⟨_, h2, _⟩
          have := hspec.2 h2
          rw [hf] at this; cases this
      | true =>
        simp only [Bool.not_true, Bool.false_eq_true, if_false]
        constructor
        · intro h; exact ⟨by omega, hspec.1 hf, h⟩
        · rintro ⟨_, _, h⟩; exact h

/-- `ThresholdPruner.prune` is true **iff** a value is checked at this point and it is NaN, below
`lower` or above `upper`. -/
theorem threshold_prunes_iff (crc : Nat → Nat) (s : Study) (n : Nat) (t : PTrial) (c : ThresholdCfg) :
    (prune crc s n t (.threshold c)).prune = true ↔
      ∃ v, thresholdChecked c t = some v ∧
        (xisNan v = true ∨ xlt v c.lower = true ∨ xlt c.upper v = true) := by
  simp only [prune, noWrite, thresholdPrune]
  cases thresholdChecked c t with
  | none => simp
  | some v => simp [Bool.or_eq_true, or_assoc]

example : thresholdPrune ⟨.fin 0, .fin 1, 0, 1⟩ ⟨.running, [(0, .fin (1/2))], []⟩ = false ∧
    thresholdPrune ⟨.fin 0, .fin 1, 0, 1⟩ ⟨.running, [(0, .fin 2)], []⟩ = true ∧
    thresholdPrune ⟨.fin 0, .fin 1, 0, 1⟩ ⟨.running, [(0, .fin (-1))], []⟩ = true ∧
    thresholdPrune ⟨.fin 0, .fin 1, 0, 1⟩ ⟨.running, [(0, .nan)], []⟩ = true ∧
    thresholdPrune ⟨.fin 0, .fin 1, 1, 1⟩ ⟨.running, [(0, .nan)], []⟩ = false := by
  decide +kernel


/-! ## PatientPruner -/

/-- the scores of the last `patience + 1` reported steps (in step order) … -/
def recentScores (t : PTrial) (patience : Nat) : List XVal :=
  (scoresByStep t).drop (t.inter.length - (patience + 1))

/-- … and the scores of the steps before them -/
def earlierScores (t : PTrial) (patience : Nat) : List XVal :=
  (scoresByStep t).take (t.inter.length - (patience + 1))

/-- `u` is at least as good as `b` up to `min_delta` -/
def WithinDelta (d : Dir) (delta : Rat) (u b : XVal) : Prop :=
  match d with
  | .minimize => XVal.le u (xadd b (.fin delta)) = true
  | .maximize => XVal.le (xsub b (.fin delta)) u = true

theorem patientMaybe_short (patience : Nat) (delta : Rat) (d : Dir) (t : PTrial)
    (h : t.inter.length ≤ patience + 1) : patientMaybe patience delta d t = false := by
  simp [patientMaybe, h]

/-- If one of the last `patience + 1` scores is not NaN and at least as good (up to `min_delta`) as
every earlier non-NaN score, the objective has improved within the patience window and
`maybe_prune` is false. -/
theorem patientMaybe_improving (patience : Nat) (delta : Rat) (d : Dir) (t : PTrial) (u : XVal)
    (hu : u ∈ recentScores t patience) (hn : xisNan u = false)
    (himp : ∀ b ∈ earlierScores t patience, xisNan b = false → WithinDelta d delta u b) :
    patientMaybe patience delta d t = false := by
  unfold patientMaybe
  simp only
  split
  · rfl
  · unfold recentScores at hu
    unfold earlierScores at himp
    cases d with
    | minimize =>
      simp only
      rcases nanMin_spec ((scoresByStep t).take (t.inter.length - (patience + 1))) with ⟨h1, _⟩ | ⟨h1, h2, _⟩
      · rw [h1]; simp [xadd, xlt_nan_left]
      · have hw : XVal.le u (xadd (nanMin ((scoresByStep t).take (t.inter.length - (patience + 1)))) (.fin delta)) = true :=
          himp _ h2 h1
        exact xle_not_xlt (xle_trans (nanMin_le hu hn) hw)
    | maximize =>
      simp only
      rcases nanMax_spec ((scoresByStep t).take (t.inter.length - (patience + 1))) with ⟨h1, _⟩ | ⟨h1, h2, _⟩
      · rw [h1]; simp [xsub, xadd, xlt_nan_right]
      · have hw : XVal.le (xsub (nanMax ((scoresByStep t).take (t.inter.length - (patience + 1)))) (.fin delta)) u = true :=
          himp _ h2 h1
        exact xle_not_xlt (xle_trans hw (le_nanMax hu hn))

/-- **Within the patience window nothing is pruned**: a patient pruner (around any pruner, or around
`None`) does not prune while at most `patience + 1` steps have been reported, nor while one of the
last `patience + 1` scores still improves on everything before it. -/
theorem no_prune_within_patience (crc : Nat → Nat) (s : Study) (n : Nat) (t : PTrial)
    (patience : Nat) (delta : Rat) (w : Option Pruner)
    (h : t.inter.length ≤ patience + 1 ∨
      ∃ u ∈ recentScores t patience, xisNan u = false ∧
        ∀ b ∈ earlierScores t patience, xisNan b = false → WithinDelta s.dir delta u b) :
    (match w with
     | some w => prune crc s n t (.patient w patience delta)
     | none => prune crc s n t (.patientNone patience delta)).prune = false := by
  have hm : patientMaybe patience delta s.dir t = false := by
    rcases h with h | ⟨u, hu, hn, himp⟩
    · exact patientMaybe_short _ _ _ _ h
    · exact patientMaybe_improving _ _ _ _ u hu hn himp
  cases w with
  | some w => simp [prune, hm, noWrite]
  | none => simp [prune, hm, noWrite]

/-- A patient pruner only ever prunes what the wrapped pruner prunes: every protection of the wrapped
pruner carries over. -/
theorem patient_implies_wrapped (crc : Nat → Nat) (s : Study) (n : Nat) (t : PTrial)
    (w : Pruner) (patience : Nat) (delta : Rat)
    (h : (prune crc s n t (.patient w patience delta)).prune = true) :
    (prune crc s n t w).prune = true := by
  simp only [prune] at h
  split at h
  · exact h
  · simp [noWrite] at h

/-- not vacuous (patience 1, min_delta 0, minimize): 3,2,3,3 → no improvement in the last two
steps → prune; 3,2,3,1 → improving → keep; two reports only → keep. -/
example :
    patientMaybe 1 0 .minimize ⟨.running, [(0, .fin 3), (1, .fin 2), (2, .fin 3), (3, .fin 3)], []⟩ = true ∧
    patientMaybe 1 0 .minimize ⟨.running, [(0, .fin 3), (1, .fin 2), (2, .fin 3), (3, .fin 1)], []⟩ = false ∧
    patientMaybe 1 0 .minimize ⟨.running, [(0, .fin 3), (1, .fin 4)], []⟩ = false := by
  decide +kernel


/-! ## the percentile never leaves the range of the values it is taken over -/

/-- `numpy.nanpercentile(values, q)` (linear method, modelled over ℚ ∪ {±inf, NaN}) is NaN or lies
between any lower bound `lo` and any upper bound `hi` of the non-NaN values, for every `0 ≤ q`. -/
theorem percentile_between_min_max (vals : List XVal) (q : Rat) (lo hi : XVal) (hq : 0 ≤ q)
    (hlo : ∀ u ∈ vals, xisNan u = false → XVal.le lo u = true)
    (hhi : ∀ u ∈ vals, xisNan u = false → XVal.le u hi = true) :
    xisNan (npPercentile vals q) = true ∨
      (XVal.le lo (npPercentile vals q) = true ∧ XVal.le (npPercentile vals q) hi = true) := by
  rcases npPercentile_lower hq hlo with h | h
  · exact Or.inl h
  · rcases npPercentile_upper hq hhi with h' | h'
    · exact Or.inl h'
    · exact Or.inr ⟨h, h'⟩

example : npPercentile [.fin 1, .fin 2, .fin 4, .nan] 50 = .fin 2 ∧
    npPercentile [.fin 1, .fin 2, .fin 4, .fin 5] 25 = .fin (7/4) ∧
    npPercentile [.fin 1, .fin 2, .pinf] 50 = .nan ∧
    npPercentile [.ninf, .fin 1, .fin 2] 25 = .ninf := by
  decide +kernel

/-! ## strictly best ⇒ never pruned: percentile / median (per call, arbitrary state) -/

/-- `v` is at least as good as `u` -/
def AsGood (d : Dir) (v u : XVal) : Prop :=
  match d with
  | .minimize => XVal.le v u = true
  | .maximize => XVal.le u v = true

/-- Core statement for the percentile (hence median) pruner: if the trial has a non-NaN report and
its best report is at least as good as every non-NaN value the COMPLETE trials reported at the
trial's last step, it is not pruned — for every percentile in [0, 100] and all other parameters. -/
theorem percentile_no_prune_of_best (c : PercentileCfg) (d : Dir) (trials : List PTrial) (t : PTrial)
    (hq0 : 0 ≤ c.q) (hq1 : c.q ≤ 100)
    (hown : ∃ v ∈ interValues t, xisNan v = false)
    (hbest : ∀ stp, lastStep t.inter = some stp →
      ∀ u ∈ valuesAtStep (completedTrials trials) stp, xisNan u = false →
        AsGood d (bestOverSteps t d) u) :
    percentilePrune c d trials t = false := by
  obtain ⟨v, hv, hvn⟩ := hown
  unfold percentilePrune
  simp only
  split
  · rfl
  · split
    · rfl
    · split
      · rfl
      · rename_i stp hs
        split
        · rfl
        · split
          · rfl
          · have hbn : xisNan (bestOverSteps t d) = false := by
              cases d with
              | minimize => exact nanMin_notNan hv hvn
              | maximize => exact nanMax_notNan hv hvn
            simp only [hbn, Bool.false_eq_true, if_false]
            split
            · rfl
            · rename_i hpn
              unfold percentileOverTrials at hpn ⊢
              simp only at hpn ⊢
              split at hpn
              · simp [xisNan] at hpn
              · rename_i hlen
                simp only [hlen, if_false]
                cases d with
                | minimize =>
                  simp only at hpn ⊢
                  rcases npPercentile_lower (m := bestOverSteps t .minimize) hq0
                      (fun u hu hn => hbest stp hs u hu hn) with h | h
                  · rw [h] at hpn; simp at hpn
                  · exact xle_not_xlt h
                | maximize =>
                  simp only at hpn ⊢
                  -- the percentile of the negated values is at least `-best`; negate back
                  have hneg : ∀ a b : XVal, XVal.le (xneg a) (xneg b) = XVal.le b a := by
                    intro a b; cases a <;> cases b <;> simp [XVal.le, xneg]
                  have hnn : ∀ a : XVal, xisNan (xneg a) = xisNan a := by intro a; cases a <;> rfl
                  have hnegneg : ∀ a : XVal, xneg (xneg a) = a := by intro a; cases a <;> simp [xneg]
                  rcases npPercentile_lower (m := xneg (bestOverSteps t .maximize))
                      (vals := (valuesAtStep (completedTrials trials) stp).map xneg) hq0
                      (fun u hu hn => by
                        obtain ⟨w, hw, rfl⟩ := List.mem_map.mp hu
                        rw [hneg]
                        exact hbest stp hs w hw (by rw [← hnn]; exact hn)) with h | h
                  · rw [hnn, h] at hpn; simp at hpn
                  · have : XVal.le (xneg (npPercentile ((valuesAtStep (completedTrials trials) stp).map xneg) c.q))
                        (bestOverSteps t .maximize) = true := by
                      rw [← hnegneg (bestOverSteps t .maximize), hneg]; exact h
                    exact xle_not_xlt this

/-! ## strictly best ⇒ never pruned: successive halving without bootstrap (per call) -/

/-- The successive-halving loop always terminates within the fuel `shPrune` passes (valid
configuration: `reduction_factor ≥ 2`, `min_resource ≥ 1`): the model's out-of-fuel answer is never
used. -/
theorem sh_loop_terminates (c : SHCfg) (m : Nat) (d : Dir) (trials : List PTrial) (stp : Int)
    (value : XVal) (rung : Nat) (hm : 1 ≤ m) (he : 2 ≤ c.eta) :
    (shLoop c m d trials stp value (stp.toNat + 1) rung).isSome = true :=
  shLoop_isSome c m d trials stp value hm he _ _ (by omega) (by omega)

/-- The index `_is_trial_promotable_to_next_rung` reads is always in range (no `IndexError`). -/
theorem promotable_index_in_range (value : XVal) (trials : List PTrial) (rung eta : Nat) (d : Dir)
    (he : 1 ≤ eta) :
    (isPromotable? value (competingValues trials rung value) eta d).isSome = true :=
  isPromotable?_isSome _ _ _ _ (competingValues_length_pos _ _ _) he

/-- A trial is never pruned before it has executed `min_resource · η^min_early_stopping_rate` steps
(the completion point of the first rung), and more generally not before the promotion step of its
current rung. -/
theorem sh_no_prune_before_rung (c : SHCfg) (d : Dir) (trials : List PTrial) (t : PTrial) (m : Nat)
    (stp : Int) (hm : c.minResource = some m) (hs : lastStep t.inter = some stp)
    (hlt : stp < (promotionStep m c.eta c.rate (currentRung t.rungs) : Int)) :
    (shPrune c d trials t).prune = false := by
  unfold shPrune
  simp only [hs, resolveMinResource, hm]
  split
  · rfl
  · simp only [shLoop, hlt, if_true]

theorem promotionStep_mono (m eta rate : Nat) {r r' : Nat} (he : 1 ≤ eta) (h : r ≤ r') :
    promotionStep m eta rate r ≤ promotionStep m eta rate r' := by
  unfold promotionStep
  exact Nat.mul_le_mul_left _ (Nat.pow_le_pow_right he (by omega))

/-- … in particular before `min_resource · η^rate` steps, whatever rungs the trial has completed. -/
theorem sh_no_prune_before_first_rung (c : SHCfg) (d : Dir) (trials : List PTrial) (t : PTrial) (m : Nat)
    (stp : Int) (hm : c.minResource = some m) (he : 1 ≤ c.eta) (hs : lastStep t.inter = some stp)
    (hlt : stp < ((m * c.eta ^ c.rate : Nat) : Int)) :
    (shPrune c d trials t).prune = false := by
  apply sh_no_prune_before_rung c d trials t m stp hm hs
  have := promotionStep_mono m c.eta c.rate he (Nat.zero_le (currentRung t.rungs))
  simp only [promotionStep, Nat.add_zero] at this
  simp only [promotionStep]
  omega

/-- Core statement for successive halving with `bootstrap_count = 0`: a trial whose latest value is
not NaN and at least as good as every `completed_rung_r` value (from its current rung on) stored in
the study is not pruned. -/
theorem sh_no_prune_of_best (c : SHCfg) (d : Dir) (trials : List PTrial) (t : PTrial)
    (he : 1 ≤ c.eta) (hboot : c.bootstrap = 0)
    (hbest : ∀ stp value, lastStep t.inter = some stp → interGet t.inter stp = some value →
      xisNan value = false ∧
      ∀ r, currentRung t.rungs ≤ r → ∀ t' ∈ trials, ∀ u, rungGet t'.rungs r = some u → AsGood d value u) :
    (shPrune c d trials t).prune = false := by
  unfold shPrune
  split
  · rfl
  · rename_i stp hs
    simp only
    split
    · rfl
    · rename_i value hv
      obtain ⟨hvn, hb⟩ := hbest stp value hs hv
      split
      · rfl
      · rename_i m _
        split
        · rename_i b hi hl
          simp only
          apply shLoop_best c m d trials stp value he hboot hvn _ _ _ b hi hl
          intro r hr t' ht' u hu
          have := hb r hr t' ht' u hu
          cases d <;> exact this
        · rfl

example :
    (shPrune ⟨some 1, 2, 0, 0⟩ .minimize [⟨.complete, [(1, .fin 1)], [(0, .fin 1)]⟩, ⟨.complete, [(1, .fin 2)], [(0, .fin 2)]⟩]
      ⟨.running, [(1, .fin 3)], []⟩).prune = true ∧
    (shPrune ⟨some 1, 2, 0, 0⟩ .minimize [⟨.complete, [(1, .fin 1)], [(0, .fin 1)]⟩, ⟨.complete, [(1, .fin 2)], [(0, .fin 2)]⟩]
      ⟨.running, [(1, .fin 0)], []⟩).prune = false ∧
    (shPrune ⟨some 1, 2, 0, 0⟩ .minimize [⟨.complete, [(1, .fin 1)], [(0, .fin 1)]⟩, ⟨.complete, [(1, .fin 2)], [(0, .fin 2)]⟩]
      ⟨.running, [(0, .fin 3)], []⟩).prune = false := by
  decide +kernel

/-! ## Hyperband: the bracket -/

/-- The budget walk always ends inside the brackets: `assert False, "This line should be
unreachable."` is unreachable, and the bracket index is `< n_brackets`. -/
theorem bracket_in_range (nb eta h : Nat) (hnb : 1 ≤ nb) (he : 1 ≤ eta) :
    ∃ b, bracketId nb eta h = some b ∧ b < nb :=
  bracketId_lt h hnb he

/-- Every bracket has a positive trial allocation budget (so the modulus is positive). -/
theorem budgets_positive (nb eta b : Nat) (hnb : 1 ≤ nb) (he : 1 ≤ eta) : 1 ≤ budget nb eta b :=
  budget_pos b hnb he

/-- **The bracket is a function of the study name and the trial number only**: for an initialised
Hyperband pruner there is one bracket `b < n_brackets`, determined by the configuration and by
`crc32("{study_name}_{number}")` alone, such that for *every* study state and *every* content of
the trial the decision is the one of the successive-halving pruner with
`min_early_stopping_rate = b` on the trials of bracket `b`. -/
theorem bracket_function_of_name_and_number (c : HBCfg) (crc : Nat → Nat) (n nb : Nat)
    (hnb : c.nBrackets = some nb) (h1 : 1 ≤ nb) (he : 1 ≤ c.eta) :
    ∃ b, b < nb ∧ bracketId nb c.eta (crc n) = some b ∧
      ∀ (d : Dir) (trials : List PTrial) (t : PTrial),
        hbPrune c crc d trials n t =
          shPrune { minResource := some c.minResource, eta := c.eta, rate := b, bootstrap := c.bootstrap }
            d (bracketTrials nb c.eta crc b trials) t := by
  obtain ⟨b, hb, hlt⟩ := bracketId_lt (nb := nb) (eta := c.eta) (crc n) h1 he
  refine ⟨b, hlt, hb, ?_⟩
  intro d trials t
  have : nb ≠ 0 := by omega
  simp [hbPrune, hnb, this, hb]

/-- Until `max_resource` is determined (no bracket structure yet) Hyperband prunes nothing. -/
theorem hyperband_uninitialised_never (c : HBCfg) (crc : Nat → Nat) (d : Dir) (trials : List PTrial)
    (n : Nat) (t : PTrial) (h : c.nBrackets = none) : (hbPrune c crc d trials n t).prune = false := by
  simp [hbPrune, h, noWrite]

example : budgets 4 3 = [27, 12, 6, 4] ∧ bracketId 4 3 0 = some 0 ∧ bracketId 4 3 27 = some 1 ∧
    bracketId 4 3 48 = some 3 ∧ bracketId 4 3 49 = some 0 := by
  decide +kernel


/-! ## invariants of every reachable study state -/

/-- Rungs are written in the order `0, 1, 2, …` (so the current rung is their number), and every
`completed_rung_r` value is a non-NaN value the trial itself reported. -/
def WFTrial (t : PTrial) : Prop :=
  t.rungs.map (·.1) = List.range t.rungs.length ∧
  ∀ p ∈ t.rungs, xisNan p.2 = false ∧ p.2 ∈ interValues t

def WFStudy (s : Study) : Prop := ∀ t ∈ s.trials, WFTrial t

/-- what a `prune` call may write -/
def GoodWrites (t : PTrial) (r : SHResult) : Prop :=
  r.first < r.hi → r.first = currentRung t.rungs ∧ xisNan r.value = false ∧ r.value ∈ interValues t

theorem noWrite_good (t : PTrial) (b : Bool) : GoodWrites t (noWrite b) := by
  intro h; simp [noWrite] at h

theorem shPrune_writes (c : SHCfg) (d : Dir) (trials : List PTrial) (t : PTrial) :
    GoodWrites t (shPrune c d trials t) := by
  unfold shPrune
  split
  · exact noWrite_good _ _
  · rename_i stp hs
    simp only
    split
    · exact noWrite_good _ _
    · rename_i value hv
      split
      · exact noWrite_good _ _
      · rename_i m _
        split
        · rename_i b hi hl
          intro hlt
          simp only at hlt
          have := shLoop_hi c m d trials stp value _ _ b hi hl
          exact ⟨rfl, this.2 hlt, interGet_mem_values hv⟩
        · exact noWrite_good _ _

theorem prune_writes (crc : Nat → Nat) (s : Study) (n : Nat) (t : PTrial) (p : Pruner) :
    GoodWrites t (prune crc s n t p) := by
  induction p with
  | nop => exact noWrite_good _ _
  | percentile c => exact noWrite_good _ _
  | threshold c => exact noWrite_good _ _
  | sh c => exact shPrune_writes _ _ _ _
  | hyperband c =>
    simp only [prune, hbPrune]
    split
    · exact noWrite_good _ _
    · split
      · exact noWrite_good _ _
      · split
        · exact noWrite_good _ _
        · exact shPrune_writes _ _ _ _
  | patient w k dl ih =>
    simp only [prune]
    split
    · exact ih
    · exact noWrite_good _ _
  | patientNone k dl => exact noWrite_good _ _

/-- The successive-halving pruner never stores NaN and only ever stores the value the trial reported
at its last step. -/
theorem sh_never_stores_nan (crc : Nat → Nat) (s : Study) (n : Nat) (t : PTrial) (p : Pruner)
    (h : (prune crc s n t p).first < (prune crc s n t p).hi) :
    xisNan (prune crc s n t p).value = false ∧ (prune crc s n t p).value ∈ interValues t :=
  (prune_writes crc s n t p h).2

theorem applyWrites_wf (t : PTrial) (r : SHResult) (hwf : WFTrial t) (hr : GoodWrites t r) :
    WFTrial (applyWrites t r) := by
  by_cases hlt : r.first < r.hi
  · obtain ⟨h1, h2, h3⟩ := hr hlt
    have hcr := currentRung_of_range hwf.1
    rw [hcr] at h1
    constructor
    · simp only [applyWrites, List.map_append, List.map_map, List.length_append, List.length_map,
        List.length_range']
      have : ((fun x : Nat × XVal => x.1) ∘ fun k => (k, r.value)) = id := by funext k; rfl
      rw [this, List.map_id, hwf.1, List.range_eq_range', List.range_eq_range', h1]
      have := @List.range'_append_1 0 t.rungs.length (r.hi - t.rungs.length)
      simpa using this
    · intro p hp
      simp only [applyWrites, List.mem_append, List.mem_map] at hp
      rcases hp with hp | ⟨k, _, rfl⟩
      · exact hwf.2 p hp
      · exact ⟨h2, h3⟩
  · have : r.hi - r.first = 0 := by omega
    have e : applyWrites t r = t := by
      simp [applyWrites, this]
    rw [e]; exact hwf

theorem step_wf (crc : Nat → Nat) (s : Study) (op : Op) (h : WFStudy s) : WFStudy (step crc s op).1 := by
  cases op with
  | ask =>
    intro t ht
    simp only [step, List.mem_append, List.mem_singleton] at ht
    rcases ht with ht | rfl
    · exact h t ht
    · exact ⟨rfl, by simp⟩
  | report n st v =>
    simp only [step]
    split
    · exact h
    · rename_i t0 ht0
      split
      · exact h
      · intro t ht
        rcases mem_updAt ht with ht | ⟨y, hy, rfl⟩
        · exact h t ht
        · have hy' := h y (List.mem_of_getElem? hy)
          refine ⟨hy'.1, ?_⟩
          intro p hp
          have := hy'.2 p hp
          refine ⟨this.1, ?_⟩
          simp only [interValues, List.map_append, List.mem_append]
          exact Or.inl this.2
  | shouldPrune n p =>
    simp only [step]
    split
    · exact h
    · rename_i t0 ht0
      split
      · exact h
      · intro t ht
        rcases mem_updAt ht with ht | ⟨y, hy, rfl⟩
        · exact h t ht
        · have : y = t0 := by rw [ht0] at hy; exact (Option.some.inj hy).symm
          subst this
          exact applyWrites_wf y _ (h y (List.mem_of_getElem? hy)) (prune_writes crc s n y p)
  | tell n st =>
    simp only [step]
    split
    · exact h
    · split
      · exact h
      · intro t ht
        rcases mem_updAt ht with ht | ⟨y, hy, rfl⟩
        · exact h t ht
        · exact h y (List.mem_of_getElem? hy)

theorem after_wf (crc : Nat → Nat) (s : Study) (ops : List Op) (h : WFStudy s) :
    WFStudy (after crc s ops) := by
  induction ops generalizing s with
  | nil => exact h
  | cons op ops ih => exact ih _ (step_wf crc s op h)

/-- Every state reached from the empty study by any finite history of ask / report / should_prune
(with any pruner at each call) / tell is well formed. -/
theorem reachable_wf (crc : Nat → Nat) (d : Dir) (ops : List Op) :
    WFStudy (after crc (Study.init d) ops) :=
  after_wf crc _ ops (by intro t ht; simp [Study.init] at ht)

/-! ## strictly best ⇒ never pruned, over all histories -/

/-- `v` is strictly better than `u` -/
def Better (d : Dir) (v u : XVal) : Prop :=
  match d with
  | .minimize => xlt v u = true
  | .maximize => xlt u v = true

theorem Better.asGood {d : Dir} {v u : XVal} (h : Better d v u) : AsGood d v u := by
  cases d <;> exact xlt_xle h

/-- Trial `n` (with content `t`) is **strictly best**: none of its reported values is NaN, and each
of them is strictly better than every (non-NaN) value reported so far by any other trial. -/
def StrictlyBest (s : Study) (n : Nat) (t : PTrial) : Prop :=
  s.trials[n]? = some t ∧ (∀ v ∈ interValues t, xisNan v = false) ∧
  ∀ (m : Nat) (t' : PTrial), m ≠ n → s.trials[m]? = some t' →
    ∀ u ∈ interValues t', xisNan u = false → ∀ v ∈ interValues t, Better s.dir v u

/-- The pruners the property protects the strictly best trial from: percentile / median (any
percentile in [0,100], any start-up / warm-up / interval / n_min_trials), successive halving and
Hyperband with `bootstrap_count = 0` (valid configurations), the no-op pruner, and a patient pruner
around any of these. -/
inductive Protective : Pruner → Prop
  | nop : Protective .nop
  | percentile (c : PercentileCfg) : 0 ≤ c.q → c.q ≤ 100 → Protective (.percentile c)
  | sh (c : SHCfg) : c.Valid → c.bootstrap = 0 → Protective (.sh c)
  | hyperband (c : HBCfg) : c.Valid → c.bootstrap = 0 → Protective (.hyperband c)
  | patient (w : Pruner) (k : Nat) (dl : Rat) : Protective w → Protective (.patient w k dl)

theorem median_protective (a b c d : Nat) : Protective (Pruner.median a b c d) :=
  Protective.percentile _ (show (0 : Rat) ≤ 50 by decide +kernel) (show (50 : Rat) ≤ 100 by decide +kernel)

/-- successive halving on any sub-list of the study's trials (the whole study, or one Hyperband
bracket) -/
theorem sh_strictly_best (c : SHCfg) (s : Study) (n : Nat) (t : PTrial) (sub : List PTrial)
    (hsub : ∀ t' ∈ sub, ∃ m : Nat, s.trials[m]? = some t')
    (hwf : WFStudy s) (hb : StrictlyBest s n t) (he : 1 ≤ c.eta) (hboot : c.bootstrap = 0) :
    (shPrune c s.dir sub t).prune = false := by
  obtain ⟨hn, hown, hothers⟩ := hb
  apply sh_no_prune_of_best c s.dir sub t he hboot
  intro stp value hs hv
  have hvm := interGet_mem_values hv
  refine ⟨hown value hvm, ?_⟩
  intro r hr t' ht' u hu
  obtain ⟨m, hm⟩ := hsub t' ht'
  by_cases hmn : m = n
  · subst hmn
    have : t' = t := by rw [hn] at hm; exact (Option.some.inj hm).symm
    subst this
    have hwt := hwf t' (List.mem_of_getElem? hn)
    rw [currentRung_of_range hwt.1] at hr
    rw [rungGet_none_of_range hwt.1 hr] at hu
    cases hu
  · have hwt := hwf t' (List.mem_of_getElem? hm)
    have := hwt.2 (r, u) (rungGet_mem hu)
    exact (hothers m t' hmn hm u this.2 this.1 value hvm).asGood

/-- On a well-formed state a strictly best trial is not pruned by a protective pruner. -/
theorem strictly_best_not_pruned_of_wf (crc : Nat → Nat) (s : Study) (n : Nat) (t : PTrial) (p : Pruner)
    (hwf : WFStudy s) (hb : StrictlyBest s n t) (hp : Protective p) :
    (prune crc s n t p).prune = false := by
  induction hp with
  | nop => rfl
  | percentile c hq0 hq1 =>
    by_cases hemp : t.inter = []
    · exact no_prune_without_report crc s n t _ hemp
    · obtain ⟨hn, hown, hothers⟩ := hb
      have hown' : ∃ v ∈ interValues t, xisNan v = false := by
        cases hi : t.inter with
        | nil => exact absurd hi hemp
        | cons p rest =>
          have : p.2 ∈ interValues t := by simp [interValues, hi]
          exact ⟨p.2, this, hown _ this⟩
      simp only [prune, noWrite]
      apply percentile_no_prune_of_best c s.dir s.trials t hq0 hq1 hown'
      intro stp hs u hu hun
      obtain ⟨v0, hv0, hv0n⟩ := hown'
      obtain ⟨t', ht', hget⟩ := mem_valuesAtStep hu
      have ht'' := (mem_completedTrials ht').1
      obtain ⟨m, hm⟩ := List.mem_iff_getElem?.1 ht''
      have hum := interGet_mem_values hget
      by_cases hmn : m = n
      · subst hmn
        have : t' = t := by rw [hn] at hm; exact (Option.some.inj hm).symm
        subst this
        cases hd : s.dir with
        | minimize => simp only [AsGood, bestOverSteps]; exact nanMin_le hum hun
        | maximize => simp only [AsGood, bestOverSteps]; exact le_nanMax hum hun
      · have hbm : bestOverSteps t s.dir ∈ interValues t := by
          cases hd : s.dir with
          | minimize => exact nanMin_mem (nanMin_notNan hv0 hv0n)
          | maximize => exact nanMax_mem (nanMax_notNan hv0 hv0n)
        exact (hothers m t' hmn hm u hum hun _ hbm).asGood
  | sh c hv hboot =>
    simp only [prune]
    exact sh_strictly_best c s n t s.trials (fun t' ht' => List.mem_iff_getElem?.1 ht') hwf hb
      (by have := hv.1; omega) hboot
  | hyperband c hv hboot =>
    simp only [prune, hbPrune]
    split
    · rfl
    · split
      · rfl
      · split
        · rfl
        · exact sh_strictly_best _ s n t _ (fun t' ht' => mem_bracketTrials ht') hwf hb
            (by have := hv.1; simp only; omega) hboot
  | patient w k dl _ ih =>
    simp only [prune]
    split
    · exact ih
    · rfl

/-- **strictly_best_never_pruned.**  After *any* finite history of `ask` / `report` /
`should_prune` (each with any pruner) / `tell` calls on a fresh study — any direction, any values
including NaN and ±inf, any steps — a trial each of whose reported values is strictly better than
every value reported so far by any other trial is not pruned by the median, percentile,
successive-halving (no bootstrap), Hyperband (no bootstrap) or no-op pruner, nor by a patient pruner
around one of them, whatever their other parameters. -/
theorem strictly_best_never_pruned (crc : Nat → Nat) (d : Dir) (ops : List Op) (n : Nat) (t : PTrial)
    (p : Pruner) (hp : Protective p)
    (hb : StrictlyBest (after crc (Study.init d) ops) n t) :
    (prune crc (after crc (Study.init d) ops) n t p).prune = false :=
  strictly_best_not_pruned_of_wf crc _ n t p (reachable_wf crc d ops) hb hp

/-- The same, as seen through `should_prune()`: the call never answers `True`. -/
theorem strictly_best_should_prune_false (crc : Nat → Nat) (d : Dir) (ops : List Op) (n : Nat) (t : PTrial)
    (p : Pruner) (hp : Protective p)
    (hb : StrictlyBest (after crc (Study.init d) ops) n t) :
    (step crc (after crc (Study.init d) ops) (.shouldPrune n p)).2 ≠ some true := by
  have h := strictly_best_never_pruned crc d ops n t p hp hb
  simp only [step, hb.1]
  split
  · simp
  · simp [h]

/-- not vacuous: a history in which trial 2 is strictly best (so `should_prune` says False under the
median pruner and under successive halving) while trial 1, which is not, *is* pruned by both. -/
def demo : List Op :=
  [.ask, .report 0 0 (.fin 2), .report 0 1 (.fin 2), .shouldPrune 0 (.sh ⟨some 1, 2, 0, 0⟩), .tell 0 .complete,
   .ask, .report 1 0 (.fin 3), .report 1 1 (.fin 3),
   .ask, .report 2 0 (.fin 1), .report 2 1 (.fin 1)]

example :
    (step (fun _ => 0) (after (fun _ => 0) (Study.init .minimize) demo) (.shouldPrune 1 (Pruner.median 0 0 1 1))).2 = some true ∧
    (step (fun _ => 0) (after (fun _ => 0) (Study.init .minimize) demo) (.shouldPrune 2 (Pruner.median 0 0 1 1))).2 = some false ∧
    (step (fun _ => 0) (after (fun _ => 0) (Study.init .minimize) demo) (.shouldPrune 1 (.sh ⟨some 1, 2, 0, 0⟩))).2 = some true ∧
    (step (fun _ => 0) (after (fun _ => 0) (Study.init .minimize) demo) (.shouldPrune 2 (.sh ⟨some 1, 2, 0, 0⟩))).2 = some false := by
  decide +kernel

/-- Without the bootstrap restriction the statement is false (`bootstrap_count = 1`: the first trial
to reach a rung is pruned there, however good it is) — the hypothesis `bootstrap = 0` is needed. -/
example :
    (shPrune ⟨some 1, 2, 0, 1⟩ .minimize [⟨.running, [(1, .fin 0)], []⟩] ⟨.running, [(1, .fin 0)], []⟩).prune = true := by
  decide +kernel


end OptunaVerif.C16
