import OptunaVerif.Props.C16
import OptunaVerif.Props.C16ReportGen
/-!
# C16 — Hyperband: the best trial OF ITS BRACKET is never pruned (over all histories)

`strictly_best_never_pruned` (Props/C16.lean) protects a trial that is strictly better than every other trial of the STUDY.
Hyperband delegates to the successive-halving pruner of the trial's bracket on the BRACKET VIEW
(`hbPrune` → `shPrune … (bracketTrials …)`; for the source: `C16ReportGen.hyperband_delegates_to_bracket_view`), so the weaker
hypothesis "strictly better than every other trial of ITS OWN BRACKET" suffices.  This is the theorem behind the oracle line
`strictly-best-in-bracket` of `verif/props/c16.py`.
-/
set_option linter.unusedVariables false
namespace OptunaVerif.C16
open OptunaVerif OptunaVerif.Pruners

/-- trial numbers `m` and `n` fall into the same bracket of the (initialised) Hyperband pruner `c` -/
def SameBracket (c : HBCfg) (crc : Nat → Nat) (m n : Nat) : Prop :=
  ∃ nb b, c.nBrackets = some nb ∧ bracketId nb c.eta (crc m) = some b ∧ bracketId nb c.eta (crc n) = some b

/-- Trial `n` (with content `t`) is **strictly best in its bracket**: none of its reported values is NaN, and each of them is
strictly better than every (non-NaN) value reported so far by any other trial OF THE SAME BRACKET.  Trials of other brackets
are unconstrained.  (`StrictlyBest` implies it, `strictlyBest_inBracket`.) -/
def StrictlyBestInBracket (c : HBCfg) (crc : Nat → Nat) (s : Study) (n : Nat) (t : PTrial) : Prop :=
  s.trials[n]? = some t ∧ (∀ v ∈ interValues t, xisNan v = false) ∧
  ∀ (m : Nat) (t' : PTrial), m ≠ n → s.trials[m]? = some t' → SameBracket c crc m n →
    ∀ u ∈ interValues t', xisNan u = false → ∀ v ∈ interValues t, Better s.dir v u

theorem strictlyBest_inBracket (c : HBCfg) (crc : Nat → Nat) (s : Study) (n : Nat) (t : PTrial)
    (h : StrictlyBest s n t) : StrictlyBestInBracket c crc s n t :=
  ⟨h.1, h.2.1, fun m t' hmn hm _ => h.2.2 m t' hmn hm⟩

/-- a trial of the bracket view is a trial of the study whose NUMBER (= position) is in that bracket -/
theorem mem_bracketTrials_bracket {nb eta : Nat} {crc : Nat → Nat} {b : Nat} {trials : List PTrial} {t : PTrial}
    (h : t ∈ bracketTrials nb eta crc b trials) :
    ∃ i : Nat, trials[i]? = some t ∧ bracketId nb eta (crc i) = some b := by
  simp only [bracketTrials, List.mem_map, List.mem_filter] at h
  obtain ⟨⟨t', i⟩, ⟨hm, hf⟩, rfl⟩ := h
  refine ⟨i, List.mem_zipIdx_iff_getElem?.1 hm, ?_⟩
  simpa using hf

/-- `sh_strictly_best` with the hypothesis restricted to the trial numbers satisfying `P` (the competitor list only holds such
trials, or the trial itself) -/
theorem sh_strictly_best_among (P : Nat → Prop) (c : SHCfg) (s : Study) (n : Nat) (t : PTrial) (sub : List PTrial)
    (hsub : ∀ t' ∈ sub, ∃ m : Nat, s.trials[m]? = some t' ∧ P m)
    (hwf : WFStudy s)
    (hn : s.trials[n]? = some t) (hown : ∀ v ∈ interValues t, xisNan v = false)
    (hothers : ∀ (m : Nat) (t' : PTrial), m ≠ n → s.trials[m]? = some t' → P m →
      ∀ u ∈ interValues t', xisNan u = false → ∀ v ∈ interValues t, Better s.dir v u)
    (he : 1 ≤ c.eta) (hboot : c.bootstrap = 0) :
    (shPrune c s.dir sub t).prune = false := by
  apply sh_no_prune_of_best c s.dir sub t he hboot
  intro stp value hs hv
  have hvm := interGet_mem_values hv
  refine ⟨hown value hvm, ?_⟩
  intro r hr t' ht' u hu
  obtain ⟨m, hm, hP⟩ := hsub t' ht'
  by_cases hmn : m = n
  · subst hmn
    have : t' = t := by rw [hn] at hm; exact (Option.some.inj hm).symm
    subst this
    have hwt := hwf t' (List.mem_of_getElem? hn)
    rw [currentRung_of_range hwt.1] at hr
    rw [rungGet_none_of_range hwt.1 hr] at hu
    cases hu
  · have hwt := hwf t' (List.mem_of_getElem? hm)
    have := hwt.2 (r, u) (rungGet_mem hu)
    exact (hothers m t' hmn hm hP u this.2 this.1 value hvm).asGood

/-- On a well-formed state: Hyperband (valid configuration, no bootstrap) does not prune the best trial of its bracket. -/
theorem hyperband_best_in_bracket_not_pruned_of_wf (crc : Nat → Nat) (s : Study) (n : Nat) (t : PTrial) (c : HBCfg)
    (hv : c.Valid) (hboot : c.bootstrap = 0) (hwf : WFStudy s) (hb : StrictlyBestInBracket c crc s n t) :
    (prune crc s n t (.hyperband c)).prune = false := by
  obtain ⟨hn, hown, hothers⟩ := hb
  simp only [prune, hbPrune]
  split
  · rfl
  · rename_i nb hnb
    split
    · rfl
    · split
      · rfl
      · rename_i b hbn
        exact sh_strictly_best_among (fun m => bracketId nb c.eta (crc m) = some b) _ s n t _
          (fun t' ht' => mem_bracketTrials_bracket ht') hwf hn hown
          (fun m t' hmn hm hP => hothers m t' hmn hm ⟨nb, b, hnb, hP, hbn⟩)
          (by have := hv.1; simp only; omega) hboot

/-- a patient pruner prunes only what the wrapped pruner prunes -/
theorem patient_not_pruned_of_wrapped (crc : Nat → Nat) (s : Study) (n : Nat) (t : PTrial) (w : Pruner) (k : Nat) (dl : Rat)
    (h : (prune crc s n t w).prune = false) : (prune crc s n t (.patient w k dl)).prune = false := by
  cases hp : (prune crc s n t (.patient w k dl)).prune with
  | false => rfl
  | true => rw [patient_implies_wrapped crc s n t w k dl hp] at h; cases h

/-- **hyperband_best_in_bracket_never_pruned.**  After *any* finite history of `ask` / `report` / `should_prune` (each with any
pruner) / `tell` calls on a fresh study — any direction, any values including NaN and ±inf, any steps — a trial each of whose
reported values is strictly better than every value reported so far by the OTHER TRIALS OF ITS OWN BRACKET is not pruned by a
Hyperband pruner (valid configuration, `bootstrap_count = 0`), whatever the trials of the other brackets reported. -/
theorem hyperband_best_in_bracket_never_pruned (crc : Nat → Nat) (d : Dir) (ops : List Op) (n : Nat) (t : PTrial)
    (c : HBCfg) (hv : c.Valid) (hboot : c.bootstrap = 0)
    (hb : StrictlyBestInBracket c crc (after crc (Study.init d) ops) n t) :
    (prune crc (after crc (Study.init d) ops) n t (.hyperband c)).prune = false :=
  hyperband_best_in_bracket_not_pruned_of_wf crc _ n t c hv hboot (reachable_wf crc d ops) hb

/-- … nor by a patient pruner around it -/
theorem patient_hyperband_best_in_bracket_never_pruned (crc : Nat → Nat) (d : Dir) (ops : List Op) (n : Nat) (t : PTrial)
    (c : HBCfg) (k : Nat) (dl : Rat) (hv : c.Valid) (hboot : c.bootstrap = 0)
    (hb : StrictlyBestInBracket c crc (after crc (Study.init d) ops) n t) :
    (prune crc (after crc (Study.init d) ops) n t (.patient (.hyperband c) k dl)).prune = false :=
  patient_not_pruned_of_wrapped crc _ n t _ k dl (hyperband_best_in_bracket_never_pruned crc d ops n t c hv hboot hb)

/-- The same, as seen through `should_prune()`: the call never answers `True`. -/
theorem hyperband_best_in_bracket_should_prune_false (crc : Nat → Nat) (d : Dir) (ops : List Op) (n : Nat) (t : PTrial)
    (c : HBCfg) (hv : c.Valid) (hboot : c.bootstrap = 0)
    (hb : StrictlyBestInBracket c crc (after crc (Study.init d) ops) n t) :
    (step crc (after crc (Study.init d) ops) (.shouldPrune n (.hyperband c))).2 ≠ some true := by
  have h := hyperband_best_in_bracket_never_pruned crc d ops n t c hv hboot hb
  simp only [step, hb.1]
  split
  · simp
  · simp [h]

/-- **gen_hyperband_best_in_bracket_never_pruned_e2e**: the same after ANY sequence of calls made through the GENERATED glue
(`Trial.report` / `Trial.should_prune` as translated from the source, `C16ReportGen.stepG_eq`). -/
theorem gen_hyperband_best_in_bracket_never_pruned_e2e (crc : Nat → Nat) (d : Dir) (ops : List Op) (n : Nat) (t : PTrial)
    (c : HBCfg) (hv : c.Valid) (hboot : c.bootstrap = 0)
    (hb : StrictlyBestInBracket c crc
      (ReportIR.afterG Generated.ReportMethods.reportProg crc (Study.init d) ops) n t) :
    (ReportIR.stepG Generated.ReportMethods.reportProg crc
      (ReportIR.afterG Generated.ReportMethods.reportProg crc (Study.init d) ops) (.shouldPrune n (.hyperband c))).2 ≠ some true := by
  rw [C16ReportGen.afterG_eq] at hb ⊢
  rw [C16ReportGen.stepG_eq]
  exact hyperband_best_in_bracket_should_prune_false crc d ops n t c hv hboot hb

/-! ## non-vacuity: best in its bracket, NOT best in the study -/

/-- two brackets (`n_brackets = 2`, η = 2: budgets `[2, 2]`); `crc32` puts trials 0 and 2 into bracket 0 and trial 1 into bracket 1 -/
def demoCfg : HBCfg := ⟨1, 2, 0, some 2⟩
def demoCrc : Nat → Nat := fun n => if n = 1 then 2 else 0
/-- trial 1 reports 1 (and completes its rung 0), trial 0 reports 5 (rung 0), trial 2 reports 3 -/
def demoOps : List Op := [.ask, .ask, .ask, .report 1 2 (.fin 1), .shouldPrune 1 (.hyperband demoCfg),
  .report 0 1 (.fin 5), .shouldPrune 0 (.hyperband demoCfg), .report 2 1 (.fin 3)]
def demoTrial2 : PTrial := ⟨.running, [(1, .fin 3)], []⟩

theorem demo_state : after demoCrc (Study.init .minimize) demoOps =
    ⟨.minimize, [⟨.running, [(1, .fin 5)], [(0, .fin 5)]⟩, ⟨.running, [(2, .fin 1)], [(0, .fin 1)]⟩, demoTrial2]⟩ := by
  have h1 : (after demoCrc (Study.init .minimize) demoOps).dir = .minimize := by decide +kernel
  have h2 : (after demoCrc (Study.init .minimize) demoOps).trials =
      [⟨.running, [(1, .fin 5)], [(0, .fin 5)]⟩, ⟨.running, [(2, .fin 1)], [(0, .fin 1)]⟩, demoTrial2] := by decide +kernel
  cases h : after demoCrc (Study.init .minimize) demoOps with
  | mk d ts => rw [h] at h1 h2; simp only at h1 h2; rw [h1, h2]

/-- Trial 2 (value 3) is the best of bracket 0 (trial 0 has 5) but NOT the best of the study (trial 1 of bracket 1 has 1):
the hypothesis of `hyperband_best_in_bracket_never_pruned` holds where the one of `strictly_best_never_pruned` fails; Hyperband
does not prune it — while the successive-halving pruner of its bracket run on ALL trials (the bracket filter dropped) would. -/
example :
    StrictlyBestInBracket demoCfg demoCrc (after demoCrc (Study.init .minimize) demoOps) 2 demoTrial2 ∧
    ¬ StrictlyBest (after demoCrc (Study.init .minimize) demoOps) 2 demoTrial2 ∧
    (prune demoCrc (after demoCrc (Study.init .minimize) demoOps) 2 demoTrial2 (.hyperband demoCfg)).prune = false ∧
    (shPrune { minResource := some 1, eta := 2, rate := 0, bootstrap := 0 } .minimize
      (after demoCrc (Study.init .minimize) demoOps).trials demoTrial2).prune = true := by
  have hsb : StrictlyBestInBracket demoCfg demoCrc (after demoCrc (Study.init .minimize) demoOps) 2 demoTrial2 := by
    rw [demo_state]
    refine ⟨rfl, by decide +kernel, ?_⟩
    intro m t' hmn hm hsame u hu hun v hv
    match m, hmn, hm, hsame with
    | 0, _, hm, _ =>
      cases hm
      simp only [interValues, demoTrial2, List.map_cons, List.map_nil, List.mem_singleton] at hu hv
      subst hu; subst hv
      show xlt (.fin 3) (.fin 5) = true
      decide +kernel
    | 1, _, _, ⟨nb, b, hnb, h1, h2⟩ =>
      have : nb = 2 := by cases hnb; rfl
      subst this
      have e1 : bracketId 2 demoCfg.eta (demoCrc 1) = some 1 := by decide +kernel
      have e2 : bracketId 2 demoCfg.eta (demoCrc 2) = some 0 := by decide +kernel
      rw [e1] at h1; rw [e2] at h2
      cases h1; cases h2
    | 2, hmn, _, _ => exact absurd rfl hmn
    | k + 3, _, hm, _ => simp at hm
  refine ⟨hsb, ?_, hyperband_best_in_bracket_never_pruned demoCrc .minimize demoOps 2 demoTrial2 demoCfg
    ⟨by decide, by decide⟩ rfl hsb, ?_⟩
  · rw [demo_state]
    intro h
    have := h.2.2 1 _ (by decide) rfl (.fin 1) (by simp [interValues]) rfl (.fin 3) (by simp [interValues, demoTrial2])
    have h' : xlt (.fin 3) (.fin 1) = true := this
    revert h'
    decide +kernel
  · rw [demo_state]
    decide +kernel

end OptunaVerif.C16
