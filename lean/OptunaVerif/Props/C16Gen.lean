import OptunaVerif.Lemmas.Pruners
import OptunaVerif.Generated.PrunersInt
/-!
# C16 — the integer kernels regenerated from the Python source agree with the hand model

`Generated/PrunersInt.lean` is rewritten from `/repo/optuna/pruners/*.py` on every run of the check
(`verif/translators/pruners_int.py`).  Each theorem here relates one generated definition to the
function of `Model/Pruners.lean` that the C16 theorems are about — for **all** arguments.  An edit of
the source that changes the warm-up / start-up / bootstrap comparisons, the interval alignment, the
promotable index, the promotion step, the budgets, the bracket walk or the patience window changes
the generated text and breaks the corresponding proof.
-/
set_option linter.unusedSimpArgs false
set_option linter.unusedVariables false
namespace OptunaVerif.C16Gen
open OptunaVerif OptunaVerif.Pruners
open OptunaVerif.Generated

/-- `_is_first_in_interval_step`, as written in the source, is the model's function. -/
theorem gen_isFirstInIntervalStep (step : Int) (steps : List Int) (w i : Int) :
    PrunersInt.isFirstInIntervalStep step steps w i = isFirstInIntervalStep step steps w i := rfl

/-- `PercentilePruner.prune`: `n_trials == 0`, `n_trials < n_startup_trials`, `step < n_warmup_steps`
return False; the final answers are `best < p` (maximize) and `best > p` (minimize). -/
theorem gen_percentile_guards (nt ns st nw b p : Int) :
    PrunersInt.percentilePruneGuards nt ns st nw b p =
      [(decide (nt = 0), false), (decide (nt < ns), false), (decide (st < nw), false),
       (decide (b < p), true), (decide (b > p), true)] := rfl

/-- The generated guards are exactly the early exits of the model's `percentilePrune`: whenever one
of the three fires, the model answers False. -/
theorem gen_percentile_guards_sound (c : PercentileCfg) (d : Dir) (trials : List PTrial) (t : PTrial)
    (stp b p : Int) (hs : lastStep t.inter = some stp) (g : Bool × Bool)
    (hg : g ∈ (PrunersInt.percentilePruneGuards (completedTrials trials).length c.nStartup stp c.nWarmup b p).take 3)
    (hfire : g.1 = true) : percentilePrune c d trials t = g.2 := by
  simp only [PrunersInt.percentilePruneGuards, List.take, List.mem_cons, List.not_mem_nil, or_false] at hg
  rcases hg with rfl | rfl | rfl
  · have : (completedTrials trials).length = 0 := by simpa using hfire
    simp [percentilePrune, this]
  · have : (completedTrials trials).length < c.nStartup := by simpa using hfire
    simp only [percentilePrune, this, if_true]
    split <;> rfl
  · have : stp < (c.nWarmup : Int) := by simpa using hfire
    simp only [percentilePrune, hs, this, if_true]
    split
    · rfl
    · split <;> rfl

/-- `ThresholdPruner.prune`: `step < n_warmup_steps` returns False; `latest_value < lower` and
`latest_value > upper` return True. -/
theorem gen_threshold_guards (st nw v lo hi : Int) :
    PrunersInt.thresholdPruneGuards st nw v lo hi =
      [(decide (st < nw), false), (decide (v < lo), true), (decide (v > hi), true)] := rfl

/-- The promotable index of the source is the model's `promotableIdx`. -/
theorem gen_promotableIdx (n eta : Nat) (he : 1 ≤ eta) :
    PrunersInt.promotableIdx (n : Int) (eta : Int) = ((promotableIdx n eta : Nat) : Int) := by
  unfold PrunersInt.promotableIdx promotableIdx
  have h1 : Int.fdiv (n : Int) (eta : Int) = ((n / eta : Nat) : Int) := by
    rw [Int.fdiv_eq_ediv_of_nonneg _ (by omega)]; rfl
  simp only [h1]
  generalize n / eta = k
  cases k with
  | zero => simp
  | succ k =>
    have : ¬ (((k + 1 : Nat) : Int) - 1 = -1) := by omega
    simp only [this, if_false, Nat.add_one_ne_zero]
    omega

/-- maximize reads `competing_values[-(idx+1)]`, i.e. position `len - (idx+1)`, with `>=`;
minimize reads `competing_values[idx]` with `<=` — as in the model's `isPromotable?`. -/
theorem gen_promotable_index (len idx : Int) :
    len + PrunersInt.promotableIndexMax idx = len - (idx + 1) ∧ PrunersInt.promotableIndexMin idx = idx ∧
    PrunersInt.promotableCmpMax = ">=" ∧ PrunersInt.promotableCmpMin = "<=" := by
  refine ⟨?_, rfl, rfl, rfl⟩
  unfold PrunersInt.promotableIndexMax; omega

/-- `rung_promotion_step` of the source is the model's `promotionStep`. -/
theorem gen_rungPromotionStep (m eta rate rung : Nat) :
    PrunersInt.rungPromotionStep (m : Int) (eta : Int) (rate : Int) (rung : Int) =
      ((promotionStep m eta rate rung : Nat) : Int) := by
  unfold PrunersInt.rungPromotionStep promotionStep
  have : ((rate : Int) + (rung : Int)).toNat = rate + rung := by omega
  rw [this, Int.natCast_mul, Int.natCast_pow]

/-- `SuccessiveHalvingPruner.prune`: `step < rung_promotion_step` returns False,
`len(competing) <= bootstrap_count` returns True — the comparisons of the model's `shLoop`. -/
theorem gen_sh_guards (st rps lc bc : Int) :
    PrunersInt.shPruneGuards st rps lc bc = [(decide (st < rps), false), (decide (lc ≤ bc), true)] := rfl

/-- `_calculate_trial_allocation_budget` of the source is the model's `budget` (for a bracket id
below the number of brackets). -/
theorem gen_budget (nb eta b : Nat) (hb : b < nb) :
    PrunersInt.calculateTrialAllocationBudget (nb : Int) (b : Int) (eta : Int) = ((budget nb eta b : Nat) : Int) := by
  unfold PrunersInt.calculateTrialAllocationBudget budget
  have hs : ((nb : Int) - 1 - (b : Int)) = ((nb - 1 - b : Nat) : Int) := by omega
  simp only [hs, Int.toNat_natCast]
  rw [Int.fdiv_eq_ediv_of_nonneg _ (by omega)]
  have : (nb : Int) * (eta : Int) ^ (nb - 1 - b) + (((nb - 1 - b : Nat) : Int) + 1) - 1 =
      ((nb * eta ^ (nb - 1 - b) + (nb - 1 - b) : Nat) : Int) := by
    rw [Int.natCast_add, Int.natCast_mul, Int.natCast_pow]; omega
  rw [this]
  rfl

/-- The bracket loop of the source is the model's `bracketWalk`. -/
theorem gen_bracket_loop (bs : List Nat) (n : Int) (i : Nat) :
    PrunersInt.getBracketIdLoop (bs.map Int.ofNat) n (i : Int) = (bracketWalk bs n i).map Int.ofNat := by
  induction bs generalizing n i with
  | nil => rfl
  | cons b t ih =>
    simp only [List.map_cons, PrunersInt.getBracketIdLoop, bracketWalk]
    have : Int.ofNat b = (b : Int) := rfl
    rw [this]
    split
    · rfl
    · have := ih (n - (b : Int)) (i + 1)
      simpa using this

/-- `_get_bracket_id` of the source (`crc32 % total`, then the loop) is the model's `bracketId`. -/
theorem gen_bracketId (nb eta h : Nat) :
    PrunersInt.getBracketId (h : Int) (((budgets nb eta).sum : Nat) : Int) ((budgets nb eta).map Int.ofNat) =
      (bracketId nb eta h).map Int.ofNat := by
  unfold PrunersInt.getBracketId bracketId
  have : Int.fmod (h : Int) (((budgets nb eta).sum : Nat) : Int) = ((h % (budgets nb eta).sum : Nat) : Int) := by
    rw [Int.fmod_eq_emod_of_nonneg _ (by omega)]; rfl
  rw [this]
  exact gen_bracket_loop _ _ 0

/-- `PatientPruner.prune`: `steps.size <= patience + 1` returns False, and both slices cut the sorted
steps at position `size - (patience + 1)` — the model's `take` / `drop` count. -/
theorem gen_patient_window (size patience : Nat) (h : patience + 1 < size) :
    PrunersInt.patientPruneGuards (size : Int) (patience : Int) = [(decide ((size : Int) ≤ (patience : Int) + 1), false)] ∧
    (size : Int) + PrunersInt.patientBeforeUpper (patience : Int) = ((size - (patience + 1) : Nat) : Int) ∧
    (size : Int) + PrunersInt.patientAfterLower (patience : Int) = ((size - (patience + 1) : Nat) : Int) := by
  refine ⟨rfl, ?_, ?_⟩
  · unfold PrunersInt.patientBeforeUpper; omega
  · unfold PrunersInt.patientAfterLower; omega

end OptunaVerif.C16Gen
