import OptunaVerif.Generated.ReportMethods
import OptunaVerif.Generated.PrunersSkel
import OptunaVerif.Props.C16
/-!
# C16 (translator tie of the glue) — `Trial.report` / `Trial.should_prune` *as written in the source today*

`Generated/ReportMethods.lean` is regenerated on every run by `verif/translators/treport.py` from `optuna/trial/_trial.py`
(`Trial.report`, `Trial.should_prune`, `_get_latest_trial`), `_fixed.py`, `_frozen.py` (`report` / `should_prune`) and
`optuna/pruners/__init__.py` (`_filter_study`).  Proved here for ALL inputs: `<method>_shape` (the generated body is literally
the expected term), `interp_<method>` (the interpreter of `Model/ReportIR.lean` on it equals the hand model of
`Model/Pruners.lean`), `stepG_eq` (a history of calls through the generated glue is the hand model's history), and from it
the protections of `Props/C16.lean` end to end over sequences of `report` / `should_prune` calls.  The delegation shapes of
`PatientPruner.prune` and `HyperbandPruner.prune` are stated over `Generated/PrunersSkel.lean` (not translated again).
-/
set_option linter.unusedSimpArgs false
set_option linter.unusedVariables false
namespace OptunaVerif.C16ReportGen
open OptunaVerif OptunaVerif.Pruners OptunaVerif.ReportIR
open OptunaVerif.Generated

@[simp] theorem reportSem_cond : reportSem.cond = evalRCond := rfl
@[simp] theorem reportSem_act : reportSem.act = doRAct := rfl
@[simp] theorem reportSem_iter : reportSem.iter = iterR := rfl
@[simp] theorem reportSem_retv : reportSem.retv = retR := rfl

/-! ## `Trial.report` -/

/-- **report_shape**: multi-objective → NotImplementedError; `float(value)` / `int(step)` (TypeError); `step < 0` → ValueError;
a step already in the cached trial → warn and RETURN (nothing written); else the storage write, THEN the cache update -/
theorem report_shape : ReportMethods.report = block [
    (.ite .multiObjective (.raise .notImplemented) .skip),
    (.act .valueToFloat),
    (.act .stepToInt),
    (.ite (.stepLt 0) (.raise .valueError) .skip),
    (.ite .stepInCached (block [(.act .warnDuplicate), (.ret .none)]) .skip),
    (.act .storageWrite),
    (.act .cacheSet)] := rfl

theorem interSet_fresh (l : List (Int × XVal)) (k : Int) (v : XVal) (h : interGet l k = none) :
    interSet l k v = l ++ [(k, v)] := by
  induction l with
  | nil => rfl
  | cons p rest ih =>
    obtain ⟨s, w⟩ := p
    simp only [interGet] at h
    by_cases hs : s = k
    · simp [hs] at h
    · simp only [hs, if_false] at h
      simp [interSet, hs, ih h]

/-- **interp_report**: `Trial.report` as generated is `reportTrial` — for every trial object, every (convertible or not)
value and step, and whether or not the storage accepts the write -/
theorem interp_report (o : TrialObj) (value : Option XVal) (stp : Option Int) (ok : Bool) :
    interpReport ReportMethods.report o value stp ok = .ok (reportTrial o value stp ok) := by
  rw [interpReport, report_shape]
  by_cases hd : 1 < o.nDirs
  · simp [block, exec, andThen, evalRCond, REnv.ofIn, RIn.init, hd, reportTrial, errOf]
  · cases value with
    | none => simp [block, exec, andThen, evalRCond, doRAct, REnv.ofIn, RIn.init, hd, reportTrial, errOf]
    | some v =>
      cases stp with
      | none => simp [block, exec, andThen, evalRCond, doRAct, REnv.ofIn, RIn.init, hd, reportTrial, errOf]
      | some st =>
        by_cases hneg : st < 0
        · simp [block, exec, andThen, evalRCond, doRAct, REnv.ofIn, RIn.init, hd, hneg, reportTrial, errOf]
        · cases hdup : interGet o.cached.inter st with
          | some w =>
            simp [block, exec, andThen, evalRCond, doRAct, retR, REnv.ofIn, RIn.init, hd, hneg, hdup, reportTrial]
          | none =>
            cases ok with
            | false =>
              simp [block, exec, andThen, evalRCond, doRAct, retR, REnv.ofIn, RIn.init, hd, hneg, hdup, reportTrial, errOf]
            | true =>
              simp [block, exec, andThen, evalRCond, doRAct, retR, REnv.ofIn, RIn.init, hd, hneg, hdup, reportTrial,
                interSet_fresh _ _ _ hdup]

/-! ## `Trial.should_prune` -/

/-- **shouldPrune_shape**: multi-objective → NotImplementedError; `trial = self._get_latest_trial()`;
`return self.study.pruner.prune(self.study, trial)` -/
theorem shouldPrune_shape : ReportMethods.shouldPrune = block [
    (.ite .multiObjective (.raise .notImplemented) .skip),
    (.act (.setTrial .latestCopy)),
    (.ret .prunerCall)] := rfl

/-- `_get_latest_trial` hands out `copy.copy(self._cached_frozen_trial)` (a new object), not the cached trial -/
theorem latest_trial_is_a_copy : ReportMethods.reportProg.latestIsCopy = true := rfl

/-- **interp_shouldPrune**: `Trial.should_prune` as generated is `shouldPruneTrial`: the pruner's decision on the snapshot, the
trial object (its cache) untouched whatever the pruner does to the object it is handed — for every pruner function -/
theorem interp_shouldPrune (o : TrialObj) (prunerF : PTrial → Bool × PTrial) :
    interpShouldPrune ReportMethods.shouldPrune ReportMethods.reportProg.latestIsCopy o prunerF = .ok (shouldPruneTrial o prunerF) := by
  rw [interpShouldPrune, shouldPrune_shape, latest_trial_is_a_copy]
  by_cases hd : 1 < o.nDirs
  · simp [block, exec, andThen, evalRCond, REnv.ofIn, RIn.init, hd, shouldPruneTrial]
  · simp [block, exec, andThen, evalRCond, doRAct, retR, REnv.ofIn, RIn.init, hd, shouldPruneTrial]

/-! ## Fixed / Frozen trials, `_filter_study` -/

/-- **inert_trials_shape**: `FixedTrial.report` / `FrozenTrial.report` are `pass`; their `should_prune` is `return False` -/
theorem inert_trials_shape :
    ReportMethods.fixedReport = .skip ∧ ReportMethods.frozenReport = .skip ∧
    ReportMethods.fixedShouldPrune = .ret (.bool false) ∧ ReportMethods.frozenShouldPrune = .ret (.bool false) :=
  ⟨rfl, rfl, rfl, rfl⟩

/-- **gen_fixed_frozen_never_prune** (4): Fixed and Frozen trials never prune and `report` does nothing to them -/
theorem gen_fixed_frozen_never_prune (o : TrialObj) (value : Option XVal) (stp : Option Int) :
    interpConstPrune ReportMethods.fixedShouldPrune = .ok false ∧
    interpConstPrune ReportMethods.frozenShouldPrune = .ok false ∧
    interpInertReport ReportMethods.fixedReport o value stp = .ok ⟨o, [], false, none⟩ ∧
    interpInertReport ReportMethods.frozenReport o value stp = .ok ⟨o, [], false, none⟩ := by
  obtain ⟨h1, h2, h3, h4⟩ := inert_trials_shape
  refine ⟨?_, ?_, ?_, ?_⟩
  · rw [h3]; rfl
  · rw [h4]; rfl
  · rw [h1]; rfl
  · rw [h2]; rfl

/-- **filterStudy_shape**: `isinstance(study.pruner, HyperbandPruner)` → the bracket study of the trial's bracket, else the study -/
theorem filterStudy_shape : ReportMethods.filterStudy =
    .ite .prunerIsHyperband (block [(.act .bindHyperband), (.ret .bracketStudy)]) (.ret .study) := rfl

theorem interp_filterStudy (isHB : Bool) (bracketIdF : Nat → Nat) (bracketView : Nat → List PTrial) (trials : List PTrial) (n : Nat) :
    interpFilterStudy ReportMethods.filterStudy isHB bracketIdF bracketView trials n =
      .ok (filterStudyView isHB bracketIdF bracketView trials n) := by
  rw [interpFilterStudy, filterStudy_shape]
  cases isHB <;> simp [block, exec, andThen, evalRCond, doRAct, retR, REnv.ofIn, RIn.init, filterStudyView]

/-! ## the delegation shapes of the wrapper pruners (over `Generated/PrunersSkel.lean`) -/

/-- every `return` of a skeleton whose expression is atom `k`, together with the chain of `if` tests (and the branch taken)
above it -/
def returnsOfAtom (k : Nat) : Skel.Prog → List (Skel.Exp × Bool) → List (List (Skel.Exp × Bool))
  | .ret _ (.atom j), path => if j = k then [path] else []
  | .ret _ _, _ => []
  | .raise _ _, _ => []
  | .set _ _ rest, path => returnsOfAtom k rest path
  | .effect _ rest, path => returnsOfAtom k rest path
  | .ite c th el, path => returnsOfAtom k th (path ++ [(c, true)]) ++ returnsOfAtom k el (path ++ [(c, false)])
  | .seq a b, path => returnsOfAtom k a path ++ returnsOfAtom k b path
  | .whileTrue b, path => returnsOfAtom k b path
  | .whileC _ b a, path => returnsOfAtom k b path ++ returnsOfAtom k a path
  | .forRange _ _ b a, path => returnsOfAtom k b path ++ returnsOfAtom k a path
  | .skip, _ => []

def isLvar0 : Skel.Exp × Bool → Bool
  | (.lvar 0, true) => true
  | _ => false

/-- **patient_delegates_only_after_patience_test**: in `PatientPruner.prune` the call `self._wrapped_pruner.prune(study, trial)`
is returned at exactly one place, and that place lies inside `if maybe_prune:` (local 0) — the wrapped pruner is consulted only
after the patience test, and `maybe_prune` is assigned only from the two window comparisons -/
theorem patient_delegates_only_after_patience_test :
    PrunersSkel.patientPrune.atoms[11]? = some "self._wrapped_pruner.prune(study, trial)" ∧
    PrunersSkel.patientPrune.locals = ["maybe_prune"] ∧
    (returnsOfAtom 11 PrunersSkel.patientPrune.body []).length = 1 ∧
    (returnsOfAtom 11 PrunersSkel.patientPrune.body []).all (fun path => path.any isLvar0) = true := by
  refine ⟨rfl, rfl, rfl, rfl⟩

/-- **hyperband_delegates_to_bracket_view**: `HyperbandPruner.prune` returns `self._pruners[bracket_id].prune(bracket_study, trial)`
where `bracket_id = self._get_bracket_id(study, trial)` and `bracket_study = self._create_bracket_study(study, bracket_id)`; the bracket
study's `get_trials` keeps exactly the trials with `pruner._get_bracket_id(self, t) == self._bracket_id` — the same two functions
`_filter_study` composes -/
theorem hyperband_delegates_to_bracket_view :
    PrunersSkel.hbPrune.atoms[2]? = some "self._pruners[bracket_id].prune(bracket_study, trial)" ∧
    PrunersSkel.hbPrune.data = ["bracket_id = self._get_bracket_id(study, trial)",
      "_logger.debug('{}th bracket is selected'.format(bracket_id))",
      "bracket_study = self._create_bracket_study(study, bracket_id)"] ∧
    PrunersSkel.bracketGetTrials.atoms = ["[t for t in trials if pruner._get_bracket_id(self, t) == self._bracket_id]"] ∧
    (returnsOfAtom 0 PrunersSkel.bracketGetTrials.body []).length = 1 := by
  refine ⟨rfl, rfl, rfl, rfl⟩

/-! ## histories of calls through the generated glue -/

theorem updAt_const_of_get {α : Type} (l : List α) : ∀ (n : Nat) (t : α) (f : α → α), l[n]? = some t →
    updAt l n (fun _ => f t) = updAt l n f := by
  induction l with
  | nil => intro n t f h; rfl
  | cons a rest ih =>
    intro n t f h
    cases n with
    | zero => simp at h; subst h; rfl
    | succ n => simp only [updAt]; rw [ih n t f (by simpa using h)]

theorem updAt_id_of_get {α : Type} (l : List α) : ∀ (n : Nat) (t : α), l[n]? = some t → updAt l n (fun _ => t) = l := by
  induction l with
  | nil => intro n t h; rfl
  | cons a rest ih =>
    intro n t h
    cases n with
    | zero => simp at h; subst h; rfl
    | succ n => simp only [updAt]; rw [ih n t (by simpa using h)]

/-- **stepG_eq**: one call (`ask` / `report` / `should_prune` with any pruner / `tell`) through the interpreter of the generated
`Trial.report` / `Trial.should_prune` is the hand model's `step` — every study state, every call -/
theorem stepG_eq (crc : Nat → Nat) (s : Study) (op : Op) : stepG ReportMethods.reportProg crc s op = step crc s op := by
  have hR : ReportMethods.reportProg.report = ReportMethods.report := rfl
  have hS : ReportMethods.reportProg.shouldPrune = ReportMethods.shouldPrune := rfl
  cases op with
  | ask => rfl
  | tell n st => rfl
  | report n st v =>
    simp only [stepG, step, hR, interp_report]
    cases hn : s.trials[n]? with
    | none => rfl
    | some t =>
      simp only [reportTrial, Nat.lt_irrefl, if_false]
      by_cases hneg : st < 0
      · simp [hneg, updAt_id_of_get _ _ _ hn]
      · cases hdup : interGet t.inter st with
        | some w => simp [hneg, hdup, updAt_id_of_get _ _ _ hn]
        | none =>
          cases hst : (t.state == TState.running) with
          | false =>
            have hne : (t.state != TState.running) = true := by simp [bne, hst]
            simp [hneg, hdup, hst, hne, updAt_id_of_get _ _ _ hn]
          | true =>
            have hne : (t.state != TState.running) = false := by simp [bne, hst]
            simp only [hneg, hdup, hst, hne, Option.isSome, Bool.not_true, Bool.false_eq_true, if_false, Bool.or_false,
              decide_false, Bool.false_or]
            rw [updAt_const_of_get s.trials n t (fun t => { t with inter := t.inter ++ [(st, v)] }) hn]
  | shouldPrune n p =>
    simp only [stepG, step, hS]
    cases hn : s.trials[n]? with
    | none => rfl
    | some t =>
      simp only []
      by_cases hrun : (t.state != TState.running) = true
      · simp [hrun]
      · simp only [hrun, if_false, interp_shouldPrune, shouldPruneTrial, Nat.lt_irrefl]

theorem afterG_eq (crc : Nat → Nat) (s : Study) (ops : List Op) :
    afterG ReportMethods.reportProg crc s ops = after crc s ops := by
  simp only [afterG, after, stepG_eq]

/-! ## the protections, for the generated glue -/

theorem interGet_append_fresh (l : List (Int × XVal)) (k : Int) (v : XVal) (h : interGet l k = none) :
    interGet (l ++ [(k, v)]) k = some v := by
  induction l with
  | nil => simp [interGet]
  | cons p rest ih =>
    obtain ⟨s, w⟩ := p
    simp only [interGet] at h
    by_cases hs : s = k
    · simp [hs] at h
    · simp only [hs, if_false] at h
      simp [interGet, hs, ih h]

/-- **gen_report_first_value_wins** (1): once a step has a value in the trial, the generated `report` for that step — whatever
the new value — stores nothing, changes nothing and only warns; and an accepted report makes its step such a step.  Hence the
values a pruner sees are the FIRST reports, and its decision is a function of them. -/
theorem gen_report_first_value_wins (o : TrialObj) (v : XVal) (st : Int) (ok : Bool) (hd : ¬ 1 < o.nDirs) (hst : ¬ st < 0) :
    (∀ w, interGet o.cached.inter st = some w →
      interpReport ReportMethods.report o (some v) (some st) ok = .ok ⟨o, [], true, none⟩) ∧
    (interGet o.cached.inter st = none →
      ∃ r, interpReport ReportMethods.report o (some v) (some st) true = .ok r ∧ r.writes = [(st, v)] ∧
        interGet r.obj.cached.inter st = some v ∧
        ∀ v' ok', interpReport ReportMethods.report r.obj (some v') (some st) ok' = .ok ⟨r.obj, [], true, none⟩) := by
  constructor
  · intro w hw
    rw [interp_report]
    simp [reportTrial, hd, hst, hw]
  · intro hnone
    refine ⟨_, interp_report o (some v) (some st) true, ?_, ?_, ?_⟩
    · simp [reportTrial, hd, hst, hnone]
    · simp [reportTrial, hd, hst, hnone, interGet_append_fresh _ _ _ hnone]
    · intro v' ok'
      rw [interp_report]
      simp [reportTrial, hd, hst, hnone, interGet_append_fresh _ _ _ hnone]

/-- **gen_report_rejects_negative_step** (2): a negative step is refused with ValueError before anything is written -/
theorem gen_report_rejects_negative_step (o : TrialObj) (v : XVal) (st : Int) (ok : Bool) (hd : ¬ 1 < o.nDirs) (hneg : st < 0) :
    interpReport ReportMethods.report o (some v) (some st) ok = .ok ⟨o, [], false, some .valueError⟩ := by
  rw [interp_report]
  simp [reportTrial, hd, hneg]

/-- **gen_should_prune_is_pruner_on_snapshot** (3): on a single-objective study the generated `should_prune()` answers exactly
`pruner.prune(study, snapshot)`, the snapshot carrying the cached trial's `intermediate_values` — the reports accepted so far — and
the call leaves the trial object as it was -/
theorem gen_should_prune_is_pruner_on_snapshot (o : TrialObj) (prunerF : PTrial → Bool × PTrial) (hd : ¬ 1 < o.nDirs) :
    interpShouldPrune ReportMethods.shouldPrune ReportMethods.reportProg.latestIsCopy o prunerF = .ok (o, some (prunerF o.cached).1) := by
  rw [interp_shouldPrune]
  simp [shouldPruneTrial, hd]

/-- … and inside a history: the answer of `should_prune` for the running trial `n` is the model's `prune` on the study and on the
trial as the accepted reports left it -/
theorem gen_should_prune_in_history (crc : Nat → Nat) (d : Dir) (ops : List Op) (n : Nat) (t : PTrial) (p : Pruner)
    (hn : (afterG ReportMethods.reportProg crc (Study.init d) ops).trials[n]? = some t) (hrun : t.state = .running) :
    (stepG ReportMethods.reportProg crc (afterG ReportMethods.reportProg crc (Study.init d) ops) (.shouldPrune n p)).2 =
      some (prune crc (afterG ReportMethods.reportProg crc (Study.init d) ops) n t p).prune := by
  rw [stepG_eq]
  simp [step, hn, hrun]

/-- **gen_no_prune_before_warmup_e2e**: after ANY sequence of `ask` / `report` / `should_prune` / `tell` calls made through the
generated glue, `should_prune()` of a running trial whose last accepted step is below `n_warmup_steps` answers False — for the
percentile / median / threshold pruners and a patient pruner around one of them -/
theorem gen_no_prune_before_warmup_e2e (crc : Nat → Nat) (d : Dir) (ops : List Op) (n : Nat) (t : PTrial) (p : Pruner)
    (w : Nat) (stp : Int)
    (hn : (afterG ReportMethods.reportProg crc (Study.init d) ops).trials[n]? = some t) (hrun : t.state = .running)
    (hw : C16.nWarmup? p = some w) (hs : lastStep t.inter = some stp) (hlt : stp < (w : Int)) :
    (stepG ReportMethods.reportProg crc (afterG ReportMethods.reportProg crc (Study.init d) ops) (.shouldPrune n p)).2 = some false := by
  rw [gen_should_prune_in_history crc d ops n t p hn hrun, C16.no_prune_before_warmup crc _ n t p w stp hw hs hlt]

/-- **gen_strictly_best_never_pruned_e2e**: after ANY such sequence, a trial each of whose accepted values is strictly better than
every value accepted so far from any other trial is never answered True by `should_prune()` under a protective pruner -/
theorem gen_strictly_best_never_pruned_e2e (crc : Nat → Nat) (d : Dir) (ops : List Op) (n : Nat) (t : PTrial) (p : Pruner)
    (hp : C16.Protective p)
    (hb : C16.StrictlyBest (afterG ReportMethods.reportProg crc (Study.init d) ops) n t) :
    (stepG ReportMethods.reportProg crc (afterG ReportMethods.reportProg crc (Study.init d) ops) (.shouldPrune n p)).2 ≠ some true := by
  rw [afterG_eq] at hb ⊢
  rw [stepG_eq]
  exact C16.strictly_best_should_prune_false crc d ops n t p hp hb

/-! ## non-vacuity: the interpreter itself on concrete calls -/

/-- first report accepted and stored; the second for the same step warns and keeps 3; a negative step is a ValueError; a value that
is not float-like a TypeError; NaN is accepted; a finished trial's storage refuses and the cache stays; multi-objective is refused -/
example :
    interpReport ReportMethods.report ⟨1, ⟨.running, [], []⟩⟩ (some (.fin 3)) (some 0) true =
      .ok ⟨⟨1, ⟨.running, [(0, .fin 3)], []⟩⟩, [(0, .fin 3)], false, none⟩ ∧
    interpReport ReportMethods.report ⟨1, ⟨.running, [(0, .fin 3)], []⟩⟩ (some (.fin 9)) (some 0) true =
      .ok ⟨⟨1, ⟨.running, [(0, .fin 3)], []⟩⟩, [], true, none⟩ ∧
    interpReport ReportMethods.report ⟨1, ⟨.running, [], []⟩⟩ (some (.fin 3)) (some (-1)) true =
      .ok ⟨⟨1, ⟨.running, [], []⟩⟩, [], false, some .valueError⟩ ∧
    interpReport ReportMethods.report ⟨1, ⟨.running, [], []⟩⟩ none (some 0) true =
      .ok ⟨⟨1, ⟨.running, [], []⟩⟩, [], false, some .typeError⟩ ∧
    interpReport ReportMethods.report ⟨1, ⟨.running, [], []⟩⟩ (some .nan) (some 2) true =
      .ok ⟨⟨1, ⟨.running, [(2, .nan)], []⟩⟩, [(2, .nan)], false, none⟩ ∧
    interpReport ReportMethods.report ⟨1, ⟨.complete, [], []⟩⟩ (some (.fin 3)) (some 0) false =
      .ok ⟨⟨1, ⟨.complete, [], []⟩⟩, [], false, some .storageError⟩ ∧
    interpReport ReportMethods.report ⟨2, ⟨.running, [], []⟩⟩ (some (.fin 3)) (some 0) true =
      .ok ⟨⟨2, ⟨.running, [], []⟩⟩, [], false, some .notImplemented⟩ := by
  refine ⟨?_, ?_, ?_, ?_, ?_, ?_, ?_⟩ <;> rfl

/-- a pruner that rewrites the object it is handed does not reach the cache; its decision comes back -/
example : interpShouldPrune ReportMethods.shouldPrune ReportMethods.reportProg.latestIsCopy ⟨1, ⟨.running, [(0, .fin 3)], []⟩⟩
    (fun t => (t.inter.length == 1, { t with inter := [] })) = .ok (⟨1, ⟨.running, [(0, .fin 3)], []⟩⟩, some true) := by rfl

/-- C16's demo history through the generated glue: trial 1 is pruned by the median pruner, the strictly best trial 2 is not -/
example :
    (stepG ReportMethods.reportProg (fun _ => 0) (afterG ReportMethods.reportProg (fun _ => 0) (Study.init .minimize) C16.demo)
      (.shouldPrune 1 (Pruner.median 0 0 1 1))).2 = some true ∧
    (stepG ReportMethods.reportProg (fun _ => 0) (afterG ReportMethods.reportProg (fun _ => 0) (Study.init .minimize) C16.demo)
      (.shouldPrune 2 (Pruner.median 0 0 1 1))).2 = some false := by
  rw [afterG_eq, stepG_eq, stepG_eq]
  decide +kernel

end OptunaVerif.C16ReportGen
