import OptunaVerif.Props.C16
import OptunaVerif.Generated.PrunersSkel
import Mathlib.Tactic.Ring
import Mathlib.Algebra.Order.Field.Rat
/-!
# C16 — the control skeletons of the pruners regenerated from the Python source are the hand model

`Generated/PrunersSkel.lean` is rewritten from `/repo/optuna/pruners/*.py` on every run
(`verif/translators/pruners_skel.py`): for every `prune` method but Wilcoxon's (which has its own skeleton,
Props/C16WilcoxonGen.lean) and for their helpers, the control flow as a term of the IR of `Model/Skel.lean` —
every `if`, every `return` numbered in source order, `raise` / `assert False`, assignments to re-assigned names,
expression statements, `while True`, `while c`, `for … in range(…)` — over numbered ATOMS (verbatim sub-expressions the
translator does not look into), plus the DATA statements verbatim.

For each function an environment gives every atom its meaning in terms of `Model/Pruners.lean`, and a theorem proves
`interp environment generated_skeleton = the model's function` for **all** inputs:

  gen_percentile_prune, gen_best_over_steps, gen_percentile_over_trials, gen_threshold_prune, gen_patient_prune,
  gen_nop_prune, gen_sh_prune (decision and the `completed_rung_<r>` writes, by induction over the `while True`),
  gen_current_rung, gen_estimate_min_resource, gen_is_promotable, gen_bracket_id (the `for` walk), gen_hb_prune,
  gen_completed_rung_key, gen_competing_values, gen_bracket_get_trials, gen_median_init;
  gen_<fn>_tables pin atoms / locals / data statements verbatim (an operand swap inside a call, a changed slice, a
  changed helper call changes a table).

`skelPrune` runs every pruner through the interpreter (Hyperband delegating to the interpreted successive-halving
skeleton, Patient to the interpreted wrapped pruner); `skel_prune_eq` proves it equal to the model's `prune`, and the
headline theorems of Props/C16.lean are restated for it (`skel_no_prune_before_warmup`, `skel_no_prune_before_startup`,
`skel_no_prune_off_interval`, `skel_no_prune_within_patience`, `skel_threshold_prunes_iff`,
`skel_strictly_best_never_pruned`, `skel_nop_never`).

A change of the order of the early returns, of a guard, of a returned constant, of a comparison operator or its operands,
of the NaN handling, of the rung loop or its writes, of the patience comparison or the delegation breaks the `gen_*`
theorem of that function (or the translation).
-/
set_option linter.unusedSimpArgs false
set_option linter.unusedVariables false
namespace OptunaVerif.C16SkelGen
open OptunaVerif OptunaVerif.Pruners OptunaVerif.Skel
open OptunaVerif.Generated

/-- `trial.last_step` as a Python value -/
def stepVal (t : PTrial) : Val :=
  match lastStep t.inter with
  | none => .none
  | some s => .i s

def stepD (t : PTrial) : Int := (lastStep t.inter).getD 0

def dirVal : Dir → Val
  | .maximize => .dir true
  | .minimize => .dir false

/-! ## PercentilePruner.prune -/

def envPercentile (c : PercentileCfg) (d : Dir) (trials : List PTrial) (t : PTrial) : Env := fun k _ =>
  match k with
  | 0 => .i (completedTrials trials).length
  | 1 => .i c.nStartup
  | 2 => stepVal t
  | 3 => .i c.nWarmup
  | 4 => .b (isFirstInIntervalStep (stepD t) (interSteps t) c.nWarmup c.interval)
  | 5 => .x (bestOverSteps t d)
  | 6 => .x (percentileOverTrials (completedTrials trials) d (stepD t) c.q c.nMin)
  | 7 => dirVal d
  | _ => .err

theorem gen_percentile_prune (c : PercentileCfg) (d : Dir) (trials : List PTrial) (t : PTrial) :
    (interp (envPercentile c d trials t) 0 PrunersSkel.percentilePrune).val =
      some (.b (percentilePrune c d trials t)) := by
  unfold interp exec initSt PrunersSkel.percentilePrune percentilePrune
  simp only [execWith, evalE, envPercentile, veq, vcmp, truthy, List.map_nil]
  have e0 : (((completedTrials trials).length : Int) = 0) ↔ (completedTrials trials).length = 0 := by omega
  have e1 : (((completedTrials trials).length : Int) < (c.nStartup : Int)) ↔ (completedTrials trials).length < c.nStartup := by omega
  simp only [e0, e1]
  by_cases h0 : (completedTrials trials).length = 0
  · simp [h0, Res.val]
  by_cases h1 : (completedTrials trials).length < c.nStartup
  · simp [h0, h1, Res.val]
  unfold stepVal stepD
  cases hs : lastStep t.inter with
  | none => simp [h0, h1, Res.val]
  | some stp =>
    by_cases h2 : stp < (c.nWarmup : Int)
    · simp [h0, h1, h2, Res.val]
    cases h3 : isFirstInIntervalStep stp (interSteps t) c.nWarmup c.interval
    · simp [h0, h1, h2, h3, Res.val]
    cases h4 : xisNan (bestOverSteps t d)
    · cases h5 : xisNan (percentileOverTrials (completedTrials trials) d stp c.q c.nMin)
      · cases d <;> simp [h0, h1, h2, h3, h4, h5, dirVal, Res.val]
      · simp [h0, h1, h2, h3, h4, h5, Res.val]
    · simp [h0, h1, h2, h3, h4, Res.val]

/-! ## `_get_best_intermediate_result_over_steps` -/

def envBest (d : Dir) (t : PTrial) : Env := fun k _ =>
  match k with
  | 0 => dirVal d
  | 1 => .x (nanMax (interValues t))
  | 2 => .x (nanMin (interValues t))
  | _ => .err

theorem gen_best_over_steps (d : Dir) (t : PTrial) :
    (interp (envBest d t) 0 PrunersSkel.bestOverSteps).val = some (.x (bestOverSteps t d)) := by
  unfold interp exec initSt PrunersSkel.bestOverSteps bestOverSteps
  cases d <;> simp [execWith, evalE, envBest, veq, truthy, dirVal, Res.val]

/-! ## `_get_percentile_intermediate_result_over_trials` -/

def envPercOver (completed : List PTrial) (d : Dir) (step : Int) (q : Rat) (nMin : Nat) : Env := fun k _ =>
  match k with
  | 0 => .i completed.length
  | 1 => .i (valuesAtStep completed step).length
  | 2 => .i nMin
  | 3 => dirVal d
  | 4 => .x (xneg (npPercentile ((valuesAtStep completed step).map xneg) q))
  | 5 => .x (npPercentile (valuesAtStep completed step) q)
  | _ => .err

/-- the `ValueError` for an empty list is the first statement; otherwise the value is the model's: `nan` below
`n_min_trials`, `-nanpercentile(-values, percentile)` under MAXIMIZE (atom 4), `nanpercentile(values, percentile)` otherwise -/
theorem gen_percentile_over_trials (completed : List PTrial) (d : Dir) (step : Int) (q : Rat) (nMin : Nat) :
    (completed = [] → ∃ st, interp (envPercOver completed d step q nMin) 0 PrunersSkel.percentileOverTrials = .raise 0 st) ∧
    (completed ≠ [] → (interp (envPercOver completed d step q nMin) 0 PrunersSkel.percentileOverTrials).val =
      some (.x (percentileOverTrials completed d step q nMin))) := by
  unfold interp exec initSt PrunersSkel.percentileOverTrials percentileOverTrials
  simp only [execWith, evalE, envPercOver, veq, vcmp, truthy, List.map_nil]
  constructor
  · intro h; subst h; simp
  · intro h
    have h0 : ¬ ((completed.length : Int) = 0) := by
      have : completed.length ≠ 0 := fun h' => h (List.eq_nil_of_length_eq_zero h')
      omega
    have e1 : (((valuesAtStep completed step).length : Int) < (nMin : Int)) ↔ (valuesAtStep completed step).length < nMin := by omega
    simp only [h0, e1, decide_false]
    by_cases h1 : (valuesAtStep completed step).length < nMin
    · simp [h1, Res.val]
    · cases d <;> simp [h1, dirVal, Res.val]

/-! ## ThresholdPruner.prune -/

def envThreshold (c : ThresholdCfg) (t : PTrial) : Env := fun k _ =>
  match k with
  | 0 => stepVal t
  | 1 => .i c.nWarmup
  | 2 => .b (isFirstInIntervalStep (stepD t) (interSteps t) c.nWarmup c.interval)
  | 3 => .x ((interGet t.inter (stepD t)).getD .nan)
  | 4 => .x c.lower
  | 5 => .x c.upper
  | _ => .err

theorem gen_threshold_prune (c : ThresholdCfg) (t : PTrial) :
    (interp (envThreshold c t) 0 PrunersSkel.thresholdPrune).val = some (.b (thresholdPrune c t)) := by
  unfold interp exec initSt PrunersSkel.thresholdPrune thresholdPrune thresholdChecked
  simp only [execWith, evalE, envThreshold, veq, vcmp, truthy, List.map_nil]
  unfold stepVal stepD
  cases hs : lastStep t.inter with
  | none => simp [Res.val]
  | some stp =>
    obtain ⟨v, hv⟩ := interGet_isSome_of_mem (lastStep_spec hs).1
    by_cases h2 : stp < (c.nWarmup : Int)
    · simp [h2, Res.val]
    cases h3 : isFirstInIntervalStep stp (interSteps t) c.nWarmup c.interval
    · simp [h2, h3, Res.val]
    cases h4 : xisNan v <;> cases h5 : xlt v c.lower <;> cases h6 : xlt c.upper v <;>
      simp [h2, h3, hv, h4, h5, h6, Res.val]

/-! ## PatientPruner.prune -/

def envPatient (patience : Nat) (delta : Rat) (d : Dir) (t : PTrial) (wrapped : Option Bool) : Env := fun k _ =>
  let n := t.inter.length
  let scores := scoresByStep t
  let before := scores.take (n - (patience + 1))
  let after := scores.drop (n - (patience + 1))
  match k with
  | 0 => stepVal t
  | 1 => .i n
  | 2 => .i patience
  | 3 => .none
  | 4 => dirVal d
  | 5 => .x (nanMin before)
  | 6 => .x (.fin delta)
  | 7 => .x (nanMin after)
  | 8 => .x (nanMax before)
  | 9 => .x (nanMax after)
  | 10 => match wrapped with | some _ => .opq 10 | none => .none
  | 11 => match wrapped with | some b => .b b | none => .err
  | _ => .err

/-- the skeleton of `PatientPruner.prune` computes `maybe_prune` as the model's `patientMaybe` and then
delegates (`wrapped = some b`: the wrapped pruner answers `b`) or answers itself (`wrapped = none`) -/
theorem gen_patient_prune (patience : Nat) (delta : Rat) (d : Dir) (t : PTrial) (wrapped : Option Bool) :
    (interp (envPatient patience delta d t wrapped) 0 PrunersSkel.patientPrune).val =
      some (.b (if patientMaybe patience delta d t then wrapped.getD true else false)) := by
  unfold interp exec initSt PrunersSkel.patientPrune patientMaybe
  simp only [execWith, evalE, envPatient, veq, vcmp, varith, truthy, List.map_cons, List.map_nil, setLocal]
  have e1 : ((t.inter.length : Int) ≤ (patience : Int) + 1) ↔ t.inter.length ≤ patience + 1 := by omega
  simp only [e1]
  unfold stepVal
  cases hs : lastStep t.inter with
  | none =>
    have : t.inter = [] := lastStep_none hs
    simp [this, Res.val]
  | some stp =>
    by_cases h1 : t.inter.length ≤ patience + 1
    · simp [h1, Res.val]
    cases d
    · generalize xlt (xadd (nanMin (List.take (t.inter.length - (patience + 1)) (scoresByStep t))) (.fin delta))
        (nanMin (List.drop (t.inter.length - (patience + 1)) (scoresByStep t))) = m
      cases m <;> cases wrapped <;> simp [h1, dirVal, Res.val]
    · generalize xlt (nanMax (List.drop (t.inter.length - (patience + 1)) (scoresByStep t)))
        (xsub (nanMax (List.take (t.inter.length - (patience + 1)) (scoresByStep t))) (.fin delta)) = m
      cases m <;> cases wrapped <;> simp [h1, dirVal, Res.val]

/-! ## NopPruner.prune -/

theorem gen_nop_prune (env : Env) : (interp env 0 PrunersSkel.nopPrune).val = some (.b false) := by
  simp [interp, exec, initSt, PrunersSkel.nopPrune, execWith, evalE, Res.val]

/-! ## `_get_current_rung` -/

def envCurrentRung (rungs : List (Nat × XVal)) : Env := fun k st =>
  match k with
  | 0 => match st.locals with
    | [.i r] => .b (hasRung rungs r.toNat)
    | _ => .err
  | _ => .err

theorem iterWhile_currentRung (rungs : List (Nat × XVal)) : ∀ (f k : Nat) (eff : List (Nat × List Val)),
    hasRung rungs (currentRungFrom rungs f k) = false →
    iterWhile (envCurrentRung rungs) (.atom 0) (.set 0 (.add (.lvar 0) (.int 1)) .skip) (f + 1) ⟨[.i k], eff⟩ =
      .inr ⟨[.i (currentRungFrom rungs f k)], eff⟩ := by
  intro f
  induction f with
  | zero =>
    intro k eff h
    simp only [currentRungFrom] at h ⊢
    simp [iterWhile, evalE, envCurrentRung, truthy, h]
  | succ f ih =>
    intro k eff h
    simp only [currentRungFrom] at h ⊢
    cases hk : hasRung rungs k
    · simp only [hk, Bool.false_eq_true, if_false] at h ⊢
      simp [iterWhile, evalE, envCurrentRung, truthy, hk]
    · simp only [hk, if_true] at h ⊢
      have := ih (k + 1) eff h
      rw [iterWhile]
      simp only [evalE, envCurrentRung, truthy, Int.toNat_natCast, hk, execFlat, execWith, setLocal, varith,
        List.getD_cons_zero, List.set_cons_zero]
      have e : ((k : Int) + 1) = ((k + 1 : Nat) : Int) := by push_cast; rfl
      rw [e]
      exact this

/-- `_get_current_rung` (fuel: one more than the number of attributes) returns the model's `currentRung`,
provided the loop stops where the model says (true for every reachable trial: `current_rung_wf`) -/
theorem gen_current_rung (rungs : List (Nat × XVal)) (h : hasRung rungs (currentRung rungs) = false) :
    (interp (envCurrentRung rungs) (rungs.length + 1) PrunersSkel.currentRung).val = some (.i (currentRung rungs)) := by
  unfold interp exec initSt PrunersSkel.currentRung
  simp only [execWith, loopsOf, evalE, setLocal, List.map_cons, List.map_nil, List.set_cons_zero]
  have := iterWhile_currentRung rungs rungs.length 0 [] h
  simp only [Nat.cast_zero] at this
  rw [this]
  simp [execFlat, execWith, evalE, Res.val, currentRung]

/-- for a trial whose `completed_rung_k` keys are `0 … n-1` (every reachable trial, `reachable_wf`) -/
theorem current_rung_wf (rungs : List (Nat × XVal)) (h : rungs.map (·.1) = List.range rungs.length) :
    hasRung rungs (currentRung rungs) = false := by
  rw [currentRung_of_range h]
  unfold hasRung
  rw [rungGet_none_of_range h (Nat.le_refl _)]
  rfl

/-! ## `HyperbandPruner._get_bracket_id` -/

def envBracket (nPruners : Nat) (bs : List Nat) (h : Nat) : Env := fun k st =>
  match k with
  | 0 => .i nPruners
  | 1 => .i h
  | 2 => .i (bs.sum : Nat)
  | 3 => .i bs.length
  | 4 => match st.locals with
    | [_, .i b] => .i ((bs.getD b.toNat 0 : Nat) : Int)
    | _ => .err
  | _ => .err

def bracketBody : Prog :=
  .set 0 (.sub (.lvar 0) (.atom 4)) (.ite (.lt (.lvar 0) (.int 0)) (.ret 1 (.lvar 1)) .skip)

theorem iterFor_bracket (nP : Nat) (bs : List Nat) (h : Nat) : ∀ (todo i : Nat) (n : Int) (x : Val) (eff : List (Nat × List Val)),
    i + todo = bs.length →
    match iterFor (envBracket nP bs h) 1 bracketBody todo i ⟨[.i n, x], eff⟩ with
    | .inl r => ∃ b, bracketWalk (bs.drop i) n i = some b ∧ r.val = some (.i b)
    | .inr _ => bracketWalk (bs.drop i) n i = none := by
  intro todo
  induction todo with
  | zero =>
    intro i n x eff hi
    have : bs.drop i = [] := List.drop_eq_nil_of_le (by omega)
    simp [iterFor, this, bracketWalk]
  | succ todo ih =>
    intro i n x eff hi
    have hlt : i < bs.length := by omega
    have hd : bs.drop i = bs[i] :: bs.drop (i + 1) := List.drop_eq_getElem_cons hlt
    have hg : bs.getD i 0 = bs[i] := by simp [List.getD_eq_getElem?_getD, hlt]
    rw [hd]
    simp only [iterFor, bracketBody, execFlat, execWith, evalE, envBracket, setLocal, varith, vcmp, truthy,
      List.set_cons_zero, List.set_cons_succ, List.getD_cons_zero, List.getD_cons_succ, Int.toNat_natCast, hg, bracketWalk]
    by_cases hn : n - (bs[i] : Int) < 0
    · simp [hn, Res.val]
    · simp only [hn, decide_false, if_false]
      have := ih (i + 1) (n - (bs[i] : Int)) (.i (i : Int)) eff (by omega)
      exact this

theorem gen_bracket_id (nP nb eta h : Nat) (hP : nP ≠ 0) :
    match bracketId nb eta h with
    | some b => (interp (envBracket nP (budgets nb eta) h) 0 PrunersSkel.bracketId).val = some (.i b)
    | none => ∃ st, interp (envBracket nP (budgets nb eta) h) 0 PrunersSkel.bracketId = .raise 2 st := by
  unfold interp exec initSt PrunersSkel.bracketId bracketId
  have hP' : ¬ ((nP : Int) = 0) := by omega
  simp only [execWith, loopsOf, evalE, envBracket, veq, truthy, setLocal, hP', decide_false, List.map_cons, List.map_nil,
    List.set_cons_zero, Int.toNat_natCast]
  have hm : Int.fmod (h : Int) (((budgets nb eta).sum : Nat) : Int) = ((h % (budgets nb eta).sum : Nat) : Int) := by
    rw [Int.fmod_eq_emod_of_nonneg _ (by omega)]; push_cast; rfl
  rw [hm]
  have key := iterFor_bracket nP (budgets nb eta) h (budgets nb eta).length 0 ((h % (budgets nb eta).sum : Nat) : Int) .none []
    (by omega)
  simp only [List.drop_zero] at key
  change match iterFor (envBracket nP (budgets nb eta) h) 1 bracketBody _ _ _ with | .inl r => _ | .inr _ => _ at key
  revert key
  generalize hr : iterFor (envBracket nP (budgets nb eta) h) 1 bracketBody (budgets nb eta).length 0
    ⟨[.i ((h % (budgets nb eta).sum : Nat) : Int), .none], []⟩ = r
  intro key
  have hr' : iterFor (envBracket nP (budgets nb eta) h) 1
      (.set 0 (.sub (.lvar 0) (.atom 4)) (.ite (.lt (.lvar 0) (.int 0)) (.ret 1 (.lvar 1)) .skip))
      (budgets nb eta).length 0 ⟨[.i ((h % (budgets nb eta).sum : Nat) : Int), .none], []⟩ = r := hr
  rw [hr']
  cases r with
  | inl r =>
    obtain ⟨b, hb, hv⟩ := key
    simp only [hb]
    exact hv
  | inr st =>
    simp only [key]
    exact ⟨st, by simp [execFlat, execWith]⟩

theorem gen_bracket_id_uninitialised (bs : List Nat) (h : Nat) :
    (interp (envBracket 0 bs h) 0 PrunersSkel.bracketId).val = some (.i 0) := by
  simp [interp, exec, initSt, PrunersSkel.bracketId, execWith, evalE, envBracket, veq, truthy, Res.val]

/-! ## HyperbandPruner.prune -/

/-- `pre` / `post`: `len(self._pruners)` before and after `self._try_initialization(study)`;
`deleg`: what `self._pruners[bracket_id].prune(bracket_study, trial)` answers -/
def envHB (pre post : Nat) (deleg : Bool) : Env := fun k st =>
  match k with
  | 0 => .i (if st.effects.isEmpty then pre else post)
  | 1 => .none
  | 2 => .b deleg
  | _ => .err

/-- the delegated answer of the model: the successive-halving pruner of the trial's bracket on the trials of that bracket -/
def hbDelegate (c : HBCfg) (crc : Nat → Nat) (d : Dir) (trials : List PTrial) (n : Nat) (t : PTrial) : Bool :=
  match c.nBrackets with
  | none => false
  | some nb =>
    match bracketId nb c.eta (crc n) with
    | none => false
    | some b =>
      (shPrune { minResource := some c.minResource, eta := c.eta, rate := b, bootstrap := c.bootstrap }
        d (bracketTrials nb c.eta crc b trials) t).prune

/-- `HyperbandPruner.prune`: with `post = n_brackets` pruners after the initialisation attempt (0 when it did not
succeed) and `pre ∈ {0, post}` before it, the skeleton answers what the model's `hbPrune` answers -/
theorem gen_hb_prune (c : HBCfg) (crc : Nat → Nat) (d : Dir) (trials : List PTrial) (n : Nat) (t : PTrial)
    (pre : Nat) (hpre : pre = 0 ∨ pre = c.nBrackets.getD 0) :
    (interp (envHB pre (c.nBrackets.getD 0) (hbDelegate c crc d trials n t)) 0 PrunersSkel.hbPrune).val =
      some (.b (hbPrune c crc d trials n t).prune) := by
  unfold interp exec initSt PrunersSkel.hbPrune hbPrune hbDelegate
  simp only [execWith, evalE, envHB, veq, truthy, List.map_nil, List.isEmpty_nil, if_true]
  cases hnb : c.nBrackets with
  | none =>
    rcases hpre with rfl | rfl <;> simp [hnb, Res.val, noWrite]
  | some nb =>
    simp only [hnb, Option.getD_some] at hpre ⊢
    by_cases h0 : nb = 0
    · subst h0
      rcases hpre with rfl | rfl <;> simp [Res.val, noWrite]
    · have h0' : ¬ ((nb : Int) = 0) := by omega
      cases hb : bracketId nb c.eta (crc n) <;> rcases hpre with hp | hp <;>
        simp [hp, h0, h0', hb, Res.val, noWrite]

/-! ## SuccessiveHalvingPruner.prune -/

def shValue (t : PTrial) : XVal := (interGet t.inter (stepD t)).getD .nan

/-- the rung the loop is at: local 0 -/
def rungOf (st : St) : Nat :=
  match st.locals.getD 0 .err with
  | .i r => r.toNat
  | _ => 0

def envSH (c : SHCfg) (d : Dir) (trials : List PTrial) (t : PTrial) : Env := fun k st =>
  match k with
  | 0 => stepVal t
  | 1 => .i (currentRung t.rungs)
  | 2 => .opq 2
  | 3 => match estimateMinResource trials with | some m => .i m | none => .none
  | 4 => .i c.eta
  | 5 => .i c.rate
  | 6 => .x (shValue t)
  | 7 => .i (rungOf st)
  | 8 => .none
  | 9 => .opq 9
  | 10 => .i (competingValues trials (rungOf st) (shValue t)).length
  | 11 => .i c.bootstrap
  | 12 => .b ((isPromotable? (shValue t) (competingValues trials (rungOf st) (shValue t)) c.eta d).getD false)
  | 13 => match c.minResource with | some m => .i m | none => .none
  | _ => .err

/-- the body of the `while True:` of the generated skeleton -/
def shBody : Prog :=
  match PrunersSkel.shPrune.body with
  | .ite _ _ (.set _ _ (.set _ _ (.whileTrue b))) => b
  | _ => .skip

/-- the rungs for which `set_trial_system_attr(..., completed_rung_<rung>, value)` was executed -/
def writtenRungs (eff : List (Nat × List Val)) : List Val := eff.map (fun e => e.2.getD 0 .err)

def TrialsVal (tv : Val) : Prop := tv = .none ∨ tv = .opq 2

/-- the loop, once `self._min_resource` is an integer `m`: decision and writes of the model's `shLoop` -/
theorem sh_iter (c : SHCfg) (d : Dir) (trials : List PTrial) (t : PTrial) (m : Nat) (stp : Int)
    (hs : lastStep t.inter = some stp) :
    ∀ (fuel rung : Nat) (tv ps rk cp : Val) (eff : List (Nat × List Val)), TrialsVal tv →
      match shLoop c m d trials stp (shValue t) fuel rung with
      | some (b, hi) =>
        (iterTrue (envSH c d trials t) shBody fuel ⟨[.i rung, tv, .i m, ps, rk, cp], eff⟩).val = some (.b b) ∧
        writtenRungs (iterTrue (envSH c d trials t) shBody fuel ⟨[.i rung, tv, .i m, ps, rk, cp], eff⟩).effects =
          writtenRungs eff ++ (List.range' rung (hi - rung)).map (fun (k : Nat) => Val.i (k : Int))
      | none => iterTrue (envSH c d trials t) shBody fuel ⟨[.i rung, tv, .i m, ps, rk, cp], eff⟩ = .stuck := by
  intro fuel
  induction fuel with
  | zero => intro rung tv ps rk cp eff htv; simp [shLoop, iterTrue]
  | succ fuel ih =>
    intro rung tv ps rk cp eff htv
    have hstep : stepVal t = .i stp := by simp [stepVal, hs]
    have hpow : ((m : Int) * (c.eta : Int) ^ ((c.rate : Int) + (rung : Int)).toNat) = ((promotionStep m c.eta c.rate rung : Nat) : Int) := by
      have : ((c.rate : Int) + (rung : Int)).toNat = c.rate + rung := by omega
      rw [this]; unfold promotionStep; push_cast; rfl
    simp only [shLoop]
    by_cases h1 : stp < (promotionStep m c.eta c.rate rung : Int)
    · rcases htv with rfl | rfl <;>
        simp [iterTrue, shBody, PrunersSkel.shPrune, execFlat, execWith, evalE, envSH, truthy, varith, vcmp, setLocal, hstep, hpow,
          h1, Res.val, Res.effects, writtenRungs]
    by_cases h2 : xisNan (shValue t) = true
    · rcases htv with rfl | rfl <;>
        simp [iterTrue, shBody, PrunersSkel.shPrune, execFlat, execWith, evalE, envSH, truthy, varith, vcmp, setLocal, hstep, hpow,
          h1, h2, Res.val, Res.effects, writtenRungs]
    have h2' : xisNan (shValue t) = false := by simpa using h2
    have e3 : (((competingValues trials rung (shValue t)).length : Int) ≤ (c.bootstrap : Int)) ↔
        (competingValues trials rung (shValue t)).length ≤ c.bootstrap := by omega
    have hw : ∀ (x : List Val), writtenRungs (eff ++ [(8, Val.i (rung : Int) :: x)]) = writtenRungs eff ++ [Val.i (rung : Int)] := by
      intro x; simp [writtenRungs]
    have hone : List.range' rung (rung + 1 - rung) = [rung] := by
      have : rung + 1 - rung = 1 := by omega
      rw [this]; rfl
    by_cases h3 : (competingValues trials rung (shValue t)).length ≤ c.bootstrap
    · rcases htv with rfl | rfl <;>
        simp [iterTrue, shBody, PrunersSkel.shPrune, execFlat, execWith, evalE, envSH, truthy, varith, vcmp, setLocal, hstep, hpow,
          h1, h2', h3, e3, rungOf, Res.val, Res.effects, hw, hone]
    have hnext : ((rung : Int) + 1) = ((rung + 1 : Nat) : Int) := by push_cast; rfl
    cases h4 : isPromotable? (shValue t) (competingValues trials rung (shValue t)) c.eta d with
    | none =>
      rcases htv with rfl | rfl <;>
        simp [iterTrue, shBody, PrunersSkel.shPrune, execFlat, execWith, evalE, envSH, truthy, varith, vcmp, setLocal, hstep, hpow,
          h1, h2', h3, e3, h4, rungOf, Res.val, Res.effects, hw, hone]
    | some pb =>
      cases pb with
      | false =>
        rcases htv with rfl | rfl <;>
          simp [iterTrue, shBody, PrunersSkel.shPrune, execFlat, execWith, evalE, envSH, truthy, varith, vcmp, setLocal, hstep, hpow,
            h1, h2', h3, e3, h4, rungOf, Res.val, Res.effects, hw, hone]
      | true =>
        simp only [h1, h2', h3, if_false, Bool.false_eq_true]
        have key : ∀ (tv : Val), TrialsVal tv →
            iterTrue (envSH c d trials t) shBody (fuel + 1) ⟨[.i rung, tv, .i m, ps, rk, cp], eff⟩ =
            iterTrue (envSH c d trials t) shBody fuel
              ⟨[.i ((rung : Int) + 1), .opq 2, .i m, .i (promotionStep m c.eta c.rate rung : Nat), .i rung, .opq 9],
               eff ++ [(8, [.i rung, .opq 2, .i m, .i (promotionStep m c.eta c.rate rung : Nat), .i rung, cp])]⟩ := by
          intro tv htv
          rcases htv with rfl | rfl <;>
            simp [iterTrue, shBody, PrunersSkel.shPrune, execFlat, execWith, evalE, envSH, truthy, varith, vcmp, setLocal, hstep, hpow,
              h1, h2', h3, e3, h4, rungOf]
        rw [key tv htv, hnext]
        have := ih (rung + 1) (.opq 2) (.i (promotionStep m c.eta c.rate rung : Nat)) (.i rung) (.opq 9)
          (eff ++ [(8, [.i rung, .opq 2, .i m, .i (promotionStep m c.eta c.rate rung : Nat), .i rung, cp])]) (Or.inr rfl)
        cases hl : shLoop c m d trials stp (shValue t) fuel (rung + 1) with
        | none => simp only [hl] at this ⊢; exact this
        | some r =>
          obtain ⟨b, hi⟩ := r
          simp only [hl] at this ⊢
          have hhi := (shLoop_hi c m d trials stp (shValue t) fuel (rung + 1) b hi hl).1
          refine ⟨this.1, ?_⟩
          rw [this.2, hw]
          have : List.range' rung (hi - rung) = rung :: List.range' (rung + 1) (hi - (rung + 1)) := by
            have : hi - rung = (hi - (rung + 1)) + 1 := by omega
            rw [this, List.range'_succ]
          rw [this]
          simp

theorem estimateMinResource_pos (trials : List PTrial) (m : Nat) (h : estimateMinResource trials = some m) : 1 ≤ m := by
  unfold estimateMinResource at h
  simp only at h
  split at h
  · simp at h
  · simp only [Option.some.injEq] at h; omega

/-- "auto" `min_resource`: the first pass through the loop body estimates it (or returns False), then behaves as
the resolved loop -/
theorem sh_resolve (c : SHCfg) (d : Dir) (trials : List PTrial) (t : PTrial) (hc : c.minResource = none)
    (r : Nat) (ps rk cp : Val) (eff : List (Nat × List Val)) :
    (estimateMinResource trials = none →
      (execFlat (envSH c d trials t) shBody ⟨[.i r, .none, .none, ps, rk, cp], eff⟩).val = some (.b false) ∧
      (execFlat (envSH c d trials t) shBody ⟨[.i r, .none, .none, ps, rk, cp], eff⟩).effects = eff) ∧
    (∀ m, estimateMinResource trials = some m →
      execFlat (envSH c d trials t) shBody ⟨[.i r, .none, .none, ps, rk, cp], eff⟩ =
      execFlat (envSH c d trials t) shBody ⟨[.i r, .opq 2, .i m, ps, rk, cp], eff⟩) := by
  constructor
  · intro he
    simp [shBody, PrunersSkel.shPrune, execFlat, execWith, evalE, envSH, truthy, setLocal, he, Res.val, Res.effects]
  · intro m he
    simp [shBody, PrunersSkel.shPrune, execFlat, execWith, evalE, envSH, truthy, setLocal, he]

/-- **`SuccessiveHalvingPruner.prune`**: the generated skeleton (fuel = the model's: `step + 1` passes of the
`while True`) returns the model's decision and executes `set_trial_system_attr(…, completed_rung_<r>, value)` for
exactly the rungs `first ≤ r < hi` of the model, in order. -/
theorem gen_sh_prune (c : SHCfg) (d : Dir) (trials : List PTrial) (t : PTrial) (hv : c.Valid) :
    (interp (envSH c d trials t) ((stepD t).toNat + 1) PrunersSkel.shPrune).val = some (.b (shPrune c d trials t).prune) ∧
    writtenRungs (interp (envSH c d trials t) ((stepD t).toNat + 1) PrunersSkel.shPrune).effects =
      (List.range' (shPrune c d trials t).first ((shPrune c d trials t).hi - (shPrune c d trials t).first)).map
        (fun (k : Nat) => Val.i (k : Int)) := by
  have hbody : PrunersSkel.shPrune.body =
      .ite (.isNone (.atom 0)) (.ret 0 (.bool false)) (.set 0 (.atom 1) (.set 1 .none (.whileTrue shBody))) := by
    rfl
  unfold interp exec initSt shPrune
  rw [hbody]
  have hinit : PrunersSkel.shPrune.init = [.none, .none, (.atom 13), .none, .none, .none] := rfl
  rw [hinit]
  simp only [execWith, loopsOf, evalE, envSH, truthy, setLocal, List.map_cons, List.map_nil, List.set_cons_zero,
    List.set_cons_succ]
  unfold stepVal stepD
  cases hs : lastStep t.inter with
  | none => simp [Res.val, Res.effects, writtenRungs, noWrite]
  | some stp =>
    obtain ⟨v, hvv⟩ := interGet_isSome_of_mem (lastStep_spec hs).1
    have hval : shValue t = v := by simp [shValue, stepD, hs, hvv]
    simp only [Option.getD_some, hvv]
    unfold resolveMinResource
    cases hc : c.minResource with
    | some m =>
      simp only []
      have hm : 1 ≤ m := hv.2 m hc
      have hsome := C16.sh_loop_terminates c m d trials stp v (currentRung t.rungs) hm hv.1
      have key := sh_iter c d trials t m stp hs (stp.toNat + 1) (currentRung t.rungs) .none .none .none .none [] (Or.inl rfl)
      rw [hval] at key
      cases hl : shLoop c m d trials stp v (stp.toNat + 1) (currentRung t.rungs) with
      | none => rw [hl] at hsome; simp at hsome
      | some r =>
        obtain ⟨b, hi⟩ := r
        simp only [hl] at key ⊢
        simpa [writtenRungs] using key
    | none =>
      simp only []
      cases he : estimateMinResource trials with
      | none =>
        have := (sh_resolve c d trials t hc (currentRung t.rungs) .none .none .none []).1 he
        simp only [iterTrue]
        generalize execFlat (envSH c d trials t) shBody
          ⟨[.i (currentRung t.rungs), .none, .none, .none, .none, .none], []⟩ = r at this ⊢
        cases r <;> simp_all [Res.val, Res.effects, writtenRungs, noWrite]
      | some m =>
        have hm : 1 ≤ m := estimateMinResource_pos trials m he
        have hres := (sh_resolve c d trials t hc (currentRung t.rungs) .none .none .none []).2 m he
        have hsome := C16.sh_loop_terminates c m d trials stp v (currentRung t.rungs) hm hv.1
        have key := sh_iter c d trials t m stp hs (stp.toNat + 1) (currentRung t.rungs) (.opq 2) .none .none .none [] (Or.inr rfl)
        rw [hval] at key
        have hiter : iterTrue (envSH c d trials t) shBody (stp.toNat + 1)
              ⟨[.i (currentRung t.rungs), .none, .none, .none, .none, .none], []⟩ =
            iterTrue (envSH c d trials t) shBody (stp.toNat + 1)
              ⟨[.i (currentRung t.rungs), .opq 2, .i m, .none, .none, .none], []⟩ := by
          simp only [iterTrue, hres]
        rw [hiter]
        cases hl : shLoop c m d trials stp v (stp.toNat + 1) (currentRung t.rungs) with
        | none => rw [hl] at hsome; simp at hsome
        | some r =>
          obtain ⟨b, hi⟩ := r
          simp only [hl] at key ⊢
          simpa [writtenRungs] using key

/-! ## the helpers of successive halving -/

def envEstimate (trials : List PTrial) : Env := fun k _ =>
  let steps := (completedTrials trials).filterMap (fun t => lastStep t.inter)
  match k with
  | 0 => .i steps.length
  | 1 => match estimateMinResource trials with | some m => .i m | none => .err
  | _ => .err

/-- `_estimate_min_resource`: `None` exactly when no COMPLETE trial has a report (atom 0 = `n_steps`, whose
truthiness is "non-empty"; atom 1 = `max(last_step // 100, 1)`, the model's value) -/
theorem gen_estimate_min_resource (trials : List PTrial) :
    (interp (envEstimate trials) 0 PrunersSkel.estimateMinResource).val =
      some (match estimateMinResource trials with | some m => .i m | none => .none) := by
  unfold interp exec initSt PrunersSkel.estimateMinResource envEstimate estimateMinResource
  simp only [execWith, evalE, truthy, List.map_nil]
  cases h : (completedTrials trials).filterMap (fun t => lastStep t.inter) with
  | nil => simp [Res.val]
  | cons x rest =>
    have : ¬ ((rest.length : Int) + 1 = 0) := by omega
    simp [Res.val, this]

def envPromotable (value : XVal) (competing : List XVal) (eta : Nat) (d : Dir) : Env := fun k st =>
  let sorted := sortX competing
  match k with
  | 0 => .i ((competing.length / eta : Nat) : Int)
  | 1 => .none
  | 2 => dirVal d
  | 3 => .x value
  | 4 => match st.locals with
    | [.i idx] => if idx.toNat + 1 ≤ sorted.length then
        (match sorted[sorted.length - (idx.toNat + 1)]? with | some c => .x c | none => .err) else .err
    | _ => .err
  | 5 => match st.locals with
    | [.i idx] => (match sorted[idx.toNat]? with | some c => .x c | none => .err)
    | _ => .err
  | _ => .err

/-- `_is_trial_promotable_to_next_rung`: the promotable index (`len // rf - 1`, `-1` replaced by `0`), the sort, and the
comparison by direction are the model's `isPromotable?` (an index out of range — Python's IndexError, shown unreachable
in C16 — is `none` in the model and an error value here) -/
theorem gen_is_promotable (value : XVal) (competing : List XVal) (eta : Nat) (d : Dir) :
    (interp (envPromotable value competing eta d) 0 PrunersSkel.isPromotable).val =
      some (match isPromotable? value competing eta d with | some b => .b b | none => .err) := by
  unfold interp exec initSt PrunersSkel.isPromotable isPromotable? promotableIdx
  simp only [execWith, evalE, envPromotable, veq, varith, vcmp, truthy, setLocal, List.map_cons, List.map_nil,
    List.set_cons_zero, List.getD_cons_zero]
  generalize competing.length / eta = k
  by_cases h0 : k = 0
  · have e : ((k : Nat) : Int) - 1 = -1 := by omega
    cases d
    · cases hg : (sortX competing)[0]? <;>
        simp [h0, e, dirVal, Res.val, xle, hg]
    · by_cases hl : 0 + 1 ≤ (sortX competing).length
      · cases hg : (sortX competing)[(sortX competing).length - (0 + 1)]? <;>
          simp [h0, e, dirVal, Res.val, xle, hg, hl]
      · simp [h0, e, dirVal, Res.val, xle, hl]
  · have e : ¬ (((k : Nat) : Int) - 1 = -1) := by omega
    have et : (((k : Nat) : Int) - 1).toNat = k - 1 := by omega
    cases d
    · cases hg : (sortX competing)[k - 1]? <;>
        simp [h0, e, et, dirVal, Res.val, xle, hg]
    · by_cases hl : k - 1 + 1 ≤ (sortX competing).length
      · cases hg : (sortX competing)[(sortX competing).length - (k - 1 + 1)]? <;>
          simp [h0, e, et, dirVal, Res.val, xle, hg, hl]
      · simp [h0, e, et, dirVal, Res.val, xle, hl]

/-- `_get_competing_values`: the list comprehension (data statement), `append(value)`, return — pinned whole -/
theorem gen_competing_values (env : Env) :
    interp env 0 PrunersSkel.competingValues = .ret 0 (env 1 ⟨[], [(0, [])]⟩) ⟨[], [(0, [])]⟩ := rfl

/-! ## the tables: what every atom index, local and data statement IS (verbatim source text)

The environments above are indexed by atom number; these theorems pin the text each number stands for, the
re-assigned locals, and every data statement (array construction, slices, the calls whose value an atom names),
so that neither an operand swap inside a call nor a changed slice / helper call goes unnoticed. -/

theorem gen_percentilePrune_tables :
    PrunersSkel.percentilePrune.atoms = ["n_trials",
    "self._n_startup_trials",
    "step",
    "n_warmup_steps",
    "_is_first_in_interval_step(step, trial.intermediate_values.keys(), n_warmup_steps, self._interval_steps)",
    "best_intermediate_result",
    "p",
    "direction"] ∧
    PrunersSkel.percentilePrune.locals = [] ∧
    PrunersSkel.percentilePrune.data = ["completed_trials = study.get_trials(deepcopy=False, states=(TrialState.COMPLETE,))",
    "n_trials = len(completed_trials)",
    "step = trial.last_step",
    "n_warmup_steps = self._n_warmup_steps",
    "direction = study.direction",
    "best_intermediate_result = _get_best_intermediate_result_over_steps(trial, direction)",
    "p = _get_percentile_intermediate_result_over_trials(completed_trials, direction, step, self._percentile, self._n_min_trials)"] := ⟨rfl, rfl, rfl⟩

theorem gen_bestOverSteps_tables :
    PrunersSkel.bestOverSteps.atoms = ["direction",
    "np.nanmax(values)",
    "np.nanmin(values)"] ∧
    PrunersSkel.bestOverSteps.locals = [] ∧
    PrunersSkel.bestOverSteps.data = ["values = np.asarray(list(trial.intermediate_values.values()), dtype=float)"] := ⟨rfl, rfl, rfl⟩

theorem gen_percentileOverTrials_tables :
    PrunersSkel.percentileOverTrials.atoms = ["len(completed_trials)",
    "len(intermediate_values)",
    "n_min_trials",
    "direction",
    "float(-np.nanpercentile(-values, percentile))",
    "float(np.nanpercentile(values, percentile))"] ∧
    PrunersSkel.percentileOverTrials.locals = [] ∧
    PrunersSkel.percentileOverTrials.data = ["intermediate_values = [t.intermediate_values[step] for t in completed_trials if step in t.intermediate_values]",
    "values = np.array(intermediate_values, dtype=float)"] := ⟨rfl, rfl, rfl⟩

theorem gen_medianInit_tables :
    PrunersSkel.medianInit.atoms = ["super().__init__(50.0, n_startup_trials, n_warmup_steps, interval_steps, n_min_trials=n_min_trials)"] ∧
    PrunersSkel.medianInit.locals = [] ∧
    PrunersSkel.medianInit.data = [] := ⟨rfl, rfl, rfl⟩

theorem gen_thresholdPrune_tables :
    PrunersSkel.thresholdPrune.atoms = ["step",
    "n_warmup_steps",
    "_is_first_in_interval_step(step, trial.intermediate_values.keys(), n_warmup_steps, self._interval_steps)",
    "latest_value",
    "self._lower",
    "self._upper"] ∧
    PrunersSkel.thresholdPrune.locals = [] ∧
    PrunersSkel.thresholdPrune.data = ["step = trial.last_step",
    "n_warmup_steps = self._n_warmup_steps",
    "latest_value = trial.intermediate_values[step]"] := ⟨rfl, rfl, rfl⟩

theorem gen_patientPrune_tables :
    PrunersSkel.patientPrune.atoms = ["step",
    "steps.size",
    "self._patience",
    "steps.sort()",
    "direction",
    "np.nanmin(scores_before_patience)",
    "self._min_delta",
    "np.nanmin(scores_after_patience)",
    "np.nanmax(scores_before_patience)",
    "np.nanmax(scores_after_patience)",
    "self._wrapped_pruner",
    "self._wrapped_pruner.prune(study, trial)"] ∧
    PrunersSkel.patientPrune.locals = ["maybe_prune"] ∧
    PrunersSkel.patientPrune.data = ["step = trial.last_step",
    "intermediate_values = trial.intermediate_values",
    "steps = np.asarray(list(intermediate_values.keys()))",
    "steps_before_patience = steps[:-self._patience - 1]",
    "scores_before_patience = np.asarray(list((intermediate_values[step] for step in steps_before_patience)))",
    "steps_after_patience = steps[-self._patience - 1:]",
    "scores_after_patience = np.asarray(list((intermediate_values[step] for step in steps_after_patience)))",
    "direction = study.direction"] := ⟨rfl, rfl, rfl⟩

theorem gen_nopPrune_tables :
    PrunersSkel.nopPrune.atoms = [] ∧
    PrunersSkel.nopPrune.locals = [] ∧
    PrunersSkel.nopPrune.data = [] := ⟨rfl, rfl, rfl⟩

theorem gen_shPrune_tables :
    PrunersSkel.shPrune.atoms = ["step",
    "_get_current_rung(trial)",
    "study.get_trials(deepcopy=False)",
    "_estimate_min_resource(trials)",
    "self._reduction_factor",
    "self._min_early_stopping_rate",
    "value",
    "_completed_rung_key(rung)",
    "study._storage.set_trial_system_attr(trial._trial_id, rung_key, value)",
    "_get_competing_values(trials, value, rung_key)",
    "len(competing)",
    "self._bootstrap_count",
    "_is_trial_promotable_to_next_rung(value, competing, self._reduction_factor, study.direction)",
    "self._min_resource"] ∧
    PrunersSkel.shPrune.locals = ["rung", "trials", "self._min_resource", "rung_promotion_step", "rung_key", "competing"] ∧
    PrunersSkel.shPrune.data = ["step = trial.last_step",
    "value = trial.intermediate_values[step]",
    "assert self._min_resource is not None"] := ⟨rfl, rfl, rfl⟩

theorem gen_currentRung_tables :
    PrunersSkel.currentRung.atoms = ["_completed_rung_key(rung) in trial.system_attrs"] ∧
    PrunersSkel.currentRung.locals = ["rung"] ∧
    PrunersSkel.currentRung.data = [] := ⟨rfl, rfl, rfl⟩

theorem gen_completedRungKey_tables :
    PrunersSkel.completedRungKey.atoms = ["'completed_rung_{}'.format(rung)"] ∧
    PrunersSkel.completedRungKey.locals = [] ∧
    PrunersSkel.completedRungKey.data = [] := ⟨rfl, rfl, rfl⟩

theorem gen_estimateMinResource_tables :
    PrunersSkel.estimateMinResource.atoms = ["n_steps",
    "max(last_step // 100, 1)"] ∧
    PrunersSkel.estimateMinResource.locals = [] ∧
    PrunersSkel.estimateMinResource.data = ["n_steps = [t.last_step for t in trials if t.state == TrialState.COMPLETE and t.last_step is not None]",
    "last_step = max(n_steps)"] := ⟨rfl, rfl, rfl⟩

theorem gen_competingValues_tables :
    PrunersSkel.competingValues.atoms = ["competing_values.append(value)",
    "competing_values"] ∧
    PrunersSkel.competingValues.locals = [] ∧
    PrunersSkel.competingValues.data = ["competing_values = [t.system_attrs[rung_key] for t in trials if rung_key in t.system_attrs]"] := ⟨rfl, rfl, rfl⟩

theorem gen_isPromotable_tables :
    PrunersSkel.isPromotable.atoms = ["len(competing_values) // reduction_factor",
    "competing_values.sort()",
    "study_direction",
    "value",
    "competing_values[-(promotable_idx + 1)]",
    "competing_values[promotable_idx]"] ∧
    PrunersSkel.isPromotable.locals = ["promotable_idx"] ∧
    PrunersSkel.isPromotable.data = [] := ⟨rfl, rfl, rfl⟩

theorem gen_hbPrune_tables :
    PrunersSkel.hbPrune.atoms = ["len(self._pruners)",
    "self._try_initialization(study)",
    "self._pruners[bracket_id].prune(bracket_study, trial)"] ∧
    PrunersSkel.hbPrune.locals = [] ∧
    PrunersSkel.hbPrune.data = ["bracket_id = self._get_bracket_id(study, trial)",
    "_logger.debug('{}th bracket is selected'.format(bracket_id))",
    "bracket_study = self._create_bracket_study(study, bracket_id)"] := ⟨rfl, rfl, rfl⟩

theorem gen_bracketId_tables :
    PrunersSkel.bracketId.atoms = ["len(self._pruners)",
    "binascii.crc32('{}_{}'.format(study.study_name, trial.number).encode())",
    "self._total_trial_allocation_budget",
    "self._n_brackets",
    "self._trial_allocation_budgets[bracket_id]"] ∧
    PrunersSkel.bracketId.locals = ["n", "bracket_id"] ∧
    PrunersSkel.bracketId.data = ["assert self._n_brackets is not None"] := ⟨rfl, rfl, rfl⟩

theorem gen_bracketGetTrials_tables :
    PrunersSkel.bracketGetTrials.atoms = ["[t for t in trials if pruner._get_bracket_id(self, t) == self._bracket_id]"] ∧
    PrunersSkel.bracketGetTrials.locals = [] ∧
    PrunersSkel.bracketGetTrials.data = ["trials = super()._get_trials(deepcopy=deepcopy, states=states)",
    "pruner = self.pruner",
    "assert isinstance(pruner, HyperbandPruner)"] := ⟨rfl, rfl, rfl⟩

/-! ## the three skeletons without control flow: pinned whole -/

theorem gen_completed_rung_key (env : Env) :
    interp env 0 PrunersSkel.completedRungKey = .ret 0 (env 0 ⟨[], []⟩) ⟨[], []⟩ := rfl

theorem gen_bracket_get_trials (env : Env) :
    interp env 0 PrunersSkel.bracketGetTrials = .ret 0 (env 0 ⟨[], []⟩) ⟨[], []⟩ := rfl

/-- `MedianPruner.__init__` does nothing but call `PercentilePruner.__init__(50.0, …)` (atom 0, see the table) -/
theorem gen_median_init (env : Env) :
    interp env 0 PrunersSkel.medianInit = .ret 0 .none ⟨[], [(0, [])]⟩ := rfl

/-! ## every pruner through the interpreter, and the headline C16 theorems restated for it -/

def asBool : Option Val → Bool
  | some (.b v) => v
  | _ => false

/-- the successive-halving skeleton as Hyperband delegates to it -/
def hbDelegateSkel (c : HBCfg) (crc : Nat → Nat) (d : Dir) (trials : List PTrial) (n : Nat) (t : PTrial) : Bool :=
  match c.nBrackets with
  | none => false
  | some nb =>
    match bracketId nb c.eta (crc n) with
    | none => false
    | some b =>
      asBool (interp (envSH { minResource := some c.minResource, eta := c.eta, rate := b, bootstrap := c.bootstrap }
        d (bracketTrials nb c.eta crc b trials) t) ((stepD t).toNat + 1) PrunersSkel.shPrune).val

/-- `pruner.prune(study, trial)` computed by INTERPRETING THE GENERATED SKELETONS (the environments supply the
data: lengths, steps, nan-reductions, percentiles, competing values, crc32) -/
def skelPrune (crc : Nat → Nat) (s : Study) (n : Nat) (t : PTrial) : Pruner → Option Val
  | .nop => (interp (fun _ _ => .err) 0 PrunersSkel.nopPrune).val
  | .percentile c => (interp (envPercentile c s.dir s.trials t) 0 PrunersSkel.percentilePrune).val
  | .threshold c => (interp (envThreshold c t) 0 PrunersSkel.thresholdPrune).val
  | .sh c => (interp (envSH c s.dir s.trials t) ((stepD t).toNat + 1) PrunersSkel.shPrune).val
  | .hyperband c =>
    (interp (envHB (c.nBrackets.getD 0) (c.nBrackets.getD 0) (hbDelegateSkel c crc s.dir s.trials n t)) 0 PrunersSkel.hbPrune).val
  | .patient w k dl =>
    (interp (envPatient k dl s.dir t (some (asBool (skelPrune crc s n t w)))) 0 PrunersSkel.patientPrune).val
  | .patientNone k dl => (interp (envPatient k dl s.dir t none) 0 PrunersSkel.patientPrune).val

/-- the configurations for which the `while True:` of successive halving is known to end -/
def PrunerValid : Pruner → Prop
  | .sh c => c.Valid
  | .hyperband c => c.Valid
  | .patient w _ _ => PrunerValid w
  | _ => True

/-- **Interpreting the regenerated skeletons gives the model's decision, for every pruner** (all studies, trials,
parameter settings, both directions). -/
theorem skel_prune_eq (crc : Nat → Nat) (s : Study) (n : Nat) (t : PTrial) (p : Pruner) (hp : PrunerValid p) :
    skelPrune crc s n t p = some (.b (prune crc s n t p).prune) := by
  induction p with
  | nop => exact gen_nop_prune _
  | percentile c => exact gen_percentile_prune c s.dir s.trials t
  | threshold c => exact gen_threshold_prune c t
  | sh c => exact (gen_sh_prune c s.dir s.trials t hp).1
  | hyperband c =>
    have hd : hbDelegateSkel c crc s.dir s.trials n t = hbDelegate c crc s.dir s.trials n t := by
      unfold hbDelegateSkel hbDelegate
      cases c.nBrackets with
      | none => rfl
      | some nb =>
        simp only
        cases bracketId nb c.eta (crc n) with
        | none => rfl
        | some b =>
          simp only
          have hv : SHCfg.Valid { minResource := some c.minResource, eta := c.eta, rate := b, bootstrap := c.bootstrap } := by
            refine ⟨hp.1, ?_⟩
            intro m hm
            simp only [Option.some.injEq] at hm
            subst hm; exact hp.2
          rw [(gen_sh_prune _ s.dir (bracketTrials nb c.eta crc b s.trials) t hv).1]
          rfl
    simp only [skelPrune, hd]
    exact gen_hb_prune c crc s.dir s.trials n t _ (Or.inr rfl)
  | patient w k dl ih =>
    simp only [skelPrune, prune]
    rw [ih hp, gen_patient_prune]
    simp only [asBool, Option.getD_some]
    split <;> simp [noWrite]
  | patientNone k dl =>
    simp only [skelPrune, prune, gen_patient_prune, noWrite, Option.getD_none]
    split <;> simp_all

theorem protective_valid {p : Pruner} (h : C16.Protective p) : PrunerValid p := by
  induction h with
  | nop => trivial
  | percentile c _ _ => trivial
  | sh c hv _ => exact hv
  | hyperband c hv _ => exact hv
  | patient w k dl _ ih => exact ih

/-- no_prune_before_warmup, for the interpreter -/
theorem skel_no_prune_before_warmup (crc : Nat → Nat) (s : Study) (n : Nat) (t : PTrial) (p : Pruner) (hp : PrunerValid p)
    (w : Nat) (stp : Int) (hw : C16.nWarmup? p = some w) (hs : lastStep t.inter = some stp) (hlt : stp < (w : Int)) :
    skelPrune crc s n t p = some (.b false) := by
  rw [skel_prune_eq crc s n t p hp, C16.no_prune_before_warmup crc s n t p w stp hw hs hlt]

/-- no_prune_before_startup, for the interpreter -/
theorem skel_no_prune_before_startup (crc : Nat → Nat) (s : Study) (n : Nat) (t : PTrial) (p : Pruner) (hp : PrunerValid p)
    (k : Nat) (hk : C16.nStartup? p = some k) (hlt : (completedTrials s.trials).length < k) :
    skelPrune crc s n t p = some (.b false) := by
  rw [skel_prune_eq crc s n t p hp, C16.no_prune_before_startup crc s n t p k hk hlt]

/-- no_prune_off_interval, for the interpreter -/
theorem skel_no_prune_off_interval (crc : Nat → Nat) (s : Study) (n : Nat) (t : PTrial) (p : Pruner) (hp : PrunerValid p)
    (w i : Nat) (stp : Int) (hpi : C16.interval? p = some (w, i)) (hi : 1 ≤ i) (hs : lastStep t.inter = some stp)
    (hoff : ∃ s' ∈ interSteps t, C16.SameIntervalEarlier w i stp s') :
    skelPrune crc s n t p = some (.b false) := by
  rw [skel_prune_eq crc s n t p hp, C16.no_prune_off_interval crc s n t p w i stp hpi hi hs hoff]

/-- no_prune_within_patience, for the interpreter -/
theorem skel_no_prune_within_patience (crc : Nat → Nat) (s : Study) (n : Nat) (t : PTrial)
    (patience : Nat) (delta : Rat) (w : Option Pruner) (hw : ∀ w', w = some w' → PrunerValid w')
    (h : t.inter.length ≤ patience + 1 ∨
      ∃ u ∈ C16.recentScores t patience, xisNan u = false ∧
        ∀ b ∈ C16.earlierScores t patience, xisNan b = false → C16.WithinDelta s.dir delta u b) :
    (match w with
     | some w => skelPrune crc s n t (.patient w patience delta)
     | none => skelPrune crc s n t (.patientNone patience delta)) = some (.b false) := by
  have := C16.no_prune_within_patience crc s n t patience delta w h
  cases w with
  | some w' =>
    simp only at this ⊢
    rw [skel_prune_eq crc s n t (.patient w' patience delta) (hw w' rfl), this]
  | none =>
    simp only at this ⊢
    rw [skel_prune_eq crc s n t (.patientNone patience delta) trivial, this]

/-- threshold_prunes_iff, for the interpreter -/
theorem skel_threshold_prunes_iff (crc : Nat → Nat) (s : Study) (n : Nat) (t : PTrial) (c : ThresholdCfg) :
    skelPrune crc s n t (.threshold c) = some (.b true) ↔
      ∃ v, thresholdChecked c t = some v ∧ (xisNan v = true ∨ xlt v c.lower = true ∨ xlt c.upper v = true) := by
  rw [skel_prune_eq crc s n t (.threshold c) trivial, ← C16.threshold_prunes_iff crc s n t c]
  simp

/-- strictly_best_never_pruned, for the interpreter: over all histories, the trial that is strictly best at every
report is not pruned by the interpreted skeleton of any protective pruner -/
theorem skel_strictly_best_never_pruned (crc : Nat → Nat) (d : Dir) (ops : List Op) (n : Nat) (t : PTrial)
    (p : Pruner) (hp : C16.Protective p) (hb : C16.StrictlyBest (after crc (Study.init d) ops) n t) :
    skelPrune crc (after crc (Study.init d) ops) n t p = some (.b false) := by
  rw [skel_prune_eq crc _ n t p (protective_valid hp), C16.strictly_best_never_pruned crc d ops n t p hp hb]

/-- nop_never, for the interpreter -/
theorem skel_nop_never (crc : Nat → Nat) (s : Study) (n : Nat) (t : PTrial) : skelPrune crc s n t .nop = some (.b false) :=
  gen_nop_prune _

/-- non-vacuity: the interpreted skeletons on concrete studies — median prunes the worse trial and keeps it
before the warm-up; threshold prunes a NaN only at a checked step; patient prunes a stalled trial -/
example :
    skelPrune (fun _ => 0) ⟨.minimize, [⟨.complete, [(0, .fin 1)], []⟩]⟩ 1 ⟨.running, [(0, .fin 5)], []⟩ (Pruner.median 0 0 1 1) = some (.b true) ∧
    skelPrune (fun _ => 0) ⟨.minimize, [⟨.complete, [(0, .fin 1)], []⟩]⟩ 1 ⟨.running, [(0, .fin 5)], []⟩ (Pruner.median 0 1 1 1) = some (.b false) ∧
    skelPrune (fun _ => 0) ⟨.minimize, []⟩ 0 ⟨.running, [(0, .nan)], []⟩ (.threshold ⟨.fin 0, .fin 1, 0, 1⟩) = some (.b true) ∧
    skelPrune (fun _ => 0) ⟨.minimize, []⟩ 0 ⟨.running, [(0, .nan)], []⟩ (.threshold ⟨.fin 0, .fin 1, 1, 1⟩) = some (.b false) ∧
    skelPrune (fun _ => 0) ⟨.minimize, []⟩ 0 ⟨.running, [(0, .fin 3), (1, .fin 2), (2, .fin 3), (3, .fin 3)], []⟩ (.patientNone 1 0) = some (.b true) ∧
    skelPrune (fun _ => 0) ⟨.minimize, [⟨.running, [(1, .fin 0)], []⟩]⟩ 0 ⟨.running, [(1, .fin 0)], []⟩ (.sh ⟨some 1, 2, 0, 1⟩) = some (.b true) ∧
    skelPrune (fun _ => 0) ⟨.minimize, [⟨.running, [(1, .fin 0)], []⟩]⟩ 0 ⟨.running, [(1, .fin 0)], []⟩ (.sh ⟨some 1, 2, 0, 0⟩) = some (.b false) := by
  decide +kernel

end OptunaVerif.C16SkelGen
